import Mathlib.Data.List.Nodup
import RV.C04.QueryLemmas
/-
  C04 — CONSTRUCT with template blank nodes.  `_fillTemplate` mints, for every solution, one `BNode()` per
  template label in the order the labels first occur in the template (also for triples it then skips); with the
  supply `mint` and the counter threaded through the solutions this is the specification's instantiation
  (`Spec.instNamed`) under the naming  solution j, label l  ↦  mint (k + j·m + index of l).
-/
namespace RV.C04
open Spec Model
variable {n : Nat}

/-! ### the labels of a template, in the order `_fillTemplate` meets them -/

def addLabel (L : List Nat) : TPos → List Nat
  | .blank l => if l ∈ L then L else L ++ [l]
  | _ => L

def addLabelsTP (L : List Nat) (tp : TTP) : List Nat := addLabel (addLabel (addLabel L tp.1) tp.2.1) tp.2.2

def addLabelsTpl (L : List Nat) : List TTP → List Nat
  | [] => L
  | tp :: rest => addLabelsTpl (addLabelsTP L tp) rest

def tplLabels (tpl : List TTP) : List Nat := addLabelsTpl [] tpl

/-- position of the first occurrence -/
def idx (l : Nat) : List Nat → Nat
  | [] => 0
  | x :: xs => if x = l then 0 else idx l xs + 1

/-- the dict after the labels `L` were minted starting at counter `k` -/
def encFrom (mint : Nat → Term) : Nat → List Nat → BMap
  | _, [] => []
  | k, l :: L => (l, mint k) :: encFrom mint (k + 1) L

/-- the node of label `l` when the labels `L` are minted from counter `k` -/
def nameOf (mint : Nat → Term) (k : Nat) (L : List Nat) (l : Nat) : Term := mint (k + idx l L)

theorem idx_append_of_mem {l : Nat} : ∀ {L : List Nat} (M : List Nat), l ∈ L → idx l (L ++ M) = idx l L
  | [], _, h => by cases h
  | x :: xs, M, h => by
    simp only [List.cons_append, idx]
    by_cases hx : x = l
    · simp [hx]
    · simp only [hx, if_false]
      have hm : l ∈ xs := by
        rcases List.mem_cons.mp h with e | e
        · exact absurd e.symm hx
        · exact e
      rw [idx_append_of_mem M hm]

theorem idx_append_of_not_mem {l : Nat} : ∀ {L : List Nat}, l ∉ L → idx l (L ++ [l]) = L.length
  | [], _ => by simp [idx]
  | x :: xs, h => by
    have hx : ¬ x = l := fun e => h (by simp [e])
    simp only [List.cons_append, idx, hx, if_false, List.length_cons]
    rw [idx_append_of_not_mem (fun hm => h (List.mem_cons_of_mem _ hm))]

theorem encFrom_append (mint : Nat → Term) : ∀ (k : Nat) (L : List Nat) (l : Nat),
    encFrom mint k (L ++ [l]) = encFrom mint k L ++ [(l, mint (k + L.length))]
  | k, [], l => by simp [encFrom]
  | k, x :: xs, l => by
    simp only [List.cons_append, encFrom, encFrom_append mint (k + 1) xs l, List.length_cons]
    have : k + 1 + xs.length = k + (xs.length + 1) := by omega
    rw [this]

theorem bmLookup_encFrom (mint : Nat → Term) : ∀ (k : Nat) (L : List Nat) (l : Nat),
    bmLookup (encFrom mint k L) l = if l ∈ L then some (mint (k + idx l L)) else none
  | k, [], l => by simp [encFrom, bmLookup]
  | k, x :: xs, l => by
    simp only [encFrom, bmLookup, idx]
    by_cases hx : x = l
    · simp [hx]
    · simp only [hx, if_false, bmLookup_encFrom mint (k + 1) xs l, List.mem_cons]
      have : ¬ l = x := fun e => hx e.symm
      simp only [this, false_or]
      split
      · congr 2; omega
      · rfl

/-- a prefix relation that is convenient here -/
def IsPre (L Lf : List Nat) : Prop := ∃ M, Lf = L ++ M

theorem IsPre.refl (L : List Nat) : IsPre L L := ⟨[], by simp⟩
theorem IsPre.trans {A B C : List Nat} (h1 : IsPre A B) (h2 : IsPre B C) : IsPre A C := by
  obtain ⟨M, rfl⟩ := h1; obtain ⟨N, rfl⟩ := h2; exact ⟨M ++ N, by simp⟩

theorem isPre_addLabel (L : List Nat) (x : TPos) : IsPre L (addLabel L x) := by
  cases x with
  | blank l =>
    simp only [addLabel]
    split
    · exact IsPre.refl L
    · exact ⟨[l], rfl⟩
  | var _ => exact IsPre.refl L
  | const _ => exact IsPre.refl L

theorem isPre_addLabelsTP (L : List Nat) (tp : TTP) : IsPre L (addLabelsTP L tp) :=
  ((isPre_addLabel L tp.1).trans (isPre_addLabel _ tp.2.1)).trans (isPre_addLabel _ tp.2.2)

theorem isPre_addLabelsTpl : ∀ (tpl : List TTP) (L : List Nat), IsPre L (addLabelsTpl L tpl)
  | [], L => IsPre.refl L
  | tp :: rest, L => (isPre_addLabelsTP L tp).trans (isPre_addLabelsTpl rest _)

theorem nameOf_pre (mint : Nat → Term) (k : Nat) {L Lf : List Nat} (h : IsPre L Lf) {l : Nat} (hl : l ∈ L) :
    nameOf mint k Lf l = nameOf mint k L l := by
  obtain ⟨M, rfl⟩ := h
  simp only [nameOf, idx_append_of_mem M hl]

theorem mem_addLabel_self (L : List Nat) (l : Nat) : l ∈ addLabel L (.blank l) := by
  simp only [addLabel]
  split
  · assumption
  · simp

/-- one position: the dict / counter after it, and the term, in closed form -/
theorem fillPos_closed (mint : Nat → Term) (μ : Row n) (k : Nat) (L : List Nat) (x : TPos) :
    Model.fillPos mint μ (encFrom mint k L, k + L.length) x =
      (instPosN (nameOf mint k (addLabel L x)) μ x,
       (encFrom mint k (addLabel L x), k + (addLabel L x).length)) := by
  cases x with
  | var v => simp [Model.fillPos, instPosN, addLabel]
  | const t => simp [Model.fillPos, instPosN, addLabel]
  | blank l =>
    simp only [Model.fillPos, bnodeGet, bmLookup_encFrom, instPosN, addLabel]
    by_cases hl : l ∈ L
    · simp [hl, nameOf]
    · simp only [hl, if_false, nameOf, idx_append_of_not_mem hl, encFrom_append, List.length_append,
        List.length_singleton]
      simp [Nat.add_assoc]

theorem instPosN_congr {ν ν' : Nat → Term} (μ : Row n) (x : TPos)
    (h : ∀ l, x = .blank l → ν l = ν' l) : instPosN ν μ x = instPosN ν' μ x := by
  cases x with
  | blank l => simp [instPosN, h l rfl]
  | var _ => rfl
  | const _ => rfl

theorem legal_eq (a b c : Option Term) :
    Model.legalTriple a b c =
      (match a, b, c with
       | some s, some p, some o => if Spec.isSubject s && Spec.isPredicate p then some (s, p, o) else none
       | _, _, _ => none) := by
  cases a <;> cases b <;> cases c <;> try rfl
  rename_i s p o
  simp only [Model.legalTriple]
  have := isLiteral_isURIRef s p
  cases h : (Spec.isSubject s && Spec.isPredicate p) <;> simp_all

/-- one template triple in closed form, with the names taken from any later label list -/
theorem fillTriple_closed (mint : Nat → Term) (μ : Row n) (k : Nat) (L Lf : List Nat) (tp : TTP)
    (hpre : IsPre (addLabelsTP L tp) Lf) :
    Model.fillTriple mint μ (encFrom mint k L, k + L.length) tp =
      (instTripleN (nameOf mint k Lf) μ tp,
       (encFrom mint k (addLabelsTP L tp), k + (addLabelsTP L tp).length)) := by
  have p1 := fillPos_closed mint μ k L tp.1
  have p2 := fillPos_closed mint μ k (addLabel L tp.1) tp.2.1
  have p3 := fillPos_closed mint μ k (addLabel (addLabel L tp.1) tp.2.1) tp.2.2
  have pre1 : IsPre (addLabel L tp.1) Lf :=
    ((isPre_addLabel _ tp.2.1).trans (isPre_addLabel _ tp.2.2)).trans hpre
  have pre2 : IsPre (addLabel (addLabel L tp.1) tp.2.1) Lf := (isPre_addLabel _ tp.2.2).trans hpre
  have n1 : instPosN (nameOf mint k (addLabel L tp.1)) μ tp.1 = instPosN (nameOf mint k Lf) μ tp.1 :=
    instPosN_congr μ _ (fun l hl =>
      (nameOf_pre mint k pre1 (by rw [hl]; exact mem_addLabel_self L l)).symm)
  have n2 : instPosN (nameOf mint k (addLabel (addLabel L tp.1) tp.2.1)) μ tp.2.1 =
      instPosN (nameOf mint k Lf) μ tp.2.1 :=
    instPosN_congr μ _ (fun l hl =>
      (nameOf_pre mint k pre2 (by rw [hl]; exact mem_addLabel_self _ l)).symm)
  have n3 : instPosN (nameOf mint k (addLabel (addLabel (addLabel L tp.1) tp.2.1) tp.2.2)) μ tp.2.2 =
      instPosN (nameOf mint k Lf) μ tp.2.2 :=
    instPosN_congr μ _ (fun l hl =>
      (nameOf_pre mint k hpre (by
        show l ∈ addLabel (addLabel (addLabel L tp.1) tp.2.1) tp.2.2
        rw [hl]; exact mem_addLabel_self _ l)).symm)
  simp only [Model.fillTriple, p1, p2, p3, instTripleN, legal_eq, n1, n2, n3]
  rfl

/-- `_fillTemplate` for one solution, in closed form -/
theorem fillTemplate_closed (mint : Nat → Term) (μ : Row n) (k : Nat) : ∀ (tpl : List TTP) (L Lf : List Nat),
    IsPre (addLabelsTpl L tpl) Lf →
    Model.fillTemplate mint μ tpl (encFrom mint k L, k + L.length) =
      (tpl.filterMap (instTripleN (nameOf mint k Lf) μ),
       (encFrom mint k (addLabelsTpl L tpl), k + (addLabelsTpl L tpl).length))
  | [], L, Lf, _ => by simp [Model.fillTemplate, addLabelsTpl]
  | tp :: rest, L, Lf, hpre => by
    have hpre' : IsPre (addLabelsTP L tp) Lf := (isPre_addLabelsTpl rest _).trans hpre
    have ih := fillTemplate_closed mint μ k rest (addLabelsTP L tp) Lf hpre
    simp only [Model.fillTemplate, fillTriple_closed mint μ k L Lf tp hpre', ih, addLabelsTpl,
      List.filterMap_cons]
    cases instTripleN (nameOf mint k Lf) μ tp <;> rfl

/-- the namings of `c` consecutive solutions when the counter starts at `k` and each solution mints `m` nodes -/
def namers (mint : Nat → Term) (Lf : List Nat) : Nat → Nat → List (Nat → Term)
  | _, 0 => []
  | k, c + 1 => nameOf mint k Lf :: namers mint Lf (k + Lf.length) c

theorem length_namers (mint : Nat → Term) (Lf : List Nat) : ∀ (k c : Nat), (namers mint Lf k c).length = c
  | _, 0 => rfl
  | k, c + 1 => by simp [namers, length_namers mint Lf (k + Lf.length) c]

/-- `evalConstructQuery`'s loop in closed form -/
theorem fillAll_closed (mint : Nat → Term) (tpl : List TTP) : ∀ (X : List (Row n)) (k : Nat),
    Model.fillAll mint tpl X k = instNamed tpl (X.zip (namers mint (tplLabels tpl) k X.length))
  | [], k => by simp [Model.fillAll, instNamed]
  | μ :: rest, k => by
    have h := fillTemplate_closed mint μ k tpl [] (tplLabels tpl) (IsPre.refl _)
    simp only [encFrom, List.length_nil, Nat.add_zero] at h
    have e : addLabelsTpl [] tpl = tplLabels tpl := rfl
    rw [e] at h
    simp only [Model.fillAll, h, List.length_cons, namers, List.zip_cons_cons, instNamed]
    rw [fillAll_closed mint tpl rest (k + (tplLabels tpl).length)]

end RV.C04

namespace RV.C04
open Spec Model
variable {n : Nat}

/-! ### the same solutions in another order: the namings are permuted along -/

theorem perm_zip {α β : Type} {l1 l2 : List α} (h : l1.Perm l2) :
    ∀ (N1 : List β), N1.length = l1.length →
      ∃ N2 : List β, N2.Perm N1 ∧ N2.length = l2.length ∧ (l1.zip N1).Perm (l2.zip N2) := by
  induction h with
  | nil => intro N1 h; exact ⟨[], by cases N1 <;> simp_all, rfl, by simp⟩
  | cons a _ ih =>
    intro N1 h
    cases N1 with
    | nil => simp at h
    | cons b N1' =>
      obtain ⟨N2, hp, hl, hz⟩ := ih N1' (by simpa using h)
      exact ⟨b :: N2, hp.cons b, by simp [hl], by simpa using hz.cons (a, b)⟩
  | swap a b l =>
    intro N1 h
    cases N1 with
    | nil => simp at h
    | cons n1 N1' =>
      cases N1' with
      | nil => simp at h
      | cons n2 N =>
        refine ⟨n2 :: n1 :: N, List.Perm.swap n1 n2 N, by simpa using h, ?_⟩
        simpa using List.Perm.swap (a, n2) (b, n1) (l.zip N)
  | trans _ _ ih1 ih2 =>
    intro N1 h
    obtain ⟨N2, hp2, hl2, hz2⟩ := ih1 N1 h
    obtain ⟨N3, hp3, hl3, hz3⟩ := ih2 N2 hl2
    exact ⟨N3, hp3.trans hp2, hl3, hz2.trans hz3⟩

theorem instNamed_eq_flatMap (tpl : List TTP) : ∀ (Z : List (Row n × (Nat → Term))),
    instNamed tpl Z = Z.flatMap (fun z => tpl.filterMap (instTripleN z.2 z.1))
  | [] => rfl
  | (μ, ν) :: rest => by simp [instNamed, instNamed_eq_flatMap tpl rest]

theorem instNamed_perm (tpl : List TTP) {Z1 Z2 : List (Row n × (Nat → Term))} (h : Z1.Perm Z2) :
    (instNamed tpl Z1).Perm (instNamed tpl Z2) := by
  rw [instNamed_eq_flatMap, instNamed_eq_flatMap]
  exact List.Perm.flatMap_right _ h

/-- a template triple only looks at the template's variables (named version) -/
theorem instTripleN_restrict (ν : Nat → Term) (μ : Row n) (pv : List Nat) (tp : TTP)
    (h : ∀ v ∈ tposVars tp.1 ++ tposVars tp.2.1 ++ tposVars tp.2.2, v ∈ pv ∨ μ.get v = none) :
    instTripleN ν (μ.restrict pv) tp = instTripleN ν μ tp := by
  have e : ∀ x : TPos, (∀ v ∈ tposVars x, v ∈ pv ∨ μ.get v = none) →
      instPosN ν (μ.restrict pv) x = instPosN ν μ x := by
    intro x hx
    cases x with
    | var v =>
      simp only [instPosN, Row.get_restrict]
      rcases hx v (by simp [tposVars]) with h | h
      · simp [h]
      · simp [h]
    | const _ => rfl
    | blank _ => rfl
  simp only [instTripleN]
  rw [e tp.1 (fun v hv => h v (by simp [hv])), e tp.2.1 (fun v hv => h v (by simp [hv])),
      e tp.2.2 (fun v hv => h v (by simp [hv]))]

theorem instNamed_map_restrict (tpl : List TTP) (pv : List Nat) : ∀ (Ω : List (Row n)) (N : List (Nat → Term)),
    (∀ μ ∈ Ω, ∀ tp ∈ tpl, ∀ ν, instTripleN ν (μ.restrict pv) tp = instTripleN ν μ tp) →
    instNamed tpl ((Ω.map (·.restrict pv)).zip N) = instNamed tpl (Ω.zip N)
  | [], _, _ => by simp [instNamed]
  | μ :: rest, [], _ => by simp [instNamed]
  | μ :: rest, ν :: N, h => by
    simp only [List.map_cons, List.zip_cons_cons, instNamed]
    rw [instNamed_map_restrict tpl pv rest N (fun μ' hμ' => h μ' (List.mem_cons_of_mem _ hμ'))]
    congr 1
    apply List.filterMap_congr
    intro tp htp
    exact h μ (by simp) tp htp ν

/-! ### the minted nodes are pairwise distinct -/

theorem nodup_addLabel {L : List Nat} (h : L.Nodup) (x : TPos) : (addLabel L x).Nodup := by
  cases x with
  | blank l =>
    simp only [addLabel]
    split
    · exact h
    · next hl =>
      rw [List.nodup_append]
      exact ⟨h, by simp, by intro a ha b hb; simp at hb; subst hb; intro e; subst e; exact hl ha⟩
  | var _ => exact h
  | const _ => exact h

theorem nodup_addLabelsTpl : ∀ (tpl : List TTP) {L : List Nat}, L.Nodup → (addLabelsTpl L tpl).Nodup
  | [], _, h => h
  | tp :: rest, _, h =>
    nodup_addLabelsTpl rest (nodup_addLabel (nodup_addLabel (nodup_addLabel h tp.1) tp.2.1) tp.2.2)

theorem nodup_tplLabels (tpl : List TTP) : (tplLabels tpl).Nodup := nodup_addLabelsTpl tpl List.nodup_nil

/-- in a duplicate-free list the labels have the indices 0, 1, 2, … -/
theorem map_idx_range : ∀ {L : List Nat}, L.Nodup → ∀ (P : List Nat), (∀ l ∈ L, l ∉ P) →
    L.map (fun l => idx l (P ++ L)) = List.range' P.length L.length
  | [], _, P, _ => by simp
  | x :: xs, h, P, hP => by
    rw [List.nodup_cons] at h
    have hx : x ∉ P := hP x (by simp)
    have e : ∀ l, idx l (P ++ x :: xs) = idx l ((P ++ [x]) ++ xs) := by intro l; simp
    simp only [List.map_cons, List.length_cons, List.range'_succ]
    congr 1
    · have : idx x (P ++ x :: xs) = idx x ((P ++ [x]) ++ xs) := e x
      rw [this, idx_append_of_mem xs (by simp), idx_append_of_not_mem hx]
    · have ih := map_idx_range h.2 (P ++ [x]) (by
        intro l hl hm
        rcases List.mem_append.mp hm with hm | hm
        · exact hP l (List.mem_cons_of_mem _ hl) hm
        · simp at hm; subst hm; exact h.1 hl)
      simp only [List.length_append, List.length_singleton] at ih
      rw [← ih]
      apply List.map_congr_left
      intro l _
      exact e l

theorem map_nameOf (mint : Nat → Term) (k : Nat) {L : List Nat} (h : L.Nodup) :
    L.map (nameOf mint k L) = (List.range L.length).map (fun i => mint (k + i)) := by
  have := map_idx_range h [] (by simp)
  simp only [List.nil_append, List.length_nil] at this
  have e : L.map (nameOf mint k L) = (L.map (fun l => idx l L)).map (fun i => mint (k + i)) := by
    simp [nameOf, List.map_map, Function.comp]
  rw [e, this, List.range_eq_range']

/-- all nodes minted for `c` solutions from counter `k` -/
theorem minted_eq (mint : Nat → Term) {L : List Nat} (h : L.Nodup) : ∀ (c k : Nat),
    (namers mint L k c).flatMap (fun ν => L.map ν) = (List.range (c * L.length)).map (fun i => mint (k + i))
  | 0, k => by simp [namers]
  | c + 1, k => by
    simp only [namers, List.flatMap_cons, map_nameOf mint k h, minted_eq mint h c (k + L.length)]
    have : (c + 1) * L.length = L.length + c * L.length := by rw [Nat.add_mul, Nat.one_mul, Nat.add_comm]
    rw [this, List.range_add, List.map_append, List.map_map]
    congr 1
    apply List.map_congr_left
    intro i _
    simp [Function.comp, Nat.add_assoc]

theorem nodup_minted (mint : Nat → Term) (hinj : Function.Injective mint) {L : List Nat} (h : L.Nodup)
    (c k : Nat) : ((namers mint L k c).flatMap (fun ν => L.map ν)).Nodup := by
  rw [minted_eq mint h]
  refine List.Pairwise.map _ ?_ List.nodup_range
  intro a b hab e
  have := hinj e
  omega

theorem namers_are_minted (mint : Nat → Term) (L : List Nat) : ∀ (c k : Nat),
    ∀ ν ∈ namers mint L k c, ∀ l, ∃ j, ν l = mint j
  | 0, _, ν, h, _ => by simp [namers] at h
  | c + 1, k, ν, h, l => by
    simp only [namers, List.mem_cons] at h
    rcases h with rfl | h
    · exact ⟨k + idx l L, rfl⟩
    · exact namers_are_minted mint L c _ ν h l

/-! ### the specification's canonical naming -/

theorem instTripleN_fresh (μ : Row n) (i : Nat) (tp : TTP) :
    instTripleN (Term.fresh i) μ tp = Spec.instTriple μ i tp := by
  have e : ∀ x : TPos, instPosN (Term.fresh i) μ x = Spec.instPos μ i x := by intro x; cases x <;> rfl
  simp only [instTripleN, Spec.instTriple, e]

/-- `Spec.instTemplate` is `instNamed` under the names `Term.fresh i` for solution number `i` -/
theorem instTemplate_eq_instNamed (tpl : List TTP) : ∀ (Ω : List (Row n)) (i : Nat),
    Spec.instTemplate tpl Ω i = instNamed tpl (Ω.zip ((List.range' i Ω.length).map Term.fresh))
  | [], _ => by simp [Spec.instTemplate, instNamed]
  | μ :: rest, i => by
    simp only [Spec.instTemplate, List.length_cons, List.range'_succ, List.map_cons, List.zip_cons_cons, instNamed,
      instTemplate_eq_instNamed tpl rest (i + 1)]
    congr 1

/-- a blank-node-free template does not look at the naming -/
theorem mem_instNamed_ground {tpl : List TTP}
    (hg : ∀ tp ∈ tpl, tp.1.isBlank = false ∧ tp.2.1.isBlank = false ∧ tp.2.2.isBlank = false) (t : Triple) :
    ∀ (Ω : List (Row n)) (N : List (Nat → Term)), N.length = Ω.length →
      (t ∈ instNamed tpl (Ω.zip N) ↔ ∃ μ ∈ Ω, ∃ tp ∈ tpl, Spec.instTriple μ 0 tp = some t)
  | [], N, _ => by simp [instNamed]
  | μ :: rest, [], h => by simp at h
  | μ :: rest, ν :: N, h => by
    have ih := mem_instNamed_ground hg t rest N (by simpa using h)
    simp only [List.zip_cons_cons, instNamed, List.mem_append, List.mem_filterMap, ih, List.mem_cons,
      exists_eq_or_imp]
    apply or_congr_left
    have key : ∀ tp ∈ tpl, instTripleN ν μ tp = Spec.instTriple μ 0 tp := by
      intro tp htp
      obtain ⟨h1, h2, h3⟩ := hg tp htp
      have e : ∀ x : TPos, x.isBlank = false → instPosN ν μ x = Spec.instPos μ 0 x := by
        intro x hx; cases x <;> simp_all [instPosN, Spec.instPos, TPos.isBlank]
      simp only [instTripleN, Spec.instTriple, e _ h1, e _ h2, e _ h3]
    constructor
    · rintro ⟨tp, htp, ht⟩; exact ⟨tp, htp, by rw [← key tp htp]; exact ht⟩
    · rintro ⟨tp, htp, ht⟩; exact ⟨tp, htp, by rw [key tp htp]; exact ht⟩

/-- the canonical names `Term.fresh i l` are pairwise distinct -/
theorem nodup_canonical (tpl : List TTP) (s c : Nat) :
    (((List.range' s c).map Term.fresh).flatMap (fun ν => (tplLabels tpl).map ν)).Nodup := by
  rw [List.nodup_flatMap]
  refine ⟨?_, ?_⟩
  · intro ν hν
    obtain ⟨i, _, rfl⟩ := List.mem_map.mp hν
    exact List.Pairwise.map _ (fun a b hab e => hab (by cases e; rfl)) (nodup_tplLabels tpl)
  · refine List.Pairwise.map _ ?_ (List.nodup_range' (s := s) (n := c))
    intro i j hij
    simp only [Function.onFun, List.disjoint_left]
    intro t h1 h2
    obtain ⟨l1, _, rfl⟩ := List.mem_map.mp h1
    obtain ⟨l2, _, e⟩ := List.mem_map.mp h2
    cases e
    exact hij rfl

end RV.C04
