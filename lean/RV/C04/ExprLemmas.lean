import RV.C04.BagLemmas
import RV.C04.Safe
/-
  C04 — expressions without EXISTS: rdflib's evaluation (`Model.evalExpr`) is the
  specification's (§17) and only looks at the variables of the expression.
-/
namespace RV.C04
open Spec Model
variable {n : Nat}

theorem evalExprM_congr {D : Dataset} {g : Graph} {c1 c2 : Row n} :
    ∀ (e : Expr), e.existsFree = true → (∀ v ∈ e.vars, c1.get v = c2.get v) →
      Model.evalExpr D g c1 e = Model.evalExpr D g c2 e
  | .var v, _, h => by simp [Model.evalExpr, h v (by simp [Expr.vars])]
  | .const _, _, _ => by simp [Model.evalExpr]
  | .bound v, _, h => by simp [Model.evalExpr, h v (by simp [Expr.vars])]
  | .cmp op a b, hf, h => by
    simp only [Expr.existsFree, Bool.and_eq_true] at hf
    simp only [Model.evalExpr]
    rw [evalExprM_congr a hf.1 (fun v hv => h v (by simp [Expr.vars, hv])),
        evalExprM_congr b hf.2 (fun v hv => h v (by simp [Expr.vars, hv]))]
  | .and a b, hf, h => by
    simp only [Expr.existsFree, Bool.and_eq_true] at hf
    simp only [Model.evalExpr]
    rw [evalExprM_congr a hf.1 (fun v hv => h v (by simp [Expr.vars, hv])),
        evalExprM_congr b hf.2 (fun v hv => h v (by simp [Expr.vars, hv]))]
  | .or a b, hf, h => by
    simp only [Expr.existsFree, Bool.and_eq_true] at hf
    simp only [Model.evalExpr]
    rw [evalExprM_congr a hf.1 (fun v hv => h v (by simp [Expr.vars, hv])),
        evalExprM_congr b hf.2 (fun v hv => h v (by simp [Expr.vars, hv]))]
  | .not a, hf, h => by
    simp only [Expr.existsFree] at hf
    simp only [Model.evalExpr]
    rw [evalExprM_congr a hf (fun v hv => h v (by simp [Expr.vars, hv]))]
  | .exists _ _, hf, _ => by simp [Expr.existsFree] at hf

theorem evalExprM_eq_spec {D : Dataset} {g : Graph} {c : Row n} :
    ∀ (e : Expr), e.existsFree = true → Model.evalExpr D g c e = Spec.evalExpr D g Row.empty c e
  | .var v, _ => by simp [Model.evalExpr, Spec.evalExpr]
  | .const _, _ => by simp [Model.evalExpr, Spec.evalExpr]
  | .bound v, _ => by simp [Model.evalExpr, Spec.evalExpr]
  | .cmp op a b, hf => by
    simp only [Expr.existsFree, Bool.and_eq_true] at hf
    simp only [Model.evalExpr, Spec.evalExpr, evalExprM_eq_spec a hf.1, evalExprM_eq_spec b hf.2]
  | .and a b, hf => by
    simp only [Expr.existsFree, Bool.and_eq_true] at hf
    simp only [Model.evalExpr, Spec.evalExpr, evalExprM_eq_spec a hf.1, evalExprM_eq_spec b hf.2]
  | .or a b, hf => by
    simp only [Expr.existsFree, Bool.and_eq_true] at hf
    simp only [Model.evalExpr, Spec.evalExpr, evalExprM_eq_spec a hf.1, evalExprM_eq_spec b hf.2]
  | .not a, hf => by
    simp only [Expr.existsFree] at hf
    simp only [Model.evalExpr, Spec.evalExpr, evalExprM_eq_spec a hf]
  | .exists _ _, hf => by simp [Expr.existsFree] at hf

/-- what the push-down lemmas need from a filter / BIND expression: rdflib's evaluation only looks at the
    expression's variables, and is the specification's (at the empty substitution) -/
structure ExprOK (D : Dataset) (g : Graph) (n : Nat) (e : Expr) : Prop where
  congr : ∀ c1 c2 : Row n, (∀ v ∈ e.vars, c1.get v = c2.get v) →
    Model.evalExpr D g c1 e = Model.evalExpr D g c2 e
  spec : ∀ c : Row n, Model.evalExpr D g c e = Spec.evalExpr D g Row.empty c e

theorem exprOK_of_existsFree {D : Dataset} {g : Graph} {e : Expr} (h : e.existsFree = true) : ExprOK D g n e :=
  ⟨fun _ _ hc => evalExprM_congr e h hc, fun _ => evalExprM_eq_spec e h⟩

end RV.C04
