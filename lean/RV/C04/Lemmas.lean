import RV.C04.ExistsLemmas
/-
  C04 — the induction: on the proved fragment (BGP, lazy and non-lazy Join, Union, Filter and
  Extend with EXISTS-free expressions, Values) rdflib's top-down evaluation under pushed-in
  bindings `μ0` is the bottom-up evaluation joined with `μ0`.
  Helper files: RowLemmas (pointwise facts), BgpLemmas (evalBGP), BagLemmas (joins),
  ExprLemmas, OpLemmas (filter / extend / values), SpecLemmas (bgp_perm), BoundsLemmas (must / may).
-/
namespace RV.C04
open Spec Model
variable {n : Nat}

theorem evalPart_extend (D : Dataset) (g : Graph) (μ0 : Row n) (p : Alg) (v : Nat) (e : Expr) (vars : List Nat) :
    Model.evalPart D g μ0 (.extend p v e vars) =
      (Model.evalPart D g μ0 p).filterMap (extendStepM D g μ0 v e vars) := by
  simp only [Model.evalPart]
  apply List.filterMap_congr
  intro c _
  cases he : Model.evalExpr D g (c.forget μ0 vars) e with
  | none => simp [extendStepM, he]
  | some t =>
    cases hv : c.get v <;> simp [extendStepM, he, hv]

theorem specEval_extend (D : Dataset) (g : Graph) (_σ : Row n) (p : Alg) (v : Nat) (e : Expr) (vars : List Nat) :
    Spec.eval D g Row.empty (.extend p v e vars) =
      (Spec.eval D g (Row.empty : Row n) p).map (extendStepS D g v e) := by
  simp only [Spec.eval]
  apply List.map_congr_left
  intro μ _
  cases hv : μ.get v with
  | some _ => simp [extendStepS, hv]
  | none =>
    cases he : Spec.evalExpr D g Row.empty μ e <;> simp [extendStepS, hv, he]

theorem pushdown_fragment {D : Dataset} (hD : (D.named.map (·.1)).Nodup) : ∀ (P : Alg), P.inFragment = true →
    P.safe = true → (∀ v ∈ P.allVars, v < n) → ∀ (g : Graph) (μ0 : Row n),
      (Model.evalPart D g μ0 P).Perm (push μ0 (Spec.eval D g Row.empty P))
  | .bgp tps, _, _, _, g, μ0 => by
    simp only [Model.evalPart, Spec.eval]
    exact pushdown_bgp g μ0 tps
  | .join true a b, hf, hs, hws, g, μ0 => by
    simp only [Alg.inFragment, Bool.and_eq_true] at hf
    simp only [Alg.safe, Bool.and_eq_true] at hs
    simp only [Model.evalPart, Spec.eval]
    exact pushdown_join_lazy
      (pushdown_fragment hD a hf.1 hs.1 (fun v hv => hws v (by simp [Alg.allVars, hv])) g μ0)
      (fun x => pushdown_fragment hD b hf.2 hs.2 (fun v hv => hws v (by simp [Alg.allVars, hv])) g x)
  | .join false a b, hf, hs, hws, g, μ0 => by
    simp only [Alg.inFragment, Bool.and_eq_true] at hf
    simp only [Alg.safe, Bool.and_eq_true] at hs
    simp only [Model.evalPart, Spec.eval]
    exact pushdown_join_strict
      (pushdown_fragment hD a hf.1 hs.1 (fun v hv => hws v (by simp [Alg.allVars, hv])) g μ0)
      (pushdown_fragment hD b hf.2 hs.2 (fun v hv => hws v (by simp [Alg.allVars, hv])) g μ0)
  | .union a b, hf, hs, hws, g, μ0 => by
    simp only [Alg.inFragment, Bool.and_eq_true] at hf
    simp only [Alg.safe, Bool.and_eq_true] at hs
    simp only [Model.evalPart, Spec.eval]
    exact pushdown_union
      (pushdown_fragment hD a hf.1 hs.1 (fun v hv => hws v (by simp [Alg.allVars, hv])) g μ0)
      (pushdown_fragment hD b hf.2 hs.2 (fun v hv => hws v (by simp [Alg.allVars, hv])) g μ0)
  | .filter e p vars noIso, hf, hs, hws, g, μ0 => by
    simp only [Alg.inFragment] at hf
    simp only [Alg.safe, Bool.and_eq_true, Bool.not_eq_true'] at hs
    obtain ⟨⟨⟨hps, hes⟩, hni⟩, hsc⟩ := hs
    subst hni
    have hwsp : ∀ v ∈ p.allVars, v < n := fun v hv => hws v (by simp [Alg.allVars, hv])
    simp only [Model.evalPart, Spec.eval, Bool.false_eq_true, if_false]
    exact pushdown_filter (pushdown_fragment hD p hf hps hwsp g μ0) (exprOK_of_safe e hes g) hsc
      (fun μ hμ => spec_bounds p hf hwsp g μ hμ)
  | .extend p v e vars, hf, hs, hws, g, μ0 => by
    simp only [Alg.inFragment] at hf
    simp only [Alg.safe, Bool.and_eq_true, Bool.not_eq_true', List.contains_eq_mem, decide_eq_false_iff_not] at hs
    obtain ⟨⟨⟨⟨hps, hes⟩, hvm⟩, _⟩, hsc⟩ := hs
    have hwsp : ∀ v ∈ p.allVars, v < n := fun v hv => hws v (by simp [Alg.allVars, hv])
    rw [evalPart_extend, specEval_extend D g Row.empty]
    exact pushdown_extend (pushdown_fragment hD p hf hps hwsp g μ0) (exprOK_of_safe e hes g) hsc
      (fun μ hμ => spec_bounds p hf hwsp g μ hμ) hvm
  | .values vars rows, _, _, _, g, μ0 => by
    simp only [Model.evalPart, Spec.eval]
    exact List.Perm.of_eq (pushdown_values μ0 vars rows)
  | .leftJoin a b e p1vars p2vars, hf, hs, hws, g, μ0 => by
    simp only [Alg.inFragment, Bool.and_eq_true] at hf
    have hwsa : ∀ v ∈ a.allVars, v < n := fun v hv => hws v (by simp [Alg.allVars, hv])
    have hwsb : ∀ v ∈ b.allVars, v < n := fun v hv => hws v (by simp [Alg.allVars, hv])
    cases p1vars with
    | none => simp [Alg.safe] at hs
    | some vs =>
      simp only [Alg.safe, Bool.and_eq_true] at hs
      obtain ⟨⟨⟨⟨has, hbs⟩, hes⟩, hs1⟩, hs2⟩ := hs
      simp only [Model.evalPart, Spec.eval]
      exact pushdown_leftjoin (XB := fun c => Model.evalPart D g c b)
        (pushdown_fragment hD a hf.1 has hwsa g μ0)
        (fun c => pushdown_fragment hD b hf.2 hbs hwsb g c) (exprOK_of_safe e hes g) hs1 hs2
        (fun μ hμ => spec_bounds a hf.1 hwsa g μ hμ) (fun μ hμ => spec_bounds b hf.2 hwsb g μ hμ)
  | .minus a b p1vars p2vars, hf, hs, hws, g, μ0 => by
    simp only [Alg.inFragment, Bool.and_eq_true] at hf
    have hwsa : ∀ v ∈ a.allVars, v < n := fun v hv => hws v (by simp [Alg.allVars, hv])
    have hwsb : ∀ v ∈ b.allVars, v < n := fun v hv => hws v (by simp [Alg.allVars, hv])
    cases p1vars with
    | none => simp [Alg.safe] at hs
    | some vs =>
      simp only [Alg.safe, Bool.and_eq_true] at hs
      obtain ⟨⟨⟨has, hbs⟩, hsc⟩, hp2⟩ := hs
      simp only [Model.evalPart, Spec.eval]
      have hb := pushdown_fragment hD b hf.2 hbs hwsb g (Row.empty : Row n)
      rw [push_empty] at hb
      refine pushdown_minus (pushdown_fragment hD a hf.1 has hwsa g μ0) hb hsc
        (fun μ hμ => spec_bounds a hf.1 hwsa g μ hμ)
        (fun y hy v hv => (spec_bounds b hf.2 hwsb g y hy).2 v hv) ?_
      intro vs2 h2 v hv
      subst h2
      simp only [List.all_eq_true, List.contains_eq_mem, decide_eq_true_eq] at hp2
      exact hp2 v hv
  | .graph gp p, hf, hs, hws, g, μ0 => by
    simp only [Alg.inFragment] at hf
    simp only [Alg.safe] at hs
    have hwsp : ∀ v ∈ p.allVars, v < n := fun v hv => hws v (by simp [Alg.allVars, hv])
    have ih := fun gr μ => pushdown_fragment hD p hf hs hwsp gr μ
    simp only [Model.evalPart, Spec.eval, substPos_empty]
    cases gp with
    | const t =>
      simp only [Pos.lookup]
      cases hn : D.isName t with
      | true => simpa using ih (D.graphOf t) μ0
      | false =>
        have : D.graphOf t = [] := graphOfList_of_not_name D.named t hn
        simp [this, push]
    | var v =>
      simp only [Pos.lookup]
      cases hv : μ0.get v with
      | none => exact pushdown_graph_unbound v D.named _ _ (fun gr => ih gr μ0)
      | some t =>
        simp only []
        rw [push_graph_bound hv D.named hD (fun gr => Spec.eval D gr (Row.empty : Row n) p)]
        show (if ((D.graphOf t).isEmpty && !D.isName t) = true then [] else Model.evalPart D (D.graphOf t) μ0 p).Perm
          (bif D.isName t then push μ0 (Spec.eval D (D.graphOf t) Row.empty p) else [])
        cases hn : D.isName t with
        | true => simpa using ih (D.graphOf t) μ0
        | false =>
          have : D.graphOf t = [] := graphOfList_of_not_name D.named t hn
          simp [this]
  | .project p pv, hf, hs, hws, g, μ0 => by
    simp only [Alg.inFragment] at hf
    simp only [Alg.safe] at hs
    have hwsp : ∀ v ∈ p.allVars, v < n := fun v hv => hws v (by simp [Alg.allVars, hv])
    simp only [Model.evalPart, Spec.eval, Row.restrict_empty]
    have hp := pushdown_fragment hD p hf hs hwsp g (Row.empty : Row n)
    rw [push_empty] at hp
    exact pushdown_project pv hp

end RV.C04
