import RV.C04.ExistsLemmas
/-
  C04 — the induction: on the proved fragment (BGP, lazy and non-lazy Join, Union, Filter and
  Extend with EXISTS-free expressions, Values) rdflib's top-down evaluation under pushed-in
  bindings `μ0` is the bottom-up evaluation joined with `μ0`.
  Helper files: RowLemmas (pointwise facts), BgpLemmas (evalBGP), BagLemmas (joins),
  ExprLemmas, OpLemmas (filter / extend / values), SpecLemmas (bgp_perm), BoundsLemmas (must / may).
-/
namespace RV.C04
open Spec Model
variable {n : Nat}

theorem evalPart_extend (D : Dataset) (g : Graph) (μ0 : Row n) (p : Alg) (v : Nat) (e : Expr) (vars : List Nat) :
    Model.evalPart D g μ0 (.extend p v e vars) =
      (Model.evalPart D g μ0 p).filterMap (extendStepM D g μ0 v e vars) := by
  simp only [Model.evalPart]
  apply List.filterMap_congr
  intro c _
  cases he : Model.evalExpr D g (c.forget μ0 vars) e with
  | none => simp [extendStepM, he]
  | some t =>
    cases hv : c.get v <;> simp [extendStepM, he, hv]

theorem specEval_extend (D : Dataset) (g : Graph) (_σ : Row n) (p : Alg) (v : Nat) (e : Expr) (vars : List Nat) :
    Spec.eval D g Row.empty (.extend p v e vars) =
      (Spec.eval D g (Row.empty : Row n) p).map (extendStepS D g v e) := by
  simp only [Spec.eval]
  apply List.map_congr_left
  intro μ _
  cases hv : μ.get v with
  | some _ => simp [extendStepS, hv]
  | none =>
    cases he : Spec.evalExpr D g Row.empty μ e <;> simp [extendStepS, hv, he]

/-- the solutions of `push μ0 A` bind only what `μ0` or a solution of `A` binds -/
theorem domIn_of_mem_push {μ0 x : Row n} {A : List (Row n)} {ctx must may : List Nat} (h0 : μ0.domIn ctx)
    (hA : ∀ μ ∈ A, BoundsOK μ must may) (hx : x ∈ push μ0 A) : x.domIn (ctx ++ may) := by
  simp only [push, List.mem_filterMap, pushOne] at hx
  obtain ⟨μ1, hμ1, h⟩ := hx
  split at h
  · cases h
    exact Row.domIn_merge h0 (hA μ1 hμ1)
  · cases h

/-- THE INDUCTION (context-sensitive): where `P.safeIn ctx` holds, rdflib's top-down evaluation of `P` under any
    pushed-in bindings `μ0` that bind at most the variables `ctx` is the bottom-up evaluation joined with `μ0` -/
theorem pushdown_induction {D : Dataset} (hD : (D.named.map (·.1)).Nodup) : ∀ (P : Alg) (ctx : List Nat),
    P.safeIn ctx = true → (∀ v ∈ P.allVars, v < n) → ∀ (g : Graph) (μ0 : Row n), μ0.domIn ctx →
      (Model.evalPart D g μ0 P).Perm (push μ0 (Spec.eval D g Row.empty P))
  | .bgp tps, _, _, _, g, μ0, _ => by
    simp only [Model.evalPart, Spec.eval]
    exact pushdown_bgp g μ0 tps
  | .join true a b, ctx, hs, hws, g, μ0, h0 => by
    simp only [Alg.safeIn, Bool.and_eq_true, if_true] at hs
    have hwsa : ∀ v ∈ a.allVars, v < n := fun v hv => hws v (by simp [Alg.allVars, hv])
    simp only [Model.evalPart, Spec.eval]
    exact pushdown_join_lazy
      (pushdown_induction hD a ctx hs.1 hwsa g μ0 h0)
      (fun x hx => pushdown_induction hD b (ctx ++ a.may) hs.2 (fun v hv => hws v (by simp [Alg.allVars, hv])) g x
        (domIn_of_mem_push h0 (fun μ hμ => spec_bounds a (Alg.inFragment_true a) hwsa g μ hμ) hx))
  | .join false a b, ctx, hs, hws, g, μ0, h0 => by
    simp only [Alg.safeIn, Bool.and_eq_true, Bool.false_eq_true, if_false] at hs
    simp only [Model.evalPart, Spec.eval]
    exact pushdown_join_strict
      (pushdown_induction hD a ctx hs.1 (fun v hv => hws v (by simp [Alg.allVars, hv])) g μ0 h0)
      (pushdown_induction hD b ctx hs.2 (fun v hv => hws v (by simp [Alg.allVars, hv])) g μ0 h0)
  | .union a b, ctx, hs, hws, g, μ0, h0 => by
    simp only [Alg.safeIn, Bool.and_eq_true] at hs
    simp only [Model.evalPart, Spec.eval]
    exact pushdown_union
      (pushdown_induction hD a ctx hs.1 (fun v hv => hws v (by simp [Alg.allVars, hv])) g μ0 h0)
      (pushdown_induction hD b ctx hs.2 (fun v hv => hws v (by simp [Alg.allVars, hv])) g μ0 h0)
  | .filter e p vars noIso, ctx, hs, hws, g, μ0, h0 => by
    simp only [Alg.safeIn, Bool.and_eq_true, Bool.not_eq_true'] at hs
    obtain ⟨⟨⟨hps, hes⟩, hni⟩, hsc⟩ := hs
    subst hni
    have hwsp : ∀ v ∈ p.allVars, v < n := fun v hv => hws v (by simp [Alg.allVars, hv])
    simp only [Model.evalPart, Spec.eval, Bool.false_eq_true, if_false]
    exact pushdown_filter (pushdown_induction hD p ctx hps hwsp g μ0 h0) (exprOK_of_safe e hes g)
      (ForgetOK.of_scopeForget h0 hsc) (fun μ hμ => spec_bounds p (Alg.inFragment_true p) hwsp g μ hμ)
  | .extend p v e vars, ctx, hs, hws, g, μ0, h0 => by
    simp only [Alg.safeIn, Bool.and_eq_true, Bool.not_eq_true', List.contains_eq_mem, decide_eq_false_iff_not] at hs
    obtain ⟨⟨⟨⟨hps, hes⟩, hvm⟩, _⟩, hsc⟩ := hs
    have hwsp : ∀ v ∈ p.allVars, v < n := fun v hv => hws v (by simp [Alg.allVars, hv])
    rw [evalPart_extend, specEval_extend D g Row.empty]
    exact pushdown_extend (pushdown_induction hD p ctx hps hwsp g μ0 h0) (exprOK_of_safe e hes g)
      (ForgetOK.of_scopeForget h0 hsc) (fun μ hμ => spec_bounds p (Alg.inFragment_true p) hwsp g μ hμ) hvm
  | .values vars rows, _, _, _, g, μ0, _ => by
    simp only [Model.evalPart, Spec.eval]
    exact List.Perm.of_eq (pushdown_values μ0 vars rows)
  | .leftJoin a b e p1vars p2vars, ctx, hs, hws, g, μ0, h0 => by
    have hwsa : ∀ v ∈ a.allVars, v < n := fun v hv => hws v (by simp [Alg.allVars, hv])
    have hwsb : ∀ v ∈ b.allVars, v < n := fun v hv => hws v (by simp [Alg.allVars, hv])
    cases p1vars with
    | none => simp [Alg.safeIn] at hs
    | some vs =>
      simp only [Alg.safeIn, Bool.and_eq_true] at hs
      obtain ⟨⟨⟨⟨has, hbs⟩, hes⟩, hs1⟩, hs2⟩ := hs
      simp only [Model.evalPart, Spec.eval]
      exact pushdown_leftjoin (XB := fun c => Model.evalPart D g c b) h0
        (pushdown_induction hD a ctx has hwsa g μ0 h0)
        (fun c hc => pushdown_induction hD b (ctx ++ a.may) hbs hwsb g c hc) (exprOK_of_safe e hes g)
        (ForgetOK.of_scopeForget h0 hs1) (RememberOK.of_scopeRemember h0 hs2)
        (fun μ hμ => spec_bounds a (Alg.inFragment_true a) hwsa g μ hμ)
        (fun μ hμ => spec_bounds b (Alg.inFragment_true b) hwsb g μ hμ)
  | .minus a b p1vars p2vars, ctx, hs, hws, g, μ0, h0 => by
    have hwsa : ∀ v ∈ a.allVars, v < n := fun v hv => hws v (by simp [Alg.allVars, hv])
    have hwsb : ∀ v ∈ b.allVars, v < n := fun v hv => hws v (by simp [Alg.allVars, hv])
    cases p1vars with
    | none => simp [Alg.safeIn] at hs
    | some vs =>
      simp only [Alg.safeIn, Bool.and_eq_true] at hs
      obtain ⟨⟨⟨has, hbs⟩, hsc⟩, hp2⟩ := hs
      simp only [Model.evalPart, Spec.eval]
      have hb := pushdown_induction hD b [] hbs hwsb g (Row.empty : Row n) (Row.domIn_empty _)
      rw [push_empty] at hb
      refine pushdown_minus (pushdown_induction hD a ctx has hwsa g μ0 h0) hb (RememberOK.of_scopeRemember h0 hsc)
        (fun μ hμ => spec_bounds a (Alg.inFragment_true a) hwsa g μ hμ)
        (fun y hy v hv => (spec_bounds b (Alg.inFragment_true b) hwsb g y hy).2 v hv) ?_
      intro vs2 h2 v hv
      subst h2
      simp only [List.all_eq_true, List.contains_eq_mem, decide_eq_true_eq] at hp2
      exact hp2 v hv
  | .graph gp p, ctx, hs, hws, g, μ0, h0 => by
    simp only [Alg.safeIn] at hs
    have hwsp : ∀ v ∈ p.allVars, v < n := fun v hv => hws v (by simp [Alg.allVars, hv])
    have ih := fun gr => pushdown_induction hD p ctx hs hwsp gr μ0 h0
    simp only [Model.evalPart, Spec.eval, substPos_empty]
    cases gp with
    | const t =>
      simp only [Pos.lookup]
      cases hn : D.isName t with
      | true => simpa using ih (D.graphOf t)
      | false =>
        have : D.graphOf t = [] := graphOfList_of_not_name D.named t hn
        simp [this, push]
    | var v =>
      simp only [Pos.lookup]
      cases hv : μ0.get v with
      | none => exact pushdown_graph_unbound v D.named _ _ (fun gr => ih gr)
      | some t =>
        simp only []
        rw [push_graph_bound hv D.named hD (fun gr => Spec.eval D gr (Row.empty : Row n) p)]
        show (if ((D.graphOf t).isEmpty && !D.isName t) = true then [] else Model.evalPart D (D.graphOf t) μ0 p).Perm
          (bif D.isName t then push μ0 (Spec.eval D (D.graphOf t) Row.empty p) else [])
        cases hn : D.isName t with
        | true => simpa using ih (D.graphOf t)
        | false =>
          have : D.graphOf t = [] := graphOfList_of_not_name D.named t hn
          simp [this]
  | .project p pv, ctx, hs, hws, g, μ0, _ => by
    simp only [Alg.safeIn] at hs
    have hwsp : ∀ v ∈ p.allVars, v < n := fun v hv => hws v (by simp [Alg.allVars, hv])
    simp only [Model.evalPart, Spec.eval, Row.restrict_empty]
    have hp := pushdown_induction hD p [] hs hwsp g (Row.empty : Row n) (Row.domIn_empty _)
    rw [push_empty] at hp
    exact pushdown_project pv hp

/-- exact annotations are safe in every context -/
theorem Alg.safeIn_of_safe : ∀ (P : Alg) (ctx : List Nat), P.safe = true → P.safeIn ctx = true
  | .bgp _, _, _ => rfl
  | .join lz a b, ctx, h => by
    simp only [Alg.safe, Bool.and_eq_true] at h
    simp only [Alg.safeIn, Bool.and_eq_true]
    exact ⟨Alg.safeIn_of_safe a ctx h.1, Alg.safeIn_of_safe b _ h.2⟩
  | .union a b, ctx, h => by
    simp only [Alg.safe, Bool.and_eq_true] at h
    simp only [Alg.safeIn, Bool.and_eq_true]
    exact ⟨Alg.safeIn_of_safe a ctx h.1, Alg.safeIn_of_safe b ctx h.2⟩
  | .filter e p vars noIso, ctx, h => by
    simp only [Alg.safe, Bool.and_eq_true] at h
    obtain ⟨⟨⟨hp, he⟩, hn⟩, hsc⟩ := h
    simp only [Alg.safeIn, Bool.and_eq_true]
    exact ⟨⟨⟨Alg.safeIn_of_safe p ctx hp, he⟩, hn⟩, scopeForget_of_scopeOK hsc⟩
  | .extend p v e vars, ctx, h => by
    simp only [Alg.safe, Bool.and_eq_true] at h
    obtain ⟨⟨⟨⟨hp, he⟩, h1⟩, h2⟩, hsc⟩ := h
    simp only [Alg.safeIn, Bool.and_eq_true]
    exact ⟨⟨⟨⟨Alg.safeIn_of_safe p ctx hp, he⟩, h1⟩, h2⟩, scopeForget_of_scopeOK hsc⟩
  | .values _ _, _, _ => rfl
  | .project p _, _, h => by
    simp only [Alg.safe] at h
    simp only [Alg.safeIn]
    exact Alg.safeIn_of_safe p [] h
  | .graph _ p, ctx, h => by
    simp only [Alg.safe] at h
    simp only [Alg.safeIn]
    exact Alg.safeIn_of_safe p ctx h
  | .minus a b p1vars p2vars, ctx, h => by
    cases p1vars with
    | none => simp [Alg.safe] at h
    | some vs =>
      simp only [Alg.safe, Bool.and_eq_true] at h
      obtain ⟨⟨⟨ha, hb⟩, hsc⟩, hp2⟩ := h
      simp only [Alg.safeIn, Bool.and_eq_true]
      exact ⟨⟨⟨Alg.safeIn_of_safe a ctx ha, Alg.safeIn_of_safe b [] hb⟩, scopeRemember_of_scopeOK hsc⟩, hp2⟩
  | .leftJoin a b e p1vars p2vars, ctx, h => by
    cases p1vars with
    | none => simp [Alg.safe] at h
    | some vs =>
      simp only [Alg.safe, Bool.and_eq_true] at h
      obtain ⟨⟨⟨⟨ha, hb⟩, he⟩, hs1⟩, hs2⟩ := h
      simp only [Alg.safeIn, Bool.and_eq_true]
      exact ⟨⟨⟨⟨Alg.safeIn_of_safe a ctx ha, Alg.safeIn_of_safe b _ hb⟩, he⟩, scopeForget_of_scopeOK hs1⟩,
        scopeRemember_of_scopeOK hs2⟩

/-- every row over `n` variables binds only variables `< n` -/
theorem Row.domIn_range (μ : Row n) : μ.domIn (List.range n) := by
  intro v hv
  by_cases h : v < n
  · exact List.mem_range.mpr h
  · rw [Row.get_of_ge (Nat.le_of_not_lt h)] at hv; cases hv

/-- the context-free form (hypothesis `Alg.safe`: exact annotations, any pushed-in bindings) -/
theorem pushdown_fragment {D : Dataset} (hD : (D.named.map (·.1)).Nodup) (P : Alg) (_hf : P.inFragment = true)
    (hs : P.safe = true) (hws : ∀ v ∈ P.allVars, v < n) (g : Graph) (μ0 : Row n) :
    (Model.evalPart D g μ0 P).Perm (push μ0 (Spec.eval D g Row.empty P)) :=
  pushdown_induction hD P (List.range n) (Alg.safeIn_of_safe P _ hs) hws g μ0 (Row.domIn_range μ0)

end RV.C04
