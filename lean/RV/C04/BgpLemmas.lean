import RV.C04.RowLemmas
import RV.C04.Spec
import RV.C04.Model
/-
  C04 — basic graph patterns: rdflib's `evalBGP` (store lookup with the bound positions, then
  `c[var] = value` with `AlreadyBound`) computes the specification's matching from the same start
  row, and matching from pushed-in bindings `μ0` is matching from nothing joined with `μ0`.
-/
namespace RV.C04
open Spec Model
variable {n : Nat}

/-- `b` extends `a` -/
def Row.le (a b : Row n) : Prop := ∀ v t, a.get v = some t → b.get v = some t

theorem Row.le_refl (a : Row n) : a.le a := fun _ _ h => h
theorem Row.le_trans {a b c : Row n} (h1 : a.le b) (h2 : b.le c) : a.le c :=
  fun v t h => h2 v t (h1 v t h)

theorem Row.not_compat_of_le {a b c : Row n} (h : a.le b) (hc : a.compat c = false) :
    b.compat c = false := by
  cases hb : b.compat c with
  | false => rfl
  | true =>
    rw [Row.compat_iff] at hb
    have : a.compat c = true := by
      rw [Row.compat_iff]
      intro v s t ha hcv
      exact hb v s t (h v s ha) hcv
    rw [this] at hc; cases hc

theorem Row.le_set {μ : Row n} {v : Nat} {x : Term} (h : μ.get v = none) : μ.le (μ.set v x) := by
  intro w t hw
  rw [Row.get_set]
  split
  · next hvw => rw [← hvw.1, h] at hw; cases hw
  · exact hw

theorem matchOne_le {μ μ' : Row n} {p : Pos} {x : Term} (h : matchOne μ p x = some μ') : μ.le μ' := by
  unfold matchOne at h
  split at h
  · split at h <;> simp at h; subst h; exact Row.le_refl _
  · split at h
    · split at h <;> simp at h; subst h; exact Row.le_refl _
    · next hn => simp at h; subst h; exact Row.le_set hn

theorem matchTP_le {μ μ' : Row n} {tp : TP} {t : Triple} (h : matchTP μ tp t = some μ') : μ.le μ' := by
  unfold matchTP at h
  simp only [Option.bind_eq_some_iff] at h
  obtain ⟨μ1, h1, μ2, h2, h3⟩ := h
  exact Row.le_trans (matchOne_le h1) (Row.le_trans (matchOne_le h2) (matchOne_le h3))

theorem bgp_le {g : Graph} : ∀ (tps : List TP) (μ x : Row n), x ∈ bgp g tps μ → μ.le x
  | [], μ, x, h => by
    simp [bgp] at h; subst h; exact Row.le_refl _
  | tp :: rest, μ, x, h => by
    simp only [bgp, List.mem_flatMap] at h
    obtain ⟨t, _, hx⟩ := h
    split at hx
    · next μ' hm => exact Row.le_trans (matchTP_le hm) (bgp_le rest μ' x hx)
    · simp at hx

/-- join one solution with the pushed-in bindings -/
def pushOne (μ0 ν : Row n) : Option (Row n) := if ν.compat μ0 then some (μ0.merge ν) else none

/-- Join(Ω, {μ0}) -/
def push (μ0 : Row n) (Ω : List (Row n)) : List (Row n) := Ω.filterMap (pushOne μ0)

theorem push_eq_nil_of_not_compat {μ0 ν : Row n} {Ω : List (Row n)} (hν : ν.compat μ0 = false)
    (h : ∀ x ∈ Ω, ν.le x) : push μ0 Ω = [] := by
  simp only [push, List.filterMap_eq_nil_iff]
  intro x hx
  simp [pushOne, Row.not_compat_of_le (h x hx) hν]

end RV.C04

namespace RV.C04
open Spec Model
variable {n : Nat}

theorem Row.compat_set_iff {ν μ0 : Row n} {v : Nat} {x : Term} (h : ν.compat μ0 = true)
    (_hv : ν.get v = none) :
    (ν.set v x).compat μ0 = true ↔ (∀ z, μ0.get v = some z → z = x) := by
  rw [Row.compat_iff] at h ⊢
  constructor
  · intro hc z hz
    have hlt : v < n := by
      by_cases hlt : v < n
      · exact hlt
      · rw [Row.get_of_ge (Nat.le_of_not_lt hlt)] at hz; cases hz
    have := hc v x z (by rw [Row.get_set]; simp [hlt]) hz
    exact this.symm
  · intro hz w s t hs ht
    rw [Row.get_set] at hs
    split at hs
    · next hw => cases hs; rw [← hw.1] at ht; exact (hz t ht).symm
    · exact h w s t hs ht

theorem Row.merge_set_same {ν μ0 : Row n} {v : Nat} {x : Term} (hν : ν.get v = none)
    (hv : μ0.get v = some x) : μ0.merge (ν.set v x) = μ0.merge ν := by
  apply Row.ext_get
  intro w
  rw [Row.get_merge, Row.get_merge, Row.get_set]
  split
  · next hw => rw [← hw.1, hν, hv]; rfl
  · rfl

theorem Row.merge_set_comm {ν μ0 : Row n} {v : Nat} {x : Term} :
    μ0.merge (ν.set v x) = (μ0.merge ν).set v x := by
  apply Row.ext_get
  intro w
  rw [Row.get_merge, Row.get_set, Row.get_set, Row.get_merge]
  split <;> rfl

theorem matchOne_push {μ0 ν : Row n} (h : ν.compat μ0 = true) (p : Pos) (x : Term) :
    matchOne (μ0.merge ν) p x = (matchOne ν p x).bind (pushOne μ0) := by
  cases p with
  | const t =>
    simp only [matchOne]
    split <;> simp [pushOne, h]
  | var v =>
    simp only [matchOne, Row.get_merge]
    cases hν : ν.get v with
    | some y =>
      simp only [Option.orElse]
      split <;> simp [pushOne, h]
    | none =>
      simp only [Option.orElse]
      cases hμ : μ0.get v with
      | some z =>
        simp only [Option.bind, pushOne]
        by_cases hzx : z = x
        · subst hzx
          have : (ν.set v z).compat μ0 = true :=
            (Row.compat_set_iff h hν).mpr (fun z' hz' => by rw [hμ] at hz'; cases hz'; rfl)
          simp [this, Row.merge_set_same hν hμ]
        · have : (ν.set v x).compat μ0 = false := by
            cases hc : (ν.set v x).compat μ0 with
            | false => rfl
            | true => exact absurd ((Row.compat_set_iff h hν).mp hc z hμ) hzx
          simp [this, hzx]
      | none =>
        have : (ν.set v x).compat μ0 = true :=
          (Row.compat_set_iff h hν).mpr (fun z' hz' => by rw [hμ] at hz'; cases hz')
        simp [Option.bind, pushOne, this, Row.merge_set_comm]

end RV.C04

namespace RV.C04
open Spec Model
variable {n : Nat}

/-- a row transformer that only extends rows and commutes with pushing `μ0` in -/
structure PushOK (μ0 : Row n) (f : Row n → Option (Row n)) : Prop where
  le : ∀ a b, f a = some b → a.le b
  push : ∀ ν, ν.compat μ0 = true → f (μ0.merge ν) = (f ν).bind (pushOne μ0)

theorem PushOK.chain {μ0 : Row n} {f : Row n → Option (Row n)} (hf : PushOK μ0 f) (ν : Row n) :
    (pushOne μ0 ν).bind f = (f ν).bind (pushOne μ0) := by
  cases hc : ν.compat μ0 with
  | true =>
    have : pushOne μ0 ν = some (μ0.merge ν) := by simp [pushOne, hc]
    rw [this, Option.bind_some, hf.push ν hc]
  | false =>
    have : pushOne μ0 ν = none := by simp [pushOne, hc]
    rw [this, Option.bind_none]
    cases hfν : f ν with
    | none => rfl
    | some b =>
      have := Row.not_compat_of_le (hf.le ν b hfν) hc
      simp [pushOne, this]

theorem PushOK.comp {μ0 : Row n} {f1 f2 : Row n → Option (Row n)} (h1 : PushOK μ0 f1)
    (h2 : PushOK μ0 f2) : PushOK μ0 (fun μ => (f1 μ).bind f2) where
  le := by
    intro a b h
    simp only [Option.bind_eq_some_iff] at h
    obtain ⟨c, hc1, hc2⟩ := h
    exact Row.le_trans (h1.le a c hc1) (h2.le c b hc2)
  push := by
    intro ν hν
    show (f1 (μ0.merge ν)).bind f2 = ((f1 ν).bind f2).bind (pushOne μ0)
    rw [h1.push ν hν, Option.bind_assoc, Option.bind_assoc]
    apply Option.bind_congr
    intro ν1 _
    exact h2.chain ν1

theorem matchOne_pushOK (μ0 : Row n) (p : Pos) (x : Term) : PushOK μ0 (fun μ => matchOne μ p x) :=
  ⟨fun _ _ h => matchOne_le h, fun _ hν => matchOne_push hν p x⟩

theorem matchTP_pushOK (μ0 : Row n) (tp : TP) (t : Triple) : PushOK μ0 (fun μ => matchTP μ tp t) := by
  have := (matchOne_pushOK μ0 tp.s t.1).comp
    ((matchOne_pushOK μ0 tp.p t.2.1).comp (matchOne_pushOK μ0 tp.o t.2.2))
  exact this

/-- matching a BGP from pushed-in bindings = matching it from nothing, joined with them -/
theorem bgp_push {g : Graph} {μ0 : Row n} : ∀ (tps : List TP) (ν : Row n), ν.compat μ0 = true →
    bgp g tps (μ0.merge ν) = push μ0 (bgp g tps ν)
  | [], ν, h => by simp [bgp, push, pushOne, h]
  | tp :: rest, ν, h => by
    simp only [bgp, push, List.filterMap_flatMap]
    congr 1
    funext t
    rw [(matchTP_pushOK μ0 tp t).push ν h]
    cases hm : matchTP ν tp t with
    | none => simp
    | some ν' =>
      simp only [Option.bind_some]
      unfold pushOne
      cases hc : ν'.compat μ0 with
      | true =>
        simp only [if_true]
        exact bgp_push rest ν' hc
      | false =>
        simp only [Bool.false_eq_true, if_false]
        exact (push_eq_nil_of_not_compat hc (fun x hx => bgp_le rest ν' x hx)).symm

end RV.C04

namespace RV.C04
open Spec Model
variable {n : Nat}

theorem flatMap_filter_eq {α β : Type} (c : α → Bool) (f : α → List β) :
    ∀ (l : List α), (l.filter c).flatMap f = l.flatMap (fun a => bif c a then f a else [])
  | [] => rfl
  | a :: l => by
    simp only [List.filter_cons, List.flatMap_cons]
    cases hc : c a <;> simp [flatMap_filter_eq c f l]

/-- one position of `evalBGP`: the store lookup on the entry value, then `c[pos] = x` -/
def stepPos (μ μ' : Row n) (p : Pos) (x : Term) : Option (Row n) :=
  bif matchPos (p.lookup μ) x then bindIf μ' p (p.lookup μ) x else none

theorem stepPos_eq {μ μ' : Row n} (h : μ.le μ') (p : Pos) (x : Term) :
    stepPos μ μ' p x = matchOne μ' p x := by
  cases p with
  | const c =>
    simp only [stepPos, Pos.lookup, matchPos, bindIf, matchOne]
    by_cases hcx : c = x
    · subst hcx; simp
    · have : (x == c) = false := by simp; exact fun e => hcx e.symm
      simp [this, hcx]
  | var v =>
    simp only [stepPos, Pos.lookup, matchOne]
    obtain hv | ⟨y, hv⟩ : μ.get v = none ∨ ∃ y, μ.get v = some y := by
      cases μ.get v <;> simp
    · rw [hv]; simp only [matchPos, bindIf, cond_true]; cases μ'.get v <;> rfl
    · rw [hv, h v y hv]
      simp only [matchPos, bindIf]
      by_cases hyx : y = x
      · subst hyx; simp
      · have : (x == y) = false := by simp; exact fun e => hyx e.symm
        simp [this, hyx]

theorem evalBGP_eq_bgp {g : Graph} : ∀ (tps : List TP) (μ : Row n), evalBGP g tps μ = bgp g tps μ
  | [], μ => rfl
  | tp :: rest, μ => by
    simp only [evalBGP, bgp, storeMatch, flatMap_filter_eq]
    congr 1
    funext t
    have e1 : ∀ μ', μ.le μ' → stepPos μ μ' tp.s t.1 = matchOne μ' tp.s t.1 := fun μ' h => stepPos_eq h _ _
    have e2 : ∀ μ', μ.le μ' → stepPos μ μ' tp.p t.2.1 = matchOne μ' tp.p t.2.1 := fun μ' h => stepPos_eq h _ _
    have e3 : ∀ μ', μ.le μ' → stepPos μ μ' tp.o t.2.2 = matchOne μ' tp.o t.2.2 := fun μ' h => stepPos_eq h _ _
    have key : (bif (matchPos (tp.s.lookup μ) t.1 && matchPos (tp.p.lookup μ) t.2.1 &&
            matchPos (tp.o.lookup μ) t.2.2) then
          (bindIf μ tp.s (tp.s.lookup μ) t.1).bind fun μ1 =>
            (bindIf μ1 tp.p (tp.p.lookup μ) t.2.1).bind fun μ2 => bindIf μ2 tp.o (tp.o.lookup μ) t.2.2
         else none) = matchTP μ tp t := by
      unfold matchTP
      rw [← e1 μ (Row.le_refl _)]
      unfold stepPos
      cases h1 : matchPos (tp.s.lookup μ) t.1
      · simp
      · simp only [Bool.true_and, cond_true]
        cases hb1 : bindIf μ tp.s (tp.s.lookup μ) t.1 with
        | none => simp
        | some μ1 =>
          have hle1 : μ.le μ1 := by
            have := e1 μ (Row.le_refl _)
            unfold stepPos at this
            rw [h1, cond_true, hb1] at this
            exact matchOne_le this.symm
          simp only [Option.bind_some]
          rw [← e2 μ1 hle1]
          unfold stepPos
          cases h2 : matchPos (tp.p.lookup μ) t.2.1
          · simp
          · simp only [Bool.true_and, cond_true]
            cases hb2 : bindIf μ1 tp.p (tp.p.lookup μ) t.2.1 with
            | none => simp
            | some μ2 =>
              have hle2 : μ.le μ2 := by
                have := e2 μ1 hle1
                unfold stepPos at this
                rw [h2, cond_true, hb2] at this
                exact Row.le_trans hle1 (matchOne_le this.symm)
              simp only [Option.bind_some]
              rw [← e3 μ2 hle2]
              unfold stepPos
              cases h3 : matchPos (tp.o.lookup μ) t.2.2 <;> simp
    rw [← key]
    cases hc : (matchPos (tp.s.lookup μ) t.1 && matchPos (tp.p.lookup μ) t.2.1 &&
            matchPos (tp.o.lookup μ) t.2.2)
    · simp
    · simp only [cond_true]
      cases hb : ((bindIf μ tp.s (tp.s.lookup μ) t.1).bind fun μ1 =>
            (bindIf μ1 tp.p (tp.p.lookup μ) t.2.1).bind fun μ2 => bindIf μ2 tp.o (tp.o.lookup μ) t.2.2) with
      | none => simp
      | some μ' => simp [evalBGP_eq_bgp rest μ']

end RV.C04
