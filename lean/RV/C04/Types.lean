/-
  C04 — shared vocabulary of the SPARQL model and specification (core imports only).

  * `Term`     RDF terms of the fragment: IRIs, blank nodes, integers, plain strings, booleans
               (+ `fresh`: blank nodes minted by CONSTRUCT, one per solution and template label).
  * `Row n`    a solution mapping over the query's `n` variables: `Vector (Option Term) n`
               (variable `k` = position `k`).  Equality is structural, compatibility / merge /
               projection are pointwise (DESIGN §3).
  * `Expr`/`Alg`  the algebra tree.  ONE type serves both sides: it carries the annotations rdflib
               computes at translation time (`lazy`, the `_vars` sets, `no_isolated_scope`); the
               specification ignores them, the model of `evalPart` reads them exactly where the
               code reads them.
  * §17 operator functions shared by model and specification (`cmpTerms`, `ebv`, `and3`, `or3`).
-/
namespace RV.C04

inductive Term
  | iri (n : Nat)
  | bnode (n : Nat)
  | int (z : Int)
  | str (s : String)
  | bool (b : Bool)
  | fresh (sol lab : Nat)
  deriving DecidableEq, Repr, Inhabited

/-- a position of a triple pattern / the name of a GRAPH pattern -/
inductive Pos
  | var (v : Nat)
  | const (t : Term)
  deriving DecidableEq, Repr, Inhabited

structure TP where
  s : Pos
  p : Pos
  o : Pos
  deriving DecidableEq, Repr, Inhabited

abbrev Triple := Term × Term × Term
/-- a graph: a duplicate-free list of triples (rdflib stores are sets; C01/C02) -/
abbrev Graph := List Triple

/-- RDF dataset: the query's default graph and the named graphs -/
structure Dataset where
  dflt : Graph
  named : List (Term × Graph)
  deriving Repr, Inhabited

def Dataset.isName (D : Dataset) (t : Term) : Bool := D.named.any (fun ng => ng.1 == t)

/-- `dataset.get_context(name)`: the graph of that name, empty if there is none -/
def graphOfList : List (Term × Graph) → Term → Graph
  | [], _ => []
  | (n, g) :: rest, t => if n = t then g else graphOfList rest t

def Dataset.graphOf (D : Dataset) (t : Term) : Graph := graphOfList D.named t

/-! ### solution mappings -/

abbrev Row (n : Nat) := Vector (Option Term) n

namespace Row
variable {n : Nat}

def empty : Row n := Vector.replicate n none

/-- value of variable `v` (`none` = unbound; variables outside the row are never bound) -/
def get (μ : Row n) (v : Nat) : Option Term := (μ[v]?).getD none

def set (μ : Row n) (v : Nat) (t : Term) : Row n := μ.setIfInBounds v (some t)

def cellCompat : Option Term → Option Term → Bool
  | some s, some t => s == t
  | _, _ => true

/-- `FrozenDict.compatible`: equal wherever both are bound -/
def compat (a b : Row n) : Bool := (Vector.zipWith cellCompat a b).all id

/-- `a.merge(b)` = `FrozenDict(chain(a.items(), b.items()))`: where both bind, `b` wins -/
def merge (a b : Row n) : Row n := Vector.zipWith (fun x y => y.orElse (fun _ => x)) a b

def cellDisjoint : Option Term → Option Term → Bool
  | some _, some _ => false
  | _, _ => true

/-- `FrozenDict.disjointDomain` -/
def disjoint (a b : Row n) : Bool := (Vector.zipWith cellDisjoint a b).all id

/-- `project(vars)` / `remember(vars)`: keep only the listed variables -/
def restrict (μ : Row n) (vs : List Nat) : Row n :=
  Vector.ofFn (fun i : Fin n => if i.val ∈ vs then μ[i] else none)

/-- `x if vars is None else x.remember(vars)` -/
def rememberOpt (μ : Row n) : Option (List Nat) → Row n
  | none => μ
  | some vs => μ.restrict vs

/-- `c.forget(before, _except)`: keep a binding of `c` if its variable is listed in `_except`
    or is not bound in the context `before` -/
def forget (c before : Row n) (ex : List Nat) : Row n :=
  Vector.ofFn (fun i : Fin n => if i.val ∈ ex ∨ before[i] = none then c[i] else none)

end Row

/-! ### expressions and algebra -/

inductive CmpOp | eq | ne | lt | gt | le | ge
  deriving DecidableEq, Repr, Inhabited

mutual
inductive Expr
  | var (v : Nat)
  | const (t : Term)
  | cmp (op : CmpOp) (a b : Expr)
  | and (a b : Expr)
  | or (a b : Expr)
  | not (a : Expr)
  | bound (v : Nat)
  /-- `EXISTS {P}` (`neg = false`) / `NOT EXISTS {P}` (`neg = true`) -/
  | exists (neg : Bool) (p : Alg)
inductive Alg
  | bgp (tps : List TP)
  /-- `lazy`: the flag `analyse` put on the Join -/
  | join (lzy : Bool) (a b : Alg)
  /-- `p1vars` = `p1._vars`, `p2vars` = `p2._vars` (`none` when the node was never annotated: inside EXISTS) -/
  | leftJoin (a b : Alg) (e : Expr) (p1vars : Option (List Nat)) (p2vars : Option (List Nat))
  /-- `vars` = the Filter's `_vars`, `noIso` = `no_isolated_scope` -/
  | filter (e : Expr) (p : Alg) (vars : List Nat) (noIso : Bool)
  | union (a b : Alg)
  /-- `p1vars` = `p1._vars`, `p2vars` = `p2._vars` -/
  | minus (a b : Alg) (p1vars p2vars : Option (List Nat))
  /-- `vars` = the Extend's `_vars` -/
  | extend (p : Alg) (v : Nat) (e : Expr) (vars : List Nat)
  | graph (g : Pos) (p : Alg)
  /-- `ToMultiSet(values)`: inline data, cells `none` = UNDEF -/
  | values (vars : List Nat) (rows : List (List (Option Term)))
  /-- `ToMultiSet(Project(p, PV))`: a sub-select -/
  | project (p : Alg) (pv : List Nat)
end

/-- `own_vars` of `evalLeftJoin`: `p1._vars | p2._vars`, or `None` (= nothing is excepted) if one is missing -/
def ownVars : Option (List Nat) → Option (List Nat) → List Nat
  | some a, some b => a ++ b
  | _, _ => []

instance : Inhabited Alg := ⟨.bgp []⟩
instance : Inhabited Expr := ⟨.const (.bool true)⟩

/-- the empty group pattern -/
def Alg.unit : Alg := .bgp []

def Alg.isUnit : Alg → Bool
  | .bgp [] => true
  | _ => false

/-! ### query forms and results -/

/-- position of a CONSTRUCT template: variable, constant, or template blank node label -/
inductive TPos
  | var (v : Nat)
  | const (t : Term)
  | blank (lab : Nat)
  deriving DecidableEq, Repr, Inhabited

abbrev TTP := TPos × TPos × TPos

/-- The query forms of the property.  `pv` is the projection list; for ASK / CONSTRUCT it is what
    rdflib's translation wraps around the pattern (the specification ignores it there). -/
inductive Query
  | select (pv : List Nat) (p : Alg)
  | ask (pv : List Nat) (p : Alg)
  | construct (tpl : List TTP) (pv : List Nat) (p : Alg)

inductive Result (n : Nat)
  | rows (pv : List Nat) (bag : List (Row n))
  | bool (b : Bool)
  | graph (ts : List Triple)

/-! ### SPARQL 1.1 §17 operator functions (errors are `none`) -/

def kindRank : Term → Option Nat
  | .bool _ => some 0
  | .int _ => some 1
  | .str _ => some 2
  | _ => none

/-- `<` : defined on two integers, two strings, two booleans; between literals of different kinds
    §17 has a type error and §17.3.1 lets an implementation return a value — rdflib orders
    boolean < integer < string, and the specification adopts that extension; IRIs and blank
    nodes are not ordered (type error). -/
def termLt (a b : Term) : Option Bool :=
  match a, b with
  | .int x, .int y => some (decide (x < y))
  | .str x, .str y => some (decide (x < y))
  | .bool x, .bool y => some (!x && y)
  | a, b =>
    match kindRank a, kindRank b with
    | some x, some y => some (decide (x < y))
    | _, _ => none

def cmpTerms (op : CmpOp) (a b : Term) : Option Bool :=
  match op with
  | .eq => some (a == b)
  | .ne => some (a != b)
  | .lt => termLt a b
  | .gt => termLt b a
  | .le => (termLt b a).map (!·)
  | .ge => (termLt a b).map (!·)

/-- effective boolean value (§17.2.2) -/
def ebv : Term → Option Bool
  | .bool b => some b
  | .str s => some (s != "")
  | .int z => some (z != 0)
  | _ => none

def ebvV (v : Option Term) : Option Bool := v.bind ebv

/-- §17.2 three-valued conjunction / disjunction (`none` = error) -/
def and3 : Option Bool → Option Bool → Option Bool
  | some false, _ => some false
  | _, some false => some false
  | some true, some true => some true
  | _, _ => none

def or3 : Option Bool → Option Bool → Option Bool
  | some true, _ => some true
  | _, some true => some true
  | some false, some false => some false
  | _, _ => none

def boolV (b : Option Bool) : Option Term := b.map Term.bool

def cmpV (op : CmpOp) (a b : Option Term) : Option Term :=
  match a, b with
  | some x, some y => boolV (cmpTerms op x y)
  | _, _ => none

/-- a filter keeps a solution iff the expression's EBV is `true` (errors count as false) -/
def isTrue (v : Option Term) : Bool := ebvV v == some true

/-! ### triple patterns -/

def Pos.lookup {n : Nat} (μ : Row n) : Pos → Option Term
  | .var v => μ.get v
  | .const t => some t

def matchPos (p : Option Term) (x : Term) : Bool :=
  match p with
  | none => true
  | some y => x == y

end RV.C04
