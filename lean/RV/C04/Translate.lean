import RV.C04.Spec
import RV.C04.Analysis
/-
  C04 — model of rdflib's TRANSLATION of a group graph pattern (algebra.py), from the parsed syntax tree (the same
  `Spec.Elts` the specification's §18.2 translation `Spec.trGroup` starts from) to the algebra tree `evaluate.py` runs on.
  Core imports only: the driver prints `Translate.query q` and the harness compares it with rdflib's own tree on every case.

  One function per Python function:
    * `filtersOf`        collectAndRemoveFilters: the group's FILTER expressions, each through translateExists, joined by and_
    * `foldElts`         the two loops of translateGroupGraphPattern, fused: adjacent TriplesBlocks (adjacent once the
                         filters are gone) are merged into one BGP; every other element closes the BGP in front of it;
                         `G = BGP()`, then `G = Join(G, x)` / `LeftJoin(G, A.p, A.expr)` when A is a Filter else
                         `LeftJoin(G, A, TrueFilter)` / `Minus(G, A)` / `Extend(G, expr, var)`, LEFT TO RIGHT
    * `trUnion`          translateGroupOrUnionGraphPattern (left-nested Union)
    * `trExpr`           translateExists: the pattern of an EXISTS is translated but neither simplified nor annotated; a
                         top-level Filter gets `no_isolated_scope`
    * `starVars`         PV of `SELECT *` (translate): `_findVars` over the WHERE clause (every variable met, a BIND gives
                         only its target, a sub-select only its projection) plus the PV of the first Project below
    * `Alg.simplify`     simplify, post-order: `Join(BGP(), x) = x`, `Join(x, BGP()) = x` (not inside EXISTS);
                         the re-ordering of a BGP's triples (reorderTriples) is NOT modelled — BGPs are compared as bags
    * then `Alg.annotate` (Analysis.lean: analyse, _addVars)
-/
namespace RV.C04.Translate
open RV.C04 RV.C04.Spec

def bgpOf : Option (List TP) → List TP
  | none => []
  | some tps => tps

/-- close the BGP that triples were being added to: `G = Join(G, BGP(tps))` -/
def flush (G : Alg) : Option (List TP) → Alg
  | none => G
  | some tps => .join false G (.bgp tps)

/-- `Filter(expr=and_(*filters), p=G)` if the group has filters -/
def applyFiltersRaw (fs : List Expr) (G : Alg) (noIso : Bool) : Alg :=
  match andAll fs with
  | none => G
  | some f => .filter f G [] noIso

/-- OPTIONAL { A }: `LeftJoin(G, A.p, A.expr)` if A is a Filter, else `LeftJoin(G, A, TrueFilter)` -/
def mkLeftJoinRaw (G : Alg) (fs : List Expr) (body : Alg) : Alg :=
  match andAll fs with
  | some f => .leftJoin G body f none none
  | none => .leftJoin G body (.const (.bool true)) none none

mutual
/-- `_findVars` (+ the first child projections when `deep`): the variables `SELECT *` projects -/
def scanExpr : SExpr → List Nat
  | .var v => [v]
  | .const _ => []
  | .cmp _ a b => scanExpr a ++ scanExpr b
  | .and a b => scanExpr a ++ scanExpr b
  | .or a b => scanExpr a ++ scanExpr b
  | .not a => scanExpr a
  | .bound v => [v]
  | .exists _ g => scanElts false g
def scanElts (deep : Bool) : Elts → List Nat
  | .nil => []
  | .cons e rest => scanElt deep e ++ scanElts deep rest
def scanElt (deep : Bool) : Elt → List Nat
  | .tri tps => tps.flatMap tpVars
  | .opt g => scanElts deep g
  | .minus g => scanElts deep g
  | .union gs => scanGroups deep gs
  | .graph p g => posVars p ++ scanElts deep g
  | .values vars _ => vars
  | .bind _ v => [v]
  | .filter e => scanExpr e
  | .subsel (some pv) _ => pv
  | .subsel none g => if deep then scanElts deep g else []
def scanGroups (deep : Bool) : Groups → List Nat
  | .nil => []
  | .cons g rest => scanElts deep g ++ scanGroups deep rest
end

def starVars (g : Elts) : List Nat := scanElts true g

mutual
def trExpr : SExpr → Expr
  | .var v => .var v
  | .const t => .const t
  | .cmp op a b => .cmp op (trExpr a) (trExpr b)
  | .and a b => .and (trExpr a) (trExpr b)
  | .or a b => .or (trExpr a) (trExpr b)
  | .not a => .not (trExpr a)
  | .bound v => .bound v
  | .exists neg g => .exists neg (applyFiltersRaw (filtersOf g) (foldElts g (.bgp []) none) true)
/-- collectAndRemoveFilters -/
def filtersOf : Elts → List Expr
  | .nil => []
  | .cons (.filter e) rest => trExpr e :: filtersOf rest
  | .cons _ rest => filtersOf rest
/-- the element loops of translateGroupGraphPattern: `G` the pattern so far, `cur` the BGP being filled -/
def foldElts : Elts → Alg → Option (List TP) → Alg
  | .nil, G, cur => flush G cur
  | .cons (.tri tps) rest, G, cur => foldElts rest G (some (bgpOf cur ++ tps))
  | .cons (.filter _) rest, G, cur => foldElts rest G cur
  | .cons e rest, G, cur => foldElts rest (stepElt e (flush G cur)) none
def stepElt : Elt → Alg → Alg
  | .tri tps, G => .join false G (.bgp tps)
  | .filter _, G => G
  | .opt g, G => mkLeftJoinRaw G (filtersOf g) (foldElts g (.bgp []) none)
  | .minus g, G => .minus G (applyFiltersRaw (filtersOf g) (foldElts g (.bgp []) none) false) none none
  | .union gs, G => .join false G (trUnion gs)
  | .graph p g, G => .join false G (.graph p (applyFiltersRaw (filtersOf g) (foldElts g (.bgp []) none) false))
  | .values vars rows, G => .join false G (.values vars rows)
  | .bind e v, G => .extend G v (trExpr e) []
  | .subsel proj g, G =>
    .join false G (.project (applyFiltersRaw (filtersOf g) (foldElts g (.bgp []) none) false)
      (match proj with
       | some pv => pv
       | none => scanElts true g))
def trUnion : Groups → Alg
  | .nil => .bgp []
  | .cons g rest => trUnionAcc rest (applyFiltersRaw (filtersOf g) (foldElts g (.bgp []) none) false)
def trUnionAcc : Groups → Alg → Alg
  | .nil, A => A
  | .cons g rest, A => trUnionAcc rest (.union A (applyFiltersRaw (filtersOf g) (foldElts g (.bgp []) none) false))
end

/-- translateGroupGraphPattern, before `simplify` and the analysis passes -/
def rawGroup (g : Elts) : Alg := applyFiltersRaw (filtersOf g) (foldElts g (.bgp []) none) false

end RV.C04.Translate

namespace RV.C04

/-- `simplify`, applied post-order by `traverse(visitPost=simplify)`; expressions are not entered (the EXISTS pattern
    is a Python attribute) -/
def Alg.simplify : Alg → Alg
  | .bgp tps => .bgp tps
  | .join l a b =>
    if a.simplify.isUnit then b.simplify else if b.simplify.isUnit then a.simplify else .join l a.simplify b.simplify
  | .union a b => .union a.simplify b.simplify
  | .leftJoin a b e p1 p2 => .leftJoin a.simplify b.simplify e p1 p2
  | .filter e p vars noIso => .filter e p.simplify vars noIso
  | .extend p v e vars => .extend p.simplify v e vars
  | .minus a b p1 p2 => .minus a.simplify b.simplify p1 p2
  | .graph g p => .graph g p.simplify
  | .values vars rows => .values vars rows
  | .project p pv => .project p.simplify pv

namespace Translate
open Spec

/-- translateQuery for the pattern of a query: translate, simplify, analyse, _addVars -/
def group (g : Elts) : Alg := (rawGroup g).simplify.annotate

def query : SQuery → Query
  | .select (some pv) g => .select pv (group g)
  | .select none g => .select (starVars g) (group g)
  | .ask g => .ask (starVars g) (group g)
  | .construct tpl g => .construct tpl (starVars g) (group g)

end Translate
end RV.C04
