import RV.C04.ConstructLemmas
import RV.C04.AnalysisLemmas
import RV.C04.TranslateLemmas
/-
  C04 — "SPARQL graph patterns evaluate to the solution multiset the algebra defines".

  `Model.evalPart D g μ0 P`  rdflib's top-down evaluator (binding push-down, `forget`/`remember`, lazy joins),
                              on rdflib's own annotated algebra tree `P`
  `Spec.eval D g σ P`        SPARQL 1.1 §18 bottom-up (ignores the annotations)
  `push μ0 Ω`                Join(Ω, {μ0}):  the solutions of Ω compatible with μ0, merged with it
  Bags are lists modulo `List.Perm`.

  Statements first, then what is proved:
    * `Statement_pushdown_unconditional` is what C04 literally asks (every well-formed query).  It is FALSE of the
      pinned code: `pushdown_witness_K1/K2/K4`, `pushdown_unconditional_witness` (known findings C04-K1, C04-K2: rdflib's
      `_vars` annotation is not the exact set of variables a sub-pattern binds; C04-K4: EXISTS patterns outside
      `Alg.existsOK` are evaluated under the solution instead of by substitution).
    * `pushdown : Statement_pushdown` (= `pushdown_partial`): under the decidable hypothesis `Alg.safe` push-down is
      exact for EVERY operator of the property — BGP incl. rdflib's re-ordering, lazy and non-lazy Join, Union,
      Filter, LeftJoin (with the re-check under `remember`), Extend, Values, Minus, Graph, sub-select, and
      expressions with comparisons, three-valued logic, bound, EXISTS / NOT EXISTS (patterns `Alg.existsOK`).
    * `eval_correct : Statement_eval_correct` (SELECT / ASK / CONSTRUCT with a blank-node-free template),
      `ask_correct`, `construct_correct`.
    * `construct_correct_blank : Statement_construct_correct_blank` — CONSTRUCT templates WITH blank nodes: the model
      threads a `BNode()` supply through the solutions as `_fillTemplate` / `evalConstructQuery` do; its graph is the
      specification's instantiation of the same solutions under another injective naming of the minted nodes, all
      drawn from the supply (`FreshSupply`: pairwise distinct, not among the data's nodes); `spec_naming_canonical`,
      `freshSupply_driver`.
    * Round g: `pushdown_ctx : Statement_pushdown_ctx` — the same equation under the weaker, context-sensitive
      hypothesis `Alg.safeIn P ctx` for every `μ0` binding at most `ctx` (`safeIn_of_safe`: `safe → safeIn ctx`;
      `pushdown_ctx_sharp`: the hypothesis cannot be dropped); `eval_correct_top`, `construct_correct_blank_top`
      (hypothesis `safeIn []`).  At the end of the file: rdflib's analysis passes `analyse` / `_addVars`
      (`analysis_correct`, `addVars_may_partial/_witness`, `addVars_must_partial/_witness`,
      `analysis_correct_mustOK`, `lazy_irrelevant`, `lazy_exposes_K1`).
-/
namespace RV.C04
open Spec Model

/-- all variables of the pattern are columns of the rows -/
def WellScoped (n : Nat) (P : Alg) : Prop := ∀ v ∈ P.allVars, v < n

/-- graph names of the dataset are distinct -/
def Dataset.WF (D : Dataset) : Prop := (D.named.map (·.1)).Nodup

/-! ### Statements (full strength) -/

/-- Push-down is exact wherever `Safe` holds: evaluating `P` top-down under the pushed-in bindings `μ0` gives the
    algebra's solutions joined with `μ0`. -/
def Statement_pushdown : Prop :=
  ∀ (n : Nat) (D : Dataset) (P : Alg), D.WF → P.safe = true → WellScoped n P →
    ∀ (g : Graph) (μ0 : Row n), (Model.evalPart D g μ0 P).Perm (push μ0 (Spec.eval D g Row.empty P))

/-- Round g — the context-sensitive form.  `P.safeIn ctx` (Safe.lean) demands an exact `_vars` annotation only for
    variables that the pushed-in bindings can bind at that node, following the evaluator's data flow (nothing at the
    top of a query; the left side's may-bind set added on the right of a lazy join and of an OPTIONAL; nothing below a
    sub-select and on the right of MINUS).  Push-down is exact for every `μ0` that binds at most `ctx`. -/
def Statement_pushdown_ctx : Prop :=
  ∀ (n : Nat) (D : Dataset) (P : Alg) (ctx : List Nat), D.WF → P.safeIn ctx = true → WellScoped n P →
    ∀ (g : Graph) (μ0 : Row n), μ0.domIn ctx →
      (Model.evalPart D g μ0 P).Perm (push μ0 (Spec.eval D g Row.empty P))

/-- The property without the `Safe` hypothesis — what C04 literally asks of every query.  FALSE for the pinned
    code (see the `_witness` theorems). -/
def Statement_pushdown_unconditional : Prop :=
  ∀ (n : Nat) (D : Dataset) (P : Alg), D.WF → WellScoped n P →
    ∀ (g : Graph) (μ0 : Row n), (Model.evalPart D g μ0 P).Perm (push μ0 (Spec.eval D g Row.empty P))

/-- two results are the same observation: same header and the same bag of rows / the same boolean /
    the same set of triples -/
def ResultEq {n : Nat} : Result n → Result n → Prop
  | .rows pv1 b1, .rows pv2 b2 => pv1 = pv2 ∧ b1.Perm b2
  | .bool x, .bool y => x = y
  | .graph t1, .graph t2 => ∀ t, t ∈ t1 ↔ t ∈ t2
  | _, _ => False

/-- a CONSTRUCT query whose template has no blank nodes (minted blank nodes make the graph depend on the
    enumeration order; graphs are then equal only up to renaming, which the harness checks) and whose template
    variables are projected or never bound -/
def Query.groundTemplate : Query → Prop
  | .construct tpl pv p =>
    (∀ tp ∈ tpl, tp.1.isBlank = false ∧ tp.2.1.isBlank = false ∧ tp.2.2.isBlank = false) ∧
    (∀ tp ∈ tpl, ∀ v ∈ tposVars tp.1 ++ tposVars tp.2.1 ++ tposVars tp.2.2, v ∈ pv ∨ v ∉ p.may)
  | _ => True

/-- SELECT / ASK / CONSTRUCT give what the algebra gives. -/
def Statement_eval_correct : Prop :=
  ∀ (n : Nat) (D : Dataset) (q : Query) (mint : Nat → Term), D.WF → q.safe = true → WellScoped n q.pattern →
    q.groundTemplate → ResultEq (Model.evalQuery (n := n) mint D q) (Spec.evalQuery D q)

/-- Round g: the same under the weaker hypothesis `q.safeTop` (= `q.pattern.safeIn []`: a query is evaluated with
    nothing pushed in at its top, `initBindings = {}`). -/
def Statement_eval_correct_top : Prop :=
  ∀ (n : Nat) (D : Dataset) (q : Query) (mint : Nat → Term), D.WF → q.safeTop = true → WellScoped n q.pattern →
    q.groundTemplate → ResultEq (Model.evalQuery (n := n) mint D q) (Spec.evalQuery D q)

/-- What `BNode()` is assumed to do for the supply `mint` (`mint k` = the node returned by the k-th call): the nodes
    are pairwise distinct, and none of them is among `avoid` (the nodes of the data and the constants of the query). -/
def FreshSupply (mint : Nat → Term) (avoid : List Term) : Prop :=
  Function.Injective mint ∧ ∀ k, mint k ∉ avoid

/-- CONSTRUCT with template blank nodes.  The specification instantiates the template over its solutions `Ω` with
    one node per (solution, template label); `Spec.instNamed tpl (Ω.zip names)` is that graph when solution number i
    names its nodes by `names[i]` (`Spec.instTemplate` is the instance `names[i] = Term.fresh i`, see
    `spec_naming_canonical`).  The model's graph — `_fillTemplate` run over the model's solutions in the model's
    order, every `bnodeMap[label]` drawing the next `BNode()` from the supply — IS such an instantiation of the
    specification's solutions, under a naming that is injective on (solution, label), whose nodes all come from the
    supply and hence avoid the data's nodes: the two graphs are equal up to a renaming of the minted nodes. -/
def Statement_construct_correct_blank : Prop :=
  ∀ (n : Nat) (D : Dataset) (tpl : List TTP) (pv : List Nat) (p : Alg) (mint : Nat → Term) (avoid : List Term),
    D.WF → p.safe = true → WellScoped n p →
    (∀ tp ∈ tpl, ∀ v ∈ tposVars tp.1 ++ tposVars tp.2.1 ++ tposVars tp.2.2, v ∈ pv ∨ v ∉ p.may) →
    FreshSupply mint avoid →
    ∃ names : List (Nat → Term),
      names.length = (Spec.eval D D.dflt (Row.empty : Row n) p).length ∧
      (names.flatMap (fun ν => (tplLabels tpl).map ν)).Nodup ∧
      (∀ ν ∈ names, ∀ l, (∃ k, ν l = mint k) ∧ ν l ∉ avoid) ∧
      ∀ t : Triple,
        t ∈ Model.fillAll mint tpl ((Model.evalPart D D.dflt (Row.empty : Row n) p).map (·.restrict pv)) 0 ↔
        t ∈ Spec.instNamed tpl ((Spec.eval D D.dflt (Row.empty : Row n) p).zip names)

/-- Round g: `Statement_construct_correct_blank` under the weaker hypothesis `p.safeIn []`. -/
def Statement_construct_correct_blank_top : Prop :=
  ∀ (n : Nat) (D : Dataset) (tpl : List TTP) (pv : List Nat) (p : Alg) (mint : Nat → Term) (avoid : List Term),
    D.WF → p.safeIn [] = true → WellScoped n p →
    (∀ tp ∈ tpl, ∀ v ∈ tposVars tp.1 ++ tposVars tp.2.1 ++ tposVars tp.2.2, v ∈ pv ∨ v ∉ p.may) →
    FreshSupply mint avoid →
    ∃ names : List (Nat → Term),
      names.length = (Spec.eval D D.dflt (Row.empty : Row n) p).length ∧
      (names.flatMap (fun ν => (tplLabels tpl).map ν)).Nodup ∧
      (∀ ν ∈ names, ∀ l, (∃ k, ν l = mint k) ∧ ν l ∉ avoid) ∧
      ∀ t : Triple,
        t ∈ Model.fillAll mint tpl ((Model.evalPart D D.dflt (Row.empty : Row n) p).map (·.restrict pv)) 0 ↔
        t ∈ Spec.instNamed tpl ((Spec.eval D D.dflt (Row.empty : Row n) p).zip names)

/-! ### Proved -/

/-- round g: every operator, hypothesis `safeIn ctx` + "the pushed-in bindings bind at most `ctx`" -/
theorem pushdown_ctx : Statement_pushdown_ctx := by
  intro n D P ctx hD hs hws g μ0 h0
  exact pushdown_induction hD P ctx hs hws g μ0 h0

/-- exact annotations (`Alg.safe`) are safe in every context: `pushdown` below is the instance `ctx` = all variables -/
theorem safeIn_of_safe (P : Alg) (ctx : List Nat) (h : P.safe = true) : P.safeIn ctx = true :=
  Alg.safeIn_of_safe P ctx h

/-- at the top of a query nothing is pushed in: the model's bag IS the algebra's bag (hypothesis `safeIn []`) -/
theorem evalPart_top0 (n : Nat) (D : Dataset) (P : Alg) (hD : D.WF) (hs : P.safeIn [] = true)
    (hws : WellScoped n P) (g : Graph) :
    (Model.evalPart D g (Row.empty : Row n) P).Perm (Spec.eval D g Row.empty P) := by
  simpa using pushdown_induction hD P [] hs hws g (Row.empty : Row n) (Row.domIn_empty _)

/-- every operator of the property, EXISTS / NOT EXISTS included: the only hypothesis beyond well-formedness is `Safe` -/
theorem pushdown : Statement_pushdown := by
  intro n D P hD hs hws g μ0
  exact pushdown_fragment hD P (Alg.inFragment_true P) hs hws g μ0

/-- the same under the name the conventions give to "the literal property under a decidable hypothesis" -/
theorem pushdown_partial (n : Nat) (D : Dataset) (P : Alg) (hD : D.WF) (hs : P.safe = true)
    (hws : WellScoped n P) (g : Graph) (μ0 : Row n) :
    (Model.evalPart D g μ0 P).Perm (push μ0 (Spec.eval D g Row.empty P)) :=
  pushdown n D P hD hs hws g μ0

/-- at the top of a query nothing is pushed in: the model's bag IS the algebra's bag -/
theorem evalPart_top (n : Nat) (D : Dataset) (P : Alg) (hD : D.WF) (hs : P.safe = true)
    (hws : WellScoped n P) (g : Graph) :
    (Model.evalPart D g (Row.empty : Row n) P).Perm (Spec.eval D g Row.empty P) := by
  simpa using pushdown n D P hD hs hws g (Row.empty : Row n)

theorem eval_correct_top : Statement_eval_correct_top := by
  intro n D q mint hD hs hws hg
  cases q with
  | select pv p =>
    exact ⟨rfl, (evalPart_top0 n D p hD hs hws D.dflt).map _⟩
  | ask pv p =>
    have h := evalPart_top0 n D p hD hs hws D.dflt
    simp only [Model.evalQuery, Spec.evalQuery, ResultEq]
    have : ((Model.evalPart D D.dflt (Row.empty : Row n) p).map (·.restrict pv)).isEmpty =
        (Spec.eval D D.dflt (Row.empty : Row n) p).isEmpty := by
      rw [List.isEmpty_map]
      exact isEmpty_of_perm h
    rw [this]
  | construct tpl pv p =>
    have h := evalPart_top0 n D p hD hs hws D.dflt
    obtain ⟨hg1, hg2⟩ := hg
    simp only [Model.evalQuery, Spec.evalQuery, ResultEq]
    intro t
    rw [fillAll_closed, mem_instNamed_ground hg1 t _ _ (length_namers _ _ _ _), mem_instTemplate_ground hg1]
    have hb : ∀ μ ∈ Spec.eval D D.dflt (Row.empty : Row n) p, BoundsOK μ p.must p.may :=
      fun μ hμ => spec_bounds p (Alg.inFragment_true p) hws D.dflt μ hμ
    constructor
    · rintro ⟨μ', hμ', tp, htp, ht⟩
      obtain ⟨μ, hμ, rfl⟩ := List.mem_map.mp hμ'
      have hμs := h.subset hμ
      refine ⟨μ, hμs, tp, htp, ?_⟩
      rw [← ht]
      symm
      apply instTriple_restrict
      intro v hv
      rcases hg2 tp htp v hv with h1 | h1
      · exact Or.inl h1
      · right
        cases hget : μ.get v with
        | none => rfl
        | some y => exact absurd ((hb μ hμs).2 v (by simp [hget])) h1
    · rintro ⟨μ, hμ, tp, htp, ht⟩
      have hμm := h.symm.subset hμ
      refine ⟨μ.restrict pv, List.mem_map.mpr ⟨μ, hμm, rfl⟩, tp, htp, ?_⟩
      rw [← ht]
      apply instTriple_restrict
      intro v hv
      rcases hg2 tp htp v hv with h1 | h1
      · exact Or.inl h1
      · right
        cases hget : μ.get v with
        | none => rfl
        | some y => exact absurd ((hb μ hμ).2 v (by simp [hget])) h1

theorem eval_correct : Statement_eval_correct := by
  intro n D q mint hD hs hws hg
  exact eval_correct_top n D q mint hD (Alg.safeIn_of_safe q.pattern [] hs) hws hg

theorem eval_correct_partial (n : Nat) (D : Dataset) (q : Query) (mint : Nat → Term) (hD : D.WF)
    (hs : q.safe = true) (hws : WellScoped n q.pattern) (hg : q.groundTemplate) :
    ResultEq (Model.evalQuery (n := n) mint D q) (Spec.evalQuery D q) :=
  eval_correct n D q mint hD hs hws hg

/-- ASK is true iff the algebra's multiset is non-empty -/
theorem ask_correct (n : Nat) (D : Dataset) (pv : List Nat) (p : Alg) (mint : Nat → Term) (hD : D.WF)
    (hs : p.safe = true) (hws : WellScoped n p) :
    Model.evalQuery (n := n) mint D (.ask pv p) = .bool (!(Spec.eval D D.dflt (Row.empty : Row n) p).isEmpty) := by
  have := eval_correct n D (.ask pv p) mint hD hs hws trivial
  simp only [Spec.evalQuery] at this
  cases hm : Model.evalQuery (n := n) mint D (.ask pv p) with
  | bool b => rw [hm] at this; simp only [ResultEq] at this; rw [this]
  | rows _ _ => simp [Model.evalQuery] at hm
  | graph _ => simp [Model.evalQuery] at hm

/-- CONSTRUCT yields the (blank-node-free) template instantiated over the algebra's multiset -/
theorem construct_correct (n : Nat) (D : Dataset) (tpl : List TTP) (pv : List Nat) (p : Alg) (mint : Nat → Term)
    (hD : D.WF) (hs : p.safe = true) (hws : WellScoped n p)
    (hg : (Query.construct tpl pv p).groundTemplate) :
    ResultEq (Model.evalQuery (n := n) mint D (.construct tpl pv p))
      (.graph (Spec.instTemplate tpl (Spec.eval D D.dflt (Row.empty : Row n) p) 0)) :=
  eval_correct n D (.construct tpl pv p) mint hD hs hws hg

/-- CONSTRUCT with template blank nodes: the model's graph is the specification's, up to the naming of the minted nodes -/
theorem construct_correct_blank_top : Statement_construct_correct_blank_top := by
  intro n D tpl pv p mint avoid hD hs hws hv hfresh
  have hperm := evalPart_top0 n D p hD hs hws D.dflt
  have hb : ∀ μ ∈ Spec.eval D D.dflt (Row.empty : Row n) p, BoundsOK μ p.must p.may :=
    fun μ hμ => spec_bounds p (Alg.inFragment_true p) hws D.dflt μ hμ
  obtain ⟨N2, hp2, hl2, hz⟩ := perm_zip (hperm.map (·.restrict pv))
    (namers mint (tplLabels tpl) 0 ((Model.evalPart D D.dflt (Row.empty : Row n) p).map (·.restrict pv)).length)
    (length_namers _ _ _ _)
  refine ⟨N2, by simpa using hl2, ?_, ?_, ?_⟩
  · exact ((hp2.flatMap_right _).nodup_iff).mpr (nodup_minted mint hfresh.1 (nodup_tplLabels tpl) _ _)
  · intro ν hν l
    obtain ⟨k, hk⟩ := namers_are_minted mint _ _ _ ν (hp2.subset hν) l
    exact ⟨⟨k, hk⟩, by rw [hk]; exact hfresh.2 k⟩
  · intro t
    rw [fillAll_closed, (instNamed_perm tpl hz).mem_iff, instNamed_map_restrict]
    intro μ hμ tp htp ν
    apply instTripleN_restrict
    intro v hvv
    rcases hv tp htp v hvv with h1 | h1
    · exact Or.inl h1
    · right
      cases hget : μ.get v with
      | none => rfl
      | some y => exact absurd ((hb μ hμ).2 v (by simp [hget])) h1

theorem construct_correct_blank : Statement_construct_correct_blank := by
  intro n D tpl pv p mint avoid hD hs hws hv hfresh
  exact construct_correct_blank_top n D tpl pv p mint avoid hD (Alg.safeIn_of_safe p [] hs) hws hv hfresh

/-- the specification's own graph is the instantiation under the canonical naming `Term.fresh i` of solution `i`,
    which is injective on (solution, label) as well -/
theorem spec_naming_canonical (n : Nat) (tpl : List TTP) (Ω : List (Row n)) :
    Spec.instTemplate tpl Ω 0 = Spec.instNamed tpl (Ω.zip ((List.range' 0 Ω.length).map Term.fresh)) ∧
    (((List.range' 0 Ω.length).map Term.fresh).flatMap (fun ν => (tplLabels tpl).map ν)).Nodup :=
  ⟨instTemplate_eq_instNamed tpl Ω 0, nodup_canonical tpl 0 Ω.length⟩

end RV.C04

namespace RV.C04
open Spec Model

/-! ### Where the unconditional statement fails: the known findings (model of the code as it is)

  Each witness is the algebra tree rdflib builds (annotations included) for a query of
  `known_findings.d/C04.jsonl`, over the dataset given there; `Alg.safe` is false on each. -/

def i (k : Nat) : Term := .iri k
def tp (s p o : Pos) : TP := ⟨s, p, o⟩

/-- K1: `{ <0> ?v2 <0> . { FILTER(bound(?v2)) { ?v3 <10> ?v2 } UNION { } } }` — v2 is bound by one UNION branch only -/
def k1Pattern : Alg :=
  .join true (.bgp [tp (.const (i 0)) (.var 2) (.const (i 0))])
    (.filter (.bound 2) (.union (.bgp [tp (.var 3) (.const (i 10)) (.var 2)]) (.bgp [])) [2, 3] false)
def k1Data : Dataset := ⟨[(i 0, i 0, i 0)], []⟩

/-- K2: `{ VALUES (?v0) { (<1>) (<2>) } OPTIONAL { ?v0 <10> ?v1 } }` — `_vars` of the VALUES block is empty -/
def k2Pattern : Alg :=
  .leftJoin (.values [0] [[some (i 1)], [some (i 2)]]) (.bgp [tp (.var 0) (.const (i 10)) (.var 1)])
    (.const (.bool true)) (some []) (some [0, 1])
def k2Data : Dataset := ⟨[(i 1, i 10, i 0)], []⟩

example : k1Pattern.safe = false ∧ k2Pattern.safe = false := by decide
/-- the witnesses are outside the context-sensitive hypothesis as well (K1: `?v2` is pushed in by the lazy join) -/
example : k1Pattern.safeIn [] = false ∧ k2Pattern.safeIn [] = false := by decide

theorem pushdown_witness_K1 :
    (Model.evalPart k1Data k1Data.dflt (Row.empty : Row 4) k1Pattern).length = 1 ∧
    (Spec.eval k1Data k1Data.dflt (Row.empty : Row 4) k1Pattern).length = 0 := by decide

theorem pushdown_witness_K2 :
    (Model.evalPart k2Data k2Data.dflt (Row.empty : Row 2) k2Pattern).length = 1 ∧
    (Spec.eval k2Data k2Data.dflt (Row.empty : Row 2) k2Pattern).length = 2 := by decide +kernel

/-- K4: `{ ?v0 <10> ?v1 FILTER(EXISTS { { ?v0 <11> ?v2 FILTER(?v2 != ?v0) } }) }` — the nested-group filter inside the
    EXISTS forgets `?v0` (the pattern is evaluated under the solution, its nodes are never annotated), §18.6 substitutes it -/
def k4Pattern : Alg :=
  .filter
    (.exists false (.join false (.bgp [])
      (.filter (.cmp .ne (.var 2) (.var 0)) (.join false (.bgp []) (.bgp [tp (.var 0) (.const (i 11)) (.var 2)])) [] false)))
    (.bgp [tp (.var 0) (.const (i 10)) (.var 1)]) [0, 1] false
def k4Data : Dataset := ⟨[(i 0, i 10, i 1), (i 0, i 11, i 2)], []⟩

example : k4Pattern.safe = false ∧ k4Pattern.safeIn [] = false := by decide

theorem pushdown_witness_K4 :
    (Model.evalPart k4Data k4Data.dflt (Row.empty : Row 3) k4Pattern).length = 0 ∧
    (Spec.eval k4Data k4Data.dflt (Row.empty : Row 3) k4Pattern).length = 1 := by decide +kernel

/-- the property as literally stated (no `Safe` hypothesis) does not hold of the code as it is -/
theorem pushdown_unconditional_witness : ¬ Statement_pushdown_unconditional := by
  intro h
  have := (h 4 k1Data k1Pattern (by unfold Dataset.WF; decide) (by unfold WellScoped; decide) k1Data.dflt Row.empty).length_eq
  rw [push_empty, pushdown_witness_K1.1, pushdown_witness_K1.2] at this
  cases this

/-! ### Non-vacuity: the hypotheses of the proved theorems are met by non-trivial queries -/

/-- `{ ?v0 <10> ?v1 . { ?v1 <11> ?v2 FILTER(?v2 != ?v1) } UNION { VALUES ?v2 { 7 } } BIND(?v1 = ?v0 AS ?v3) }`
    with a lazy join, a nested group with a filter on its own variables, UNION, VALUES and BIND -/
def exPattern : Alg :=
  .extend
    (.join true (.bgp [tp (.var 0) (.const (i 10)) (.var 1)])
      (.union
        (.filter (.cmp .ne (.var 2) (.var 1)) (.bgp [tp (.var 1) (.const (i 11)) (.var 2)]) [1, 2] false)
        (.values [2] [[some (.int 7)]])))
    3 (.cmp .eq (.var 1) (.var 0)) [0, 1, 3]
def exData : Dataset := ⟨[(i 0, i 10, i 1), (i 1, i 10, i 1), (i 1, i 11, i 2), (i 1, i 11, i 1)], []⟩

example : exPattern.safe = true ∧ (∀ v ∈ exPattern.allVars, v < 4) := by decide
example : (Model.evalPart exData exData.dflt (Row.empty : Row 4) exPattern).length = 4 := by decide +kernel
example : (Spec.eval exData exData.dflt (Row.empty : Row 4) exPattern).length = 4 := by decide +kernel
/-- `{ ?v0 <10> ?v1 FILTER(NOT EXISTS { ?v1 <11> ?v0 } || EXISTS { GRAPH ?v2 { ?v1 <11> ?v3 } }) }` -/
def exPattern2 : Alg :=
  .filter (.or (.exists true (.join false (.bgp []) (.bgp [tp (.var 1) (.const (i 11)) (.var 0)])))
               (.exists false (.join false (.bgp []) (.graph (.var 2) (.bgp [tp (.var 1) (.const (i 11)) (.var 3)])))))
    (.bgp [tp (.var 0) (.const (i 10)) (.var 1)]) [0, 1] false
def exData2 : Dataset := ⟨[(i 0, i 10, i 1), (i 1, i 10, i 1), (i 1, i 11, i 1)], [(i 20, [(i 1, i 11, i 2)])]⟩

example : exPattern2.safe = true ∧ (∀ v ∈ exPattern2.allVars, v < 4) ∧ exData2.WF := by
  refine ⟨by decide, by decide, ?_⟩
  unfold Dataset.WF; decide
example : (Model.evalPart exData2 exData2.dflt (Row.empty : Row 4) exPattern2).length = 2 := by decide +kernel
example : (Spec.eval exData2 exData2.dflt (Row.empty : Row 4) exPattern2).length = 2 := by decide +kernel

/-- `GRAPH ?v2 { OPTIONAL { ?v0 <10> ?v1 } }` over a dataset with a registered named graph WITHOUT triples: the empty
    graph contributes the solution that binds only `?v2` (`pushdown_graph_unbound` is about every named graph) -/
def exPattern3 : Alg :=
  .graph (.var 2) (.leftJoin (.bgp []) (.bgp [tp (.var 0) (.const (i 10)) (.var 1)]) (.const (.bool true))
    (some []) (some [0, 1]))
def exData3 : Dataset := ⟨[], [(i 20, []), (i 21, [(i 0, i 10, i 1), (i 1, i 10, i 1)])]⟩

example : exPattern3.safe = true ∧ (∀ v ∈ exPattern3.allVars, v < 3) ∧ exData3.WF := by
  refine ⟨by decide, by decide, ?_⟩
  unfold Dataset.WF; decide
example : (Model.evalPart exData3 exData3.dflt (Row.empty : Row 3) exPattern3).length = 3 := by decide +kernel
example : (Spec.eval exData3 exData3.dflt (Row.empty : Row 3) exPattern3).length = 3 := by decide +kernel
example : (Row.empty : Row 3).set 2 (i 20) ∈ Spec.eval exData3 exData3.dflt (Row.empty : Row 3) exPattern3 := by
  decide +kernel

/-- round g — `{ ?v0 <10> ?v1 OPTIONAL { ?v1 <11> ?v2 } FILTER(!bound(?v2)) }`: `?v2` is listed in the FILTER's `_vars` but
    bound only where the OPTIONAL matches, so `Alg.safe` is false; nothing can be pushed in at the top of a query, so
    `safeIn []` holds and `pushdown_ctx` / `eval_correct_top` cover the query.  Under a context that binds `?v2` the
    hypothesis fails (`safeIn [2] = false`) and so does push-down: the model forgets nothing (`?v2 ∈ _vars`), sees the
    pushed-in `?v2` as bound and drops the solution the algebra keeps — the hypothesis of `pushdown_ctx` is sharp. -/
def exPattern5 : Alg :=
  .filter (.not (.bound 2))
    (.leftJoin (.bgp [tp (.var 0) (.const (i 10)) (.var 1)]) (.bgp [tp (.var 1) (.const (i 11)) (.var 2)])
      (.const (.bool true)) (some [0, 1]) (some [1, 2])) [0, 1, 2] false
def exData5 : Dataset := ⟨[(i 0, i 10, i 1), (i 1, i 10, i 2), (i 2, i 11, i 0)], []⟩

example : exPattern5.safe = false ∧ exPattern5.safeIn [] = true ∧ exPattern5.safeIn [2] = false ∧
    (∀ v ∈ exPattern5.allVars, v < 3) := by decide
example : (Model.evalPart exData5 exData5.dflt (Row.empty : Row 3) exPattern5).length = 1 ∧
    (Spec.eval exData5 exData5.dflt (Row.empty : Row 3) exPattern5).length = 1 := by decide +kernel
theorem pushdown_ctx_sharp :
    (Model.evalPart exData5 exData5.dflt ((Row.empty : Row 3).set 2 (i 5)) exPattern5).length = 0 ∧
    (push ((Row.empty : Row 3).set 2 (i 5)) (Spec.eval exData5 exData5.dflt (Row.empty : Row 3) exPattern5)).length = 1 := by
  decide +kernel

/-- the supply of the compiled driver — `BNode()` number k is `Term.fresh k 0` — is fresh for every list of terms
    that holds no minted node (the driver's term reader cannot produce `Term.fresh`) -/
theorem freshSupply_driver (avoid : List Term) (h : ∀ t ∈ avoid, ∀ s l, t ≠ Term.fresh s l) :
    FreshSupply (fun k => Term.fresh k 0) avoid := by
  refine ⟨?_, fun k hk => h _ hk k 0 rfl⟩
  intro a b hab
  cases hab
  rfl

/-- CONSTRUCT with two template blank nodes shared between template triples:
    `CONSTRUCT { _:b0 <10> _:b1 . _:b1 <11> ?v1 . ?v0 <10> _:b0 } WHERE { ?v0 <10> ?v1 }` over `exData` (2 solutions) -/
def exTpl : List TTP :=
  [(.blank 0, .const (i 10), .blank 1), (.blank 1, .const (i 11), .var 1), (.var 0, .const (i 10), .blank 0)]
def exPattern4 : Alg := .bgp [tp (.var 0) (.const (i 10)) (.var 1)]

example : tplLabels exTpl = [0, 1] := by decide
example : FreshSupply (fun k => Term.fresh k 0) [i 0, i 1, i 2, i 10, i 11] :=
  freshSupply_driver _ (by intro t ht s l; simp only [List.mem_cons, List.not_mem_nil, or_false] at ht
                           rcases ht with rfl | rfl | rfl | rfl | rfl <;> simp [i])
example : exPattern4.safe = true ∧ (∀ v ∈ exPattern4.allVars, v < 2) := by decide
/-- 2 solutions × 3 template triples, 4 minted nodes: `BNode()` calls 0,1 for the first solution, 2,3 for the second -/
example : Model.fillAll (fun k => Term.fresh k 0) exTpl
      ((Model.evalPart exData exData.dflt (Row.empty : Row 2) exPattern4).map (·.restrict [0, 1])) 0 =
    [(.fresh 0 0, i 10, .fresh 1 0), (.fresh 1 0, i 11, i 1), (i 0, i 10, .fresh 0 0),
     (.fresh 2 0, i 10, .fresh 3 0), (.fresh 3 0, i 11, i 1), (i 1, i 10, .fresh 2 0)] := by decide +kernel
example : (Spec.instTemplate exTpl (Spec.eval exData exData.dflt (Row.empty : Row 2) exPattern4) 0).length = 6 := by
  decide +kernel

/-- push-down with a non-empty context that rules solutions out -/
example : (Model.evalPart exData exData.dflt ((Row.empty : Row 4).set 0 (i 1)) exPattern).length = 2 := by decide +kernel

end RV.C04

namespace RV.C04
open Spec Model

/-! ### Round g — rdflib's analysis passes (`analyse`, `_addVars` of algebra.py; model: Analysis.lean)

  `P.annotate` is the tree as the two passes at the end of `translateQuery` annotate it (`lazy` flags, `_vars` sets),
  whatever annotations `P` carried before; the harness compares it with the annotations found on rdflib's own tree on
  every case (driver line `annot`) and runs the evaluator model on it (`amodel`). -/

/-- the analysis inside the verified pipeline: `evaluate.py` run on the tree as `analyse` / `_addVars` annotate it gives
    the algebra's solutions of the tree, joined with the pushed-in bindings — wherever the annotated tree is
    `safeIn ctx` -/
def Statement_analysis_correct : Prop :=
  ∀ (n : Nat) (D : Dataset) (P : Alg) (ctx : List Nat), D.WF → P.annotate.safeIn ctx = true → WellScoped n P →
    ∀ (g : Graph) (μ0 : Row n), μ0.domIn ctx →
      (Model.evalPart D g μ0 P.annotate).Perm (push μ0 (Spec.eval D g Row.empty P))

/-- what `_addVars` says it computes ("find which variables may be bound by this part of the query"): no solution of
    the pattern binds a variable outside the node's `_vars`.  FALSE of the code as it is (VALUES: known finding K2). -/
def Statement_addVars_may : Prop :=
  ∀ (n : Nat) (D : Dataset) (P : Alg) (g : Graph) (μ : Row n), WellScoped n P →
    μ ∈ Spec.eval D g Row.empty P → μ.domIn P.addVars

/-- what `evaluate.py` uses `_vars` for (`forget(_except=_vars)`, `remember(_vars)` treat a listed variable as the
    sub-pattern's own binding): every solution binds every listed variable.  FALSE of the code as it is (K1). -/
def Statement_addVars_must : Prop :=
  ∀ (n : Nat) (D : Dataset) (P : Alg) (g : Graph) (μ : Row n), WellScoped n P →
    μ ∈ Spec.eval D g Row.empty P → ∀ v ∈ P.addVars, (μ.get v).isSome = true

/-- patterns built from triples, joins, FILTER, MINUS and GRAPH only: every solution binds every variable -/
def Alg.conjunctive : Alg → Bool
  | .bgp _ => true
  | .join _ a b => a.conjunctive && b.conjunctive
  | .filter _ p _ _ => p.conjunctive
  | .minus a _ _ _ => a.conjunctive
  | .graph _ p => p.conjunctive
  | _ => false

theorem analysis_correct : Statement_analysis_correct := by
  intro n D P ctx hD hs hws g μ0 h0
  have := pushdown_induction hD P.annotate ctx hs (by rw [Alg.allVars_annotate]; exact hws) g μ0 h0
  rwa [specEval_annotate] at this

/-- `_addVars` is a sound may-bind analysis on VALUES-free patterns -/
theorem addVars_may_partial (n : Nat) (D : Dataset) (P : Alg) (g : Graph) (μ : Row n) (hv : P.valuesFree = true)
    (hws : WellScoped n P) (hμ : μ ∈ Spec.eval D g Row.empty P) : μ.domIn P.addVars :=
  fun v hb => Alg.may_subset_addVars P hv v ((spec_bounds P (Alg.inFragment_true P) hws g μ hμ).2 v hb)

/-- K2 as a fact about the analysis: `VALUES ?v0 { <1> }` binds `?v0`, its `_vars` is empty -/
theorem addVars_may_witness : ¬ Statement_addVars_may := by
  intro h
  have := h 1 ⟨[], []⟩ (.values [0] [[some (.iri 1)]]) [] ((Row.empty : Row 1).set 0 (.iri 1))
    (by unfold WellScoped; decide) (by decide) 0 (by decide)
  simp [Alg.addVars] at this

/-- on conjunctive patterns `_vars` IS the must-bind set (and the may-bind set) -/
theorem addVars_eq_must_of_conjunctive : ∀ P : Alg, P.conjunctive = true → P.addVars = P.must ∧ P.may = P.must
  | .bgp _, _ => ⟨rfl, rfl⟩
  | .join _ a b, h => by
    simp only [Alg.conjunctive, Bool.and_eq_true] at h
    simp [Alg.addVars, Alg.must, Alg.may, addVars_eq_must_of_conjunctive a h.1, addVars_eq_must_of_conjunctive b h.2]
  | .filter _ p _ _, h => by
    simp only [Alg.conjunctive] at h
    simp [Alg.addVars, Alg.must, Alg.may, addVars_eq_must_of_conjunctive p h]
  | .minus a _ _ _, h => by
    simp only [Alg.conjunctive] at h
    simp [Alg.addVars, Alg.must, Alg.may, addVars_eq_must_of_conjunctive a h]
  | .graph _ p, h => by
    simp only [Alg.conjunctive] at h
    simp [Alg.addVars, Alg.must, Alg.may, addVars_eq_must_of_conjunctive p h]
  | .union _ _, h | .leftJoin _ _ _ _ _, h | .extend _ _ _ _, h | .values _ _, h | .project _ _, h => by
    simp [Alg.conjunctive] at h

theorem addVars_must_partial (n : Nat) (D : Dataset) (P : Alg) (g : Graph) (μ : Row n) (hc : P.conjunctive = true)
    (hws : WellScoped n P) (hμ : μ ∈ Spec.eval D g Row.empty P) : ∀ v ∈ P.addVars, (μ.get v).isSome = true := by
  intro v hv
  rw [(addVars_eq_must_of_conjunctive P hc).1] at hv
  exact (spec_bounds P (Alg.inFragment_true P) hws g μ hμ).1 v hv

/-- K1 as a fact about the analysis: `{ ?v0 <10> ?v1 } UNION { }` lists `?v0`, the solution of the empty branch does
    not bind it -/
theorem addVars_must_witness : ¬ Statement_addVars_must := by
  intro h
  have := h 2 ⟨[], []⟩ (.union (.bgp [⟨.var 0, .const (.iri 10), .var 1⟩]) (.bgp [])) [] (Row.empty : Row 2)
    (by unfold WellScoped; decide) (by decide) 0 (by decide)
  exact absurd this (by decide)

/-- for VALUES-free queries the analysis can only be wrong in the K1 way: if at every FILTER / BIND / MINUS / OPTIONAL
    node the relevant variables that the context may bind and `_addVars` lists are bound by every solution of the
    sub-pattern (`Alg.mustOK`, decidable), evaluation of the tree as rdflib annotates it is exact -/
theorem analysis_correct_mustOK (n : Nat) (D : Dataset) (P : Alg) (ctx : List Nat) (hD : D.WF)
    (hv : P.valuesFree = true) (hm : P.mustOK ctx = true) (hws : WellScoped n P) (g : Graph) (μ0 : Row n)
    (h0 : μ0.domIn ctx) :
    (Model.evalPart D g μ0 P.annotate).Perm (push μ0 (Spec.eval D g Row.empty P)) :=
  analysis_correct n D P ctx hD (Alg.safeIn_annotate_of_mustOK P ctx hv hm) hws g μ0 h0

/-- non-vacuity: `exPattern5` carries (as sets) the annotations the analysis computes for it; it is VALUES-free and
    `mustOK []` -/
example : exPattern5.annotate.annots = exPattern5.annots ∧ exPattern5.valuesFree = true ∧
    exPattern5.mustOK [] = true ∧ exPattern5.annots = ["F0,1,2", "L0,1|1,2"] := by decide
/-- the lazy flag: `{ ?v0 <10> ?v1 . { ?v1 <11> ?v2 } UNION { VALUES ?v2 {7} } }` joins lazily, a join of joins does not -/
example : (Alg.join false (.bgp []) (.union (.bgp []) (.values [2] [[some (.int 7)]]))).annotate =
    .join true (.bgp []) (.union (.bgp []) (.values [2] [[some (.int 7)]])) := rfl
example : (Alg.join true (.join true (.bgp []) (.bgp [])) (.bgp [])).annotate =
    .join false (.join true (.bgp []) (.bgp [])) (.bgp []) := rfl

end RV.C04

namespace RV.C04
open Spec Model

/-- Round g — `analyse` decides which joins are evaluated lazily (right side under each left solution) and which by
    `_join` of two independent evaluations.  The choice is invisible in the answer wherever `safeIn` holds: the tree
    with NO lazy join (`Alg.strict`) is `safeIn` the same context (`Alg.safeIn_strict`: a lazy join only adds the left
    side's variables to the right side's context) and gives the same bag. -/
def Statement_lazy_irrelevant : Prop :=
  ∀ (n : Nat) (D : Dataset) (P : Alg) (ctx : List Nat), D.WF → P.safeIn ctx = true → WellScoped n P →
    ∀ (g : Graph) (μ0 : Row n), μ0.domIn ctx →
      (Model.evalPart D g μ0 P.strict).Perm (Model.evalPart D g μ0 P)

theorem lazy_irrelevant : Statement_lazy_irrelevant := by
  intro n D P ctx hD hs hws g μ0 h0
  have h1 := pushdown_induction hD P ctx hs hws g μ0 h0
  have h2 := pushdown_induction hD P.strict ctx (Alg.safeIn_strict P ctx hs)
    (by rw [Alg.allVars_strict]; exact hws) g μ0 h0
  rw [specEval_strict] at h2
  exact h2.trans h1.symm

/-- the converse fails, and this is how K1 shows at its witness: with the join NOT lazy the K1 pattern is `safeIn []`
    and evaluates to the algebra's (empty) answer; the lazy join that `analyse` chooses pushes `?v2` into the nested
    group, whose FILTER then takes it for the group's own binding -/
theorem lazy_exposes_K1 :
    k1Pattern.strict.safeIn [] = true ∧ k1Pattern.safeIn [] = false ∧
    (Model.evalPart k1Data k1Data.dflt (Row.empty : Row 4) k1Pattern.strict).length = 0 ∧
    (Model.evalPart k1Data k1Data.dflt (Row.empty : Row 4) k1Pattern).length = 1 := by decide

end RV.C04

namespace RV.C04
open Spec Model

/-! ### rdflib's translation (`translateGroupGraphPattern`, `collectAndRemoveFilters`, `translateExists`, `simplify`; model:
    Translate.lean, compared with rdflib's own tree on every case through the driver line `translate`) -/

/-- the tree of `Translate.query` before `simplify` and the analysis passes -/
def Translate.rawQuery : SQuery → Query
  | .select (some pv) g => .select pv (Translate.rawGroup g)
  | .select none g => .select (Translate.starVars g) (Translate.rawGroup g)
  | .ask g => .ask (Translate.starVars g) (Translate.rawGroup g)
  | .construct tpl g => .construct tpl (Translate.starVars g) (Translate.rawGroup g)

/-- DESIGN's `translate_agrees`, at full strength: rdflib's translation of a parsed query (as modelled) and the §18.2
    translation of the specification denote the same answer.  STATED ONLY — not proved in this round (the element fold
    differs from §18.2 by merged triple blocks, un-simplified EXISTS patterns and the `SELECT *` projection of sub-selects;
    a proof needs a mutual induction over the syntax with bag congruences).  It is tied on every run: rdflib's tree equals
    `Translate.query` (driver line `translate`), and rdflib's answers equal the reference evaluator's on `Spec.translate`. -/
def Statement_translate_agrees : Prop :=
  ∀ (n : Nat) (D : Dataset) (q : SQuery),
    ResultEq (Spec.evalQuery (n := n) D (Translate.query q)) (Spec.evalQuery D (Spec.translate q))

/-- `simplify` (and the analysis passes) do not change what the specification assigns to the translated tree -/
theorem specEvalQuery_translate (n : Nat) (D : Dataset) (q : SQuery) :
    Spec.evalQuery (n := n) D (Translate.query q) = Spec.evalQuery D (Translate.rawQuery q) := by
  cases q with
  | select proj g =>
    cases proj <;>
      simp [Translate.query, Translate.rawQuery, Spec.evalQuery, Translate.group, specEval_annotate, specEval_simplify]
  | ask g => simp [Translate.query, Translate.rawQuery, Spec.evalQuery, Translate.group, specEval_annotate, specEval_simplify]
  | construct tpl g =>
    simp [Translate.query, Translate.rawQuery, Spec.evalQuery, Translate.group, specEval_annotate, specEval_simplify]

/-- translation + `simplify` + `analyse` / `_addVars` + evaluator, all as modelled, from the PARSED query: wherever the
    resulting tree is `safeTop`, the answer is the §18 evaluation of the tree the element fold builds -/
theorem translate_pipeline (n : Nat) (D : Dataset) (q : SQuery) (mint : Nat → Term) (hD : D.WF)
    (hs : (Translate.query q).safeTop = true) (hws : WellScoped n (Translate.query q).pattern)
    (hg : (Translate.query q).groundTemplate) :
    ResultEq (Model.evalQuery (n := n) mint D (Translate.query q)) (Spec.evalQuery D (Translate.rawQuery q)) := by
  rw [← specEvalQuery_translate]
  exact eval_correct_top n D (Translate.query q) mint hD hs hws hg

/-- the order of group elements matters and the fold keeps it: `{ ?0 <10> ?1  MINUS { ?0 <11> ?2 }  ?0 <10> ?2 }` is
    `Join(Minus(P1, P2), P3)`, not `Minus(P1 + P3, P2)` (seeded change C04-13) -/
example : Translate.rawGroup (.cons (.tri [tp (.var 0) (.const (i 10)) (.var 1)])
      (.cons (.minus (.cons (.tri [tp (.var 0) (.const (i 11)) (.var 2)]) .nil))
        (.cons (.tri [tp (.var 0) (.const (i 10)) (.var 2)]) .nil))) =
    .join false
      (.minus (.join false (.bgp []) (.bgp [tp (.var 0) (.const (i 10)) (.var 1)]))
        (.join false (.bgp []) (.bgp [tp (.var 0) (.const (i 11)) (.var 2)])) none none)
      (.bgp [tp (.var 0) (.const (i 10)) (.var 2)]) := rfl

end RV.C04
