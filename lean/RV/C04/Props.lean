import RV.C04.Model
import RV.C04.Spec
namespace RV.C04
theorem placeholder : True := trivial
end RV.C04
