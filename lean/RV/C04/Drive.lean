import RV.C04.Model
import RV.C04.Spec
import RV.C04.Safe
import RV.C04.Analysis
import RV.C04.Translate
import RV.Base.Proto
/-
  C04 driver.  One request per line, one answer per line.

    ds (ds U (default s p o …) (named NAME s p o …) …)      -> ok
         U = 1: the query's default graph is the set-union of all graphs (Dataset(default_union=True))
    spec N <syntax-tree query>     -> Spec.evalQuery (Spec.translate q)     rows over N variables
    model N <rdflib algebra query> -> Model.evalQuery q
    safe <rdflib algebra query>    -> safe=0|1 frag=0|1   (Query.safe, Query.inFragment of RV/C04/Safe.lean)
    tr <syntax-tree query>         -> ok | bad-op   (diagnostic: does it parse)

  terms      i<n> IRI   b<n> blank node   n<z> integer   s<cp.cp…> string (code points)   t0|t1 boolean
             f<lab> template blank node (CONSTRUCT)      positions: ?<k> variable | term      U = UNDEF
  syntax     (group ELT…)   ELT = (tri s p o …) (opt G) (minus G) (union G…) (graph POS G) (values (vars k…) (row c…)…)
             (bind E k) (filter E) (subsel star|(proj k…) G)
             E = (var k) (const t) (cmp OP E E) (and E E) (or E E) (not E) (bound k) (exists G) (nexists G)
             query = (select star|(proj k…) G) | (ask G) | (construct (tri …) G)
  algebra    (bgp s p o …) (join LAZY a b) (leftjoin a b E none|(vars k…) none|(vars k…)) (filter E a (vars k…) NOISO)
             (union a b) (minus a b none|(vars k…) none|(vars k…)) (extend a k E (vars k…)) (graph POS a) (values (vars k…) (row c…)…)
             (project a (vars k…));   E as above with (exists ALG)
             query = (select (vars k…) a) | (ask (vars k…) a) | (construct (tri …) (vars k…) a)
  answers    vars k,k rows ROW ROW …     ROW = k:term;k:term | -     (rows sorted)
             ask 0|1          graph s p o | s p o …  (sorted, duplicate-free; minted nodes f<sol>.<lab>)
-/
open RV.C04 RV.Proto

namespace RV.C04.Drive

inductive SX
  | atom (s : String)
  | list (xs : List SX)
  deriving Inhabited

def tokenize (s : String) : List String :=
  words ((s.replace "(" " ( ").replace ")" " ) ")

partial def parseList : List String → List SX → Option (List SX × List String)
  | [], _ => none
  | ")" :: rest, acc => some (acc.reverse, rest)
  | "(" :: rest, acc =>
    match parseList rest [] with
    | some (xs, rest') => parseList rest' (SX.list xs :: acc)
    | none => none
  | a :: rest, acc => parseList rest (SX.atom a :: acc)

def parseSX (toks : List String) : Option SX :=
  match toks with
  | "(" :: rest =>
    match parseList rest [] with
    | some (xs, []) => some (.list xs)
    | _ => none
  | [a] => some (.atom a)
  | _ => none

def ofChars (cs : List Char) : String := String.ofList cs

def int? (s : String) : Option Int :=
  match s.toList with
  | '-' :: r => (ofChars r).toNat?.map (fun k => -(k : Int))
  | _ => s.toNat?.map (fun k => (k : Int))

def str? (s : String) : Option String :=
  if s = "" then some "" else
    ((s.splitOn ".").mapM (fun (w : String) => w.toNat?)).map (fun cps => String.ofList (cps.map Char.ofNat))

def term? (a : String) : Option Term :=
  match a.toList with
  | 'i' :: r => (ofChars r).toNat?.map .iri
  | 'b' :: r => (ofChars r).toNat?.map .bnode
  | 'n' :: r => (int? (ofChars r)).map .int
  | 's' :: r => (str? (ofChars r)).map .str
  | ['t', '1'] => some (.bool true)
  | ['t', '0'] => some (.bool false)
  | _ => none

def pos? (a : String) : Option Pos :=
  match a.toList with
  | '?' :: r => (ofChars r).toNat?.map .var
  | _ => (term? a).map .const

def tpos? (a : String) : Option TPos :=
  match a.toList with
  | '?' :: r => (ofChars r).toNat?.map .var
  | 'f' :: r => (ofChars r).toNat?.map .blank
  | _ => (term? a).map .const

def atoms? : List SX → Option (List String)
  | [] => some []
  | .atom a :: rest => (atoms? rest).map (a :: ·)
  | _ => none

def tps? : List String → Option (List TP)
  | [] => some []
  | s :: p :: o :: rest => do
    let s ← pos? s; let p ← pos? p; let o ← pos? o
    let r ← tps? rest
    pure (⟨s, p, o⟩ :: r)
  | _ => none

def ttps? : List String → Option (List TTP)
  | [] => some []
  | s :: p :: o :: rest => do
    let s ← tpos? s; let p ← tpos? p; let o ← tpos? o
    let r ← ttps? rest
    pure ((s, p, o) :: r)
  | _ => none

def nats? (xs : List SX) : Option (List Nat) := do
  let as ← atoms? xs
  as.mapM (·.toNat?)

def vars? : SX → Option (List Nat)
  | .list (.atom "vars" :: xs) => nats? xs
  | _ => none

def ovars? : SX → Option (Option (List Nat))
  | .atom "none" => some none
  | x => (vars? x).map some

def cell? (a : String) : Option (Option Term) :=
  if a = "U" then some none else (term? a).map some

def rows? : List SX → Option (List (List (Option Term)))
  | [] => some []
  | .list (.atom "row" :: cs) :: rest => do
    let as ← atoms? cs
    let r ← as.mapM cell?
    let rs ← rows? rest
    pure (r :: rs)
  | _ => none

def op? : String → Option CmpOp
  | "eq" => some .eq | "ne" => some .ne | "lt" => some .lt | "gt" => some .gt
  | "le" => some .le | "ge" => some .ge | _ => none

def bool01? : String → Option Bool
  | "0" => some false | "1" => some true | _ => none

/-! algebra (rdflib's tree) -/

mutual
partial def expr? : SX → Option Expr
  | .list [.atom "var", .atom k] => k.toNat?.map .var
  | .list [.atom "const", .atom t] => (term? t).map .const
  | .list [.atom "cmp", .atom o, a, b] => do pure (.cmp (← op? o) (← expr? a) (← expr? b))
  | .list [.atom "and", a, b] => do pure (.and (← expr? a) (← expr? b))
  | .list [.atom "or", a, b] => do pure (.or (← expr? a) (← expr? b))
  | .list [.atom "not", a] => do pure (.not (← expr? a))
  | .list [.atom "bound", .atom k] => k.toNat?.map .bound
  | .list [.atom "exists", p] => do pure (.exists false (← alg? p))
  | .list [.atom "nexists", p] => do pure (.exists true (← alg? p))
  | _ => none
partial def alg? : SX → Option Alg
  | .list (.atom "bgp" :: xs) => do pure (.bgp (← tps? (← atoms? xs)))
  | .list [.atom "join", .atom l, a, b] => do pure (.join (← bool01? l) (← alg? a) (← alg? b))
  | .list [.atom "leftjoin", a, b, e, v1, v2] => do
    pure (.leftJoin (← alg? a) (← alg? b) (← expr? e) (← ovars? v1) (← ovars? v2))
  | .list [.atom "filter", e, a, vs, .atom ni] => do
    pure (.filter (← expr? e) (← alg? a) (← vars? vs) (← bool01? ni))
  | .list [.atom "union", a, b] => do pure (.union (← alg? a) (← alg? b))
  | .list [.atom "minus", a, b, v1, v2] => do pure (.minus (← alg? a) (← alg? b) (← ovars? v1) (← ovars? v2))
  | .list [.atom "extend", a, .atom k, e, vs] => do
    pure (.extend (← alg? a) (← k.toNat?) (← expr? e) (← vars? vs))
  | .list [.atom "graph", .atom g, a] => do pure (.graph (← pos? g) (← alg? a))
  | .list (.atom "values" :: vs :: rows) => do pure (.values (← vars? vs) (← rows? rows))
  | .list [.atom "project", a, vs] => do pure (.project (← alg? a) (← vars? vs))
  | _ => none
end

def tri? : SX → Option (List TTP)
  | .list (.atom "tri" :: xs) => do ttps? (← atoms? xs)
  | _ => none

def query? : SX → Option Query
  | .list [.atom "select", vs, a] => do pure (.select (← vars? vs) (← alg? a))
  | .list [.atom "ask", vs, a] => do pure (.ask (← vars? vs) (← alg? a))
  | .list [.atom "construct", tpl, vs, a] => do pure (.construct (← tri? tpl) (← vars? vs) (← alg? a))
  | _ => none

/-! syntax tree -/

def proj? : SX → Option (Option (List Nat))
  | .atom "star" => some none
  | .list (.atom "proj" :: xs) => (nats? xs).map some
  | _ => none

mutual
partial def sexpr? : SX → Option Spec.SExpr
  | .list [.atom "var", .atom k] => k.toNat?.map .var
  | .list [.atom "const", .atom t] => (term? t).map .const
  | .list [.atom "cmp", .atom o, a, b] => do pure (.cmp (← op? o) (← sexpr? a) (← sexpr? b))
  | .list [.atom "and", a, b] => do pure (.and (← sexpr? a) (← sexpr? b))
  | .list [.atom "or", a, b] => do pure (.or (← sexpr? a) (← sexpr? b))
  | .list [.atom "not", a] => do pure (.not (← sexpr? a))
  | .list [.atom "bound", .atom k] => k.toNat?.map .bound
  | .list [.atom "exists", g] => do pure (.exists false (← group? g))
  | .list [.atom "nexists", g] => do pure (.exists true (← group? g))
  | _ => none
partial def group? : SX → Option Spec.Elts
  | .list (.atom "group" :: es) => elts? es
  | _ => none
partial def elts? : List SX → Option Spec.Elts
  | [] => some .nil
  | e :: rest => do pure (.cons (← elt? e) (← elts? rest))
partial def groups? : List SX → Option Spec.Groups
  | [] => some .nil
  | g :: rest => do pure (.cons (← group? g) (← groups? rest))
partial def elt? : SX → Option Spec.Elt
  | .list (.atom "tri" :: xs) => do pure (.tri (← tps? (← atoms? xs)))
  | .list [.atom "opt", g] => do pure (.opt (← group? g))
  | .list [.atom "minus", g] => do pure (.minus (← group? g))
  | .list (.atom "union" :: gs) => do pure (.union (← groups? gs))
  | .list [.atom "graph", .atom p, g] => do pure (.graph (← pos? p) (← group? g))
  | .list (.atom "values" :: vs :: rows) => do pure (.values (← vars? vs) (← rows? rows))
  | .list [.atom "bind", e, .atom k] => do pure (.bind (← sexpr? e) (← k.toNat?))
  | .list [.atom "filter", e] => do pure (.filter (← sexpr? e))
  | .list [.atom "subsel", pr, g] => do pure (.subsel (← proj? pr) (← group? g))
  | _ => none
end

def squery? : SX → Option Spec.SQuery
  | .list [.atom "select", pr, g] => do pure (.select (← proj? pr) (← group? g))
  | .list [.atom "ask", g] => do pure (.ask (← group? g))
  | .list [.atom "construct", tpl, g] => do pure (.construct (← tri? tpl) (← group? g))
  | _ => none

/-! dataset -/

def triples? : List String → Option (List Triple)
  | [] => some []
  | s :: p :: o :: rest => do
    let s ← term? s; let p ← term? p; let o ← term? o
    let r ← triples? rest
    pure ((s, p, o) :: r)
  | _ => none

def dedup {α} [DecidableEq α] : List α → List α
  | [] => []
  | x :: xs => if x ∈ xs then dedup xs else x :: dedup xs

def named? : List SX → Option (List (Term × Graph))
  | [] => some []
  | .list (.atom "named" :: .atom nm :: xs) :: rest => do
    let nm ← term? nm
    let ts ← triples? (← atoms? xs)
    let r ← named? rest
    pure ((nm, dedup ts) :: r)
  | _ => none

def dataset? : SX → Option Dataset
  | .list (.atom "ds" :: .atom u :: .list (.atom "default" :: xs) :: rest) => do
    let u ← bool01? u
    let dflt ← triples? (← atoms? xs)
    let named ← named? rest
    let dflt' := if u then dedup (dflt ++ named.flatMap (·.2)) else dedup dflt
    pure ⟨dflt', named⟩
  | _ => none

/-! printing -/

def showTerm : Term → String
  | .iri k => s!"i{k}"
  | .bnode k => s!"b{k}"
  | .int z => s!"n{z}"
  | .str s => "s" ++ ".".intercalate (s.toList.map (fun c => toString c.toNat))
  | .bool b => if b then "t1" else "t0"
  | .fresh s l => s!"f{s}.{l}"

def showRow {n : Nat} (μ : Row n) : String :=
  let cells := (List.range n).filterMap fun k => (μ.get k).map fun t => s!"{k}:{showTerm t}"
  if cells.isEmpty then "-" else ";".intercalate cells

def showResult {n : Nat} : Result n → String
  | .rows pv bag =>
    "vars " ++ ",".intercalate (pv.map toString) ++ " rows " ++ " ".intercalate (sortStrs (bag.map showRow))
  | .bool b => if b then "ask 1" else "ask 0"
  | .graph ts =>
    "graph " ++ " | ".intercalate (sortStrs (dedup (ts.map fun t =>
      showTerm t.1 ++ " " ++ showTerm t.2.1 ++ " " ++ showTerm t.2.2)))

/-! canonical text of an algebra tree (BGPs as sorted bags of triple patterns, variable sets sorted): what the Lean model of
    rdflib's translation produces, compared by the harness with rdflib's own tree printed the same way -/

def showPos : Pos → String
  | .var v => s!"?{v}"
  | .const t => showTerm t

def showOp : CmpOp → String
  | .eq => "eq" | .ne => "ne" | .lt => "lt" | .gt => "gt" | .le => "le" | .ge => "ge"

def showVars (l : List Nat) : String := "(vars" ++ String.join ((canonSet l).map fun k => s!" {k}") ++ ")"

def showOVars : Option (List Nat) → String
  | none => "none"
  | some l => showVars l

def showCell : Option Term → String
  | none => "U"
  | some t => showTerm t

mutual
def showExpr : Expr → String
  | .var v => s!"(var {v})"
  | .const t => s!"(const {showTerm t})"
  | .cmp op a b => s!"(cmp {showOp op} {showExpr a} {showExpr b})"
  | .and a b => s!"(and {showExpr a} {showExpr b})"
  | .or a b => s!"(or {showExpr a} {showExpr b})"
  | .not a => s!"(not {showExpr a})"
  | .bound v => s!"(bound {v})"
  | .exists neg p => (if neg then "(nexists " else "(exists ") ++ showAlg p ++ ")"
def showAlg : Alg → String
  | .bgp tps =>
    "(bgp" ++ String.join ((sortStrs (tps.map fun tp => s!"{showPos tp.s} {showPos tp.p} {showPos tp.o}")).map (" " ++ ·)) ++ ")"
  | .join l a b => s!"(join {if l then 1 else 0} {showAlg a} {showAlg b})"
  | .leftJoin a b e p1 p2 => s!"(leftjoin {showAlg a} {showAlg b} {showExpr e} {showOVars p1} {showOVars p2})"
  | .filter e p vars noIso => s!"(filter {showExpr e} {showAlg p} {showVars vars} {if noIso then 1 else 0})"
  | .union a b => s!"(union {showAlg a} {showAlg b})"
  | .minus a b p1 p2 => s!"(minus {showAlg a} {showAlg b} {showOVars p1} {showOVars p2})"
  | .extend p v e vars => s!"(extend {showAlg p} {v} {showExpr e} {showVars vars})"
  | .graph g p => s!"(graph {showPos g} {showAlg p})"
  | .values vars rows =>
    if rows.isEmpty then "(values)" else
      "(values (vars" ++ String.join (vars.map fun k => s!" {k}") ++ ")" ++
        String.join (rows.map fun r => " (row" ++ String.join (r.map fun c => " " ++ showCell c) ++ ")") ++ ")"
  | .project p pv => s!"(project {showAlg p} {showVars pv})"
end

def showTPos : TPos → String
  | .var v => s!"?{v}"
  | .const t => showTerm t
  | .blank l => s!"f{l}"

def showQuery : Query → String
  | .select pv p => s!"(select {showVars pv} {showAlg p})"
  | .ask pv p => s!"(ask {showVars pv} {showAlg p})"
  | .construct _ pv p => s!"(construct {showVars pv} {showAlg p})"   -- the template is not part of the pattern's translation

def step (D : Dataset) : List String → Dataset × String
  | "ds" :: rest =>
    match (parseSX (tokenize (" ".intercalate rest))).bind dataset? with
    | some D' => (D', "ok")
    | none => (D, "bad-op")
  | "spec" :: nn :: rest =>
    match nn.toNat?, (parseSX (tokenize (" ".intercalate rest))).bind squery? with
    | some n, some q => (D, showResult (Spec.evalQuery (n := n) D (Spec.translate q)))
    | _, _ => (D, "bad-op")
  | "model" :: nn :: rest =>
    match nn.toNat?, (parseSX (tokenize (" ".intercalate rest))).bind query? with
    | some n, some q => (D, showResult (Model.evalQuery (n := n) (fun k => Term.fresh k 0) D q))
    | _, _ => (D, "bad-op")
  | "safe" :: rest =>
    match (parseSX (tokenize (" ".intercalate rest))).bind query? with
    | some q =>
      (D, s!"safe={if q.safe then 1 else 0} frag={if q.inFragment then 1 else 0} top={if q.safeTop then 1 else 0}")
    | none => (D, "bad-op")
  -- round g: the analysis passes of translateQuery (`analyse`, `_addVars`) recomputed by the Lean model on rdflib's
  -- tree (incoming annotations ignored), printed as text; and the model run on the tree so re-annotated
  | "annot" :: rest =>
    match (parseSX (tokenize (" ".intercalate rest))).bind query? with
    | some q => (D, "annot " ++ " ".intercalate q.pattern.annotate.annots)
    | none => (D, "bad-op")
  | "amodel" :: nn :: rest =>
    match nn.toNat?, (parseSX (tokenize (" ".intercalate rest))).bind query? with
    | some n, some q => (D, showResult (Model.evalQuery (n := n) (fun k => Term.fresh k 0) D q.annotate))
    | _, _ => (D, "bad-op")
  -- rdflib's translation (translateGroupGraphPattern, simplify, analyse, _addVars) as modelled in Translate.lean, run on
  -- the PARSED SYNTAX TREE; the harness compares with rdflib's own tree
  | "translate" :: rest =>
    match (parseSX (tokenize (" ".intercalate rest))).bind squery? with
    | some q => (D, "tree " ++ showQuery (Translate.query q))
    | none => (D, "bad-op")
  | "tr" :: rest =>
    match (parseSX (tokenize (" ".intercalate rest))).bind squery? with
    | some _ => (D, "ok")
    | none => (D, "bad-op")
  | _ => (D, "bad-op")

end RV.C04.Drive

def main : IO Unit := RV.Proto.run RV.C04.Drive.step (⟨[], []⟩ : RV.C04.Dataset)
