import RV.C04.Types
/-
  C04 — executable model of rdflib's top-down SPARQL evaluator
  (`rdflib/plugins/sparql/evaluate.py`, `evalutils.py`, `sparql.py`, the expression
  operators of `operators.py`), one function per Python function, following the code's
  own algorithm: the `QueryContext` carries the current bindings `μ0` and the active graph;
  bindings are pushed down into sub-patterns (`evalBGP` starts from them, the lazy join and
  OPTIONAL evaluate their right side under each left solution, `forget` / `remember` trim
  them around filters, BIND, MINUS and the OPTIONAL re-check).

  The model is of the code on branch fix-C04 = /repo main (which carries the SPARQL repairs of the C15, C10 and C08
  builders) + the four C04 repairs on top (see design.d/C04.md).
  The algebra tree is rdflib's own (`translateQuery`), annotations included — the harness
  ships `prepareQuery(text).algebra`; translation is therefore not modelled here.
-/
namespace RV.C04.Model
open RV.C04

variable {n : Nat}

/-! ### evalBGP -/

/-- `c[pos] = x` inside `evalBGP`, done only when the position was unbound on entry
    (`entry = none`); `none` = `AlreadyBound` raised (the variable got another value from an
    earlier position of the same triple pattern). -/
def bindIf (μ : Row n) (p : Pos) (entry : Option Term) (x : Term) : Option (Row n) :=
  match entry with
  | some _ => some μ
  | none =>
    match p with
    | .const _ => some μ
    | .var v =>
      match μ.get v with
      | some y => if y = x then some μ else none
      | none => some (μ.set v x)

/-- `ctx.graph.triples((_s, _p, _o))` -/
def storeMatch (g : Graph) (s p o : Option Term) : List Triple :=
  g.filter fun t => matchPos s t.1 && matchPos p t.2.1 && matchPos o t.2.2

def evalBGP (g : Graph) : List TP → Row n → List (Row n)
  | [], μ => [μ]
  | tp :: rest, μ =>
    (storeMatch g (tp.s.lookup μ) (tp.p.lookup μ) (tp.o.lookup μ)).flatMap fun t =>
      match (bindIf μ tp.s (tp.s.lookup μ) t.1).bind fun μ1 =>
            (bindIf μ1 tp.p (tp.p.lookup μ) t.2.1).bind fun μ2 =>
             bindIf μ2 tp.o (tp.o.lookup μ) t.2.2 with
      | some μ' => evalBGP g rest μ'
      | none => []

/-- `len([n for n in t if ctx[n] is None])` -/
def unboundCount (μ : Row n) (tp : TP) : Nat :=
  (if (tp.s.lookup μ).isNone then 1 else 0) + (if (tp.p.lookup μ).isNone then 1 else 0) +
  (if (tp.o.lookup μ).isNone then 1 else 0)

def insertTP (μ : Row n) (x : TP) : List TP → List TP
  | [] => [x]
  | y :: ys => if unboundCount μ x ≤ unboundCount μ y then x :: y :: ys else y :: insertTP μ x ys

/-- `sorted(part.triples, key=…)` (stable) in `evalPart` -/
def sortTPs (μ : Row n) (tps : List TP) : List TP := tps.foldr (insertTP μ) []

/-! ### evalutils._join, evalValues, evalGraph's join with the graph name -/

/-- `_join(a, b)`: `x.merge(y)` for compatible pairs -/
def joinL (A B : List (Row n)) : List (Row n) :=
  A.flatMap fun x => B.filterMap fun y => if x.compat y then some (x.merge y) else none

/-- one row of `evalValues`: `c[k] = v` for every non-UNDEF cell; `none` = `AlreadyBound` -/
def valuesRow : List Nat → List (Option Term) → Row n → Option (Row n)
  | v :: vs, c :: cs, μ =>
    match c with
    | none => valuesRow vs cs μ
    | some t =>
      match μ.get v with
      | some y => if y = t then valuesRow vs cs μ else none
      | none => valuesRow vs cs (μ.set v t)
  | _, _, μ => some μ

/-- `_join([x], [{term: name}])` in `evalGraph` -/
def graphJoin (v : Nat) (name : Term) (x : Row n) : Option (Row n) :=
  if x.compat (Row.empty.set v name) then some (x.merge (Row.empty.set v name)) else none

/-! ### evalPart and expression evaluation -/

mutual
/-- `evalPart(ctx, part)` with `ctx.bindings = μ0`, `ctx.graph = g`, `ctx.dataset = D` -/
def evalPart (D : Dataset) (g : Graph) (μ0 : Row n) : Alg → List (Row n)
  | .bgp tps => evalBGP g (sortTPs μ0 tps) μ0
  -- evalLazyJoin: `c = ctx.thaw(a)`, `yield b.merge(a)`
  | .join true a b =>
    (evalPart D g μ0 a).flatMap fun x =>
      (evalPart D g x b).map fun y => y.merge x
  -- evalJoin, not lazy
  | .join false a b => joinL (evalPart D g μ0 a) (evalPart D g μ0 b)
  -- evalLeftJoin
  | .leftJoin a b e p1vars p2vars =>
    (evalPart D g μ0 a).flatMap fun x =>
      if ((evalPart D g x b).filter fun y =>
            isTrue (evalExpr D g (y.forget μ0 (ownVars p1vars p2vars)) e)).isEmpty then
        -- not ok: the re-check without the pushed-in bindings
        match p1vars with
        | none => [x]
        | some vs =>
          if (evalPart D g (x.restrict vs) b).any (fun y => isTrue (evalExpr D g y e)) then [] else [x]
      else
        ((evalPart D g x b).filter fun y =>
            isTrue (evalExpr D g (y.forget μ0 (ownVars p1vars p2vars)) e)).map fun y => y.merge x
  -- evalFilter
  | .filter e p vars noIso =>
    (evalPart D g μ0 p).filter fun c =>
      isTrue (evalExpr D g (if noIso then c else c.forget μ0 vars) e)
  -- evalUnion
  | .union a b => evalPart D g μ0 a ++ evalPart D g μ0 b
  -- evalMinus: right side under `ctx.clean()`, each side compared on the variables it binds itself
  | .minus a b p1vars p2vars =>
    (evalPart D g μ0 a).filter fun x =>
      ((evalPart D g Row.empty b).map fun y => y.rememberOpt p2vars).all fun y =>
        !((x.rememberOpt p1vars).compat y) || (x.rememberOpt p1vars).disjoint y
  -- evalExtend
  | .extend p v e vars =>
    (evalPart D g μ0 p).filterMap fun c =>
      match evalExpr D g (c.forget μ0 vars) e with
      | none => some c
      | some t =>
        -- `if var in c and c[var] != e: continue` / `yield c.merge({var: e})`
        match c.get v with
        | some y => if y = t then some (c.set v t) else none
        | none => some (c.set v t)
  -- evalGraph
  | .graph gp p =>
    match gp.lookup μ0 with
    | some t =>
      if (D.graphOf t).isEmpty && !D.isName t then [] else evalPart D (D.graphOf t) μ0 p
    | none =>
      match gp with
      | .var v => D.named.flatMap fun ng => (evalPart D ng.2 μ0 p).filterMap (graphJoin v ng.1)
      | .const _ => []
  -- evalMultiset / evalValues
  | .values vars rows => rows.filterMap fun r => valuesRow vars r μ0
  -- evalMultiset (sub-select): `_join(evalPart(ctx.clean(), Project(p, PV)), [ctx.solution()])`
  | .project p pv => joinL ((evalPart D g Row.empty p).map (·.restrict pv)) [μ0]
/-- `Expr.eval(ctx)` for the operators of the fragment; `none` = a `SPARQLError` -/
def evalExpr (D : Dataset) (g : Graph) (c : Row n) : Expr → Option Term
  | .var v => c.get v
  | .const t => some t
  | .cmp op a b => cmpV op (evalExpr D g c a) (evalExpr D g c b)
  | .and a b => boolV (and3 (ebvV (evalExpr D g c a)) (ebvV (evalExpr D g c b)))
  | .or a b => boolV (or3 (ebvV (evalExpr D g c a)) (ebvV (evalExpr D g c b)))
  | .not a => boolV ((ebvV (evalExpr D g c a)).map (!·))
  | .bound v => some (.bool (c.get v).isSome)
  -- Builtin_EXISTS: `ctx.ctx.thaw(ctx)`, then "is there a first solution"
  | .exists neg p => some (.bool ((evalPart D g c p).isEmpty == neg))
end

/-! ### query forms: evalSelectQuery, evalAskQuery, evalConstructQuery + _fillTemplate

  Blank nodes of a CONSTRUCT template: `_fillTemplate` keeps `bnodeMap = defaultdict(BNode)` per solution;
  `bnodeMap[label]` calls `BNode()` the first time a label is met in that solution.  `BNode()` is modelled by a
  supply `mint : Nat → Term` (the k-th call returns `mint k`) with the call counter threaded through the solutions
  in the order `evalConstructQuery` consumes them.  Freshness of the supply is a hypothesis of the theorems
  (`FreshSupply`), not built into the model. -/

abbrev BMap := List (Nat × Term)

def bmLookup : BMap → Nat → Option Term
  | [], _ => none
  | (l, t) :: rest, lab => if l = lab then some t else bmLookup rest lab

/-- `bnodeMap[lab]` on a `defaultdict(BNode)`; the state is (the dict, number of `BNode()` calls so far) -/
def bnodeGet (mint : Nat → Term) (st : BMap × Nat) (lab : Nat) : Term × (BMap × Nat) :=
  match bmLookup st.1 lab with
  | some t => (t, st)
  | none => (mint st.2, (st.1 ++ [(lab, mint st.2)], st.2 + 1))

/-- one position of a template triple: `bnodeMap[x] if isinstance(x, BNode) else solution.get(x)` -/
def fillPos (mint : Nat → Term) (μ : Row n) (st : BMap × Nat) : TPos → Option Term × (BMap × Nat)
  | .var v => (μ.get v, st)
  | .const t => (some t, st)
  | .blank lab => (some (bnodeGet mint st lab).1, (bnodeGet mint st lab).2)

def isLiteral : Term → Bool
  | .int _ | .str _ | .bool _ => true
  | _ => false

def isURIRef : Term → Bool
  | .iri _ => true
  | _ => false

/-- the test at the end of the loop body: all three bound, subject not a literal, predicate an IRI -/
def legalTriple : Option Term → Option Term → Option Term → Option Triple
  | some s, some p, some o => if isLiteral s || !isURIRef p then none else some (s, p, o)
  | _, _, _ => none

/-- one template triple: the three positions are instantiated (subject, predicate, object — minting happens here,
    also for a triple that is then skipped), then the triple is tested -/
def fillTriple (mint : Nat → Term) (μ : Row n) (st : BMap × Nat) (tp : TTP) : Option Triple × (BMap × Nat) :=
  (legalTriple (fillPos mint μ st tp.1).1 (fillPos mint μ (fillPos mint μ st tp.1).2 tp.2.1).1
      (fillPos mint μ (fillPos mint μ (fillPos mint μ st tp.1).2 tp.2.1).2 tp.2.2).1,
   (fillPos mint μ (fillPos mint μ (fillPos mint μ st tp.1).2 tp.2.1).2 tp.2.2).2)

/-- `_fillTemplate(template, solution)` from a given dict / counter -/
def fillTemplate (mint : Nat → Term) (μ : Row n) : List TTP → BMap × Nat → List Triple × (BMap × Nat)
  | [], st => ([], st)
  | tp :: rest, st =>
    ((match (fillTriple mint μ st tp).1 with
      | some t => t :: (fillTemplate mint μ rest (fillTriple mint μ st tp).2).1
      | none => (fillTemplate mint μ rest (fillTriple mint μ st tp).2).1),
     (fillTemplate mint μ rest (fillTriple mint μ st tp).2).2)

/-- `for c in evalPart(ctx, query.p): graph += _fillTemplate(template, c)`: a new dict per solution, the `BNode()`
    counter goes on -/
def fillAll (mint : Nat → Term) (tpl : List TTP) : List (Row n) → Nat → List Triple
  | [], _ => []
  | μ :: rest, k =>
    (fillTemplate mint μ tpl ([], k)).1 ++ fillAll mint tpl rest (fillTemplate mint μ tpl ([], k)).2.2

def evalQuery (mint : Nat → Term) (D : Dataset) : Query → Result n
  | .select pv p => .rows pv ((evalPart D D.dflt Row.empty p).map (·.restrict pv))
  | .ask pv p => .bool (!((evalPart D D.dflt (Row.empty : Row n) p).map (·.restrict pv)).isEmpty)
  | .construct tpl pv p =>
    .graph (fillAll mint tpl ((evalPart D D.dflt (Row.empty : Row n) p).map (·.restrict pv)) 0)

end RV.C04.Model
