import RV.C04.OpLemmas3
/-
  C04 — EXISTS: rdflib evaluates the pattern under the current solution (`ctx.ctx.thaw(ctx)`), the
  specification substitutes the solution into the pattern (§18.6).  For the patterns `Alg.existsOK`
  describes (triples, joins, UNION, GRAPH, a top-level filter) the two agree.
-/
namespace RV.C04
open Spec Model
variable {n : Nat}

/-- `μ` binds none of the variables `σ` binds -/
def Row.disjointFrom (σ μ : Row n) : Prop := ∀ v, (σ.get v).isSome = true → μ.get v = none

theorem Row.disjointFrom_empty (σ : Row n) : σ.disjointFrom Row.empty := fun _ _ => Row.get_empty

theorem matchOne_subst {σ ν : Row n} (hd : σ.disjointFrom ν) (p : Pos) (x : Term) :
    matchOne (σ.merge ν) p x = (matchOne ν (substPos σ p) x).map (σ.merge ·) ∧
    ∀ ν', matchOne ν (substPos σ p) x = some ν' → σ.disjointFrom ν' := by
  cases p with
  | const t =>
    simp only [substPos, matchOne]
    by_cases h : t = x
    · simp only [h, if_true, Option.map_some, true_and]
      intro ν' hν'; cases hν'; exact hd
    · simp [h]
  | var v =>
    cases hσ : σ.get v with
    | some t =>
      have hν : ν.get v = none := hd v (by simp [hσ])
      have hg : (σ.merge ν).get v = some t := by rw [Row.get_merge, hν]; simpa using hσ
      simp only [substPos, hσ]
      rw [matchOne_var_some hg]
      simp only [matchOne]
      by_cases h : t = x
      · simp only [h, if_true, Option.map_some, true_and]
        intro ν' hν'; cases hν'; exact hd
      · simp [h]
    | none =>
      simp only [substPos, hσ]
      cases hν : ν.get v with
      | some y =>
        have hg : (σ.merge ν).get v = some y := by rw [Row.get_merge, hν]; rfl
        rw [matchOne_var_some hg, matchOne_var_some hν]
        by_cases h : y = x
        · simp only [h, if_true, Option.map_some, true_and]
          intro ν' hν'; cases hν'; exact hd
        · simp [h]
      | none =>
        have hg : (σ.merge ν).get v = none := by rw [Row.get_merge, hν]; simpa using hσ
        rw [matchOne_var_none hg, matchOne_var_none hν]
        refine ⟨by simp [Row.merge_set_comm], ?_⟩
        intro ν' hν'
        cases hν'
        intro w hw
        rw [Row.get_set]
        split
        · next hh => rw [← hh.1, hσ] at hw; cases hw
        · exact hd w hw

/-- a row transformer and its substituted counterpart -/
structure SubstOK (σ : Row n) (f f' : Row n → Option (Row n)) : Prop where
  eq : ∀ ν, σ.disjointFrom ν → f (σ.merge ν) = (f' ν).map (σ.merge ·)
  disj : ∀ ν ν', σ.disjointFrom ν → f' ν = some ν' → σ.disjointFrom ν'

theorem SubstOK.comp {σ : Row n} {f1 f1' f2 f2' : Row n → Option (Row n)} (h1 : SubstOK σ f1 f1')
    (h2 : SubstOK σ f2 f2') : SubstOK σ (fun μ => (f1 μ).bind f2) (fun μ => (f1' μ).bind f2') where
  eq := by
    intro ν hd
    show (f1 (σ.merge ν)).bind f2 = ((f1' ν).bind f2').map (σ.merge ·)
    rw [h1.eq ν hd]
    cases h : f1' ν with
    | none => rfl
    | some ν1 =>
      simp only [Option.map_some, Option.bind_some]
      exact h2.eq ν1 (h1.disj ν ν1 hd h)
  disj := by
    intro ν ν' hd h
    simp only [Option.bind_eq_some_iff] at h
    obtain ⟨ν1, h1', h2'⟩ := h
    exact h2.disj ν1 ν' (h1.disj ν ν1 hd h1') h2'

theorem matchOne_substOK (σ : Row n) (p : Pos) (x : Term) :
    SubstOK σ (fun μ => matchOne μ p x) (fun μ => matchOne μ (substPos σ p) x) :=
  ⟨fun ν hd => (matchOne_subst hd p x).1, fun ν ν' hd h => (matchOne_subst hd p x).2 ν' h⟩

theorem matchTP_substOK (σ : Row n) (tp : TP) (t : Triple) :
    SubstOK σ (fun μ => matchTP μ tp t) (fun μ => matchTP μ (substTP σ tp) t) :=
  (matchOne_substOK σ tp.s t.1).comp ((matchOne_substOK σ tp.p t.2.1).comp (matchOne_substOK σ tp.o t.2.2))

/-- matching a BGP from `σ` = matching the substituted BGP from nothing, then adding `σ` -/
theorem bgp_subst {g : Graph} {σ : Row n} : ∀ (tps : List TP) (ν : Row n), σ.disjointFrom ν →
    bgp g tps (σ.merge ν) = (bgp g (tps.map (substTP σ)) ν).map (σ.merge ·) ∧
    ∀ x ∈ bgp g (tps.map (substTP σ)) ν, σ.disjointFrom x
  | [], ν, hd => by simp [bgp, hd]
  | tp :: rest, ν, hd => by
    have hOK := matchTP_substOK σ tp
    constructor
    · simp only [bgp, List.map_cons, List.map_flatMap]
      apply List.flatMap_congr
      intro t _
      rw [(hOK t).eq ν hd]
      cases h : matchTP ν (substTP σ tp) t with
      | none => rfl
      | some ν' => exact (bgp_subst rest ν' ((hOK t).disj ν ν' hd h)).1
    · intro x hx
      simp only [bgp, List.map_cons, List.mem_flatMap] at hx
      obtain ⟨t, _, hx⟩ := hx
      split at hx
      · next ν' h => exact (bgp_subst rest ν' ((hOK t).disj ν ν' hd h)).2 x hx
      · cases hx

end RV.C04

namespace RV.C04
open Spec Model
variable {n : Nat}

theorem Row.disjointFrom_merge {σ a b : Row n} (ha : σ.disjointFrom a) (hb : σ.disjointFrom b) :
    σ.disjointFrom (a.merge b) := by
  intro v hv
  rw [Row.get_merge, ha v hv, hb v hv]; rfl

theorem Row.compat_subst {σ a b : Row n} (ha : σ.disjointFrom a) (hb : σ.disjointFrom b) :
    (σ.merge a).compat (σ.merge b) = a.compat b := by
  rw [Bool.eq_iff_iff]
  simp only [Row.compat_iff, Row.get_merge]
  constructor
  · intro h v s t hs ht
    have := h v s t
    rw [hs, ht] at this
    exact this rfl rfl
  · intro h v s t hs ht
    cases hσ : σ.get v with
    | some z =>
      rw [ha v (by simp [hσ]), hσ] at hs
      rw [hb v (by simp [hσ]), hσ] at ht
      simp at hs ht
      rw [← hs, ← ht]
    | none =>
      rw [hσ] at hs ht
      have hs' : a.get v = some s := by cases h1 : a.get v <;> simp_all
      have ht' : b.get v = some t := by cases h1 : b.get v <;> simp_all
      exact h v s t hs' ht'

theorem Row.merge_subst {σ a b : Row n} (ha : σ.disjointFrom a) (hb : σ.disjointFrom b) :
    (σ.merge a).merge (σ.merge b) = σ.merge (a.merge b) := by
  apply Row.ext_get
  intro v
  simp only [Row.get_merge]
  cases hσ : σ.get v with
  | some z => rw [ha v (by simp [hσ]), hb v (by simp [hσ])]; rfl
  | none => cases a.get v <;> cases b.get v <;> rfl

/-- `_join` on two bags that both carry `σ` -/
theorem joinL_subst {σ : Row n} {A B : List (Row n)} (hA : ∀ μ ∈ A, σ.disjointFrom μ)
    (hB : ∀ μ ∈ B, σ.disjointFrom μ) :
    joinL (A.map (σ.merge ·)) (B.map (σ.merge ·)) = (joinBag A B).map (σ.merge ·) := by
  simp only [joinL, joinBag, List.flatMap_map, List.map_flatMap, List.filterMap_map, List.map_filterMap]
  apply List.flatMap_congr
  intro μ1 h1
  apply List.filterMap_congr
  intro μ2 h2
  simp only [Function.comp, Row.compat_subst (hA μ1 h1) (hB μ2 h2), Row.merge_subst (hA μ1 h1) (hB μ2 h2)]
  cases μ1.compat μ2 <;> rfl

theorem joinBag_disjoint {σ : Row n} {A B : List (Row n)} (hA : ∀ μ ∈ A, σ.disjointFrom μ)
    (hB : ∀ μ ∈ B, σ.disjointFrom μ) : ∀ μ ∈ joinBag A B, σ.disjointFrom μ := by
  intro μ hμ
  simp only [joinBag, List.mem_flatMap, List.mem_filterMap] at hμ
  obtain ⟨μ1, h1, μ2, h2, he⟩ := hμ
  split at he
  · cases he; exact Row.disjointFrom_merge (hA μ1 h1) (hB μ2 h2)
  · cases he

/-- EXISTS body: evaluating under the solution `σ` = substituting `σ`, evaluating, adding `σ` back -/
theorem exists_body {D : Dataset} : ∀ (P : Alg), P.existsBody = true → ∀ (g : Graph) (σ : Row n),
    (Model.evalPart D g σ P).Perm ((Spec.eval D g σ P).map (σ.merge ·)) ∧
    ∀ μ ∈ Spec.eval D g σ P, σ.disjointFrom μ
  | .bgp tps, _, g, σ => by
    simp only [Model.evalPart, Spec.eval]
    have h := bgp_subst (g := g) (σ := σ) tps Row.empty (Row.disjointFrom_empty σ)
    refine ⟨?_, h.2⟩
    rw [evalBGP_eq_bgp]
    refine (bgp_perm (sortTPs_perm σ tps) σ).trans ?_
    rw [← h.1, Row.merge_empty]
  | .join l a b, hb, g, σ => by
    simp only [Alg.existsBody, Bool.and_eq_true, Bool.not_eq_true'] at hb
    obtain ⟨⟨hl, ha⟩, hb'⟩ := hb
    subst hl
    have iha := exists_body (D := D) a ha g σ
    have ihb := exists_body (D := D) b hb' g σ
    simp only [Model.evalPart, Spec.eval]
    refine ⟨?_, joinBag_disjoint iha.2 ihb.2⟩
    refine (joinL_perm iha.1 ihb.1).trans ?_
    rw [joinL_subst iha.2 ihb.2]
  | .union a b, hb, g, σ => by
    simp only [Alg.existsBody, Bool.and_eq_true] at hb
    have iha := exists_body (D := D) a hb.1 g σ
    have ihb := exists_body (D := D) b hb.2 g σ
    simp only [Model.evalPart, Spec.eval, List.map_append]
    refine ⟨iha.1.append ihb.1, ?_⟩
    intro μ hμ
    rcases List.mem_append.mp hμ with h | h
    · exact iha.2 μ h
    · exact ihb.2 μ h
  | .graph gp p, hb, g, σ => by
    simp only [Alg.existsBody] at hb
    have ih := fun gr => exists_body (D := D) p hb gr σ
    simp only [Model.evalPart, Spec.eval]
    have bound : ∀ t, (if ((D.graphOf t).isEmpty && !D.isName t) = true then [] else Model.evalPart D (D.graphOf t) σ p).Perm
          ((if D.isName t = true then Spec.eval D (D.graphOf t) σ p else []).map (σ.merge ·)) ∧
        ∀ μ ∈ (if D.isName t = true then Spec.eval D (D.graphOf t) σ p else []), σ.disjointFrom μ := by
      intro t
      cases hn : D.isName t with
      | true => simpa using ih (D.graphOf t)
      | false =>
        have : D.graphOf t = [] := graphOfList_of_not_name D.named t hn
        simp [this]
    cases gp with
    | const t => simpa [Pos.lookup, substPos] using bound t
    | var v =>
      simp only [Pos.lookup, substPos]
      cases hv : σ.get v with
      | some t => simpa using bound t
      | none =>
        simp only []
        constructor
        · simp only [List.map_flatMap]
          apply List.Perm.flatMap_left
          intro ng _
          refine (((ih ng.2).1).filterMap _).trans ?_
          apply List.Perm.of_eq
          simp only [List.filterMap_map, List.map_filterMap]
          apply List.filterMap_congr
          intro μ hμ
          simp only [Function.comp, graphJoin_eq_matchOne, bindGraphVar_eq_matchOne]
          have := (matchOne_subst ((ih ng.2).2 μ hμ) (.var v) ng.1).1
          simpa [substPos, hv] using this
        · intro μ hμ
          simp only [List.mem_flatMap, List.mem_filterMap] at hμ
          obtain ⟨ng, _, μ', hμ', hb⟩ := hμ
          rw [bindGraphVar_eq_matchOne] at hb
          have := (matchOne_subst ((ih ng.2).2 μ' hμ') (.var v) ng.1).2 μ
          simp only [substPos, hv] at this
          exact this hb
  | .leftJoin _ _ _ _ _, hb, _, _ => by simp [Alg.existsBody] at hb
  | .filter _ _ _ _, hb, _, _ => by simp [Alg.existsBody] at hb
  | .minus _ _ _ _, hb, _, _ => by simp [Alg.existsBody] at hb
  | .extend _ _ _ _, hb, _, _ => by simp [Alg.existsBody] at hb
  | .values _ _, hb, _, _ => by simp [Alg.existsBody] at hb
  | .project _ _, hb, _, _ => by simp [Alg.existsBody] at hb

end RV.C04

namespace RV.C04
open Spec Model
variable {n : Nat}

/-- an EXISTS-free expression on `σ ⊕ μ` (rdflib) = the specification's value under substitution `σ` -/
theorem evalExprM_merge_eq_spec {D : Dataset} {g : Graph} {σ μ : Row n} (hd : σ.disjointFrom μ) :
    ∀ (e : Expr), e.existsFree = true → Model.evalExpr D g (σ.merge μ) e = Spec.evalExpr D g σ μ e
  | .var v, _ => by
    simp only [Model.evalExpr, Spec.evalExpr, Row.get_merge]
    cases hσ : σ.get v with
    | some z => rw [hd v (by simp [hσ])]; rfl
    | none => cases μ.get v <;> rfl
  | .const _, _ => rfl
  | .bound v, _ => by
    simp only [Model.evalExpr, Spec.evalExpr, Row.get_merge]
    cases hσ : σ.get v with
    | some z => rw [hd v (by simp [hσ])]; rfl
    | none => cases μ.get v <;> rfl
  | .cmp op a b, hf => by
    simp only [Expr.existsFree, Bool.and_eq_true] at hf
    simp only [Model.evalExpr, Spec.evalExpr, evalExprM_merge_eq_spec hd a hf.1, evalExprM_merge_eq_spec hd b hf.2]
  | .and a b, hf => by
    simp only [Expr.existsFree, Bool.and_eq_true] at hf
    simp only [Model.evalExpr, Spec.evalExpr, evalExprM_merge_eq_spec hd a hf.1, evalExprM_merge_eq_spec hd b hf.2]
  | .or a b, hf => by
    simp only [Expr.existsFree, Bool.and_eq_true] at hf
    simp only [Model.evalExpr, Spec.evalExpr, evalExprM_merge_eq_spec hd a hf.1, evalExprM_merge_eq_spec hd b hf.2]
  | .not a, hf => by
    simp only [Expr.existsFree] at hf
    simp only [Model.evalExpr, Spec.evalExpr, evalExprM_merge_eq_spec hd a hf]
  | .exists _ _, hf => by simp [Expr.existsFree] at hf

/-- EXISTS pattern: rdflib finds a solution under `σ` iff the substituted pattern has one -/
theorem exists_ok {D : Dataset} (P : Alg) (h : P.existsOK = true) (g : Graph) (σ : Row n) :
    (Model.evalPart D g σ P).isEmpty = (Spec.eval D g σ P).isEmpty := by
  have body : ∀ Q : Alg, Q.existsBody = true →
      (Model.evalPart D g σ Q).isEmpty = (Spec.eval D g σ Q).isEmpty := by
    intro Q hQ
    rw [isEmpty_of_perm (exists_body Q hQ g σ).1, List.isEmpty_map]
  cases P with
  | filter e p vars noIso =>
    simp only [Alg.existsOK, Bool.and_eq_true] at h
    obtain ⟨⟨hni, hfree⟩, hp⟩ := h
    subst hni
    have ih := exists_body (D := D) p hp g σ
    simp only [Model.evalPart, Spec.eval, if_true]
    rw [isEmpty_of_perm (ih.1.filter _), List.filter_map, List.isEmpty_map]
    congr 1
    apply List.filter_congr
    intro μ hμ
    simp only [Function.comp, evalExprM_merge_eq_spec (ih.2 μ hμ) e hfree]
  | bgp tps => exact body _ h
  | join l a b => exact body _ h
  | union a b => exact body _ h
  | graph gp p => exact body _ h
  | leftJoin _ _ _ _ _ => simp [Alg.existsOK, Alg.existsBody] at h
  | minus _ _ _ _ => simp [Alg.existsOK, Alg.existsBody] at h
  | extend _ _ _ _ => simp [Alg.existsOK, Alg.existsBody] at h
  | values _ _ => simp [Alg.existsOK, Alg.existsBody] at h
  | project _ _ => simp [Alg.existsOK, Alg.existsBody] at h

/-! the specification only reads the substitution at the variables of the pattern -/

theorem substPos_congr {σ σ' : Row n} (p : Pos) (h : ∀ v ∈ p.vars, σ.get v = σ'.get v) :
    substPos σ p = substPos σ' p := by
  cases p with
  | const _ => rfl
  | var v => simp only [substPos, h v (by simp [Pos.vars])]

theorem substTP_congr {σ σ' : Row n} (tp : TP) (h : ∀ v ∈ tp.vars, σ.get v = σ'.get v) :
    substTP σ tp = substTP σ' tp := by
  simp only [substTP]
  rw [substPos_congr tp.s (fun v hv => h v (by simp [TP.vars, hv])),
      substPos_congr tp.p (fun v hv => h v (by simp [TP.vars, hv])),
      substPos_congr tp.o (fun v hv => h v (by simp [TP.vars, hv]))]

theorem specEvalExpr_congr {D : Dataset} {g : Graph} {σ σ' μ : Row n} :
    ∀ (e : Expr), e.existsFree = true → (∀ v ∈ e.vars, σ.get v = σ'.get v) →
      Spec.evalExpr D g σ μ e = Spec.evalExpr D g σ' μ e
  | .var v, _, h => by simp [Spec.evalExpr, h v (by simp [Expr.vars])]
  | .const _, _, _ => rfl
  | .bound v, _, h => by simp [Spec.evalExpr, h v (by simp [Expr.vars])]
  | .cmp op a b, hf, h => by
    simp only [Expr.existsFree, Bool.and_eq_true] at hf
    simp only [Spec.evalExpr]
    rw [specEvalExpr_congr a hf.1 (fun v hv => h v (by simp [Expr.vars, hv])),
        specEvalExpr_congr b hf.2 (fun v hv => h v (by simp [Expr.vars, hv]))]
  | .and a b, hf, h => by
    simp only [Expr.existsFree, Bool.and_eq_true] at hf
    simp only [Spec.evalExpr]
    rw [specEvalExpr_congr a hf.1 (fun v hv => h v (by simp [Expr.vars, hv])),
        specEvalExpr_congr b hf.2 (fun v hv => h v (by simp [Expr.vars, hv]))]
  | .or a b, hf, h => by
    simp only [Expr.existsFree, Bool.and_eq_true] at hf
    simp only [Spec.evalExpr]
    rw [specEvalExpr_congr a hf.1 (fun v hv => h v (by simp [Expr.vars, hv])),
        specEvalExpr_congr b hf.2 (fun v hv => h v (by simp [Expr.vars, hv]))]
  | .not a, hf, h => by
    simp only [Expr.existsFree] at hf
    simp only [Spec.evalExpr]
    rw [specEvalExpr_congr a hf (fun v hv => h v (by simp [Expr.vars, hv]))]
  | .exists _ _, hf, _ => by simp [Expr.existsFree] at hf

theorem specEval_congr_body {D : Dataset} {σ σ' : Row n} : ∀ (P : Alg), P.existsBody = true →
    (∀ v ∈ P.allVars, σ.get v = σ'.get v) → ∀ g : Graph, Spec.eval D g σ P = Spec.eval D g σ' P
  | .bgp tps, _, h, g => by
    simp only [Spec.eval]
    congr 1
    apply List.map_congr_left
    intro tp htp
    exact substTP_congr tp (fun v hv => h v (by
      simp only [Alg.allVars, List.mem_flatMap]; exact ⟨tp, htp, hv⟩))
  | .join l a b, hb, h, g => by
    simp only [Alg.existsBody, Bool.and_eq_true] at hb
    simp only [Spec.eval]
    rw [specEval_congr_body a hb.1.2 (fun v hv => h v (by simp [Alg.allVars, hv])) g,
        specEval_congr_body b hb.2 (fun v hv => h v (by simp [Alg.allVars, hv])) g]
  | .union a b, hb, h, g => by
    simp only [Alg.existsBody, Bool.and_eq_true] at hb
    simp only [Spec.eval]
    rw [specEval_congr_body a hb.1 (fun v hv => h v (by simp [Alg.allVars, hv])) g,
        specEval_congr_body b hb.2 (fun v hv => h v (by simp [Alg.allVars, hv])) g]
  | .graph gp p, hb, h, g => by
    simp only [Alg.existsBody] at hb
    have ih := fun gr => specEval_congr_body (D := D) (σ := σ) (σ' := σ') p hb
      (fun v hv => h v (by simp [Alg.allVars, hv])) gr
    simp only [Spec.eval, substPos_congr gp (fun v hv => h v (by simp [Alg.allVars, hv]))]
    cases substPos σ' gp with
    | const t => simp only [ih]
    | var v => simp only [ih]
  | .leftJoin _ _ _ _ _, hb, _, _ => by simp [Alg.existsBody] at hb
  | .filter _ _ _ _, hb, _, _ => by simp [Alg.existsBody] at hb
  | .minus _ _ _ _, hb, _, _ => by simp [Alg.existsBody] at hb
  | .extend _ _ _ _, hb, _, _ => by simp [Alg.existsBody] at hb
  | .values _ _, hb, _, _ => by simp [Alg.existsBody] at hb
  | .project _ _, hb, _, _ => by simp [Alg.existsBody] at hb

theorem specEval_congr {D : Dataset} {σ σ' : Row n} (P : Alg) (hP : P.existsOK = true)
    (h : ∀ v ∈ P.allVars, σ.get v = σ'.get v) (g : Graph) : Spec.eval D g σ P = Spec.eval D g σ' P := by
  cases P with
  | filter e p vars noIso =>
    simp only [Alg.existsOK, Bool.and_eq_true] at hP
    simp only [Spec.eval]
    rw [specEval_congr_body p hP.2 (fun v hv => h v (by simp [Alg.allVars, hv])) g]
    apply List.filter_congr
    intro μ _
    rw [specEvalExpr_congr e hP.1.2 (fun v hv => h v (by simp [Alg.allVars, hv]))]
  | bgp tps => exact specEval_congr_body _ hP h g
  | join l a b => exact specEval_congr_body _ hP h g
  | union a b => exact specEval_congr_body _ hP h g
  | graph gp p => exact specEval_congr_body _ hP h g
  | leftJoin _ _ _ _ _ => simp [Alg.existsOK, Alg.existsBody] at hP
  | minus _ _ _ _ => simp [Alg.existsOK, Alg.existsBody] at hP
  | extend _ _ _ _ => simp [Alg.existsOK, Alg.existsBody] at hP
  | values _ _ => simp [Alg.existsOK, Alg.existsBody] at hP
  | project _ _ => simp [Alg.existsOK, Alg.existsBody] at hP

end RV.C04

namespace RV.C04
open Spec Model
variable {n : Nat}

/-- expressions whose EXISTS patterns are `existsOK`: rdflib's value is the specification's, and only the
    expression's variables are looked at -/
theorem exprOK_of_safe {D : Dataset} : ∀ (e : Expr), e.safe = true → ∀ g : Graph, ExprOK D g n e
  | .var v, _, g => exprOK_of_existsFree rfl
  | .const _, _, g => exprOK_of_existsFree rfl
  | .bound v, _, g => exprOK_of_existsFree rfl
  | .cmp op a b, hs, g => by
    simp only [Expr.safe, Bool.and_eq_true] at hs
    have ha : ExprOK D g n a := exprOK_of_safe a hs.1 g
    have hb : ExprOK D g n b := exprOK_of_safe b hs.2 g
    refine ⟨?_, ?_⟩
    · intro c1 c2 h
      simp only [Model.evalExpr]
      rw [ha.congr c1 c2 (fun v hv => h v (by simp [Expr.vars, hv])),
          hb.congr c1 c2 (fun v hv => h v (by simp [Expr.vars, hv]))]
    · intro c; simp only [Model.evalExpr, Spec.evalExpr, ha.spec, hb.spec]
  | .and a b, hs, g => by
    simp only [Expr.safe, Bool.and_eq_true] at hs
    have ha : ExprOK D g n a := exprOK_of_safe a hs.1 g
    have hb : ExprOK D g n b := exprOK_of_safe b hs.2 g
    refine ⟨?_, ?_⟩
    · intro c1 c2 h
      simp only [Model.evalExpr]
      rw [ha.congr c1 c2 (fun v hv => h v (by simp [Expr.vars, hv])),
          hb.congr c1 c2 (fun v hv => h v (by simp [Expr.vars, hv]))]
    · intro c; simp only [Model.evalExpr, Spec.evalExpr, ha.spec, hb.spec]
  | .or a b, hs, g => by
    simp only [Expr.safe, Bool.and_eq_true] at hs
    have ha : ExprOK D g n a := exprOK_of_safe a hs.1 g
    have hb : ExprOK D g n b := exprOK_of_safe b hs.2 g
    refine ⟨?_, ?_⟩
    · intro c1 c2 h
      simp only [Model.evalExpr]
      rw [ha.congr c1 c2 (fun v hv => h v (by simp [Expr.vars, hv])),
          hb.congr c1 c2 (fun v hv => h v (by simp [Expr.vars, hv]))]
    · intro c; simp only [Model.evalExpr, Spec.evalExpr, ha.spec, hb.spec]
  | .not a, hs, g => by
    simp only [Expr.safe] at hs
    have ha : ExprOK D g n a := exprOK_of_safe a hs g
    refine ⟨?_, ?_⟩
    · intro c1 c2 h
      simp only [Model.evalExpr]
      rw [ha.congr c1 c2 (fun v hv => h v (by simp [Expr.vars, hv]))]
    · intro c; simp only [Model.evalExpr, Spec.evalExpr, ha.spec]
  | .exists neg P, hs, g => by
    simp only [Expr.safe] at hs
    refine ⟨?_, ?_⟩
    · intro c1 c2 h
      simp only [Model.evalExpr]
      rw [exists_ok P hs g c1, exists_ok P hs g c2,
          specEval_congr P hs (fun v hv => h v (by simpa [Expr.vars] using hv)) g]
    · intro c
      simp only [Model.evalExpr, Spec.evalExpr, Row.merge_empty, exists_ok P hs g c]

end RV.C04
