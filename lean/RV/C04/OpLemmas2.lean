import RV.C04.BoundsLemmas
/-
  C04 — push-down lemmas for sub-select (Project), GRAPH and MINUS.
-/
namespace RV.C04
open Spec Model
variable {n : Nat}

/-! ### sub-select -/

theorem Row.compat_restrict (μ μ0 : Row n) (pv : List Nat) :
    μ.compat (μ0.restrict pv) = (μ.restrict pv).compat μ0 := by
  rw [Bool.eq_iff_iff]
  simp only [Row.compat_iff, Row.get_restrict]
  constructor
  · intro h v s t hs ht
    by_cases hv : v ∈ pv
    · simp only [hv, if_true] at hs
      exact h v s t hs (by simp [hv, ht])
    · simp [hv] at hs
  · intro h v s t hs ht
    by_cases hv : v ∈ pv
    · simp only [hv, if_true] at ht
      exact h v s t (by simp [hv, hs]) ht
    · simp [hv] at ht

theorem Row.project_merge (μ μ0 : Row n) (pv : List Nat) (h : μ.compat (μ0.restrict pv) = true) :
    (((μ0.restrict pv).merge μ).restrict pv).merge μ0 = μ0.merge (μ.restrict pv) := by
  rw [Row.compat_iff] at h
  apply Row.ext_get
  intro v
  have hv := h v
  simp only [Row.get_merge, Row.get_restrict] at hv ⊢
  by_cases hp : v ∈ pv
  · simp only [hp, if_true] at hv ⊢
    cases e0 : μ0.get v <;> cases e1 : μ.get v <;> simp_all
  · simp [hp]

theorem joinL_singleton (μ0 : Row n) : ∀ X : List (Row n), joinL X [μ0] = push μ0 X
  | [] => rfl
  | x :: X => by
    have ih := joinL_singleton μ0 X
    simp only [joinL, push, List.flatMap_cons, List.filterMap_cons, List.filterMap_nil] at ih ⊢
    rw [ih]
    simp only [pushOne]
    cases hc : x.compat μ0 with
    | false => simp
    | true => simp [Row.merge_comm_of_compat hc]

/-- evalMultiset: the sub-select is evaluated without the outer bindings (`ctx.clean()`), projected, and joined
    with the current solution afterwards (`_join(…, [ctx.solution()])`) -/
theorem pushdown_project {μ0 : Row n} {Ω XP : List (Row n)} (pv : List Nat) (hp : XP.Perm Ω) :
    (joinL (XP.map (·.restrict pv)) [μ0]).Perm (push μ0 (Ω.map (·.restrict pv))) := by
  refine (joinL_perm (hp.map _) (List.Perm.refl _)).trans ?_
  exact List.Perm.of_eq (joinL_singleton μ0 _)

/-! ### MINUS -/

theorem Row.compat_congr_right {a a' y : Row n} (h : ∀ v, (y.get v).isSome = true → a.get v = a'.get v) :
    a.compat y = a'.compat y := by
  rw [Bool.eq_iff_iff]
  simp only [Row.compat_iff]
  constructor
  · intro hc v s t hs ht
    exact hc v s t (by rw [h v (by simp [ht])]; exact hs) ht
  · intro hc v s t hs ht
    exact hc v s t (by rw [← h v (by simp [ht])]; exact hs) ht

theorem Row.disjoint_congr_right {a a' y : Row n} (h : ∀ v, (y.get v).isSome = true → a.get v = a'.get v) :
    a.disjoint y = a'.disjoint y := by
  rw [Bool.eq_iff_iff]
  simp only [Row.disjoint_iff]
  constructor
  · intro hd v
    cases hy : y.get v with
    | none => exact Or.inr rfl
    | some t =>
      rcases hd v with h1 | h1
      · left; rw [← h v (by simp [hy])]; exact h1
      · rw [hy] at h1; cases h1
  · intro hd v
    cases hy : y.get v with
    | none => exact Or.inr rfl
    | some t =>
      rcases hd v with h1 | h1
      · left; rw [h v (by simp [hy])]; exact h1
      · rw [hy] at h1; cases h1

theorem Row.restrict_of_bounds {y : Row n} {vs : List Nat} (h : ∀ v, (y.get v).isSome = true → v ∈ vs) :
    y.restrict vs = y := by
  apply Row.ext_get
  intro v
  rw [Row.get_restrict]
  split
  · rfl
  · next hv =>
    cases hy : y.get v with
    | none => rfl
    | some t => exact absurd (h v (by simp [hy])) hv

/-- `remember` with an annotation that lists what the sub-pattern may bind, and is exact where the context binds,
    gives back the left solution on the relevant variables -/
theorem restrict_scope {μ0 μ : Row n} {rel ann must may : List Nat}
    (hs : RememberOK μ0 rel ann must may) (hb : BoundsOK μ must may) :
    ∀ v ∈ rel, ((μ0.merge μ).restrict ann).get v = μ.get v := by
  intro v hv
  obtain ⟨h2, h1⟩ := hs v hv
  rw [Row.get_restrict, Row.get_merge]
  by_cases hann : v ∈ ann
  · rcases h1 with h0 | h1
    · simp [hann, h0]
    · have := hb.1 v (h1 hann)
      cases hμ : μ.get v with
      | none => rw [hμ] at this; cases this
      | some y => simp [hann]
  · have : μ.get v = none := by
      cases hμ : μ.get v with
      | none => rfl
      | some y => exact absurd (h2 (hb.2 v (by simp [hμ]))) hann
    simp [hann, this]

/-- evalMinus: right side without pushed-in bindings, each side compared on the variables it binds itself
    (`x.remember(p1._vars)`, `y.remember(p2._vars)`) -/
theorem pushdown_minus {μ0 : Row n} {A B XA XB : List (Row n)} {vs mustA mayA mayB : List Nat}
    {p2vars : Option (List Nat)}
    (ha : XA.Perm (push μ0 A)) (hb : XB.Perm B)
    (hs : RememberOK μ0 mayB vs mustA mayA) (hba : ∀ μ ∈ A, BoundsOK μ mustA mayA)
    (hbb : ∀ y ∈ B, ∀ v, (y.get v).isSome = true → v ∈ mayB)
    (hp2 : ∀ vs2, p2vars = some vs2 → ∀ v ∈ mayB, v ∈ vs2) :
    (XA.filter fun x => (XB.map fun y => y.rememberOpt p2vars).all fun y =>
        !((x.rememberOpt (some vs)).compat y) || (x.rememberOpt (some vs)).disjoint y).Perm
      (push μ0 (minusBag A B)) := by
  have hB : (XB.map fun y => y.rememberOpt p2vars).Perm B := by
    refine (hb.map _).trans ?_
    apply List.Perm.of_eq
    conv => rhs; rw [← List.map_id B]
    apply List.map_congr_left
    intro y hy
    cases p2vars with
    | none => rfl
    | some vs2 =>
      simp only [Row.rememberOpt, id]
      exact Row.restrict_of_bounds (fun v hv => hp2 vs2 rfl v (hbb y hy v hv))
  refine (ha.filter _).trans ?_
  apply List.Perm.of_eq
  simp only [hB.all_eq]
  simp only [push, minusBag, List.filter_filterMap, List.filterMap_filter, Row.rememberOpt]
  apply List.filterMap_congr
  intro μ hμ
  unfold pushOne
  cases hc : μ.compat μ0 with
  | false => simp
  | true =>
    simp only [if_true, Option.filter_some]
    have key : (B.all fun y => !(((μ0.merge μ).restrict vs).compat y) || ((μ0.merge μ).restrict vs).disjoint y) =
        (B.all fun y => !(μ.compat y) || μ.disjoint y) := by
      rw [Bool.eq_iff_iff]
      simp only [List.all_eq_true]
      have hag : ∀ y ∈ B, ∀ v, (y.get v).isSome = true → ((μ0.merge μ).restrict vs).get v = μ.get v :=
        fun y hy v hv => restrict_scope hs (hba μ hμ) v (hbb y hy v hv)
      constructor
      · intro h y hy
        rw [← Row.compat_congr_right (hag y hy), ← Row.disjoint_congr_right (hag y hy)]
        exact h y hy
      · intro h y hy
        rw [Row.compat_congr_right (hag y hy), Row.disjoint_congr_right (hag y hy)]
        exact h y hy
    rw [key]

end RV.C04

namespace RV.C04
open Spec Model
variable {n : Nat}

/-! ### GRAPH -/

theorem graphJoin_eq_matchOne (v : Nat) (name : Term) (x : Row n) :
    graphJoin v name x = matchOne x (.var v) name := by
  by_cases hn : v < n
  · have hE : ∀ w, ((Row.empty : Row n).set v name).get w = if v = w then some name else none := by
      intro w
      rw [Row.get_set]
      by_cases hw : v = w
      · subst hw; simp [hn]
      · simp [hw]
    cases hx : x.get v with
    | some y =>
      rw [matchOne_var_some hx]
      by_cases hy : y = name
      · subst hy
        have hc : x.compat ((Row.empty : Row n).set v y) = true := by
          rw [Row.compat_iff]
          intro w s t hs ht
          rw [hE] at ht
          split at ht
          · next hw => subst hw; rw [hx] at hs; cases hs; cases ht; rfl
          · cases ht
        have hm : x.merge ((Row.empty : Row n).set v y) = x := by
          apply Row.ext_get
          intro w
          rw [Row.get_merge, hE]
          split
          · next hw => subst hw; simp [hx]
          · simp
        simp [graphJoin, hc, hm]
      · have hc : x.compat ((Row.empty : Row n).set v name) = false := by
          rw [Row.compat_eq_false_iff]
          exact ⟨v, y, name, hx, by rw [hE]; simp, hy⟩
        simp [graphJoin, hc, hy]
    | none =>
      rw [matchOne_var_none hx]
      have hc : x.compat ((Row.empty : Row n).set v name) = true := by
        rw [Row.compat_iff]
        intro w s t hs ht
        rw [hE] at ht
        split at ht
        · next hw => subst hw; rw [hx] at hs; cases hs
        · cases ht
      have hm : x.merge ((Row.empty : Row n).set v name) = x.set v name := by
        rw [Row.merge_set_comm]; simp
      simp [graphJoin, hc, hm]
  · have hE : ((Row.empty : Row n).set v name) = Row.empty := Row.set_of_ge hn
    have hx : x.get v = none := Row.get_of_ge (Nat.le_of_not_lt hn)
    rw [matchOne_var_none hx, Row.set_of_ge hn]
    simp [graphJoin, hE]

/-- GRAPH ?v with `?v` not bound by the context: one evaluation per named graph -/
theorem pushdown_graph_unbound {μ0 : Row n} (v : Nat) (named : List (Term × Graph))
    (XP Ω : Graph → List (Row n)) (ih : ∀ gr, (XP gr).Perm (push μ0 (Ω gr))) :
    (named.flatMap fun ng => (XP ng.2).filterMap (graphJoin v ng.1)).Perm
      (push μ0 (named.flatMap fun ng => (Ω ng.2).filterMap (bindGraphVar v ng.1))) := by
  simp only [push, List.filterMap_flatMap]
  apply List.Perm.flatMap_left
  intro ng _
  refine ((ih ng.2).filterMap _).trans ?_
  apply List.Perm.of_eq
  simp only [push, List.filterMap_filterMap]
  apply List.filterMap_congr
  intro μ _
  have e1 : graphJoin (n := n) v ng.1 = fun x => matchOne x (.var v) ng.1 := by
    funext x; exact graphJoin_eq_matchOne v ng.1 x
  have e2 : bindGraphVar (n := n) v ng.1 = fun x => matchOne x (.var v) ng.1 := by
    funext x; exact bindGraphVar_eq_matchOne v ng.1 x
  rw [e1, e2]
  exact (matchOne_pushOK μ0 (.var v) ng.1).chain μ

theorem graphOfList_of_not_name : ∀ (named : List (Term × Graph)) (t : Term),
    named.any (fun ng => ng.1 == t) = false → graphOfList named t = []
  | [], _, _ => rfl
  | (nm, gr) :: rest, t, h => by
    simp only [List.any_cons, Bool.or_eq_false_iff, beq_eq_false_iff_ne, ne_eq] at h
    simp only [graphOfList, h.1, if_false]
    exact graphOfList_of_not_name rest t h.2

/-- with distinct graph names, a sum over the named graphs that only the graph called `t` contributes to -/
theorem flatMap_named_single {β : Type} (t : Term) (G : Graph → List β) :
    ∀ (named : List (Term × Graph)), (named.map (·.1)).Nodup →
      (named.flatMap fun ng => if ng.1 = t then G ng.2 else []) =
        bif named.any (fun ng => ng.1 == t) then G (graphOfList named t) else []
  | [], _ => rfl
  | (nm, gr) :: rest, hnd => by
    simp only [List.map_cons, List.nodup_cons] at hnd
    by_cases h : nm = t
    · subst h
      have hrest : rest.any (fun ng => ng.1 == nm) = false := by
        rw [List.any_eq_false]
        intro ng hng
        simp only [beq_iff_eq]
        intro e
        exact hnd.1 (List.mem_map.mpr ⟨ng, hng, e⟩)
      have ih := flatMap_named_single nm G rest hnd.2
      rw [hrest, cond_false] at ih
      have hany : ((nm, gr) :: rest).any (fun ng => ng.1 == nm) = true := by simp
      rw [hany, cond_true]
      simp [List.flatMap_cons, graphOfList, ih]
    · have hany : ((nm, gr) :: rest).any (fun ng => ng.1 == t) = rest.any (fun ng => ng.1 == t) := by
        simp [h]
      have hg : graphOfList ((nm, gr) :: rest) t = graphOfList rest t := by simp [graphOfList, h]
      rw [hany, hg, ← flatMap_named_single t G rest hnd.2]
      simp [List.flatMap_cons, h]

/-- GRAPH ?v with `?v` bound to `t` by the context: only the graph named `t` can contribute -/
theorem push_graph_bound {μ0 : Row n} {v : Nat} {t : Term} (hv : μ0.get v = some t)
    (named : List (Term × Graph)) (hnd : (named.map (·.1)).Nodup) (Ω : Graph → List (Row n)) :
    push μ0 (named.flatMap fun ng => (Ω ng.2).filterMap (bindGraphVar v ng.1)) =
      bif named.any (fun ng => ng.1 == t) then push μ0 (Ω (graphOfList named t)) else [] := by
  rw [← flatMap_named_single t (fun gr => push μ0 (Ω gr)) named hnd]
  simp only [push, List.filterMap_flatMap, List.filterMap_filterMap]
  apply List.flatMap_congr
  intro ng _
  have key : ∀ μ : Row n, (bindGraphVar v ng.1 μ).bind (pushOne μ0) =
      if ng.1 = t then pushOne μ0 μ else none := by
    intro μ
    rw [bindGraphVar_eq_matchOne, ← (matchOne_pushOK μ0 (.var v) ng.1).chain μ]
    unfold pushOne
    cases hc : μ.compat μ0 with
    | false => simp
    | true =>
      simp only [if_true, Option.bind_some]
      have hg : (μ0.merge μ).get v = some t := by
        rw [Row.get_merge]
        cases hμ : μ.get v with
        | none => simpa using hv
        | some y =>
          rw [Row.compat_iff] at hc
          have := hc v y t hμ hv
          subst this; rfl
      rw [matchOne_var_some hg]
      by_cases h : ng.1 = t
      · simp [h]
      · have : ¬ t = ng.1 := fun e => h e.symm
        simp [h, this]
  by_cases h : ng.1 = t
  · simp only [h, if_true]
    apply List.filterMap_congr
    intro μ _
    have := key μ
    simp only [h, if_true] at this
    exact this
  · simp only [h, if_false]
    rw [List.filterMap_eq_nil_iff]
    intro μ _
    have := key μ
    simp only [h, if_false] at this
    exact this

end RV.C04
