import RV.C04.OpLemmas
/-
  C04 — algebraic facts about the specification, useful on their own (C15 will need them):
  `bgp_perm` (a BGP's solutions do not depend on the order of its triple patterns),
  `joinBag_comm`, `union_comm`; and what `Alg.must` / `Alg.may` promise about `Spec.eval`.
-/
namespace RV.C04
open Spec Model
variable {n : Nat}

/-- two row transformers commute -/
def Commute (f g : Row n → Option (Row n)) : Prop := ∀ μ, (f μ).bind g = (g μ).bind f

theorem Commute.symm {f g : Row n → Option (Row n)} (h : Commute f g) : Commute g f := fun μ => (h μ).symm

theorem Commute.comp_right {f g h : Row n → Option (Row n)} (hg : Commute f g) (hh : Commute f h) :
    Commute f (fun μ => (g μ).bind h) := by
  intro μ
  show (f μ).bind (fun μ => (g μ).bind h) = ((g μ).bind h).bind f
  rw [← Option.bind_assoc, hg μ, Option.bind_assoc, Option.bind_assoc]
  apply Option.bind_congr
  intro a _
  exact hh a

theorem Row.set_comm {μ : Row n} {v w : Nat} {x y : Term} (h : v ≠ w) :
    (μ.set v x).set w y = (μ.set w y).set v x := by
  apply Row.ext_get
  intro u
  simp only [Row.get_set]
  by_cases h1 : w = u <;> by_cases h2 : v = u <;> simp_all

theorem Row.set_of_ge {μ : Row n} {v : Nat} {x : Term} (h : ¬ v < n) : μ.set v x = μ := by
  apply Row.ext_get
  intro u
  rw [Row.get_set]
  split
  · next hu => exact absurd (hu.1 ▸ hu.2) h
  · rfl

theorem matchOne_var_some {μ : Row n} {v : Nat} {z x : Term} (h : μ.get v = some z) :
    matchOne μ (.var v) x = if z = x then some μ else none := by
  simp [matchOne, h]

theorem matchOne_var_none {μ : Row n} {v : Nat} {x : Term} (h : μ.get v = none) :
    matchOne μ (.var v) x = some (μ.set v x) := by
  simp [matchOne, h]

theorem matchOne_comm (p q : Pos) (x y : Term) :
    Commute (fun μ : Row n => matchOne μ p x) (fun μ => matchOne μ q y) := by
  intro μ
  show (matchOne μ p x).bind (fun μ => matchOne μ q y) = (matchOne μ q y).bind (fun μ => matchOne μ p x)
  cases p with
  | const c =>
    by_cases hc : c = x <;> simp [matchOne, hc]
  | var v =>
    cases q with
    | const d =>
      by_cases hd : d = y <;> simp [matchOne, hd]
    | var w =>
      by_cases hvw : v = w
      · subst hvw
        cases hv : μ.get v with
        | some z =>
          rw [matchOne_var_some hv, matchOne_var_some hv]
          by_cases h1 : z = x
          · subst h1
            by_cases h2 : z = y
            · subst h2; simp [matchOne_var_some hv]
            · simp [h2, matchOne_var_some hv]
          · by_cases h2 : z = y
            · subst h2; simp [h1, matchOne_var_some hv]
            · simp [h1, h2]
        | none =>
          rw [matchOne_var_none hv, matchOne_var_none hv]
          simp only [Option.bind_some]
          by_cases hn : v < n
          · have a : (μ.set v x).get v = some x := by rw [Row.get_set]; simp [hn]
            have b : (μ.set v y).get v = some y := by rw [Row.get_set]; simp [hn]
            rw [matchOne_var_some a, matchOne_var_some b]
            by_cases hxy : x = y
            · subst hxy; simp
            · have : ¬ y = x := fun e => hxy e.symm
              simp [hxy, this]
          · rw [Row.set_of_ge hn, Row.set_of_ge hn, matchOne_var_none hv, matchOne_var_none hv,
              Row.set_of_ge hn, Row.set_of_ge hn]
      · have hwv : ¬ w = v := fun e => hvw e.symm
        cases hv : μ.get v with
        | some z =>
          cases hw : μ.get w with
          | some z' =>
            rw [matchOne_var_some hv, matchOne_var_some hw]
            by_cases h1 : z = x <;> by_cases h2 : z' = y <;>
              simp [h1, h2, matchOne_var_some hv, matchOne_var_some hw]
          | none =>
            have a : (μ.set w y).get v = some z := by rw [Row.get_set]; simp [hv, hwv]
            rw [matchOne_var_some hv, matchOne_var_none hw]
            by_cases h1 : z = x <;> simp [h1, matchOne_var_none hw, matchOne_var_some a]
        | none =>
          cases hw : μ.get w with
          | some z' =>
            have a : (μ.set v x).get w = some z' := by rw [Row.get_set]; simp [hw, hvw]
            rw [matchOne_var_none hv, matchOne_var_some hw]
            by_cases h2 : z' = y <;> simp [h2, matchOne_var_none hv, matchOne_var_some a]
          | none =>
            have a : (μ.set v x).get w = none := by rw [Row.get_set]; simp [hw, hvw]
            have b : (μ.set w y).get v = none := by rw [Row.get_set]; simp [hv, hwv]
            rw [matchOne_var_none hv, matchOne_var_none hw]
            simp [matchOne_var_none a, matchOne_var_none b, Row.set_comm hvw]

end RV.C04

namespace RV.C04
open Spec Model
variable {n : Nat}

theorem matchTP_eq (tp : TP) (t : Triple) :
    (fun μ : Row n => matchTP μ tp t) =
      fun μ => (matchOne μ tp.s t.1).bind fun μ1 => (matchOne μ1 tp.p t.2.1).bind fun μ2 => matchOne μ2 tp.o t.2.2 := rfl

theorem matchTP_comm (a b : TP) (t1 t2 : Triple) :
    Commute (fun μ : Row n => matchTP μ a t1) (fun μ => matchTP μ b t2) := by
  have one : ∀ (p : Pos) (x : Term), Commute (fun μ : Row n => matchOne μ p x) (fun μ => matchTP μ b t2) := by
    intro p x
    rw [matchTP_eq b t2]
    exact Commute.comp_right (matchOne_comm p b.s x t2.1)
      (Commute.comp_right (matchOne_comm p b.p x t2.2.1) (matchOne_comm p b.o x t2.2.2))
  rw [matchTP_eq a t1]
  exact (Commute.comp_right (one a.s t1.1).symm
    (Commute.comp_right (one a.p t1.2.1).symm (one a.o t1.2.2).symm)).symm

/-- continue a BGP from an optional row -/
def optBgp (g : Graph) (l : List TP) : Option (Row n) → List (Row n)
  | some μ => bgp g l μ
  | none => []

theorem bgp_cons (g : Graph) (tp : TP) (l : List TP) (μ : Row n) :
    bgp g (tp :: l) μ = g.flatMap fun t => optBgp g l (matchTP μ tp t) := by
  simp only [bgp]
  apply List.flatMap_congr
  intro t _
  cases matchTP μ tp t <;> rfl

theorem bgp_cons_cons (g : Graph) (a b : TP) (l : List TP) (μ : Row n) :
    bgp g (a :: b :: l) μ =
      g.flatMap fun t1 => g.flatMap fun t2 => optBgp g l ((matchTP μ a t1).bind fun μ1 => matchTP μ1 b t2) := by
  rw [bgp_cons]
  apply List.flatMap_congr
  intro t1 _
  cases h : matchTP μ a t1 with
  | none => simp [optBgp]
  | some μ1 => simp [optBgp, bgp_cons]

/-- the solutions of a basic graph pattern do not depend on the order of its triple patterns -/
theorem bgp_perm {g : Graph} {l1 l2 : List TP} (h : l1.Perm l2) : ∀ μ : Row n, (bgp g l1 μ).Perm (bgp g l2 μ) := by
  induction h with
  | nil => intro μ; exact List.Perm.refl _
  | cons tp _ ih =>
    intro μ
    rw [bgp_cons, bgp_cons]
    apply List.Perm.flatMap_left
    intro t _
    cases matchTP μ tp t with
    | none => exact List.Perm.refl _
    | some μ' => exact ih μ'
  | swap a b l =>
    intro μ
    rw [bgp_cons_cons, bgp_cons_cons]
    refine (flatMap_comm_perm g g _).trans ?_
    apply List.Perm.of_eq
    apply List.flatMap_congr
    intro t1 _
    apply List.flatMap_congr
    intro t2 _
    rw [matchTP_comm a b t1 t2 μ]
  | trans _ _ ih1 ih2 => intro μ; exact (ih1 μ).trans (ih2 μ)

theorem insertTP_perm (μ : Row n) (x : TP) : ∀ l : List TP, (insertTP μ x l).Perm (x :: l)
  | [] => List.Perm.refl _
  | y :: ys => by
    simp only [insertTP]
    split
    · exact List.Perm.refl _
    · exact ((insertTP_perm μ x ys).cons y).trans (List.Perm.swap x y ys)

theorem sortTPs_perm (μ : Row n) : ∀ l : List TP, (sortTPs μ l).Perm l
  | [] => List.Perm.refl _
  | x :: l => by
    simp only [sortTPs, List.foldr_cons]
    exact (insertTP_perm μ x _).trans ((sortTPs_perm μ l).cons x)

/-- evalPart on a BGP: re-order by bound positions, then evalBGP from the pushed-in bindings -/
theorem pushdown_bgp (g : Graph) (μ0 : Row n) (tps : List TP) :
    (evalBGP g (sortTPs μ0 tps) μ0).Perm (push μ0 (bgp g (tps.map (substTP (Row.empty : Row n))) Row.empty)) := by
  rw [evalBGP_eq_bgp, map_substTP_empty]
  refine (bgp_perm (sortTPs_perm μ0 tps) μ0).trans ?_
  apply List.Perm.of_eq
  have := bgp_push (g := g) (μ0 := μ0) tps Row.empty (by simp)
  simpa using this

end RV.C04

namespace RV.C04
open Spec Model
variable {n : Nat}

/-- Join is commutative (as a bag) -/
theorem joinBag_comm (A B : List (Row n)) : (joinBag A B).Perm (joinBag B A) := by
  have e : ∀ (X Y : List (Row n)),
      joinBag X Y = X.flatMap fun a => Y.flatMap fun b => if a.compat b then [a.merge b] else [] := by
    intro X Y
    simp only [joinBag]
    apply List.flatMap_congr
    intro a _
    induction Y with
    | nil => rfl
    | cons b Y ih =>
      simp only [List.filterMap_cons, List.flatMap_cons]
      cases a.compat b <;> simp [ih]
  rw [e A B, e B A]
  refine (flatMap_comm_perm A B _).trans ?_
  apply List.Perm.of_eq
  apply List.flatMap_congr
  intro b _
  apply List.flatMap_congr
  intro a _
  rw [Row.compat_comm a b]
  cases h : b.compat a with
  | false => rfl
  | true => simp [Row.merge_comm_of_compat h]

/-- Union is commutative (as a bag) -/
theorem union_comm {D : Dataset} {g : Graph} {σ : Row n} (a b : Alg) :
    (Spec.eval D g σ (.union a b)).Perm (Spec.eval D g σ (.union b a)) := by
  simp only [Spec.eval]
  exact List.perm_append_comm

/-- Join is commutative on the algebra (annotations are ignored by the specification) -/
theorem join_comm {D : Dataset} {g : Graph} {σ : Row n} (l l' : Bool) (a b : Alg) :
    (Spec.eval D g σ (.join l a b)).Perm (Spec.eval D g σ (.join l' b a)) := by
  simp only [Spec.eval]
  exact joinBag_comm _ _

/-- the order of the triple patterns of a BGP is irrelevant to the specification -/
theorem eval_bgp_perm {D : Dataset} {g : Graph} {σ : Row n} {l1 l2 : List TP} (h : l1.Perm l2) :
    (Spec.eval D g σ (.bgp l1)).Perm (Spec.eval D g σ (.bgp l2)) := by
  simp only [Spec.eval]
  exact bgp_perm (h.map _) _

end RV.C04

namespace RV.C04
open Spec Model
variable {n : Nat}

@[simp] theorem Row.restrict_empty (pv : List Nat) : (Row.empty : Row n).restrict pv = Row.empty := by
  apply Row.ext_get; intro v; rw [Row.get_restrict]; simp

theorem bindGraphVar_eq_matchOne (v : Nat) (name : Term) (μ : Row n) :
    bindGraphVar v name μ = matchOne μ (.var v) name := by
  simp only [bindGraphVar, matchOne]
  cases μ.get v <;> rfl

end RV.C04
