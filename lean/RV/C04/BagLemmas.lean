import Mathlib.Data.List.Perm.Basic
import RV.C04.BgpLemmas
/-
  C04 — bags (lists modulo `List.Perm`): generic rearrangement lemmas and the algebra of `push`.
-/
namespace RV.C04
open Spec Model
variable {n : Nat}

theorem flatMap_comm_perm {α β γ : Type} (l : List α) (m : List β) (f : α → β → List γ) :
    (l.flatMap fun a => m.flatMap (f a)).Perm (m.flatMap fun b => l.flatMap fun a => f a b) := by
  induction l with
  | nil => simp
  | cons a l ih =>
    simp only [List.flatMap_cons]
    exact (List.Perm.append_left _ ih).trans (List.flatMap_append_perm m (f a) _)

theorem flatMap_filterMap {α β γ : Type} (f : α → Option β) (g : β → List γ) :
    ∀ l : List α, (l.filterMap f).flatMap g = l.flatMap (fun a => match f a with | some b => g b | none => [])
  | [] => rfl
  | a :: l => by
    simp only [List.filterMap_cons, List.flatMap_cons]
    cases h : f a <;> simp [flatMap_filterMap f g l]

theorem push_append (μ0 : Row n) (A B : List (Row n)) : push μ0 (A ++ B) = push μ0 A ++ push μ0 B := by
  simp [push]

theorem pushOne_empty (μ : Row n) : pushOne Row.empty μ = some μ := by simp [pushOne]

@[simp] theorem push_empty (Ω : List (Row n)) : push Row.empty Ω = Ω := by
  simp only [push]
  have : pushOne (Row.empty : Row n) = some := by funext μ; exact pushOne_empty μ
  rw [this]; simp

theorem Row.le_merge_of_compat {a b : Row n} (h : a.compat b = true) : a.le (a.merge b) := by
  rw [Row.compat_iff] at h
  intro v t hv
  rw [Row.get_merge]
  cases hb : b.get v with
  | none => simpa using hv
  | some s => have := h v t s hv hb; subst this; rfl

/-- evalLazyJoin: evaluate the right side under each left solution -/
theorem pushdown_join_lazy {μ0 : Row n} {A B XA : List (Row n)} {XB : Row n → List (Row n)}
    (ha : XA.Perm (push μ0 A)) (hb : ∀ x ∈ push μ0 A, (XB x).Perm (push x B)) :
    (XA.flatMap fun x => (XB x).map fun y => y.merge x).Perm (push μ0 (joinBag A B)) := by
  refine (List.Perm.flatMap_right _ ha).trans ?_
  refine (List.Perm.flatMap_left _ (fun x hx => (hb x hx).map _)).trans ?_
  apply List.Perm.of_eq
  simp only [push, joinBag, flatMap_filterMap, List.filterMap_flatMap]
  apply List.flatMap_congr
  intro μ1 _
  cases hc : μ1.compat μ0 with
  | true =>
    have hp : pushOne μ0 μ1 = some (μ0.merge μ1) := by simp [pushOne, hc]
    simp only [hp, List.map_filterMap, List.filterMap_filterMap]
    apply List.filterMap_congr
    intro μ2 _
    simp only [pushOne, Row.compat_merge_ctx hc]
    cases h12 : μ1.compat μ2 with
    | false => simp
    | true =>
      simp only [Bool.true_and, if_true, Option.bind_some]
      cases h120 : (μ1.merge μ2).compat μ0 with
      | false => simp [pushOne, h120]
      | true =>
        simp only [if_true, Option.map_some, pushOne, h120]
        congr 1
        apply Row.merge3_eq hc
        rw [Row.compat_merge_ctx hc, h12, h120]; rfl
  | false =>
    have hp : pushOne μ0 μ1 = none := by simp [pushOne, hc]
    simp only [hp]
    symm
    rw [List.filterMap_eq_nil_iff]
    intro x hx
    simp only [List.mem_filterMap] at hx
    obtain ⟨μ2, _, h⟩ := hx
    split at h
    · next h12 =>
      cases h
      simp [pushOne, Row.not_compat_of_le (Row.le_merge_of_compat h12) hc]
    · cases h

end RV.C04

namespace RV.C04
open Spec Model
variable {n : Nat}

theorem joinL_perm {XA XA' XB XB' : List (Row n)} (ha : XA.Perm XA') (hb : XB.Perm XB') :
    (joinL XA XB).Perm (joinL XA' XB') := by
  unfold joinL
  refine (List.Perm.flatMap_right _ ha).trans ?_
  exact List.Perm.flatMap_left _ (fun x _ => hb.filterMap _)

/-- evalJoin, not lazy: both sides under the same pushed-in bindings, then `_join` -/
theorem pushdown_join_strict {μ0 : Row n} {A B XA XB : List (Row n)}
    (ha : XA.Perm (push μ0 A)) (hb : XB.Perm (push μ0 B)) :
    (joinL XA XB).Perm (push μ0 (joinBag A B)) := by
  refine (joinL_perm ha hb).trans ?_
  apply List.Perm.of_eq
  simp only [joinL, push, joinBag, flatMap_filterMap, List.filterMap_flatMap, List.filterMap_filterMap]
  apply List.flatMap_congr
  intro μ1 _
  cases hc : μ1.compat μ0 with
  | true =>
    have hp : pushOne μ0 μ1 = some (μ0.merge μ1) := by simp [pushOne, hc]
    simp only [hp]
    apply List.filterMap_congr
    intro μ2 _
    have key := Row.compat_both_pushed (μ2 := μ2) hc
    cases h2 : μ2.compat μ0 with
    | false =>
      have hp2 : pushOne μ0 μ2 = none := by simp [pushOne, h2]
      rw [h2, Bool.false_and] at key
      simp only [hp2, Option.bind_none]
      cases h12 : μ1.compat μ2 with
      | false => simp
      | true =>
        rw [h12, Bool.true_and] at key
        simp [pushOne, ← key]
    | true =>
      have hp2 : pushOne μ0 μ2 = some (μ0.merge μ2) := by simp [pushOne, h2]
      rw [h2, Bool.true_and] at key
      simp only [hp2, Option.bind_some, key]
      cases h12 : μ1.compat μ2 with
      | false => simp
      | true =>
        simp only [Bool.true_and]
        cases h120 : (μ1.merge μ2).compat μ0 with
        | false => simp [pushOne, h120]
        | true => simp [pushOne, h120, Row.merge_both_pushed hc h2]
  | false =>
    have hp : pushOne μ0 μ1 = none := by simp [pushOne, hc]
    simp only [hp]
    symm
    rw [List.filterMap_eq_nil_iff]
    intro μ2 _
    cases h12 : μ1.compat μ2 with
    | false => simp
    | true => simp [pushOne, Row.not_compat_of_le (Row.le_merge_of_compat h12) hc]

/-- evalUnion -/
theorem pushdown_union {μ0 : Row n} {A B XA XB : List (Row n)}
    (ha : XA.Perm (push μ0 A)) (hb : XB.Perm (push μ0 B)) :
    (XA ++ XB).Perm (push μ0 (A ++ B)) := by
  rw [push_append]; exact ha.append hb

end RV.C04
