import RV.C04.Lemmas
/-
  C04 — glue for the query forms: `_fillTemplate` is the specification's template instantiation,
  a blank-node-free template does not depend on the solution numbering or on un-projected variables.
-/
namespace RV.C04
open Spec Model

def TPos.isBlank : TPos → Bool
  | .blank _ => true
  | _ => false

def tposVars : TPos → List Nat
  | .var v => [v]
  | _ => []

theorem isLiteral_isURIRef (s p : Term) :
    (Model.isLiteral s || !Model.isURIRef p) = !(Spec.isSubject s && Spec.isPredicate p) := by
  cases s <;> cases p <;> rfl

/-- a ground template position does not see the solution number -/
theorem instPos_ground {n : Nat} (μ : Row n) (i j : Nat) (x : TPos) (h : x.isBlank = false) :
    Spec.instPos μ i x = Spec.instPos μ j x := by
  cases x <;> simp_all [Spec.instPos, TPos.isBlank]

theorem mem_instTemplate_ground {n : Nat} {tpl : List TTP}
    (hg : ∀ tp ∈ tpl, tp.1.isBlank = false ∧ tp.2.1.isBlank = false ∧ tp.2.2.isBlank = false) (t : Triple) :
    ∀ (bag : List (Row n)) (i : Nat),
      t ∈ Spec.instTemplate tpl bag i ↔ ∃ μ ∈ bag, ∃ tp ∈ tpl, Spec.instTriple μ 0 tp = some t
  | [], i => by simp [Spec.instTemplate]
  | μ :: rest, i => by
    simp only [Spec.instTemplate, List.mem_append, List.mem_filterMap, mem_instTemplate_ground hg t rest (i + 1),
      List.mem_cons, exists_eq_or_imp]
    apply or_congr_left
    constructor
    · rintro ⟨tp, htp, h⟩
      refine ⟨tp, htp, ?_⟩
      obtain ⟨h1, h2, h3⟩ := hg tp htp
      simpa [Spec.instTriple, instPos_ground μ i 0 _ h1, instPos_ground μ i 0 _ h2, instPos_ground μ i 0 _ h3] using h
    · rintro ⟨tp, htp, h⟩
      refine ⟨tp, htp, ?_⟩
      obtain ⟨h1, h2, h3⟩ := hg tp htp
      simpa [Spec.instTriple, instPos_ground μ i 0 _ h1, instPos_ground μ i 0 _ h2, instPos_ground μ i 0 _ h3] using h

/-- a template triple only looks at the template's variables -/
theorem instTriple_restrict {n : Nat} (μ : Row n) (pv : List Nat) (tp : TTP)
    (h : ∀ v ∈ tposVars tp.1 ++ tposVars tp.2.1 ++ tposVars tp.2.2, v ∈ pv ∨ μ.get v = none) :
    Spec.instTriple (μ.restrict pv) 0 tp = Spec.instTriple μ 0 tp := by
  have e : ∀ x : TPos, (∀ v ∈ tposVars x, v ∈ pv ∨ μ.get v = none) →
      Spec.instPos (μ.restrict pv) 0 x = Spec.instPos μ 0 x := by
    intro x hx
    cases x with
    | var v =>
      simp only [Spec.instPos, Row.get_restrict]
      rcases hx v (by simp [tposVars]) with h | h
      · simp [h]
      · simp [h]
    | const _ => rfl
    | blank _ => rfl
  simp only [Spec.instTriple]
  rw [e tp.1 (fun v hv => h v (by simp [hv])), e tp.2.1 (fun v hv => h v (by simp [hv])),
      e tp.2.2 (fun v hv => h v (by simp [hv]))]

end RV.C04
