import RV.C04.OpLemmas2
/-
  C04 — push-down lemma for OPTIONAL (LeftJoin): rdflib evaluates the right side under each left
  solution, filters on `forget`-trimmed bindings and, when nothing matched, re-checks under
  `a.remember(p1._vars)` before keeping the left solution.
-/
namespace RV.C04
open Spec Model
variable {n : Nat}

theorem Row.merge_assoc (a b c : Row n) : (a.merge b).merge c = a.merge (b.merge c) := by
  apply Row.ext_get
  intro v
  simp only [Row.get_merge]
  cases a.get v <;> cases b.get v <;> cases c.get v <;> rfl

theorem Row.merge_of_le {a b : Row n} (h : a.le b) : b.merge a = b := by
  apply Row.ext_get
  intro v
  rw [Row.get_merge]
  cases ha : a.get v with
  | none => rfl
  | some t => rw [h v t ha]; rfl

theorem Row.le_merge_left (a b : Row n) (h : b.compat a = true) : a.le (a.merge b) := by
  rw [Row.compat_iff] at h
  intro v t hv
  rw [Row.get_merge]
  cases hb : b.get v with
  | none => simpa using hv
  | some s => have := h v s t hb hv; subst this; rfl

/-- the solutions joined with `μ1` that pass the OPTIONAL filter -/
def ljMatches (fe : Row n → Bool) (B : List (Row n)) (μ1 : Row n) : List (Row n) :=
  B.filterMap fun μ2 => if μ1.compat μ2 && fe (μ1.merge μ2) then some (μ1.merge μ2) else none

/-- LeftJoin, one left solution at a time -/
def ljRow (fe : Row n → Bool) (B : List (Row n)) (μ1 : Row n) : List (Row n) :=
  if (ljMatches fe B μ1).isEmpty then [μ1] else ljMatches fe B μ1

theorem filter_eq_flatMap {α : Type} (p : α → Bool) : ∀ l : List α,
    l.filter p = l.flatMap (fun a => if p a then [a] else [])
  | [] => rfl
  | a :: l => by
    simp only [List.filter_cons, List.flatMap_cons, filter_eq_flatMap p l]
    cases p a <;> simp

/-- §18.5 `LeftJoin = Filter(Join) ∪ Diff`, regrouped per left solution -/
theorem leftJoin_regroup (fe : Row n → Bool) (A B : List (Row n)) :
    ((joinBag A B).filter fe ++
      A.filter (fun μ => B.all (fun μ' => !(μ.compat μ') || !(fe (μ.merge μ'))))).Perm
      (A.flatMap (ljRow fe B)) := by
  have e1 : (joinBag A B).filter fe = A.flatMap (ljMatches fe B) := by
    simp only [joinBag, List.filter_flatMap, ljMatches]
    apply List.flatMap_congr
    intro μ1 _
    simp only [List.filter_filterMap]
    apply List.filterMap_congr
    intro μ2 _
    cases μ1.compat μ2 <;> cases h : fe (μ1.merge μ2) <;> simp [h]
  have e2 : A.filter (fun μ => B.all (fun μ' => !(μ.compat μ') || !(fe (μ.merge μ')))) =
      A.flatMap (fun μ1 => if (ljMatches fe B μ1).isEmpty then [μ1] else []) := by
    have hp : (fun μ : Row n => B.all (fun μ' => !(μ.compat μ') || !(fe (μ.merge μ')))) =
        fun μ1 => (ljMatches fe B μ1).isEmpty := by
      funext μ1
      rw [Bool.eq_iff_iff, List.all_eq_true, List.isEmpty_iff, ljMatches, List.filterMap_eq_nil_iff]
      constructor
      · intro h μ2 hμ2
        have := h μ2 hμ2
        cases hc : μ1.compat μ2 <;> cases hf : fe (μ1.merge μ2) <;> simp_all
      · intro h μ2 hμ2
        have := h μ2 hμ2
        cases hc : μ1.compat μ2 <;> cases hf : fe (μ1.merge μ2) <;> simp_all
    rw [hp]
    exact filter_eq_flatMap _ A
  rw [e1, e2]
  refine (List.flatMap_append_perm A _ _).trans ?_
  apply List.Perm.of_eq
  apply List.flatMap_congr
  intro μ1 _
  simp only [ljRow]
  cases h : (ljMatches fe B μ1).isEmpty with
  | true => rw [List.isEmpty_iff] at h; simp [h]
  | false => simp

end RV.C04

namespace RV.C04
open Spec Model
variable {n : Nat}

theorem Row.le_of_push {μ0 μ1 μ2 : Row n} (h12 : μ1.compat μ2 = true) (h120 : (μ1.merge μ2).compat μ0 = true) :
    (μ0.merge μ1).le (μ0.merge (μ1.merge μ2)) := by
  rw [Row.compat_iff] at h12 h120
  intro v t hv
  have a := h12 v
  have b := h120 v
  simp only [Row.get_merge] at hv b ⊢
  clear h12 h120
  cases e0 : μ0.get v <;> cases e1 : μ1.get v <;> cases e2 : μ2.get v <;> simp_all

/-- the model's OPTIONAL for one left solution `x` (`XB c` = the right side evaluated under context `c`) -/
def ljStepM (D : Dataset) (g : Graph) (μ0 : Row n) (XB : Row n → List (Row n)) (e : Expr)
    (own vs : List Nat) (x : Row n) : List (Row n) :=
  if ((XB x).filter fun y => isTrue (Model.evalExpr D g (y.forget μ0 own) e)).isEmpty then
    (if (XB (x.restrict vs)).any (fun y => isTrue (Model.evalExpr D g y e)) then [] else [x])
  else ((XB x).filter fun y => isTrue (Model.evalExpr D g (y.forget μ0 own) e)).map fun y => y.merge x

theorem isEmpty_of_perm {α : Type} {l1 l2 : List α} (h : l1.Perm l2) : l1.isEmpty = l2.isEmpty := by
  have := h.length_eq
  cases l1 <;> cases l2 <;> simp_all

theorem Row.domIn_merge {μ0 μ1 : Row n} {ctx must may : List Nat} (h0 : μ0.domIn ctx) (h1 : BoundsOK μ1 must may) :
    (μ0.merge μ1).domIn (ctx ++ may) := by
  intro v hv
  rw [Row.get_merge] at hv
  cases h : μ1.get v with
  | none => rw [h] at hv; exact List.mem_append.mpr (Or.inl (h0 v (by simpa using hv)))
  | some t => exact List.mem_append.mpr (Or.inr (h1.2 v (by simp [h])))

theorem Row.domIn_restrict {x : Row n} {L : List Nat} (h : x.domIn L) (vs : List Nat) : (x.restrict vs).domIn L := by
  intro v hv
  rw [Row.get_restrict] at hv
  split at hv
  · exact h v hv
  · cases hv

theorem ljStep_point {D : Dataset} {g : Graph} {μ0 μ1 : Row n} {B : List (Row n)} {XB : Row n → List (Row n)}
    {e : Expr} {own vs mustA mayA mustB mayB ctx : List Nat} (h0 : μ0.domIn ctx)
    (hb : ∀ c : Row n, c.domIn (ctx ++ mayA) → (XB c).Perm (push c B)) (hok : ExprOK D g n e)
    (hs1 : ForgetOK μ0 e.vars own (mustA ++ mustB) (mayA ++ mayB))
    (hs2 : RememberOK μ0 (mayB ++ e.vars) vs mustA mayA)
    (hba : BoundsOK μ1 mustA mayA) (hbb : ∀ μ ∈ B, BoundsOK μ mustB mayB) (hc : μ1.compat μ0 = true) :
    (ljStepM D g μ0 XB e own vs (μ0.merge μ1)).Perm
      (push μ0 (ljRow (fun μ => isTrue (Spec.evalExpr D g Row.empty μ e)) B μ1)) := by
  let fe : Row n → Bool := fun μ => isTrue (Spec.evalExpr D g Row.empty μ e)
  let fm : Row n → Bool := fun y => isTrue (Model.evalExpr D g (y.forget μ0 own) e)
  let x := μ0.merge μ1
  have hxd : x.domIn (ctx ++ mayA) := Row.domIn_merge h0 hba
  have hb1 := hb x hxd
  have hb2 := hb (x.restrict vs) (Row.domIn_restrict hxd vs)
  -- (1) the filtered right-hand solutions are the pushed matches
  have hF1 : ((XB x).filter fm).Perm (push μ0 (ljMatches fe B μ1)) := by
    refine (hb1.filter fm).trans ?_
    apply List.Perm.of_eq
    simp only [push, ljMatches, List.filter_filterMap, List.filterMap_filterMap]
    apply List.filterMap_congr
    intro μ2 hμ2
    simp only [pushOne, x, Row.compat_merge_ctx hc]
    cases h12 : μ1.compat μ2 with
    | false => simp
    | true =>
      cases h120 : (μ1.merge μ2).compat μ0 with
      | false =>
        cases hfe : fe (μ1.merge μ2) <;> simp [pushOne, h120, hfe, fe] <;> simp_all [fe]
      | true =>
        have hfm : fm ((μ0.merge μ1).merge μ2) = fe (μ1.merge μ2) := by
          simp only [fm, fe, Row.merge_assoc]
          rw [hok.congr _ _ (forget_scope hs1 (hba.merge (hbb μ2 hμ2))), hok.spec]
        simp only [Bool.and_self, if_true, Option.filter_some, hfm, Bool.true_and]
        cases hfe : fe (μ1.merge μ2) with
        | false => simp
        | true => simp [pushOne, h120, Row.merge_assoc]
  -- (2) merging the left solution back changes nothing
  have hmap : (push μ0 (ljMatches fe B μ1)).map (fun y => y.merge x) = push μ0 (ljMatches fe B μ1) := by
    conv => rhs; rw [← List.map_id (push μ0 (ljMatches fe B μ1))]
    apply List.map_congr_left
    intro y hy
    simp only [push, ljMatches, List.mem_filterMap] at hy
    obtain ⟨z, ⟨μ2, _, hz⟩, hy⟩ := hy
    split at hz
    · next hcond =>
      cases hz
      simp only [Bool.and_eq_true] at hcond
      simp only [pushOne] at hy
      split at hy
      · next h120 =>
        cases hy
        exact Row.merge_of_le (Row.le_of_push hcond.1 h120)
      · cases hy
    · cases hz
  -- (3) the re-check under `remember`
  have hany : (XB (x.restrict vs)).any (fun y => isTrue (Model.evalExpr D g y e)) =
      !(ljMatches fe B μ1).isEmpty := by
    rw [hb2.any_eq]
    have hν : ∀ v ∈ mayB ++ e.vars, (x.restrict vs).get v = μ1.get v := restrict_scope hs2 hba
    rw [Bool.eq_iff_iff]
    simp only [push, List.any_filterMap, List.any_eq_true, Bool.not_eq_true', List.isEmpty_eq_false_iff,
      ljMatches, ne_eq, List.filterMap_eq_nil_iff, not_forall]
    have point : ∀ μ2 ∈ B, (μ2.compat (x.restrict vs) && isTrue (Model.evalExpr D g ((x.restrict vs).merge μ2) e)) =
        (μ1.compat μ2 && fe (μ1.merge μ2)) := by
      intro μ2 hμ2
      have hdom : ∀ v, (μ2.get v).isSome = true → (x.restrict vs).get v = μ1.get v :=
        fun v hv => hν v (List.mem_append.mpr (Or.inl ((hbb μ2 hμ2).2 v hv)))
      have hcomp : μ2.compat (x.restrict vs) = μ1.compat μ2 := by
        rw [Row.compat_comm μ2, Row.compat_congr_right hdom]
      have hev : Model.evalExpr D g ((x.restrict vs).merge μ2) e = Spec.evalExpr D g Row.empty (μ1.merge μ2) e := by
        rw [← hok.spec]
        apply hok.congr
        intro v hv
        rw [Row.get_merge, Row.get_merge, hν v (List.mem_append.mpr (Or.inr hv))]
      rw [hcomp, hev]
    constructor
    · rintro ⟨μ2, hμ2, h⟩
      refine ⟨μ2, hμ2, ?_⟩
      have hp := point μ2 hμ2
      simp only [pushOne] at h
      cases hcc : μ2.compat (x.restrict vs) with
      | false => simp [hcc] at h
      | true =>
        simp only [hcc, if_true, Option.any_some] at h
        rw [hcc, h] at hp
        simp [← hp]
    · rintro ⟨μ2, hμ2, h⟩
      refine ⟨μ2, hμ2, ?_⟩
      have hp := point μ2 hμ2
      cases hcond : (μ1.compat μ2 && fe (μ1.merge μ2)) with
      | false => simp [hcond] at h
      | true =>
        rw [hcond, Bool.and_eq_true] at hp
        simp [pushOne, hp.1, hp.2]
  -- (4) put together
  show (if ((XB x).filter fm).isEmpty then
      (if (XB (x.restrict vs)).any (fun y => isTrue (Model.evalExpr D g y e)) then [] else [x])
    else ((XB x).filter fm).map fun y => y.merge x).Perm (push μ0 (ljRow fe B μ1))
  rw [isEmpty_of_perm hF1, hany]
  cases hm : (ljMatches fe B μ1).isEmpty with
  | true =>
    have hnil : ljMatches fe B μ1 = [] := List.isEmpty_iff.mp hm
    simp [ljRow, hnil, push, pushOne, hc, x]
  | false =>
    have hrow : ljRow fe B μ1 = ljMatches fe B μ1 := by simp [ljRow, hm]
    rw [hrow]
    cases hpe : (push μ0 (ljMatches fe B μ1)).isEmpty with
    | true =>
      have : push μ0 (ljMatches fe B μ1) = [] := List.isEmpty_iff.mp hpe
      simp [this]
    | false =>
      simp only [Bool.false_eq_true, if_false]
      refine (hF1.map _).trans ?_
      rw [hmap]

end RV.C04

namespace RV.C04
open Spec Model
variable {n : Nat}

theorem ljRow_ge {fe : Row n → Bool} {B : List (Row n)} {μ1 y : Row n} (hy : y ∈ ljRow fe B μ1) : μ1.le y := by
  simp only [ljRow] at hy
  split at hy
  · simp at hy; subst hy; exact Row.le_refl _
  · simp only [ljMatches, List.mem_filterMap] at hy
    obtain ⟨μ2, _, h⟩ := hy
    split at h
    · next hc =>
      cases h
      simp only [Bool.and_eq_true] at hc
      exact Row.le_merge_of_compat hc.1
    · cases h

/-- evalLeftJoin -/
theorem pushdown_leftjoin {D : Dataset} {g : Graph} {μ0 : Row n} {A B XA : List (Row n)}
    {XB : Row n → List (Row n)} {e : Expr} {own vs mustA mayA mustB mayB ctx : List Nat} (h0 : μ0.domIn ctx)
    (ha : XA.Perm (push μ0 A)) (hb : ∀ c : Row n, c.domIn (ctx ++ mayA) → (XB c).Perm (push c B))
    (hok : ExprOK D g n e)
    (hs1 : ForgetOK μ0 e.vars own (mustA ++ mustB) (mayA ++ mayB))
    (hs2 : RememberOK μ0 (mayB ++ e.vars) vs mustA mayA)
    (hba : ∀ μ ∈ A, BoundsOK μ mustA mayA) (hbb : ∀ μ ∈ B, BoundsOK μ mustB mayB) :
    (XA.flatMap (ljStepM D g μ0 XB e own vs)).Perm
      (push μ0 ((joinBag A B).filter (fun μ => isTrue (Spec.evalExpr D g Row.empty μ e)) ++
        A.filter (fun μ => B.all (fun μ' => !(μ.compat μ') ||
          !(isTrue (Spec.evalExpr D g Row.empty (μ.merge μ') e)))))) := by
  have hre := leftJoin_regroup (fun μ => isTrue (Spec.evalExpr D g Row.empty μ e)) A B
  refine List.Perm.trans ?_ ((hre.filterMap (pushOne μ0)).symm)
  refine (List.Perm.flatMap_right _ ha).trans ?_
  show ((push μ0 A).flatMap _).Perm (push μ0 _)
  simp only [push, flatMap_filterMap, List.filterMap_flatMap]
  apply List.Perm.flatMap_left
  intro μ1 hμ1
  cases hc : μ1.compat μ0 with
  | true =>
    have hp : pushOne μ0 μ1 = some (μ0.merge μ1) := by simp [pushOne, hc]
    simp only [hp]
    exact ljStep_point h0 hb hok hs1 hs2 (hba μ1 hμ1) hbb hc
  | false =>
    have hp : pushOne μ0 μ1 = none := by simp [pushOne, hc]
    simp only [hp]
    apply List.Perm.of_eq
    symm
    rw [List.filterMap_eq_nil_iff]
    intro y hy
    simp [pushOne, Row.not_compat_of_le (ljRow_ge hy) hc]

end RV.C04
