import RV.C04.Types
/-
  C04 — the decidable syntactic predicates of the correctness theorems (core imports only: the
  driver evaluates them too, so that the harness labels every generated query).

  `Alg.must P` / `Alg.may P`  variables that every / some solution of `P` binds (§18.2.1-style, on the algebra)
  `Alg.safe P`    where rdflib's binding push-down is exact: at every node whose evaluation trims the pushed-in
                  bindings with an annotation set (`_vars`) — FILTER, BIND, MINUS, OPTIONAL — the annotation
                  classifies every variable that matters exactly as "bound by the sub-pattern" (in `must`) or
                  "not bound by it" (not in `may`).  The known findings of C04 are the ways in
                  which rdflib's `_vars` fails this (see design.d/C04.md):
                    K1  a variable the sub-pattern MAY bind but need not (OPTIONAL, one UNION branch, VALUES UNDEF,
                        un-projected sub-select variable, right side of MINUS) counted as bound by it,
                    K2  VALUES variables missing from `_vars`,
                    (K3, variables that only occur in a FILTER expression counted as bound by the filter's group, was
                    repaired on /repo main while this check was built: C04-F14.)
  `Alg.inFragment P`  the operators for which `pushdown` is PROVED (Props.lean); the rest is stated.
-/
namespace RV.C04

def Pos.vars : Pos → List Nat
  | .var v => [v]
  | .const _ => []

def TP.vars (tp : TP) : List Nat := tp.s.vars ++ tp.p.vars ++ tp.o.vars

/-- variables bound in EVERY solution of the pattern -/
def Alg.must : Alg → List Nat
  | .bgp tps => tps.flatMap TP.vars
  | .join _ a b => a.must ++ b.must
  | .leftJoin a _ _ _ _ => a.must
  | .filter _ p _ _ => p.must
  | .union a b => a.must.filter (b.must.contains ·)
  | .minus a _ _ _ => a.must
  | .extend p _ _ _ => p.must
  | .graph g p => g.vars ++ p.must
  | .values _ _ => []          -- UNDEF cells: nothing is guaranteed
  | .project p pv => p.must.filter (pv.contains ·)

/-- variables bound in SOME solution of the pattern (an upper bound) -/
def Alg.may : Alg → List Nat
  | .bgp tps => tps.flatMap TP.vars
  | .join _ a b => a.may ++ b.may
  | .leftJoin a b _ _ _ => a.may ++ b.may
  | .filter _ p _ _ => p.may
  | .union a b => a.may ++ b.may
  | .minus a _ _ _ => a.may
  | .extend p v _ _ => v :: p.may
  | .graph g p => g.vars ++ p.may
  | .values vars _ => vars
  | .project p pv => p.may.filter (pv.contains ·)

mutual
/-- every variable an expression can look at (for EXISTS: every variable of the pattern) -/
def Expr.vars : Expr → List Nat
  | .var v => [v]
  | .const _ => []
  | .cmp _ a b => a.vars ++ b.vars
  | .and a b => a.vars ++ b.vars
  | .or a b => a.vars ++ b.vars
  | .not a => a.vars
  | .bound v => [v]
  | .exists _ p => p.allVars
def Alg.allVars : Alg → List Nat
  | .bgp tps => tps.flatMap TP.vars
  | .join _ a b => a.allVars ++ b.allVars
  | .leftJoin a b e _ _ => a.allVars ++ b.allVars ++ e.vars
  | .filter e p _ _ => e.vars ++ p.allVars
  | .union a b => a.allVars ++ b.allVars
  | .minus a b _ _ => a.allVars ++ b.allVars
  | .extend p v e _ => v :: (e.vars ++ p.allVars)
  | .graph g p => g.vars ++ p.allVars
  | .values vars _ => vars
  | .project p pv => pv ++ p.allVars
end

/-- the annotation set `ann` is exact on the variables `rel`: a listed variable is bound in every
    solution of the sub-pattern, an unlisted one in none -/
def scopeOK (rel ann must may : List Nat) : Bool :=
  rel.all fun i => (!(ann.contains i) || must.contains i) && (!(may.contains i) || ann.contains i)

mutual
def Expr.existsFree : Expr → Bool
  | .var _ | .const _ | .bound _ => true
  | .cmp _ a b => a.existsFree && b.existsFree
  | .and a b => a.existsFree && b.existsFree
  | .or a b => a.existsFree && b.existsFree
  | .not a => a.existsFree
  | .exists _ _ => false
end

/-- the pattern of an EXISTS as rdflib leaves it (never annotated: no lazy joins, `_vars` absent, only a top-level
    filter with `no_isolated_scope`) and for which "evaluate under the current solution" agrees with §18.6
    `substitute`: triples, joins, UNION, GRAPH, an EXISTS-free top filter.  (OPTIONAL / MINUS / BIND / VALUES /
    sub-select inside EXISTS: substitution and push-down differ or `substitute` is ambiguous.) -/
def Alg.existsBody : Alg → Bool
  | .bgp _ => true
  | .join l a b => !l && a.existsBody && b.existsBody
  | .union a b => a.existsBody && b.existsBody
  | .graph _ p => p.existsBody
  | _ => false

def Alg.existsOK : Alg → Bool
  | .filter e p _ noIso => noIso && e.existsFree && p.existsBody
  | p => p.existsBody

mutual
/-- push-down into `P` is exact (for every context) -/
def Alg.safe : Alg → Bool
  | .bgp _ => true
  | .join _ a b => a.safe && b.safe
  | .union a b => a.safe && b.safe
  | .filter e p vars noIso => p.safe && e.safe && !noIso && scopeOK e.vars vars p.must p.may
  | .extend p v e vars =>
    p.safe && e.safe && !(p.may.contains v) && !(e.vars.contains v) && scopeOK e.vars vars p.must p.may
  | .values _ _ => true
  | .project p _ => p.safe
  | .graph _ p => p.safe
  | .minus a b p1vars p2vars =>
    a.safe && b.safe &&
    (match p1vars with
     | none => false
     | some vs => scopeOK b.may vs a.must a.may) &&
    (match p2vars with
     | none => true
     | some vs => b.may.all (vs.contains ·))
  | .leftJoin a b e p1vars p2vars =>
    a.safe && b.safe && e.safe &&
    scopeOK e.vars (ownVars p1vars p2vars) (a.must ++ b.must) (a.may ++ b.may) &&
    (match p1vars with
     | none => false
     | some vs => scopeOK (b.may ++ e.vars) vs a.must a.may)
def Expr.safe : Expr → Bool
  | .var _ | .const _ | .bound _ => true
  | .cmp _ a b => a.safe && b.safe
  | .and a b => a.safe && b.safe
  | .or a b => a.safe && b.safe
  | .not a => a.safe
  | .exists _ p => p.existsOK
end

/-! ### context-sensitive `Safe` (round g)

  `Alg.safe` demands exact annotations whatever bindings are pushed in.  But an inexact annotation only matters for
  a variable that the context really binds: `forget(before, _except)` keeps every binding whose variable `before` does
  not bind, and `remember(vars)` of a merged solution is the sub-pattern's own solution on every listed variable the
  context does not bind.  `Alg.safeIn P ctx` follows the evaluator's data flow: `ctx` is an upper bound of the
  variables bound in `ctx.bindings` when `evalPart` reaches the node — nothing at the top of a query, the left side's
  `may` added for the right side of a lazy join and of an OPTIONAL, nothing again below a sub-select and on the right
  of MINUS (`ctx.clean()`). -/

/-- `forget(μ0, _except = ann)`: the annotation has to be exact only on relevant variables the context may bind -/
def scopeForget (ctx rel ann must may : List Nat) : Bool :=
  rel.all fun i =>
    !(ctx.contains i) || ((!(ann.contains i) || must.contains i) && (!(may.contains i) || ann.contains i))

/-- `remember(ann)`: a variable the sub-pattern may bind must be listed (whatever the context), a listed one must be
    bound by every solution only if the context may bind it too -/
def scopeRemember (ctx rel ann must may : List Nat) : Bool :=
  rel.all fun i =>
    (!(may.contains i) || ann.contains i) && (!(ctx.contains i) || !(ann.contains i) || must.contains i)

/-- push-down into `P` is exact for every context that binds at most the variables `ctx` -/
def Alg.safeIn : Alg → List Nat → Bool
  | .bgp _, _ => true
  | .join lz a b, ctx => a.safeIn ctx && b.safeIn (if lz then ctx ++ a.may else ctx)
  | .union a b, ctx => a.safeIn ctx && b.safeIn ctx
  | .filter e p vars noIso, ctx =>
    p.safeIn ctx && e.safe && !noIso && scopeForget ctx e.vars vars p.must p.may
  | .extend p v e vars, ctx =>
    p.safeIn ctx && e.safe && !(p.may.contains v) && !(e.vars.contains v) &&
      scopeForget ctx e.vars vars p.must p.may
  | .values _ _, _ => true
  | .project p _, _ => p.safeIn []
  | .graph _ p, ctx => p.safeIn ctx
  | .minus a b p1vars p2vars, ctx =>
    a.safeIn ctx && b.safeIn [] &&
    (match p1vars with
     | none => false
     | some vs => scopeRemember ctx b.may vs a.must a.may) &&
    (match p2vars with
     | none => true
     | some vs => b.may.all (vs.contains ·))
  | .leftJoin a b e p1vars p2vars, ctx =>
    a.safeIn ctx && b.safeIn (ctx ++ a.may) && e.safe &&
    scopeForget ctx e.vars (ownVars p1vars p2vars) (a.must ++ b.must) (a.may ++ b.may) &&
    (match p1vars with
     | none => false
     | some vs => scopeRemember ctx (b.may ++ e.vars) vs a.must a.may)

/-- operators covered by the PROVED push-down lemmas: all of them (`inFragment_true`); kept so that the harness and the
    driver report it -/
def Alg.inFragment : Alg → Bool
  | .bgp _ => true
  | .join _ a b => a.inFragment && b.inFragment
  | .union a b => a.inFragment && b.inFragment
  | .filter _ p _ _ => p.inFragment
  | .extend p _ _ _ => p.inFragment
  | .values _ _ => true
  | .project p _ => p.inFragment
  | .graph _ p => p.inFragment
  | .minus a b _ _ => a.inFragment && b.inFragment
  | .leftJoin a b _ _ _ => a.inFragment && b.inFragment

theorem Alg.inFragment_true : ∀ P : Alg, P.inFragment = true
  | .bgp _ => rfl
  | .join _ a b => by simp [Alg.inFragment, Alg.inFragment_true a, Alg.inFragment_true b]
  | .union a b => by simp [Alg.inFragment, Alg.inFragment_true a, Alg.inFragment_true b]
  | .filter _ p _ _ => by simp [Alg.inFragment, Alg.inFragment_true p]
  | .extend p _ _ _ => by simp [Alg.inFragment, Alg.inFragment_true p]
  | .values _ _ => rfl
  | .project p _ => by simp [Alg.inFragment, Alg.inFragment_true p]
  | .graph _ p => by simp [Alg.inFragment, Alg.inFragment_true p]
  | .minus a b _ _ => by simp [Alg.inFragment, Alg.inFragment_true a, Alg.inFragment_true b]
  | .leftJoin a b _ _ _ => by simp [Alg.inFragment, Alg.inFragment_true a, Alg.inFragment_true b]

def Query.pattern : Query → Alg
  | .select _ p => p
  | .ask _ p => p
  | .construct _ _ p => p

def Query.safe (q : Query) : Bool := q.pattern.safe
def Query.inFragment (q : Query) : Bool := q.pattern.inFragment
/-- at the top of a query nothing is pushed in (`initBindings = {}`) -/
def Query.safeTop (q : Query) : Bool := q.pattern.safeIn []

end RV.C04
