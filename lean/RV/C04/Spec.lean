import RV.C04.Types
/-
  C04 — the specification: SPARQL 1.1 evaluated bottom-up (§18.5 algebra operators, §18.6
  evaluation semantics, §17 expressions for the fragment of the property, §18.2 translation
  of the group-graph-pattern syntax).  Written as plainly as possible; nothing here follows
  rdflib.  Bags of solutions are lists, to be read modulo `List.Perm`.

  `eval D g σ P` is "the evaluation of `substitute(P, σ)` over active graph `g`" (§18.6
  `substitute` is what EXISTS needs); queries are evaluated with `σ = Row.empty`.
-/
namespace RV.C04.Spec
open RV.C04

variable {n : Nat}

/-! ### basic graph patterns -/

/-- extend `μ` so that position `p` denotes `x` -/
def matchOne (μ : Row n) (p : Pos) (x : Term) : Option (Row n) :=
  match p with
  | .const t => if t = x then some μ else none
  | .var v =>
    match μ.get v with
    | some y => if y = x then some μ else none
    | none => some (μ.set v x)

def matchTP (μ : Row n) (tp : TP) (t : Triple) : Option (Row n) :=
  (matchOne μ tp.s t.1).bind fun μ1 => (matchOne μ1 tp.p t.2.1).bind fun μ2 => matchOne μ2 tp.o t.2.2

/-- all extensions of `μ` that map every triple pattern into the graph (§18.3.1: one solution per
    way of matching; no blank nodes in patterns, so multiplicity 1) -/
def bgp (g : Graph) : List TP → Row n → List (Row n)
  | [], μ => [μ]
  | tp :: rest, μ =>
    g.flatMap fun t =>
      match matchTP μ tp t with
      | some μ' => bgp g rest μ'
      | none => []

def substPos (σ : Row n) : Pos → Pos
  | .var v =>
    match σ.get v with
    | some t => .const t
    | none => .var v
  | .const t => .const t

def substTP (σ : Row n) (tp : TP) : TP := ⟨substPos σ tp.s, substPos σ tp.p, substPos σ tp.o⟩

/-! ### §18.5 operators on bags -/

/-- Join(Ω1, Ω2) -/
def joinBag (A B : List (Row n)) : List (Row n) :=
  A.flatMap fun μ1 => B.filterMap fun μ2 => if μ1.compat μ2 then some (μ1.merge μ2) else none

/-- Minus(Ω1, Ω2) -/
def minusBag (A B : List (Row n)) : List (Row n) :=
  A.filter fun μ => B.all fun μ' => !(μ.compat μ') || μ.disjoint μ'

/-- one row of a VALUES block, under a substitution -/
def valuesRow (σ : Row n) : List Nat → List (Option Term) → Row n → Option (Row n)
  | v :: vs, c :: cs, μ =>
    match c with
    | none => valuesRow σ vs cs μ
    | some t =>
      match σ.get v with
      | some s => if s = t then valuesRow σ vs cs μ else none
      | none =>
        match μ.get v with
        | some y => if y = t then valuesRow σ vs cs μ else none
        | none => valuesRow σ vs cs (μ.set v t)
  | _, _, μ => some μ

/-- Join(Ω, {?v -> name}) for GRAPH ?v -/
def bindGraphVar (v : Nat) (name : Term) (μ : Row n) : Option (Row n) :=
  match μ.get v with
  | none => some (μ.set v name)
  | some y => if y = name then some μ else none

/-! ### evaluation (§18.6) -/

mutual
def eval (D : Dataset) (g : Graph) (σ : Row n) : Alg → List (Row n)
  | .bgp tps => bgp g (tps.map (substTP σ)) Row.empty
  | .join _ a b => joinBag (eval D g σ a) (eval D g σ b)
  | .leftJoin a b e _ _ =>
    -- LeftJoin(Ω1, Ω2, expr) = Filter(expr, Join(Ω1, Ω2)) ∪ Diff(Ω1, Ω2, expr)
    (joinBag (eval D g σ a) (eval D g σ b)).filter (fun μ => isTrue (evalExpr D g σ μ e)) ++
    (eval D g σ a).filter (fun μ =>
      (eval D g σ b).all (fun μ' => !(μ.compat μ') || !(isTrue (evalExpr D g σ (μ.merge μ') e))))
  | .filter e p _ _ => (eval D g σ p).filter (fun μ => isTrue (evalExpr D g σ μ e))
  | .union a b => eval D g σ a ++ eval D g σ b
  | .minus a b _ _ => minusBag (eval D g σ a) (eval D g σ b)
  | .extend p v e _ =>
    (eval D g σ p).map fun μ =>
      match μ.get v with
      | some _ => μ          -- Extend is undefined when `v ∈ dom μ`; ruled out by well-formedness
      | none =>
        match evalExpr D g σ μ e with
        | some t => μ.set v t
        | none => μ
  | .graph gp p =>
    match substPos σ gp with
    | .const t => if D.isName t then eval D (D.graphOf t) σ p else []
    | .var v => D.named.flatMap fun ng => (eval D ng.2 σ p).filterMap (bindGraphVar v ng.1)
  | .values vars rows => rows.filterMap fun r => valuesRow σ vars r Row.empty
  | .project p pv => (eval D g (σ.restrict pv) p).map (·.restrict pv)
def evalExpr (D : Dataset) (g : Graph) (σ μ : Row n) : Expr → Option Term
  | .var v => (σ.get v).orElse fun _ => μ.get v
  | .const t => some t
  | .cmp op a b => cmpV op (evalExpr D g σ μ a) (evalExpr D g σ μ b)
  | .and a b => boolV (and3 (ebvV (evalExpr D g σ μ a)) (ebvV (evalExpr D g σ μ b)))
  | .or a b => boolV (or3 (ebvV (evalExpr D g σ μ a)) (ebvV (evalExpr D g σ μ b)))
  | .not a => boolV ((ebvV (evalExpr D g σ μ a)).map (!·))
  | .bound v => some (.bool ((σ.get v).isSome || (μ.get v).isSome))
  | .exists neg p => some (.bool ((eval D g (μ.merge σ) p).isEmpty == neg))
end

/-! ### queries -/

def instPos (μ : Row n) (sol : Nat) : TPos → Option Term
  | .var v => μ.get v
  | .const t => some t
  | .blank lab => some (.fresh sol lab)

def isSubject : Term → Bool
  | .iri _ | .bnode _ | .fresh _ _ => true
  | _ => false

def isPredicate : Term → Bool
  | .iri _ => true
  | _ => false

/-- §16.2: instantiate one template triple; unbound variables and ill-formed triples are skipped -/
def instTriple (μ : Row n) (sol : Nat) (tp : TTP) : Option Triple :=
  match instPos μ sol tp.1, instPos μ sol tp.2.1, instPos μ sol tp.2.2 with
  | some s, some p, some o => if isSubject s && isPredicate p then some (s, p, o) else none
  | _, _, _ => none

/-- the template instantiated over a bag: solution number `i` mints the blank nodes `fresh i _` -/
def instTemplate (tpl : List TTP) : List (Row n) → Nat → List Triple
  | [], _ => []
  | μ :: rest, i => tpl.filterMap (instTriple μ i) ++ instTemplate tpl rest (i + 1)

/-! The same with the minted nodes named by an arbitrary function (one naming `Nat → Term` of the template labels
    per solution): `instTemplate` is the instance with the canonical names `Term.fresh i`.  Two instantiations of the
    same solutions under two injective namings are the same graph up to a renaming of the minted nodes. -/

def instPosN (name : Nat → Term) (μ : Row n) : TPos → Option Term
  | .var v => μ.get v
  | .const t => some t
  | .blank lab => some (name lab)

def instTripleN (name : Nat → Term) (μ : Row n) (tp : TTP) : Option Triple :=
  match instPosN name μ tp.1, instPosN name μ tp.2.1, instPosN name μ tp.2.2 with
  | some s, some p, some o => if isSubject s && isPredicate p then some (s, p, o) else none
  | _, _, _ => none

/-- the template instantiated over solutions that each come with the naming of their minted nodes -/
def instNamed (tpl : List TTP) : List (Row n × (Nat → Term)) → List Triple
  | [] => []
  | (μ, ν) :: rest => tpl.filterMap (instTripleN ν μ) ++ instNamed tpl rest

def evalQuery (D : Dataset) : Query → Result n
  | .select pv p => .rows pv ((eval D D.dflt Row.empty p).map (·.restrict pv))
  | .ask _ p => .bool (!(eval D D.dflt (Row.empty : Row n) p).isEmpty)
  | .construct tpl _ p => .graph (instTemplate tpl (eval D D.dflt (Row.empty : Row n) p) 0)

/-! ### §18.2 translation of the syntax -/

mutual
inductive SExpr
  | var (v : Nat)
  | const (t : Term)
  | cmp (op : CmpOp) (a b : SExpr)
  | and (a b : SExpr)
  | or (a b : SExpr)
  | not (a : SExpr)
  | bound (v : Nat)
  | exists (neg : Bool) (g : Elts)
/-- one element of a group graph pattern -/
inductive Elt
  | tri (tps : List TP)
  | opt (g : Elts)
  | minus (g : Elts)
  /-- `{A} UNION {B} UNION …`; a single group is a nested group `{ {A} }` -/
  | union (gs : Groups)
  | graph (p : Pos) (g : Elts)
  | values (vars : List Nat) (rows : List (List (Option Term)))
  | bind (e : SExpr) (v : Nat)
  | filter (e : SExpr)
  /-- `{ SELECT proj WHERE g }`, `none` = `SELECT *` -/
  | subsel (proj : Option (List Nat)) (g : Elts)
/-- a group graph pattern = its elements in order -/
inductive Elts
  | nil
  | cons (e : Elt) (rest : Elts)
inductive Groups
  | nil
  | cons (g : Elts) (rest : Groups)
end

def posVars : Pos → List Nat
  | .var v => [v]
  | .const _ => []

def tpVars (tp : TP) : List Nat := posVars tp.s ++ posVars tp.p ++ posVars tp.o

def insertNat (x : Nat) : List Nat → List Nat
  | [] => [x]
  | y :: ys => if x < y then x :: y :: ys else if x = y then y :: ys else y :: insertNat x ys

/-- sorted, duplicate-free -/
def normVars (vs : List Nat) : List Nat := vs.foldr insertNat []

/-! variables in scope of a group (§18.2.1) -/
mutual
def scopeElts : Elts → List Nat
  | .nil => []
  | .cons e rest => scopeElt e ++ scopeElts rest
def scopeElt : Elt → List Nat
  | .tri tps => tps.flatMap tpVars
  | .opt g => scopeElts g
  | .minus _ => []
  | .union gs => scopeGroups gs
  | .graph p g => posVars p ++ scopeElts g
  | .values vars _ => vars
  | .bind _ v => [v]
  | .filter _ => []
  | .subsel (some pv) _ => pv
  | .subsel none g => scopeElts g
def scopeGroups : Groups → List Nat
  | .nil => []
  | .cons g rest => scopeElts g ++ scopeGroups rest
end

/-- Join(Z, A) = A = Join(A, Z) (§18.2.2.8) -/
def mkJoin (a b : Alg) : Alg :=
  if a.isUnit then b else if b.isUnit then a else .join false a b

def andAll : List Expr → Option Expr
  | [] => none
  | f :: fs => some (fs.foldl Expr.and f)

/-- §18.2.2.7: the filters of a group apply to the whole group -/
def applyFilters (fs : List Expr) (G : Alg) : Alg :=
  match andAll fs with
  | none => G
  | some f => .filter f G [] false

/-- OPTIONAL { P }: "if Translate(P) is of the form Filter(F, A2) then LeftJoin(G, A2, F) else LeftJoin(G, A, true)"
    (§18.2.2.6).  Translate(P) is a Filter exactly when the group P itself has FILTER elements (the simplification
    `Join(Z, A) = A` of §18.2.2.8 happens after the whole translation, so a filter of a NESTED group `{ { … FILTER } }`
    is not hoisted): `fs` = P's own filters, `A2` = P without them. -/
def mkLeftJoin (G : Alg) (fs : List Expr) (A2 : Alg) : Alg :=
  match andAll fs with
  | some f => .leftJoin G A2 f none none
  | none => .leftJoin G A2 (.const (.bool true)) none none

mutual
def trExpr : SExpr → Expr
  | .var v => .var v
  | .const t => .const t
  | .cmp op a b => .cmp op (trExpr a) (trExpr b)
  | .and a b => .and (trExpr a) (trExpr b)
  | .or a b => .or (trExpr a) (trExpr b)
  | .not a => .not (trExpr a)
  | .bound v => .bound v
  | .exists neg g => .exists neg (applyFilters (filtersOf g) (trElts g Alg.unit))
/-- the non-filter elements, left to right, folded into the pattern so far -/
def trElts : Elts → Alg → Alg
  | .nil, G => G
  | .cons e rest, G => trElts rest (trElt e G)
def trElt : Elt → Alg → Alg
  | .tri tps, G => mkJoin G (.bgp tps)
  | .opt g, G => mkLeftJoin G (filtersOf g) (trElts g Alg.unit)
  | .minus g, G => .minus G (applyFilters (filtersOf g) (trElts g Alg.unit)) none none
  | .union gs, G => mkJoin G (trUnion gs)
  | .graph p g, G => mkJoin G (.graph p (applyFilters (filtersOf g) (trElts g Alg.unit)))
  | .values vars rows, G => mkJoin G (.values vars rows)
  | .bind e v, G => .extend G v (trExpr e) []
  | .filter _, G => G
  | .subsel proj g, G =>
    mkJoin G (.project (applyFilters (filtersOf g) (trElts g Alg.unit))
      (match proj with
       | some pv => pv
       | none => normVars (scopeElts g)))
def trUnion : Groups → Alg
  | .nil => Alg.unit
  | .cons g rest => trUnionAcc rest (applyFilters (filtersOf g) (trElts g Alg.unit))
def trUnionAcc : Groups → Alg → Alg
  | .nil, A => A
  | .cons g rest, A => trUnionAcc rest (.union A (applyFilters (filtersOf g) (trElts g Alg.unit)))
def filtersOf : Elts → List Expr
  | .nil => []
  | .cons (.filter e) rest => trExpr e :: filtersOf rest
  | .cons _ rest => filtersOf rest
end

def trGroup (g : Elts) : Alg := applyFilters (filtersOf g) (trElts g Alg.unit)

inductive SQuery
  | select (proj : Option (List Nat)) (g : Elts)
  | ask (g : Elts)
  | construct (tpl : List TTP) (g : Elts)

def translate : SQuery → Query
  | .select (some pv) g => .select pv (trGroup g)
  | .select none g => .select (normVars (scopeElts g)) (trGroup g)
  | .ask g => .ask [] (trGroup g)
  | .construct tpl g => .construct tpl [] (trGroup g)

end RV.C04.Spec
