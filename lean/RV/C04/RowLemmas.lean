import RV.C04.Types
/-
  C04 — pointwise facts about solution mappings (`Row n = Vector (Option Term) n`).
-/
namespace RV.C04
namespace Row
variable {n : Nat}

theorem get_of_lt {μ : Row n} {v : Nat} (h : v < n) : μ.get v = μ[v] := by
  simp [Row.get, Vector.getElem?_eq_getElem h]

theorem get_of_ge {μ : Row n} {v : Nat} (h : n ≤ v) : μ.get v = none := by
  simp [Row.get, Vector.getElem?_eq_none_iff.mpr h]

theorem ext_get {a b : Row n} (h : ∀ v, a.get v = b.get v) : a = b := by
  apply Vector.ext
  intro i hi
  have := h i
  rwa [get_of_lt hi, get_of_lt hi] at this

@[simp] theorem getElem_empty {i : Nat} (h : i < n) : (Row.empty : Row n)[i] = none := by
  simp [Row.empty]

@[simp] theorem get_empty {v : Nat} : (Row.empty : Row n).get v = none := by
  by_cases h : v < n
  · rw [get_of_lt h]; simp
  · exact get_of_ge (Nat.le_of_not_lt h)

@[simp] theorem getElem_merge {a b : Row n} {i : Nat} (h : i < n) :
    (a.merge b)[i] = (b[i]).orElse (fun _ => a[i]) := by
  simp [Row.merge]

theorem get_merge {a b : Row n} {v : Nat} : (a.merge b).get v = (b.get v).orElse (fun _ => a.get v) := by
  by_cases h : v < n
  · simp [get_of_lt h]
  · simp [get_of_ge (Nat.le_of_not_lt h)]

@[simp] theorem getElem_set {μ : Row n} {v i : Nat} {t : Term} (h : i < n) :
    (μ.set v t)[i] = if v = i then some t else μ[i] := by
  simp [Row.set, Vector.getElem_setIfInBounds]

theorem get_set {μ : Row n} {v w : Nat} {t : Term} :
    (μ.set v t).get w = if v = w ∧ w < n then some t else μ.get w := by
  by_cases h : w < n
  · simp [get_of_lt h, h]
  · simp [get_of_ge (Nat.le_of_not_lt h), h]

@[simp] theorem getElem_restrict {μ : Row n} {vs : List Nat} {i : Nat} (h : i < n) :
    (μ.restrict vs)[i] = if i ∈ vs then μ[i] else none := by
  simp [Row.restrict]

theorem get_restrict {μ : Row n} {vs : List Nat} {v : Nat} :
    (μ.restrict vs).get v = if v ∈ vs then μ.get v else none := by
  by_cases h : v < n
  · simp [get_of_lt h]
  · simp [get_of_ge (Nat.le_of_not_lt h)]

@[simp] theorem getElem_forget {c b : Row n} {ex : List Nat} {i : Nat} (h : i < n) :
    (c.forget b ex)[i] = if i ∈ ex ∨ b[i] = none then c[i] else none := by
  simp [Row.forget]

theorem get_forget {c b : Row n} {ex : List Nat} {v : Nat} :
    (c.forget b ex).get v = if v ∈ ex ∨ b.get v = none then c.get v else none := by
  by_cases h : v < n
  · simp [get_of_lt h]
  · simp [get_of_ge (Nat.le_of_not_lt h)]

theorem compat_iff {a b : Row n} :
    a.compat b = true ↔ ∀ v s t, a.get v = some s → b.get v = some t → s = t := by
  simp only [Row.compat, Vector.all_eq_true, Vector.getElem_zipWith, id]
  constructor
  · intro h v s t ha hb
    by_cases hv : v < n
    · rw [get_of_lt hv] at ha hb
      have := h v hv
      rw [ha, hb] at this
      simpa [cellCompat] using this
    · rw [get_of_ge (Nat.le_of_not_lt hv)] at ha; cases ha
  · intro h i hi
    have := h i
    rw [get_of_lt hi, get_of_lt hi] at this
    cases ha : a[i] <;> cases hb : b[i] <;> simp [cellCompat]
    exact this _ _ ha hb

theorem disjoint_iff {a b : Row n} :
    a.disjoint b = true ↔ ∀ v, a.get v = none ∨ b.get v = none := by
  simp only [Row.disjoint, Vector.all_eq_true, Vector.getElem_zipWith, id]
  constructor
  · intro h v
    by_cases hv : v < n
    · rw [get_of_lt hv, get_of_lt hv]
      have := h v hv
      cases ha : a[v] <;> cases hb : b[v] <;> simp_all [cellDisjoint]
    · left; exact get_of_ge (Nat.le_of_not_lt hv)
  · intro h i hi
    have := h i
    rw [get_of_lt hi, get_of_lt hi] at this
    cases ha : a[i] <;> cases hb : b[i] <;> simp_all [cellDisjoint]

end Row
end RV.C04
