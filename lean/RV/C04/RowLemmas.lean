import RV.C04.Types
/-
  C04 — pointwise facts about solution mappings (`Row n = Vector (Option Term) n`).
-/
namespace RV.C04
namespace Row
variable {n : Nat}

theorem get_of_lt {μ : Row n} {v : Nat} (h : v < n) : μ.get v = μ[v] := by
  simp [Row.get, Vector.getElem?_eq_getElem h]

theorem get_of_ge {μ : Row n} {v : Nat} (h : n ≤ v) : μ.get v = none := by
  simp [Row.get, Vector.getElem?_eq_none_iff.mpr h]

theorem ext_get {a b : Row n} (h : ∀ v, a.get v = b.get v) : a = b := by
  apply Vector.ext
  intro i hi
  have := h i
  rwa [get_of_lt hi, get_of_lt hi] at this

@[simp] theorem getElem_empty {i : Nat} (h : i < n) : (Row.empty : Row n)[i] = none := by
  simp [Row.empty]

@[simp] theorem get_empty {v : Nat} : (Row.empty : Row n).get v = none := by
  by_cases h : v < n
  · rw [get_of_lt h]; simp
  · exact get_of_ge (Nat.le_of_not_lt h)

@[simp] theorem getElem_merge {a b : Row n} {i : Nat} (h : i < n) :
    (a.merge b)[i] = (b[i]).orElse (fun _ => a[i]) := by
  simp [Row.merge]

theorem get_merge {a b : Row n} {v : Nat} : (a.merge b).get v = (b.get v).orElse (fun _ => a.get v) := by
  by_cases h : v < n
  · simp [get_of_lt h]
  · simp [get_of_ge (Nat.le_of_not_lt h)]

@[simp] theorem getElem_set {μ : Row n} {v i : Nat} {t : Term} (h : i < n) :
    (μ.set v t)[i] = if v = i then some t else μ[i] := by
  simp [Row.set, Vector.getElem_setIfInBounds]

theorem get_set {μ : Row n} {v w : Nat} {t : Term} :
    (μ.set v t).get w = if v = w ∧ w < n then some t else μ.get w := by
  by_cases h : w < n
  · simp [get_of_lt h, h]
  · simp [get_of_ge (Nat.le_of_not_lt h), h]

@[simp] theorem getElem_restrict {μ : Row n} {vs : List Nat} {i : Nat} (h : i < n) :
    (μ.restrict vs)[i] = if i ∈ vs then μ[i] else none := by
  simp [Row.restrict]

theorem get_restrict {μ : Row n} {vs : List Nat} {v : Nat} :
    (μ.restrict vs).get v = if v ∈ vs then μ.get v else none := by
  by_cases h : v < n
  · simp [get_of_lt h]
  · simp [get_of_ge (Nat.le_of_not_lt h)]

@[simp] theorem getElem_forget {c b : Row n} {ex : List Nat} {i : Nat} (h : i < n) :
    (c.forget b ex)[i] = if i ∈ ex ∨ b[i] = none then c[i] else none := by
  simp [Row.forget]

theorem get_forget {c b : Row n} {ex : List Nat} {v : Nat} :
    (c.forget b ex).get v = if v ∈ ex ∨ b.get v = none then c.get v else none := by
  by_cases h : v < n
  · simp [get_of_lt h]
  · simp [get_of_ge (Nat.le_of_not_lt h)]

theorem compat_iff {a b : Row n} :
    a.compat b = true ↔ ∀ v s t, a.get v = some s → b.get v = some t → s = t := by
  simp only [Row.compat, Vector.all_eq_true, Vector.getElem_zipWith, id]
  constructor
  · intro h v s t ha hb
    by_cases hv : v < n
    · rw [get_of_lt hv] at ha hb
      have := h v hv
      rw [ha, hb] at this
      simpa [cellCompat] using this
    · rw [get_of_ge (Nat.le_of_not_lt hv)] at ha; cases ha
  · intro h i hi
    have := h i
    rw [get_of_lt hi, get_of_lt hi] at this
    cases ha : a[i] <;> cases hb : b[i] <;> simp [cellCompat]
    exact this _ _ ha hb

theorem disjoint_iff {a b : Row n} :
    a.disjoint b = true ↔ ∀ v, a.get v = none ∨ b.get v = none := by
  simp only [Row.disjoint, Vector.all_eq_true, Vector.getElem_zipWith, id]
  constructor
  · intro h v
    by_cases hv : v < n
    · rw [get_of_lt hv, get_of_lt hv]
      have := h v hv
      cases ha : a[v] <;> cases hb : b[v] <;> simp_all [cellDisjoint]
    · left; exact get_of_ge (Nat.le_of_not_lt hv)
  · intro h i hi
    have := h i
    rw [get_of_lt hi, get_of_lt hi] at this
    cases ha : a[i] <;> cases hb : b[i] <;> simp_all [cellDisjoint]

end Row
end RV.C04

namespace RV.C04
namespace Row
variable {n : Nat}

@[simp] theorem merge_empty (μ : Row n) : μ.merge Row.empty = μ := by
  apply ext_get; intro v; simp [get_merge]

@[simp] theorem empty_merge (μ : Row n) : (Row.empty : Row n).merge μ = μ := by
  apply ext_get; intro v; rw [get_merge]; cases μ.get v <;> simp

@[simp] theorem compat_empty_left (μ : Row n) : (Row.empty : Row n).compat μ = true := by
  rw [compat_iff]; intro v s t h; simp at h

@[simp] theorem compat_empty_right (μ : Row n) : μ.compat (Row.empty : Row n) = true := by
  rw [compat_iff]; intro v s t _ h; simp at h

theorem compat_comm (a b : Row n) : a.compat b = b.compat a := by
  have key : ∀ a b : Row n, a.compat b = true → b.compat a = true := by
    intro a b h
    rw [compat_iff] at h ⊢
    intro v s t hs ht
    exact (h v t s ht hs).symm
  cases h1 : a.compat b <;> cases h2 : b.compat a <;> try rfl
  · rw [key b a h2] at h1; cases h1
  · rw [key a b h1] at h2; cases h2

/-- pointwise view of a Bool-valued compat for rewriting: `compat` is false iff some variable clashes -/
theorem compat_eq_false_iff {a b : Row n} :
    a.compat b = false ↔ ∃ v s t, a.get v = some s ∧ b.get v = some t ∧ s ≠ t := by
  constructor
  · intro h
    apply Classical.byContradiction
    intro hne
    have : a.compat b = true := by
      rw [compat_iff]
      intro v s t hs ht
      apply Classical.byContradiction
      intro hst
      exact hne ⟨v, s, t, hs, ht, hst⟩
    rw [this] at h; cases h
  · rintro ⟨v, s, t, hs, ht, hst⟩
    cases h : a.compat b with
    | false => rfl
    | true => rw [compat_iff] at h; exact absurd (h v s t hs ht) hst

/-- (J1) pushing `μ2` into the context `μ0 ⊕ μ1` = joining `μ1` with `μ2`, then with `μ0` -/
theorem compat_merge_ctx {μ0 μ1 μ2 : Row n} (h1 : μ1.compat μ0 = true) :
    μ2.compat (μ0.merge μ1) = (μ1.compat μ2 && (μ1.merge μ2).compat μ0) := by
  rw [compat_iff] at h1
  cases hr : (μ1.compat μ2 && (μ1.merge μ2).compat μ0) with
  | true =>
    simp only [Bool.and_eq_true] at hr
    obtain ⟨h12, h120⟩ := hr
    rw [compat_iff] at h12 h120 ⊢
    intro v s t hs ht
    rw [get_merge] at ht
    cases h1v : μ1.get v with
    | some u =>
      rw [h1v] at ht; simp at ht; subst ht
      exact (h12 v _ _ h1v hs).symm
    | none =>
      rw [h1v] at ht; simp at ht
      exact h120 v s t (by rw [get_merge, hs]; rfl) ht
  | false =>
    rw [compat_eq_false_iff]
    simp only [Bool.and_eq_false_iff] at hr
    rcases hr with h12 | h120
    · rw [compat_eq_false_iff] at h12
      obtain ⟨v, s, t, hs, ht, hst⟩ := h12
      exact ⟨v, t, s, ht, by rw [get_merge, hs]; rfl, fun e => hst e.symm⟩
    · rw [compat_eq_false_iff] at h120
      obtain ⟨v, s, t, hs, ht, hst⟩ := h120
      rw [get_merge] at hs
      cases h2v : μ2.get v with
      | some u =>
        rw [h2v] at hs; simp at hs; subst hs
        refine ⟨v, u, t, h2v, ?_, hst⟩
        rw [get_merge]
        cases h1v : μ1.get v with
        | none => simpa using ht
        | some w => have := h1 v w t h1v ht; subst this; rfl
      | none =>
        rw [h2v] at hs; simp at hs
        exact absurd (h1 v s t hs ht) hst

/-- under pairwise compatibility the order of merging is irrelevant -/
theorem merge3_eq {μ0 μ1 μ2 : Row n} (h1 : μ1.compat μ0 = true) (h2 : μ2.compat (μ0.merge μ1) = true) :
    ((μ0.merge μ1).merge μ2).merge (μ0.merge μ1) = μ0.merge (μ1.merge μ2) := by
  rw [compat_iff] at h1 h2
  apply ext_get
  intro v
  simp only [get_merge]
  have h2v := h2 v
  have h1v := h1 v
  rw [get_merge] at h2v
  cases e1 : μ1.get v <;> cases e2 : μ2.get v <;> cases e0 : μ0.get v <;> simp_all

theorem merge_comm_of_compat {a b : Row n} (h : a.compat b = true) : a.merge b = b.merge a := by
  rw [compat_iff] at h
  apply ext_get
  intro v
  simp only [get_merge]
  have := h v
  cases ea : a.get v <;> cases eb : b.get v <;> simp_all

end Row
end RV.C04

namespace RV.C04
namespace Row
variable {n : Nat}

/-- (J3) joining two solutions that were both joined with `μ0` = joining them, then with `μ0` -/
theorem compat_both_pushed {μ0 μ1 μ2 : Row n} (h1 : μ1.compat μ0 = true) :
    (μ2.compat μ0 && (μ0.merge μ1).compat (μ0.merge μ2)) = (μ1.compat μ2 && (μ1.merge μ2).compat μ0) := by
  rw [Bool.eq_iff_iff]
  simp only [Bool.and_eq_true, compat_iff, get_merge] at h1 ⊢
  constructor
  · rintro ⟨h2, h12⟩
    refine ⟨?_, ?_⟩ <;> intro v s t hs ht
    · have a := h2 v; have b := h12 v; have c := h1 v
      clear h2 h12 h1
      cases e0 : μ0.get v <;> cases e1 : μ1.get v <;> cases e2 : μ2.get v <;> simp_all
    · have a := h2 v; have b := h12 v; have c := h1 v
      clear h2 h12 h1
      cases e0 : μ0.get v <;> cases e1 : μ1.get v <;> cases e2 : μ2.get v <;> simp_all
  · rintro ⟨h12, h120⟩
    refine ⟨?_, ?_⟩ <;> intro v s t hs ht
    · have a := h12 v; have b := h120 v; have c := h1 v
      clear h12 h120 h1
      cases e0 : μ0.get v <;> cases e1 : μ1.get v <;> cases e2 : μ2.get v <;> simp_all
    · have a := h12 v; have b := h120 v; have c := h1 v
      clear h12 h120 h1
      cases e0 : μ0.get v <;> cases e1 : μ1.get v <;> cases e2 : μ2.get v <;> simp_all

theorem merge_both_pushed {μ0 μ1 μ2 : Row n} (h1 : μ1.compat μ0 = true) (h2 : μ2.compat μ0 = true) :
    (μ0.merge μ1).merge (μ0.merge μ2) = μ0.merge (μ1.merge μ2) := by
  rw [compat_iff] at h1 h2
  apply ext_get
  intro v
  simp only [get_merge]
  have a := h1 v; have b := h2 v
  clear h1 h2
  cases e0 : μ0.get v <;> cases e1 : μ1.get v <;> cases e2 : μ2.get v <;> simp_all

end Row
end RV.C04
