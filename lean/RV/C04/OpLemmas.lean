import RV.C04.ExprLemmas
/-
  C04 — push-down lemmas for FILTER, BIND, VALUES and BGP (the operators whose evaluation trims
  or extends the pushed-in bindings).
-/
namespace RV.C04
open Spec Model
variable {n : Nat}

/-- what `Alg.must` / `Alg.may` promise about one solution -/
def BoundsOK (μ : Row n) (must may : List Nat) : Prop :=
  (∀ v ∈ must, (μ.get v).isSome = true) ∧ (∀ v, (μ.get v).isSome = true → v ∈ may)

/-- every variable the row binds is listed -/
def Row.domIn (μ : Row n) (L : List Nat) : Prop := ∀ v, (μ.get v).isSome = true → v ∈ L

theorem Row.domIn_empty (L : List Nat) : (Row.empty : Row n).domIn L := by
  intro v hv; simp [Row.get_empty] at hv

/-- what `forget(μ0, _except = ann)` needs of the annotation: exact on every relevant variable that `μ0` binds -/
def ForgetOK (μ0 : Row n) (rel ann must may : List Nat) : Prop :=
  ∀ v ∈ rel, μ0.get v = none ∨ ((v ∈ ann → v ∈ must) ∧ (v ∈ may → v ∈ ann))

/-- what `remember(ann)` needs: every variable the sub-pattern may bind is listed; a listed one that `μ0` binds is
    bound by every solution of the sub-pattern -/
def RememberOK (μ0 : Row n) (rel ann must may : List Nat) : Prop :=
  ∀ v ∈ rel, (v ∈ may → v ∈ ann) ∧ (μ0.get v = none ∨ (v ∈ ann → v ∈ must))

theorem ForgetOK.of_scopeOK {μ0 : Row n} {rel ann must may : List Nat} (hs : scopeOK rel ann must may = true) :
    ForgetOK μ0 rel ann must may := by
  intro v hv
  simp only [scopeOK, List.all_eq_true, Bool.and_eq_true, Bool.or_eq_true, Bool.not_eq_eq_eq_not,
    Bool.not_true, List.contains_eq_mem, decide_eq_true_eq, decide_eq_false_iff_not] at hs
  obtain ⟨h1, h2⟩ := hs v hv
  exact Or.inr ⟨fun ha => h1.resolve_left (fun h => h ha), fun hm => h2.resolve_left (fun h => h hm)⟩

theorem RememberOK.of_scopeOK {μ0 : Row n} {rel ann must may : List Nat} (hs : scopeOK rel ann must may = true) :
    RememberOK μ0 rel ann must may := by
  intro v hv
  simp only [scopeOK, List.all_eq_true, Bool.and_eq_true, Bool.or_eq_true, Bool.not_eq_eq_eq_not,
    Bool.not_true, List.contains_eq_mem, decide_eq_true_eq, decide_eq_false_iff_not] at hs
  obtain ⟨h1, h2⟩ := hs v hv
  exact ⟨fun hm => h2.resolve_left (fun h => h hm), Or.inr (fun ha => h1.resolve_left (fun h => h ha))⟩

theorem ForgetOK.of_scopeForget {μ0 : Row n} {ctx rel ann must may : List Nat} (h0 : μ0.domIn ctx)
    (hs : scopeForget ctx rel ann must may = true) : ForgetOK μ0 rel ann must may := by
  intro v hv
  simp only [scopeForget, List.all_eq_true, Bool.and_eq_true, Bool.or_eq_true, Bool.not_eq_eq_eq_not,
    Bool.not_true, List.contains_eq_mem, decide_eq_true_eq, decide_eq_false_iff_not] at hs
  rcases hs v hv with h | ⟨h1, h2⟩
  · left
    cases hg : μ0.get v with
    | none => rfl
    | some t => exact absurd (h0 v (by simp [hg])) h
  · exact Or.inr ⟨fun ha => h1.resolve_left (fun h => h ha), fun hm => h2.resolve_left (fun h => h hm)⟩

theorem RememberOK.of_scopeRemember {μ0 : Row n} {ctx rel ann must may : List Nat} (h0 : μ0.domIn ctx)
    (hs : scopeRemember ctx rel ann must may = true) : RememberOK μ0 rel ann must may := by
  intro v hv
  simp only [scopeRemember, List.all_eq_true, Bool.and_eq_true, Bool.or_eq_true, Bool.not_eq_eq_eq_not,
    Bool.not_true, List.contains_eq_mem, decide_eq_true_eq, decide_eq_false_iff_not] at hs
  obtain ⟨h2, h1⟩ := hs v hv
  refine ⟨fun hm => h2.resolve_left (fun h => h hm), ?_⟩
  rcases h1 with (h | h) | h
  · left
    cases hg : μ0.get v with
    | none => rfl
    | some t => exact absurd (h0 v (by simp [hg])) h
  · exact Or.inr (fun ha => absurd ha h)
  · exact Or.inr (fun _ => h)

theorem scopeForget_of_scopeOK {ctx rel ann must may : List Nat} (hs : scopeOK rel ann must may = true) :
    scopeForget ctx rel ann must may = true := by
  simp only [scopeOK, List.all_eq_true] at hs
  simp only [scopeForget, List.all_eq_true]
  intro i hi
  rw [hs i hi]; simp

theorem scopeRemember_of_scopeOK {ctx rel ann must may : List Nat} (hs : scopeOK rel ann must may = true) :
    scopeRemember ctx rel ann must may = true := by
  simp only [scopeOK, List.all_eq_true, Bool.and_eq_true] at hs
  simp only [scopeRemember, List.all_eq_true, Bool.and_eq_true]
  intro i hi
  obtain ⟨h1, h2⟩ := hs i hi
  refine ⟨h2, ?_⟩
  cases hc : ctx.contains i <;> simp_all

/-- `forget` with an annotation that is exact where the context binds gives back the sub-pattern's own solution on
    the relevant variables -/
theorem forget_scope {μ0 μ : Row n} {rel ann must may : List Nat}
    (hs : ForgetOK μ0 rel ann must may) (hb : BoundsOK μ must may) :
    ∀ v ∈ rel, ((μ0.merge μ).forget μ0 ann).get v = μ.get v := by
  intro v hv
  rw [Row.get_forget, Row.get_merge]
  cases h0 : μ0.get v with
  | none => simp
  | some z =>
    obtain ⟨h1, h2⟩ := (hs v hv).resolve_left (by rw [h0]; simp)
    by_cases hann : v ∈ ann
    · have := hb.1 v (h1 hann)
      cases hμ : μ.get v with
      | none => rw [hμ] at this; cases this
      | some y => simp [hann]
    · have : μ.get v = none := by
        cases hμ : μ.get v with
        | none => rfl
        | some y => exact absurd (h2 (hb.2 v (by simp [hμ]))) hann
      simp [hann, this]

/-- evalFilter (expression without EXISTS) -/
theorem pushdown_filter {D : Dataset} {g : Graph} {μ0 : Row n} {Ω XP : List (Row n)} {e : Expr}
    {ann must may : List Nat}
    (hp : XP.Perm (push μ0 Ω)) (hok : ExprOK D g n e)
    (hs : ForgetOK μ0 e.vars ann must may) (hb : ∀ μ ∈ Ω, BoundsOK μ must may) :
    (XP.filter fun c => isTrue (Model.evalExpr D g (c.forget μ0 ann) e)).Perm
      (push μ0 (Ω.filter fun μ => isTrue (Spec.evalExpr D g Row.empty μ e))) := by
  refine (hp.filter _).trans ?_
  apply List.Perm.of_eq
  simp only [push, List.filter_filterMap, List.filterMap_filter]
  apply List.filterMap_congr
  intro μ hμ
  unfold pushOne
  cases hc : μ.compat μ0 with
  | false => simp
  | true =>
    have : Model.evalExpr D g ((μ0.merge μ).forget μ0 ann) e = Spec.evalExpr D g Row.empty μ e := by
      rw [hok.congr _ _ (forget_scope hs (hb μ hμ)), hok.spec]
    simp only [if_true, Option.filter_some, this]

end RV.C04

namespace RV.C04
open Spec Model
variable {n : Nat}

/-- the model's BIND step on one solution `c` of the inner pattern -/
def extendStepM (D : Dataset) (g : Graph) (μ0 : Row n) (v : Nat) (e : Expr) (ann : List Nat) (c : Row n) :
    Option (Row n) :=
  match Model.evalExpr D g (c.forget μ0 ann) e with
  | none => some c
  | some t =>
    match c.get v with
    | some y => if y = t then some (c.set v t) else none
    | none => some (c.set v t)

theorem Row.set_same {μ : Row n} {v : Nat} {t : Term} (h : μ.get v = some t) : μ.set v t = μ := by
  apply Row.ext_get
  intro w
  rw [Row.get_set]
  split
  · next hw => rw [← hw.1, h]
  · rfl

/-- the specification's Extend on one solution -/
def extendStepS (D : Dataset) (g : Graph) (v : Nat) (e : Expr) (μ : Row n) : Row n :=
  match μ.get v with
  | some _ => μ
  | none =>
    match Spec.evalExpr D g Row.empty μ e with
    | some t => μ.set v t
    | none => μ

/-- evalExtend (expression without EXISTS, BIND variable not bound by the inner pattern) -/
theorem pushdown_extend {D : Dataset} {g : Graph} {μ0 : Row n} {Ω XP : List (Row n)} {e : Expr} {v : Nat}
    {ann must may : List Nat}
    (hp : XP.Perm (push μ0 Ω)) (hok : ExprOK D g n e)
    (hs : ForgetOK μ0 e.vars ann must may) (hb : ∀ μ ∈ Ω, BoundsOK μ must may)
    (hv : v ∉ may) :
    (XP.filterMap (extendStepM D g μ0 v e ann)).Perm (push μ0 (Ω.map (extendStepS D g v e))) := by
  refine (hp.filterMap _).trans ?_
  apply List.Perm.of_eq
  simp only [push, List.filterMap_filterMap, List.filterMap_map]
  apply List.filterMap_congr
  intro μ hμ
  have hμv : μ.get v = none := by
    cases h : μ.get v with
    | none => rfl
    | some y => exact absurd ((hb μ hμ).2 v (by simp [h])) hv
  simp only [Function.comp, extendStepS, hμv]
  cases hc : μ.compat μ0 with
  | false =>
    have hp1 : pushOne μ0 μ = none := by simp [pushOne, hc]
    simp only [hp1, Option.bind_none]
    symm
    cases he : Spec.evalExpr D g Row.empty μ e with
    | none => simpa using hp1
    | some t => simp [pushOne, Row.not_compat_of_le (Row.le_set hμv) hc]
  | true =>
    have hp1 : pushOne μ0 μ = some (μ0.merge μ) := by simp [pushOne, hc]
    have hev : Model.evalExpr D g ((μ0.merge μ).forget μ0 ann) e = Spec.evalExpr D g Row.empty μ e := by
      rw [hok.congr _ _ (forget_scope hs (hb μ hμ)), hok.spec]
    simp only [hp1, Option.bind_some, extendStepM, hev]
    cases he : Spec.evalExpr D g Row.empty μ e with
    | none => simpa using hp1.symm
    | some t =>
      simp only [Row.get_merge, hμv, Option.orElse]
      cases h0 : μ0.get v with
      | none =>
        have : (μ.set v t).compat μ0 = true :=
          (Row.compat_set_iff hc hμv).mpr (fun z hz => by rw [h0] at hz; cases hz)
        simp [pushOne, this, Row.merge_set_comm]
      | some y =>
        by_cases hyt : y = t
        · subst hyt
          have : (μ.set v y).compat μ0 = true :=
            (Row.compat_set_iff hc hμv).mpr (fun z hz => by rw [h0] at hz; cases hz; rfl)
          have hg : (μ0.merge μ).get v = some y := by rw [Row.get_merge, hμv]; simpa using h0
          simp [pushOne, this, Row.merge_set_same hμv h0, Row.set_same hg]
        · have : (μ.set v t).compat μ0 = false := by
            cases hcc : (μ.set v t).compat μ0 with
            | false => rfl
            | true => exact absurd ((Row.compat_set_iff hc hμv).mp hcc y h0) hyt
          simp [pushOne, this, hyt]

end RV.C04

namespace RV.C04
open Spec Model
variable {n : Nat}

/-! ### VALUES -/

theorem valuesRow_cons_some (v : Nat) (vs : List Nat) (t : Term) (cs : List (Option Term)) (μ : Row n) :
    Model.valuesRow (v :: vs) (some t :: cs) μ = (matchOne μ (.var v) t).bind (Model.valuesRow vs cs) := by
  simp only [Model.valuesRow, matchOne]
  cases μ.get v with
  | none => rfl
  | some y => by_cases h : y = t <;> simp [h]

theorem valuesRow_pushOK (μ0 : Row n) : ∀ (vs : List Nat) (cs : List (Option Term)),
    PushOK μ0 (Model.valuesRow vs cs)
  | [], cs => ⟨fun a b h => by simp [Model.valuesRow] at h; subst h; exact Row.le_refl _,
               fun ν hν => by simp [Model.valuesRow, pushOne, hν]⟩
  | v :: vs, [] => ⟨fun a b h => by simp [Model.valuesRow] at h; subst h; exact Row.le_refl _,
               fun ν hν => by simp [Model.valuesRow, pushOne, hν]⟩
  | v :: vs, none :: cs => by
    have := valuesRow_pushOK μ0 vs cs
    have e : Model.valuesRow (v :: vs) (none :: cs) = Model.valuesRow (n := n) vs cs := by
      funext μ; simp [Model.valuesRow]
    rw [e]; exact this
  | v :: vs, some t :: cs => by
    have h := (matchOne_pushOK μ0 (.var v) t).comp (valuesRow_pushOK μ0 vs cs)
    have e : Model.valuesRow (v :: vs) (some t :: cs) =
        fun μ : Row n => (matchOne μ (.var v) t).bind (Model.valuesRow vs cs) := by
      funext μ; exact valuesRow_cons_some v vs t cs μ
    rw [e]; exact h

theorem specValuesRow_empty : ∀ (vs : List Nat) (cs : List (Option Term)) (μ : Row n),
    Spec.valuesRow Row.empty vs cs μ = Model.valuesRow vs cs μ
  | [], cs, μ => by simp [Spec.valuesRow, Model.valuesRow]
  | v :: vs, [], μ => by simp [Spec.valuesRow, Model.valuesRow]
  | v :: vs, none :: cs, μ => by simp [Spec.valuesRow, Model.valuesRow, specValuesRow_empty vs cs μ]
  | v :: vs, some t :: cs, μ => by
    simp only [Spec.valuesRow, Model.valuesRow, Row.get_empty]
    cases μ.get v with
    | none => simp [specValuesRow_empty vs cs]
    | some y => by_cases h : y = t <;> simp [h, specValuesRow_empty vs cs]

/-- evalValues -/
theorem pushdown_values (μ0 : Row n) (vars : List Nat) (rows : List (List (Option Term))) :
    (rows.filterMap fun r => Model.valuesRow vars r μ0) =
      push μ0 (rows.filterMap fun r => Spec.valuesRow Row.empty vars r Row.empty) := by
  simp only [push, List.filterMap_filterMap]
  apply List.filterMap_congr
  intro r _
  rw [specValuesRow_empty]
  have := (valuesRow_pushOK μ0 vars r).push Row.empty (by simp)
  simpa using this

/-! ### BGP -/

theorem substPos_empty (p : Pos) : substPos (Row.empty : Row n) p = p := by
  cases p <;> simp [substPos]

theorem substTP_empty (tp : TP) : substTP (Row.empty : Row n) tp = tp := by
  cases tp with
  | mk s p o => simp [substTP, substPos_empty]

theorem map_substTP_empty (tps : List TP) : tps.map (substTP (Row.empty : Row n)) = tps := by
  induction tps with
  | nil => rfl
  | cons tp rest ih => simp [substTP_empty, ih]

end RV.C04
