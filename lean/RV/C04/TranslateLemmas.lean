import RV.C04.AnalysisLemmas
import RV.C04.Translate
/-
  C04 — facts about the model of rdflib's translation (Translate.lean): `simplify` (Join with the empty BGP removed) does
  not change what the specification assigns to the tree, under any substitution.
-/
namespace RV.C04
open Spec Model
variable {n : Nat}

theorem joinBag_unit_left (B : List (Row n)) : joinBag [Row.empty] B = B := by
  simp [joinBag]

theorem joinBag_unit_right (A : List (Row n)) : joinBag A [Row.empty] = A := by
  simp [joinBag]

theorem specEval_unit {D : Dataset} (g : Graph) (σ : Row n) {P : Alg} (h : P.isUnit = true) :
    Spec.eval D g σ P = [Row.empty] := by
  cases P with
  | bgp tps =>
    cases tps with
    | nil => simp [Spec.eval, Spec.bgp]
    | cons _ _ => simp [Alg.isUnit] at h
  | _ => simp [Alg.isUnit] at h

/-- `simplify` preserves the specification's value of the tree -/
theorem specEval_simplify {D : Dataset} : ∀ (P : Alg) (g : Graph) (σ : Row n),
    Spec.eval D g σ P.simplify = Spec.eval D g σ P
  | .bgp _, _, _ => rfl
  | .join l a b, g, σ => by
    have iha := specEval_simplify (D := D) a g σ
    have ihb := specEval_simplify (D := D) b g σ
    simp only [Alg.simplify]
    split
    · next h => rw [Spec.eval, ← iha, ← ihb, specEval_unit g σ h, joinBag_unit_left]
    · split
      · next h => rw [Spec.eval, ← iha, ← ihb, specEval_unit g σ h, joinBag_unit_right]
      · simp only [Spec.eval, iha, ihb]
  | .union a b, g, σ => by simp only [Alg.simplify, Spec.eval, specEval_simplify a, specEval_simplify b]
  | .leftJoin a b _ _ _, g, σ => by simp only [Alg.simplify, Spec.eval, specEval_simplify a, specEval_simplify b]
  | .filter _ p _ _, g, σ => by simp only [Alg.simplify, Spec.eval, specEval_simplify p]
  | .extend p _ _ _, g, σ => by simp only [Alg.simplify, Spec.eval, specEval_simplify p]
  | .minus a b _ _, g, σ => by simp only [Alg.simplify, Spec.eval, specEval_simplify a, specEval_simplify b]
  | .graph gp p, g, σ => by simp only [Alg.simplify, Spec.eval, specEval_simplify p]
  | .values _ _, _, _ => rfl
  | .project p _, g, σ => by simp only [Alg.simplify, Spec.eval, specEval_simplify p]

end RV.C04
