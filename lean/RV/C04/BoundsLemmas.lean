import RV.C04.SpecLemmas
/-
  C04 — what `Alg.must` / `Alg.may` promise about the specification's solutions
  (for the operators of the proved fragment).
-/
namespace RV.C04
open Spec Model
variable {n : Nat}

theorem matchOne_bounds {μ μ' : Row n} {p : Pos} {x : Term} (h : matchOne μ p x = some μ') :
    (∀ v ∈ p.vars, v < n → (μ'.get v).isSome = true) ∧
    (∀ v, (μ'.get v).isSome = true → v ∈ p.vars ∨ (μ.get v).isSome = true) := by
  cases p with
  | const c =>
    simp only [matchOne] at h
    split at h <;> simp at h
    subst h
    exact ⟨by simp [Pos.vars], fun v hv => Or.inr hv⟩
  | var w =>
    cases hw : μ.get w with
    | some z =>
      rw [matchOne_var_some hw] at h
      split at h <;> simp at h
      subst h
      refine ⟨?_, fun v hv => Or.inr hv⟩
      intro v hv _
      simp only [Pos.vars, List.mem_singleton] at hv
      subst hv; simp [hw]
    | none =>
      rw [matchOne_var_none hw] at h
      simp at h; subst h
      refine ⟨?_, ?_⟩
      · intro v hv hn
        simp only [Pos.vars, List.mem_singleton] at hv
        subst hv
        rw [Row.get_set]; simp [hn]
      · intro v hv
        rw [Row.get_set] at hv
        split at hv
        · next h => left; simp [Pos.vars, h.1]
        · right; exact hv

theorem Row.le_isSome {a b : Row n} (h : a.le b) {v : Nat} (hv : (a.get v).isSome = true) :
    (b.get v).isSome = true := by
  cases ha : a.get v with
  | none => rw [ha] at hv; cases hv
  | some t => rw [h v t ha]; rfl

theorem matchTP_bounds {μ μ' : Row n} {tp : TP} {t : Triple} (h : matchTP μ tp t = some μ') :
    (∀ v ∈ tp.vars, v < n → (μ'.get v).isSome = true) ∧
    (∀ v, (μ'.get v).isSome = true → v ∈ tp.vars ∨ (μ.get v).isSome = true) := by
  unfold matchTP at h
  simp only [Option.bind_eq_some_iff] at h
  obtain ⟨μ1, h1, μ2, h2, h3⟩ := h
  have b1 := matchOne_bounds h1
  have b2 := matchOne_bounds h2
  have b3 := matchOne_bounds h3
  have l2 := matchOne_le h2
  have l3 := matchOne_le h3
  refine ⟨?_, ?_⟩
  · intro v hv hn
    simp only [TP.vars, List.mem_append] at hv
    rcases hv with (hv | hv) | hv
    · exact Row.le_isSome l3 (Row.le_isSome l2 (b1.1 v hv hn))
    · exact Row.le_isSome l3 (b2.1 v hv hn)
    · exact b3.1 v hv hn
  · intro v hv
    simp only [TP.vars, List.mem_append]
    rcases b3.2 v hv with h | h
    · exact Or.inl (Or.inr h)
    · rcases b2.2 v h with h | h
      · exact Or.inl (Or.inl (Or.inr h))
      · rcases b1.2 v h with h | h
        · exact Or.inl (Or.inl (Or.inl h))
        · exact Or.inr h

theorem bgp_bounds {g : Graph} : ∀ (tps : List TP) (μ x : Row n), x ∈ bgp g tps μ →
    (∀ v ∈ tps.flatMap TP.vars, v < n → (x.get v).isSome = true) ∧
    (∀ v, (x.get v).isSome = true → v ∈ tps.flatMap TP.vars ∨ (μ.get v).isSome = true)
  | [], μ, x, h => by
    simp [bgp] at h; subst h
    exact ⟨by simp, fun v hv => Or.inr hv⟩
  | tp :: rest, μ, x, h => by
    simp only [bgp, List.mem_flatMap] at h
    obtain ⟨t, _, hx⟩ := h
    split at hx
    · next μ' hm =>
      have bt := matchTP_bounds hm
      have br := bgp_bounds rest μ' x hx
      have lr := bgp_le rest μ' x hx
      refine ⟨?_, ?_⟩
      · intro v hv hn
        simp only [List.flatMap_cons, List.mem_append] at hv
        rcases hv with hv | hv
        · exact Row.le_isSome lr (bt.1 v hv hn)
        · exact br.1 v hv hn
      · intro v hv
        simp only [List.flatMap_cons, List.mem_append]
        rcases br.2 v hv with h | h
        · exact Or.inl (Or.inr h)
        · rcases bt.2 v h with h | h
          · exact Or.inl (Or.inl h)
          · exact Or.inr h
    · simp at hx

theorem valuesRow_may (σ : Row n) : ∀ (vs : List Nat) (cs : List (Option Term)) (μ μ' : Row n),
    Spec.valuesRow σ vs cs μ = some μ' → ∀ v, (μ'.get v).isSome = true → v ∈ vs ∨ (μ.get v).isSome = true
  | [], cs, μ, μ', h, v, hv => by simp [Spec.valuesRow] at h; subst h; exact Or.inr hv
  | w :: vs, [], μ, μ', h, v, hv => by simp [Spec.valuesRow] at h; subst h; exact Or.inr hv
  | w :: vs, none :: cs, μ, μ', h, v, hv => by
    simp only [Spec.valuesRow] at h
    rcases valuesRow_may σ vs cs μ μ' h v hv with h | h
    · exact Or.inl (List.mem_cons_of_mem _ h)
    · exact Or.inr h
  | w :: vs, some t :: cs, μ, μ', h, v, hv => by
    simp only [Spec.valuesRow] at h
    split at h
    · split at h
      · rcases valuesRow_may σ vs cs μ μ' h v hv with h | h
        · exact Or.inl (List.mem_cons_of_mem _ h)
        · exact Or.inr h
      · cases h
    · split at h
      · split at h
        · rcases valuesRow_may σ vs cs μ μ' h v hv with h | h
          · exact Or.inl (List.mem_cons_of_mem _ h)
          · exact Or.inr h
        · cases h
      · rcases valuesRow_may σ vs cs (μ.set w t) μ' h v hv with h | h
        · exact Or.inl (List.mem_cons_of_mem _ h)
        · rw [Row.get_set] at h
          split at h
          · next hh => exact Or.inl (by simp [hh.1])
          · exact Or.inr h

end RV.C04

namespace RV.C04
open Spec Model
variable {n : Nat}

theorem BoundsOK.merge {μ1 μ2 : Row n} {m1 y1 m2 y2 : List Nat} (h1 : BoundsOK μ1 m1 y1) (h2 : BoundsOK μ2 m2 y2) :
    BoundsOK (μ1.merge μ2) (m1 ++ m2) (y1 ++ y2) := by
  refine ⟨?_, ?_⟩
  · intro v hv
    rw [Row.get_merge]
    rcases List.mem_append.mp hv with hv | hv
    · have := h1.1 v hv
      cases μ2.get v <;> simp_all
    · have := h2.1 v hv
      cases h : μ2.get v <;> simp_all
  · intro v hv
    rw [Row.get_merge] at hv
    cases h : μ2.get v with
    | none =>
      rw [h] at hv
      exact List.mem_append.mpr (Or.inl (h1.2 v (by simpa using hv)))
    | some t => exact List.mem_append.mpr (Or.inr (h2.2 v (by simp [h])))

/-- every solution of `Spec.eval` binds `P.must` and nothing outside `P.may` (proved fragment) -/
theorem spec_bounds {D : Dataset} : ∀ (P : Alg), P.inFragment = true → (∀ v ∈ P.allVars, v < n) →
    ∀ (g : Graph) (μ : Row n), μ ∈ Spec.eval D g Row.empty P → BoundsOK μ P.must P.may
  | .bgp tps, _, hws, g, μ, h => by
    simp only [Spec.eval, map_substTP_empty] at h
    have := bgp_bounds tps Row.empty μ h
    refine ⟨fun v hv => this.1 v hv (hws v (by simpa [Alg.allVars, Alg.must] using hv)), ?_⟩
    intro v hv
    rcases this.2 v hv with h | h
    · exact h
    · simp at h
  | .join l a b, hf, hws, g, μ, h => by
    simp only [Alg.inFragment, Bool.and_eq_true] at hf
    simp only [Spec.eval, joinBag, List.mem_flatMap, List.mem_filterMap] at h
    obtain ⟨μ1, h1, μ2, h2, he⟩ := h
    split at he
    · cases he
      exact (spec_bounds a hf.1 (fun v hv => hws v (by simp [Alg.allVars, hv])) g μ1 h1).merge
        (spec_bounds b hf.2 (fun v hv => hws v (by simp [Alg.allVars, hv])) g μ2 h2)
    · cases he
  | .union a b, hf, hws, g, μ, h => by
    simp only [Alg.inFragment, Bool.and_eq_true] at hf
    simp only [Spec.eval, List.mem_append] at h
    rcases h with h | h
    · have := spec_bounds a hf.1 (fun v hv => hws v (by simp [Alg.allVars, hv])) g μ h
      refine ⟨fun v hv => this.1 v ?_, fun v hv => ?_⟩
      · simp only [Alg.must, List.mem_filter] at hv; exact hv.1
      · simp only [Alg.may, List.mem_append]; exact Or.inl (this.2 v hv)
    · have := spec_bounds b hf.2 (fun v hv => hws v (by simp [Alg.allVars, hv])) g μ h
      refine ⟨fun v hv => this.1 v ?_, fun v hv => ?_⟩
      · simp only [Alg.must, List.mem_filter, List.contains_eq_mem, decide_eq_true_eq] at hv; exact hv.2
      · simp only [Alg.may, List.mem_append]; exact Or.inr (this.2 v hv)
  | .filter e p vars noIso, hf, hws, g, μ, h => by
    simp only [Alg.inFragment] at hf
    simp only [Spec.eval, List.mem_filter] at h
    exact spec_bounds p hf (fun v hv => hws v (by simp [Alg.allVars, hv])) g μ h.1
  | .extend p w e vars, hf, hws, g, μ, h => by
    simp only [Alg.inFragment] at hf
    simp only [Spec.eval, List.mem_map] at h
    obtain ⟨μ', h', he⟩ := h
    have ih := spec_bounds p hf (fun v hv => hws v (by simp [Alg.allVars, hv])) g μ' h'
    have hle : μ'.le μ ∧ ∀ v, (μ.get v).isSome = true → v = w ∨ (μ'.get v).isSome = true := by
      cases hw : μ'.get w with
      | some _ => simp only [hw] at he; subst he; exact ⟨Row.le_refl _, fun v hv => Or.inr hv⟩
      | none =>
        simp only [hw] at he
        cases hev : Spec.evalExpr D g Row.empty μ' e with
        | none => simp only [hev] at he; subst he; exact ⟨Row.le_refl _, fun v hv => Or.inr hv⟩
        | some t =>
          simp only [hev] at he; subst he
          refine ⟨Row.le_set hw, ?_⟩
          intro v hv
          rw [Row.get_set] at hv
          split at hv
          · next hh => exact Or.inl hh.1.symm
          · exact Or.inr hv
    refine ⟨fun v hv => Row.le_isSome hle.1 (ih.1 v hv), ?_⟩
    intro v hv
    simp only [Alg.may, List.mem_cons]
    rcases hle.2 v hv with h | h
    · exact Or.inl h
    · exact Or.inr (ih.2 v h)
  | .values vars rows, _, _, g, μ, h => by
    simp only [Spec.eval, List.mem_filterMap] at h
    obtain ⟨r, _, hr⟩ := h
    refine ⟨by simp [Alg.must], ?_⟩
    intro v hv
    rcases valuesRow_may Row.empty vars r Row.empty μ hr v hv with h | h
    · exact h
    · simp at h
  | .leftJoin a b e p1 p2, hf, hws, g, μ, h => by
    simp only [Alg.inFragment, Bool.and_eq_true] at hf
    have hwsa : ∀ v ∈ a.allVars, v < n := fun v hv => hws v (by simp [Alg.allVars, hv])
    have hwsb : ∀ v ∈ b.allVars, v < n := fun v hv => hws v (by simp [Alg.allVars, hv])
    simp only [Spec.eval, List.mem_append, List.mem_filter] at h
    rcases h with ⟨hj, _⟩ | ⟨ha, _⟩
    · simp only [joinBag, List.mem_flatMap, List.mem_filterMap] at hj
      obtain ⟨μ1, h1, μ2, h2, he⟩ := hj
      split at he
      · cases he
        have := (spec_bounds a hf.1 hwsa g μ1 h1).merge (spec_bounds b hf.2 hwsb g μ2 h2)
        exact ⟨fun v hv => this.1 v (List.mem_append.mpr (Or.inl hv)), this.2⟩
      · cases he
    · have := spec_bounds a hf.1 hwsa g μ ha
      exact ⟨this.1, fun v hv => List.mem_append.mpr (Or.inl (this.2 v hv))⟩
  | .minus a b _ _, hf, hws, g, μ, h => by
    simp only [Alg.inFragment, Bool.and_eq_true] at hf
    simp only [Spec.eval, minusBag, List.mem_filter] at h
    exact spec_bounds a hf.1 (fun v hv => hws v (by simp [Alg.allVars, hv])) g μ h.1
  | .graph gp p, hf, hws, g, μ, h => by
    simp only [Alg.inFragment] at hf
    have hwsp : ∀ v ∈ p.allVars, v < n := fun v hv => hws v (by simp [Alg.allVars, hv])
    simp only [Spec.eval] at h
    cases gp with
    | const t =>
      simp only [substPos] at h
      split at h
      · have := spec_bounds p hf hwsp (D.graphOf t) μ h
        simpa [Alg.must, Alg.may, Pos.vars] using this
      · cases h
    | var w =>
      simp only [substPos, Row.get_empty, List.mem_flatMap, List.mem_filterMap] at h
      obtain ⟨ng, _, μ', hμ', hb⟩ := h
      have ih := spec_bounds p hf hwsp ng.2 μ' hμ'
      rw [bindGraphVar_eq_matchOne] at hb
      have hle := matchOne_le hb
      have hbd := matchOne_bounds hb
      refine ⟨?_, ?_⟩
      · intro v hv
        simp only [Alg.must, Pos.vars, List.cons_append, List.nil_append, List.mem_cons] at hv
        rcases hv with hv | hv
        · subst hv
          exact hbd.1 v (by simp [Pos.vars]) (hws v (by simp [Alg.allVars, Pos.vars]))
        · exact Row.le_isSome hle (ih.1 v hv)
      · intro v hv
        simp only [Alg.may, Pos.vars, List.cons_append, List.nil_append, List.mem_cons]
        rcases hbd.2 v hv with h | h
        · left; simpa [Pos.vars] using h
        · right; exact ih.2 v h
  | .project p pv, hf, hws, g, μ, h => by
    simp only [Alg.inFragment] at hf
    simp only [Spec.eval, Row.restrict_empty, List.mem_map] at h
    obtain ⟨μ', hμ', rfl⟩ := h
    have ih := spec_bounds p hf (fun v hv => hws v (by simp [Alg.allVars, hv])) g μ' hμ'
    refine ⟨?_, ?_⟩
    · intro v hv
      simp only [Alg.must, List.mem_filter, List.contains_eq_mem, decide_eq_true_eq] at hv
      rw [Row.get_restrict]; simp [hv.2, ih.1 v hv.1]
    · intro v hv
      rw [Row.get_restrict] at hv
      simp only [Alg.may, List.mem_filter, List.contains_eq_mem, decide_eq_true_eq]
      split at hv
      · next hp => exact ⟨ih.2 v hv, hp⟩
      · cases hv

end RV.C04
