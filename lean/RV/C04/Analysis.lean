import RV.C04.Safe
/-
  C04 round g — model of the static analysis rdflib runs over the translated algebra tree at the end of
  `algebra.translateQuery` (core imports only: the driver evaluates it and the harness compares its output with the
  annotations found on rdflib's own tree on every case):

      res = traverse(res, visitPost=simplify)
      _traverseAgg(res, visitor=analyse)      -- the `lazy` flag of every Join
      _traverseAgg(res, _addVars)             -- the `_vars` set of every node

  * `Alg.addVars P`   the value `_addVars` returns for (and stores as `_vars` on) the node `P`
                      ("find which variables may be bound by this part of the query"):
                        BGP                 its triple patterns' variables
                        Join / Union        both children
                        Extend/Filter/LeftJoin   the children except `expr` (for Extend: `p` and `var`)
                        Minus               the children except `p2`
                        Graph               `term` (if a variable) and `p`
                        ToMultiSet(values)  NOTHING — the rows are Python dicts, which `_traverseAgg` does not open
                                            (known finding C04-K2)
                        ToMultiSet(Project) `p` and `PV`
  * `Alg.analyse P`   the value `analyse` returns for `P`: "can be joined lazily" — false for a Join, otherwise the
                      conjunction over the children (expressions, variables and lists give True)
  * `Alg.annotate P`  the tree with every annotation that `evaluate.py` reads replaced by the one the two passes
                      compute: `Join.lazy = all(children)`, `Filter._vars`, `Extend._vars`, `p1._vars` / `p2._vars` of
                      LeftJoin and Minus.  The pattern of an EXISTS is NOT annotated (translateExists keeps it as a
                      Python attribute that neither pass reaches), `no_isolated_scope` is not an analysis result.
-/
namespace RV.C04

def Alg.addVars : Alg → List Nat
  | .bgp tps => tps.flatMap TP.vars
  | .join _ a b => a.addVars ++ b.addVars
  | .union a b => a.addVars ++ b.addVars
  | .leftJoin a b _ _ _ => a.addVars ++ b.addVars
  | .filter _ p _ _ => p.addVars
  | .extend p v _ _ => p.addVars ++ [v]
  | .minus a _ _ _ => a.addVars
  | .graph g p => g.vars ++ p.addVars
  | .values _ _ => []
  | .project p pv => p.addVars ++ pv

def Alg.analyse : Alg → Bool
  | .bgp _ => true
  | .join _ _ _ => false
  | .union a b => a.analyse && b.analyse
  | .leftJoin a b _ _ _ => a.analyse && b.analyse
  | .filter _ p _ _ => p.analyse
  | .extend p _ _ _ => p.analyse
  | .minus a b _ _ => a.analyse && b.analyse
  | .graph _ p => p.analyse
  | .values _ _ => true
  | .project p _ => p.analyse

def Alg.annotate : Alg → Alg
  | .bgp tps => .bgp tps
  | .join _ a b => .join (a.analyse && b.analyse) a.annotate b.annotate
  | .union a b => .union a.annotate b.annotate
  | .leftJoin a b e _ _ => .leftJoin a.annotate b.annotate e (some a.addVars) (some b.addVars)
  | .filter e p _ noIso => .filter e p.annotate p.addVars noIso
  | .extend p v e _ => .extend p.annotate v e (p.addVars ++ [v])
  | .minus a b _ _ => .minus a.annotate b.annotate (some a.addVars) (some b.addVars)
  | .graph g p => .graph g p.annotate
  | .values vars rows => .values vars rows
  | .project p pv => .project p.annotate pv

/-- no VALUES block anywhere in the pattern (EXISTS patterns apart) -/
def Alg.valuesFree : Alg → Bool
  | .bgp _ => true
  | .join _ a b => a.valuesFree && b.valuesFree
  | .union a b => a.valuesFree && b.valuesFree
  | .leftJoin a b _ _ _ => a.valuesFree && b.valuesFree
  | .filter _ p _ _ => p.valuesFree
  | .extend p _ _ _ => p.valuesFree
  | .minus a b _ _ => a.valuesFree && b.valuesFree
  | .graph _ p => p.valuesFree
  | .values _ _ => false
  | .project p _ => p.valuesFree

def Query.annotate : Query → Query
  | .select pv p => .select pv p.annotate
  | .ask pv p => .ask pv p.annotate
  | .construct tpl pv p => .construct tpl pv p.annotate

/-! ### the annotations as text (what the harness reads off rdflib's tree) -/

def insertNat (x : Nat) : List Nat → List Nat
  | [] => [x]
  | y :: ys => if x < y then x :: y :: ys else if x = y then y :: ys else y :: insertNat x ys

/-- a set of variables, sorted and without duplicates -/
def canonSet (l : List Nat) : List Nat := l.foldr insertNat []

def showSet (l : List Nat) : String := ",".intercalate ((canonSet l).map toString)

def showOSet : Option (List Nat) → String
  | none => "none"
  | some l => showSet l

/-- the annotations of the tree in pre-order (nodes outside EXISTS): `J<lazy>`, `F<_vars>`, `E<_vars>`,
    `L<p1._vars>|<p2._vars>`, `M<p1._vars>|<p2._vars>` -/
def Alg.annots : Alg → List String
  | .bgp _ => []
  | .join l a b => (if l then "J1" else "J0") :: (a.annots ++ b.annots)
  | .union a b => a.annots ++ b.annots
  | .leftJoin a b _ p1 p2 => ("L" ++ showOSet p1 ++ "|" ++ showOSet p2) :: (a.annots ++ b.annots)
  | .filter _ p vars _ => ("F" ++ showSet vars) :: p.annots
  | .extend p _ _ vars => ("E" ++ showSet vars) :: p.annots
  | .minus a b p1 p2 => ("M" ++ showOSet p1 ++ "|" ++ showOSet p2) :: (a.annots ++ b.annots)
  | .graph _ p => p.annots
  | .values _ _ => []
  | .project p _ => p.annots

end RV.C04

namespace RV.C04

/-- the tree with no lazy join at all (what `analyse` would give if it never answered "lazy") -/
def Alg.strict : Alg → Alg
  | .bgp tps => .bgp tps
  | .join _ a b => .join false a.strict b.strict
  | .union a b => .union a.strict b.strict
  | .leftJoin a b e p1 p2 => .leftJoin a.strict b.strict e p1 p2
  | .filter e p vars noIso => .filter e p.strict vars noIso
  | .extend p v e vars => .extend p.strict v e vars
  | .minus a b p1 p2 => .minus a.strict b.strict p1 p2
  | .graph g p => .graph g p.strict
  | .values vars rows => .values vars rows
  | .project p pv => .project p.strict pv

end RV.C04
