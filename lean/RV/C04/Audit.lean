import RV.C04.Props
open RV.C04
#print axioms placeholder
