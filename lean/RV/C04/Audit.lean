import RV.C04.Props
open RV.C04
#print axioms pushdown_partial
#print axioms eval_correct_partial
#print axioms ask_correct_partial
#print axioms construct_correct_partial
#print axioms pushdown_bgp
#print axioms pushdown_join_lazy
#print axioms pushdown_join_strict
#print axioms pushdown_union
#print axioms pushdown_filter
#print axioms pushdown_extend
#print axioms pushdown_values
#print axioms pushdown_project
#print axioms pushdown_minus
#print axioms pushdown_graph_unbound
#print axioms push_graph_bound
#print axioms pushdown_leftjoin
#print axioms leftJoin_regroup
#print axioms spec_bounds
#print axioms bgp_perm
#print axioms joinBag_comm
#print axioms union_comm
#print axioms pushdown_witness_K1
#print axioms pushdown_witness_K2
#print axioms pushdown_witness_K3
#print axioms pushdown_unconditional_witness
