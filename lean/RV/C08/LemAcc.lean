import RV.C08.LemAgg
import RV.C08.LemOrder
/-
  C08 — the accumulators (Counter, Sum, Average, Extremum, Sample, GroupConcat) against the set
  functions of §18.5.1, by an invariant over the solutions fed so far.
-/
set_option linter.unusedSimpArgs false
set_option linter.unusedVariables false
namespace RV.C08

variable {α : Type}

/-! ### snoc lemmas -/

theorem firstOcc_snoc [DecidableEq α] (x : α) : ∀ xs : List α,
    firstOcc (xs ++ [x]) = if x ∈ xs then firstOcc xs else firstOcc xs ++ [x] := by
  intro xs
  induction xs with
  | nil => simp [firstOcc]
  | cons y ys ih =>
    simp only [List.cons_append, firstOcc, ih, List.mem_cons]
    by_cases e : x = y
    · subst e
      by_cases h : x ∈ ys
      · simp [h]
      · simp [h, List.filter_append]
    · by_cases h : x ∈ ys
      · simp [h, e]
      · simp [h, e, List.filter_append]

theorem argVals_snoc (a : AggSpec) (rows : List Row) (r : Row) :
    argVals a (rows ++ [r]) = argVals a rows ++ (match evalE a.arg r with | some t => [t] | none => []) := by
  simp only [argVals, List.filterMap_append, List.filterMap_cons, List.filterMap_nil]
  cases evalE a.arg r <;> rfl

theorem sumRat_snoc (x : Rat) : ∀ xs : List Rat, sumRat (xs ++ [x]) = sumRat xs + x := by
  intro xs
  induction xs with
  | nil => simp [sumRat, Rat.add_zero, Rat.zero_add]
  | cons y ys ih => simp [sumRat, ih, Rat.add_assoc]

theorem maxScale_snoc (x : Nat) : ∀ xs : List Nat, maxScale (xs ++ [x]) = max (maxScale xs) x := by
  intro xs
  induction xs with
  | nil => simp [maxScale]
  | cons y ys ih => simp [maxScale, ih, Nat.max_assoc]

theorem promoteAll_snoc (x : DT) : ∀ (xs : List DT) (d : DT),
    promoteAll d (xs ++ [x]) = (typePromotion (promoteAll d xs) x).getD (promoteAll d xs) := by
  intro xs
  induction xs with
  | nil => intro d; simp [promoteAll]
  | cons y ys ih => intro d; simp [promoteAll, ih]

theorem accRun_snoc (a : AggSpec) (rows : List Row) (r : Row) :
    accRun a (rows ++ [r]) = (accRun a rows).update a r := by
  simp [accRun, List.foldl_append]

/-- induction principle: a property of `accRun a rows` established by feeding one more solution -/
theorem accRun_induction (a : AggSpec) (P : List Row → AccSt → Prop) (h0 : P [] (initAcc a))
    (hs : ∀ rows r st, P rows st → P (rows ++ [r]) (st.update a r)) : ∀ rows, P rows (accRun a rows) := by
  have gen : ∀ (rows rows0 : List Row) (st : AccSt), P rows0 st →
      P (rows0 ++ rows) (rows.foldl (fun st r => st.update a r) st) := by
    intro rows
    induction rows with
    | nil => intro rows0 st h; simpa using h
    | cons r rs ih =>
      intro rows0 st h
      have := ih (rows0 ++ [r]) (st.update a r) (hs rows0 r st h)
      simpa using this
  intro rows
  simpa [accRun] using gen rows [] (initAcc a) h0

theorem contains_iff_mem [DecidableEq α] (xs : List α) (x : α) : xs.contains x = true ↔ x ∈ xs := by simp

/-! ### COUNT -/

theorem count_arg_inv (a : AggSpec) (hk : a.kind = .count) (hs : a.star = false) (rows : List Row) :
    ∃ seen, accRun a rows = .counter (dedupIf a.dist (argVals a rows)).length seen [] ∧
      (a.dist = true → ∀ t, t ∈ seen ↔ t ∈ argVals a rows) := by
  refine accRun_induction a (fun rows st => ∃ seen, st = .counter (dedupIf a.dist (argVals a rows)).length seen [] ∧
      (a.dist = true → ∀ t, t ∈ seen ↔ t ∈ argVals a rows)) ?_ ?_ rows
  · exact ⟨[], by simp [initAcc, hk, argVals, dedupIf, firstOcc], fun _ t => by simp [argVals]⟩
  · rintro rows r st ⟨seen, rfl, hseen⟩
    simp only [AccSt.update, hs, Bool.false_eq_true, if_false, argVals_snoc]
    cases he : evalE a.arg r with
    | none => exact ⟨seen, by simp, by simpa using hseen⟩
    | some t =>
      simp only
      cases hd : a.dist with
      | false =>
        refine ⟨seen, ?_, fun h => by cases h⟩
        simp [dedupIf, addSeen, hd]
      | true =>
        have hseen' := hseen hd
        by_cases hm : t ∈ argVals a rows
        · have hin : t ∈ seen := (hseen' t).2 hm
          refine ⟨seen, ?_, fun _ u => ?_⟩
          · simp [hin, dedupIf, hd, firstOcc_snoc, hm]
          · simp only [List.mem_append, List.mem_cons, List.not_mem_nil, or_false, hseen' u]
            constructor
            · exact Or.inl
            · rintro (h | rfl); exact h; exact hm
        · have hin : t ∉ seen := fun h => hm ((hseen' t).1 h)
          refine ⟨t :: seen, ?_, fun _ u => ?_⟩
          · simp [hin, dedupIf, hd, firstOcc_snoc, hm, addSeen]
          · simp only [List.mem_cons, List.mem_append, List.not_mem_nil, or_false, hseen' u]
            constructor
            · rintro (rfl | h); exact Or.inr rfl; exact Or.inl h
            · rintro (h | rfl); exact Or.inr h; exact Or.inl rfl

theorem count_star_inv (a : AggSpec) (hk : a.kind = .count) (hs : a.star = true) (rows : List Row) :
    ∃ seenRows, accRun a rows = .counter (dedupIf a.dist rows).length [] seenRows ∧
      (a.dist = true → ∀ t, t ∈ seenRows ↔ t ∈ rows) := by
  refine accRun_induction a (fun rows st => ∃ seenRows, st = .counter (dedupIf a.dist rows).length [] seenRows ∧
      (a.dist = true → ∀ t, t ∈ seenRows ↔ t ∈ rows)) ?_ ?_ rows
  · exact ⟨[], by simp [initAcc, hk, dedupIf, firstOcc], fun _ t => by simp⟩
  · rintro rows r st ⟨seen, rfl, hseen⟩
    simp only [AccSt.update, hs, if_true]
    cases hd : a.dist with
    | false =>
      refine ⟨seen, ?_, fun h => by cases h⟩
      simp [dedupIf, hd]
    | true =>
      have hseen' := hseen hd
      by_cases hm : r ∈ rows
      · have hin : r ∈ seen := (hseen' r).2 hm
        refine ⟨seen, ?_, fun _ u => ?_⟩
        · simp [hin, dedupIf, hd, firstOcc_snoc, hm]
        · simp only [List.mem_append, List.mem_cons, List.not_mem_nil, or_false, hseen' u]
          constructor
          · exact Or.inl
          · rintro (h | rfl); exact h; exact hm
      · have hin : r ∉ seen := fun h => hm ((hseen' r).1 h)
        refine ⟨r :: seen, ?_, fun _ u => ?_⟩
        · simp [hin, dedupIf, hd, firstOcc_snoc, hm]
        · simp only [List.mem_cons, List.mem_append, List.not_mem_nil, or_false, hseen' u]
          constructor
          · rintro (rfl | h); exact Or.inr rfl; exact Or.inl h
          · rintro (h | rfl); exact Or.inr h; exact Or.inl rfl

/-! ### SAMPLE -/

theorem sample_inv (a : AggSpec) (hk : a.kind = .sample) (rows : List Row) :
    accRun a rows = .sample (argVals a rows).head? := by
  refine accRun_induction a (fun rows st => st = .sample (argVals a rows).head?) ?_ ?_ rows
  · simp [initAcc, hk, argVals]
  · rintro rows r st rfl
    simp only [AccSt.update, argVals_snoc]
    cases h : argVals a rows with
    | nil => cases he : evalE a.arg r <;> simp [he]
    | cons t ts => simp

/-! ### GROUP_CONCAT -/

theorem gc_inv (a : AggSpec) (hk : a.kind = .gconcat) (rows : List Row) :
    ∃ seen, accRun a rows = .gc (dedupIf a.dist (argVals a rows)) seen ∧
      (a.dist = true → ∀ t, t ∈ seen ↔ t ∈ argVals a rows) := by
  refine accRun_induction a (fun rows st => ∃ seen, st = .gc (dedupIf a.dist (argVals a rows)) seen ∧
      (a.dist = true → ∀ t, t ∈ seen ↔ t ∈ argVals a rows)) ?_ ?_ rows
  · exact ⟨[], by simp [initAcc, hk, argVals, dedupIf, firstOcc], fun _ t => by simp [argVals]⟩
  · rintro rows r st ⟨seen, rfl, hseen⟩
    simp only [AccSt.update, argVals_snoc]
    cases he : evalE a.arg r with
    | none => exact ⟨seen, by simp, by simpa using hseen⟩
    | some t =>
      simp only
      cases hd : a.dist with
      | false =>
        refine ⟨seen, ?_, fun h => by cases h⟩
        simp [dedupIf, addSeen, hd]
      | true =>
        have hseen' := hseen hd
        by_cases hm : t ∈ argVals a rows
        · have hin : t ∈ seen := (hseen' t).2 hm
          refine ⟨seen, ?_, fun _ u => ?_⟩
          · simp [hin, dedupIf, hd, firstOcc_snoc, hm]
          · simp only [List.mem_append, List.mem_cons, List.not_mem_nil, or_false, hseen' u]
            constructor
            · exact Or.inl
            · rintro (h | rfl); exact h; exact hm
        · have hin : t ∉ seen := fun h => hm ((hseen' t).1 h)
          refine ⟨t :: seen, ?_, fun _ u => ?_⟩
          · simp [hin, dedupIf, hd, firstOcc_snoc, hm, addSeen]
          · simp only [List.mem_cons, List.mem_append, List.not_mem_nil, or_false, hseen' u]
            constructor
            · rintro (rfl | h); exact Or.inr rfl; exact Or.inl h
            · rintro (h | rfl); exact Or.inr h; exact Or.inl rfl

/-! ### tables: promotion is total and closed on the numeric datatypes -/

theorem DT.mem_all (d : DT) : d ∈ DT.all := by cases d <;> decide

theorem promo_closed_tab : ∀ a ∈ DT.all, ∀ b ∈ DT.all, a ∈ numericBase → b.isNumericOp = true →
    (typePromotion a b).any (fun c => numericBase.contains c) = true := by decide

theorem promo_closed {a b : DT} (ha : a ∈ numericBase) (hb : b.isNumericOp = true) :
    ∃ c, typePromotion a b = some c ∧ c ∈ numericBase := by
  have := promo_closed_tab a (DT.mem_all a) b (DT.mem_all b) ha hb
  cases h : typePromotion a b with
  | none => rw [h] at this; cases this
  | some c => rw [h] at this; exact ⟨c, rfl, by simpa using this⟩

theorem promo_float_tab : ∀ a ∈ DT.all, ∀ b ∈ DT.all, a.isNumericOp = true → b.isNumericOp = true →
    (typePromotion a b).any (fun c => c.isNumericOp && (c.isFloating == (a.isFloating || b.isFloating))) = true := by
  decide

theorem promo_float {a b : DT} (ha : a.isNumericOp = true) (hb : b.isNumericOp = true) :
    ∃ c, typePromotion a b = some c ∧ c.isNumericOp = true ∧ c.isFloating = (a.isFloating || b.isFloating) := by
  have := promo_float_tab a (DT.mem_all a) b (DT.mem_all b) ha hb
  cases h : typePromotion a b with
  | none => rw [h] at this; cases this
  | some c => rw [h] at this; exact ⟨c, rfl, by simpa using this⟩

theorem numericOf_op {t : Term} {d : DT} {x : Rat} {s : Nat} (h : numericOf t = some (d, x, s)) :
    d.isNumericOp = true := by
  cases t <;> simp only [numericOf, reduceCtorEq] at h
  rename_i d' v sc
  by_cases e : d'.isNumericOp = true
  · simp only [e, if_true, Option.some.injEq, Prod.mk.injEq] at h
    rw [← h.1]; exact e
  · simp [e] at h

theorem promoteAll_base : ∀ (ds : List DT) (d : DT), d ∈ numericBase → (∀ x ∈ ds, x.isNumericOp = true) →
    promoteAll d ds ∈ numericBase := by
  intro ds
  induction ds with
  | nil => intro d h _; exact h
  | cons x xs ih =>
    intro d h hx
    simp only [promoteAll]
    obtain ⟨c, hc, hcb⟩ := promo_closed h (hx x List.mem_cons_self)
    rw [hc]
    exact ih c hcb (fun y hy => hx y (List.mem_cons_of_mem _ hy))

theorem numTerms_snoc (a : AggSpec) (rows : List Row) (r : Row) :
    numTerms a (rows ++ [r]) = numTerms a rows ++
      (match evalE a.arg r with
       | some t => if (numericOf t).isSome then [t] else []
       | none => []) := by
  simp only [numTerms, argVals_snoc, List.filter_append]
  cases evalE a.arg r with
  | none => rfl
  | some t => by_cases h : (numericOf t).isSome = true <;> simp [h]

theorem numArgs_ops (a : AggSpec) (rows : List Row) : ∀ n ∈ numArgs a rows, n.1.isNumericOp = true := by
  intro n hn
  simp only [numArgs, List.mem_filterMap] at hn
  obtain ⟨t, _, ht⟩ := hn
  obtain ⟨d, x, s⟩ := n
  exact numericOf_op ht

/-- the datatype a running SUM carries: none before the first numeric value -/
def sumDT (ns : List (DT × Rat × Nat)) : Option DT :=
  if ns = [] then none else some (promoteAll .integer (ns.map (·.1)))

theorem sumDT_getD (ns : List (DT × Rat × Nat)) : (sumDT ns).getD .integer = promoteAll .integer (ns.map (·.1)) := by
  unfold sumDT
  by_cases h : ns = []
  · subst h; rfl
  · simp [h]

/-! ### the running sum, left to right -/

theorem foldl_sumStep_fst : ∀ (ns : List (DT × Rat × Nat)) (acc : Bool × Rat),
    (ns.foldl sumStep acc).1 = (acc.1 || (ns.map (·.1)).any DT.isFloating) := by
  intro ns
  induction ns with
  | nil => intro acc; simp
  | cons n ns ih => intro acc; simp [List.foldl_cons, ih, sumStep, Bool.or_assoc]

theorem sumLR_snoc (ns : List (DT × Rat × Nat)) (n : DT × Rat × Nat) :
    sumLR (ns ++ [n]) = addNum ((ns.map (·.1)).any DT.isFloating || n.1.isFloating) (sumLR ns) n.2.1 := by
  simp only [sumLR, List.foldl_append, List.foldl_cons, List.foldl_nil, sumStep, foldl_sumStep_fst, Bool.false_or]

/-- without xsd:double / xsd:float operands the running sum is the exact sum -/
theorem foldl_sumStep_exact : ∀ (ns : List (DT × Rat × Nat)) (v : Rat), (ns.map (·.1)).any DT.isFloating = false →
    (ns.foldl sumStep (false, v)).2 = v + sumRat (ns.map (·.2.1)) := by
  intro ns
  induction ns with
  | nil => intro v _; simp [sumRat, Rat.add_zero]
  | cons n ns ih =>
    intro v h
    simp only [List.map_cons, List.any_cons, Bool.or_eq_false_iff] at h
    simp only [List.foldl_cons, sumStep, Bool.false_or, h.1, addNum, Bool.false_eq_true, if_false, List.map_cons, sumRat]
    rw [ih _ h.2, Rat.add_assoc]

theorem sumLR_exact (ns : List (DT × Rat × Nat)) (h : (ns.map (·.1)).any DT.isFloating = false) :
    sumLR ns = sumRat (ns.map (·.2.1)) := by
  rw [sumLR, foldl_sumStep_exact ns 0 h, Rat.zero_add]

theorem roundF_neg (v : Rat) : F.roundF (-v) = - F.roundF v := by
  unfold F.roundF
  have hn : (-v).num = -v.num := Rat.neg_num v
  have hd : (-v).den = v.den := Rat.neg_den v
  rw [hn, hd, Int.natAbs_neg]
  by_cases h0 : v.num = 0
  · simp [h0, F.roundPQ, F.meRat]
  · by_cases h : v.num < 0
    · have h' : ¬ (-v.num < 0) := by omega
      rw [if_neg h', if_pos h, Rat.neg_neg]
    · have h' : -v.num < 0 := by omega
      rw [if_pos h', if_neg h]

theorem numericBase_op : ∀ d ∈ numericBase, d.isNumericOp = true := by decide

/-- the running datatype of a SUM is floating iff some operand was -/
theorem promoteAll_floating : ∀ (ds : List DT) (d : DT), d ∈ numericBase → (∀ x ∈ ds, x.isNumericOp = true) →
    (promoteAll d ds).isFloating = (d.isFloating || ds.any DT.isFloating) := by
  intro ds
  induction ds with
  | nil => intro d _ _; simp [promoteAll]
  | cons x xs ih =>
    intro d h hx
    simp only [promoteAll]
    obtain ⟨c, hc, hcb⟩ := promo_closed h (hx x List.mem_cons_self)
    obtain ⟨c', hc', _, hfl⟩ := promo_float (numericBase_op d h) (hx x List.mem_cons_self)
    rw [hc] at hc'; cases hc'
    rw [hc, Option.getD_some, ih c hcb (fun y hy => hx y (List.mem_cons_of_mem _ hy)), hfl]
    simp [Bool.or_assoc]

/-! ### SUM -/

theorem sum_inv (a : AggSpec) (hk : a.kind = .sum) (rows : List Row) :
    ∃ seen, accRun a rows = .sum (sumLR (numArgs a rows)) (maxScale ((numArgs a rows).map (·.2.2)))
        (sumDT (numArgs a rows)) seen ∧ (a.dist = true → ∀ t, t ∈ seen ↔ t ∈ numTerms a rows) := by
  refine accRun_induction a (fun rows st => ∃ seen, st = .sum (sumLR (numArgs a rows))
      (maxScale ((numArgs a rows).map (·.2.2))) (sumDT (numArgs a rows)) seen ∧
      (a.dist = true → ∀ t, t ∈ seen ↔ t ∈ numTerms a rows)) ?_ ?_ rows
  · have e0 : numTerms a [] = [] := rfl
    exact ⟨[], by simp [initAcc, hk, numArgs, e0, dedupIf, firstOcc, sumLR, maxScale, sumDT],
      fun _ t => by simp [e0]⟩
  · rintro rows r st ⟨seen, rfl, hseen⟩
    have hops := numArgs_ops a rows
    simp only [AccSt.update]
    cases he : evalE a.arg r with
    | none =>
      have e1 : numTerms a (rows ++ [r]) = numTerms a rows := by simp [numTerms_snoc, he]
      refine ⟨seen, ?_, ?_⟩
      · simp [numArgs, e1]
      · simpa [e1] using hseen
    | some t =>
      simp only
      cases hn : numericOf t with
      | none =>
        have e1 : numTerms a (rows ++ [r]) = numTerms a rows := by simp [numTerms_snoc, he, hn]
        refine ⟨seen, ?_, ?_⟩
        · by_cases hc : (a.dist && seen.contains t) = true <;> simp [hc, numArgs, e1]
        · simpa [e1] using hseen
      | some n =>
        obtain ⟨d, x, s⟩ := n
        have hd_op := numericOf_op hn
        have hbase : promoteAll .integer ((numArgs a rows).map (·.1)) ∈ numericBase :=
          promoteAll_base _ _ (by decide) (by
            intro y hy
            obtain ⟨n, hn', rfl⟩ := List.mem_map.1 hy
            exact hops n hn')
        obtain ⟨c, hc, hcb⟩ := promo_closed hbase hd_op
        have hcf : c.isFloating = (((numArgs a rows).map (·.1)).any DT.isFloating || d.isFloating) := by
          obtain ⟨c', hc', _, hfl⟩ := promo_float (numericBase_op _ hbase) hd_op
          rw [hc] at hc'; cases hc'
          rw [hfl, promoteAll_floating _ _ (by decide) (by
            intro y hy
            obtain ⟨n, hn', rfl⟩ := List.mem_map.1 hy
            exact hops n hn')]
          rfl
        have hsome : (numericOf t).isSome = true := by simp [hn]
        have happ : numTerms a (rows ++ [r]) = numTerms a rows ++ [t] := by simp [numTerms_snoc, he, hsome]
        have hfm : ∀ xs : List Term, (xs ++ [t]).filterMap numericOf = xs.filterMap numericOf ++ [(d, x, s)] := by
          intro xs; simp [List.filterMap_append, hn]
        have step : ∀ seen', .sum (addNum c.isFloating (sumLR (numArgs a rows)) x) (max (maxScale ((numArgs a rows).map (·.2.2))) s)
            (some c) seen' = AccSt.sum (sumLR ((numArgs a rows) ++ [(d, x, s)]))
              (maxScale (((numArgs a rows) ++ [(d, x, s)]).map (·.2.2))) (sumDT ((numArgs a rows) ++ [(d, x, s)])) seen' := by
          intro seen'
          rw [sumLR_snoc, ← hcf]
          simp only [List.map_append, List.map_cons, List.map_nil, maxScale_snoc, sumDT,
            List.append_eq_nil_iff, List.cons_ne_self, and_false, if_false, promoteAll_snoc, hc, Option.getD_some,
            reduceCtorEq]
        cases hd : a.dist with
        | false =>
          refine ⟨seen, ?_, fun h => by cases h⟩
          have e1 : numArgs a (rows ++ [r]) = numArgs a rows ++ [(d, x, s)] := by
            simp only [numArgs, hd, dedupIf, Bool.false_eq_true, if_false]
            rw [happ, hfm]
          simp only [hd, Bool.false_and, Bool.false_eq_true, if_false, sumDT_getD, hc, addSeen, e1]
          exact step seen
        | true =>
          have hseen' := hseen hd
          by_cases hm : t ∈ numTerms a rows
          · have hin : t ∈ seen := (hseen' t).2 hm
            refine ⟨seen, ?_, fun _ u => ?_⟩
            · have e1 : numArgs a (rows ++ [r]) = numArgs a rows := by
                simp only [numArgs, hd, dedupIf, if_true]
                rw [happ, firstOcc_snoc, if_pos hm]
              simp [hin, e1]
            · rw [happ]
              simp only [List.mem_append, List.mem_cons, List.not_mem_nil, or_false, hseen' u]
              constructor
              · exact Or.inl
              · rintro (h | rfl); exact h; exact hm
          · have hin : t ∉ seen := fun h => hm ((hseen' t).1 h)
            refine ⟨t :: seen, ?_, fun _ u => ?_⟩
            · have e1 : numArgs a (rows ++ [r]) = numArgs a rows ++ [(d, x, s)] := by
                simp only [numArgs, hd, dedupIf, if_true]
                rw [happ, firstOcc_snoc, if_neg hm, hfm]
              simp only [hd, Bool.true_and, List.contains_eq_mem, hin, decide_false, Bool.false_eq_true, if_false,
                sumDT_getD, hc, addSeen, if_true, e1]
              exact step (t :: seen)
            · rw [happ]
              simp only [List.mem_cons, List.mem_append, List.not_mem_nil, or_false, hseen' u]
              constructor
              · rintro (rfl | h); exact Or.inr rfl; exact Or.inl h
              · rintro (h | rfl); exact Or.inr h; exact Or.inl rfl

/-! ### AVG -/

/-- what the running datatype of an AVG says about the values seen so far -/
def AvgDT (ns : List (DT × Rat × Nat)) (dt : Option DT) : Prop :=
  (ns = [] → dt = none) ∧
  (ns ≠ [] → ∃ d0, dt = some d0 ∧ d0.isNumericOp = true ∧ d0.isFloating = (ns.map (·.1)).any DT.isFloating)

theorem avg_inv (a : AggSpec) (hk : a.kind = .avg) (rows : List Row) :
    ∃ seen dt, accRun a rows = .avg (sumLR (numArgs a rows)) (maxScale ((numArgs a rows).map (·.2.2)))
        (numArgs a rows).length dt seen ∧
      AvgDT (numArgs a rows) dt ∧ (a.dist = true → ∀ t, t ∈ seen ↔ t ∈ numTerms a rows) := by
  refine accRun_induction a (fun rows st => ∃ seen dt, st = .avg (sumLR (numArgs a rows))
      (maxScale ((numArgs a rows).map (·.2.2))) (numArgs a rows).length dt seen ∧ AvgDT (numArgs a rows) dt ∧
      (a.dist = true → ∀ t, t ∈ seen ↔ t ∈ numTerms a rows)) ?_ ?_ rows
  · have e0 : numTerms a [] = [] := rfl
    refine ⟨[], none, by simp [initAcc, hk, numArgs, e0, dedupIf, firstOcc, sumLR, maxScale], ?_, fun _ t => by simp [e0]⟩
    simp [AvgDT, numArgs, e0, dedupIf, firstOcc]
  · rintro rows r st ⟨seen, dt, rfl, hdt, hseen⟩
    simp only [AccSt.update]
    cases he : evalE a.arg r with
    | none =>
      have e1 : numTerms a (rows ++ [r]) = numTerms a rows := by simp [numTerms_snoc, he]
      have e2 : numArgs a (rows ++ [r]) = numArgs a rows := by simp [numArgs, e1]
      exact ⟨seen, dt, by simp [e2], by simpa [e2] using hdt, by simpa [e1] using hseen⟩
    | some t =>
      simp only
      cases hn : numericOf t with
      | none =>
        have e1 : numTerms a (rows ++ [r]) = numTerms a rows := by simp [numTerms_snoc, he, hn]
        have e2 : numArgs a (rows ++ [r]) = numArgs a rows := by simp [numArgs, e1]
        refine ⟨seen, dt, ?_, by simpa [e2] using hdt, by simpa [e1] using hseen⟩
        by_cases hc : (a.dist && seen.contains t) = true <;> simp [hc, e2]
      | some n =>
        obtain ⟨d, x, s⟩ := n
        have hd_op := numericOf_op hn
        have hsome : (numericOf t).isSome = true := by simp [hn]
        have happ : numTerms a (rows ++ [r]) = numTerms a rows ++ [t] := by simp [numTerms_snoc, he, hsome]
        have hfm : ∀ xs : List Term, (xs ++ [t]).filterMap numericOf = xs.filterMap numericOf ++ [(d, x, s)] := by
          intro xs; simp [List.filterMap_append, hn]
        -- the new running datatype
        have hnew : ∃ c, avgNextDT dt d = some c ∧
            AvgDT (numArgs a rows ++ [(d, x, s)]) (some c) := by
          by_cases hnil : numArgs a rows = []
          · have := hdt.1 hnil
            subst this
            refine ⟨d, rfl, fun h => by simp at h, fun _ => ⟨d, rfl, hd_op, ?_⟩⟩
            simp [hnil]
          · obtain ⟨d0, rfl, h0, hfl⟩ := hdt.2 hnil
            obtain ⟨c, hc, hcop, hcfl⟩ := promo_float h0 hd_op
            refine ⟨c, hc, fun h => by simp at h, fun _ => ⟨c, rfl, hcop, ?_⟩⟩
            rw [hcfl, hfl]
            simp [List.any_append]
        obtain ⟨c, hc, hcdt⟩ := hnew
        have step : ∀ seen', AccSt.avg (addNum c.isFloating (sumLR (numArgs a rows)) x)
            (max (maxScale ((numArgs a rows).map (·.2.2))) s) ((numArgs a rows).length + 1)
            (some c) seen' = .avg (sumLR ((numArgs a rows) ++ [(d, x, s)]))
              (maxScale (((numArgs a rows) ++ [(d, x, s)]).map (·.2.2)))
              ((numArgs a rows) ++ [(d, x, s)]).length (some c) seen' := by
          intro seen'
          have hcf : c.isFloating = (((numArgs a rows).map (·.1)).any DT.isFloating || d.isFloating) := by
            obtain ⟨d0, h0, _, hfl⟩ := hcdt.2 (by simp)
            cases h0
            rw [hfl]; simp [List.any_append]
          rw [sumLR_snoc, ← hcf]
          simp only [List.map_append, List.map_cons, List.map_nil, maxScale_snoc, List.length_append,
            List.length_cons, List.length_nil]
        cases hd : a.dist with
        | false =>
          have e1 : numArgs a (rows ++ [r]) = numArgs a rows ++ [(d, x, s)] := by
            simp only [numArgs, hd, dedupIf, Bool.false_eq_true, if_false]
            rw [happ, hfm]
          refine ⟨seen, some c, ?_, by rw [e1]; exact hcdt, fun h => by cases h⟩
          simp only [hd, Bool.false_and, Bool.false_eq_true, if_false, addSeen, e1]
          rw [hc]
          exact step seen
        | true =>
          have hseen' := hseen hd
          by_cases hm : t ∈ numTerms a rows
          · have hin : t ∈ seen := (hseen' t).2 hm
            have e1 : numArgs a (rows ++ [r]) = numArgs a rows := by
              simp only [numArgs, hd, dedupIf, if_true]
              rw [happ, firstOcc_snoc, if_pos hm]
            refine ⟨seen, dt, by simp [hin, e1], by rw [e1]; exact hdt, fun _ u => ?_⟩
            rw [happ]
            simp only [List.mem_append, List.mem_cons, List.not_mem_nil, or_false, hseen' u]
            constructor
            · exact Or.inl
            · rintro (h | rfl); exact h; exact hm
          · have hin : t ∉ seen := fun h => hm ((hseen' t).1 h)
            have e1 : numArgs a (rows ++ [r]) = numArgs a rows ++ [(d, x, s)] := by
              simp only [numArgs, hd, dedupIf, if_true]
              rw [happ, firstOcc_snoc, if_neg hm, hfm]
            refine ⟨t :: seen, some c, ?_, by rw [e1]; exact hcdt, fun _ u => ?_⟩
            · simp only [hd, Bool.true_and, List.contains_eq_mem, hin, decide_false, Bool.false_eq_true, if_false,
                addSeen, if_true, e1]
              rw [hc]
              exact step (t :: seen)
            · rw [happ]
              simp only [List.mem_cons, List.mem_append, List.not_mem_nil, or_false, hseen' u]
              constructor
              · rintro (rfl | h); exact Or.inr rfl; exact Or.inl h
              · rintro (h | rfl); exact Or.inr h; exact Or.inl rfl

/-! ### MIN / MAX -/

theorem min_step {lt : α → α → Bool} {S : α → Prop} (sw : StrictWeak lt S) {m t : α} {vals : List α}
    (hS : ∀ u ∈ vals, S u) (ht : S t) (hm : m ∈ vals ∧ ∀ u ∈ vals, lt u m = false) :
    (if lt t m then t else m) ∈ vals ++ [t] ∧ ∀ u ∈ vals ++ [t], lt u (if lt t m then t else m) = false := by
  have hmS : S m := hS m hm.1
  have irr : ∀ x, S x → lt x x = false := by
    intro x hx
    cases h : lt x x with
    | false => rfl
    | true => have := sw.asymm x x hx hx h; rw [h] at this; cases this
  cases h : lt t m with
  | true =>
    simp only [if_true]
    refine ⟨by simp, ?_⟩
    intro u hu
    rcases List.mem_append.1 hu with hu | hu
    · cases hut : lt u t with
      | false => rfl
      | true =>
        have := sw.lt_of_lt_of_not_lt (hS u hu) ht hmS hut (sw.asymm t m ht hmS h)
        rw [hm.2 u hu] at this; cases this
    · simp only [List.mem_cons, List.not_mem_nil, or_false] at hu
      subst hu; exact irr u ht
  | false =>
    simp only [Bool.false_eq_true, if_false]
    refine ⟨by simp [hm.1], ?_⟩
    intro u hu
    rcases List.mem_append.1 hu with hu | hu
    · exact hm.2 u hu
    · simp only [List.mem_cons, List.not_mem_nil, or_false] at hu
      subst hu; exact h

/-- every argument value is a key on which the comparison is consistent -/
def ValsOkAt (wd : Bool) (a : AggSpec) (rows : List Row) : Prop := ∀ t ∈ argVals a rows, okKey wd (some t) = true

theorem valsOk_prefix {wd : Bool} {a : AggSpec} {rows : List Row} {r : Row} (h : ValsOkAt wd a (rows ++ [r])) : ValsOkAt wd a rows := by
  intro t ht
  apply h t
  rw [argVals_snoc]
  exact List.mem_append_left _ ht

theorem strictWeak_termKey (wd : Bool) :
    StrictWeak (fun x y : Term => keyLt (some x) (some y)) (fun t => okKey wd (some t) = true) :=
  ⟨fun a b ha hb h => (strictWeak_keyLt wd).asymm _ _ ha hb h,
   fun a b c ha hb hc h1 h2 => (strictWeak_keyLt wd).ntrans _ _ _ ha hb hc h1 h2⟩

theorem min_inv (wd : Bool) (a : AggSpec) (hk : a.kind = .min) : ∀ rows : List Row, ValsOkAt wd a rows →
    (argVals a rows = [] ∧ accRun a rows = .ext none) ∨ (∃ m, accRun a rows = .ext (some m) ∧ IsMinOf m (argVals a rows)) := by
  refine accRun_induction a (fun rows st => ValsOkAt wd a rows →
    (argVals a rows = [] ∧ st = .ext none) ∨ (∃ m, st = .ext (some m) ∧ IsMinOf m (argVals a rows))) ?_ ?_
  · intro _; exact Or.inl ⟨rfl, by simp [initAcc, hk]⟩
  · intro rows r st ih hok
    have ih' := ih (valsOk_prefix hok)
    cases he : evalE a.arg r with
    | none =>
      have e1 : argVals a (rows ++ [r]) = argVals a rows := by simp [argVals_snoc, he]
      rw [e1]
      rcases ih' with ⟨h1, rfl⟩ | ⟨m, rfl, h2⟩
      · exact Or.inl ⟨h1, by simp [AccSt.update, he]⟩
      · exact Or.inr ⟨m, by simp [AccSt.update, he], h2⟩
    | some t =>
      have e1 : argVals a (rows ++ [r]) = argVals a rows ++ [t] := by simp [argVals_snoc, he]
      have ht : okKey wd (some t) = true := hok t (by rw [e1]; simp)
      rw [e1]
      right
      rcases ih' with ⟨h1, rfl⟩ | ⟨m, rfl, h2⟩
      · refine ⟨t, by simp [AccSt.update, he], ?_⟩
        rw [h1]
        refine ⟨by simp, ?_⟩
        intro u hu
        simp only [List.nil_append, List.mem_cons, List.not_mem_nil, or_false] at hu
        subst hu
        rw [keyLt_eq]; simp [keyInner, termLt_irrefl]
      · have := min_step (strictWeak_termKey wd) (m := m) (t := t) (vals := argVals a rows)
          (fun u hu => valsOk_prefix hok u hu) ht h2
        refine ⟨if keyLt (some t) (some m) then t else m, ?_, this⟩
        simp [AccSt.update, he, hk]

theorem max_inv (wd : Bool) (a : AggSpec) (hk : a.kind = .max) : ∀ rows : List Row, ValsOkAt wd a rows →
    (argVals a rows = [] ∧ accRun a rows = .ext none) ∨ (∃ m, accRun a rows = .ext (some m) ∧ IsMaxOf m (argVals a rows)) := by
  refine accRun_induction a (fun rows st => ValsOkAt wd a rows →
    (argVals a rows = [] ∧ st = .ext none) ∨ (∃ m, st = .ext (some m) ∧ IsMaxOf m (argVals a rows))) ?_ ?_
  · intro _; exact Or.inl ⟨rfl, by simp [initAcc, hk]⟩
  · intro rows r st ih hok
    have ih' := ih (valsOk_prefix hok)
    cases he : evalE a.arg r with
    | none =>
      have e1 : argVals a (rows ++ [r]) = argVals a rows := by simp [argVals_snoc, he]
      rw [e1]
      rcases ih' with ⟨h1, rfl⟩ | ⟨m, rfl, h2⟩
      · exact Or.inl ⟨h1, by simp [AccSt.update, he]⟩
      · exact Or.inr ⟨m, by simp [AccSt.update, he], h2⟩
    | some t =>
      have e1 : argVals a (rows ++ [r]) = argVals a rows ++ [t] := by simp [argVals_snoc, he]
      have ht : okKey wd (some t) = true := hok t (by rw [e1]; simp)
      rw [e1]
      right
      rcases ih' with ⟨h1, rfl⟩ | ⟨m, rfl, h2⟩
      · refine ⟨t, by simp [AccSt.update, he], ?_⟩
        rw [h1]
        refine ⟨by simp, ?_⟩
        intro u hu
        simp only [List.nil_append, List.mem_cons, List.not_mem_nil, or_false] at hu
        subst hu
        rw [keyLt_eq]; simp [keyInner, termLt_irrefl]
      · have hmok : okKey wd (some m) = true := valsOk_prefix hok m h2.1
        have := min_step ((strictWeak_termKey wd).flip) (m := m) (t := t) (vals := argVals a rows)
          (fun u hu => valsOk_prefix hok u hu) ht h2
        refine ⟨if keyLt (some m) (some t) then t else m, ?_, this⟩
        have hne : (a.kind == AggK.min) = false := by rw [hk]; rfl
        simp [AccSt.update, he, hne, keyGt_flip wd _ _ ht hmok]

/-- every argument value is a key on which the comparison is consistent: either without xsd:date / xsd:dateTime
    values (numeric datatype URIs between xsd:boolean and xsd:string), or with them (… between xsd:dateTime and xsd:string) -/
def ValsOk (a : AggSpec) (rows : List Row) : Prop := ValsOkAt false a rows ∨ ValsOkAt true a rows

/-! ### the fraction digits of a terminating quotient -/

theorem decScaleAux_some (v : Rat) : ∀ (f s m : Nat), decScaleAux v f s = some m →
    s ≤ m ∧ m < s + f ∧ (v * ((pow10 m : Nat) : Rat)).den = 1 ∧
    ∀ j, s ≤ j → j < m → (v * ((pow10 j : Nat) : Rat)).den ≠ 1 := by
  intro f
  induction f with
  | zero => intro s m h; simp [decScaleAux] at h
  | succ f ih =>
    intro s m h
    simp only [decScaleAux] at h
    by_cases hd : (v * ((pow10 s : Nat) : Rat)).den = 1
    · simp only [hd, beq_self_eq_true, if_true, Option.some.injEq] at h
      subst h
      exact ⟨Nat.le_refl _, by omega, hd, fun j h1 h2 => by omega⟩
    · have hb : ((v * ((pow10 s : Nat) : Rat)).den == 1) = false := by simpa using hd
      simp only [hb, Bool.false_eq_true, if_false] at h
      obtain ⟨h1, h2, h3, h4⟩ := ih (s + 1) m h
      refine ⟨by omega, by omega, h3, fun j hj1 hj2 => ?_⟩
      by_cases e : j = s
      · subst e; exact hd
      · exact h4 j (by omega) hj2

theorem decScaleAux_none (v : Rat) : ∀ (f s : Nat), decScaleAux v f s = none →
    ∀ j, s ≤ j → j < s + f → (v * ((pow10 j : Nat) : Rat)).den ≠ 1 := by
  intro f
  induction f with
  | zero => intro s _ j h1 h2; omega
  | succ f ih =>
    intro s h j h1 h2
    simp only [decScaleAux] at h
    by_cases hd : (v * ((pow10 s : Nat) : Rat)).den = 1
    · simp [hd] at h
    · have hb : ((v * ((pow10 s : Nat) : Rat)).den == 1) = false := by simpa using hd
      simp only [hb, Bool.false_eq_true, if_false] at h
      by_cases e : j = s
      · subst e; exact hd
      · exact ih (s + 1) h j (by omega) (by omega)

end RV.C08
