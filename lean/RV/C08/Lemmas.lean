import RV.C08.LemSort
import RV.C08.LemOrder
import RV.C08.LemChain
import RV.C08.LemMods
import RV.C08.LemAgg
import RV.C08.LemAcc
import RV.C08.LemRewrite
import RV.C08.LemCal
/-  C08 — helper lemmas, split over LemSort (stable sort), LemOrder (key comparison is a strict weak
    order), LemChain (chain of sorts, SPARQL refinement), LemMods (slice/distinct/reduced/project),
    LemAgg (grouping), LemAcc (accumulators), LemRewrite (translateAggregates), LemCal (CPython calendar ordinals). -/
