import RV.C08.Props
open RV.C08
#print axioms type_promotion_table
#print axioms rank_tables
#print axioms slice_spec
#print axioms distinct_spec
#print axioms reduced_between
#print axioms project_spec
#print axioms stable_sort_chain
#print axioms orderby_spec_partial
#print axioms orderby_spec_witness
#print axioms slice_of_ordered
