import RV.C08.Props
open RV.C08
#print axioms type_promotion_table
#print axioms rank_tables
#print axioms slice_spec
#print axioms distinct_spec
#print axioms reduced_between
#print axioms project_spec
#print axioms stable_sort_chain
#print axioms orderby_spec_partial
#print axioms orderby_spec_witness
#print axioms slice_of_ordered
#print axioms group_partition
#print axioms implicit_group_single_row
#print axioms count_spec
#print axioms sum_spec
#print axioms avg_spec
#print axioms min_spec_partial
#print axioms max_spec_partial
#print axioms min_spec_witness
#print axioms max_spec_witness
#print axioms sample_spec
#print axioms sample_of_group_key
#print axioms groupconcat_spec
#print axioms empty_group_values
#print axioms having_filters_groups
#print axioms query_stages
#print axioms rewrite_correct
