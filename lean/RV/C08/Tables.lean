/- GENERATED on every run by harness/c08.py TABLES() from rdflib.plugins.sparql.datatypes, rdflib.term,
   rdflib.plugins.sparql.evalutils, rdflib.plugins.sparql.operators, rdflib.plugins.sparql.aggregates — do not edit. -/
namespace RV.C08

/-- XSD datatypes that occur in the numeric tables, plus boolean and string -/
inductive DT
  | integer | decimal | float | double | boolean | byte | int | long | negativeInteger | nonNegativeInteger | nonPositiveInteger | positiveInteger | short | string | unsignedByte | unsignedInt | unsignedLong | unsignedShort
  deriving DecidableEq, Repr

def DT.all : List DT := [.integer, .decimal, .float, .double, .boolean, .byte, .int, .long, .negativeInteger, .nonNegativeInteger, .nonPositiveInteger, .positiveInteger, .short, .string, .unsignedByte, .unsignedInt, .unsignedLong, .unsignedShort]

def DT.name : DT → String
  | .integer => "integer"
  | .decimal => "decimal"
  | .float => "float"
  | .double => "double"
  | .boolean => "boolean"
  | .byte => "byte"
  | .int => "int"
  | .long => "long"
  | .negativeInteger => "negativeInteger"
  | .nonNegativeInteger => "nonNegativeInteger"
  | .nonPositiveInteger => "nonPositiveInteger"
  | .positiveInteger => "positiveInteger"
  | .short => "short"
  | .string => "string"
  | .unsignedByte => "unsignedByte"
  | .unsignedInt => "unsignedInt"
  | .unsignedLong => "unsignedLong"
  | .unsignedShort => "unsignedShort"

def DT.ofName? (s : String) : Option DT := DT.all.find? (fun d => d.name == s)

/-- position of the datatype URI in Python `str` order (Literal.__gt__ orders unlike datatypes by URI) -/
def DT.uriRank : DT → Nat
  | .integer => 6
  | .decimal => 2
  | .float => 4
  | .double => 3
  | .boolean => 0
  | .byte => 1
  | .int => 5
  | .long => 7
  | .negativeInteger => 8
  | .nonNegativeInteger => 9
  | .nonPositiveInteger => 10
  | .positiveInteger => 11
  | .short => 12
  | .string => 13
  | .unsignedByte => 14
  | .unsignedInt => 15
  | .unsignedLong => 16
  | .unsignedShort => 17

/-- rdflib.term._NUMERIC_LITERAL_TYPES -/
def DT.isNumericTerm : DT → Bool
  | .integer => true
  | .decimal => true
  | .float => true
  | .double => true
  | .boolean => false
  | .byte => true
  | .int => true
  | .long => true
  | .negativeInteger => true
  | .nonNegativeInteger => true
  | .nonPositiveInteger => true
  | .positiveInteger => true
  | .short => true
  | .string => false
  | .unsignedByte => true
  | .unsignedInt => true
  | .unsignedLong => true
  | .unsignedShort => true

/-- datatypes accepted by rdflib.plugins.sparql.operators.numeric -/
def DT.isNumericOp : DT → Bool
  | .integer => true
  | .decimal => true
  | .float => true
  | .double => true
  | .boolean => false
  | .byte => true
  | .int => true
  | .long => true
  | .negativeInteger => true
  | .nonNegativeInteger => true
  | .nonPositiveInteger => true
  | .positiveInteger => true
  | .short => true
  | .string => false
  | .unsignedByte => true
  | .unsignedInt => true
  | .unsignedLong => true
  | .unsignedShort => true

/-- datatypes._super_types.get(t, t) -/
def DT.superType : DT → DT
  | .integer => .integer
  | .decimal => .decimal
  | .float => .float
  | .double => .double
  | .boolean => .boolean
  | .byte => .integer
  | .int => .integer
  | .long => .integer
  | .negativeInteger => .integer
  | .nonNegativeInteger => .integer
  | .nonPositiveInteger => .integer
  | .positiveInteger => .integer
  | .short => .integer
  | .string => .string
  | .unsignedByte => .integer
  | .unsignedInt => .integer
  | .unsignedLong => .integer
  | .unsignedShort => .integer

/-- datatypes._typePromotionMap[t1][t2]; none = KeyError -/
def promoMap : DT → DT → Option DT
  | .integer, .decimal => some .decimal
  | .integer, .float => some .float
  | .integer, .double => some .double
  | .decimal, .integer => some .decimal
  | .decimal, .float => some .float
  | .decimal, .double => some .double
  | .float, .integer => some .float
  | .float, .decimal => some .float
  | .float, .double => some .double
  | .double, .integer => some .double
  | .double, .decimal => some .double
  | .double, .float => some .double
  | _, _ => none

/-- evalutils._val kind ranks -/
def rankVariable : Nat := 0
def rankBNode : Nat := 1
def rankIRI : Nat := 2
def rankLiteral : Nat := 3

/-- aggregates.Aggregator.accumulator_classes keys and their classes -/
def accumulatorClasses : List (String × String) := [("Aggregate_Count", "Counter"), ("Aggregate_Sample", "Sample"), ("Aggregate_Sum", "Sum"), ("Aggregate_Avg", "Average"), ("Aggregate_Min", "Minimum"), ("Aggregate_Max", "Maximum"), ("Aggregate_GroupConcat", "GroupConcat")]

end RV.C08
