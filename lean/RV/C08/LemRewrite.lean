import RV.C08.LemAgg
/-
  C08 — `translateAggregates`: replacing aggregates by `__agg_n__` variables (and bare variables by SAMPLE)
  and evaluating on the row AggregateJoin builds for a group = evaluating the expression on the group.
-/
set_option linter.unusedSimpArgs false
set_option linter.unusedVariables false
namespace RV.C08

/-! ### rows -/

theorem Row.get_set (r : Row) (i j : Nat) (v : Val) : (r.set i v).get j = if i = j then v else r.get j := by
  induction r generalizing i j with
  | nil =>
    induction i generalizing j with
    | zero => cases j <;> simp [Row.set, Row.get]
    | succ i ih =>
      cases j with
      | zero => simp [Row.set, Row.get]
      | succ j =>
        have := ih j
        simp only [Row.get, List.getD_eq_getElem?_getD] at this
        simp [Row.set, Row.get, this]
  | cons x xs ih =>
    cases i with
    | zero => cases j <;> simp [Row.set, Row.get]
    | succ i =>
      cases j with
      | zero => simp [Row.set, Row.get]
      | succ j =>
        have := ih i j
        simp only [Row.get, List.getD_eq_getElem?_getD] at this
        simp [Row.set, Row.get, this]

theorem get_emptyRow (w i : Nat) : (emptyRow w).get i = none := by
  simp only [emptyRow, Row.get, List.getD_eq_getElem?_getD]
  by_cases h : i < w
  · simp [h]
  · simp [h]

/-! ### the accumulators do not look at the result variable -/

theorem update_res (a : AggSpec) (n : Nat) (st : AccSt) (r : Row) :
    st.update { a with res := n } r = st.update a r := by
  cases st <;> rfl

theorem aggValue_res (a : AggSpec) (n : Nat) (rows : List Row) : aggValue { a with res := n } rows = aggValue a rows := by
  have h1 : ∀ (rows : List Row) (st : AccSt),
      rows.foldl (fun st r => st.update { a with res := n } r) st = rows.foldl (fun st r => st.update a r) st := by
    intro rows
    induction rows with
    | nil => intro st; rfl
    | cons r rs ih => intro st; simp only [List.foldl_cons, update_res, ih]
  have h2 : initAcc { a with res := n } = initAcc a := rfl
  have h3 : ∀ st : AccSt, st.value { a with res := n } = st.value a := by intro st; cases st <;> rfl
  simp only [aggValue, accRun, h1, h2, h3]

/-! ### well-formed aggregate lists: `__agg_n__` is variable `base + n - 1` -/

def WF (base : Nat) (A : List AggSpec) : Prop := ∀ i a, A[i]? = some a → a.res = base + i

theorem WF.snoc {base : Nat} {A : List AggSpec} (h : WF base A) (a : AggSpec) (ha : a.res = base + A.length) :
    WF base (A ++ [a]) := by
  intro i x hx
  by_cases hi : i < A.length
  · rw [List.getElem?_append_left hi] at hx; exact h i x hx
  · have hi' : A.length ≤ i := Nat.le_of_not_lt hi
    rw [List.getElem?_append_right hi'] at hx
    cases hk : i - A.length with
    | zero =>
      rw [hk] at hx
      simp only [List.getElem?_cons_zero, Option.some.injEq] at hx
      subst hx
      have : i = A.length := by omega
      rw [ha, this]
    | succ k => rw [hk] at hx; simp at hx

theorem aggsE_spec (base : Nat) : ∀ (e : Expr) (A : List AggSpec), WF base A →
    A <+: (aggsE base e A).2 ∧ WF base (aggsE base e A).2 := by
  intro e
  induction e with
  | var v => intro A h; exact ⟨List.prefix_refl _, h⟩
  | const t => intro A h; exact ⟨List.prefix_refl _, h⟩
  | add a b iha ihb =>
    intro A h
    obtain ⟨p1, w1⟩ := iha A h
    obtain ⟨p2, w2⟩ := ihb _ w1
    exact ⟨p1.trans p2, w2⟩
  | sub a b iha ihb =>
    intro A h
    obtain ⟨p1, w1⟩ := iha A h
    obtain ⟨p2, w2⟩ := ihb _ w1
    exact ⟨p1.trans p2, w2⟩
  | cmp op a b iha ihb =>
    intro A h
    obtain ⟨p1, w1⟩ := iha A h
    obtain ⟨p2, w2⟩ := ihb _ w1
    exact ⟨p1.trans p2, w2⟩
  | and a b iha ihb =>
    intro A h
    obtain ⟨p1, w1⟩ := iha A h
    obtain ⟨p2, w2⟩ := ihb _ w1
    exact ⟨p1.trans p2, w2⟩
  | agg k d s arg sep _ =>
    intro A h
    exact ⟨List.prefix_append _ _, h.snoc _ rfl⟩

theorem prefix_getElem? {A B : List AggSpec} (h : A <+: B) {i : Nat} {a : AggSpec} (ha : A[i]? = some a) :
    B[i]? = some a := by
  obtain ⟨t, rfl⟩ := h
  have hi : i < A.length := by
    by_cases hi : i < A.length
    · exact hi
    · rw [List.getElem?_eq_none (Nat.le_of_not_lt hi)] at ha; cases ha
  rw [List.getElem?_append_left hi]; exact ha

/-- the row carries, at every `__agg_n__` position, the value of that aggregate over the group -/
def Carries (base : Nat) (A : List AggSpec) (rows : List Row) (g : Row) : Prop :=
  ∀ i a, A[i]? = some a → g.get (base + i) = aggValue a rows

/-- rewrite_correct for one expression -/
theorem aggsE_eval (base : Nat) (keep : List Nat) (rows : List Row) (g : Row) (A : List AggSpec)
    (hc : Carries base A rows g) : ∀ (e : Expr) (A0 : List AggSpec), WF base A0 →
      (aggsE base (sampleE keep e) A0).2 <+: A →
      evalE (aggsE base (sampleE keep e) A0).1 g = evalG keep rows g e := by
  intro e
  induction e with
  | var v =>
    intro A0 h0 hp
    by_cases hk : keep.contains v = true
    · simp only [sampleE, hk, if_true, aggsE, evalE, evalG]
    · have hk' : keep.contains v = false := by simpa using hk
      simp only [sampleE, hk', Bool.false_eq_true, if_false, aggsE, evalE, evalG] at hp ⊢
      have hget : (A0 ++ [(⟨.sample, false, false, .var v, none, base + A0.length⟩ : AggSpec)])[A0.length]? =
          some ⟨.sample, false, false, .var v, none, base + A0.length⟩ := by simp
      rw [hc _ _ (prefix_getElem? hp hget)]
      exact aggValue_res ⟨.sample, false, false, .var v, none, 0⟩ (base + A0.length) rows
  | const t => intro A0 _ _; rfl
  | add a b iha ihb =>
    intro A0 h0 hp
    simp only [sampleE, aggsE] at hp ⊢
    have s1 := aggsE_spec base (sampleE keep a) A0 h0
    have s2 := aggsE_spec base (sampleE keep b) _ s1.2
    simp only [evalE, evalG]
    rw [iha A0 h0 (s2.1.trans hp), ihb _ s1.2 hp]
  | sub a b iha ihb =>
    intro A0 h0 hp
    simp only [sampleE, aggsE] at hp ⊢
    have s1 := aggsE_spec base (sampleE keep a) A0 h0
    have s2 := aggsE_spec base (sampleE keep b) _ s1.2
    simp only [evalE, evalG]
    rw [iha A0 h0 (s2.1.trans hp), ihb _ s1.2 hp]
  | cmp op a b iha ihb =>
    intro A0 h0 hp
    simp only [sampleE, aggsE] at hp ⊢
    have s1 := aggsE_spec base (sampleE keep a) A0 h0
    have s2 := aggsE_spec base (sampleE keep b) _ s1.2
    simp only [evalE, evalG]
    rw [iha A0 h0 (s2.1.trans hp), ihb _ s1.2 hp]
  | and a b iha ihb =>
    intro A0 h0 hp
    simp only [sampleE, aggsE] at hp ⊢
    have s1 := aggsE_spec base (sampleE keep a) A0 h0
    have s2 := aggsE_spec base (sampleE keep b) _ s1.2
    simp only [evalE, evalG]
    rw [iha A0 h0 (s2.1.trans hp), ihb _ s1.2 hp]
  | agg k d s arg sep _ =>
    intro A0 h0 hp
    simp only [sampleE, aggsE, evalE, evalG] at hp ⊢
    have hget : (A0 ++ [(⟨k, d, s, arg, sep, base + A0.length⟩ : AggSpec)])[A0.length]? =
        some ⟨k, d, s, arg, sep, base + A0.length⟩ := by simp
    rw [hc _ _ (prefix_getElem? hp hget)]
    exact aggValue_res ⟨k, d, s, arg, sep, 0⟩ (base + A0.length) rows

/-! ### the row AggregateJoin builds carries the values -/

theorem bindAll_get_lt (base : Nat) : ∀ (A : List AggSpec) (sts : List AccSt) (row : Row) (j : Nat),
    (∀ a ∈ A, j < a.res) → (bindAll A sts row).get j = row.get j
  | [], _, row, j, _ => by cases ‹List AccSt› <;> rfl
  | a :: as, [], row, j, _ => rfl
  | a :: as, s :: ss, row, j, h => by
    simp only [bindAll]
    rw [bindAll_get_lt base as ss _ j (fun x hx => h x (List.mem_cons_of_mem _ hx))]
    have hj : a.res ≠ j := by have := h a List.mem_cons_self; omega
    cases s.value a with
    | none => rfl
    | some t => simp [Row.get_set, hj]

theorem bindAll_carries (base : Nat) : ∀ (A : List AggSpec) (sts : List AccSt) (row : Row) (off : Nat),
    (∀ i a, A[i]? = some a → a.res = base + off + i) → sts.length = A.length →
    (∀ i, row.get (base + off + i) = none) →
    ∀ i a s, A[i]? = some a → sts[i]? = some s → (bindAll A sts row).get (base + off + i) = s.value a
  | [], _, _, _, _, _, _, i, a, s, ha, _ => by simp at ha
  | a0 :: as, [], _, _, _, hl, _, _, _, _, _, _ => by simp at hl
  | a0 :: as, s0 :: ss, row, off, hres, hl, hrow, i, a, s, ha, hs => by
    simp only [bindAll]
    have h0 : a0.res = base + off := by simpa using hres 0 a0 rfl
    cases i with
    | zero =>
      simp only [List.getElem?_cons_zero, Option.some.injEq] at ha hs
      subst ha; subst hs
      rw [bindAll_get_lt base as ss _ (base + off + 0)]
      · cases hv : s0.value a0 with
        | none => simpa using hrow 0
        | some t => simp [Row.get_set, h0]
      · intro x hx
        obtain ⟨k, hk⟩ := List.getElem?_of_mem hx
        have := hres (k + 1) x (by simpa using hk)
        omega
    | succ i =>
      simp only [List.getElem?_cons_succ] at ha hs
      have := bindAll_carries base as ss
        (match s0.value a0 with | some t => row.set a0.res (some t) | none => row) (off + 1)
        (fun k x hk => by have := hres (k + 1) x (by simpa using hk); omega)
        (by simpa using hl)
        (fun k => by
          cases hv : s0.value a0 with
          | none => have := hrow (1 + k); simpa [Nat.add_assoc] using this
          | some t =>
            have hne : a0.res ≠ base + (off + 1) + k := by omega
            have := hrow (1 + k)
            simp [Row.get_set, hne]
            simpa [Nat.add_assoc] using this)
        i a s ha hs
      have e : base + off + (i + 1) = base + (off + 1) + i := by omega
      rw [e]; exact this

/-- the row of a group carries the aggregates' values over the group -/
theorem groupRow_carries (base w : Nat) (A : List AggSpec) (hwf : WF base A) (rows : List Row) :
    Carries base A rows (bindAll A (foldAcc A rows) (emptyRow w)) := by
  intro i a ha
  have hs : (foldAcc A rows)[i]? = some (accRun a rows) := by
    rw [foldAcc_eq, List.getElem?_map, ha]; rfl
  have := bindAll_carries base A (foldAcc A rows) (emptyRow w) 0
    (fun k x hk => by have := hwf k x hk; omega) (by simp [foldAcc_eq])
    (fun k => get_emptyRow _ _) i a _ ha hs
  simpa [aggValue] using this

/-! ### `translateAggregates` as a whole -/

theorem rewriteProj_spec (base : Nat) : ∀ (ps : List Proj) (A0 : List AggSpec), WF base A0 →
    A0 <+: (rewriteProj base ps A0).2 ∧ WF base (rewriteProj base ps A0).2 ∧
    ∀ (A : List AggSpec) (rows : List Row) (g : Row), (rewriteProj base ps A0).2 <+: A → Carries base A rows g →
      Forall2 (ProjAgrees rows g) ps (rewriteProj base ps A0).1 := by
  intro ps
  induction ps with
  | nil => intro A0 h; exact ⟨List.prefix_refl _, h, fun _ _ _ _ _ => Forall2.nil⟩
  | cons p ps ih =>
    intro A0 h
    cases p with
    | var v =>
      obtain ⟨p1, w1, f1⟩ := ih A0 h
      refine ⟨p1, w1, fun A rows g hp hc => Forall2.cons rfl (f1 A rows g hp hc)⟩
    | expr v e =>
      have s1 := aggsE_spec base (sampleE [v] e) A0 h
      obtain ⟨p1, w1, f1⟩ := ih _ s1.2
      refine ⟨s1.1.trans p1, w1, fun A rows g hp hc => Forall2.cons ⟨rfl, ?_⟩ (f1 A rows g hp hc)⟩
      exact aggsE_eval base [v] rows g A hc e A0 h (p1.trans hp)

theorem rewriteOrder_spec (base : Nat) (keep : List Nat) : ∀ (ks : List (Expr × Bool)) (A0 : List AggSpec), WF base A0 →
    A0 <+: (rewriteOrder base keep ks A0).2 ∧ WF base (rewriteOrder base keep ks A0).2 ∧
    ∀ (A : List AggSpec) (rows : List Row) (g : Row), (rewriteOrder base keep ks A0).2 <+: A → Carries base A rows g →
      Forall2 (KeyAgrees keep rows g) ks (rewriteOrder base keep ks A0).1 := by
  intro ks
  induction ks with
  | nil => intro A0 h; exact ⟨List.prefix_refl _, h, fun _ _ _ _ _ => Forall2.nil⟩
  | cons k ks ih =>
    intro A0 h
    obtain ⟨e, d⟩ := k
    have s1 := aggsE_spec base (sampleE keep e) A0 h
    obtain ⟨p1, w1, f1⟩ := ih _ s1.2
    refine ⟨s1.1.trans p1, w1, fun A rows g hp hc => Forall2.cons ⟨rfl, ?_⟩ (f1 A rows g hp hc)⟩
    exact aggsE_eval base keep rows g A hc e A0 h (p1.trans hp)

theorem sampleVars_spec (base : Nat) : ∀ (ps : List Proj) (A0 : List AggSpec), WF base A0 →
    A0 <+: (sampleVars base ps A0).2 ∧ WF base (sampleVars base ps A0).2 ∧
    ∀ al ∈ (sampleVars base ps A0).1, Proj.var al.2 ∈ ps ∧ ∃ i, al.1 = base + i ∧
      (sampleVars base ps A0).2[i]? = some ⟨.sample, false, false, .var al.2, none, base + i⟩ := by
  intro ps
  induction ps with
  | nil => intro A0 h; exact ⟨List.prefix_refl _, h, fun _ h => by cases h⟩
  | cons p ps ih =>
    intro A0 h
    cases p with
    | var v =>
      have hw : WF base (A0 ++ [⟨.sample, false, false, .var v, none, base + A0.length⟩]) := h.snoc _ rfl
      obtain ⟨p1, w1, f1⟩ := ih _ hw
      refine ⟨(List.prefix_append _ _).trans p1, w1, ?_⟩
      intro al hal
      simp only [sampleVars, List.mem_cons] at hal
      rcases hal with rfl | hal
      · refine ⟨List.mem_cons_self, A0.length, rfl, ?_⟩
        exact prefix_getElem? p1 (by simp)
      · obtain ⟨m, i, hi⟩ := f1 al hal
        exact ⟨List.mem_cons_of_mem _ m, i, hi⟩
    | expr v e =>
      obtain ⟨p1, w1, f1⟩ := ih A0 h
      refine ⟨p1, w1, ?_⟩
      intro al hal
      obtain ⟨m, i, hi⟩ := f1 al hal
      exact ⟨List.mem_cons_of_mem _ m, i, hi⟩

theorem wf_nil (base : Nat) : WF base [] := by intro i a h; simp at h

/-- rewrite_correct -/
theorem translateAggregates_spec (q : Query) :
    WF q.nuser (translateAggregates q).A ∧
    (∀ (rows : List Row) (g : Row), Carries q.nuser (translateAggregates q).A rows g →
      Forall2 (ProjAgrees rows g) q.proj (translateAggregates q).proj ∧
      (match q.having, (translateAggregates q).having with
       | none, none => True
       | some h, some h' => evalE h' g = evalG [] rows g h
       | _, _ => False) ∧
      Forall2 (KeyAgrees (q.proj.filterMap Proj.alias?) rows g) q.order (translateAggregates q).order) ∧
    (∀ al ∈ (translateAggregates q).aliases, Proj.var al.2 ∈ q.proj ∧ ∃ i, al.1 = q.nuser + i ∧
      (translateAggregates q).A[i]? = some ⟨.sample, false, false, .var al.2, none, q.nuser + i⟩) := by
  have sp := rewriteProj_spec q.nuser q.proj [] (wf_nil _)
  cases hh : q.having with
  | none =>
    have so := rewriteOrder_spec q.nuser (q.proj.filterMap Proj.alias?) q.order _ sp.2.1
    have ss := sampleVars_spec q.nuser q.proj _ so.2.1
    simp only [translateAggregates, hh]
    refine ⟨ss.2.1, fun rows g hc => ⟨sp.2.2 _ rows g (so.1.trans ss.1) hc, trivial, so.2.2 _ rows g ss.1 hc⟩, ss.2.2⟩
  | some h =>
    have sh := aggsE_spec q.nuser (sampleE [] h) _ sp.2.1
    have so := rewriteOrder_spec q.nuser (q.proj.filterMap Proj.alias?) q.order _ sh.2
    have ss := sampleVars_spec q.nuser q.proj _ so.2.1
    simp only [translateAggregates, hh]
    refine ⟨ss.2.1, fun rows g hc => ⟨sp.2.2 _ rows g (sh.1.trans (so.1.trans ss.1)) hc, ?_, so.2.2 _ rows g ss.1 hc⟩, ss.2.2⟩
    exact aggsE_eval q.nuser [] rows g _ hc h _ sp.2.1 (so.1.trans ss.1)

end RV.C08
