import RV.C08.Tables
import RV.C08.Float
/-
  C08 — executable model of rdflib's solution modifiers and aggregates
  (after the `fix:` commits of branch fix-C08).

  rdflib/plugins/sparql/evalutils.py   _val, _eval
  rdflib/term.py                        Identifier.__lt__/__gt__, Literal.__gt__/__lt__/eq/__eq__
  rdflib/plugins/sparql/datatypes.py   type_promotion (its answers on all datatype pairs, probed into Tables.lean)
  rdflib/plugins/sparql/operators.py   numeric, AdditiveExpression, RelationalExpression (numeric operands)
  rdflib/plugins/sparql/aggregates.py  Accumulator.use_row, Counter, Sum, Average, Extremum, Sample, GroupConcat, Aggregator
  rdflib/plugins/sparql/algebra.py     translate (modifier part), translateAggregates, _sample, _aggs
  rdflib/plugins/sparql/evaluate.py    evalAggregateJoin, evalExtend, evalFilter (HAVING), evalOrderBy, evalProject,
                                        evalDistinct, evalReduced, evalSlice

  Solutions are fixed-width rows `List (Option Term)` indexed by variable number: the query's user
  variables first (pattern variables, then SELECT aliases), then the internal `__agg_n__` variables.
  A `None`-valued binding (Sample.get_value) and an absent binding are the same thing here (`none`).
  Numeric values are exact rationals (`Rat`) with the decimal scale of their lexical form; Python's
  int/Decimal arithmetic is exact on the magnitudes involved, floats are only fed dyadic values.
  Errors of expressions are `none` (every SPARQLError is treated alike by the repaired accumulators).
-/
namespace RV.C08

abbrev Str := List Nat

/-- Python `str <` (code points) -/
def strLt : Str → Str → Bool
  | [], [] => false
  | [], _ :: _ => true
  | _ :: _, [] => false
  | a :: as, b :: bs => decide (a < b) || (a == b && strLt as bs)

/-! ### calendar arithmetic of CPython's `datetime` (`_days_before_year`, `_days_before_month`, `_ymd2ord`) -/

/-- `_days_before_year(year)`: days before January 1st of `year` (year 1 = 0) -/
def daysBeforeYear (y : Nat) : Nat := (y - 1) * 365 + (y - 1) / 4 - (y - 1) / 100 + (y - 1) / 400

/-- `_is_leap(year)` -/
def isLeap (y : Nat) : Bool := y % 4 == 0 && (y % 100 != 0 || y % 400 == 0)

/-- `_DAYS_BEFORE_MONTH[month]` -/
def daysBeforeMonthTab : Nat → Nat
  | 2 => 31 | 3 => 59 | 4 => 90 | 5 => 120 | 6 => 151 | 7 => 181
  | 8 => 212 | 9 => 243 | 10 => 273 | 11 => 304 | 12 => 334 | _ => 0

/-- `_days_before_month(year, month)` -/
def daysBeforeMonth (y m : Nat) : Nat := daysBeforeMonthTab m + (if decide (2 < m) && isLeap y then 1 else 0)

/-- `_ymd2ord(year, month, day)`: the proleptic Gregorian ordinal, 0001-01-01 = 1 -/
def ymd2ord (y m d : Nat) : Nat := daysBeforeYear y + daysBeforeMonth y m + d

/-- the fields of a well-typed `xsd:dateTime` lexical form without fractional seconds;
    `tz` = UTC offset in minutes, `none` = no timezone (a naive `datetime`) -/
structure DTF where
  y : Nat
  mo : Nat
  d : Nat
  h : Nat
  mi : Nat
  s : Nat
  tz : Option Int
  deriving DecidableEq, Repr

/-- the fields of a well-typed `xsd:date` lexical form without timezone (a `datetime.date`) -/
structure DF where
  y : Nat
  mo : Nat
  d : Nat
  deriving DecidableEq, Repr

/-- `tzinfo is not None and utcoffset() is not None`: the first item of `_TOTAL_ORDER_CASTERS[datetime]` -/
def DTF.aware (f : DTF) : Bool := f.tz.isSome

/-- the point on the time line that CPython's `datetime` comparison works with, in seconds: what
    `self - other` (ordinal days and seconds, minus the UTC offset) is computed from; for a naive value the local time -/
def DTF.key (f : DTF) : Int :=
  ((((ymd2ord f.y f.mo f.d : Nat) : Int) * 24 + f.h) * 60 + f.mi - f.tz.getD 0) * 60 + f.s

/-- `date.toordinal()` -/
def DF.ord (f : DF) : Nat := ymd2ord f.y f.mo f.d

/-- `_days_in_month(year, month)` -/
def daysInMonth (y m : Nat) : Nat :=
  if m = 2 then (if isLeap y then 29 else 28) else if m = 4 ∨ m = 6 ∨ m = 9 ∨ m = 11 then 30 else 31

/-- `_check_date_fields`: what `date(...)` / `fromisoformat` accept (year 1..9999 — the upper bound plays no role here) -/
def validYMD (y m d : Nat) : Bool := decide (1 ≤ y ∧ 1 ≤ m ∧ m ≤ 12 ∧ 1 ≤ d ∧ d ≤ daysInMonth y m)

def DF.valid (f : DF) : Bool := validYMD f.y f.mo f.d

/-- `_check_date_fields` and `_check_time_fields` -/
def DTF.valid (f : DTF) : Bool := validYMD f.y f.mo f.d && decide (f.h < 24 ∧ f.mi < 60 ∧ f.s < 60)

/-- `date.__lt__`: Python tuple `<` on (year, month, day) -/
def DF.fieldsLt (a b : DF) : Bool :=
  decide (a.y < b.y ∨ (a.y = b.y ∧ (a.mo < b.mo ∨ (a.mo = b.mo ∧ a.d < b.d))))

/-- the path of `datetime._cmp` for two values with the same UTC offset (or both without): Python tuple `<` on
    (year, month, day, hour, minute, second); only values with different offsets are compared through `self - other` -/
def DTF.fieldsLt (a b : DTF) : Bool :=
  decide (a.y < b.y ∨ (a.y = b.y ∧ (a.mo < b.mo ∨ (a.mo = b.mo ∧ (a.d < b.d ∨ (a.d = b.d ∧
    (a.h < b.h ∨ (a.h = b.h ∧ (a.mi < b.mi ∨ (a.mi = b.mi ∧ a.s < b.s))))))))))

inductive Term
  | bnode (l : Str)
  | iri (s : Str)
  /-- well-typed numeric literal: datatype, value, number of fraction digits of the lexical form -/
  | num (dt : DT) (v : Rat) (sc : Nat)
  | bool (b : Bool)
  /-- plain literal, `lang = []` when there is no language tag -/
  | str (lex : Str) (lang : Str)
  /-- well-typed xsd:dateTime (value: an aware or naive `datetime.datetime`) -/
  | dateTime (f : DTF)
  /-- well-typed xsd:date (value: a `datetime.date`) -/
  | date (f : DF)
  deriving DecidableEq, Repr

abbrev Val := Option Term
abbrev Row := List Val

def Row.get (r : Row) (i : Nat) : Val := r.getD i none

def Row.set : Row → Nat → Val → Row
  | [], 0, v => [v]
  | [], i + 1, v => none :: Row.set [] i v
  | _ :: xs, 0, v => v :: xs
  | x :: xs, i + 1, v => x :: Row.set xs i v

/-! ### ordering: `_val` + Python tuple comparison + term comparison -/

/-- `_val(v)[0]` -/
def valRank : Val → Nat
  | none => rankVariable
  | some (.bnode _) => rankBNode
  | some (.iri _) => rankIRI
  | some _ => rankLiteral

/-- datatype of a literal with `None` coalesced to xsd:string -/
def Term.dt : Term → DT
  | .num d _ _ => d
  | .bool _ => .boolean
  | .dateTime _ => .dateTime
  | .date _ => .date
  | _ => .string

/-- `Literal.__gt__` on two literals -/
def litGt : Term → Term → Bool
  | .num _ v1 _, .num _ v2 _ => decide (v2 < v1)
  | a, b =>
    if a.dt ≠ b.dt then Nat.blt b.dt.uriRank a.dt.uriRank
    else match a, b with
      | .str l1 g1, .str l2 g2 =>
        if g1 ≠ g2 then (if g1 = [] then false else if g2 = [] then true else strLt g2 g1)
        else strLt l2 l1
      | .bool x, .bool y => x && !y
      -- `_TOTAL_ORDER_CASTERS[datetime]`: the tuples (aware?, value) are compared — naive before aware, then the values
      | .dateTime f1, .dateTime f2 => if f1.aware ≠ f2.aware then f1.aware else decide (f2.key < f1.key)
      | .date f1, .date f2 => decide (f2.ord < f1.ord)
      | _, _ => false

/-- `Literal.eq` (value space) on two literals -/
def litEqv : Term → Term → Bool
  | .num _ v1 _, .num _ v2 _ => v1 == v2
  | .str l1 g1, .str l2 g2 => g1 == g2 && l1 == l2
  | .bool x, .bool y => x == y
  -- `datetime.__eq__`: a naive and an aware value are never equal; two aware ones are equal as instants
  | .dateTime f1, .dateTime f2 => f1.aware == f2.aware && f1.key == f2.key
  | .date f1, .date f2 => f1.ord == f2.ord
  | _, _ => false

/-- `Literal.__lt__` = `not __gt__ and not eq` -/
def litLt (a b : Term) : Bool := !litGt a b && !litEqv a b

/-- `x < y` for two terms of the same `_val` rank -/
def termLt : Term → Term → Bool
  | .bnode a, .bnode b => strLt a b
  | .iri a, .iri b => strLt a b
  | a, b => litLt a b

def termGt : Term → Term → Bool
  | .bnode a, .bnode b => strLt b a
  | .iri a, .iri b => strLt b a
  | a, b => litGt a b

/-- `_val(a) < _val(b)`: Python compares the tuples item by item with `==`, then `<` on the first difference -/
def keyLt (a b : Val) : Bool :=
  if valRank a ≠ valRank b then Nat.blt (valRank a) (valRank b)
  else match a, b with
    | some x, some y => if x = y then false else termLt x y
    | _, _ => false

def keyGt (a b : Val) : Bool :=
  if valRank a ≠ valRank b then Nat.blt (valRank b) (valRank a)
  else match a, b with
    | some x, some y => if x = y then false else termGt x y
    | _, _ => false

/-! ### Python `sorted` (assumed: a stable sort) -/

def insertBy {α} (lt : α → α → Bool) (x : α) : List α → List α
  | [] => [x]
  | y :: ys => if lt x y then x :: y :: ys else y :: insertBy lt x ys

/-- stable insertion sort, left to right: `insertBy` puts the new element before the first element it
    is strictly smaller than, i.e. after every earlier element that is not greater -/
def isortAux {α} (lt : α → α → Bool) : List α → List α → List α
  | acc, [] => acc
  | acc, x :: xs => isortAux lt (insertBy lt x acc) xs

/-- insert left to right; a new element goes after every element `y` with `¬ x < y` that is already there -/
def isort {α} (lt : α → α → Bool) (xs : List α) : List α := isortAux lt [] xs

/-- `sorted(xs, key=…, reverse=rev)`: CPython reverses, sorts stably, reverses -/
def pySorted {α} (lt : α → α → Bool) (rev : Bool) (xs : List α) : List α :=
  if rev then (isort lt xs.reverse).reverse else isort lt xs

/-! ### expressions -/

inductive CmpOp | lt | gt | eq | ne | le | ge
  deriving DecidableEq, Repr

inductive AggK | count | sum | avg | min | max | sample | gconcat
  deriving DecidableEq, Repr

inductive Expr
  | var (v : Nat)
  | const (t : Term)
  | add (a b : Expr)
  | sub (a b : Expr)
  | cmp (op : CmpOp) (a b : Expr)
  /-- two HAVING constraints `(a) (b)`: `and_(a, b)` = ConditionalAndExpression -/
  | and (a b : Expr)
  | agg (k : AggK) (dist : Bool) (star : Bool) (arg : Expr) (sep : Option Str)
  deriving Repr

/-- `operators.numeric` -/
def numericOf : Term → Option (DT × Rat × Nat)
  | .num d v sc => if d.isNumericOp then some (d, v, sc) else none
  | _ => none

/-- `datatypes.type_promotion` (both arguments given); `none` = the TypeError it raises.
    The table holds the answers of the live function on all pairs (regenerated on every run). -/
def typePromotion (t1 t2 : DT) : Option DT := promoTab t1 t2

def DT.isFloating (d : DT) : Bool := d == .float || d == .double
def DT.isIntegral (d : DT) : Bool := d.superType == .integer

def pow10 : Nat → Nat
  | 0 => 1
  | n + 1 => 10 * pow10 n

/-- the fraction digits of `repr(float)` (Float.lean): the scale tag of an xsd:double / xsd:float term -/
def dblScale (v : Rat) : Nat := F.fracDigits v

/-- Python `a + b` on two numbers one of which is a `float` (`fl`): both are converted to binary64 (`float(Decimal)`,
    int → float: correctly rounded), the exact sum is rounded to binary64; otherwise int / Decimal arithmetic, exact.
    (`type_safe_numbers` + `sum` in aggregates.py, `res += n` in operators.AdditiveExpression) -/
def addNum (fl : Bool) (v x : Rat) : Rat := if fl then F.roundF (F.roundF v + F.roundF x) else v + x

/-- least `s` below the fuel with `v · 10^s` an integer, searching upwards from `s`: the fraction digits a
    terminating decimal needs -/
def decScaleAux (v : Rat) : Nat → Nat → Option Nat
  | 0, _ => none
  | f + 1, s => if (v * ((pow10 s : Nat) : Rat)).den == 1 then some s else decScaleAux v f (s + 1)

def decScale? (v : Rat) : Option Nat := decScaleAux v 30 0

/-- marker scale of a quotient that does not terminate (Python keeps 28 significant digits of it) -/
def inexactScale : Nat := 99

/-- fraction digits of `Decimal(sum) / Decimal(count)` (default context, 28 digits): an exact quotient is
    stripped of trailing zeros down to the "ideal exponent" = the exponent of the sum, so it keeps
    `max (scale of the sum) (digits the quotient needs)`; a quotient that does not terminate is rounded to 28
    significant digits, which depend on its value only — marked `inexactScale` -/
def avgScale (q : Rat) (sumScale : Nat) : Nat :=
  match decScale? q with
  | some m => max sumScale m
  | none => inexactScale

/-- `Literal(pythonNumber, datatype=dt)` -/
def mkNum (dt : DT) (v : Rat) (sc : Nat) : Term :=
  if dt.isFloating then .num dt v (dblScale v) else if dt.isIntegral then .num dt v 0 else .num dt v sc

/-- `AdditiveExpression` with one operator on two evaluated operands -/
def arith (plus : Bool) : Val → Val → Val
  | some a, some b =>
    match numericOf a, numericOf b with
    | some (d1, v1, s1), some (d2, v2, s2) =>
      match typePromotion d1 d2 with
      | some dt => some (mkNum dt (addNum dt.isFloating v1 (if plus then v2 else -v2)) (max s1 s2))
      | none => none
    | _, _ => none
  | _, _ => none

def Term.isLiteral : Term → Bool
  | .num .. => true
  | .bool _ => true
  | .str .. => true
  | .dateTime _ => true
  | .date _ => true
  | _ => false

/-- `x.eq(y)` as RelationalExpression calls it: `Literal.eq` on two literals (value space),
    otherwise `Identifier.__eq__` / "no non-Literal node equals a literal" -/
def termEqv (a b : Term) : Bool :=
  if a.isLiteral && b.isLiteral then litEqv a b else decide (a = b)

/-- `RelationalExpression`: `=`/`!=` on any two terms, the ordering operators on two literals only
    (anything else is a SPARQLError) -/
def cmpE (op : CmpOp) : Val → Val → Val
  | some a, some b =>
    match op with
    | .eq => some (.bool (termEqv a b))
    | .ne => some (.bool (!termEqv a b))
    | .gt => if a.isLiteral && b.isLiteral then some (.bool (litGt a b)) else none
    | .lt => if a.isLiteral && b.isLiteral then some (.bool (litLt a b)) else none
    | .ge => if a.isLiteral && b.isLiteral then some (.bool (litGt a b || litEqv a b)) else none
    | .le => if a.isLiteral && b.isLiteral then some (.bool (litLt a b || litEqv a b)) else none
  | _, _ => none

/-- `ConditionalAndExpression`: `Literal(all(EBV(x) for x in [a, b]))` on boolean operands; `all` stops at the
    first false one, an error operand that is reached makes the whole an error -/
def andE : Val → Val → Val
  | some (.bool false), _ => some (.bool false)
  | some (.bool true), some (.bool y) => some (.bool y)
  | _, _ => none

/-- `_eval(expr, row)` with every error mapped to `none`; aggregate nodes have been rewritten away -/
def evalE : Expr → Row → Val
  | .var v, r => r.get v
  | .const t, _ => some t
  | .add a b, r => arith true (evalE a r) (evalE b r)
  | .sub a b, r => arith false (evalE a r) (evalE b r)
  | .cmp op a b, r => cmpE op (evalE a r) (evalE b r)
  | .and a b, r => andE (evalE a r) (evalE b r)
  | .agg .., _ => none

/-! ### STR() / lexical forms (GROUP_CONCAT) -/

def digitsOf (n : Nat) : Str := (Nat.toDigits 10 n).map Char.toNat

def padLeft (n : Nat) (xs : Str) : Str := List.replicate (n - xs.length) 48 ++ xs

/-- lexical form of `m · 10^-s` with exactly `s` fraction digits -/
def decLex (m : Int) (s : Nat) : Str :=
  let ds := padLeft (s + 1) (digitsOf m.natAbs)
  let body := if s = 0 then ds else ds.take (ds.length - s) ++ [46] ++ ds.drop (ds.length - s)
  if m < 0 then 45 :: body else body

def pad2 (n : Nat) : Str := padLeft 2 (digitsOf n)

/-- `isoformat()` of the UTC offset: nothing, or sign hh:mm -/
def tzLex : Option Int → Str
  | none => []
  | some off => (if off < 0 then 45 else 43) :: (pad2 (off.natAbs / 60) ++ [58] ++ pad2 (off.natAbs % 60))

def DF.lex (f : DF) : Str := padLeft 4 (digitsOf f.y) ++ [45] ++ pad2 f.mo ++ [45] ++ pad2 f.d

def DTF.lex (f : DTF) : Str :=
  padLeft 4 (digitsOf f.y) ++ [45] ++ pad2 f.mo ++ [45] ++ pad2 f.d ++ [84] ++
    pad2 f.h ++ [58] ++ pad2 f.mi ++ [58] ++ pad2 f.s ++ tzLex f.tz

def lexOf : Term → Str
  | .bnode l => l
  | .iri s => s
  | .num d v sc => if d.isFloating then F.floatLex v else decLex (v * ((pow10 sc : Nat) : Rat)).num sc
  | .bool b => if b then [116, 114, 117, 101] else [102, 97, 108, 115, 101]
  | .str l _ => l
  | .dateTime f => f.lex
  | .date f => f.lex

def joinStr (sep : Str) : List Str → Str
  | [] => []
  | [x] => x
  | x :: y :: rest => x ++ sep ++ joinStr sep (y :: rest)

/-! ### accumulators -/

structure AggSpec where
  kind : AggK
  dist : Bool
  star : Bool
  arg : Expr
  sep : Option Str
  res : Nat
  deriving Repr

inductive AccSt
  | counter (n : Nat) (seen : List Term) (seenRows : List Row)
  | sum (v : Rat) (sc : Nat) (dt : Option DT) (seen : List Term)
  | avg (s : Rat) (sc : Nat) (cnt : Nat) (dt : Option DT) (seen : List Term)
  | ext (v : Val)
  | sample (v : Val)
  | gc (vals : List Term) (seen : List Term)
  deriving Repr

def initAcc (a : AggSpec) : AccSt :=
  match a.kind with
  | .count => .counter 0 [] []
  | .sum => .sum 0 0 none []
  | .avg => .avg 0 0 0 none []
  | .min => .ext none
  | .max => .ext none
  | .sample => .sample none
  | .gconcat => .gc [] []

/-- Average.update: `if dt is None: dt = value.datatype else: dt = type_promotion(dt, value.datatype)` -/
def avgNextDT (dt : Option DT) (d : DT) : Option DT :=
  match dt with
  | none => some d
  | some d0 => typePromotion d0 d

def addSeen (dist : Bool) (t : Term) (seen : List Term) : List Term := if dist then t :: seen else seen

/-- `if acc.use_row(row): acc.update(row, aggregator)` for one accumulator -/
def AccSt.update (a : AggSpec) (st : AccSt) (r : Row) : AccSt :=
  match st with
  | .counter n seen seenRows =>
    if a.star then
      if a.dist && seenRows.contains r then st
      else .counter (n + 1) seen (if a.dist then r :: seenRows else seenRows)
    else match evalE a.arg r with
      | none => st
      | some t => if a.dist && seen.contains t then st else .counter (n + 1) (addSeen a.dist t seen) seenRows
  | .sum v sc dt seen =>
    match evalE a.arg r with
    | none => st
    | some t =>
      if a.dist && seen.contains t then st
      else match numericOf t with
        | none => st
        | some (d, x, s) =>
          match typePromotion (dt.getD .integer) d with
          | none => st
          | some dt' => .sum (addNum dt'.isFloating v x) (max sc s) (some dt') (addSeen a.dist t seen)
  | .avg s sc cnt dt seen =>
    match evalE a.arg r with
    | none => st
    | some t =>
      if a.dist && seen.contains t then st
      else match numericOf t with
        | none => st
        | some (d, x, sx) =>
          match avgNextDT dt d with
          | none => st
          | some dt' => .avg (addNum dt'.isFloating s x) (max sc sx) (cnt + 1) (some dt') (addSeen a.dist t seen)
  | .ext cur =>
    match evalE a.arg r with
    | none => st
    | some t =>
      match cur with
      | none => .ext (some t)
      | some c =>
        if a.kind == .min then .ext (some (if keyLt (some t) (some c) then t else c))
        else .ext (some (if keyGt (some t) (some c) then t else c))
  | .sample cur =>
    match cur with
    | some _ => st
    | none => .sample (evalE a.arg r)
  | .gc vals seen =>
    match evalE a.arg r with
    | none => st
    | some t => if a.dist && seen.contains t then st else .gc (vals ++ [t]) (addSeen a.dist t seen)

/-- `get_value()` / `set_value()`: the binding of the result variable, `none` = not bound -/
def AccSt.value (a : AggSpec) : AccSt → Val
  | .counter n _ _ => some (.num .integer (n : Rat) 0)
  | .sum v sc dt _ => some (mkNum (dt.getD .integer) v sc)
  | .avg s sc cnt dt _ =>
    if cnt = 0 then some (.num .integer 0 0)
    else if (dt.getD .integer).isFloating then some (mkNum (dt.getD .integer) (F.roundF (s / (cnt : Rat))) 0)
    else some (.num .decimal (s / (cnt : Rat)) (avgScale (s / (cnt : Rat)) sc))
  | .ext v => v
  | .sample v => v
  | .gc vals _ => some (.str (joinStr (a.sep.getD [32]) (vals.map lexOf)) [])

def updateAll : List AggSpec → List AccSt → Row → List AccSt
  | a :: as, s :: ss, r => s.update a r :: updateAll as ss r
  | _, _, _ => []

abbrev Key := List Val

/-- `res[k].update(row)` on the insertion-ordered dict of Aggregators -/
def groupUpdate (A : List AggSpec) : List (Key × List AccSt) → Key → Row → List (Key × List AccSt)
  | [], k, r => [(k, updateAll A (A.map initAcc) r)]
  | (k', s) :: rest, k, r =>
    if k' = k then (k', updateAll A s r) :: rest else (k', s) :: groupUpdate A rest k r

def groupAll (A : List AggSpec) (keys : List Expr) : List (Key × List AccSt) → List Row → List (Key × List AccSt)
  | gs, [] => gs
  | gs, r :: rs => groupAll A keys (groupUpdate A gs (keys.map (fun e => evalE e r)) r) rs

def emptyRow (w : Nat) : Row := List.replicate w none

def bindAll : List AggSpec → List AccSt → Row → Row
  | a :: as, s :: ss, row =>
    bindAll as ss (match s.value a with | some t => row.set a.res (some t) | none => row)
  | _, _, row => row

/-- `evalAggregateJoin` -/
def aggregateJoin (w : Nat) (keys : Option (List Expr)) (A : List AggSpec) (rows : List Row) : List Row :=
  match keys with
  | none => [bindAll A (rows.foldl (fun sts r => updateAll A sts r) (A.map initAcc)) (emptyRow w)]
  | some ks =>
    match groupAll A ks [] rows with
    | [] => [emptyRow w]
    | gs => gs.map (fun g => bindAll A g.2 (emptyRow w))

/-! ### the query level: `translate` / `translateAggregates` -/

inductive Proj
  | var (v : Nat)
  | expr (v : Nat) (e : Expr)
  deriving Repr

inductive Modifier | none | distinct | reduced
  deriving DecidableEq, Repr

structure Query where
  nuser : Nat
  /-- `GROUP BY (expr AS ?k)` conditions: `translate` puts an Extend below the Group for each, in order -/
  groupAs : List (Nat × Expr)
  /-- GROUP BY keys: variables, or expressions (`GROUP BY (expr)` without AS); an error is no value -/
  group : Option (List Expr)
  proj : List Proj
  having : Option Expr
  order : List (Expr × Bool)
  modifier : Modifier
  offset : Option Nat
  limit : Option Nat
  deriving Repr

def Expr.hasAgg : Expr → Bool
  | .var _ => false
  | .const _ => false
  | .add a b => a.hasAgg || b.hasAgg
  | .sub a b => a.hasAgg || b.hasAgg
  | .cmp _ a b => a.hasAgg || b.hasAgg
  | .and a b => a.hasAgg || b.hasAgg
  | .agg .. => true

/-- `_sample`: every variable outside an aggregate (and not in `keep`) becomes SAMPLE(var) -/
def sampleE (keep : List Nat) : Expr → Expr
  | .var v => if keep.contains v then .var v else .agg .sample false false (.var v) none
  | .const t => .const t
  | .add a b => .add (sampleE keep a) (sampleE keep b)
  | .sub a b => .sub (sampleE keep a) (sampleE keep b)
  | .cmp op a b => .cmp op (sampleE keep a) (sampleE keep b)
  | .and a b => .and (sampleE keep a) (sampleE keep b)
  | .agg k d s arg sep => .agg k d s arg sep

/-- `_aggs`: aggregates are collected in `A` (left to right) and replaced by `__agg_n__` = variable `base + n - 1` -/
def aggsE (base : Nat) : Expr → List AggSpec → Expr × List AggSpec
  | .var v, A => (.var v, A)
  | .const t, A => (.const t, A)
  | .add a b, A =>
    let r1 := aggsE base a A
    let r2 := aggsE base b r1.2
    (.add r1.1 r2.1, r2.2)
  | .sub a b, A =>
    let r1 := aggsE base a A
    let r2 := aggsE base b r1.2
    (.sub r1.1 r2.1, r2.2)
  | .cmp op a b, A =>
    let r1 := aggsE base a A
    let r2 := aggsE base b r1.2
    (.cmp op r1.1 r2.1, r2.2)
  | .and a b, A =>
    let r1 := aggsE base a A
    let r2 := aggsE base b r1.2
    (.and r1.1 r2.1, r2.2)
  | .agg k d s arg sep, A => (.var (base + A.length), A ++ [⟨k, d, s, arg, sep, base + A.length⟩])

def rewriteProj (base : Nat) : List Proj → List AggSpec → List Proj × List AggSpec
  | [], A => ([], A)
  | .var v :: ps, A =>
    let r := rewriteProj base ps A
    (.var v :: r.1, r.2)
  | .expr v e :: ps, A =>
    let r1 := aggsE base (sampleE [v] e) A
    let r := rewriteProj base ps r1.2
    (.expr v r1.1 :: r.1, r.2)

def rewriteOrder (base : Nat) (keep : List Nat) : List (Expr × Bool) → List AggSpec → List (Expr × Bool) × List AggSpec
  | [], A => ([], A)
  | (e, d) :: ks, A =>
    let r1 := aggsE base (sampleE keep e) A
    let r := rewriteOrder base keep ks r1.2
    ((r1.1, d) :: r.1, r.2)

/-- the plain `?var` items of the SELECT clause get a SAMPLE each and an alias pair `(__agg_n__, var)` -/
def sampleVars (base : Nat) : List Proj → List AggSpec → List (Nat × Nat) × List AggSpec
  | [], A => ([], A)
  | .var v :: ps, A =>
    let rv := base + A.length
    let r := sampleVars base ps (A ++ [⟨.sample, false, false, .var v, none, rv⟩])
    ((rv, v) :: r.1, r.2)
  | .expr _ _ :: ps, A => sampleVars base ps A

def Proj.alias? : Proj → Option Nat
  | .var _ => none
  | .expr v _ => some v

structure Translated where
  A : List AggSpec
  proj : List Proj
  having : Option Expr
  order : List (Expr × Bool)
  aliases : List (Nat × Nat)

/-- `translateAggregates` -/
def translateAggregates (q : Query) : Translated :=
  let base := q.nuser
  let p := rewriteProj base q.proj []
  let h : Option Expr × List AggSpec :=
    match q.having with
    | none => (none, p.2)
    | some e => let r := aggsE base (sampleE [] e) p.2; (some r.1, r.2)
  let o := rewriteOrder base (q.proj.filterMap Proj.alias?) q.order h.2
  let s := sampleVars base q.proj o.2
  { A := s.2, proj := p.1, having := h.1, order := o.1, aliases := s.1 }

def Query.isAggregate (q : Query) : Bool :=
  q.group.isSome || (match q.having with | some e => e.hasAgg | none => false) ||
  q.order.any (fun k => k.1.hasAgg) ||
  q.proj.any (fun p => match p with | .expr _ e => e.hasAgg | .var _ => false)

/-! ### evaluation of the modifier nodes -/

/-- `evalExtend` -/
def extend (e : Expr) (v : Nat) (rows : List Row) : List Row :=
  rows.map (fun r => match evalE e r with | some t => r.set v (some t) | none => r)

/-- `evalFilter` with `_ebv`: only a boolean `true` passes (the conditions generated are comparisons) -/
def ebvTrue : Val → Bool
  | some (.bool b) => b
  | _ => false

def filterRows (e : Expr) (rows : List Row) : List Row := rows.filter (fun r => ebvTrue (evalE e r))

def extendProj : List Proj → List Row → List Row
  | [], rows => rows
  | .var _ :: ps, rows => extendProj ps rows
  | .expr v e :: ps, rows => extendProj ps (extend e v rows)

/-- one pass of `evalOrderBy`'s loop -/
def sortByKey (k : Expr × Bool) (rows : List Row) : List Row :=
  pySorted (fun a b => keyLt (evalE k.1 a) (evalE k.1 b)) k.2 rows

/-- `evalOrderBy`: `for e in reversed(part.expr): res = sorted(res, key, reverse)` -/
def evalOrderBy (keys : List (Expr × Bool)) (rows : List Row) : List Row :=
  keys.foldr sortByKey rows

def Proj.name : Proj → Nat
  | .var v => v
  | .expr v _ => v

/-- `row.project(PV)` on fixed-width rows of the user variables -/
def projectRow (w : Nat) (pv : List Nat) (r : Row) : Row :=
  (List.range w).map (fun i => if pv.contains i then r.get i else none)

def evalProject (w : Nat) (pv : List Nat) (rows : List Row) : List Row := rows.map (projectRow w pv)

/-- `evalDistinct`: first occurrence kept -/
def distinctAux : List Row → List Row → List Row
  | _, [] => []
  | seen, x :: xs => if seen.contains x then distinctAux seen xs else x :: distinctAux (x :: seen) xs

def evalDistinct (rows : List Row) : List Row := distinctAux [] rows

/-- `evalReduced` with its `MAX = 1` buffer: a row equal to the previous row is dropped -/
def reducedAux : Option Row → List Row → List Row
  | _, [] => []
  | last, x :: xs => if last = some x then reducedAux (some x) xs else x :: reducedAux (some x) xs

def evalReduced (rows : List Row) : List Row := reducedAux none rows

/-- `itertools.islice(res, start, stop)`; `i` = index of the head -/
def islice {α} (start : Nat) (stop : Option Nat) : Nat → List α → List α
  | _, [] => []
  | i, x :: xs =>
    if (match stop with | some s => decide (s ≤ i) | none => false) then []
    else if i < start then islice start stop (i + 1) xs
    else x :: islice start stop (i + 1) xs

/-- `evalSlice` -/
def evalSlice {α} (start : Nat) (length : Option Nat) (xs : List α) : List α :=
  islice start (length.map (start + ·)) 0 xs

def padRow (w : Nat) (r : Row) : Row := (List.range w).map r.get

/-- HAVING: `Filter(expr=and_(*q.having.condition), p=M)` -/
def applyHaving (h : Option Expr) (rows : List Row) : List Row :=
  match h with
  | some e => filterRows e rows
  | none => rows

/-- `Distinct` / `Reduced` node -/
def applyModifier (m : Modifier) (rows : List Row) : List Row :=
  match m with
  | .none => rows
  | .distinct => evalDistinct rows
  | .reduced => evalReduced rows

/-- `Slice` node (only when LIMIT or OFFSET is written) -/
def applySlice (offset limit : Option Nat) (rows : List Row) : List Row :=
  match offset, limit with
  | none, none => rows
  | o, l => evalSlice (o.getD 0) l rows

/-- Group/AggregateJoin and the Extends of the sampled SELECT variables; gives the rows, and the HAVING,
    SELECT and ORDER BY expressions as rewritten by `translateAggregates` -/
def groupStage (q : Query) (input : List Row) : List Row × Option Expr × List Proj × List (Expr × Bool) :=
  if q.isAggregate then
    let t := translateAggregates q
    let w := q.nuser + t.A.length
    let m0 := q.groupAs.foldl (fun rows ga => extend ga.2 ga.1 rows) (input.map (padRow w))
    let m1 := aggregateJoin w q.group t.A m0
    (t.aliases.foldl (fun rows al => extend (.var al.1) al.2 rows) m1, t.having, t.proj, t.order)
  else (input.map (padRow q.nuser), q.having, q.proj, q.order)

/-- `translate` + evaluation, from the pattern's solution sequence to `Result.bindings` -/
def evalQuery (q : Query) (input : List Row) : List Row :=
  let m := groupStage q input
  applySlice q.offset q.limit
    (applyModifier q.modifier
      (evalProject q.nuser (q.proj.map Proj.name)
        (evalOrderBy m.2.2.2 (extendProj m.2.2.1 (applyHaving m.2.1 m.1)))))

end RV.C08
