/-
  C08 — IEEE 754 binary64 as CPython's `float` uses it, over exact integers / rationals (no `Float`):
  `roundF` = round-to-nearest-even of a rational to a double (the value again as a rational), `floatLex` = `repr(float)`
  (shortest digit string that reads back, `format_float_short` layout).  Transcribed from lean/RV/C09/FloatModel.lean
  (C09's model of `float(str)` / `repr`); finite values only — overflow to inf, NaN and the sign of zero are not
  modelled here (the generated magnitudes stay far below 2^1024; a zero result is +0.0 under round-to-nearest unless
  both operands are -0.0, which is not generated).
-/
namespace RV.C08.F

/-- a / b rounded to the nearest integer, ties to even (b > 0) -/
def rneDiv (a b : Nat) : Nat :=
  let q := a / b
  let r := a % b
  if 2 * r < b then q else if b < 2 * r then q + 1 else (if q % 2 == 0 then q else q + 1)

/-- round-to-nearest-even of the non-negative rational p/q to binary64: mantissa and exponent (m · 2^e), `m = 0` for zero;
    gradual underflow below 2^-1022; no overflow check -/
def roundPQ (p q : Nat) : Nat × Int :=
  if p == 0 then (0, 0)
  else
    let k : Int := (Nat.log2 p : Int) - (Nat.log2 q : Int)
    let ge : Bool := if 0 ≤ k then decide (q * 2 ^ k.toNat ≤ p) else decide (q ≤ p * 2 ^ (-k).toNat)
    let l : Int := if ge then k else k - 1
    let e : Int := max (l - 52) (-1074)
    let m : Nat := if 0 ≤ e then rneDiv p (q * 2 ^ e.toNat) else rneDiv (p * 2 ^ (-e).toNat) q
    if m == 2 ^ 53 then (2 ^ 52, e + 1) else if m == 0 then (0, 0) else (m, e)

def meRat (m : Nat) (e : Int) : Rat :=
  if 0 ≤ e then ((m * 2 ^ e.toNat : Nat) : Rat) else mkRat (m : Int) (2 ^ (-e).toNat)

/-- the double nearest to `r` (ties to even), as a rational -/
def roundF (r : Rat) : Rat :=
  let me := roundPQ r.num.natAbs r.den
  if r.num < 0 then - meRat me.1 me.2 else meRat me.1 me.2

/-! ### `repr(float)` -/

abbrev Str := List Nat

def digits (n : Nat) : List Nat := (Nat.toDigits 10 n).map Char.toNat
def ndigits (n : Nat) : Nat := (digits n).length

def rstrip0 : List Nat → List Nat
  | [] => []
  | c :: cs =>
    match rstrip0 cs with
    | [] => if c == 48 then [] else [c]
    | r => c :: r

/-- floor(log10(P/Q)) for P, Q > 0 -/
def floorLog10 (P Q : Nat) : Int :=
  let d : Int := (ndigits P : Int) - (ndigits Q : Int)
  let ge : Bool := if 0 ≤ d then decide (Q * 10 ^ d.toNat ≤ P) else decide (Q ≤ P * 10 ^ (-d).toNat)
  if ge then d else d - 1

/-- does the decimal D · 10^s read back as the double m · 2^e ? -/
def readsBack (m : Nat) (e : Int) (D : Nat) (s : Int) : Bool :=
  (if 0 ≤ s then roundPQ (D * 10 ^ s.toNat) 1 else roundPQ D (10 ^ (-s).toNat)) == (m, e)

def scaledNum (P : Nat) (s : Int) : Nat := if 0 ≤ s then P else P * 10 ^ (-s).toNat
def scaledDen (Q : Nat) (s : Int) : Nat := if 0 ≤ s then Q * 10 ^ s.toNat else Q

def cand1 (P Q : Nat) (s : Int) : Nat :=
  let lo := scaledNum P s / scaledDen Q s
  let r := scaledNum P s % scaledDen Q s
  if 2 * r < scaledDen Q s || (2 * r == scaledDen Q s && lo % 2 == 0) then lo else lo + 1

def cand2 (P Q : Nat) (s : Int) : Nat :=
  let lo := scaledNum P s / scaledDen Q s
  if cand1 P Q s == lo then lo + 1 else lo

def tryDigits (m : Nat) (e : Int) (P Q : Nat) (s : Int) : Option (List Nat × Int) :=
  if readsBack m e (cand1 P Q s) s then some (rstrip0 (digits (cand1 P Q s)), s + (ndigits (cand1 P Q s) : Int))
  else if readsBack m e (cand2 P Q s) s then some (rstrip0 (digits (cand2 P Q s)), s + (ndigits (cand2 P Q s) : Int))
  else none

def shortestFrom (m : Nat) (e : Int) (P Q : Nat) (t : Int) : Nat → Nat → Option (List Nat × Int)
  | 0, _ => none
  | fuel + 1, k =>
    match tryDigits m e P Q (t - ((k : Int) - 1)) with
    | some r => some r
    | none => shortestFrom m e P Q t fuel (k + 1)

/-- mode 0 of `_Py_dg_dtoa`: the shortest digit string (at most 17 digits) that reads back, and `decpt` -/
def shortest (m : Nat) (e : Int) : Option (List Nat × Int) :=
  let P := if 0 ≤ e then m * 2 ^ e.toNat else m
  let Q := if 0 ≤ e then 1 else 2 ^ (-e).toNat
  shortestFrom m e P Q (floorLog10 P Q) 17 1

def zfill (w : Nat) (s : List Nat) : List Nat := List.replicate (w - s.length) 48 ++ s

/-- `format_float_short` for `repr` -/
def fmtRepr (neg : Bool) (ds : List Nat) (decpt : Int) : List Nat :=
  let body : List Nat :=
    if decpt < -3 || 16 < decpt then
      let x := decpt - 1
      let mant := match ds with | [] => [] | [d] => [d] | d :: r => d :: 46 :: r
      mant ++ 101 :: (if x < 0 then 45 else 43) :: zfill 2 (digits x.natAbs)
    else if decpt ≤ 0 then 48 :: 46 :: (List.replicate (-decpt).toNat 48 ++ ds)
    else if (ds.length : Int) ≤ decpt then ds ++ List.replicate (decpt.toNat - ds.length) 48 ++ [46, 48]
    else ds.take decpt.toNat ++ 46 :: ds.drop decpt.toNat
  if neg then 45 :: body else body

/-- digits and `decpt` of `repr` of the double whose value is `v` (`v` = `roundF v`) -/
def reprParts (v : Rat) : List Nat × Int :=
  let me := roundPQ v.num.natAbs v.den
  if me.1 = 0 then ([48], 1) else (shortest me.1 me.2).getD ([48], 1)

/-- `repr(float)` = the lexical form rdflib gives a computed xsd:double / xsd:float -/
def floatLex (v : Rat) : List Nat :=
  let p := reprParts v
  fmtRepr (decide (v.num < 0)) p.1 p.2

/-- number of fraction digits of `repr` (plain layout; in exponent layout: of the mantissa) -/
def fracDigits (v : Rat) : Nat :=
  let p := reprParts v
  if p.2 < -3 || 16 < p.2 then p.1.length - 1
  else if (p.1.length : Int) ≤ p.2 then 1 else (p.1.length : Int).toNat - p.2.toNat + (if p.2 ≤ 0 then (-p.2).toNat + p.2.toNat else 0)

end RV.C08.F
