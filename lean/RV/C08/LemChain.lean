import RV.C08.LemOrder
/-
  C08 — a chain of stable sorts, from the last key to the first, sorts lexicographically
  (`evalOrderBy`), and what that means in SPARQL's own terms.
-/
set_option linter.unusedSimpArgs false
set_option linter.unusedVariables false
namespace RV.C08

theorem strictWeak_rowKey (wd : Bool) (e : Expr) :
    StrictWeak (fun x y : Row => keyLt (evalE e x) (evalE e y)) (fun r => okKey wd (evalE e r) = true) :=
  ⟨fun a b ha hb h => (strictWeak_keyLt wd).asymm _ _ ha hb h,
   fun a b c ha hb hc h1 h2 => (strictWeak_keyLt wd).ntrans _ _ _ ha hb hc h1 h2⟩

theorem perm_evalOrderBy (keys : List (Expr × Bool)) (rows : List Row) :
    (evalOrderBy keys rows).Perm rows := by
  induction keys with
  | nil => exact List.Perm.refl _
  | cons k ks ih =>
    simp only [evalOrderBy, List.foldr_cons, sortByKey] at ih ⊢
    exact (perm_pySorted _ _ _).trans ih

/-- stable_sort_chain -/
theorem sorted_evalOrderBy (wd : Bool) (keys : List (Expr × Bool)) (rows : List Row)
    (h : ∀ k ∈ keys, ∀ r ∈ rows, okKey wd (evalE k.1 r) = true) :
    (evalOrderBy keys rows).Pairwise (fun a b => lexLt keys b a = false) := by
  induction keys with
  | nil => exact List.Pairwise.imp (fun _ => rfl) (List.pairwise_of_forall (R := fun _ _ => True) (fun _ _ => trivial))
  | cons k ks ih =>
    have ih' := ih (fun k' hk' => h k' (List.mem_cons_of_mem _ hk'))
    have hS : ∀ r ∈ evalOrderBy ks rows, okKey wd (evalE k.1 r) = true :=
      fun r hr => h k List.mem_cons_self r ((perm_evalOrderBy ks rows).mem_iff.1 hr)
    have key := pairwise_pySorted (strictWeak_rowKey wd k.1) k.2 (evalOrderBy ks rows) hS ih'
    show (sortByKey k (evalOrderBy ks rows)).Pairwise _
    unfold sortByKey
    refine key.imp ?_
    intro a b hab
    obtain ⟨h1, h2⟩ := hab
    simp only [lexLt, rowLt, Bool.or_eq_false_iff, Bool.and_eq_false_iff, Bool.not_eq_false',
      Bool.not_eq_eq_eq_not, Bool.not_true]
    refine ⟨h1, ?_⟩
    rcases h2 with h2 | h2
    · exact Or.inl (Or.inr h2)
    · exact Or.inr h2

/-! ### rdflib's comparison contains the order SPARQL fixes -/

theorem keyLt_of_sparqlLt {a b : Val} (h : sparqlLt a b = true) : keyLt a b = true := by
  have d := ranks_distinct
  rw [keyLt_eq]
  cases a with
  | none =>
    cases b with
    | none => simp [sparqlLt] at h
    | some y => cases y <;> simp [valRank, d, blt_of_lt, rankVariable, rankBNode, rankIRI, rankLiteral]
  | some x =>
    cases b with
    | none => cases x <;> simp [sparqlLt] at h
    | some y =>
      cases x <;> cases y <;> simp only [sparqlLt, Bool.false_eq_true] at h <;>
        simp [valRank, keyInner, termLt, rankVariable, rankBNode, rankIRI, rankLiteral, Nat.blt] <;> try exact h
      · -- num, num
        rename_i d1 v1 s1 d2 v2 s2
        have h0 : v1 < v2 := by simpa using h
        have h1 : ¬ v2 < v1 := Rat.not_lt.2 (Rat.le_of_lt h0)
        have h2 : v1 ≠ v2 := Rat.ne_of_lt h0
        simp [litLt, litGt, litEqv, h1, h2]
      · -- bool, bool
        rename_i x y
        cases x <;> cases y <;> simp [sparqlLt] at h <;> simp [litLt, litGt, litEqv, Term.dt]
      · -- str, str
        rename_i l1 g1 l2 g2
        cases g1 <;> cases g2 <;> simp only [sparqlLt, Bool.false_eq_true] at h
        have h1 := strLt_asymm _ _ h
        have h2 : l1 ≠ l2 := by intro e; subst e; rw [strLt_irrefl] at h; cases h
        simp [litLt, litGt, litEqv, Term.dt, h1, h2]
      · -- dateTime, dateTime
        rename_i f1 f2
        simp only [Bool.and_eq_true, beq_iff_eq, decide_eq_true_eq] at h
        have h1 : ¬ f2.key < f1.key := by omega
        have h2 : f1.key ≠ f2.key := by omega
        simp [litLt, litGt, litEqv, Term.dt, h.1, h1, h2]

theorem sparqlSame_symm {a b : Val} (h : sparqlSame a b = true) : sparqlSame b a = true := by
  cases a with
  | none => cases b <;> simp_all [sparqlSame]
  | some x =>
    cases b with
    | none => cases x <;> simp_all [sparqlSame]
    | some y =>
      cases x <;> cases y <;> simp only [sparqlSame, beq_iff_eq] at h ⊢ <;> first | exact h.symm | skip
      rename_i f1 f2
      simp only [Bool.or_eq_true, beq_iff_eq, Bool.and_eq_true] at h ⊢
      rcases h with h | ⟨⟨h1, h2⟩, h3⟩
      · exact Or.inl h.symm
      · exact Or.inr ⟨⟨h2, h1⟩, h3.symm⟩

theorem keyLt_false_of_sparqlSame {a b : Val} (h : sparqlSame a b = true) : keyLt a b = false := by
  rw [keyLt_eq]
  cases a with
  | none => cases b <;> simp [sparqlSame] at h <;> simp [keyInner]
  | some x =>
    cases b with
    | none => cases x <;> simp [sparqlSame] at h
    | some y =>
      cases x <;> cases y <;> simp only [sparqlSame, beq_iff_eq, Option.some.injEq, reduceCtorEq] at h <;>
        simp only [valRank, ne_eq, not_true_eq_false, if_false, keyInner]
      all_goals first
        | (rename_i f1 f2
           simp only [Bool.or_eq_true, beq_iff_eq, Bool.and_eq_true] at h
           rcases h with h | ⟨⟨h1, h2⟩, h3⟩
           · rw [h]; exact termLt_irrefl _
           · simp [termLt, litLt, litEqv, h1, h2, h3])
        | (rename_i d1 v1 s1 d2 v2 s2; subst h; simp [termLt, litLt, litEqv])
        | (rw [h]; exact termLt_irrefl _)
        | (injection h with h1 h2; subst h1; try subst h2; exact termLt_irrefl _)

/-- whatever SPARQL demands, the lexicographic key comparison of rdflib demands too -/
theorem lexLt_of_sparqlPrecedes (keys : List (Expr × Bool)) (a b : Row)
    (h : sparqlPrecedes keys a b = true) : lexLt keys a b = true := by
  induction keys with
  | nil => simp [sparqlPrecedes] at h
  | cons k ks ih =>
    simp only [sparqlPrecedes, Bool.or_eq_true, Bool.and_eq_true] at h
    simp only [lexLt, Bool.or_eq_true, Bool.and_eq_true, Bool.not_eq_eq_eq_not, Bool.not_true]
    rcases h with h | ⟨h1, h2⟩
    · left
      cases hk : k.2 <;> simp only [hk, Bool.false_eq_true, if_false, if_true] at h <;>
        simp only [rowLt, dirLt, hk, Bool.false_eq_true, if_false, if_true] <;> exact keyLt_of_sparqlLt h
    · right
      have e1 := keyLt_false_of_sparqlSame h1
      have e2 := keyLt_false_of_sparqlSame (sparqlSame_symm h1)
      refine ⟨⟨?_, ?_⟩, ih h2⟩ <;> cases hk : k.2 <;> simp only [rowLt, dirLt, hk, Bool.false_eq_true, if_false, if_true] <;>
        assumption

end RV.C08
