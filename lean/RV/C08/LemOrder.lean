import RV.C08.LemSort
/-
  C08 — rdflib's sort-key comparison (`_val` + tuple `<` + `Literal.__lt__`) is a strict weak order on the
  modelled key domain `okKey`; it contains the order SPARQL §15.1 fixes.
-/
set_option linter.unusedSimpArgs false
namespace RV.C08

/-! ### strings -/

theorem strLt_irrefl : ∀ a : Str, strLt a a = false
  | [] => rfl
  | x :: xs => by simp [strLt, strLt_irrefl xs]

theorem strLt_asymm : ∀ a b : Str, strLt a b = true → strLt b a = false
  | [], [], h => by simp [strLt] at h
  | [], _ :: _, _ => by simp [strLt]
  | _ :: _, [], h => by simp [strLt] at h
  | x :: xs, y :: ys, h => by
    simp only [strLt, Bool.or_eq_true, decide_eq_true_eq, Bool.and_eq_true, beq_iff_eq] at h
    simp only [strLt, Bool.or_eq_false_iff, decide_eq_false_iff_not, Bool.and_eq_false_iff, beq_eq_false_iff_ne]
    rcases h with h | ⟨rfl, h⟩
    · exact ⟨by omega, Or.inl (by omega)⟩
    · exact ⟨by omega, Or.inr (strLt_asymm xs ys h)⟩

theorem strLt_trans : ∀ a b c : Str, strLt a b = true → strLt b c = true → strLt a c = true
  | [], [], _, h, _ => by simp [strLt] at h
  | [], _ :: _, [], _, h => by simp [strLt] at h
  | [], _ :: _, _ :: _, _, _ => by simp [strLt]
  | _ :: _, [], _, h, _ => by simp [strLt] at h
  | _ :: _, _ :: _, [], _, h => by simp [strLt] at h
  | x :: xs, y :: ys, z :: zs, h1, h2 => by
    simp only [strLt, Bool.or_eq_true, decide_eq_true_eq, Bool.and_eq_true, beq_iff_eq] at h1 h2 ⊢
    rcases h1 with h1 | ⟨rfl, h1⟩
    · rcases h2 with h2 | ⟨rfl, _⟩
      · exact Or.inl (by omega)
      · exact Or.inl h1
    · rcases h2 with h2 | ⟨rfl, h2⟩
      · exact Or.inl h2
      · exact Or.inr ⟨rfl, strLt_trans xs ys zs h1 h2⟩

theorem strLt_total : ∀ a b : Str, a ≠ b → strLt a b = false → strLt b a = true
  | [], [], h, _ => absurd rfl h
  | [], _ :: _, _, h => by simp [strLt] at h
  | _ :: _, [], _, _ => by simp [strLt]
  | x :: xs, y :: ys, hne, h => by
    simp only [strLt, Bool.or_eq_false_iff, decide_eq_false_iff_not, Bool.and_eq_false_iff, beq_eq_false_iff_ne] at h
    simp only [strLt, Bool.or_eq_true, decide_eq_true_eq, Bool.and_eq_true, beq_iff_eq]
    by_cases hxy : x = y
    · subst hxy
      refine Or.inr ⟨rfl, strLt_total xs ys (fun e => hne (by rw [e])) ?_⟩
      rcases h.2 with h | h
      · exact absurd rfl h
      · exact h
    · exact Or.inl (by omega)

/-- a strict total order is a strict weak order -/
theorem StrictWeak.of_total {α : Type} {lt : α → α → Bool} {S : α → Prop}
    (irr : ∀ a, lt a a = false) (tr : ∀ a b c, lt a b = true → lt b c = true → lt a c = true)
    (tot : ∀ a b, a ≠ b → lt a b = false → lt b a = true) : StrictWeak lt S := by
  refine ⟨?_, ?_⟩
  · intro a b _ _ hab
    cases hba : lt b a with
    | false => rfl
    | true => have := tr a b a hab hba; rw [irr] at this; cases this
  · intro a b c _ _ _ hab hbc
    cases hac : lt a c with
    | false => rfl
    | true =>
      by_cases e : a = b
      · subst e; rw [hac] at hbc; cases hbc
      · have hba := tot a b e hab
        have := tr b a c hba hac
        rw [this] at hbc; cases hbc

theorem strictWeak_strLt (S : Str → Prop) : StrictWeak strLt S :=
  StrictWeak.of_total strLt_irrefl strLt_trans strLt_total

/-- lexicographic combination: a rank, then an inner comparison inside each rank -/
theorem StrictWeak.lex {α : Type} {rank : α → Nat} {inner lt : α → α → Bool} {S : α → Prop}
    (hlt : ∀ a b, S a → S b → lt a b = if rank a ≠ rank b then Nat.blt (rank a) (rank b) else inner a b)
    (hasym : ∀ a b, S a → S b → rank a = rank b → inner a b = true → inner b a = false)
    (hnt : ∀ a b c, S a → S b → S c → rank a = rank b → rank b = rank c →
      inner a b = false → inner b c = false → inner a c = false) : StrictWeak lt S := by
  refine ⟨?_, ?_⟩
  · intro a b ha hb hab
    rw [hlt a b ha hb] at hab
    rw [hlt b a hb ha]
    by_cases e : rank a = rank b
    · simp only [e, ne_eq, not_true_eq_false, if_false] at hab ⊢
      simpa [e] using hasym a b ha hb e hab
    · have e' : rank b ≠ rank a := fun h => e h.symm
      simp only [ne_eq, e, not_false_eq_true, if_true, Nat.blt_eq] at hab
      simp only [ne_eq, e', not_false_eq_true, if_true, Bool.eq_false_iff, ne_eq, Nat.blt_eq]
      omega
  · intro a b c ha hb hc hab hbc
    rw [hlt a b ha hb] at hab
    rw [hlt b c hb hc] at hbc
    rw [hlt a c ha hc]
    by_cases e1 : rank a = rank b <;> by_cases e2 : rank b = rank c
    · have e3 : rank a = rank c := e1.trans e2
      simp only [e1, e2, ne_eq, not_true_eq_false, if_false] at hab hbc ⊢
      have := hnt a b c ha hb hc e1 e2 (by simpa [e1] using hab) (by simpa [e2] using hbc)
      simpa [e3] using this
    · simp only [ne_eq, e2, not_false_eq_true, if_true, Bool.eq_false_iff, ne_eq, Nat.blt_eq] at hbc
      have e3 : rank a ≠ rank c := by omega
      simp only [ne_eq, e3, not_false_eq_true, if_true, Bool.eq_false_iff, ne_eq, Nat.blt_eq]
      omega
    · simp only [ne_eq, e1, not_false_eq_true, if_true, Bool.eq_false_iff, ne_eq, Nat.blt_eq] at hab
      have e3 : rank a ≠ rank c := by omega
      simp only [ne_eq, e3, not_false_eq_true, if_true, Bool.eq_false_iff, ne_eq, Nat.blt_eq]
      omega
    · simp only [ne_eq, e1, not_false_eq_true, if_true, Bool.eq_false_iff, ne_eq, Nat.blt_eq] at hab
      simp only [ne_eq, e2, not_false_eq_true, if_true, Bool.eq_false_iff, ne_eq, Nat.blt_eq] at hbc
      have e3 : rank a ≠ rank c := by omega
      simp only [ne_eq, e3, not_false_eq_true, if_true, Bool.eq_false_iff, ne_eq, Nat.blt_eq]
      omega

/-! ### literals -/

theorem blt_of_lt {a b : Nat} (h : a < b) : Nat.blt a b = true := by rw [Nat.blt_eq]; exact h
theorem blt_of_ge {a b : Nat} (h : b ≤ a) : Nat.blt a b = false := by
  rw [Bool.eq_false_iff, ne_eq, Nat.blt_eq]; omega
theorem blt10 : Nat.blt 1 0 = false := rfl
theorem blt01 : Nat.blt 0 1 = true := rfl
theorem blt12 : Nat.blt 1 2 = true := rfl
theorem blt21 : Nat.blt 2 1 = false := rfl
theorem blt02 : Nat.blt 0 2 = true := rfl
theorem blt20 : Nat.blt 2 0 = false := rfl
theorem rank_bool_str : DT.boolean.uriRank < DT.string.uriRank := by decide


theorem rank_chain : DT.boolean.uriRank < DT.date.uriRank ∧ DT.date.uriRank < DT.dateTime.uriRank ∧
    DT.dateTime.uriRank < DT.string.uriRank := by decide

theorem blt_dec (a b : Nat) : Nat.blt a b = decide (a < b) := by
  cases h : decide (a < b) with
  | true => rw [Nat.blt_eq]; simpa using h
  | false => rw [Bool.eq_false_iff, ne_eq, Nat.blt_eq]; simpa using h

def isLit : Term → Bool
  | .num .. => true
  | .bool _ => true
  | .str .. => true
  | .dateTime _ => true
  | .date _ => true
  | _ => false

/-- the classes of literals in the order of their datatype URIs (numerics as one block) -/
def litCls : Term → Nat
  | .bool _ => 0
  | .date _ => 1
  | .dateTime _ => 2
  | .num .. => 3
  | .str .. => 4
  | _ => 5

def litInner : Term → Term → Bool
  | .bool x, .bool y => !x && y
  | .num _ v1 _, .num _ v2 _ => decide (v1 < v2)
  | .str l1 g1, .str l2 g2 => if g1 ≠ g2 then strLt g1 g2 else strLt l1 l2
  | .dateTime f1, .dateTime f2 => if f1.aware ≠ f2.aware then f2.aware else decide (f1.key < f2.key)
  | .date f1, .date f2 => decide (f1.ord < f2.ord)
  | _, _ => false

theorem rat_lt_tricho (a b : Rat) : (!decide (b < a) && !(a == b)) = decide (a < b) := by
  by_cases h : a < b
  · have h1 : ¬ b < a := Rat.not_lt.2 (Rat.le_of_lt h)
    have h2 : a ≠ b := Rat.ne_of_lt h
    simp [h, h1, h2]
  · by_cases e : a = b
    · subst e; simp [Rat.lt_irrefl]
    · have h1 : b < a := Rat.lt_of_le_of_ne (Rat.not_lt.1 h) (fun x => e x.symm)
      simp [h, h1]

theorem int_lt_tricho (a b : Int) : (!decide (b < a) && !(a == b)) = decide (a < b) := by
  by_cases h : a < b
  · have h1 : ¬ b < a := by omega
    have h2 : a ≠ b := by omega
    simp [h, h1, h2]
  · by_cases e : a = b
    · subst e; simp
    · have h1 : b < a := by omega
      simp [h, h1, e]

theorem nat_lt_tricho (a b : Nat) : (!decide (b < a) && !(a == b)) = decide (a < b) := by
  by_cases h : a < b
  · have h1 : ¬ b < a := by omega
    have h2 : a ≠ b := by omega
    simp [h, h1, h2]
  · by_cases e : a = b
    · subst e; simp
    · have h1 : b < a := by omega
      simp [h, h1, e]

theorem okNum {wd : Bool} {d : DT} {v : Rat} {s : Nat} (h : okKey wd (some (.num d v s)) = true) :
    DT.boolean.uriRank < d.uriRank ∧ d.uriRank < DT.string.uriRank ∧ (wd = true → DT.dateTime.uriRank < d.uriRank) := by
  have r := rank_chain
  cases wd
  · simp only [okKey, Bool.false_eq_true, if_false, Bool.and_eq_true, decide_eq_true_eq] at h
    exact ⟨h.1, h.2, fun e => by cases e⟩
  · simp only [okKey, if_true, Bool.and_eq_true, decide_eq_true_eq] at h
    exact ⟨by omega, h.2, fun _ => h.1⟩

theorem okDT {wd : Bool} {f : DTF} (h : okKey wd (some (.dateTime f)) = true) : wd = true := by simpa [okKey] using h
theorem okD {wd : Bool} {f : DF} (h : okKey wd (some (.date f)) = true) : wd = true := by simpa [okKey] using h

/-- on admitted literals `Literal.__lt__` is the lexicographic order (class in datatype-URI order, then the order inside the class) -/
theorem litLt_eq (wd : Bool) (a b : Term) (ha : isLit a = true) (hb : isLit b = true)
    (oa : okKey wd (some a) = true) (ob : okKey wd (some b) = true) :
    litLt a b = if litCls a ≠ litCls b then Nat.blt (litCls a) (litCls b) else litInner a b := by
  have r := rank_chain
  cases a <;> cases b <;> simp only [isLit, Bool.false_eq_true] at ha hb
  · -- num, num
    simp only [litLt, litGt, litEqv, litCls, litInner, ne_eq, not_true_eq_false, if_false]
    exact rat_lt_tricho _ _
  · -- num, bool
    rename_i d v s x
    have h := okNum oa
    have hne : d ≠ DT.boolean := by rintro rfl; omega
    have h1 : ¬ d.uriRank < DT.boolean.uriRank := by omega
    simp [litLt, litGt, litEqv, litCls, Term.dt, hne, blt_dec, h.1, h1]
  · -- num, str
    rename_i d v s l g
    have h := okNum oa
    have hne : d ≠ DT.string := by rintro rfl; omega
    have h1 : ¬ DT.string.uriRank < d.uriRank := by omega
    simp [litLt, litGt, litEqv, litCls, Term.dt, hne, blt_dec, h.2.1, h1]
  · -- num, dateTime
    rename_i d v s f
    have h := (okNum oa).2.2 (okDT ob)
    have hne : d ≠ DT.dateTime := by rintro rfl; omega
    have h1 : ¬ d.uriRank < DT.dateTime.uriRank := by omega
    simp [litLt, litGt, litEqv, litCls, Term.dt, hne, blt_dec, h, h1]
  · -- num, date
    rename_i d v s f
    have h := (okNum oa).2.2 (okD ob)
    have hne : d ≠ DT.date := by rintro rfl; omega
    have h1 : ¬ d.uriRank < DT.date.uriRank := by omega
    have h2 : DT.date.uriRank < d.uriRank := by omega
    simp [litLt, litGt, litEqv, litCls, Term.dt, hne, blt_dec, h2, h1]
  · -- bool, num
    rename_i x d v s
    have h := okNum ob
    have hne : DT.boolean ≠ d := by rintro rfl; omega
    have h1 : ¬ d.uriRank < DT.boolean.uriRank := by omega
    simp [litLt, litGt, litEqv, litCls, Term.dt, hne, blt_dec, h.1, h1]
  · -- bool, bool
    rename_i x y
    cases x <;> cases y <;> simp [litLt, litGt, litEqv, litCls, litInner, Term.dt]
  · -- bool, str
    simp [litLt, litGt, litEqv, litCls, Term.dt, blt_dec]; decide
  · -- bool, dateTime
    simp [litLt, litGt, litEqv, litCls, Term.dt, blt_dec]; decide
  · -- bool, date
    simp [litLt, litGt, litEqv, litCls, Term.dt, blt_dec]; decide
  · -- str, num
    rename_i l g d v s
    have h := okNum ob
    have hne : DT.string ≠ d := by rintro rfl; omega
    have h1 : ¬ DT.string.uriRank < d.uriRank := by omega
    simp [litLt, litGt, litEqv, litCls, Term.dt, hne, blt_dec, h.2.1, h1]
  · -- str, bool
    simp [litLt, litGt, litEqv, litCls, Term.dt, blt_dec]; decide
  · -- str, str
    rename_i l1 g1 l2 g2
    simp only [litLt, litGt, litEqv, litCls, litInner, Term.dt, ne_eq, not_true_eq_false, if_false]
    by_cases hg : g1 = g2
    · subst hg
      simp only [not_true_eq_false, if_false, beq_self_eq_true, Bool.true_and]
      by_cases hl : l1 = l2
      · subst hl; simp [strLt_irrefl]
      · cases h : strLt l2 l1 with
        | true => simp [strLt_asymm _ _ h]
        | false => simp [strLt_total _ _ (fun e => hl e.symm) h, hl]
    · have hg' : (g1 == g2) = false := by simpa using hg
      simp only [hg, not_false_eq_true, if_true, hg', Bool.false_and, Bool.not_false, Bool.and_true]
      by_cases h1 : g1 = []
      · subst h1
        cases g2 with
        | nil => exact absurd rfl hg
        | cons c cs => simp [strLt]
      · by_cases h2 : g2 = []
        · subst h2
          cases g1 with
          | nil => exact absurd rfl h1
          | cons c cs => simp [strLt]
        · simp only [h1, h2, if_false]
          cases h : strLt g2 g1 with
          | true => simp [strLt_asymm _ _ h]
          | false => simp [strLt_total _ _ (fun e => hg e.symm) h]
  · -- str, dateTime
    simp [litLt, litGt, litEqv, litCls, Term.dt, blt_dec]; decide
  · -- str, date
    simp [litLt, litGt, litEqv, litCls, Term.dt, blt_dec]; decide
  · -- dateTime, num
    rename_i f d v s
    have h := (okNum ob).2.2 (okDT oa)
    have hne : DT.dateTime ≠ d := by rintro rfl; omega
    have h1 : ¬ d.uriRank < DT.dateTime.uriRank := by omega
    simp [litLt, litGt, litEqv, litCls, Term.dt, hne, blt_dec, h, h1]
  · -- dateTime, bool
    simp [litLt, litGt, litEqv, litCls, Term.dt, blt_dec]; decide
  · -- dateTime, str
    simp [litLt, litGt, litEqv, litCls, Term.dt, blt_dec]; decide
  · -- dateTime, dateTime
    rename_i f1 f2
    simp only [litLt, litGt, litEqv, litCls, litInner, Term.dt, ne_eq, not_true_eq_false, if_false]
    generalize f1.key = k1
    generalize f2.key = k2
    generalize f1.aware = a1
    generalize f2.aware = a2
    cases a1 <;> cases a2 <;> simp
    · exact int_lt_tricho k1 k2
    · exact int_lt_tricho k1 k2
  · -- dateTime, date
    simp [litLt, litGt, litEqv, litCls, Term.dt, blt_dec]; decide
  · -- date, num
    rename_i f d v s
    have h := (okNum ob).2.2 (okD oa)
    have hne : DT.date ≠ d := by rintro rfl; omega
    have h1 : ¬ d.uriRank < DT.date.uriRank := by omega
    have h2 : DT.date.uriRank < d.uriRank := by omega
    simp [litLt, litGt, litEqv, litCls, Term.dt, hne, blt_dec, h2, h1]
  · -- date, bool
    simp [litLt, litGt, litEqv, litCls, Term.dt, blt_dec]; decide
  · -- date, str
    simp [litLt, litGt, litEqv, litCls, Term.dt, blt_dec]; decide
  · -- date, dateTime
    simp [litLt, litGt, litEqv, litCls, Term.dt, blt_dec]; decide
  · -- date, date
    rename_i f1 f2
    simp only [litLt, litGt, litEqv, litCls, litInner, Term.dt, ne_eq, not_true_eq_false, if_false]
    exact nat_lt_tricho _ _

/-- lexicographic order on (language tag, lexical form) -/
def pairLt (a b : Str × Str) : Bool := if a.1 ≠ b.1 then strLt a.1 b.1 else strLt a.2 b.2

theorem strictWeak_pairLt (S : Str × Str → Prop) : StrictWeak pairLt S := by
  apply StrictWeak.of_total
  · intro a; simp [pairLt, strLt_irrefl]
  · intro a b c h1 h2
    obtain ⟨g1, l1⟩ := a
    obtain ⟨g2, l2⟩ := b
    obtain ⟨g3, l3⟩ := c
    simp only [pairLt] at h1 h2 ⊢
    by_cases e1 : g1 = g2 <;> by_cases e2 : g2 = g3
    · subst e1; subst e2
      simp only [ne_eq, not_true_eq_false, if_false] at h1 h2 ⊢
      exact strLt_trans _ _ _ h1 h2
    · subst e1
      simp only [ne_eq, not_true_eq_false, if_false, e2, not_false_eq_true, if_true] at h1 h2 ⊢
      exact h2
    · subst e2
      simp only [ne_eq, not_true_eq_false, if_false, e1, not_false_eq_true, if_true] at h1 h2 ⊢
      exact h1
    · simp only [ne_eq, e1, e2, not_false_eq_true, if_true] at h1 h2
      have h3 := strLt_trans _ _ _ h1 h2
      have e3 : ¬ g1 = g3 := by
        intro e; subst e; rw [strLt_asymm _ _ h1] at h2; cases h2
      simp only [ne_eq, e3, not_false_eq_true, if_true]
      exact h3
  · intro a b hne h
    obtain ⟨g1, l1⟩ := a
    obtain ⟨g2, l2⟩ := b
    simp only [pairLt] at h ⊢
    by_cases e1 : g1 = g2
    · subst e1
      simp only [ne_eq, not_true_eq_false, if_false] at h ⊢
      refine strLt_total _ _ ?_ h
      intro e; exact hne (by rw [e])
    · have e2 : ¬ g2 = g1 := fun e => e1 e.symm
      simp only [ne_eq, e1, e2, not_false_eq_true, if_true] at h ⊢
      exact strLt_total _ _ e1 h

theorem strictWeak_ratLt (S : Rat → Prop) : StrictWeak (fun a b : Rat => decide (a < b)) S := by
  refine ⟨?_, ?_⟩
  · intro a b _ _ h
    simp only [decide_eq_true_eq] at h
    simp only [decide_eq_false_iff_not]
    exact Rat.not_lt.2 (Rat.le_of_lt h)
  · intro a b c _ _ _ h1 h2
    simp only [decide_eq_false_iff_not] at h1 h2 ⊢
    exact Rat.not_lt.2 (Rat.le_trans (Rat.not_lt.1 h2) (Rat.not_lt.1 h1))

/-- the set of literals on which the comparison is well behaved -/
def LitOk (wd : Bool) (t : Term) : Prop := isLit t = true ∧ okKey wd (some t) = true

theorem dtInner_asymm (a1 a2 : Bool) (k1 k2 : Int)
    (h : (if a1 ≠ a2 then a2 else decide (k1 < k2)) = true) : (if a2 ≠ a1 then a1 else decide (k2 < k1)) = false := by
  cases a1 <;> cases a2 <;> simp at h ⊢ <;> omega

theorem dtInner_ntrans (a1 a2 a3 : Bool) (k1 k2 k3 : Int)
    (h1 : (if a1 ≠ a2 then a2 else decide (k1 < k2)) = false) (h2 : (if a2 ≠ a3 then a3 else decide (k2 < k3)) = false) :
    (if a1 ≠ a3 then a3 else decide (k1 < k3)) = false := by
  cases a1 <;> cases a2 <;> cases a3 <;> simp at h1 h2 ⊢ <;> omega

theorem strictWeak_litLt (wd : Bool) : StrictWeak litLt (LitOk wd) := by
  apply StrictWeak.lex (rank := litCls) (inner := litInner)
  · intro a b ha hb; exact litLt_eq wd a b ha.1 hb.1 ha.2 hb.2
  · intro a b ha hb hr h
    cases a <;> cases b <;> simp only [isLit, LitOk, Bool.false_eq_true, false_and] at ha hb <;>
      simp only [litCls] at hr <;> try omega
    · exact (strictWeak_ratLt (fun _ => True)).asymm _ _ trivial trivial h
    · rename_i x y; revert h; cases x <;> cases y <;> simp [litInner]
    · rename_i l1 g1 l2 g2
      exact (strictWeak_pairLt (fun _ => True)).asymm (g1, l1) (g2, l2) trivial trivial h
    · exact dtInner_asymm _ _ _ _ h
    · simp only [litInner, decide_eq_true_eq, decide_eq_false_iff_not] at h ⊢; omega
  · intro a b c ha hb hc hr1 hr2 h1 h2
    cases a <;> cases b <;> simp only [isLit, LitOk, Bool.false_eq_true, false_and] at ha hb <;>
      simp only [litCls] at hr1 <;> (try omega) <;>
      cases c <;> simp only [isLit, LitOk, Bool.false_eq_true, false_and] at hc <;>
      simp only [litCls] at hr2 <;> try omega
    · exact (strictWeak_ratLt (fun _ => True)).ntrans _ _ _ trivial trivial trivial h1 h2
    · rename_i x y z; revert h1 h2; cases x <;> cases y <;> cases z <;> simp [litInner]
    · rename_i l1 g1 l2 g2 l3 g3
      exact (strictWeak_pairLt (fun _ => True)).ntrans (g1, l1) (g2, l2) (g3, l3) trivial trivial trivial h1 h2
    · exact dtInner_ntrans _ _ _ _ _ _ h1 h2
    · simp only [litInner, decide_eq_false_iff_not] at h1 h2 ⊢; omega

/-! ### terms and keys -/

theorem litLt_irrefl (x : Term) (h : isLit x = true) : litLt x x = false := by
  cases x <;> simp only [isLit, Bool.false_eq_true] at h <;> simp [litLt, litEqv]

theorem termLt_lit (x y : Term) (hx : isLit x = true) (hy : isLit y = true) : termLt x y = litLt x y := by
  cases x <;> cases y <;> simp only [isLit, Bool.false_eq_true] at hx hy <;> rfl

theorem termLt_irrefl (x : Term) : termLt x x = false := by
  cases x
  · simp [termLt, strLt_irrefl]
  · simp [termLt, strLt_irrefl]
  all_goals (rw [termLt_lit _ _ rfl rfl]; exact litLt_irrefl _ rfl)

def keyInner : Val → Val → Bool
  | some x, some y => termLt x y
  | _, _ => false

theorem keyLt_eq (a b : Val) :
    keyLt a b = if valRank a ≠ valRank b then Nat.blt (valRank a) (valRank b) else keyInner a b := by
  unfold keyLt
  split
  · rfl
  · cases a with
    | none => cases b <;> simp only [keyInner]
    | some x =>
      cases b with
      | none => simp only [keyInner]
      | some y =>
        simp only [keyInner]
        by_cases e : x = y
        · subst e; simp [termLt_irrefl]
        · simp [e]

theorem ranks_distinct : rankVariable ≠ rankBNode ∧ rankVariable ≠ rankIRI ∧ rankVariable ≠ rankLiteral ∧
    rankBNode ≠ rankIRI ∧ rankBNode ≠ rankLiteral ∧ rankIRI ≠ rankLiteral := by decide

/-- the kind of a key: 0 unbound, 1 blank node, 2 IRI, 3 literal (independent of the numbers in `_val`) -/
def kindOf : Val → Nat
  | none => 0
  | some (.bnode _) => 1
  | some (.iri _) => 2
  | some _ => 3

theorem kind_of_rank {a b : Val} (h : valRank a = valRank b) : kindOf a = kindOf b := by
  have d := ranks_distinct
  cases a with
  | none =>
    cases b with
    | none => rfl
    | some y => cases y <;> simp only [valRank] at h <;> simp_all
  | some x =>
    cases b with
    | none => cases x <;> simp only [valRank] at h <;> simp_all
    | some y => cases x <;> cases y <;> simp only [valRank] at h <;> first | rfl | simp_all

theorem isLit_of_kind {x : Term} (h : kindOf (some x) = 3) : isLit x = true := by
  cases x <;> simp [kindOf] at h <;> rfl

theorem kind_lit {x : Term} (h : isLit x = true) : kindOf (some x) = 3 := by
  cases x <;> simp only [isLit, Bool.false_eq_true] at h <;> rfl

theorem lit_of_kind {x : Term} (h : kindOf (some x) = 3) : isLit x = true := by
  cases x <;> simp only [kindOf] at h <;> first | rfl | omega

/-- rdflib's sort-key comparison is a strict weak order on the keys `okKey` admits -/
theorem strictWeak_keyLt (wd : Bool) : StrictWeak keyLt (fun v => okKey wd v = true) := by
  apply StrictWeak.lex (rank := valRank) (inner := keyInner)
  · intro a b _ _; exact keyLt_eq a b
  · intro a b ha hb hr h
    have hk := kind_of_rank hr
    cases a with
    | none => simp [keyInner] at h
    | some x =>
      cases b with
      | none => simp [keyInner] at h
      | some y =>
        simp only [keyInner] at h ⊢
        by_cases hx : isLit x = true
        · have hy : isLit y = true := lit_of_kind (by rw [← hk]; exact kind_lit hx)
          rw [termLt_lit _ _ hx hy] at h
          rw [termLt_lit _ _ hy hx]
          exact (strictWeak_litLt wd).asymm _ _ ⟨hx, ha⟩ ⟨hy, hb⟩ h
        · cases x <;> simp only [isLit, not_true_eq_false] at hx <;>
            cases y <;> simp only [kindOf] at hk <;> (try omega) <;> exact strLt_asymm _ _ h
  · intro a b c ha hb hc hr1 hr2 h1 h2
    have hk1 := kind_of_rank hr1
    have hk2 := kind_of_rank hr2
    cases a with
    | none => simp [keyInner]
    | some x =>
      cases c with
      | none => simp [keyInner]
      | some z =>
        cases b with
        | none => cases x <;> simp [kindOf] at hk1
        | some y =>
          simp only [keyInner] at h1 h2 ⊢
          by_cases hx : isLit x = true
          · have hy : isLit y = true := lit_of_kind (by rw [← hk1]; exact kind_lit hx)
            have hz : isLit z = true := lit_of_kind (by rw [← hk2]; exact kind_lit hy)
            rw [termLt_lit _ _ hx hy] at h1
            rw [termLt_lit _ _ hy hz] at h2
            rw [termLt_lit _ _ hx hz]
            exact (strictWeak_litLt wd).ntrans _ _ _ ⟨hx, ha⟩ ⟨hy, hb⟩ ⟨hz, hc⟩ h1 h2
          · cases x <;> simp only [isLit, not_true_eq_false] at hx <;>
              cases y <;> simp only [kindOf] at hk1 <;> (try omega) <;>
              cases z <;> simp only [kindOf] at hk2 <;> (try omega) <;>
              exact (strictWeak_strLt (fun _ => True)).ntrans _ _ _ trivial trivial trivial h1 h2

/-! ### `>` is the converse of `<` on the admitted keys (Python's `max` uses `>`, `min` and `sorted` use `<`) -/

theorem litGt_flip (wd : Bool) (a b : Term) (ha : isLit a = true) (hb : isLit b = true)
    (oa : okKey wd (some a) = true) (ob : okKey wd (some b) = true) : litGt a b = litLt b a := by
  rw [litLt_eq wd b a hb ha ob oa]
  have r := rank_chain
  cases a <;> cases b <;> simp only [isLit, Bool.false_eq_true] at ha hb
  · -- num, num
    simp only [litGt, litCls, litInner, ne_eq, not_true_eq_false, if_false]
  · rename_i d v s x
    have h := okNum oa
    have hne : d ≠ DT.boolean := by rintro rfl; omega
    simp [litGt, litCls, Term.dt, hne, blt_dec, h.1]
  · rename_i d v s l g
    have h := okNum oa
    have hne : d ≠ DT.string := by rintro rfl; omega
    have h1 : ¬ DT.string.uriRank < d.uriRank := by omega
    simp [litGt, litCls, Term.dt, hne, blt_dec, h1]
  · rename_i d v s f
    have h := (okNum oa).2.2 (okDT ob)
    have hne : d ≠ DT.dateTime := by rintro rfl; omega
    simp [litGt, litCls, Term.dt, hne, blt_dec, h]
  · rename_i d v s f
    have h := (okNum oa).2.2 (okD ob)
    have hne : d ≠ DT.date := by rintro rfl; omega
    have h2 : DT.date.uriRank < d.uriRank := by omega
    simp [litGt, litCls, Term.dt, hne, blt_dec, h2]
  · rename_i x d v s
    have h := okNum ob
    have hne : DT.boolean ≠ d := by rintro rfl; omega
    have h1 : ¬ d.uriRank < DT.boolean.uriRank := by omega
    simp [litGt, litCls, Term.dt, hne, blt_dec, h1]
  · rename_i x y
    cases x <;> cases y <;> simp [litGt, litCls, litInner, Term.dt]
  · simp [litGt, litCls, Term.dt, blt_dec]; decide
  · simp [litGt, litCls, Term.dt, blt_dec]; decide
  · simp [litGt, litCls, Term.dt, blt_dec]; decide
  · rename_i l g d v s
    have h := okNum ob
    have hne : DT.string ≠ d := by rintro rfl; omega
    simp [litGt, litCls, Term.dt, hne, blt_dec, h.2.1]
  · simp [litGt, litCls, Term.dt, blt_dec]; decide
  · rename_i l1 g1 l2 g2
    simp only [litGt, litCls, litInner, Term.dt, ne_eq, not_true_eq_false, if_false]
    by_cases hg : g1 = g2
    · subst hg; simp
    · have hg' : ¬ g2 = g1 := fun e => hg e.symm
      simp only [hg, hg', not_false_eq_true, if_true]
      by_cases h1 : g1 = []
      · subst h1
        cases g2 with
        | nil => exact absurd rfl hg
        | cons c cs => simp [strLt]
      · by_cases h2 : g2 = []
        · subst h2
          cases g1 with
          | nil => exact absurd rfl h1
          | cons c cs => simp [strLt]
        · simp [h1, h2]
  · simp [litGt, litCls, Term.dt, blt_dec]; decide
  · simp [litGt, litCls, Term.dt, blt_dec]; decide
  · rename_i f d v s
    have h := (okNum ob).2.2 (okDT oa)
    have hne : DT.dateTime ≠ d := by rintro rfl; omega
    have h1 : ¬ d.uriRank < DT.dateTime.uriRank := by omega
    simp [litGt, litCls, Term.dt, hne, blt_dec, h1]
  · simp [litGt, litCls, Term.dt, blt_dec]; decide
  · simp [litGt, litCls, Term.dt, blt_dec]; decide
  · rename_i f1 f2
    simp only [litGt, litCls, litInner, Term.dt, ne_eq, not_true_eq_false, if_false]
    generalize f1.aware = a1
    generalize f2.aware = a2
    cases a1 <;> cases a2 <;> simp
  · simp [litGt, litCls, Term.dt, blt_dec]; decide
  · rename_i f d v s
    have h := (okNum ob).2.2 (okD oa)
    have hne : DT.date ≠ d := by rintro rfl; omega
    have h1 : ¬ d.uriRank < DT.date.uriRank := by omega
    simp [litGt, litCls, Term.dt, hne, blt_dec, h1]
  · simp [litGt, litCls, Term.dt, blt_dec]; decide
  · simp [litGt, litCls, Term.dt, blt_dec]; decide
  · simp [litGt, litCls, Term.dt, blt_dec]; decide
  · simp only [litGt, litCls, litInner, Term.dt, ne_eq, not_true_eq_false, if_false]

theorem termGt_flip (wd : Bool) (x y : Term) (hk : kindOf (some x) = kindOf (some y))
    (ox : okKey wd (some x) = true) (oy : okKey wd (some y) = true) : termGt x y = termLt y x := by
  by_cases hx : isLit x = true
  · have hy : isLit y = true := lit_of_kind (by rw [← hk]; exact kind_lit hx)
    rw [termLt_lit _ _ hy hx, ← litGt_flip wd x y hx hy ox oy]
    cases x <;> cases y <;> simp only [isLit, Bool.false_eq_true] at hx hy <;> rfl
  · cases x <;> simp only [isLit, not_true_eq_false] at hx <;>
      cases y <;> simp only [kindOf] at hk <;> (try omega) <;> rfl

theorem keyGt_flip (wd : Bool) (a b : Val) (oa : okKey wd a = true) (ob : okKey wd b = true) : keyGt a b = keyLt b a := by
  unfold keyGt keyLt
  by_cases hr : valRank a = valRank b
  · have h1 : ¬ (valRank a ≠ valRank b) := fun h => h hr
    have h2 : ¬ (valRank b ≠ valRank a) := fun h => h hr.symm
    rw [if_neg h1, if_neg h2]
    cases a with
    | none => cases b <;> rfl
    | some x =>
      cases b with
      | none => rfl
      | some y =>
        simp only
        by_cases e : x = y
        · subst e; simp
        · have e' : ¬ y = x := fun h => e h.symm
          simp only [e, e', if_false]
          exact termGt_flip wd x y (kind_of_rank hr) oa ob
  · have h1 : valRank a ≠ valRank b := hr
    have h2 : valRank b ≠ valRank a := fun h => hr h.symm
    rw [if_pos h1, if_pos h2]

end RV.C08
