import RV.C08.Model
/-
  C08 — specification side: SPARQL 1.1 §15.1 (order), §18.5 (Distinct, Project, Slice, OrderBy,
  Group/Aggregation/AggregateJoin) and §18.5.1 (set functions), as simple definitions.
-/
namespace RV.C08

variable {α : Type}

/-! ### §15.1 — what SPARQL fixes about the order of two sort-key values -/

/-- the part of the order that SPARQL fixes: no value < blank node < IRI < literal; IRIs by code points;
    numerics by value; plain strings by code points; false < true; two xsd:dateTime values that both have or both
    lack a timezone chronologically (op:dateTime-less-than; with and without timezone is indeterminate).
    Everything else (xsd:date among others: no `<` in the SPARQL operator table) is left open (`false`). -/
def sparqlLt : Val → Val → Bool
  | none, some _ => true
  | some (.bnode _), some (.iri _) => true
  | some (.bnode _), some (.num ..) => true
  | some (.bnode _), some (.bool _) => true
  | some (.bnode _), some (.str ..) => true
  | some (.bnode _), some (.dateTime _) => true
  | some (.bnode _), some (.date _) => true
  | some (.iri _), some (.num ..) => true
  | some (.iri _), some (.bool _) => true
  | some (.iri _), some (.str ..) => true
  | some (.iri _), some (.dateTime _) => true
  | some (.iri _), some (.date _) => true
  | some (.iri a), some (.iri b) => strLt a b
  | some (.num _ v1 _), some (.num _ v2 _) => decide (v1 < v2)
  | some (.str l1 []), some (.str l2 []) => strLt l1 l2
  | some (.bool false), some (.bool true) => true
  | some (.dateTime f1), some (.dateTime f2) => f1.aware == f2.aware && decide (f1.key < f2.key)
  | _, _ => false

/-- two key values between which SPARQL sees no difference: the same term, numerically equal, or the same
    instant written with two UTC offsets -/
def sparqlSame : Val → Val → Bool
  | some (.num _ v1 _), some (.num _ v2 _) => v1 == v2
  | some (.dateTime f1), some (.dateTime f2) => f1 == f2 || (f1.aware && f2.aware && f1.key == f2.key)
  | a, b => a == b

/-- the comparator one ORDER BY pass sorts by: `lt` ascending, its converse with `reverse=True` -/
def dirLt (lt : α → α → Bool) (rev : Bool) (a b : α) : Bool := if rev then lt b a else lt a b

/-- rows compared on one sort key (expression, DESC?) with rdflib's key comparison -/
def rowLt (k : Expr × Bool) (a b : Row) : Bool :=
  dirLt (fun x y => keyLt (evalE k.1 x) (evalE k.1 y)) k.2 a b

/-- lexicographic combination of the sort keys -/
def lexLt : List (Expr × Bool) → Row → Row → Bool
  | [], _, _ => false
  | k :: ks, a, b => rowLt k a b || (!rowLt k a b && !rowLt k b a && lexLt ks a b)

/-- SPARQL demands row `a` before row `b`: the keys before position `i` show no difference and
    key `i` is ordered by §15.1 (the other way round for DESC) -/
def sparqlPrecedes : List (Expr × Bool) → Row → Row → Bool
  | [], _, _ => false
  | k :: ks, a, b =>
    (if k.2 then sparqlLt (evalE k.1 b) (evalE k.1 a) else sparqlLt (evalE k.1 a) (evalE k.1 b)) ||
    (sparqlSame (evalE k.1 a) (evalE k.1 b) && sparqlPrecedes ks a b)

/-- key values on which rdflib's comparison is a strict weak order (known finding C08-K1): all numeric
    datatypes must lie on one side of every other datatype in the order of the datatype URIs.
    `wd = false`: no xsd:date / xsd:dateTime keys, numeric datatype URIs between xsd:boolean and xsd:string (all but
    xsd:unsigned*); `wd = true`: date / dateTime keys admitted, numeric datatype URIs between xsd:dateTime and
    xsd:string (all but xsd:byte and xsd:unsigned*: `byte < date < decimal` by URI, but `decimal 1 < byte 5` by value) -/
def okKey (wd : Bool) : Val → Bool
  | some (.num d _ _) =>
    decide ((if wd then DT.dateTime.uriRank else DT.boolean.uriRank) < d.uriRank) && decide (d.uriRank < DT.string.uriRank)
  | some (.dateTime _) => wd
  | some (.date _) => wd
  | _ => true

/-! ### §18.5 Distinct: first occurrences -/

def firstOcc [DecidableEq α] : List α → List α
  | [] => []
  | x :: xs => x :: (firstOcc xs).filter (· ≠ x)

/-! ### §18.5 Group / Aggregation / AggregateJoin -/

/-- ListEval of the GROUP BY expressions: the key of a solution (an error is no value) -/
def keyOf (keys : List Expr) (r : Row) : Key := keys.map (fun e => evalE e r)

/-- one accumulator fed with the solutions of a group, in order -/
def accRun (a : AggSpec) (rows : List Row) : AccSt := rows.foldl (fun st r => st.update a r) (initAcc a)

/-- the value an aggregate takes on a group (`none` = unbound) -/
def aggValue (a : AggSpec) (rows : List Row) : Val := (accRun a rows).value a

/-- all accumulators of an Aggregator fed with the solutions of a group -/
def foldAcc (A : List AggSpec) (rows : List Row) : List AccSt := rows.foldl (updateAll A) (A.map initAcc)

/-- the values of the aggregate's argument over the group, errors (unbound, type errors) left out -/
def argVals (a : AggSpec) (rows : List Row) : List Term := rows.filterMap (fun r => evalE a.arg r)

def dedupIf [DecidableEq α] (d : Bool) (xs : List α) : List α := if d then firstOcc xs else xs

def sumRat : List Rat → Rat
  | [] => 0
  | x :: xs => x + sumRat xs

/-- one step of a running sum as CPython computes it: `acc.1` = "the running value is a `float`" (some operand so
    far was an xsd:double / xsd:float), `acc.2` = the running value.  Once a float is involved both operands are
    converted to binary64 and the exact sum is rounded to binary64 (`addNum`). -/
def sumStep (acc : Bool × Rat) (n : DT × Rat × Nat) : Bool × Rat :=
  (acc.1 || n.1.isFloating, addNum (acc.1 || n.1.isFloating) acc.2 n.2.1)

/-- the running sum over the numeric arguments LEFT TO RIGHT, from the integer 0 -/
def sumLR (ns : List (DT × Rat × Nat)) : Rat := (ns.foldl sumStep (false, 0)).2

/-- the numeric ones among the argument values (before DISTINCT) -/
def numTerms (a : AggSpec) (rows : List Row) : List Term :=
  (argVals a rows).filter (fun t => (numericOf t).isSome)

/-- the numeric ones among the (DISTINCT) argument values: (datatype, value, scale) -/
def numArgs (a : AggSpec) (rows : List Row) : List (DT × Rat × Nat) :=
  (dedupIf a.dist (numTerms a rows)).filterMap numericOf

/-- `m` is a least element of `vals` for rdflib's key comparison (nothing in `vals` is below it) -/
def IsMinOf (m : Term) (vals : List Term) : Prop := m ∈ vals ∧ ∀ t ∈ vals, keyLt (some t) (some m) = false

/-- `m` is a greatest element of `vals` (it is below nothing in `vals`) -/
def IsMaxOf (m : Term) (vals : List Term) : Prop := m ∈ vals ∧ ∀ t ∈ vals, keyLt (some m) (some t) = false

/-- datatype of a sum: XPath numeric promotion, starting from the integer zero -/
def promoteAll : DT → List DT → DT
  | d, [] => d
  | d, x :: xs => promoteAll ((typePromotion d x).getD d) xs

def numericBase : List DT := [.integer, .decimal, .float, .double]

def maxScale : List Nat → Nat
  | [] => 0
  | x :: xs => max x (maxScale xs)

/-- §18.2.4.1 read as an evaluator: the value of a SELECT / HAVING / ORDER BY expression on a group.
    Aggregates are computed over the group's solutions; a variable outside an aggregate is SAMPLEd from the
    group, except the aliases `keep` of SELECT expressions, which are read from the row `g` being built. -/
def evalG (keep : List Nat) (rows : List Row) (g : Row) : Expr → Val
  | .var v => if keep.contains v then g.get v else aggValue ⟨.sample, false, false, .var v, none, 0⟩ rows
  | .const t => some t
  | .add a b => arith true (evalG keep rows g a) (evalG keep rows g b)
  | .sub a b => arith false (evalG keep rows g a) (evalG keep rows g b)
  | .cmp op a b => cmpE op (evalG keep rows g a) (evalG keep rows g b)
  | .and a b => andE (evalG keep rows g a) (evalG keep rows g b)
  | .agg k d s arg sep => aggValue ⟨k, d, s, arg, sep, 0⟩ rows

/-- two lists of the same length, related position by position -/
inductive Forall2 {α β : Type} (R : α → β → Prop) : List α → List β → Prop
  | nil : Forall2 R [] []
  | cons {a : α} {b : β} {as : List α} {bs : List β} : R a b → Forall2 R as bs → Forall2 R (a :: as) (b :: bs)

/-- a SELECT item and its rewritten form agree on a group: same name, and the rewritten expression
    evaluates on the group's row `g` to what the original expression means on the group -/
def ProjAgrees (rows : List Row) (g : Row) : Proj → Proj → Prop
  | .var v, .var v' => v = v'
  | .expr v e, .expr v' e' => v = v' ∧ evalE e' g = evalG [v] rows g e
  | _, _ => False

def KeyAgrees (keep : List Nat) (rows : List Row) (g : Row) (k k' : Expr × Bool) : Prop :=
  k.2 = k'.2 ∧ evalE k'.1 g = evalG keep rows g k.1

/-- MIN: unbound for no values; else a value of the group that no value of the group precedes in the SPARQL order -/
def minOk (v : Val) (vals : List Term) : Bool :=
  match v with
  | none => vals.isEmpty
  | some m => vals.contains m && vals.all (fun t => !sparqlLt (some t) (some m))

/-- MAX: unbound for no values; else a value of the group that precedes no value of the group -/
def maxOk (v : Val) (vals : List Term) : Bool :=
  match v with
  | none => vals.isEmpty
  | some m => vals.contains m && vals.all (fun t => !sparqlLt (some m) (some t))

end RV.C08
