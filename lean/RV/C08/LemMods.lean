import RV.C08.Spec
/-
  C08 — Slice, Distinct, Reduced, Project: the evaluation functions against their §18.5 definitions.
-/
set_option linter.unusedSimpArgs false
namespace RV.C08

variable {α : Type}

theorem islice_some (start stop : Nat) : ∀ (xs : List α) (i : Nat),
    islice start (some stop) i xs = ((xs.drop (start - i)).take (stop - max start i)) := by
  intro xs
  induction xs with
  | nil => intro i; simp [islice]
  | cons x xs ih =>
    intro i
    simp only [islice]
    by_cases h1 : stop ≤ i
    · have : stop - max start i = 0 := by omega
      simp [h1, this]
    · simp only [h1, decide_false, Bool.false_eq_true, if_false]
      by_cases h2 : i < start
      · simp only [h2, if_true]
        rw [ih (i + 1)]
        have e1 : start - i = (start - (i + 1)) + 1 := by omega
        have e2 : max start (i + 1) = max start i := by omega
        rw [e1, List.drop_succ_cons, e2]
      · simp only [h2, if_false]
        rw [ih (i + 1)]
        have e1 : start - i = 0 := by omega
        have e2 : start - (i + 1) = 0 := by omega
        have e3 : stop - max start i = (stop - max start (i + 1)) + 1 := by omega
        rw [e1, e2, e3]
        simp

theorem islice_none (start : Nat) : ∀ (xs : List α) (i : Nat),
    islice start none i xs = xs.drop (start - i) := by
  intro xs
  induction xs with
  | nil => intro i; simp [islice]
  | cons x xs ih =>
    intro i
    simp only [islice, Bool.false_eq_true, if_false]
    by_cases h2 : i < start
    · simp only [h2, if_true]
      rw [ih (i + 1)]
      have e1 : start - i = (start - (i + 1)) + 1 := by omega
      rw [e1, List.drop_succ_cons]
    · simp only [h2, if_false]
      rw [ih (i + 1)]
      have e1 : start - i = 0 := by omega
      have e2 : start - (i + 1) = 0 := by omega
      rw [e1, e2]
      simp

/-! ### Distinct -/

section
variable [DecidableEq α]

theorem mem_firstOcc (x : α) : ∀ xs : List α, x ∈ firstOcc xs ↔ x ∈ xs := by
  intro xs
  induction xs with
  | nil => simp [firstOcc]
  | cons y ys ih =>
    simp only [firstOcc, List.mem_cons, List.mem_filter, ih, ne_eq, decide_not, Bool.not_eq_eq_eq_not,
      Bool.not_true, decide_eq_false_iff_not]
    constructor
    · rintro (h | h)
      · exact Or.inl h
      · exact Or.inr h.1
    · rintro (h | h)
      · exact Or.inl h
      · by_cases e : x = y
        · exact Or.inl e
        · exact Or.inr ⟨h, e⟩

theorem nodup_firstOcc : ∀ xs : List α, (firstOcc xs).Nodup := by
  intro xs
  induction xs with
  | nil => simp [firstOcc]
  | cons y ys ih =>
    simp only [firstOcc, List.nodup_cons, List.mem_filter, ne_eq, decide_not, Bool.not_eq_eq_eq_not,
      Bool.not_true, decide_eq_false_iff_not, not_and]
    refine ⟨fun _ h => h trivial, ?_⟩
    exact List.Nodup.sublist List.filter_sublist ih

theorem sublist_firstOcc : ∀ xs : List α, (firstOcc xs).Sublist xs := by
  intro xs
  induction xs with
  | nil => simp [firstOcc]
  | cons y ys ih =>
    simp only [firstOcc]
    exact List.Sublist.cons_cons y (List.Sublist.trans List.filter_sublist ih)

end

theorem distinctAux_eq : ∀ (xs seen : List Row),
    distinctAux seen xs = (firstOcc xs).filter (fun x => !seen.contains x) := by
  intro xs
  induction xs with
  | nil => intro seen; simp [distinctAux, firstOcc]
  | cons x xs ih =>
    intro seen
    simp only [distinctAux, firstOcc, List.filter_cons]
    by_cases h : seen.contains x = true
    · simp only [h, if_true, Bool.not_true, Bool.false_eq_true, if_false]
      rw [ih seen, List.filter_filter]
      apply List.filter_congr
      intro y _
      by_cases e : y = x
      · subst e; simp only [ne_eq, not_true_eq_false, decide_false, Bool.false_and, h, Bool.not_true]
      · simp [e]
    · have h' : seen.contains x = false := by simpa using h
      simp only [h', Bool.false_eq_true, if_false, Bool.not_false, if_true]
      rw [ih (x :: seen), List.filter_filter]
      congr 1
      apply List.filter_congr
      intro y _
      by_cases e : y = x
      · subst e; simp
      · have e' : ¬ x = y := fun h => e h.symm
        simp [e, e', List.contains_cons]

theorem evalDistinct_eq (xs : List Row) : evalDistinct xs = firstOcc xs := by
  simp [evalDistinct, distinctAux_eq]

/-! ### Reduced -/

theorem sublist_reducedAux : ∀ (xs : List Row) (last : Option Row), (reducedAux last xs).Sublist xs := by
  intro xs
  induction xs with
  | nil => intro _; simp [reducedAux]
  | cons x xs ih =>
    intro last
    simp only [reducedAux]
    split
    · exact List.Sublist.cons x (ih _)
    · exact List.Sublist.cons_cons x (ih _)

theorem mem_reducedAux (y : Row) : ∀ (xs : List Row) (last : Option Row),
    y ∈ xs → y ∈ reducedAux last xs ∨ last = some y := by
  intro xs
  induction xs with
  | nil => intro _ h; cases h
  | cons x xs ih =>
    intro last h
    simp only [reducedAux]
    rcases List.mem_cons.1 h with rfl | h
    · split
      · rename_i e; exact Or.inr e
      · exact Or.inl List.mem_cons_self
    · rcases ih (some x) h with h' | h'
      · split
        · exact Or.inl h'
        · exact Or.inl (List.mem_cons_of_mem _ h')
      · injection h' with h'
        subst h'
        split
        · rename_i e; exact Or.inr e
        · exact Or.inl List.mem_cons_self

/-! ### Project -/

theorem length_projectRow (w : Nat) (pv : List Nat) (r : Row) : (projectRow w pv r).length = w := by
  simp [projectRow]

theorem get_projectRow (w : Nat) (pv : List Nat) (r : Row) (i : Nat) :
    (projectRow w pv r).get i = if i < w ∧ i ∈ pv then r.get i else none := by
  simp only [projectRow, Row.get, List.getD_eq_getElem?_getD, List.getElem?_map, List.getElem?_range]
  by_cases h : i < w
  · simp only [List.getElem?_range h, Option.map_some, Option.getD_some, h, true_and]
    by_cases hm : i ∈ pv
    · simp [hm]
    · simp [hm]
  · simp [h]

end RV.C08
