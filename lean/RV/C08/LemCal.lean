import RV.C08.Model
/-
  C08 — CPython's calendar arithmetic: the proleptic ordinal `_ymd2ord` is strictly monotone in the field tuple
  (year, month, day) on valid dates, so comparing ordinals / seconds on the time line (what the model does) is the
  same as comparing field tuples (what `date.__lt__` and the same-offset path of `datetime._cmp` do).
-/
namespace RV.C08

def yearLen (y : Nat) : Nat := if isLeap y then 366 else 365

theorem isLeap_iff (y : Nat) : isLeap y = true ↔ (y % 4 = 0 ∧ (y % 100 ≠ 0 ∨ y % 400 = 0)) := by
  simp [isLeap]

theorem isLeap_false {y : Nat} (h : ¬ (y % 4 = 0 ∧ (y % 100 ≠ 0 ∨ y % 400 = 0))) : isLeap y = false := by
  cases hl : isLeap y with
  | false => rfl
  | true => exact absurd ((isLeap_iff y).1 hl) h

/-- `daysBeforeYear (p + 1)` without truncated subtraction -/
theorem dby_eq (p : Nat) : daysBeforeYear (p + 1) + p / 100 = p * 365 + p / 4 + p / 400 := by
  unfold daysBeforeYear
  simp only [Nat.add_sub_cancel]
  have : p / 100 ≤ p / 4 := by omega
  omega

theorem dby_succ (y : Nat) (hy : 1 ≤ y) : daysBeforeYear (y + 1) = daysBeforeYear y + yearLen y := by
  obtain ⟨p, rfl⟩ : ∃ p, y = p + 1 := ⟨y - 1, by omega⟩
  have a1 := dby_eq p
  have a2 := dby_eq (p + 1)
  unfold yearLen
  by_cases c4 : (p + 1) % 4 = 0
  · by_cases c100 : (p + 1) % 100 = 0
    · by_cases c400 : (p + 1) % 400 = 0
      · have hl : isLeap (p + 1) = true := (isLeap_iff _).2 ⟨c4, Or.inr c400⟩
        have t4 : (p + 1) / 4 = p / 4 + 1 := by omega
        have t100 : (p + 1) / 100 = p / 100 + 1 := by omega
        have t400 : (p + 1) / 400 = p / 400 + 1 := by omega
        simp only [hl, if_true]
        omega
      · have hl : isLeap (p + 1) = false := isLeap_false (by omega)
        have t4 : (p + 1) / 4 = p / 4 + 1 := by omega
        have t100 : (p + 1) / 100 = p / 100 + 1 := by omega
        have t400 : (p + 1) / 400 = p / 400 := by omega
        simp only [hl, Bool.false_eq_true, if_false]
        omega
    · have hl : isLeap (p + 1) = true := (isLeap_iff _).2 ⟨c4, Or.inl c100⟩
      have t4 : (p + 1) / 4 = p / 4 + 1 := by omega
      have t100 : (p + 1) / 100 = p / 100 := by omega
      have t400 : (p + 1) / 400 = p / 400 := by omega
      simp only [hl, if_true]
      omega
  · have hl : isLeap (p + 1) = false := isLeap_false (by omega)
    have t4 : (p + 1) / 4 = p / 4 := by omega
    have t100 : (p + 1) / 100 = p / 100 := by omega
    have t400 : (p + 1) / 400 = p / 400 := by omega
    simp only [hl, Bool.false_eq_true, if_false]
    omega

theorem dby_mono (y1 : Nat) (h1 : 1 ≤ y1) : ∀ y2, y1 < y2 → daysBeforeYear y1 + yearLen y1 ≤ daysBeforeYear y2 := by
  intro y2
  induction y2 with
  | zero => intro h; omega
  | succ n ih =>
    intro h
    by_cases e : y1 = n
    · subst e; rw [dby_succ _ h1]; exact Nat.le_refl _
    · have := ih (by omega)
      rw [dby_succ n (by omega)]
      omega

theorem dbm_succ (y m : Nat) (h1 : 1 ≤ m) (h2 : m ≤ 11) :
    daysBeforeMonth y (m + 1) = daysBeforeMonth y m + daysInMonth y m := by
  have hm : m = 1 ∨ m = 2 ∨ m = 3 ∨ m = 4 ∨ m = 5 ∨ m = 6 ∨ m = 7 ∨ m = 8 ∨ m = 9 ∨ m = 10 ∨ m = 11 := by omega
  rcases hm with rfl | rfl | rfl | rfl | rfl | rfl | rfl | rfl | rfl | rfl | rfl <;>
    cases hl : isLeap y <;> simp [daysBeforeMonth, daysBeforeMonthTab, daysInMonth, hl]

theorem dbm_mono (y m1 : Nat) (h1 : 1 ≤ m1) : ∀ m2, m1 < m2 → m2 ≤ 12 →
    daysBeforeMonth y m1 + daysInMonth y m1 ≤ daysBeforeMonth y m2 := by
  intro m2
  induction m2 with
  | zero => intro h; omega
  | succ n ih =>
    intro h h2
    by_cases e : m1 = n
    · subst e; rw [dbm_succ y m1 h1 (by omega)]; exact Nat.le_refl _
    · have := ih (by omega) (by omega)
      rw [dbm_succ y n (by omega) (by omega)]
      omega

theorem dbm_last (y m : Nat) (h1 : 1 ≤ m) (h2 : m ≤ 12) : daysBeforeMonth y m + daysInMonth y m ≤ yearLen y := by
  have e12 : daysBeforeMonth y 12 + daysInMonth y 12 = yearLen y := by
    cases hl : isLeap y <;> simp [daysBeforeMonth, daysBeforeMonthTab, daysInMonth, yearLen, hl]
  by_cases e : m = 12
  · subst e; omega
  · have := dbm_mono y m h1 12 (by omega) (Nat.le_refl _)
    omega

theorem validYMD_iff (y m d : Nat) : validYMD y m d = true ↔ (1 ≤ y ∧ 1 ≤ m ∧ m ≤ 12 ∧ 1 ≤ d ∧ d ≤ daysInMonth y m) := by
  simp [validYMD]

/-- the ordinal is strictly monotone in the field tuple -/
theorem ymd2ord_lt {y1 m1 d1 y2 m2 d2 : Nat} (v1 : validYMD y1 m1 d1 = true) (v2 : validYMD y2 m2 d2 = true)
    (h : y1 < y2 ∨ (y1 = y2 ∧ (m1 < m2 ∨ (m1 = m2 ∧ d1 < d2)))) : ymd2ord y1 m1 d1 < ymd2ord y2 m2 d2 := by
  obtain ⟨a1, a2, a3, a4, a5⟩ := (validYMD_iff _ _ _).1 v1
  obtain ⟨b1, b2, b3, b4, b5⟩ := (validYMD_iff _ _ _).1 v2
  unfold ymd2ord
  rcases h with h | ⟨rfl, h | ⟨rfl, h⟩⟩
  · have k1 := dby_mono y1 a1 y2 h
    have k2 := dbm_last y1 m1 a2 a3
    omega
  · have k := dbm_mono y1 m1 a2 m2 h b3
    omega
  · omega

theorem ymd2ord_inj {y1 m1 d1 y2 m2 d2 : Nat} (v1 : validYMD y1 m1 d1 = true) (v2 : validYMD y2 m2 d2 = true)
    (h : ymd2ord y1 m1 d1 = ymd2ord y2 m2 d2) : y1 = y2 ∧ m1 = m2 ∧ d1 = d2 := by
  by_cases c1 : y1 < y2 ∨ (y1 = y2 ∧ (m1 < m2 ∨ (m1 = m2 ∧ d1 < d2)))
  · have := ymd2ord_lt v1 v2 c1; omega
  · by_cases c2 : y2 < y1 ∨ (y2 = y1 ∧ (m2 < m1 ∨ (m2 = m1 ∧ d2 < d1)))
    · have := ymd2ord_lt v2 v1 c2; omega
    · omega

theorem ymd2ord_lt_iff {y1 m1 d1 y2 m2 d2 : Nat} (v1 : validYMD y1 m1 d1 = true) (v2 : validYMD y2 m2 d2 = true) :
    ymd2ord y1 m1 d1 < ymd2ord y2 m2 d2 ↔ (y1 < y2 ∨ (y1 = y2 ∧ (m1 < m2 ∨ (m1 = m2 ∧ d1 < d2)))) := by
  constructor
  · intro h
    by_cases c1 : y1 < y2 ∨ (y1 = y2 ∧ (m1 < m2 ∨ (m1 = m2 ∧ d1 < d2)))
    · exact c1
    · by_cases c2 : y2 < y1 ∨ (y2 = y1 ∧ (m2 < m1 ∨ (m2 = m1 ∧ d2 < d1)))
      · have := ymd2ord_lt v2 v1 c2; omega
      · have e : y1 = y2 ∧ m1 = m2 ∧ d1 = d2 := by omega
        obtain ⟨rfl, rfl, rfl⟩ := e
        omega
  · exact ymd2ord_lt v1 v2

/-- xsd:date: comparing ordinals = comparing (year, month, day) -/
theorem DF.ord_lt_iff (a b : DF) (va : a.valid = true) (vb : b.valid = true) :
    decide (a.ord < b.ord) = a.fieldsLt b := by
  rw [Bool.eq_iff_iff, decide_eq_true_iff]
  simp only [DF.fieldsLt, decide_eq_true_eq, DF.ord]
  exact ymd2ord_lt_iff va vb

theorem DF.ord_inj (a b : DF) (va : a.valid = true) (vb : b.valid = true) (h : a.ord = b.ord) : a = b := by
  obtain ⟨h1, h2, h3⟩ := ymd2ord_inj va vb h
  cases a; cases b; simp only [DF.mk.injEq]; exact ⟨h1, h2, h3⟩

theorem DTF.valid_iff (f : DTF) : f.valid = true ↔ (validYMD f.y f.mo f.d = true ∧ f.h < 24 ∧ f.mi < 60 ∧ f.s < 60) := by
  simp [DTF.valid]

/-- xsd:dateTime, same UTC offset (or both without): comparing points on the time line = comparing the field tuples -/
theorem DTF.key_lt_iff (a b : DTF) (va : a.valid = true) (vb : b.valid = true) (htz : a.tz = b.tz) :
    decide (a.key < b.key) = a.fieldsLt b := by
  obtain ⟨wa, ha1, ha2, ha3⟩ := (DTF.valid_iff a).1 va
  obtain ⟨wb, hb1, hb2, hb3⟩ := (DTF.valid_iff b).1 vb
  rw [Bool.eq_iff_iff, decide_eq_true_iff]
  simp only [DTF.fieldsLt, decide_eq_true_eq, DTF.key, htz]
  have k := ymd2ord_lt_iff wa wb
  have k' := ymd2ord_lt_iff wb wa
  have ki := ymd2ord_inj wa wb
  generalize ymd2ord a.y a.mo a.d = oa at *
  generalize ymd2ord b.y b.mo b.d = ob at *
  generalize Option.getD b.tz 0 = z
  constructor
  · intro h
    by_cases c : oa < ob
    · have := k.1 c; omega
    · by_cases c2 : ob < oa
      · omega
      · have e := ki (by omega)
        omega
  · intro h
    by_cases c : oa < ob
    · omega
    · by_cases c2 : ob < oa
      · have := k'.1 c2; omega
      · have e := ki (by omega)
        omega

theorem DTF.key_inj (a b : DTF) (va : a.valid = true) (vb : b.valid = true) (htz : a.tz = b.tz)
    (h : a.key = b.key) : a = b := by
  have h1 := DTF.key_lt_iff a b va vb htz
  have h2 := DTF.key_lt_iff b a vb va htz.symm
  have n1 : a.fieldsLt b = false := by rw [← h1]; simp; omega
  have n2 : b.fieldsLt a = false := by rw [← h2]; simp; omega
  simp only [DTF.fieldsLt, decide_eq_false_iff_not] at n1 n2
  cases a; cases b
  simp only at htz n1 n2
  simp only [DTF.mk.injEq]
  refine ⟨by omega, by omega, by omega, by omega, by omega, by omega, htz⟩

end RV.C08
