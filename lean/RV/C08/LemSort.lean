import RV.C08.Spec
/-
  C08 — the stable insertion sort that models Python's `sorted`:
  permutation, sortedness and stability on a strict weak order; chains of stable sorts.
-/
namespace RV.C08

variable {α : Type}

/-- `lt` is a strict weak order on the elements satisfying `S` -/
structure StrictWeak (lt : α → α → Bool) (S : α → Prop) : Prop where
  asymm : ∀ a b, S a → S b → lt a b = true → lt b a = false
  ntrans : ∀ a b c, S a → S b → S c → lt a b = false → lt b c = false → lt a c = false

theorem StrictWeak.flip {lt : α → α → Bool} {S : α → Prop} (h : StrictWeak lt S) :
    StrictWeak (fun a b => lt b a) S :=
  ⟨fun a b ha hb hab => h.asymm b a hb ha hab, fun a b c ha hb hc hab hbc => h.ntrans c b a hc hb ha hbc hab⟩

/-- `lt a b`, `¬ lt c b`  ⟹  `lt a c` -/
theorem StrictWeak.lt_of_lt_of_not_lt {lt : α → α → Bool} {S : α → Prop} (h : StrictWeak lt S)
    {a b c : α} (ha : S a) (hb : S b) (hc : S c) (hab : lt a b = true) (hcb : lt c b = false) :
    lt a c = true := by
  cases hac : lt a c with
  | true => rfl
  | false =>
    have := h.ntrans a c b ha hc hb hac hcb
    rw [hab] at this; cases this

theorem perm_insertBy (lt : α → α → Bool) (x : α) (ys : List α) : (insertBy lt x ys).Perm (x :: ys) := by
  induction ys with
  | nil => exact List.Perm.refl _
  | cons y ys ih =>
    simp only [insertBy]
    split
    · exact List.Perm.refl _
    · exact (List.Perm.cons y ih).trans (List.Perm.swap x y ys)

theorem perm_isortAux (lt : α → α → Bool) (xs : List α) : ∀ acc, (isortAux lt acc xs).Perm (acc ++ xs) := by
  induction xs with
  | nil => intro acc; simp [isortAux]
  | cons x xs ih =>
    intro acc
    simp only [isortAux]
    refine (ih _).trans ?_
    have h1 : (insertBy lt x acc ++ xs).Perm ((x :: acc) ++ xs) := List.Perm.append_right xs (perm_insertBy lt x acc)
    refine h1.trans ?_
    simp only [List.cons_append]
    exact (List.perm_middle).symm

theorem perm_isort (lt : α → α → Bool) (xs : List α) : (isort lt xs).Perm xs := by
  simpa [isort] using perm_isortAux lt xs []

theorem perm_pySorted (lt : α → α → Bool) (rev : Bool) (xs : List α) : (pySorted lt rev xs).Perm xs := by
  unfold pySorted
  split
  · exact (List.reverse_perm _).trans ((perm_isort lt _).trans (List.reverse_perm xs))
  · exact perm_isort lt xs

/-- sorted by `lt`, and where two elements tie the relation `R` (the order they had before) holds -/
def STag (lt : α → α → Bool) (R : α → α → Prop) (a b : α) : Prop := lt b a = false ∧ (lt a b = true ∨ R a b)

theorem pairwise_insertBy {lt : α → α → Bool} {S : α → Prop} {R : α → α → Prop} (sw : StrictWeak lt S)
    (x : α) (hx : S x) : ∀ (ys : List α), (∀ y ∈ ys, S y) → ys.Pairwise (STag lt R) → (∀ y ∈ ys, R y x) →
      (insertBy lt x ys).Pairwise (STag lt R) := by
  intro ys
  induction ys with
  | nil => intro _ _ _; simp [insertBy]
  | cons y ys ih =>
    intro hS hp hR
    simp only [insertBy]
    have hy : S y := hS y (List.mem_cons_self)
    have hS' : ∀ z ∈ ys, S z := fun z hz => hS z (List.mem_cons_of_mem _ hz)
    rw [List.pairwise_cons] at hp
    cases hxy : lt x y with
    | true =>
      simp only [if_true]
      rw [List.pairwise_cons]
      refine ⟨?_, List.pairwise_cons.2 hp⟩
      intro z hz
      rcases List.mem_cons.1 hz with rfl | hz
      · exact ⟨sw.asymm x z hx hy hxy, Or.inl hxy⟩
      · have hyz := (hp.1 z hz).1
        have hxz : lt x z = true := sw.lt_of_lt_of_not_lt hx hy (hS' z hz) hxy hyz
        exact ⟨sw.asymm x z hx (hS' z hz) hxz, Or.inl hxz⟩
    | false =>
      simp only [Bool.false_eq_true, if_false]
      rw [List.pairwise_cons]
      refine ⟨?_, ih hS' hp.2 (fun z hz => hR z (List.mem_cons_of_mem _ hz))⟩
      intro z hz
      have hz' := (perm_insertBy lt x ys).mem_iff.1 hz
      rcases List.mem_cons.1 hz' with rfl | hz'
      · exact ⟨hxy, Or.inr (hR y List.mem_cons_self)⟩
      · exact hp.1 z hz'

theorem pairwise_isortAux {lt : α → α → Bool} {S : α → Prop} {R : α → α → Prop} (sw : StrictWeak lt S) :
    ∀ (xs acc : List α), (∀ y ∈ acc, S y) → (∀ x ∈ xs, S x) → acc.Pairwise (STag lt R) → xs.Pairwise R →
      (∀ a ∈ acc, ∀ x ∈ xs, R a x) → (isortAux lt acc xs).Pairwise (STag lt R) := by
  intro xs
  induction xs with
  | nil => intro acc _ _ h _ _; simpa [isortAux] using h
  | cons x xs ih =>
    intro acc hSa hSx hacc hxs hax
    simp only [isortAux]
    rw [List.pairwise_cons] at hxs
    have hx : S x := hSx x List.mem_cons_self
    apply ih
    · intro y hy
      rcases List.mem_cons.1 ((perm_insertBy lt x acc).mem_iff.1 hy) with rfl | h
      · exact hx
      · exact hSa y h
    · exact fun z hz => hSx z (List.mem_cons_of_mem _ hz)
    · exact pairwise_insertBy sw x hx acc hSa hacc (fun a ha => hax a ha x List.mem_cons_self)
    · exact hxs.2
    · intro a ha z hz
      rcases List.mem_cons.1 ((perm_insertBy lt x acc).mem_iff.1 ha) with rfl | h
      · exact hxs.1 z hz
      · exact hax a h z (List.mem_cons_of_mem _ hz)

/-- stability + sortedness of the model of `sorted` -/
theorem pairwise_isort {lt : α → α → Bool} {S : α → Prop} {R : α → α → Prop} (sw : StrictWeak lt S)
    (xs : List α) (hS : ∀ x ∈ xs, S x) (hR : xs.Pairwise R) : (isort lt xs).Pairwise (STag lt R) :=
  pairwise_isortAux sw xs [] (fun _ h => nomatch h) hS List.Pairwise.nil hR (fun _ h => nomatch h)

theorem dirLt_false (lt : α → α → Bool) : dirLt lt false = lt := by
  funext a b; simp [dirLt]

theorem dirLt_true (lt : α → α → Bool) : dirLt lt true = fun a b => lt b a := by
  funext a b; simp [dirLt]

theorem StrictWeak.dir {lt : α → α → Bool} {S : α → Prop} (h : StrictWeak lt S) (rev : Bool) :
    StrictWeak (dirLt lt rev) S := by
  cases rev
  · rw [dirLt_false]; exact h
  · rw [dirLt_true]; exact h.flip

/-- `sorted(…, reverse=rev)` is a stable sort for the (possibly reversed) comparator:
    ties keep the order they had in the input, also when `reverse=True` -/
theorem pairwise_pySorted {lt : α → α → Bool} {S : α → Prop} {R : α → α → Prop} (sw : StrictWeak lt S)
    (rev : Bool) (xs : List α) (hS : ∀ x ∈ xs, S x) (hR : xs.Pairwise R) :
    (pySorted lt rev xs).Pairwise (STag (dirLt lt rev) R) := by
  cases rev
  · rw [dirLt_false]; simpa [pySorted] using pairwise_isort sw xs hS hR
  · simp only [pySorted, if_true]
    have h1 : xs.reverse.Pairwise (fun a b => R b a) := List.pairwise_reverse.2 hR
    have h2 := pairwise_isort (R := fun a b => R b a) sw xs.reverse (fun x hx => hS x (List.mem_reverse.1 hx)) h1
    rw [List.pairwise_reverse]
    refine h2.imp ?_
    intro a b hab
    simpa [STag, dirLt] using hab

end RV.C08
