import RV.C08.LemMods
/-
  C08 — grouping (`evalAggregateJoin`) and the accumulators against §18.5 / §18.5.1.
-/
set_option linter.unusedSimpArgs false
namespace RV.C08

variable {α : Type}

/-! ### the Aggregator = its accumulators side by side -/

theorem updateAll_map (r : Row) (f : AggSpec → AccSt) : ∀ A : List AggSpec,
    updateAll A (A.map f) r = A.map (fun a => (f a).update a r) := by
  intro A
  induction A with
  | nil => simp [updateAll]
  | cons a as ih => simp [updateAll, ih]

theorem foldl_updateAll (A : List AggSpec) : ∀ (rows : List Row) (f : AggSpec → AccSt),
    rows.foldl (updateAll A) (A.map f) = A.map (fun a => rows.foldl (fun st r => st.update a r) (f a)) := by
  intro rows
  induction rows with
  | nil => intro f; simp
  | cons r rs ih =>
    intro f
    simp only [List.foldl_cons, updateAll_map]
    exact ih (fun a => (f a).update a r)

theorem foldAcc_eq (A : List AggSpec) (rows : List Row) : foldAcc A rows = A.map (fun a => accRun a rows) := by
  simp [foldAcc, accRun, foldl_updateAll]

/-! ### the dict of Aggregators -/

def stOf (A : List AggSpec) : List (Key × List AccSt) → Key → List AccSt
  | [], _ => A.map initAcc
  | (k', s) :: rest, k => if k' = k then s else stOf A rest k

theorem keys_groupUpdate (A : List AggSpec) (k : Key) (r : Row) : ∀ gs : List (Key × List AccSt),
    (groupUpdate A gs k r).map Prod.fst = gs.map Prod.fst ++ (if k ∈ gs.map Prod.fst then [] else [k]) := by
  intro gs
  induction gs with
  | nil => simp [groupUpdate]
  | cons g gs ih =>
    obtain ⟨k', s⟩ := g
    simp only [groupUpdate]
    by_cases e : k' = k
    · subst e; simp
    · have e' : ¬ k = k' := fun h => e h.symm
      simp only [e, if_false, List.map_cons, ih, List.mem_cons, e', false_or, List.cons_append]

theorem stOf_groupUpdate (A : List AggSpec) (k : Key) (r : Row) (k2 : Key) : ∀ gs : List (Key × List AccSt),
    stOf A (groupUpdate A gs k r) k2 = if k = k2 then updateAll A (stOf A gs k) r else stOf A gs k2 := by
  intro gs
  induction gs with
  | nil =>
    by_cases e : k = k2
    · simp [groupUpdate, stOf, e]
    · simp [groupUpdate, stOf, e]
  | cons g gs ih =>
    obtain ⟨k', s⟩ := g
    simp only [groupUpdate]
    by_cases e : k' = k
    · subst e
      by_cases e2 : k' = k2
      · simp [stOf, e2]
      · simp [stOf, e2]
    · simp only [e, if_false, stOf, ih]
      by_cases e2 : k = k2
      · subst e2; simp [e]
      · simp only [e2, if_false]

theorem keys_groupAll (A : List AggSpec) (keys : List Expr) : ∀ (rows : List Row) (gs : List (Key × List AccSt)),
    (groupAll A keys gs rows).map Prod.fst =
      gs.map Prod.fst ++ (firstOcc (rows.map (keyOf keys))).filter (fun k => !(gs.map Prod.fst).contains k) := by
  intro rows
  induction rows with
  | nil => intro gs; simp [groupAll, firstOcc]
  | cons r rs ih =>
    intro gs
    simp only [groupAll, List.map_cons, firstOcc, List.filter_cons]
    rw [ih, keys_groupUpdate]
    have hk : keys.map (fun e => evalE e r) = keyOf keys r := rfl
    rw [hk]
    by_cases h : keyOf keys r ∈ gs.map Prod.fst
    · have hc : (gs.map Prod.fst).contains (keyOf keys r) = true := by simpa using h
      simp only [h, if_true, List.append_nil, hc, Bool.not_true, Bool.false_eq_true, if_false, List.filter_filter]
      congr 1
      apply List.filter_congr
      intro y _
      by_cases e : y = keyOf keys r
      · subst e; simp only [ne_eq, not_true_eq_false, decide_false, Bool.false_and, hc, Bool.not_true]
      · simp [e]
    · have hc : (gs.map Prod.fst).contains (keyOf keys r) = false := by simpa using h
      simp only [h, if_false, hc, Bool.not_false, if_true, List.filter_filter, List.append_assoc, List.singleton_append]
      congr 2
      apply List.filter_congr
      intro y _
      by_cases e : y = keyOf keys r
      · subst e; simp
      · simp [e, List.contains_append]

theorem stOf_groupAll (A : List AggSpec) (keys : List Expr) (k : Key) : ∀ (rows : List Row) (gs : List (Key × List AccSt)),
    stOf A (groupAll A keys gs rows) k =
      (rows.filter (fun r => keyOf keys r = k)).foldl (updateAll A) (stOf A gs k) := by
  intro rows
  induction rows with
  | nil => intro gs; simp [groupAll]
  | cons r rs ih =>
    intro gs
    simp only [groupAll, List.filter_cons]
    rw [ih, stOf_groupUpdate]
    have hk : keys.map (fun e => evalE e r) = keyOf keys r := rfl
    rw [hk]
    by_cases e : keyOf keys r = k
    · subst e; simp
    · simp [e]

theorem stOf_of_mem (A : List AggSpec) : ∀ (gs : List (Key × List AccSt)), (gs.map Prod.fst).Nodup →
    ∀ g ∈ gs, stOf A gs g.1 = g.2 := by
  intro gs
  induction gs with
  | nil => intro _ g h; cases h
  | cons g0 gs ih =>
    intro hnd g hg
    obtain ⟨k0, s0⟩ := g0
    simp only [List.map_cons, List.nodup_cons] at hnd
    rcases List.mem_cons.1 hg with rfl | hg
    · simp [stOf]
    · have : k0 ≠ g.1 := by
        intro e; apply hnd.1; rw [e]; exact List.mem_map_of_mem hg
      simp only [stOf, this, if_false]
      exact ih hnd.2 g hg

/-- group_partition, in terms of the dict of Aggregators -/
theorem groupAll_spec (A : List AggSpec) (keys : List Expr) (rows : List Row) :
    (groupAll A keys [] rows).map Prod.fst = firstOcc (rows.map (keyOf keys)) ∧
    ∀ g ∈ groupAll A keys [] rows, g.2 = foldAcc A (rows.filter (fun r => keyOf keys r = g.1)) := by
  have h1 : (groupAll A keys [] rows).map Prod.fst = firstOcc (rows.map (keyOf keys)) := by
    rw [keys_groupAll]; simp
  refine ⟨h1, ?_⟩
  intro g hg
  have hnd : ((groupAll A keys [] rows).map Prod.fst).Nodup := by rw [h1]; exact nodup_firstOcc _
  rw [← stOf_of_mem A _ hnd g hg, stOf_groupAll]
  rfl

end RV.C08
