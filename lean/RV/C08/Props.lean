import RV.C08.Lemmas
/-
  C08 — "Solution modifiers and aggregates follow SPARQL (DISTINCT, ORDER, slice, GROUP)".
  Statements first (`def Statement_… : Prop`, full strength), then the proofs.
  The model (`Model.lean`) follows rdflib's code after the `fix:` commits of branch fix-C08;
  the specification side is in `Spec.lean`.
-/
namespace RV.C08

/-! ## Tables regenerated from rdflib's source (re-proved on every run) -/

def numericBase : List DT := [.integer, .decimal, .float, .double]

/-- `type_promotion` never raises on numeric datatypes, is commutative, is idempotent up to the
    super type, and realises the chain integer ⊑ decimal ⊑ float ⊑ double of XPath numeric promotion -/
def Statement_type_promotion_table : Prop :=
  (∀ a ∈ DT.all, ∀ b ∈ DT.all, a.isNumericOp = true → b.isNumericOp = true → (typePromotion a b).isSome = true) ∧
  (∀ a ∈ DT.all, ∀ b ∈ DT.all, typePromotion a b = typePromotion b a) ∧
  (∀ a ∈ DT.all, typePromotion a a = some a.superType) ∧
  (∀ a ∈ DT.all, a.isNumericOp = true → a.superType ∈ numericBase) ∧
  (typePromotion .integer .decimal = some .decimal ∧ typePromotion .decimal .float = some .float ∧
   typePromotion .float .double = some .double ∧ typePromotion .integer .float = some .float ∧
   typePromotion .integer .double = some .double ∧ typePromotion .decimal .double = some .double) ∧
  (∀ a ∈ numericBase, ∀ b ∈ numericBase, ∀ c ∈ numericBase,
     (typePromotion a b).bind (typePromotion · c) = (typePromotion b c).bind (typePromotion a ·))

theorem type_promotion_table : Statement_type_promotion_table := by
  refine ⟨by decide, by decide, by decide, by decide, by decide, by decide⟩

/-- `_val` ranks are unbound < blank node < IRI < literal; the numeric datatypes of `rdflib.term` and of
    `operators.numeric` agree; datatype URIs are ranked injectively; seven accumulator classes -/
def Statement_rank_tables : Prop :=
  (rankVariable < rankBNode ∧ rankBNode < rankIRI ∧ rankIRI < rankLiteral) ∧
  (∀ d ∈ DT.all, d.isNumericTerm = d.isNumericOp) ∧
  (∀ a ∈ DT.all, ∀ b ∈ DT.all, a.uriRank = b.uriRank → a = b) ∧
  accumulatorClasses.map Prod.fst =
    ["Aggregate_Count", "Aggregate_Sample", "Aggregate_Sum", "Aggregate_Avg", "Aggregate_Min", "Aggregate_Max",
     "Aggregate_GroupConcat"]

theorem rank_tables : Statement_rank_tables := by
  refine ⟨by decide, by decide, by decide, by decide⟩

/-! ## Slice, Distinct, Reduced, Project (§18.5) -/

/-- LIMIT/OFFSET: exactly the slice -/
def Statement_slice_spec : Prop :=
  ∀ (α : Type) (o l : Nat) (xs : List α),
    evalSlice o (some l) xs = (xs.drop o).take l ∧ evalSlice o none xs = xs.drop o

theorem slice_spec : Statement_slice_spec := by
  intro α o l xs
  constructor
  · simp [evalSlice, islice_some]
  · simp [evalSlice, islice_none]

/-- DISTINCT: every solution exactly once, the same set of solutions, order of first occurrence -/
def Statement_distinct_spec : Prop :=
  ∀ xs : List Row, (evalDistinct xs).Nodup ∧ (∀ x, x ∈ evalDistinct xs ↔ x ∈ xs) ∧
    (evalDistinct xs).Sublist xs ∧ evalDistinct xs = firstOcc xs

theorem distinct_spec : Statement_distinct_spec := by
  intro xs
  rw [evalDistinct_eq]
  exact ⟨nodup_firstOcc xs, fun x => mem_firstOcc x xs, sublist_firstOcc xs, rfl⟩

/-- REDUCED: between DISTINCT and the identity — no solution invented or multiplied, none lost -/
def Statement_reduced_between : Prop :=
  ∀ xs : List Row, (evalReduced xs).Sublist xs ∧ (∀ x, x ∈ evalReduced xs ↔ x ∈ xs)

theorem reduced_between : Statement_reduced_between := by
  intro xs
  refine ⟨sublist_reducedAux xs none, fun x => ⟨fun h => (sublist_reducedAux xs none).subset h, fun h => ?_⟩⟩
  rcases mem_reducedAux x xs none h with h | h
  · exact h
  · cases h

/-- projection keeps exactly the named variables (and keeps the number and order of solutions) -/
def Statement_project_spec : Prop :=
  ∀ (w : Nat) (pv : List Nat) (rows : List Row),
    (evalProject w pv rows).length = rows.length ∧
    ∀ (n : Nat) (h : n < rows.length), ∃ h' : n < (evalProject w pv rows).length,
      ((evalProject w pv rows)[n]).length = w ∧
      ∀ i, ((evalProject w pv rows)[n]).get i = if i < w ∧ i ∈ pv then (rows[n]).get i else none

theorem project_spec : Statement_project_spec := by
  intro w pv rows
  refine ⟨by simp [evalProject], fun n h => ⟨by simpa [evalProject] using h, ?_, ?_⟩⟩
  · simp [evalProject, length_projectRow]
  · intro i; simp [evalProject, get_projectRow]

/-! ## ORDER BY (§15.1, §18.5 OrderBy) -/

/-- ORDER BY returns the same multiset, arranged so that no later row precedes an earlier one under
    the SPARQL ordering of the sort keys (ASC/DESC, several keys) -/
def Statement_orderby_spec : Prop :=
  ∀ (keys : List (Expr × Bool)) (rows : List Row),
    (evalOrderBy keys rows).Perm rows ∧
    (evalOrderBy keys rows).Pairwise (fun a b => sparqlPrecedes keys b a = false)

/-- every sort key value is one on which rdflib's literal comparison is consistent
    (numeric datatype URIs sort between xsd:boolean and xsd:string) -/
def KeysOk (keys : List (Expr × Bool)) (rows : List Row) : Prop :=
  ∀ k ∈ keys, ∀ r ∈ rows, okKey (evalE k.1 r) = true

instance (keys : List (Expr × Bool)) (rows : List Row) : Decidable (KeysOk keys rows) := by
  unfold KeysOk; infer_instance

/-- stable_sort_chain: the repeated stable sort, last key first, sorts lexicographically -/
theorem stable_sort_chain (keys : List (Expr × Bool)) (rows : List Row) (h : KeysOk keys rows) :
    (evalOrderBy keys rows).Perm rows ∧ (evalOrderBy keys rows).Pairwise (fun a b => lexLt keys b a = false) :=
  ⟨perm_evalOrderBy keys rows, sorted_evalOrderBy keys rows h⟩

theorem orderby_spec_partial (keys : List (Expr × Bool)) (rows : List Row) (h : KeysOk keys rows) :
    (evalOrderBy keys rows).Perm rows ∧
    (evalOrderBy keys rows).Pairwise (fun a b => sparqlPrecedes keys b a = false) := by
  refine ⟨perm_evalOrderBy keys rows, (sorted_evalOrderBy keys rows h).imp ?_⟩
  intro a b hab
  cases hp : sparqlPrecedes keys b a with
  | false => rfl
  | true => rw [lexLt_of_sparqlPrecedes keys b a hp] at hab; cases hab

/-- known finding C08-K1 in the model: an xsd:unsignedInt next to a string and an integer.
    `"a" < 1u` and `5 < "a"` by datatype URI, `1u < 5` by value: the sort puts 5 before 1. -/
def k1Rows : List Row :=
  [[some (.num .unsignedInt 1 0)], [some (.str [97] [])], [some (.num .integer 5 0)]]

theorem orderby_spec_witness :
    ¬ ((evalOrderBy [(.var 0, false)] k1Rows).Pairwise (fun a b => sparqlPrecedes [(.var 0, false)] b a = false)) := by
  decide +kernel

example : ¬ KeysOk [(.var 0, false)] k1Rows := by decide +kernel

/-- non-vacuity of `orderby_spec_partial`: mixed kinds, numeric ties across datatypes, unbound, DESC -/
def exRows : List Row :=
  [[some (.num .integer 2 0), some (.str [98] [])], [none, some (.iri [97])],
   [some (.num .decimal 2 1), some (.bnode [120])], [some (.bool true), none],
   [some (.num .integer (-1) 0), some (.str [97] [])]]

example : KeysOk [(.var 0, true), (.var 1, false)] exRows := by decide +kernel
example : evalOrderBy [(.var 0, true), (.var 1, false)] exRows =
    [[some (.num .decimal 2 1), some (.bnode [120])], [some (.num .integer 2 0), some (.str [98] [])],
     [some (.num .integer (-1) 0), some (.str [97] [])], [some (.bool true), none], [none, some (.iri [97])]] := by
  decide +kernel

/-- LIMIT/OFFSET after ORDER BY: exactly that slice of the ordered sequence, itself in order -/
def Statement_slice_of_ordered : Prop :=
  ∀ (keys : List (Expr × Bool)) (rows : List Row) (o l : Nat), KeysOk keys rows →
    evalSlice o (some l) (evalOrderBy keys rows) = ((evalOrderBy keys rows).drop o).take l ∧
    (evalSlice o (some l) (evalOrderBy keys rows)).Pairwise (fun a b => sparqlPrecedes keys b a = false)

theorem slice_of_ordered : Statement_slice_of_ordered := by
  intro keys rows o l h
  have e := (slice_spec Row o l (evalOrderBy keys rows)).1
  refine ⟨e, ?_⟩
  rw [e]
  exact ((orderby_spec_partial keys rows h).2.sublist (List.drop_sublist _ _)).sublist (List.take_sublist _ _)

end RV.C08
