import RV.C08.Lemmas
/-
  C08 — "Solution modifiers and aggregates follow SPARQL (DISTINCT, ORDER, slice, GROUP)".
  Statements first (`def Statement_… : Prop`, full strength), then the proofs.
  The model (`Model.lean`) follows rdflib's code after the `fix:` commits of branch fix-C08;
  the specification side is in `Spec.lean`.
-/
namespace RV.C08

/-! ## Tables regenerated from rdflib's source (re-proved on every run) -/

/-- `type_promotion` never raises on numeric datatypes, is commutative, is idempotent up to the
    super type, and realises the chain integer ⊑ decimal ⊑ float ⊑ double of XPath numeric promotion -/
def Statement_type_promotion_table : Prop :=
  (∀ a ∈ DT.all, ∀ b ∈ DT.all, a.isNumericOp = true → b.isNumericOp = true → (typePromotion a b).isSome = true) ∧
  (∀ a ∈ DT.all, ∀ b ∈ DT.all, typePromotion a b = typePromotion b a) ∧
  (∀ a ∈ DT.all, typePromotion a a = some a.superType) ∧
  (∀ a ∈ DT.all, ∀ b ∈ DT.all, typePromotion a b = typePromotion a.superType b.superType ∧ a.superType.superType = a.superType) ∧
  (∀ a ∈ DT.all, a.isNumericOp = true → a.superType ∈ numericBase) ∧
  (typePromotion .integer .decimal = some .decimal ∧ typePromotion .decimal .float = some .float ∧
   typePromotion .float .double = some .double ∧ typePromotion .integer .float = some .float ∧
   typePromotion .integer .double = some .double ∧ typePromotion .decimal .double = some .double) ∧
  (∀ a ∈ numericBase, ∀ b ∈ numericBase, ∀ c ∈ numericBase,
     (typePromotion a b).bind (typePromotion · c) = (typePromotion b c).bind (typePromotion a ·))

theorem type_promotion_table : Statement_type_promotion_table := by
  refine ⟨by decide, by decide, by decide, by decide, by decide, by decide, by decide⟩

/-- `_val` ranks are unbound < blank node < IRI < literal; the numeric datatypes of `rdflib.term` and of
    `operators.numeric` agree; datatype URIs are ranked injectively; all seven aggregates evaluate -/
def Statement_rank_tables : Prop :=
  (rankVariable < rankBNode ∧ rankBNode < rankIRI ∧ rankIRI < rankLiteral) ∧
  (∀ d ∈ DT.all, d.isNumericTerm = d.isNumericOp) ∧
  (∀ a ∈ DT.all, ∀ b ∈ DT.all, a.uriRank = b.uriRank → a = b) ∧
  aggregatesEvaluated = ["COUNT", "SAMPLE", "SUM", "AVG", "MIN", "MAX", "GROUP_CONCAT"]

theorem rank_tables : Statement_rank_tables := by
  refine ⟨by decide, by decide, by decide, by decide⟩

/-! ## Slice, Distinct, Reduced, Project (§18.5) -/

/-- LIMIT/OFFSET: exactly the slice -/
def Statement_slice_spec : Prop :=
  ∀ (α : Type) (o l : Nat) (xs : List α),
    evalSlice o (some l) xs = (xs.drop o).take l ∧ evalSlice o none xs = xs.drop o

theorem slice_spec : Statement_slice_spec := by
  intro α o l xs
  constructor
  · simp [evalSlice, islice_some]
  · simp [evalSlice, islice_none]

/-- DISTINCT: every solution exactly once, the same set of solutions, order of first occurrence -/
def Statement_distinct_spec : Prop :=
  ∀ xs : List Row, (evalDistinct xs).Nodup ∧ (∀ x, x ∈ evalDistinct xs ↔ x ∈ xs) ∧
    (evalDistinct xs).Sublist xs ∧ evalDistinct xs = firstOcc xs

theorem distinct_spec : Statement_distinct_spec := by
  intro xs
  rw [evalDistinct_eq]
  exact ⟨nodup_firstOcc xs, fun x => mem_firstOcc x xs, sublist_firstOcc xs, rfl⟩

/-- REDUCED: between DISTINCT and the identity — no solution invented or multiplied, none lost -/
def Statement_reduced_between : Prop :=
  ∀ xs : List Row, (evalReduced xs).Sublist xs ∧ (∀ x, x ∈ evalReduced xs ↔ x ∈ xs)

theorem reduced_between : Statement_reduced_between := by
  intro xs
  refine ⟨sublist_reducedAux xs none, fun x => ⟨fun h => (sublist_reducedAux xs none).subset h, fun h => ?_⟩⟩
  rcases mem_reducedAux x xs none h with h | h
  · exact h
  · cases h

/-- projection keeps exactly the named variables (and keeps the number and order of solutions) -/
def Statement_project_spec : Prop :=
  ∀ (w : Nat) (pv : List Nat) (rows : List Row),
    (evalProject w pv rows).length = rows.length ∧
    ∀ (n : Nat) (h : n < rows.length), ∃ h' : n < (evalProject w pv rows).length,
      ((evalProject w pv rows)[n]).length = w ∧
      ∀ i, ((evalProject w pv rows)[n]).get i = if i < w ∧ i ∈ pv then (rows[n]).get i else none

theorem project_spec : Statement_project_spec := by
  intro w pv rows
  refine ⟨by simp [evalProject], fun n h => ⟨by simpa [evalProject] using h, ?_, ?_⟩⟩
  · simp [evalProject, length_projectRow]
  · intro i; simp [evalProject, get_projectRow]

/-! ## ORDER BY (§15.1, §18.5 OrderBy) -/

/-- ORDER BY returns the same multiset, arranged so that no later row precedes an earlier one under
    the SPARQL ordering of the sort keys (ASC/DESC, several keys) -/
def Statement_orderby_spec : Prop :=
  ∀ (keys : List (Expr × Bool)) (rows : List Row),
    (evalOrderBy keys rows).Perm rows ∧
    (evalOrderBy keys rows).Pairwise (fun a b => sparqlPrecedes keys b a = false)

/-- every sort key value is one on which rdflib's literal comparison is consistent (`okKey`, Spec.lean): either
    no key is an xsd:date / xsd:dateTime and the numeric datatype URIs sort between xsd:boolean and xsd:string (all
    but xsd:unsigned*), or dates are present and the numeric datatype URIs sort between xsd:dateTime and xsd:string
    (all but xsd:byte and xsd:unsigned*) -/
def KeysOkAt (wd : Bool) (keys : List (Expr × Bool)) (rows : List Row) : Prop :=
  ∀ k ∈ keys, ∀ r ∈ rows, okKey wd (evalE k.1 r) = true

def KeysOk (keys : List (Expr × Bool)) (rows : List Row) : Prop := KeysOkAt false keys rows ∨ KeysOkAt true keys rows

instance (wd : Bool) (keys : List (Expr × Bool)) (rows : List Row) : Decidable (KeysOkAt wd keys rows) := by
  unfold KeysOkAt; infer_instance

instance (keys : List (Expr × Bool)) (rows : List Row) : Decidable (KeysOk keys rows) := by
  unfold KeysOk; infer_instance

instance (wd : Bool) (a : AggSpec) (rows : List Row) : Decidable (ValsOkAt wd a rows) := by
  unfold ValsOkAt; infer_instance

instance (a : AggSpec) (rows : List Row) : Decidable (ValsOk a rows) := by
  unfold ValsOk; infer_instance

/-- stable_sort_chain: the repeated stable sort, last key first, sorts lexicographically -/
theorem stable_sort_chain (keys : List (Expr × Bool)) (rows : List Row) (h : KeysOk keys rows) :
    (evalOrderBy keys rows).Perm rows ∧ (evalOrderBy keys rows).Pairwise (fun a b => lexLt keys b a = false) := by
  refine ⟨perm_evalOrderBy keys rows, ?_⟩
  rcases h with h | h
  · exact sorted_evalOrderBy false keys rows h
  · exact sorted_evalOrderBy true keys rows h

theorem orderby_spec_partial (keys : List (Expr × Bool)) (rows : List Row) (h : KeysOk keys rows) :
    (evalOrderBy keys rows).Perm rows ∧
    (evalOrderBy keys rows).Pairwise (fun a b => sparqlPrecedes keys b a = false) := by
  refine ⟨perm_evalOrderBy keys rows, (stable_sort_chain keys rows h).2.imp ?_⟩
  intro a b hab
  cases hp : sparqlPrecedes keys b a with
  | false => rfl
  | true => rw [lexLt_of_sparqlPrecedes keys b a hp] at hab; cases hab

/-- known finding C08-K1 in the model: an xsd:unsignedInt next to a string and an integer.
    `"a" < 1u` and `5 < "a"` by datatype URI, `1u < 5` by value: the sort puts 5 before 1. -/
def k1Rows : List Row :=
  [[some (.num .unsignedInt 1 0)], [some (.str [97] [])], [some (.num .integer 5 0)]]

theorem orderby_spec_witness :
    ¬ ((evalOrderBy [(.var 0, false)] k1Rows).Pairwise (fun a b => sparqlPrecedes [(.var 0, false)] b a = false)) := by
  decide +kernel

example : ¬ KeysOk [(.var 0, false)] k1Rows := by decide +kernel

/-- non-vacuity of `orderby_spec_partial`: mixed kinds, numeric ties across datatypes, unbound, DESC -/
def exRows : List Row :=
  [[some (.num .integer 2 0), some (.str [98] [])], [none, some (.iri [97])],
   [some (.num .decimal 2 1), some (.bnode [120])], [some (.bool true), none],
   [some (.num .integer (-1) 0), some (.str [97] [])]]

example : KeysOk [(.var 0, true), (.var 1, false)] exRows := by decide +kernel
example : evalOrderBy [(.var 0, true), (.var 1, false)] exRows =
    [[some (.num .decimal 2 1), some (.bnode [120])], [some (.num .integer 2 0), some (.str [98] [])],
     [some (.num .integer (-1) 0), some (.str [97] [])], [some (.bool true), none], [none, some (.iri [97])]] := by
  decide +kernel

/-! ### xsd:dateTime / xsd:date sort keys (round g) -/

/-- how rdflib orders temporal keys (`Literal.__gt__` with `_TOTAL_ORDER_CASTERS`, CPython's `datetime` comparison):
    two xsd:dateTime — the one without timezone first, otherwise chronologically (instants for values with a timezone,
    local times for values without), two terms of one instant tied; two xsd:date — by proleptic ordinal; and between
    the classes, whatever the values: boolean < date < dateTime < string (datatype URIs).  `>` (MAX) is the converse. -/
def Statement_temporal_order : Prop :=
  (∀ f1 f2 : DTF, keyLt (some (.dateTime f1)) (some (.dateTime f2)) =
      (if f1.aware ≠ f2.aware then f2.aware else decide (f1.key < f2.key))) ∧
  (∀ f1 f2 : DF, keyLt (some (.date f1)) (some (.date f2)) = decide (f1.ord < f2.ord)) ∧
  (∀ (f : DF) (g : DTF), keyLt (some (.date f)) (some (.dateTime g)) = true ∧
      keyLt (some (.dateTime g)) (some (.date f)) = false) ∧
  (∀ (b : Bool) (f : DF) (g : DTF) (l lang : Str),
      keyLt (some (.bool b)) (some (.date f)) = true ∧ keyLt (some (.bool b)) (some (.dateTime g)) = true ∧
      keyLt (some (.date f)) (some (.str l lang)) = true ∧ keyLt (some (.dateTime g)) (some (.str l lang)) = true) ∧
  (∀ a b : Val, okKey true a = true → okKey true b = true → keyGt a b = keyLt b a)

theorem temporal_order : Statement_temporal_order := by
  refine ⟨?_, ?_, ?_, ?_, fun a b ha hb => keyGt_flip true a b ha hb⟩
  · intro f1 f2
    by_cases e : f1 = f2
    · subst e; simp [keyLt]
    · have h := litLt_eq true (.dateTime f1) (.dateTime f2) rfl rfl rfl rfl
      simp only [litCls, litInner, ne_eq, not_true_eq_false, if_false] at h
      have e' : Term.dateTime f1 ≠ Term.dateTime f2 := fun h => e (by injection h)
      simp only [keyLt, valRank, ne_eq, not_true_eq_false, if_false, e', termLt, h]
  · intro f1 f2
    by_cases e : f1 = f2
    · subst e; simp [keyLt]
    · have h := litLt_eq true (.date f1) (.date f2) rfl rfl rfl rfl
      simp only [litCls, litInner, ne_eq, not_true_eq_false, if_false] at h
      have e' : Term.date f1 ≠ Term.date f2 := fun h => e (by injection h)
      simp only [keyLt, valRank, ne_eq, not_true_eq_false, if_false, e', termLt, h]
  · intro f g
    have h1 := litLt_eq true (.date f) (.dateTime g) rfl rfl rfl rfl
    have h2 := litLt_eq true (.dateTime g) (.date f) rfl rfl rfl rfl
    simp only [litCls] at h1 h2
    constructor
    · simp only [keyLt, valRank, ne_eq, not_true_eq_false, if_false, reduceCtorEq, termLt, h1]; rfl
    · simp only [keyLt, valRank, ne_eq, not_true_eq_false, if_false, reduceCtorEq, termLt, h2]; rfl
  · intro b f g l lang
    have h1 := litLt_eq true (.bool b) (.date f) rfl rfl rfl rfl
    have h2 := litLt_eq true (.bool b) (.dateTime g) rfl rfl rfl rfl
    have h3 := litLt_eq true (.date f) (.str l lang) rfl rfl rfl rfl
    have h4 := litLt_eq true (.dateTime g) (.str l lang) rfl rfl rfl rfl
    simp only [litCls] at h1 h2 h3 h4
    refine ⟨?_, ?_, ?_, ?_⟩
    · simp only [keyLt, valRank, ne_eq, not_true_eq_false, if_false, reduceCtorEq, termLt, h1]; rfl
    · simp only [keyLt, valRank, ne_eq, not_true_eq_false, if_false, reduceCtorEq, termLt, h2]; rfl
    · simp only [keyLt, valRank, ne_eq, not_true_eq_false, if_false, reduceCtorEq, termLt, h3]; rfl
    · simp only [keyLt, valRank, ne_eq, not_true_eq_false, if_false, reduceCtorEq, termLt, h4]; rfl

/-- the model compares temporal values as points on the time line (`DF.ord` = `_ymd2ord`, `DTF.key` = ordinal, time of
    day and UTC offset in seconds — what CPython's `self - other` works with); CPython compares two dates, and two
    dateTimes with the same UTC offset (or both without), as FIELD TUPLES.  On valid field values the two agree, for
    `<` and for `==`; and an offset only shifts the point. -/
def Statement_calendar_order : Prop :=
  (∀ a b : DF, a.valid = true → b.valid = true →
      decide (a.ord < b.ord) = a.fieldsLt b ∧ (a.ord = b.ord ↔ a = b)) ∧
  (∀ a b : DTF, a.valid = true → b.valid = true → a.tz = b.tz →
      decide (a.key < b.key) = a.fieldsLt b ∧ (a.key = b.key ↔ a = b)) ∧
  (∀ (a : DTF) (z : Int), ({ a with tz := some z } : DTF).key = ({ a with tz := some 0 } : DTF).key - z * 60) ∧
  (∀ y, 1 ≤ y → daysBeforeYear (y + 1) = daysBeforeYear y + (if isLeap y then 366 else 365))

theorem calendar_order : Statement_calendar_order := by
  refine ⟨fun a b va vb => ⟨DF.ord_lt_iff a b va vb, fun h => DF.ord_inj a b va vb h, fun h => by rw [h]⟩,
    fun a b va vb htz => ⟨DTF.key_lt_iff a b va vb htz, fun h => DTF.key_inj a b va vb htz h, fun h => by rw [h]⟩,
    ?_, fun y hy => dby_succ y hy⟩
  intro a z
  simp only [DTF.key, Option.getD_some]
  omega

example : DTF.valid ⟨2020, 2, 29, 23, 59, 59, none⟩ = true ∧ DTF.valid ⟨2019, 2, 29, 0, 0, 0, none⟩ = false ∧
    DTF.valid ⟨1900, 2, 29, 0, 0, 0, some 60⟩ = false ∧ DTF.valid ⟨2000, 2, 29, 0, 0, 0, some 60⟩ = true ∧
    DTF.valid ⟨2020, 1, 1, 24, 0, 0, none⟩ = false ∧ ymd2ord 1 1 1 = 1 ∧ ymd2ord 2020 3 1 = 737485 ∧
    ymd2ord 9999 12 31 = 3652059 := by decide +kernel

/-- non-vacuity of `orderby_spec_partial` with temporal keys: dateTimes with and without timezone, one instant under
    two UTC offsets (tied, the second key decides), a date, a decimal, a string, a boolean, unbound -/
def tRows : List Row :=
  [[some (.dateTime ⟨2020, 1, 1, 5, 30, 0, some 330⟩), some (.num .integer 2 0)],
   [some (.str [97] []), none],
   [some (.dateTime ⟨2020, 1, 1, 0, 0, 0, some 0⟩), some (.num .integer 1 0)],
   [some (.dateTime ⟨2020, 3, 1, 0, 0, 0, none⟩), none],
   [some (.num .decimal (3 / 2) 1), none],
   [some (.date ⟨2020, 2, 29⟩), none],
   [none, none],
   [some (.dateTime ⟨2020, 2, 29, 23, 0, 0, some (-60)⟩), none],
   [some (.dateTime ⟨2020, 2, 29, 23, 59, 59, none⟩), none],
   [some (.bool true), none]]

example : KeysOk [(.var 0, false), (.var 1, true)] tRows := by decide +kernel
example : ¬ KeysOkAt false [(.var 0, false), (.var 1, true)] tRows := by decide +kernel
example : evalOrderBy [(.var 0, false), (.var 1, true)] tRows =
    [[none, none], [some (.bool true), none], [some (.date ⟨2020, 2, 29⟩), none],
     [some (.dateTime ⟨2020, 2, 29, 23, 59, 59, none⟩), none], [some (.dateTime ⟨2020, 3, 1, 0, 0, 0, none⟩), none],
     [some (.dateTime ⟨2020, 1, 1, 5, 30, 0, some 330⟩), some (.num .integer 2 0)],
     [some (.dateTime ⟨2020, 1, 1, 0, 0, 0, some 0⟩), some (.num .integer 1 0)],
     [some (.dateTime ⟨2020, 2, 29, 23, 0, 0, some (-60)⟩), none],
     [some (.num .decimal (3 / 2) 1), none], [some (.str [97] []), none]] := by decide +kernel

/-- known finding C08-K1 once more, the shape that dates add: `"5"^^xsd:byte < date < 1.0` by datatype URI but
    `1.0 < 5` by value — the reason why `KeysOk` with dates also excludes xsd:byte -/
def k1RowsByte : List Row :=
  [[some (.num .decimal 1 1)], [some (.date ⟨2020, 1, 1⟩)], [some (.num .byte 5 0)]]

theorem orderby_spec_witness_byte :
    ¬ ((evalOrderBy [(.var 0, false)] k1RowsByte).Pairwise (fun a b => sparqlPrecedes [(.var 0, false)] b a = false)) := by
  decide +kernel

example : ¬ KeysOk [(.var 0, false)] k1RowsByte := by decide +kernel

/-- LIMIT/OFFSET after ORDER BY: exactly that slice of the ordered sequence, itself in order -/
def Statement_slice_of_ordered : Prop :=
  ∀ (keys : List (Expr × Bool)) (rows : List Row) (o l : Nat), KeysOk keys rows →
    evalSlice o (some l) (evalOrderBy keys rows) = ((evalOrderBy keys rows).drop o).take l ∧
    (evalSlice o (some l) (evalOrderBy keys rows)).Pairwise (fun a b => sparqlPrecedes keys b a = false)

theorem slice_of_ordered : Statement_slice_of_ordered := by
  intro keys rows o l h
  have e := (slice_spec Row o l (evalOrderBy keys rows)).1
  refine ⟨e, ?_⟩
  rw [e]
  exact ((orderby_spec_partial keys rows h).2.sublist (List.drop_sublist _ _)).sublist (List.take_sublist _ _)

/-! ## GROUP BY (§18.5 Group, AggregateJoin) -/

/-- GROUP BY partitions the solutions by their key values: one row per distinct key (in order of first
    occurrence), whose aggregates have been fed exactly the solutions with that key, in order; every solution
    falls into exactly one group.  (Zero solutions: the single row without bindings of W3C test agg-empty-group.) -/
def Statement_group_partition : Prop :=
  ∀ (w : Nat) (ks : List Expr) (A : List AggSpec) (rows : List Row),
    aggregateJoin w (some ks) A rows =
      (if rows = [] then [emptyRow w]
       else (firstOcc (rows.map (keyOf ks))).map
         (fun k => bindAll A (foldAcc A (rows.filter (fun r => keyOf ks r = k))) (emptyRow w))) ∧
    (firstOcc (rows.map (keyOf ks))).Nodup ∧
    (∀ r ∈ rows, keyOf ks r ∈ firstOcc (rows.map (keyOf ks))) ∧
    foldAcc A rows = A.map (fun a => accRun a rows)

theorem group_partition : Statement_group_partition := by
  intro w ks A rows
  refine ⟨?_, nodup_firstOcc _, fun r hr => (mem_firstOcc _ _).2 (List.mem_map_of_mem hr), foldAcc_eq A rows⟩
  obtain ⟨h1, h2⟩ := groupAll_spec A ks rows
  have hgs : groupAll A ks [] rows = (firstOcc (rows.map (keyOf ks))).map
      (fun k => (k, foldAcc A (rows.filter (fun r => keyOf ks r = k)))) := by
    rw [← h1, List.map_map]
    conv => lhs; rw [← List.map_id (groupAll A ks [] rows)]
    apply List.map_congr_left
    intro g hg
    simp only [id, Function.comp]
    rw [← h2 g hg]
  unfold aggregateJoin
  simp only
  cases rows with
  | nil => simp [groupAll]
  | cons r rs =>
    simp only [reduceCtorEq, if_false]
    rw [hgs]
    simp only [List.map_cons, firstOcc, List.map_map]
    rfl

/-- without GROUP BY (aggregates only) there is exactly one group, also over zero solutions -/
def Statement_implicit_group_single_row : Prop :=
  ∀ (w : Nat) (A : List AggSpec) (rows : List Row),
    aggregateJoin w none A rows = [bindAll A (foldAcc A rows) (emptyRow w)]

theorem implicit_group_single_row : Statement_implicit_group_single_row := by
  intro w A rows; rfl

/-! ## The set functions (§18.5.1).  `aggValue a rows` is what the accumulator of aggregate `a` binds after
    having been fed `rows`; `argVals a rows` are the argument's values, errors (unbound, type errors) left out —
    the reading rdflib implements and pins in its tests; on groups without errors it coincides with §18.5.1 read
    literally. -/

/-- COUNT(*) counts solutions, COUNT(expr) the non-error values; DISTINCT counts each once -/
def Statement_count_spec : Prop :=
  ∀ (a : AggSpec) (rows : List Row), a.kind = .count →
    aggValue a rows = some (.num .integer
      ((if a.star then (dedupIf a.dist rows).length else (dedupIf a.dist (argVals a rows)).length : Nat) : Rat) 0)

theorem count_spec : Statement_count_spec := by
  intro a rows hk
  cases hs : a.star with
  | false =>
    obtain ⟨seen, h, _⟩ := count_arg_inv a hk hs rows
    simp [aggValue, h, AccSt.value]
  | true =>
    obtain ⟨seen, h, _⟩ := count_star_inv a hk hs rows
    simp [aggValue, h, AccSt.value]

/-- SUM adds the (DISTINCT) numeric values from the integer 0, LEFT TO RIGHT in solution order (`sumLR`, Spec.lean):
    exactly while only integers / decimals are involved, and — as CPython does once an xsd:double / xsd:float value has
    been met — by converting both operands to binary64 and rounding the exact sum to binary64 (`addNum`); its datatype is
    the XPath promotion of the datatypes.  Without floating operands this is the exact sum. -/
def Statement_sum_spec : Prop :=
  ∀ (a : AggSpec) (rows : List Row), a.kind = .sum →
    aggValue a rows = some (mkNum (promoteAll .integer ((numArgs a rows).map (·.1)))
      (sumLR (numArgs a rows)) (maxScale ((numArgs a rows).map (·.2.2)))) ∧
    (((numArgs a rows).map (·.1)).any DT.isFloating = false →
      sumLR (numArgs a rows) = sumRat ((numArgs a rows).map (·.2.1)))

theorem sum_spec : Statement_sum_spec := by
  intro a rows hk
  obtain ⟨seen, h, _⟩ := sum_inv a hk rows
  exact ⟨by simp [aggValue, h, AccSt.value, sumDT_getD], sumLR_exact _⟩

/-- `sumLR` is the fold of CPython's additions in solution order: the running value is a `float` from the first
    xsd:double / xsd:float operand on; from then on every step is `round64 (round64 running + round64 next)` (round to
    nearest, ties to even; `F.roundF`, Float.lean); before, it is exact.  The datatype of the SUM is floating exactly
    when an operand is.  Because of the rounding the SUM of doubles depends on the order of the solutions
    (0.1 + 0.2 + 0.3 = 0.6000000000000001, 0.3 + 0.2 + 0.1 = 0.6; 2^53 + 1 + 1 = 2^53, 1 + 1 + 2^53 = 2^53 + 2). -/
def Statement_sum_double_spec : Prop :=
  sumLR [] = 0 ∧
  (∀ (ns : List (DT × Rat × Nat)) (n : DT × Rat × Nat),
    sumLR (ns ++ [n]) = addNum (((ns ++ [n]).map (·.1)).any DT.isFloating) (sumLR ns) n.2.1) ∧
  (∀ v x : Rat, addNum true v x = F.roundF (F.roundF v + F.roundF x) ∧ addNum false v x = v + x) ∧
  (∀ (ds : List DT), (∀ d ∈ ds, d.isNumericOp = true) →
    (promoteAll .integer ds).isFloating = ds.any DT.isFloating) ∧
  (∀ v : Rat, F.roundF (-v) = - F.roundF v)

theorem sum_double_spec : Statement_sum_double_spec := by
  refine ⟨rfl, fun ns n => ?_, fun v x => ⟨rfl, rfl⟩, fun ds h => ?_, fun v => ?_⟩
  · rw [sumLR_snoc]; simp [List.any_append]
  · rw [promoteAll_floating ds .integer (by decide) h]; rfl
  · exact roundF_neg v

def dbl (m : Int) (s : Nat) : DT × Rat × Nat := (.double, F.roundF (mkRat m (pow10 s)), s)

/-- order dependence of a SUM over doubles, on the concrete binary64 values -/
theorem sum_double_order_witness :
    sumLR [dbl 1 1, dbl 2 1, dbl 3 1] ≠ sumLR [dbl 3 1, dbl 2 1, dbl 1 1] ∧
    F.floatLex (sumLR [dbl 1 1, dbl 2 1, dbl 3 1]) = "0.6000000000000001".toList.map Char.toNat ∧
    F.floatLex (sumLR [dbl 3 1, dbl 2 1, dbl 1 1]) = "0.6".toList.map Char.toNat ∧
    sumLR [dbl 90071992547409920 1, dbl 1 0, dbl 1 0] = 9007199254740992 ∧
    sumLR [dbl 1 0, dbl 1 0, dbl 90071992547409920 1] = 9007199254740994 ∧
    -- a decimal met after a double is converted to binary64 first; before, decimals add exactly
    sumLR [(.decimal, 1 / 10, 1), (.decimal, 2 / 10, 1), dbl 3 1] = F.roundF (F.roundF (3 / 10) + F.roundF (3 / 10)) := by
  decide +kernel

/-- AVG = Sum / Count over the (DISTINCT) numeric values, integer 0 for none; xsd:decimal unless a value is
    xsd:float/xsd:double.  Without floating values: the exact quotient, and the decimal TERM is determined too (its lexical
    form has `avgScale q (largest scale among the values)` fraction digits — what Python's `Decimal(sum) / Decimal(count)`
    gives, see `decimal_scale_spec`).  With a floating value: the left-to-right binary64 sum `sumLR` divided by the count
    and rounded to binary64 (`float / int`), with a floating datatype. -/
def Statement_avg_spec : Prop :=
  ∀ (a : AggSpec) (rows : List Row), a.kind = .avg →
    let ns := numArgs a rows
    let q := sumRat (ns.map (·.2.1)) / ((ns.length : Nat) : Rat)
    (ns = [] → aggValue a rows = some (.num .integer 0 0)) ∧
    (ns ≠ [] → (ns.map (·.1)).any DT.isFloating = false →
      aggValue a rows = some (.num .decimal q (avgScale q (maxScale (ns.map (·.2.2)))))) ∧
    (ns ≠ [] → (ns.map (·.1)).any DT.isFloating = true →
      ∃ d, d.isFloating = true ∧ aggValue a rows = some (mkNum d (F.roundF (sumLR ns / ((ns.length : Nat) : Rat))) 0))

theorem avg_spec : Statement_avg_spec := by
  intro a rows hk
  obtain ⟨seen, dt, h, hdt, _⟩ := avg_inv a hk rows
  refine ⟨?_, ?_, ?_⟩
  · intro hn
    simp [aggValue, h, AccSt.value, hn]
  · intro hn hf
    obtain ⟨d0, rfl, _, hfl⟩ := hdt.2 hn
    have hlen : (numArgs a rows).length ≠ 0 := fun e => hn (List.length_eq_zero_iff.1 e)
    rw [hf] at hfl
    simp [aggValue, h, AccSt.value, hlen, hfl, sumLR_exact _ hf]
  · intro hn hf
    obtain ⟨d0, rfl, _, hfl⟩ := hdt.2 hn
    have hlen : (numArgs a rows).length ≠ 0 := fun e => hn (List.length_eq_zero_iff.1 e)
    rw [hf] at hfl
    exact ⟨d0, hfl, by simp [aggValue, h, AccSt.value, hlen, hfl]⟩

/-- the scale of an AVG quotient: if `q · 10^m` is an integer for some `m < 30` then the least such `m` is found
    and the quotient keeps `max (scale of the sum) m` fraction digits; otherwise the marker `inexactScale`,
    the same for every non-terminating quotient (Python rounds those to 28 significant digits, a function of the
    value alone) -/
def Statement_decimal_scale_spec : Prop :=
  ∀ (q : Rat) (sumScale : Nat),
    (∀ m, decScale? q = some m →
      (q * ((pow10 m : Nat) : Rat)).den = 1 ∧ (∀ j, j < m → (q * ((pow10 j : Nat) : Rat)).den ≠ 1) ∧
      avgScale q sumScale = max sumScale m) ∧
    (decScale? q = none →
      (∀ j, j < 30 → (q * ((pow10 j : Nat) : Rat)).den ≠ 1) ∧ avgScale q sumScale = inexactScale)

theorem decimal_scale_spec : Statement_decimal_scale_spec := by
  intro q sc
  constructor
  · intro m h
    obtain ⟨_, _, h3, h4⟩ := decScaleAux_some q 30 0 m h
    exact ⟨h3, fun j hj => h4 j (Nat.zero_le _) hj, by simp [avgScale, h]⟩
  · intro h
    exact ⟨fun j hj => decScaleAux_none q 30 0 h j (Nat.zero_le _) (by omega), by simp [avgScale, h]⟩

/-- two decimal AVG results are the same TERM (and so collapse under DISTINCT) iff they have the same value and
    the same number of fraction digits; e.g. AVG{5, 0} = "2.5" = AVG{5.0, 0} ≠ "2.50" = AVG{5.00, 0}, and every
    group averaging to 1/3 yields the one term 0.3333333333333333333333333333 -/
def Statement_avg_term_identity : Prop :=
  ∀ (q1 q2 : Rat) (s1 s2 : Nat),
    (Term.num .decimal q1 (avgScale q1 s1) = Term.num .decimal q2 (avgScale q2 s2) ↔
      q1 = q2 ∧ avgScale q1 s1 = avgScale q1 s2) ∧
    (decScale? q1 = none → Term.num .decimal q1 (avgScale q1 s1) = Term.num .decimal q1 (avgScale q1 s2))

theorem avg_term_identity : Statement_avg_term_identity := by
  intro q1 q2 s1 s2
  constructor
  · constructor
    · intro h
      injection h with _ h2 h3
      subst h2
      exact ⟨rfl, h3⟩
    · rintro ⟨rfl, h⟩
      rw [h]
  · intro h
    simp [avgScale, h]

example : avgScale (5 / 2) 0 = 1 ∧ avgScale (5 / 2) 1 = 1 ∧ avgScale (5 / 2) 2 = 2 ∧ avgScale 3 0 = 0 ∧
    avgScale (1 / 3) 0 = inexactScale ∧ avgScale (5 / 4) 2 = 2 ∧ avgScale (1 / 8) 0 = 3 := by decide +kernel

/-- MIN/MAX: unbound for no values; otherwise a value of the group that no value of the group precedes
    (resp. that precedes no value of the group) in the SPARQL ordering (`minOk`, `maxOk` in Spec.lean) -/
def Statement_min_spec : Prop :=
  ∀ (a : AggSpec) (rows : List Row), a.kind = .min → minOk (aggValue a rows) (argVals a rows) = true

def Statement_max_spec : Prop :=
  ∀ (a : AggSpec) (rows : List Row), a.kind = .max → maxOk (aggValue a rows) (argVals a rows) = true

theorem min_spec_partial (a : AggSpec) (rows : List Row) (hk : a.kind = .min) (hok : ValsOk a rows) :
    minOk (aggValue a rows) (argVals a rows) = true := by
  have hinv := hok.elim (min_inv false a hk rows) (min_inv true a hk rows)
  rcases hinv with ⟨h1, h2⟩ | ⟨m, h1, h2⟩
  · simp [aggValue, h2, AccSt.value, h1, minOk]
  · simp only [aggValue, h1, AccSt.value, minOk, Bool.and_eq_true, List.contains_eq_mem, decide_eq_true_eq,
      List.all_eq_true, Bool.not_eq_eq_eq_not, Bool.not_true]
    refine ⟨h2.1, fun t ht => ?_⟩
    cases hs : sparqlLt (some t) (some m) with
    | false => rfl
    | true => have := keyLt_of_sparqlLt hs; rw [h2.2 t ht] at this; cases this

theorem max_spec_partial (a : AggSpec) (rows : List Row) (hk : a.kind = .max) (hok : ValsOk a rows) :
    maxOk (aggValue a rows) (argVals a rows) = true := by
  have hinv := hok.elim (max_inv false a hk rows) (max_inv true a hk rows)
  rcases hinv with ⟨h1, h2⟩ | ⟨m, h1, h2⟩
  · simp [aggValue, h2, AccSt.value, h1, maxOk]
  · simp only [aggValue, h1, AccSt.value, maxOk, Bool.and_eq_true, List.contains_eq_mem, decide_eq_true_eq,
      List.all_eq_true, Bool.not_eq_eq_eq_not, Bool.not_true]
    refine ⟨h2.1, fun t ht => ?_⟩
    cases hs : sparqlLt (some m) (some t) with
    | false => rfl
    | true => have := keyLt_of_sparqlLt hs; rw [h2.2 t ht] at this; cases this

/-- C08-K1 again: MIN over `1u, "a", 5` answers 5 -/
theorem min_spec_witness :
    ¬ (minOk (aggValue ⟨.min, false, false, .var 0, none, 1⟩ k1Rows)
        (argVals ⟨.min, false, false, .var 0, none, 1⟩ k1Rows) = true) := by
  decide +kernel

/-- … and MAX over `5, "a", 1u` answers 1u -/
def k1Rows' : List Row :=
  [[some (.num .integer 5 0)], [some (.str [97] [])], [some (.num .unsignedInt 1 0)]]

theorem max_spec_witness :
    ¬ (maxOk (aggValue ⟨.max, false, false, .var 0, none, 1⟩ k1Rows')
        (argVals ⟨.max, false, false, .var 0, none, 1⟩ k1Rows') = true) := by
  decide +kernel

/-- non-vacuity of the partial theorems: a group of mixed kinds with an unbound value -/
example : ValsOk ⟨.min, false, false, .var 0, none, 1⟩ exRows ∧
    aggValue ⟨.min, false, false, .var 0, none, 1⟩ exRows = some (.bool true) ∧
    aggValue ⟨.max, false, false, .var 0, none, 1⟩ exRows = some (.num .integer 2 0) := by
  refine ⟨by decide +kernel, by decide +kernel, by decide +kernel⟩

/-- non-vacuity with temporal values: MIN / MAX over the column of `tRows` -/
example : ValsOk ⟨.min, false, false, .var 0, none, 2⟩ tRows ∧
    aggValue ⟨.min, false, false, .var 0, none, 2⟩ tRows = some (.bool true) ∧
    aggValue ⟨.max, false, false, .var 0, none, 2⟩ tRows = some (.str [97] []) ∧
    aggValue ⟨.min, false, false, .var 0, none, 2⟩ (tRows.take 1 ++ (tRows.drop 2).take 2) =
      some (.dateTime ⟨2020, 3, 1, 0, 0, 0, none⟩) ∧
    aggValue ⟨.max, false, false, .var 0, none, 2⟩ (tRows.take 1 ++ (tRows.drop 2).take 2) =
      some (.dateTime ⟨2020, 1, 1, 5, 30, 0, some 330⟩) := by
  refine ⟨by decide +kernel, by decide +kernel, by decide +kernel, by decide +kernel, by decide +kernel⟩

/-- SAMPLE: a value of the group (the first one), unbound iff there is none -/
def Statement_sample_spec : Prop :=
  ∀ (a : AggSpec) (rows : List Row), a.kind = .sample →
    aggValue a rows = (argVals a rows).head? ∧
    (∀ m, aggValue a rows = some m → m ∈ argVals a rows) ∧ (aggValue a rows = none ↔ argVals a rows = [])

theorem sample_spec : Statement_sample_spec := by
  intro a rows hk
  have h := sample_inv a hk rows
  have e : aggValue a rows = (argVals a rows).head? := by simp [aggValue, h, AccSt.value]
  refine ⟨e, ?_, ?_⟩
  · intro m hm
    rw [e] at hm
    exact List.mem_of_mem_head? hm
  · rw [e]; cases argVals a rows <;> simp

/-- a variable that has the same value (or no value) in every solution of a non-empty group — a GROUP BY key —
    SAMPLEs to that value.  With `rewrite_correct` (HAVING and ORDER BY variables are always rewritten to
    SAMPLEs, whether or not the clause contains an aggregate) this is the law for `HAVING (?key …)` and
    `ORDER BY ?key` on a key that is not selected. -/
def Statement_sample_of_group_key : Prop :=
  ∀ (v : Nat) (x : Val) (rows : List Row), rows ≠ [] → (∀ r ∈ rows, r.get v = x) →
    aggValue ⟨.sample, false, false, .var v, none, 0⟩ rows = x

theorem sample_of_group_key : Statement_sample_of_group_key := by
  intro v x rows hne h
  rw [(sample_spec ⟨.sample, false, false, .var v, none, 0⟩ rows rfl).1]
  cases rows with
  | nil => exact absurd rfl hne
  | cons r rs =>
    have hr : evalE (Expr.var v) r = x := h r List.mem_cons_self
    cases x with
    | some t => simp [argVals, List.filterMap_cons, hr]
    | none =>
      have : argVals ⟨.sample, false, false, .var v, none, 0⟩ (r :: rs) = [] := by
        simp only [argVals, List.filterMap_eq_nil_iff]
        intro a ha; exact h a ha
      rw [this]; rfl

/-- GROUP_CONCAT: the STR() forms of the (DISTINCT) values joined by the separator (default one space) -/
def Statement_groupconcat_spec : Prop :=
  ∀ (a : AggSpec) (rows : List Row), a.kind = .gconcat →
    aggValue a rows = some (.str (joinStr (a.sep.getD [32]) ((dedupIf a.dist (argVals a rows)).map lexOf)) [])

theorem groupconcat_spec : Statement_groupconcat_spec := by
  intro a rows hk
  obtain ⟨seen, h, _⟩ := gc_inv a hk rows
  simp [aggValue, h, AccSt.value]

/-- the defined results for the empty group: COUNT 0, SUM 0, AVG 0 (xsd:integer), MIN/MAX/SAMPLE unbound,
    GROUP_CONCAT "" -/
def Statement_empty_group_values : Prop :=
  ∀ (a : AggSpec),
    aggValue a [] = (match a.kind with
      | .count => some (.num .integer 0 0)
      | .sum => some (.num .integer 0 0)
      | .avg => some (.num .integer 0 0)
      | .min => none
      | .max => none
      | .sample => none
      | .gconcat => some (.str [] []))

theorem empty_group_values : Statement_empty_group_values := by
  intro a
  obtain ⟨k, d, s, arg, sep, res⟩ := a
  cases k <;> simp [aggValue, accRun, initAcc, AccSt.value, joinStr] <;> decide

/-! ## HAVING and the order of the stages -/

/-- HAVING keeps exactly the groups (rows after aggregation) whose condition evaluates to true, in order -/
def Statement_having_filters_groups : Prop :=
  ∀ (e : Expr) (rows : List Row),
    (filterRows e rows).Sublist rows ∧
    ∀ r, r ∈ filterRows e rows ↔ r ∈ rows ∧ evalE e r = some (.bool true)

theorem having_filters_groups : Statement_having_filters_groups := by
  intro e rows
  refine ⟨List.filter_sublist, fun r => ?_⟩
  simp only [filterRows, List.mem_filter]
  constructor
  · rintro ⟨h1, h2⟩
    refine ⟨h1, ?_⟩
    cases hv : evalE e r with
    | none => rw [hv] at h2; cases h2
    | some t =>
      rw [hv] at h2
      cases t <;> simp only [ebvTrue, Bool.false_eq_true] at h2
      rw [h2]
  · rintro ⟨h1, h2⟩
    exact ⟨h1, by rw [h2]; rfl⟩

/-- the stages of an aggregate query, in the order of SPARQL §18.2.4/18.2.5: AggregateJoin over the rewritten
    aggregates, aliases of the sampled SELECT variables, HAVING, SELECT expressions, ORDER BY, projection,
    DISTINCT/REDUCED, OFFSET/LIMIT -/
theorem query_stages (q : Query) (input : List Row) (h : q.isAggregate = true) :
    let t := translateAggregates q
    let w := q.nuser + t.A.length
    let grouped := t.aliases.foldl (fun rows al => extend (.var al.1) al.2 rows)
      (aggregateJoin w q.group t.A
        (q.groupAs.foldl (fun rows ga => extend ga.2 ga.1 rows) (input.map (padRow w))))
    evalQuery q input =
      applySlice q.offset q.limit
        (applyModifier q.modifier
          (evalProject q.nuser (q.proj.map Proj.name)
            (evalOrderBy t.order (extendProj t.proj (applyHaving t.having grouped))))) := by
  simp only [evalQuery, groupStage, h, if_true]

/-- `translateAggregates` is correct: (a) the row AggregateJoin builds for a group carries, at each `__agg_n__`,
    the value of that aggregate over the group; (b) it keeps doing so while Extend binds user variables;
    (c) on any such row the rewritten SELECT expressions, HAVING condition and ORDER BY keys evaluate to what the
    original expressions mean on the group (`evalG`: aggregates over the group, bare variables SAMPLEd, SELECT
    aliases read from the row); (d) every plain SELECT variable is bound, through its alias pair, to a SAMPLE of
    itself.  Covers an aggregate inside an expression, the implicit SAMPLE, HAVING after aliasing, and
    ORDER BY on an alias next to an aggregate. -/
def Statement_rewrite_correct : Prop :=
  ∀ (q : Query),
    (∀ (w : Nat) (rows : List Row),
      Carries q.nuser (translateAggregates q).A rows
        (bindAll (translateAggregates q).A (foldAcc (translateAggregates q).A rows) (emptyRow w))) ∧
    (∀ (rows : List Row) (g : Row) (v : Nat) (x : Val), v < q.nuser →
      Carries q.nuser (translateAggregates q).A rows g → Carries q.nuser (translateAggregates q).A rows (g.set v x)) ∧
    (∀ (rows : List Row) (g : Row), Carries q.nuser (translateAggregates q).A rows g →
      Forall2 (ProjAgrees rows g) q.proj (translateAggregates q).proj ∧
      (match q.having, (translateAggregates q).having with
       | none, none => True
       | some h, some h' => evalE h' g = evalG [] rows g h
       | _, _ => False) ∧
      Forall2 (KeyAgrees (q.proj.filterMap Proj.alias?) rows g) q.order (translateAggregates q).order) ∧
    (∀ al ∈ (translateAggregates q).aliases, Proj.var al.2 ∈ q.proj ∧ ∃ i, al.1 = q.nuser + i ∧
      (translateAggregates q).A[i]? = some ⟨.sample, false, false, .var al.2, none, q.nuser + i⟩)

theorem rewrite_correct : Statement_rewrite_correct := by
  intro q
  obtain ⟨hwf, hb, hc⟩ := translateAggregates_spec q
  refine ⟨fun w rows => groupRow_carries q.nuser w _ hwf rows, ?_, hb, hc⟩
  intro rows g v x hv hcar i a ha
  have hne : v ≠ q.nuser + i := by omega
  rw [Row.get_set, if_neg hne]
  exact hcar i a ha

/-- non-vacuity: `SELECT ?g (SUM(?v) + 1 AS ?x) … GROUP BY ?g HAVING (COUNT(?v) > 1) ORDER BY DESC(?x) COUNT(?v)` -/
def exQuery : Query :=
  { nuser := 3, groupAs := [], group := some [.var 0],
    proj := [.var 0, .expr 2 (.add (.agg .sum false false (.var 1) none) (.const (.num .integer 1 0)))],
    having := some (.cmp .gt (.agg .count false false (.var 1) none) (.const (.num .integer 1 0))),
    order := [(.var 2, true), (.agg .count false false (.var 1) none, false)],
    modifier := .none, offset := none, limit := none }

example : ((translateAggregates exQuery).A.map (·.kind), (translateAggregates exQuery).A.map (·.res),
    (translateAggregates exQuery).aliases) =
    ([.sum, .count, .count, .sample], [3, 4, 5, 6], [(6, 0)]) := by decide +kernel

def exInput : List Row :=
  [[some (.num .integer 1 0), some (.num .integer 2 0)], [some (.num .integer 2 0), some (.num .decimal (5 / 2) 1)],
   [some (.num .integer 1 0), some (.num .integer 4 0)], [some (.num .integer 2 0), none],
   [some (.num .integer 2 0), some (.num .integer 1 0)], [some (.num .integer 3 0), some (.num .integer 9 0)]]

example : evalQuery exQuery exInput =
    [[some (.num .integer 1 0), none, some (.num .integer 7 0)],
     [some (.num .integer 2 0), none, some (.num .decimal (9 / 2) 1)]] := by decide +kernel

end RV.C08
