import RV.C08.Model
import RV.Base.Proto
/-
  C08 driver.  Protocol (one answer line per input line):
    reset                 -> ok            (forget the stored solutions)
    row c1 c2 …           -> ok            (one pattern solution; cell = term token or `-`)
    q <query tokens>      -> v1,v2#row;row;…   (evalQuery on the stored solutions; row = cells joined by `,`)
    cal t1 t2 …           -> c1 c2 …       (calendar functions on temporal term tokens: dateTime `valid:aware:key:lexcps`,
                                            date `valid:ord:lexcps`)
  term tokens:  I.<dt>.<int>  D.<m>.<s>  F.<dt>.<m>.<s>  B.0|1  S.<cps>.<langcps>  U.<cps>  N.<cps>   (cps = code points joined by `_`)
                T.<y>.<mo>.<d>.<h>.<mi>.<s>.<tz minutes|->  (xsd:dateTime)   Y.<y>.<mo>.<d>  (xsd:date)
  query tokens: mod(N|D|R) offset(n|-) limit(n|-) nuser  (-| k (gv i | ga i E | ge E)…)  nproj (pv v | pe v E)…  (0 | 1 E)  nord ((A|D) E)…
  E: v i | c term | + E E | - E E | cmp (lt|gt|eq|ne|le|ge) E E | and E E | agg kind d(0|1) sep(-|s<cps>) (* | E)
  answer cells: Q.<dt>.<num>.<den>.<scale>  (xsd:double / xsd:float: Q.<dt>.<num>.<den>.L<cps of the lexical form = repr>)  B.0|1  S.<cps>.<langcps>  U.<cps>  N.<cps>  -
-/
open RV RV.C08 RV.Proto

def cps? (s : String) : Option Str :=
  if s = "" then some [] else (s.splitOn "_").mapM String.toNat?

def showCps (xs : Str) : String := "_".intercalate (xs.map toString)

def term? (tk : String) : Option Val :=
  if tk = "-" then some none else
  match tk.splitOn "." with
  | ["I", d, n] => do
    let d ← DT.ofName? d
    let n ← n.toInt?
    pure (some (.num d (n : Rat) 0))
  | ["D", m, s] => do
    let m ← m.toInt?
    let s ← s.toNat?
    pure (some (.num .decimal (mkRat m (pow10 s)) s))
  | ["F", d, m, s] => do
    let d ← DT.ofName? d
    let m ← m.toInt?
    let s ← s.toNat?
    pure (some (.num d (F.roundF (mkRat m (pow10 s))) s))   -- `float(lexical)`: the nearest binary64
  | ["B", b] => if b = "1" then some (some (.bool true)) else if b = "0" then some (some (.bool false)) else none
  | ["S", l, g] => do
    let l ← cps? l
    let g ← cps? g
    pure (some (.str l g))
  | ["U", s] => do
    let s ← cps? s
    pure (some (.iri s))
  | ["N", s] => do
    let s ← cps? s
    pure (some (.bnode s))
  | ["T", y, mo, d, h, mi, sec, tz] => do
    let y ← y.toNat?
    let mo ← mo.toNat?
    let d ← d.toNat?
    let h ← h.toNat?
    let mi ← mi.toNat?
    let sec ← sec.toNat?
    let tz ← (if tz = "-" then some none else tz.toInt?.map some)
    pure (some (.dateTime ⟨y, mo, d, h, mi, sec, tz⟩))
  | ["Y", y, mo, d] => do
    let y ← y.toNat?
    let mo ← mo.toNat?
    let d ← d.toNat?
    pure (some (.date ⟨y, mo, d⟩))
  | _ => none

def showVal : Val → String
  | none => "-"
  | some (.bnode l) => "N." ++ showCps l
  | some (.iri s) => "U." ++ showCps s
  | some (.num d v sc) =>
    if d.isFloating then s!"Q.{d.name}.{v.num}.{v.den}.L{showCps (lexOf (.num d v sc))}" else s!"Q.{d.name}.{v.num}.{v.den}.{sc}"
  | some (.bool b) => if b then "B.1" else "B.0"
  | some (.str l g) => s!"S.{showCps l}.{showCps g}"
  | some (.dateTime f) => s!"T.{f.y}.{f.mo}.{f.d}.{f.h}.{f.mi}.{f.s}." ++ (match f.tz with | none => "-" | some z => toString z)
  | some (.date f) => s!"Y.{f.y}.{f.mo}.{f.d}"

def aggK? : String → Option AggK
  | "count" => some .count | "sum" => some .sum | "avg" => some .avg | "min" => some .min
  | "max" => some .max | "sample" => some .sample | "gconcat" => some .gconcat | _ => none

def cmpOp? : String → Option CmpOp
  | "lt" => some .lt | "gt" => some .gt | "eq" => some .eq | "ne" => some .ne
  | "le" => some .le | "ge" => some .ge | _ => none

/-- prefix-notation expression parser; fuel = number of tokens -/
def parseE : Nat → List String → Option (Expr × List String)
  | 0, _ => none
  | f + 1, ts =>
    match ts with
    | "v" :: i :: rest => i.toNat?.map (fun i => (.var i, rest))
    | "c" :: t :: rest =>
      match term? t with
      | some (some t) => some (.const t, rest)
      | _ => none
    | "+" :: rest => do
      let (a, r1) ← parseE f rest
      let (b, r2) ← parseE f r1
      pure (.add a b, r2)
    | "-" :: rest => do
      let (a, r1) ← parseE f rest
      let (b, r2) ← parseE f r1
      pure (.sub a b, r2)
    | "and" :: rest => do
      let (a, r1) ← parseE f rest
      let (b, r2) ← parseE f r1
      pure (.and a b, r2)
    | "cmp" :: op :: rest => do
      let op ← cmpOp? op
      let (a, r1) ← parseE f rest
      let (b, r2) ← parseE f r1
      pure (.cmp op a b, r2)
    | "agg" :: k :: d :: sep :: rest => do
      let k ← aggK? k
      let d ← (if d = "1" then some true else if d = "0" then some false else none)
      let sep ← (if sep = "-" then some none else if sep.startsWith "s" then (cps? (sep.drop 1).toString).map some else none)
      match rest with
      | "*" :: r => pure (.agg k d true (.var 0) sep, r)
      | _ =>
        let (a, r) ← parseE f rest
        pure (.agg k d false a sep, r)
    | _ => none

def optNat'? (w : String) : Option (Option Nat) := if w = "-" then some none else w.toNat?.map some

def takeNats : Nat → List String → Option (List Nat × List String)
  | 0, ts => some ([], ts)
  | n + 1, t :: ts => do
    let x ← t.toNat?
    let (xs, r) ← takeNats n ts
    pure (x :: xs, r)
  | _, [] => none

/-- GROUP BY conditions: `gv i` (variable) or `ga i E` (`(E AS ?i)`) -/
def parseGroup (fuel : Nat) : Nat → List String → Option ((List Expr × List (Nat × Expr)) × List String)
  | 0, ts => some (([], []), ts)
  | n + 1, "gv" :: v :: ts => do
    let v ← v.toNat?
    let ((ks, gas), r) ← parseGroup fuel n ts
    pure ((.var v :: ks, gas), r)
  | n + 1, "ge" :: ts => do
    let (e, r1) ← parseE fuel ts
    let ((ks, gas), r) ← parseGroup fuel n r1
    pure ((e :: ks, gas), r)
  | n + 1, "ga" :: v :: ts => do
    let v ← v.toNat?
    let (e, r1) ← parseE fuel ts
    let ((ks, gas), r) ← parseGroup fuel n r1
    pure ((.var v :: ks, (v, e) :: gas), r)
  | _, _ => none

def parseProj (fuel : Nat) : Nat → List String → Option (List Proj × List String)
  | 0, ts => some ([], ts)
  | n + 1, "pv" :: v :: ts => do
    let v ← v.toNat?
    let (ps, r) ← parseProj fuel n ts
    pure (.var v :: ps, r)
  | n + 1, "pe" :: v :: ts => do
    let v ← v.toNat?
    let (e, r1) ← parseE fuel ts
    let (ps, r) ← parseProj fuel n r1
    pure (.expr v e :: ps, r)
  | _, _ => none

def parseOrder (fuel : Nat) : Nat → List String → Option (List (Expr × Bool) × List String)
  | 0, ts => some ([], ts)
  | n + 1, d :: ts => do
    let d ← (if d = "D" then some true else if d = "A" then some false else none)
    let (e, r1) ← parseE fuel ts
    let (ks, r) ← parseOrder fuel n r1
    pure ((e, d) :: ks, r)
  | _, _ => none

def parseQuery (ts : List String) : Option Query := do
  let fuel := ts.length + 1
  match ts with
  | m :: off :: lim :: nuser :: rest =>
    let modifier ← (if m = "N" then some Modifier.none else if m = "D" then some .distinct else if m = "R" then some .reduced else none)
    let off ← optNat'? off
    let lim ← optNat'? lim
    let nuser ← nuser.toNat?
    let ((group, groupAs), r1) ← (match rest with
      | "-" :: r => some ((none, []), r)
      | k :: r => do
        let k ← k.toNat?
        let ((gs, gas), r') ← parseGroup fuel k r
        pure ((some gs, gas), r')
      | [] => none)
    match r1 with
    | np :: r2 =>
      let np ← np.toNat?
      let (proj, r3) ← parseProj fuel np r2
      let (having, r4) ← (match r3 with
        | "0" :: r => some (none, r)
        | "1" :: r => do
          let (e, r') ← parseE fuel r
          pure (some e, r')
        | _ => none)
      match r4 with
      | no :: r5 =>
        let no ← no.toNat?
        let (order, r6) ← parseOrder fuel no r5
        if r6 ≠ [] then none else
        pure { nuser := nuser, groupAs := groupAs, group := group, proj := proj, having := having, order := order,
               modifier := modifier, offset := off, limit := lim }
      | [] => none
    | [] => none
  | _ => none

def showRows (q : Query) (rows : List Row) : String :=
  let pv := q.proj.map Proj.name
  ",".intercalate (pv.map toString) ++ "#" ++
    ";".intercalate (rows.map (fun r => ",".intercalate (pv.map (fun v => showVal (r.get v)))))

def showCal : Val → Option String
  | some (.dateTime f) => some s!"{if f.valid then 1 else 0}:{if f.aware then 1 else 0}:{f.key}:{showCps f.lex}"
  | some (.date f) => some s!"{if f.valid then 1 else 0}:{f.ord}:{showCps f.lex}"
  | _ => none

def step (s : List Row) : List String → List Row × String
  | ["reset"] => ([], "ok")
  | "row" :: cells =>
    match cells.mapM term? with
    | some r => (s ++ [r], "ok")
    | none => (s, "bad-op")
  | "cal" :: ts =>
    match (ts.mapM term?).bind (fun vs => vs.mapM showCal) with
    | some cs => (s, " ".intercalate cs)
    | none => (s, "bad-op")
  | "q" :: ts =>
    match parseQuery ts with
    | some q => (s, showRows q (evalQuery q s))
    | none => (s, "bad-op")
  | _ => (s, "bad-op")

def main : IO Unit := RV.Proto.run step ([] : List Row)
