import RV.C13.LemmasG
/-
  C13 — property theorems.  "Reading a graph never changes it: serialise, query, compare are pure."

  `ReadOp` (Model.lean) lists the read APIs; each is a `State → State × Out` that performs the store
  calls the code performs.  `WF` = the state was built through the store API (see `wf_reachable`).
  `Frame s s'` = same quads, same configuration, same set of graphs (default graph counted on both sides).
-/
namespace RV.C13

/-! ### Statements -/

/-- ⊢ every read leaves the quads and the set of graphs exactly as they were — for every dataset,
    including blank-node-named and registered-empty graphs, `defaultUnion` on or off,
    Dataset / ConjunctiveGraph / plain Graph, whatever prefixes are bound.  (Prefix bindings, the `ns`
    component, are outside the statement: see `namespaces_may_grow`.) -/
def Statement_read_frame : Prop :=
  ∀ (s : State) (r : ReadOp), WF s →
    (s.run r).1.quads = s.quads ∧ SetEq (s.run r).1.graphNames s.graphNames ∧
    (s.run r).1.defaultUnion = s.defaultUnion ∧ (s.run r).1.isDataset = s.isDataset ∧
    (s.run r).1.dname = s.dname

/-- ⊢ the same read twice in a row gives the same answer (the modelled reads mint nothing and
    read no clock; `body`/`canon`/`digest` are functions) -/
def Statement_read_deterministic : Prop :=
  ∀ (s : State) (r : ReadOp), WF s → (s.run r).2 = ((s.run r).1.run r).2

/-- any sequence of reads, in any order and repetition, leaves the state fixed -/
def Statement_frame_compose : Prop :=
  ∀ (s : State) (rs : List ReadOp), WF s → Frame s (s.runAll rs) ∧ WF (s.runAll rs)

/-- … and a read answers after any sequence of reads what it answers before it -/
def Statement_read_after_reads_same : Prop :=
  ∀ (s : State) (rs : List ReadOp) (r : ReadOp), WF s → ((s.runAll rs).run r).2 = (s.run r).2

/-- `ConjunctiveGraph._graph` on a view of the SAME store: the self-copy `_graph.__iadd__(c)` is the
    identity; all that can happen is the registration of the default graph by the `contexts()` scan -/
def Statement_same_store_view_is_noop : Prop :=
  ∀ (s : State) (g : GName), WF s → s.graphView g = s.contextsCall.1 ∧ Frame s (s.graphView g)

/-- the hypothesis `WF` costs nothing: every history of store writes from an empty store gives it -/
def Statement_wf_reachable : Prop :=
  ∀ (du ds : Bool) (dn : GName) (ws : List Write), (ds = true → dn = .dflt) →
    WF ((⟨[], [], du, ds, dn, [], none⟩ : State).writes ws)

/-- Prefix bindings: exactly the reads with `mayBind` (turtle/n3, longturtle, rdf/xml, pretty-xml, trig,
    `qname`/`compute_qname`) can add bindings; bindings are never removed; what is added is the namespace of a
    predicate (pretty-xml: or class) the serializer writes / of the IRI asked for (`mayBindNs`); and — by
    `read_frame` — nothing else changes. -/
def Statement_namespaces_may_grow : Prop :=
  ∀ (s : State) (r : ReadOp), WF s →
    (r.mayBind = false → (s.run r).1.ns = s.ns) ∧
    (∀ n ∈ s.ns, n ∈ (s.run r).1.ns) ∧
    (∀ n ∈ (s.run r).1.ns, n ∈ s.ns ∨ r.mayBindNs s n)

/-- Prefix bindings, EXACTLY: after a read the namespaces with a prefix are those that had one before plus
    every namespace `mayBindNs` names — each predicate namespace of a triple the Turtle-family / RDF-XML
    serializers write (pretty-xml: and each class namespace), every predicate namespace of the dataset for TriG,
    the namespace of the IRI handed to `qname`; nothing for any other read. -/
def Statement_namespaces_exact : Prop :=
  ∀ (s : State) (r : ReadOp) (n : Nat), WF s →
    (n ∈ (s.run r).1.ns ↔ n ∈ s.ns ∨ r.mayBindNs s n)

/-- a read binds everything it is going to bind the FIRST time: the same read again adds no prefix
    (with `read_frame` and `read_deterministic`: reading twice is reading once, on all three axes) -/
def Statement_bindings_idempotent : Prop :=
  ∀ (s : State) (r : ReadOp) (n : Nat), WF s →
    (n ∈ ((s.run r).1.run r).1.ns ↔ n ∈ (s.run r).1.ns)

/-- attributes of the object being read that are not triples: the base IRI of the default graph
    (`Dataset(default_graph_base=…)`, `default_context.base`) is the same after every read, after every sequence of
    reads and after every read through a view — `Dataset.graphs()/contexts()` assign `base` to the NEW Graph object
    `self.graph(DATASET_DEFAULT_GRAPH_ID)` builds, never to the dataset's own default graph.  (`default_union`, the
    identifier of the default graph and the kind of graph are the configuration clauses of `read_frame`.) -/
def Statement_read_frame_attributes : Prop :=
  ∀ (s : State), WF s →
    (∀ r, (s.run r).1.dgBase = s.dgBase) ∧ (∀ rs, (s.runAll rs).dgBase = s.dgBase) ∧
    (∀ g r, (s.runView g r).1.dgBase = s.dgBase)

/-- a read through a `Graph` VIEW of one context (`ds.get_context(g)`, any `g` — also an unknown or empty one):
    quads, registered graphs (literally: a view never registers the default graph) and the dataset's configuration
    unchanged, bindings only grow, and the same read again gives the same answer -/
def Statement_view_read_frame : Prop :=
  ∀ (s : State) (g : GName) (r : ReadOp), WF s →
    (s.runView g r).1.quads = s.quads ∧ (s.runView g r).1.known = s.known ∧
    (s.runView g r).1.defaultUnion = s.defaultUnion ∧ (s.runView g r).1.isDataset = s.isDataset ∧
    (s.runView g r).1.dname = s.dname ∧ (∀ n ∈ s.ns, n ∈ (s.runView g r).1.ns) ∧
    (s.runView g r).2 = ((s.runView g r).1.runView g r).2

/-- `ReadOnlyGraphAggregate` over views of the store (member list `gs`, duplicates allowed): `triples(pat)` are exactly
    the matching triples some member holds (the skipping of triples an earlier member holds loses nothing),
    `pat in agg` says whether there is one, `quads(pat)` are exactly the members' matching quads; and the four
    reads leave the state literally unchanged -/
def Statement_aggregate_reads : Prop :=
  ∀ (s : State) (gs : List GName) (pat : Pat),
    (∀ t, t ∈ aggTriples s.quads pat [] gs ↔ pat.matches t = true ∧ ∃ g ∈ gs, (t, g) ∈ s.quads) ∧
    (aggContains s.quads pat gs = true ↔ ∃ t, t ∈ aggTriples s.quads pat [] gs) ∧
    (∀ q, q ∈ aggQuads s.quads pat gs ↔ pat.matches q.1 = true ∧ q.2 ∈ gs ∧ q ∈ s.quads) ∧
    (s.run (.aggLen gs)).1 = s ∧ (s.run (.aggTriples gs pat)).1 = s ∧
    (s.run (.aggContains gs pat)).1 = s ∧ (s.run (.aggQuads gs pat)).1 = s

/-- `Graph.transitive_objects(x, p)` / `transitive_subjects(p, x)` (depth-first walk with the `remember` dict): the
    graph is returned as it is; the start node is yielded, every node once, and everything yielded is the start node or
    the object (subject) of a triple with predicate `p` of the graph being read -/
def Statement_transitive_walk : Prop :=
  ∀ (s : State) (x p : Nat) (fwd : Bool),
    (s.run (.transitive x p fwd)).1 = s ∧
    x ∈ transWalk s.visible p fwd (s.visible.length + 2) [x] [] ∧
    (transWalk s.visible p fwd (s.visible.length + 2) [x] []).Nodup ∧
    ∀ y ∈ transWalk s.visible p fwd (s.visible.length + 2) [x] [],
      y = x ∨ ∃ t ∈ s.visible, t.2.1 = p ∧ y = (if fwd then t.2.2 else t.1)

/-- the pre-fix JSON-LD serializer (kept as `serializeJsonldBuggy`) would satisfy the frame clause -/
def Statement_jsonld_buggy_frame : Prop :=
  ∀ (s : State), WF s → s.serializeJsonldBuggy.1.quads = s.quads

/-! ### Proofs -/

theorem read_frame : Statement_read_frame := by
  intro s r h
  have f := run_frame h r
  exact ⟨f.quads, f.names, f.union, f.isDataset, f.dname⟩

theorem read_deterministic : Statement_read_deterministic :=
  fun _ r h => run_deterministic h r

theorem frame_compose : Statement_frame_compose := by
  intro s rs h
  refine ⟨?_, runAll_wf rs h⟩
  rcases runAll_state rs h with h1 | h1
  · exact h1.frame
  · exact (frame_contextsCall h).trans h1.frame

theorem read_after_reads_same : Statement_read_after_reads_same := by
  intro s rs r h
  rcases runAll_state rs h with h1 | h1
  · exact run_out_nsExt h h1 r
  · rw [run_out_nsExt (contextsCall_wf h) h1 r]
    exact run_out_cc h r

theorem namespaces_may_grow : Statement_namespaces_may_grow := by
  intro s r h
  refine ⟨?_, ?_, ?_⟩
  · intro hb
    rcases run_state_nobind h r hb with h1 | h1 <;> rw [h1]
    exact contextsCall_ns s
  · intro n hn
    rcases run_state h r with h1 | h1
    · exact h1.mono n hn
    · exact h1.mono n (by rw [contextsCall_ns]; exact hn)
  · intro n hn
    by_cases hb : r.mayBind = false
    · left
      rcases run_state_nobind h r hb with h1 | h1 <;> rw [h1] at hn
      · exact hn
      · rw [contextsCall_ns] at hn; exact hn
    · cases r with
      | serializeTurtle nsOf =>
        rcases preprocessTriples_ns_mem nsOf _ _ n hn with h1 | h1
        · rcases preprocessTriples_ns_mem nsOf _ _ n h1 with h2 | h2
          · exact Or.inl h2
          · exact Or.inr h2
        · exact Or.inr h1
      | serializeLongTurtle nsOf c f =>
        simp only [State.run, State.serializeLongTurtle] at hn
        split at hn
        · exact Or.inl hn
        · next hc =>
          have hc' : (c && s.isDataset && !s.quads.isEmpty) = false := by simpa using hc
          rcases preprocessTriples_ns_mem nsOf _ _ n hn with h1 | h1
          · rcases preprocessTriples_ns_mem nsOf _ _ n h1 with h2 | h2
            · exact Or.inl h2
            · exact Or.inr ⟨hc', h2⟩
          · exact Or.inr ⟨hc', h1⟩
      | serializeXml nsOf =>
        rcases bindPredicates_ns_mem nsOf _ _ n hn with h1 | h1
        · rcases bindPredicates_ns_mem nsOf _ _ n h1 with h2 | h2
          · exact Or.inl h2
          · exact Or.inr h2
        · exact Or.inr h1
      | serializePrettyXml nsOf ty d =>
        rcases bindTypes_ns_mem nsOf ty _ _ n hn with h1 | ⟨t, ht, h2⟩
        · rcases bindPredicates_ns_mem nsOf _ _ n h1 with h2 | ⟨t, ht, h2⟩
          · exact Or.inl h2
          · exact Or.inr ⟨t, ht, Or.inl h2⟩
        · exact Or.inr ⟨t, ht, Or.inr h2⟩
      | serializeTrig nsOf =>
        rcases trigPreprocess_ns_mem nsOf _ _ _ n hn with h1 | ⟨q, hq, h2⟩
        · rw [contextsCall_ns] at h1; exact Or.inl h1
        · rw [contextsCall_quads] at hq; exact Or.inr ⟨q, hq, h2⟩
      | qname nsOf t =>
        rcases getQName_ns_mem hn with h1 | ⟨_, h2⟩
        · exact Or.inl h1
        · exact Or.inr h2
      | _ => exact absurd rfl hb

theorem namespaces_exact : Statement_namespaces_exact := by
  intro s r n h
  constructor
  · exact (namespaces_may_grow s r h).2.2 n
  · rintro (h1 | h1)
    · exact (namespaces_may_grow s r h).2.1 n h1
    · cases r with
      | serializeTurtle nsOf => exact preprocessTriples_ns_complete nsOf _ _ n h1
      | serializeLongTurtle nsOf c f =>
        obtain ⟨hc, h2⟩ := h1
        simp only [State.run, State.serializeLongTurtle, hc]
        exact preprocessTriples_ns_complete nsOf _ _ n h2
      | serializeXml nsOf => exact bindPredicates_ns_complete nsOf _ _ n h1
      | serializePrettyXml nsOf ty d =>
        obtain ⟨t, ht, h2 | h2⟩ := h1
        · exact (bindTypes_nsExt nsOf ty _ _).mono n (bindPredicates_ns_complete nsOf _ _ n ⟨t, ht, h2⟩)
        · exact bindTypes_ns_complete nsOf ty _ _ n ⟨t, ht, h2⟩
      | serializeTrig nsOf =>
        obtain ⟨q, hq, hn⟩ := h1
        apply trigPreprocess_ns_complete
        refine ⟨q, by rw [contextsCall_quads]; exact hq, ?_, hn⟩
        apply mem_trigContexts
        rw [contextsCall_snd]
        exact (contextsCall_known_mem s q.2).mpr (Or.inl (h.1 q hq))
      | qname nsOf t => exact getQName_ns_gen h1
      | _ => exact False.elim h1

theorem bindings_idempotent : Statement_bindings_idempotent := by
  intro s r n h
  have f := run_frame h r
  have hw := run_wf h r
  rw [namespaces_exact _ r n hw]
  constructor
  · rintro (h1 | h1)
    · exact h1
    · exact (namespaces_exact s r n h).mpr
        (Or.inr ((mayBindNs_congr f.quads f.union f.dname f.isDataset r n).mp h1))
  · exact Or.inl

theorem read_frame_attributes : Statement_read_frame_attributes := by
  intro s h
  refine ⟨?_, ?_, ?_⟩
  · intro r
    rcases run_state h r with h1 | h1
    · exact h1.base
    · exact h1.base.trans (contextsCall_base s)
  · intro rs
    rcases runAll_state rs h with h1 | h1
    · exact h1.base
    · exact h1.base.trans (contextsCall_base s)
  · intro g r
    exact (runView_nsExt h g r).base

theorem view_read_frame : Statement_view_read_frame := by
  intro s g r h
  have f := runView_nsExt h g r
  exact ⟨f.quads, f.known, f.union, f.isDataset, f.dname, f.mono, runView_deterministic h g r⟩

theorem aggregate_reads : Statement_aggregate_reads := by
  intro s gs pat
  have ht : ∀ t, t ∈ aggTriples s.quads pat [] gs ↔ pat.matches t = true ∧ ∃ g ∈ gs, (t, g) ∈ s.quads := by
    intro t
    rw [mem_aggTriples]
    simp
  refine ⟨ht, ?_, fun q => mem_aggQuads s.quads pat q gs, rfl, rfl, rfl, rfl⟩
  rw [aggContains_iff]
  constructor
  · rintro ⟨t, h1, h2⟩; exact ⟨t, (ht t).mpr ⟨h1, h2⟩⟩
  · rintro ⟨t, h⟩; exact ⟨t, (ht t).mp h⟩

theorem transitive_walk : Statement_transitive_walk := by
  intro s x p fwd
  refine ⟨rfl, transWalk_start _ _ _ _ _ _ _, transWalk_nodup _ _ _ _ _ _ List.nodup_nil, ?_⟩
  intro y hy
  rcases transWalk_sound _ _ _ _ _ _ y hy with h | h | h
  · cases h
  · exact Or.inl (List.mem_singleton.mp h)
  · exact Or.inr h

theorem same_store_view_is_noop : Statement_same_store_view_is_noop := by
  intro s g h
  refine ⟨graphView_eq h g, ?_⟩
  rw [graphView_eq h g]
  exact frame_contextsCall h

theorem wf_reachable : Statement_wf_reachable := by
  intro du ds dn ws hd
  apply wf_writes
  exact ⟨(by intro q hq; cases hq), hd⟩

/-! ### the defect that was repaired, as a regression witness -/

/-- one blank-node-named graph holding one triple; default graph not registered yet -/
def witness : State := ⟨[((4, 10, 23), .bnode 3)], [.bnode 3], false, true, .dflt, [], none⟩

/-- the pre-fix code copies the blank-node graph's triple into the dataset's own default graph -/
theorem jsonld_buggy_breaks_frame : ¬ Statement_jsonld_buggy_frame := by
  intro h
  exact absurd (h witness (by decide)) (by decide)

/-- the repaired code on the same dataset: state unchanged, the default graph of the dataset AND of the output
    stay empty, the blank-node-named graph is written as a named graph -/
example : (witness.run .serializeJsonld).1.quads = witness.quads ∧
    (witness.run .serializeJsonld).2 = .blocks [(.dflt, []), (.bnode 3, [(4, 10, 23)])] := by decide

/-! ### the excluded case: a FOREIGN graph object handed to a read call is copied into the store -/

/-- `ds.triples(pat, context=foreign)` / `(s, p, o, foreign) in ds` go through `_graph(foreign)`,
    which copies the foreign graph's triples into `ds`.  This is a write by construction (the code
    comment says "Copy the graph triples so they're added to the store"), so it is not a `ReadOp`;
    the correspondence check passes identifiers and same-store views only. -/
theorem foreign_graph_copy_is_write :
    ∃ (s : State) (g : GName) (ts : List Triple), WF s ∧ (s.graphForeign g ts).quads ≠ s.quads :=
  ⟨witness, .iri 1, [(1, 10, 2)], by decide, by decide⟩

/-! ### non-vacuity -/

/-- a dataset with an IRI-named, a blank-node-named and a registered-empty graph, a triple shared by two
    graphs, default graph populated but reads of every kind keep it — and `WF` holds of it -/
def sample : State :=
  ⟨[((1, 10, 2), .dflt), ((1, 10, 2), .iri 1), ((4, 11, 20), .bnode 3), ((4, 11, 5), .bnode 3)],
   [.dflt, .iri 1, .bnode 3, .iri 2], true, true, .dflt, [7], none⟩

example : WF sample := by decide
example : WF witness := by decide
/-- `graphs()` on `witness` really registers the default graph (the normalisation is needed) … -/
example : (witness.run .graphs).1.known = [.bnode 3, .dflt] ∧ witness.known = [.bnode 3] := by decide
/-- … quad membership through a same-store view: the view is used as it is (no self-copy any more), the answer is
    about THAT graph; the self-copy of the earlier code (`graphView`) really executed store writes that changed nothing -/
example : (sample.run (.contains4 (none, none, none) (.view (.bnode 3)))).1 = sample ∧
    (sample.run (.contains4 (some 4, none, none) (.view (.bnode 3)))).2 = .bool true ∧
    (sample.run (.contains4 (some 1, none, none) (.view (.bnode 3)))).2 = .bool false ∧
    (sample.graphView (.bnode 3)) = sample := by decide
/-- without `WF` (a quad whose graph was never registered) the self-copy WOULD register the graph:
    the hypothesis is used -/
example : ¬ SetEq ((⟨[((1, 10, 2), .iri 7)], [], false, true, .dflt, [], none⟩ : State).graphView (.iri 7)).graphNames
    (⟨[((1, 10, 2), .iri 7)], [], false, true, .dflt, [], none⟩ : State).graphNames := by
  intro h
  exact absurd ((h (.iri 7)).mp (by decide)) (by decide)
/-- documents a FROM clause can load in the examples: IRI 50 holds two triples, nothing else loads -/
def sampleDocs : GName → Option (List Triple)
  | .iri 50 => some [(2, 10, 3), (1, 11, 24)]
  | _ => none

/-- FROM / FROM NAMED: the answer is computed from scratch copies, the dataset is returned untouched -/
example : (sample.run (.query ⟨[.dflt (.iri 1), .named (.bnode 3)], true, [], true, sampleDocs,
      fun v => [[v.dflt.length, v.named.length]], .select, true⟩)) = (sample, .rows [[1, 1]]) := by decide
/-- one known non-empty FROM graph plus a LOADABLE document (the shape of seeded change C13-4): the document's
    triples join the scratch default graph (1 + 2 triples are visible to the query), the dataset is untouched;
    with SPARQL_LOAD_GRAPHS off nothing is loaded; an IRI that cannot be loaded raises — state untouched -/
example : (sample.run (.query ⟨[.dflt (.iri 1), .dflt (.iri 50)], false, [], true, sampleDocs,
      fun v => [[v.dflt.length]], .select, true⟩)) = (sample, .rows [[3]]) := by decide
example : (sample.run (.query ⟨[.dflt (.iri 1), .dflt (.iri 50)], false, [], false, sampleDocs,
      fun v => [[v.dflt.length]], .select, true⟩)) = (sample, .rows [[1]]) := by decide
example : (sample.run (.query ⟨[.dflt (.iri 1), .named (.iri 51)], false, [], true, sampleDocs,
      fun v => [[v.dflt.length]], .select, true⟩)) = (sample, .err) := by decide
/-- CONSTRUCT and DESCRIBE fill a fresh result graph; `GRAPH <g>` switches the context's graph, not the dataset -/
example : (sample.run (.query ⟨[], false, [.bnode 3], true, sampleDocs,
      fun v => (v.named.map (fun b => b.2.length)) :: [], .construct (fun r => r.map (fun x => (x, x, x))), true⟩))
    = (sample, .triples [(2, 2, 2)]) := by decide
example : (sample.run (.query ⟨[], false, [], true, sampleDocs, fun _ => [[1]], .describe (fun _ => false), true⟩))
    = (sample, .triples [(1, 10, 2)]) := by decide

/-! ### prefix bindings: really written by some reads, never part of the frame -/

/-- namespaces of the example terms: predicate 10 lives in namespace 7 (already bound in `sample`),
    predicate 11 in namespace 8 (unbound), class 20 in namespace 9 -/
def sampleNs : Nat → Option Nat
  | 10 => some 7
  | 11 => some 8
  | 20 => some 9
  | _ => none

/-- Turtle on `sample` (union view): the unbound namespace 8 of predicate 11 gets a prefix; quads, graphs untouched -/
example : (sample.run (.serializeTurtle sampleNs)).1 = { sample with ns := [7, 8] } := by decide
/-- pretty-xml with `rdf:type` = 11 additionally binds the namespace of the class 20 -/
example : (sample.run (.serializePrettyXml sampleNs 11 3)).1.ns = [7, 8, 9] := by decide
/-- longturtle with `canon=True` reads a relabelled scratch copy but still binds in the ORIGINAL's tables -/
example : (({ sample with isDataset := false } : State).run
      (.serializeLongTurtle sampleNs true (fun ts => ts.map (fun t => (t.1 + 100, t.2.1, t.2.2))))).1
    = { sample with isDataset := false, ns := [7, 8] } := by decide
/-- … on a `Dataset` `canon=True` raises while canonicalising (iteration yields quads): nothing is bound -/
example : sample.run (.serializeLongTurtle sampleNs true (fun ts => ts.map (fun t => (t.1 + 100, t.2.1, t.2.2))))
    = (sample, .err) := by decide
/-- TriG registers the default graph (already registered here) and binds per context -/
example : (sample.run (.serializeTrig sampleNs)).1 = { sample with ns := [7, 8] } := by decide
/-- a patch against another dataset builds two scratch datasets; `sample` itself is returned -/
example : (sample.run (.serializePatchTarget [((1, 10, 2), .dflt), ((9, 9, 9), .iri 5)])).1 = sample := by decide
/-- nquads / json-ld / queries / compare / skolemize(new_graph=None) bind nothing -/
example : (sample.run .serializeCtxs).1 = sample ∧ (sample.run .serializeJsonld).1 = sample ∧
    (sample.run (.skolemize (· + 1000))).1 = sample := by decide

/-! ### round g: exact bindings, views -/

/-- a dataset with a base for its default graph, default graph never registered: listing the graphs registers the
    default graph and leaves the base alone (the shape of seeded change C13-17) -/
example : (({ witness with dgBase := some 1 } : State).run .graphs).1
    = { witness with dgBase := some 1, known := [.bnode 3, .dflt] } := by decide

/-- Turtle through a VIEW of the blank-node-named graph (predicate 11, namespace 8): binds 8, registers nothing, and
    the dataset keeps its own configuration; through a view of an UNKNOWN graph nothing at all happens -/
example : (sample.runView (.bnode 3) (.serializeTurtle sampleNs)).1 = { sample with ns := [7, 8] } ∧
    (sample.runView (.bnode 3) (.serializeTurtle sampleNs)).2 = .triples [(4, 11, 20), (4, 11, 5)] ∧
    (sample.runView (.iri 77) (.serializeTurtle sampleNs)) = (sample, .triples []) := by decide
/-- on `witness` (default graph not registered) a view read does NOT register it, the dataset's own `graphs()` does -/
example : (witness.runView (.bnode 3) .serializeCtxs).1 = witness ∧ (witness.run .serializeCtxs).1 ≠ witness := by decide

/-- an aggregate over the default graph, `urn:g:1` and the default graph again: `len` counts the shared triple three
    times, `triples` yields it once, `quads` once per member -/
example : (sample.run (.aggLen [.dflt, .iri 1, .dflt])).2 = .nat 3 ∧
    (sample.run (.aggTriples [.dflt, .iri 1, .dflt] (none, none, none))).2 = .triples [(1, 10, 2)] ∧
    (sample.run (.aggQuads [.dflt, .iri 1, .dflt] (some 1, none, none))).2
      = .quads [((1, 10, 2), .dflt), ((1, 10, 2), .iri 1), ((1, 10, 2), .dflt)] ∧
    (sample.run (.aggContains [.iri 1] (some 4, none, none))).2 = .bool false := by decide
/-- `len` of a Dataset counts every triple of the store once (not the default graph, not per graph); iterating it
    yields quads; `quads((…, g))` selects in `g` but reports every graph holding the triple -/
example : (({ sample with defaultUnion := false } : State).run .len).2 = .nat 3 ∧
    (sample.run .iter).2 = .quads sample.quads ∧
    (sample.run (.quads4 (none, none, none) (.ident (.iri 1)))).2
      = .quads [((1, 10, 2), .dflt), ((1, 10, 2), .iri 1)] := by decide

/-- transitive walk over a cycle 1 → 2 → 1 plus a branch: terminates, each node once; hext writes a registered
    non-empty default graph twice -/
example : ((⟨[((1, 10, 2), .dflt), ((2, 10, 1), .dflt), ((2, 10, 3), .dflt), ((3, 11, 4), .dflt)],
      [.dflt], false, true, .dflt, [], none⟩ : State).run (.transitive 1 10 true)).2 = .rows [[1, 2, 3]] ∧
    (sample.run (.transitive 2 10 false)).2 = .rows [[2, 1]] ∧
    (sample.run .serializeHext).2 = .blocks [(.dflt, [(1, 10, 2)]), (.iri 1, [(1, 10, 2)]),
      (.bnode 3, [(4, 11, 20), (4, 11, 5)]), (.iri 2, []), (.dflt, [(1, 10, 2)])] := by decide

/-! ### `skolemize(new_graph=…)`: a fresh graph is a read, a graph of the same store is a write -/

/-- `g.skolemize(new_graph=h)` with `h` on the same store adds the skolemized copy to `h` -/
theorem skolemize_into_same_store_is_write :
    ∃ (s : State) (h : GName) (sk : Nat → Nat), WF s ∧ (s.skolemizeInto h sk).quads ≠ s.quads :=
  ⟨sample, .iri 1, (· + 1000), by decide, by decide⟩

end RV.C13
