import RV.C13.Lemmas
namespace RV.C13
theorem placeholder : True := trivial
end RV.C13
