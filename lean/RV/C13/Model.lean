import RV.Base.SetList
/-
  C13 — "reading a graph never changes it".  Model of the STATE-TOUCHING SKELETON of
  rdflib's read paths (after the `fix:` to the JSON-LD serializer).

  Every read API that *can* reach a store write in the code is a function
  `State → State × Out` that performs exactly the store calls the code performs
  (`State.add` = `Memory.add`, `State.register` = `Memory.add_graph`); scratch
  objects (`Graph()`, `Dataset()` created by the read) are local values.  What
  is NOT modelled is the text a serializer prints or the algebra a query
  evaluates: those parts are functions of the triples the read iterates over
  (parameters `body`, `canon`, `digest` below).  The tie to the code is the
  before/after snapshot correspondence over all read APIs (harness/c13.py).

  Anchors
    rdflib/graph.py            ConjunctiveGraph._graph / _spoc / triples / quads / __contains__ / get_graph,
                               Dataset.graphs / contexts / graph, Graph.__iadd__, Graph.cbd
    plugins/stores/memory.py   Memory.add (registers the context), add_graph, contexts
    serializers/jsonld.py      Converter.convert            (scratch default graph)
    serializers/trig.py        TrigSerializer.__init__/preprocess (self.store = context)
    serializers/nquads|trix|hext   per-context iteration over store.contexts()
    sparql/sparql.py           QueryContext.__init__ (FROM / FROM NAMED build a NEW Dataset/Graph)
    sparql/evaluate.py         evalGraph (ctx.dataset.contexts()), evalConstructQuery, evalDescribeQuery
    compare.py                 to_isomorphic / to_canonical_graph / graph_diff / isomorphic (copies)
-/
namespace RV.C13

/-- graph names; `dflt` is the IRI `urn:x-rdflib:default` (DATASET_DEFAULT_GRAPH_ID) -/
inductive GName
  | dflt
  | iri (n : Nat)
  | bnode (n : Nat)
  deriving DecidableEq, Repr

/-- `isinstance(g.identifier, URIRef)` -/
def GName.isIri : GName → Bool
  | .bnode _ => false
  | _ => true

abbrev Triple := Nat × Nat × Nat
abbrev Quad := Triple × GName
abbrev Pat := Option Nat × Option Nat × Option Nat

def matchPos (p : Option Nat) (x : Nat) : Bool :=
  match p with
  | none => true
  | some y => x == y

def Pat.matches (p : Pat) (t : Triple) : Bool :=
  matchPos p.1 t.1 && matchPos p.2.1 t.2.1 && matchPos p.2.2 t.2.2

/-- the dataset (or conjunctive graph, or plain graph) being read -/
structure State where
  quads : List Quad          -- the Memory store's quads, as a set
  known : List GName         -- identifiers in `Memory.__all_contexts`
  defaultUnion : Bool
  isDataset : Bool           -- `Dataset`: graphs()/contexts() re-create the default graph
  dname : GName              -- identifier of the default context
  deriving DecidableEq, Repr

/-! ### store writes (the only two ways the model changes a `State`) -/

/-- `Memory.add(triple, context)`: index the quad and `__all_contexts.add(context)` -/
def State.add (s : State) (q : Quad) : State :=
  { s with quads := sinsert s.quads q, known := sinsert s.known q.2 }

/-- `Memory.add_graph(g)` -/
def State.register (s : State) (g : GName) : State :=
  { s with known := sinsert s.known g }

/-- `addN` -/
def State.addAll (s : State) : List Quad → State
  | [] => s
  | q :: qs => (s.add q).addAll qs

/-! ### pure observations -/

/-- triples of one context: `store.triples(pat, context=g)` -/
def triplesOf : List Quad → GName → List Triple
  | [], _ => []
  | (t, g') :: qs, g => if g' = g then t :: triplesOf qs g else triplesOf qs g

/-- `store.triples(pat, context=None)`: every triple once -/
def unionTriples : List Quad → List Triple
  | [] => []
  | (t, _) :: qs => sinsert (unionTriples qs) t

def tagWith (g : GName) : List Triple → List Quad
  | [] => []
  | t :: ts => (t, g) :: tagWith g ts

/-- what `top.triples((None, None, None))` iterates: the union, or the default graph -/
def State.visible (s : State) : List Triple :=
  if s.defaultUnion then unionTriples s.quads else triplesOf s.quads s.dname

/-- "the default graph always exists": graph names with the default graph added -/
def State.graphNames (s : State) : List GName := sinsert s.known s.dname

/-- outputs of reads (skeleton level) -/
inductive Out
  | triples (ts : List Triple)
  | quads (qs : List Quad)
  | blocks (bs : List (GName × List Triple))
  | names (gs : List GName)
  | bool (b : Bool)
  | nat (n : Nat)
  | rows (rs : List (List Nat))
  | pairs (ps : List (Nat × Nat))
  | err
  deriving DecidableEq, Repr

/-! ### graph listing -/

/-- `Dataset.graphs()` / `Dataset.contexts()`: yields the registered contexts and, when the
    default graph was not among them, `self.graph(DATASET_DEFAULT_GRAPH_ID)` — which REGISTERS it.
    `ConjunctiveGraph.contexts()` only lists. -/
def State.contextsCall (s : State) : State × List GName :=
  if s.isDataset then
    if GName.dflt ∈ s.known then (s, s.known) else (s.register .dflt, s.known ++ [.dflt])
  else (s, s.known)

/-! ### ConjunctiveGraph._graph -/

/-- `_graph(c)` for a `Graph` object `c` that is a view on THIS store with identifier `g`:
    `get_graph(g)` (scans `self.contexts()`; IndexError → `get_context(g)`), then
    `_graph.__iadd__(c)` re-adds every triple of `c` to context `g` of the same store. -/
def State.graphView (s : State) (g : GName) : State :=
  let s1 := s.contextsCall.1
  s1.addAll (tagWith g (triplesOf s1.quads g))

/-- `_graph(c)` for a FOREIGN graph object (own store) holding `ts` under identifier `g`:
    the copy lands in this store.  A write by construction; not a member of `ReadOp`. -/
def State.graphForeign (s : State) (g : GName) (ts : List Triple) : State :=
  let s1 := s.contextsCall.1
  s1.addAll (tagWith g ts)

/-- how a context is handed to a read call -/
inductive CtxArg
  | ident (g : GName)     -- an identifier: `_graph` → `get_context` (a new Graph object, no store access)
  | view (g : GName)      -- a Graph object on the same store
  deriving DecidableEq, Repr

def CtxArg.name : CtxArg → GName
  | .ident g => g
  | .view g => g

/-- `_spoc` on a quad: `c = self._graph(c)` -/
def State.resolveCtx (s : State) : CtxArg → State
  | .ident _ => s
  | .view g => s.graphView g

/-- the graph a `triples` call finally reads, after the `default_union` adjustment:
    `none` = the union of all graphs -/
def State.effective (s : State) (c : Option GName) : Option GName :=
  if s.defaultUnion then
    match c with
    | some g => if g = s.dname then none else some g
    | none => none
  else
    match c with
    | some g => some g
    | none => some s.dname

def State.matching (s : State) (pat : Pat) (c : Option GName) : List Triple :=
  match s.effective c with
  | none => (unionTriples s.quads).filter pat.matches
  | some g => (triplesOf s.quads g).filter pat.matches

/-- `ConjunctiveGraph.triples(pat, context=view)` with a triple pattern:
    `context = self._graph(context or c)` — an EMPTY view is falsy, so `context or c` is `None`. -/
def State.readTriplesCtx (s : State) (pat : Pat) (g : GName) : State × Out :=
  if (triplesOf s.quads g).isEmpty then (s, .triples (s.matching pat none))
  else
    let s1 := s.graphView g
    (s1, .triples (s1.matching pat (some g)))

/-- `ConjunctiveGraph.triples((s, p, o, c))`: `_spoc` resolves `c` (first `_graph`), then
    `self._graph(context or c)` with `context = None` resolves the resulting Graph again. -/
def State.readTriples4 (s : State) (pat : Pat) (c : CtxArg) : State × Out :=
  let s1 := s.resolveCtx c
  let s2 := s1.graphView c.name
  (s2, .triples (s2.matching pat (some c.name)))

/-- `quad in ds`: `_spoc` resolves `c`; `self.triples(pat, context=c)` resolves it again
    unless the graph is empty (falsy). -/
def State.readContains4 (s : State) (pat : Pat) (c : CtxArg) : State × Out :=
  let s1 := s.resolveCtx c
  if (triplesOf s1.quads c.name).isEmpty then (s1, .bool !(s1.matching pat none).isEmpty)
  else
    let s2 := s1.graphView c.name
    (s2, .bool !(s2.matching pat (some c.name)).isEmpty)

/-- `ds.quads((s, p, o, c))`: `_spoc` only -/
def State.readQuads4 (s : State) (pat : Pat) (c : CtxArg) : State × Out :=
  let s1 := s.resolveCtx c
  (s1, .quads (tagWith c.name ((triplesOf s1.quads c.name).filter pat.matches)))

/-! ### serializers -/

def blocksOf (qs : List Quad) : List GName → List (GName × List Triple)
  | [] => []
  | g :: gs => (g, triplesOf qs g) :: blocksOf qs gs

/-- nt / turtle / n3 / rdf-xml / …: iterate `self.store.triples((None, None, None))` -/
def State.serializeFlat (s : State) : State × Out := (s, .triples s.visible)

/-- nquads / trix / hext: `store.contexts()` then one block per context (hext also appends a
    truthy default context; a repeated block prints the same quads again) -/
def State.serializeCtxs (s : State) : State × Out :=
  (s.contextsCall.1, .blocks (blocksOf s.contextsCall.1.quads s.contextsCall.2))

/-- the TriG serializer object: `self.store` is re-pointed at each non-empty context while
    pre-processing; `_contexts` collects what will be written.  Nothing is written to the dataset. -/
structure TrigSer where
  store : Option GName                 -- `self.store`: `none` = the dataset handed to the constructor
  contexts : List (GName × List Triple)

def trigPreprocess (qs : List Quad) (ser : TrigSer) : List GName → TrigSer
  | [] => ser
  | g :: gs =>
    if (triplesOf qs g).isEmpty then trigPreprocess qs ser gs
    else if g ∈ ser.contexts.map (·.1) then trigPreprocess qs { ser with store := some g } gs
    else trigPreprocess qs { store := some g, contexts := ser.contexts ++ [(g, triplesOf qs g)] } gs

/-- `self.contexts = list(store.contexts())` plus the default context when it is truthy (non-empty) -/
def trigContexts (s1 : State) (cs : List GName) : List GName :=
  if (triplesOf s1.quads s1.dname).isEmpty then cs else cs ++ [s1.dname]

def State.serializeTrig (s : State) : State × Out :=
  (s.contextsCall.1,
   .blocks (trigPreprocess s.contextsCall.1.quads ⟨none, []⟩ (trigContexts s.contextsCall.1 s.contextsCall.2)).contexts)

/-- JSON-LD `Converter.convert` accumulator -/
structure JAcc where
  self : State                 -- the dataset being serialised
  scratch : List Triple        -- the default graph of the OUTPUT
  named : List GName           -- `graphs[1:]`

def unionInto (acc : List Triple) : List Triple → List Triple
  | [] => acc
  | t :: ts => unionInto (sinsert acc t) ts

/-- `has_dataset_default_id and graph.default_context.identifier == DATASET_DEFAULT_GRAPH_ID` -/
def State.jsonldOwnDefault (s : State) (cs : List GName) : Bool :=
  decide (GName.dflt ∈ cs) && decide (s.dname = .dflt)

/-- the loop over `all_contexts` of the repaired code: IRI-named and blank-node-named graphs are written as
    named graphs; unnamed content (the blank-node default context of a ConjunctiveGraph) is merged into a
    SCRATCH graph (`default_graph = Graph(identifier=…)` seeded with the default graph's triples). -/
def jsonldLoop (own : Bool) (acc : JAcc) : List GName → JAcc
  | [] => acc
  | g :: gs =>
    if (own && decide (g = .dflt)) || decide (g ∈ acc.named) then jsonldLoop own acc gs        -- `if g in graphs: continue`
    else if g.isIri || decide (g ≠ acc.self.dname) then                                     -- IRI, or a blank node other than the own default
      jsonldLoop own { acc with named := acc.named ++ [g] } gs
    else jsonldLoop own { acc with scratch := unionInto acc.scratch (triplesOf acc.self.quads g) } gs

def jsonldRun (s1 : State) (cs : List GName) : JAcc :=
  jsonldLoop (s1.jsonldOwnDefault cs)
    ⟨s1, if s1.jsonldOwnDefault cs then triplesOf s1.quads .dflt else [], []⟩ cs

def jsonldOut (s1 : State) (acc : JAcc) : Out :=
  .blocks ((s1.dname, acc.scratch) :: blocksOf acc.self.quads acc.named)

def State.serializeJsonld (s : State) : State × Out :=
  ((jsonldRun s.contextsCall.1 s.contextsCall.2).self,
   jsonldOut s.contextsCall.1 (jsonldRun s.contextsCall.1 s.contextsCall.2))

/-- the code BEFORE the repair: when the dataset's own default graph is used as `default_graph`,
    `default_graph += g` is a store write into the dataset being serialised. -/
def jsonldLoopBuggy (own : Bool) (acc : JAcc) : List GName → JAcc
  | [] => acc
  | g :: gs =>
    if (own && decide (g = .dflt)) || decide (g ∈ acc.named) then jsonldLoopBuggy own acc gs
    else if g.isIri then jsonldLoopBuggy own { acc with named := acc.named ++ [g] } gs
    else if own then
      jsonldLoopBuggy own { acc with self := acc.self.addAll (tagWith .dflt (triplesOf acc.self.quads g)) } gs
    else jsonldLoopBuggy own { acc with scratch := unionInto acc.scratch (triplesOf acc.self.quads g) } gs

def jsonldRunBuggy (s1 : State) (cs : List GName) : JAcc :=
  jsonldLoopBuggy (s1.jsonldOwnDefault cs) ⟨s1, [], []⟩ cs

def State.serializeJsonldBuggy (s : State) : State × Out :=
  let s1 := s.contextsCall.1
  let acc := jsonldRunBuggy s1 s.contextsCall.2
  (acc.self, .blocks ((s1.dname, if s1.jsonldOwnDefault s.contextsCall.2 then triplesOf acc.self.quads .dflt
                                 else acc.scratch) :: blocksOf acc.self.quads acc.named))

/-! ### SPARQL -/

/-- what query evaluation sees -/
structure View where
  dflt : List Triple
  named : List (GName × List Triple)

/-- one entry of the dataset clause, in query order -/
inductive Clause
  | dflt (g : GName)      -- FROM <g>
  | named (g : GName)     -- FROM NAMED <g>
  deriving DecidableEq, Repr

/-- the state-relevant shape of a query; `body` = the evaluation proper (algebra, paths, filters,
    CONSTRUCT template / DESCRIBE closure into a fresh `Graph()`), a function of the view.
    `docs g` = what dereferencing the IRI `g` yields (`none`: it cannot be loaded, `QueryContext.load` raises);
    `loadGraphs` = `rdflib.plugins.sparql.SPARQL_LOAD_GRAPHS`. -/
structure QShape where
  clauses : List Clause
  graphVar : Bool                       -- `GRAPH ?g { … }`: evalGraph calls `ctx.dataset.contexts()`
  loadGraphs : Bool
  docs : GName → Option (List Triple)
  body : View → List (List Nat)

/-- an empty scratch `Dataset()` (QueryContext.__init__ with a dataset clause) -/
def emptyDataset : State := ⟨[], [], false, true, .dflt⟩

/-- the query context built for a dataset clause: `self.graph = Graph()`, `self._dataset = Dataset()` —
    both FRESH objects with their own stores -/
structure QCtx where
  graph : List Triple
  ds : State

/-- `QueryContext.load(source, default)`:
    not loading → `if default: self.graph += self.dataset.get_context(source)` (the context's OWN dataset);
    loading → parse the document into `self.graph` / into `self.dataset.get_context(source)`.
    Either way the target is a scratch object of the context, never the queried dataset. -/
def qLoad (loadGraphs : Bool) (docs : GName → Option (List Triple)) (c : QCtx) (src : GName) (dflt : Bool) :
    Option QCtx :=
  if loadGraphs then
    match docs src with
    | none => none
    | some ts =>
      if dflt then some { c with graph := unionInto c.graph ts }
      else some { c with ds := c.ds.addAll (tagWith src ts) }
  else
    if dflt then some { c with graph := unionInto c.graph (triplesOf c.ds.quads src) } else some c

/-- the loop over `datasetClause` in `QueryContext.__init__`: copy the named graph of the queried
    dataset `src` into the scratch graph / scratch dataset; when it is empty (falsy), `load` its IRI. -/
def qInit (src : State) (loadGraphs : Bool) (docs : GName → Option (List Triple)) :
    QCtx → List Clause → Option QCtx
  | c, [] => some c
  | c, .dflt g :: cs =>
    if (triplesOf src.quads g).isEmpty then
      match qLoad loadGraphs docs c g true with                 -- `self.graph += <empty>` adds nothing
      | none => none
      | some c' => qInit src loadGraphs docs c' cs
    else qInit src loadGraphs docs { c with graph := unionInto c.graph (triplesOf src.quads g) } cs
  | c, .named g :: cs =>
    if (triplesOf src.quads g).isEmpty then
      match qLoad loadGraphs docs c g false with
      | none => none
      | some c' => qInit src loadGraphs docs c' cs
    else qInit src loadGraphs docs { c with ds := c.ds.addAll (tagWith g (triplesOf src.quads g)) } cs

def namedBlocks (st : State) (cs : List GName) : List (GName × List Triple) :=
  blocksOf st.quads (cs.filter (fun g => g ≠ st.dname))

def State.query (s : State) (q : QShape) : State × Out :=
  if q.clauses.isEmpty then
    -- `self._dataset = graph`: the query runs on the dataset itself
    if q.graphVar then
      (s.contextsCall.1, .rows (q.body ⟨s.contextsCall.1.visible, namedBlocks s.contextsCall.1 s.contextsCall.2⟩))
    else (s, .rows (q.body ⟨s.visible, []⟩))
  else
    -- `self._dataset = Dataset(); self.graph = Graph()`: everything is copied / loaded into scratch objects
    match qInit s q.loadGraphs q.docs ⟨[], emptyDataset⟩ q.clauses with
    | none => (s, .err)                                          -- "Could not load …"
    | some c =>
      if q.graphVar then
        (s, .rows (q.body ⟨c.graph, namedBlocks c.ds.contextsCall.1 c.ds.contextsCall.2⟩))
      else (s, .rows (q.body ⟨c.graph, []⟩))

/-! ### property paths (seen-set traversal over the active graph; a function of its triples) -/

inductive Path
  | pred (p : Nat)
  | inv (a : Path)
  | seq (a b : Path)
  | alt (a b : Path)
  | star (a : Path)
  | neg (p : Nat)
  deriving Repr

def nodesOf : List Triple → List Nat
  | [] => []
  | (s, _, o) :: ts => sinsert (sinsert (nodesOf ts) s) o

def composePairs (xs ys : List (Nat × Nat)) : List (Nat × Nat) :=
  xs.foldr (fun (a, b) acc => (ys.filter (fun (c, _) => c == b)).foldr (fun (_, d) acc => sinsert acc (a, d)) acc) []

/-- one more step of the closure, `fuel` times -/
def closure (step : List (Nat × Nat)) : Nat → List (Nat × Nat) → List (Nat × Nat)
  | 0, acc => acc
  | n + 1, acc => closure step n (unionPairs acc (composePairs acc step))
where
  unionPairs (a b : List (Nat × Nat)) : List (Nat × Nat) := b.foldl sinsert a

def evalPath (ts : List Triple) : Path → List (Nat × Nat)
  | .pred p => (ts.filter (fun t => t.2.1 == p)).map (fun t => (t.1, t.2.2))
  | .inv a => (evalPath ts a).map (fun (x, y) => (y, x))
  | .seq a b => composePairs (evalPath ts a) (evalPath ts b)
  | .alt a b => evalPath ts a ++ evalPath ts b
  | .star a => closure (evalPath ts a) (nodesOf ts).length ((nodesOf ts).map (fun n => (n, n)))
  | .neg p => (ts.filter (fun t => t.2.1 != p)).map (fun t => (t.1, t.2.2))

/-! ### concise bounded description into a fresh graph -/

def cbdStep (ts : List Triple) (isBlank : Nat → Bool) (frontier : List Nat) (acc : List Triple) :
    List Nat × List Triple :=
  let new := ts.filter (fun t => frontier.contains t.1 && !acc.contains t)
  ((new.filter (fun t => isBlank t.2.2)).map (·.2.2), acc ++ new)

def cbdLoop (ts : List Triple) (isBlank : Nat → Bool) : Nat → List Nat → List Triple → List Triple
  | 0, _, acc => acc
  | n + 1, fr, acc =>
    let (fr', acc') := cbdStep ts isBlank fr acc
    cbdLoop ts isBlank n fr' acc'

/-! ### the read operations -/

inductive ReadOp
  | serializeFlat                       -- nt, nt11, turtle, longturtle, n3, xml, pretty-xml, patch
  | serializeCtxs                       -- nquads, trix, hext
  | serializeTrig
  | serializeJsonld
  | graphs                              -- Dataset.graphs() / contexts() / get_graph
  | iter                                -- iteration, all_nodes, connected, …
  | len
  | slice (pat : Pat)                   -- g[s:p:o], triples(pat), subjects/objects/…, value
  | contains3 (pat : Pat)
  | triplesCtx (pat : Pat) (g : GName)  -- triples(pat, context = same-store view)
  | triples4 (pat : Pat) (c : CtxArg)
  | contains4 (pat : Pat) (c : CtxArg)
  | quads4 (pat : Pat) (c : CtxArg)
  | query (q : QShape)                  -- SELECT / ASK / CONSTRUCT / DESCRIBE
  | path (p : Path)
  | cbd (node : Nat) (isBlank : Nat → Bool)
  | isomorphic (g1 g2 : GName) (digest : List Triple → Nat)      -- compare.isomorphic / to_isomorphic
  | canonical (g : GName) (canon : List Triple → List Triple)     -- to_canonical_graph
  | diff (g1 g2 : GName) (canon : List Triple → List Triple)      -- graph_diff

def State.run (s : State) : ReadOp → State × Out
  | .serializeFlat => s.serializeFlat
  | .serializeCtxs => s.serializeCtxs
  | .serializeTrig => s.serializeTrig
  | .serializeJsonld => s.serializeJsonld
  | .graphs => (s.contextsCall.1, .names s.contextsCall.2)
  | .iter => (s, .triples s.visible)
  | .len => (s, .nat s.visible.length)
  | .slice pat => (s, .triples (s.matching pat none))
  | .contains3 pat => (s, .bool !(s.matching pat none).isEmpty)
  | .triplesCtx pat g => s.readTriplesCtx pat g
  | .triples4 pat c => s.readTriples4 pat c
  | .contains4 pat c => s.readContains4 pat c
  | .quads4 pat c => s.readQuads4 pat c
  | .query q => s.query q
  | .path p => (s, .pairs (evalPath s.visible p))
  | .cbd n isBlank => (s, .triples (cbdLoop s.visible isBlank s.visible.length [n] []))
  | .isomorphic g1 g2 digest =>
    -- both arguments are copied / hashed outside the store
    (s, .bool (digest (unionInto [] (triplesOf s.quads g1)) == digest (unionInto [] (triplesOf s.quads g2))))
  | .canonical g canon => (s, .triples (unionInto [] (canon (triplesOf s.quads g))))
  | .diff g1 g2 canon =>
    let c1 := unionInto [] (canon (triplesOf s.quads g1))
    let c2 := unionInto [] (canon (triplesOf s.quads g2))
    (s, .blocks [(.iri 0, c1.filter (fun t => c2.contains t)), (.iri 1, c1.filter (fun t => !c2.contains t)),
                 (.iri 2, c2.filter (fun t => !c1.contains t))])

/-- any sequence of reads -/
def State.runAll (s : State) : List ReadOp → State
  | [] => s
  | r :: rs => (s.run r).1.runAll rs

end RV.C13
