import RV.Base.SetList
/-
  C13 — "reading a graph never changes it".  Model of the STATE-TOUCHING SKELETON of
  rdflib's read paths (after the `fix:` to the JSON-LD serializer).

  Every read API that *can* reach a store write in the code is a function
  `State → State × Out` that performs exactly the store calls the code performs
  (`State.add` = `Memory.add`, `State.register` = `Memory.add_graph`); scratch
  objects (`Graph()`, `Dataset()` created by the read) are local values.  What
  is NOT modelled is the text a serializer prints or the algebra a query
  evaluates: those parts are functions of the triples the read iterates over
  (parameters `body`, `canon`, `digest` below).  The tie to the code is the
  before/after snapshot correspondence over all read APIs (harness/c13.py);
  since round g also the bound namespaces (`ns`) after every read and, for the
  reads whose `Out` is computed exactly here (len, iteration, patterns, quad
  reads, graph listing, cbd, nt/nquads, aggregate reads, exact query shapes),
  the answer itself.

  Anchors
    rdflib/graph.py            ConjunctiveGraph._graph / _spoc / triples / quads / __contains__ / get_graph,
                               Dataset.graphs / contexts / graph, Graph.__iadd__, Graph.cbd
    plugins/stores/memory.py   Memory.add (registers the context), add_graph, contexts
    serializers/jsonld.py      Converter.convert            (scratch default graph)
    serializers/trig.py        TrigSerializer.__init__/preprocess (self.store = context)
    serializers/nquads|trix|hext   per-context iteration over store.contexts()
    sparql/sparql.py           QueryContext.__init__ (FROM / FROM NAMED build a NEW Dataset/Graph)
    sparql/evaluate.py         evalGraph (ctx.dataset.contexts()), evalConstructQuery, evalDescribeQuery
    compare.py                 to_isomorphic / to_canonical_graph / graph_diff / isomorphic (copies)
-/
namespace RV.C13

/-- graph names; `dflt` is the IRI `urn:x-rdflib:default` (DATASET_DEFAULT_GRAPH_ID) -/
inductive GName
  | dflt
  | iri (n : Nat)
  | bnode (n : Nat)
  deriving DecidableEq, Repr

/-- `isinstance(g.identifier, URIRef)` -/
def GName.isIri : GName → Bool
  | .bnode _ => false
  | _ => true

abbrev Triple := Nat × Nat × Nat
abbrev Quad := Triple × GName
abbrev Pat := Option Nat × Option Nat × Option Nat

def matchPos (p : Option Nat) (x : Nat) : Bool :=
  match p with
  | none => true
  | some y => x == y

def Pat.matches (p : Pat) (t : Triple) : Bool :=
  matchPos p.1 t.1 && matchPos p.2.1 t.2.1 && matchPos p.2.2 t.2.2

/-- the dataset (or conjunctive graph, or plain graph) being read -/
structure State where
  quads : List Quad          -- the Memory store's quads, as a set
  known : List GName         -- identifiers in `Memory.__all_contexts`
  defaultUnion : Bool
  isDataset : Bool           -- `Dataset`: graphs()/contexts() re-create the default graph
  dname : GName              -- identifier of the default context
  ns : List Nat              -- namespaces that have a prefix in the store's prefix tables
                             -- (`NamespaceManager.bind` → `store.bind`); OUTSIDE the property's statement
  dgBase : Option Nat        -- `default_context.base` (`Dataset(default_graph_base=…)`): an ATTRIBUTE of the object
                             -- being read; `Dataset.graph(id)` does `g.base = base` on the NEW Graph object
                             -- `_graph(id)` returns, never on the dataset's own default graph — no read touches it
  deriving DecidableEq, Repr

/-! ### store writes (the only ways the model changes a `State`): `add`, `register` on the quad side,
      `bindNs` on the prefix tables -/

/-- `NamespaceManager.bind(prefix, namespace)` → `store.bind`: the namespace gets a prefix -/
def State.bindNs (s : State) (n : Nat) : State :=
  { s with ns := sinsert s.ns n }

/-- `TurtleSerializer.getQName(uri, gen_prefix)` → `self.store.compute_qname(uri, generate=gen_prefix)`:
    `nsOf term` = the namespace of an IRI that can be split (`none`: not an IRI / not splittable →
    `compute_qname` raises, the `except` branch only READS `store.prefix`).  With `generate=True` a namespace
    without prefix gets a generated one (`ns1`, …) BOUND in the graph's namespace manager; with
    `generate=False` an unknown namespace raises `KeyError` and nothing is bound. -/
def State.getQName (s : State) (nsOf : Nat → Option Nat) (gen : Bool) (term : Nat) : State :=
  match nsOf term with
  | none => s
  | some n => if gen then s.bindNs n else s


/-- `Memory.add(triple, context)`: index the quad and `__all_contexts.add(context)` -/
def State.add (s : State) (q : Quad) : State :=
  { s with quads := sinsert s.quads q, known := sinsert s.known q.2 }

/-- `Memory.add_graph(g)` -/
def State.register (s : State) (g : GName) : State :=
  { s with known := sinsert s.known g }

/-- `addN` -/
def State.addAll (s : State) : List Quad → State
  | [] => s
  | q :: qs => (s.add q).addAll qs

/-! ### pure observations -/

/-- triples of one context: `store.triples(pat, context=g)` -/
def triplesOf : List Quad → GName → List Triple
  | [], _ => []
  | (t, g') :: qs, g => if g' = g then t :: triplesOf qs g else triplesOf qs g

/-- `store.triples(pat, context=None)`: every triple once -/
def unionTriples : List Quad → List Triple
  | [] => []
  | (t, _) :: qs => sinsert (unionTriples qs) t

def tagWith (g : GName) : List Triple → List Quad
  | [] => []
  | t :: ts => (t, g) :: tagWith g ts

/-- `scratch += triples` on a scratch graph with its own store -/
def unionInto (acc : List Triple) : List Triple → List Triple
  | [] => acc
  | t :: ts => unionInto (sinsert acc t) ts

/-- an empty scratch `Dataset()` with its own store (QueryContext.__init__ with a dataset clause, patch `_diff`) -/
def emptyDataset : State := ⟨[], [], false, true, .dflt, [], none⟩

/-- what `top.triples((None, None, None))` iterates: the union, or the default graph -/
def State.visible (s : State) : List Triple :=
  if s.defaultUnion then unionTriples s.quads else triplesOf s.quads s.dname

/-- `ConjunctiveGraph` (always `default_union`) or `Dataset`, as opposed to a plain `Graph` / a view -/
def State.contextAware (s : State) : Bool := s.isDataset || s.defaultUnion

/-- "the default graph always exists": graph names with the default graph added -/
def State.graphNames (s : State) : List GName := sinsert s.known s.dname

/-- outputs of reads (skeleton level) -/
inductive Out
  | triples (ts : List Triple)
  | quads (qs : List Quad)
  | blocks (bs : List (GName × List Triple))
  | names (gs : List GName)
  | bool (b : Bool)
  | nat (n : Nat)
  | rows (rs : List (List Nat))
  | pairs (ps : List (Nat × Nat))
  | err
  deriving DecidableEq, Repr

/-! ### graph listing -/

/-- `Dataset.graphs()` / `Dataset.contexts()`: yields the registered contexts and, when the
    default graph was not among them, `self.graph(DATASET_DEFAULT_GRAPH_ID)` — which REGISTERS it.
    `ConjunctiveGraph.contexts()` only lists. -/
def State.contextsCall (s : State) : State × List GName :=
  if s.isDataset then
    if GName.dflt ∈ s.known then (s, s.known) else (s.register .dflt, s.known ++ [.dflt])
  else (s, s.known)

/-! ### ConjunctiveGraph._graph -/

/-- `_graph(c)` for a `Graph` object `c` that is a view on THIS store with identifier `g`:
    `get_graph(g)` (scans `self.contexts()`; IndexError → `get_context(g)`), then
    `_graph.__iadd__(c)` re-adds every triple of `c` to context `g` of the same store. -/
def State.graphView (s : State) (g : GName) : State :=
  let s1 := s.contextsCall.1
  s1.addAll (tagWith g (triplesOf s1.quads g))

/-- `_graph(c)` for a FOREIGN graph object (own store) holding `ts` under identifier `g`:
    the copy lands in this store.  A write by construction; not a member of `ReadOp`. -/
def State.graphForeign (s : State) (g : GName) (ts : List Triple) : State :=
  let s1 := s.contextsCall.1
  s1.addAll (tagWith g ts)

/-- how a context is handed to a read call -/
inductive CtxArg
  | ident (g : GName)     -- an identifier: `_graph` → `get_context` (a new Graph object, no store access)
  | view (g : GName)      -- a Graph object on the same store
  deriving DecidableEq, Repr

def CtxArg.name : CtxArg → GName
  | .ident g => g
  | .view g => g

/-- `_spoc` on a quad: `c = self._graph(c)`.  In the code as it is now (`fix: ConjunctiveGraph/Dataset no longer copy
    a graph of the same store into itself on reads`) an identifier becomes `get_context(c)` (a new Graph object, no
    store access) and a Graph backed by THIS store is returned as it is (`c.store is self.store`); only a foreign
    graph is copied (`graphForeign`).  `graphView` above is the self-copy the earlier code performed
    (`same_store_view_is_noop`: it changed nothing either). -/
def State.resolveCtx (s : State) : CtxArg → State
  | .ident _ => s
  | .view _ => s

/-- the graph a `triples` call finally reads, after the `default_union` adjustment:
    `none` = the union of all graphs -/
def State.effective (s : State) (c : Option GName) : Option GName :=
  if s.defaultUnion then
    match c with
    | some g => if g = s.dname then none else some g
    | none => none
  else
    match c with
    | some g => some g
    | none => some s.dname

def State.matching (s : State) (pat : Pat) (c : Option GName) : List Triple :=
  match s.effective c with
  | none => (unionTriples s.quads).filter pat.matches
  | some g => (triplesOf s.quads g).filter pat.matches

/-- `ConjunctiveGraph.triples(pat, context=view)` with a triple pattern:
    `context = self._graph(context if context is not None else c)` — an EMPTY view is still the context
    (`fix: ConjunctiveGraph.triples resolves the context with 'is not None'`). -/
def State.readTriplesCtx (s : State) (pat : Pat) (g : GName) : State × Out :=
  ((s.resolveCtx (.view g)), .triples (s.matching pat (some g)))

/-- `ConjunctiveGraph.triples((s, p, o, c))`: `_spoc` resolves `c`, then `self._graph(c)` again. -/
def State.readTriples4 (s : State) (pat : Pat) (c : CtxArg) : State × Out :=
  ((s.resolveCtx c).resolveCtx c, .triples (s.matching pat (some c.name)))

/-- `quad in ds`: `_spoc` resolves `c`; `self.triples((s, p, o), context=c)`. -/
def State.readContains4 (s : State) (pat : Pat) (c : CtxArg) : State × Out :=
  ((s.resolveCtx c).resolveCtx c, .bool !(s.matching pat (some c.name)).isEmpty)

/-- the graphs a triple is in: what `Memory.triples` hands out next to every triple (`__contexts(triple)`) -/
def contextsOfTriple : List Quad → Triple → List GName
  | [], _ => []
  | (t', g) :: qs, t => if t' = t then g :: contextsOfTriple qs t else contextsOfTriple qs t

def quadsFor (qs : List Quad) : List Triple → List Quad
  | [] => []
  | t :: ts => tagAll t (contextsOfTriple qs t) ++ quadsFor qs ts
where
  tagAll (t : Triple) : List GName → List Quad
    | [] => []
    | g :: gs => (t, g) :: tagAll t gs

/-- `ds.quads((s, p, o, c))`: `_spoc`, then `for (s, p, o), cg in store.triples((s, p, o), context=c): for ctx in cg:
    yield s, p, o, ctx` — the triples are selected IN context `c`, but each is reported once per graph that holds it -/
def State.readQuads4 (s : State) (pat : Pat) (c : CtxArg) : State × Out :=
  (s.resolveCtx c, .quads (quadsFor s.quads ((triplesOf s.quads c.name).filter pat.matches)))

/-! ### serializers -/

def blocksOf (qs : List Quad) : List GName → List (GName × List Triple)
  | [] => []
  | g :: gs => (g, triplesOf qs g) :: blocksOf qs gs

def triplesOfQuads : List Quad → List Triple
  | [] => []
  | (t, _) :: qs => t :: triplesOfQuads qs

/-- nt / nt11: `for triple in self.store: _nt_row(triple)` — ITERATION: a `Dataset` yields every quad of every graph
    and the row prints its first three components (one line per quad, whatever `default_union` says) -/
def State.serializeFlat (s : State) : State × Out :=
  (s, .triples (if s.isDataset then triplesOfQuads s.quads else s.visible))

/-- `RecursiveSerializer.preprocess` / `TurtleSerializer.preprocessTriple` over the triples of `self.store`:
    `getQName(node, gen_prefix=(i == VERB))` for subject, predicate, object — the only calls on `self.store`
    that are not reads.  The later writing pass (`label` → `getQName(node, position == VERB)`) repeats them. -/
def preprocessTriples (nsOf : Nat → Option Nat) : State → List Triple → State
  | s, [] => s
  | s, t :: ts =>
    preprocessTriples nsOf
      (((s.getQName nsOf false t.1).getQName nsOf true t.2.1).getQName nsOf false t.2.2) ts

/-- turtle / n3: `preprocess` then the statement-writing pass, both over `self.store.triples(...)`;
    everything else the serializer writes (`_references`, `_subjects`, `namespaces`, `_ns_rewrite`, `stream`) is its own. -/
def State.serializeTurtle (s : State) (nsOf : Nat → Option Nat) : State × Out :=
  (preprocessTriples nsOf (preprocessTriples nsOf s s.visible) s.visible, .triples s.visible)

/-- longturtle: with `canon=True`, `canonize()` builds `to_canonical_graph(self.store)` (a copy), serialises it to
    N-Triples, parses the sorted lines into a scratch `Graph()`, de-skolemises into another scratch graph and
    RE-POINTS `self.store` at it — but gives it the ORIGINAL graph's `namespace_manager`, so the prefix bindings of
    the two passes still land in the original's prefix tables.  `canonf` = relabelling + sorting of the copy. -/
def State.serializeLongTurtle (s : State) (nsOf : Nat → Option Nat) (canon : Bool)
    (canonf : List Triple → List Triple) : State × Out :=
  -- `to_canonical_graph(self.store)` ITERATES the graph handed to the serializer: a `Dataset` yields quads, the
  -- colouring's `for s, p, o in self.graph` raises — in `reset()`, before any pass has run: nothing is bound
  -- (an EMPTY Dataset yields nothing, so nothing is unpacked and the serialisation goes through)
  if canon && s.isDataset && !s.quads.isEmpty then (s, .err) else
  let content := if canon then unionInto [] (canonf s.visible) else s.visible
  (preprocessTriples nsOf (preprocessTriples nsOf s content) content, .triples content)

/-- rdf/xml `XMLSerializer.__bindings` and `predicate()`: `nm.compute_qname_strict(predicate)` /
    `nm.qname_strict(predicate)` with `generate=True` for every predicate -/
def bindPredicates (nsOf : Nat → Option Nat) : State → List Triple → State
  | s, [] => s
  | s, t :: ts => bindPredicates nsOf (s.getQName nsOf true t.2.1) ts

def State.serializeXml (s : State) (nsOf : Nat → Option Nat) : State × Out :=
  (bindPredicates nsOf (bindPredicates nsOf s s.visible) s.visible, .triples s.visible)

/-- pretty-xml additionally computes qnames for the objects of `rdf:type` (`rdfType` = its term id) -/
def bindTypes (nsOf : Nat → Option Nat) (rdfType : Nat) : State → List Triple → State
  | s, [] => s
  | s, t :: ts =>
    if t.2.1 = rdfType then bindTypes nsOf rdfType (s.getQName nsOf true t.2.2) ts
    else bindTypes nsOf rdfType s ts

/-- `PrettyXMLSerializer.subject/predicate`: nested writing of objects up to `max_depth`, each subject once
    (`self.__serialized`); `fuel` = `max_depth`.  Reads `store.predicate_objects/value/triples` only. -/
def prettyWalk (ts : List Triple) : Nat → List Nat → List Nat → List Triple → List Nat × List Triple
  | 0, _, done, acc => (done, acc)
  | fuel + 1, frontier, done, acc =>
    let todo := frontier.filter (fun n => !done.contains n)
    let new := ts.filter (fun t => todo.contains t.1)
    prettyWalk ts fuel (new.map (·.2.2)) (done ++ todo) (acc ++ new)

def subjectsOf : List Triple → List Nat
  | [] => []
  | t :: ts => sinsert (subjectsOf ts) t.1

def State.serializePrettyXml (s : State) (nsOf : Nat → Option Nat) (rdfType maxDepth : Nat) : State × Out :=
  (bindTypes nsOf rdfType (bindPredicates nsOf s s.visible) s.visible,
   .triples (prettyWalk s.visible (maxDepth + 1) (subjectsOf s.visible) [] []).2)

/-- nquads / trix / hext: `store.contexts()` then one block per context (hext also appends a truthy default
    context; a repeated block prints the same quads again).  TriX hands `store.namespace_manager` to its
    `XMLWriter`, which only reads `namespaces()` for the TriX element names. -/
def State.serializeCtxs (s : State) : State × Out :=
  (s.contextsCall.1, .blocks (blocksOf s.contextsCall.1.quads s.contextsCall.2))

/-- hext (`HextuplesSerializer.__init__`): `self.contexts = list(store.contexts())` and, when the default context is
    truthy (non-empty), `self.contexts.append(store.default_context)` — a registered non-empty default graph is written
    TWICE (one line per triple and list entry); `trigContexts` is that list -/
def State.serializeHext (s : State) : State × Out :=
  (s.contextsCall.1,
   .blocks (blocksOf s.contextsCall.1.quads
     (if (triplesOf s.contextsCall.1.quads s.contextsCall.1.dname).isEmpty then s.contextsCall.2
      else s.contextsCall.2 ++ [s.contextsCall.1.dname])))

/-- patch with `operation=add|remove`: `self.store.contexts()` and, per context, `self.store.get_context(id)`
    (a new Graph object on the same store) -/
def State.serializePatch (s : State) : State × Out :=
  (s.contextsCall.1, .blocks (blocksOf s.contextsCall.1.quads s.contextsCall.2))

def quadDiff (a b : List Quad) : List Quad := a.filter (fun q => !b.contains q)

/-- patch with `target=<other dataset>`: `_diff` reads `quads()` of both datasets and fills two SCRATCH
    `Dataset()`s with `addN`; their `contexts()` (which register the scratch datasets' default graphs) are written out -/
def State.serializePatchTarget (s : State) (target : List Quad) : State × Out :=
  let toAdd := emptyDataset.addAll (quadDiff target s.quads)
  let toRemove := emptyDataset.addAll (quadDiff s.quads target)
  (s, .blocks (blocksOf toAdd.contextsCall.1.quads toAdd.contextsCall.2
               ++ blocksOf toRemove.contextsCall.1.quads toRemove.contextsCall.2))

/-- the TriG serializer object: `self.store` is re-pointed at each non-empty context while
    pre-processing; `_contexts` collects what will be written.  The only calls that are not reads are the
    `getQName`s of `preprocessTriple` (on the context, which shares the store's prefix tables). -/
structure TrigSer where
  store : Option GName                 -- `self.store`: `none` = the dataset handed to the constructor
  contexts : List (GName × List Triple)

def trigPreprocess (nsOf : Nat → Option Nat) : State → TrigSer → List GName → State × TrigSer
  | st, ser, [] => (st, ser)
  | st, ser, g :: gs =>
    if (triplesOf st.quads g).isEmpty then trigPreprocess nsOf st ser gs
    else if g ∈ ser.contexts.map (·.1) then
      trigPreprocess nsOf (preprocessTriples nsOf st (triplesOf st.quads g)) { ser with store := some g } gs
    else
      trigPreprocess nsOf (preprocessTriples nsOf st (triplesOf st.quads g))
        { store := some g, contexts := ser.contexts ++ [(g, triplesOf st.quads g)] } gs

/-- `self.contexts = list(store.contexts())` plus the default context when it is truthy (non-empty) -/
def trigContexts (s1 : State) (cs : List GName) : List GName :=
  if (triplesOf s1.quads s1.dname).isEmpty then cs else cs ++ [s1.dname]

def State.serializeTrig (s : State) (nsOf : Nat → Option Nat) : State × Out :=
  let r := trigPreprocess nsOf s.contextsCall.1 ⟨none, []⟩ (trigContexts s.contextsCall.1 s.contextsCall.2)
  (r.1, .blocks r.2.contexts)

/-- JSON-LD `Converter.convert` accumulator -/
structure JAcc where
  self : State                 -- the dataset being serialised
  scratch : List Triple        -- the default graph of the OUTPUT
  named : List GName           -- `graphs[1:]`

/-- `has_dataset_default_id and graph.default_context.identifier == DATASET_DEFAULT_GRAPH_ID` -/
def State.jsonldOwnDefault (s : State) (cs : List GName) : Bool :=
  decide (GName.dflt ∈ cs) && decide (s.dname = .dflt)

/-- the loop over `all_contexts` of the repaired code: IRI-named and blank-node-named graphs are written as
    named graphs; unnamed content (the blank-node default context of a ConjunctiveGraph) is merged into a
    SCRATCH graph (`default_graph = Graph(identifier=…)` seeded with the default graph's triples). -/
def jsonldLoop (own : Bool) (acc : JAcc) : List GName → JAcc
  | [] => acc
  | g :: gs =>
    if (own && decide (g = .dflt)) || decide (g ∈ acc.named) then jsonldLoop own acc gs        -- `if g in graphs: continue`
    else if g.isIri || decide (g ≠ acc.self.dname) then                                     -- IRI, or a blank node other than the own default
      jsonldLoop own { acc with named := acc.named ++ [g] } gs
    else jsonldLoop own { acc with scratch := unionInto acc.scratch (triplesOf acc.self.quads g) } gs

def jsonldRun (s1 : State) (cs : List GName) : JAcc :=
  jsonldLoop (s1.jsonldOwnDefault cs)
    ⟨s1, if s1.jsonldOwnDefault cs then triplesOf s1.quads .dflt else [], []⟩ cs

def jsonldOut (s1 : State) (acc : JAcc) : Out :=
  .blocks ((s1.dname, acc.scratch) :: blocksOf acc.self.quads acc.named)

def State.serializeJsonld (s : State) : State × Out :=
  ((jsonldRun s.contextsCall.1 s.contextsCall.2).self,
   jsonldOut s.contextsCall.1 (jsonldRun s.contextsCall.1 s.contextsCall.2))

/-- the code BEFORE the repair: when the dataset's own default graph is used as `default_graph`,
    `default_graph += g` is a store write into the dataset being serialised. -/
def jsonldLoopBuggy (own : Bool) (acc : JAcc) : List GName → JAcc
  | [] => acc
  | g :: gs =>
    if (own && decide (g = .dflt)) || decide (g ∈ acc.named) then jsonldLoopBuggy own acc gs
    else if g.isIri then jsonldLoopBuggy own { acc with named := acc.named ++ [g] } gs
    else if own then
      jsonldLoopBuggy own { acc with self := acc.self.addAll (tagWith .dflt (triplesOf acc.self.quads g)) } gs
    else jsonldLoopBuggy own { acc with scratch := unionInto acc.scratch (triplesOf acc.self.quads g) } gs

def jsonldRunBuggy (s1 : State) (cs : List GName) : JAcc :=
  jsonldLoopBuggy (s1.jsonldOwnDefault cs) ⟨s1, [], []⟩ cs

def State.serializeJsonldBuggy (s : State) : State × Out :=
  let s1 := s.contextsCall.1
  let acc := jsonldRunBuggy s1 s.contextsCall.2
  (acc.self, .blocks ((s1.dname, if s1.jsonldOwnDefault s.contextsCall.2 then triplesOf acc.self.quads .dflt
                                 else acc.scratch) :: blocksOf acc.self.quads acc.named))

/-! ### SPARQL -/

/-- what query evaluation sees -/
structure View where
  dflt : List Triple
  named : List (GName × List Triple)

/-- the fresh `Graph()` that `evalConstructQuery` / `evalDescribeQuery` fill and return -/
structure ResultGraph where
  triples : List Triple
  ns : List Nat

def cbdStep (ts : List Triple) (isBlank : Nat → Bool) (frontier : List Nat) (acc : List Triple) :
    List Nat × List Triple :=
  let new := ts.filter (fun t => frontier.contains t.1 && !acc.contains t)
  ((new.filter (fun t => isBlank t.2.2)).map (·.2.2), acc ++ new)

/-- `Graph.cbd(resource, target_graph=subgraph)`: `subgraph.add(...)` for the description of `resource`
    and, recursively, of the blank nodes it reaches; `self` is only read -/
def cbdLoop (ts : List Triple) (isBlank : Nat → Bool) : Nat → List Nat → List Triple → List Triple
  | 0, _, acc => acc
  | n + 1, fr, acc => cbdLoop ts isBlank n (cbdStep ts isBlank fr acc).1 (cbdStep ts isBlank fr acc).2

inductive QKind
  | select
  | ask
  | construct (template : List Nat → List Triple)   -- `graph = Graph(); graph += _fillTemplate(template, c)`
  | describe (isBlank : Nat → Bool)                  -- `graph = Graph(); graph.bind(pfx, ns) …; ctx.graph.cbd(r, target_graph=graph)`

def fillConstruct (template : List Nat → List Triple) (rg : ResultGraph) : List (List Nat) → ResultGraph
  | [] => rg
  | r :: rs => fillConstruct template { rg with triples := unionInto rg.triples (template r) } rs

def describeAll (active : List Triple) (isBlank : Nat → Bool) (rg : ResultGraph) : List Nat → ResultGraph
  | [] => rg
  | r :: rs =>
    describeAll active isBlank { rg with triples := cbdLoop active isBlank active.length [r] rg.triples } rs

def flattenRows : List (List Nat) → List Nat
  | [] => []
  | r :: rs => r ++ flattenRows rs

/-- turn the solutions into the answer; CONSTRUCT / DESCRIBE write into a FRESH result graph (DESCRIBE first
    copies the queried graph's prefix bindings INTO the fresh graph: a read of `srcNs`) -/
def QKind.finish (k : QKind) (active : List Triple) (srcNs : List Nat) (rows : List (List Nat)) : Out :=
  match k with
  | .select => .rows rows
  | .ask => .bool !rows.isEmpty
  | .construct tpl => .triples (fillConstruct tpl ⟨[], []⟩ rows).triples
  | .describe isBlank => .triples (describeAll active isBlank ⟨[], srcNs⟩ (flattenRows rows)).triples

/-- one entry of the dataset clause, in query order -/
inductive Clause
  | dflt (g : GName)      -- FROM <g>
  | named (g : GName)     -- FROM NAMED <g>
  deriving DecidableEq, Repr

/-- the state-relevant shape of a query; `body` = the evaluation proper (algebra, paths, filters,
    CONSTRUCT template / DESCRIBE closure into a fresh `Graph()`), a function of the view.
    `docs g` = what dereferencing the IRI `g` yields (`none`: it cannot be loaded, `QueryContext.load` raises);
    `loadGraphs` = `rdflib.plugins.sparql.SPARQL_LOAD_GRAPHS`. -/
structure QShape where
  clauses : List Clause
  graphVar : Bool                       -- `GRAPH ?g { … }`: evalGraph calls `ctx.dataset.contexts()`, then
                                        -- `ctx.pushGraph(graph)` per context (a CLONE of the context object)
  graphConsts : List GName              -- `GRAPH <g> { … }`: `ctx.pushGraph(ctx.dataset.get_context(g))`
  loadGraphs : Bool
  docs : GName → Option (List Triple)
  body : View → List (List Nat)
  kind : QKind
  dgUnion : Bool                        -- `rdflib.plugins.sparql.SPARQL_DEFAULT_GRAPH_UNION`: without a dataset clause
                                        -- `self.graph = self.dataset` (on) / `self.dataset.default_context` (off)

/-- the query context built for a dataset clause: `self.graph = Graph()`, `self._dataset = Dataset()` —
    both FRESH objects with their own stores -/
structure QCtx where
  graph : List Triple
  ds : State

/-- `QueryContext.load(source, default)`:
    not loading → `if default: self.graph += self.dataset.get_context(source)` (the context's OWN dataset);
    loading → parse the document into `self.graph` / into `self.dataset.get_context(source)`.
    Either way the target is a scratch object of the context, never the queried dataset. -/
def qLoad (loadGraphs : Bool) (docs : GName → Option (List Triple)) (c : QCtx) (src : GName) (dflt : Bool) :
    Option QCtx :=
  if loadGraphs then
    match docs src with
    | none => none
    | some ts =>
      if dflt then some { c with graph := unionInto c.graph ts }
      else some { c with ds := c.ds.addAll (tagWith src ts) }
  else
    if dflt then some { c with graph := unionInto c.graph (triplesOf c.ds.quads src) } else some c

/-- the loop over `datasetClause` in `QueryContext.__init__`: copy the named graph of the queried
    dataset `src` into the scratch graph / scratch dataset; when it is empty (falsy), `load` its IRI. -/
def qInit (src : State) (loadGraphs : Bool) (docs : GName → Option (List Triple)) :
    QCtx → List Clause → Option QCtx
  | c, [] => some c
  | c, .dflt g :: cs =>
    if (triplesOf src.quads g).isEmpty then
      match qLoad loadGraphs docs c g true with                 -- `self.graph += <empty>` adds nothing
      | none => none
      | some c' => qInit src loadGraphs docs c' cs
    else qInit src loadGraphs docs { c with graph := unionInto c.graph (triplesOf src.quads g) } cs
  | c, .named g :: cs =>
    if (triplesOf src.quads g).isEmpty then
      match qLoad loadGraphs docs c g false with
      | none => none
      | some c' => qInit src loadGraphs docs c' cs
    else qInit src loadGraphs docs { c with ds := c.ds.addAll (tagWith g (triplesOf src.quads g)) } cs

def namedBlocks (st : State) (cs : List GName) : List (GName × List Triple) :=
  blocksOf st.quads (cs.filter (fun g => g ≠ st.dname))

/-- the view `body` evaluates over and the finishing step -/
def QShape.answer (q : QShape) (active : List Triple) (named : List (GName × List Triple)) (srcNs : List Nat) : Out :=
  q.kind.finish active srcNs (q.body ⟨active, named⟩)

/-- `evalGraph` with a constant: `named = ctx.dataset.get_context(g)`; when it is empty the code scans
    `ctx.dataset.contexts()` for the name ("not the name of a graph of the dataset: no solutions") -/
def constBlocks (st : State) (known : List GName) : List GName → List (GName × List Triple)
  | [] => []
  | g :: gs =>
    if (triplesOf st.quads g).isEmpty && !(known.contains g) then constBlocks st known gs
    else (g, triplesOf st.quads g) :: constBlocks st known gs

def anyEmpty (st : State) : List GName → Bool
  | [] => false
  | g :: gs => (triplesOf st.quads g).isEmpty || anyEmpty st gs

/-- the default graph of a query without dataset clause -/
def State.queryDefault (s : State) (dgUnion : Bool) : List Triple :=
  if dgUnion then s.visible else triplesOf s.quads s.dname

def State.query (s : State) (q : QShape) : State × Out :=
  if q.clauses.isEmpty then
    -- `self._dataset = graph`: the query runs on the dataset itself
    if q.graphVar || anyEmpty s q.graphConsts then
      -- `ctx.dataset.contexts()` is called (a `Dataset` registers its default graph)
      (s.contextsCall.1,
       q.answer (s.contextsCall.1.queryDefault q.dgUnion)
         ((if q.graphVar then namedBlocks s.contextsCall.1 s.contextsCall.2 else [])
            ++ constBlocks s.contextsCall.1 s.contextsCall.2 q.graphConsts) s.ns)
    else (s, q.answer (s.queryDefault q.dgUnion) (blocksOf s.quads q.graphConsts) s.ns)
  else
    -- `self._dataset = Dataset(); self.graph = Graph()`: everything is copied / loaded into scratch objects
    match qInit s q.loadGraphs q.docs ⟨[], emptyDataset⟩ q.clauses with
    | none => (s, .err)                                          -- "Could not load …"
    | some c =>
      (s, q.answer c.graph
            ((if q.graphVar then namedBlocks c.ds.contextsCall.1 c.ds.contextsCall.2 else [])
               ++ constBlocks c.ds c.ds.contextsCall.2 q.graphConsts) [])

/-! ### property paths (seen-set traversal over the active graph; a function of its triples) -/

inductive Path
  | pred (p : Nat)
  | inv (a : Path)
  | seq (a b : Path)
  | alt (a b : Path)
  | star (a : Path)
  | neg (p : Nat)
  deriving Repr

def nodesOf : List Triple → List Nat
  | [] => []
  | (s, _, o) :: ts => sinsert (sinsert (nodesOf ts) s) o

def composePairs (xs ys : List (Nat × Nat)) : List (Nat × Nat) :=
  xs.foldr (fun (a, b) acc => (ys.filter (fun (c, _) => c == b)).foldr (fun (_, d) acc => sinsert acc (a, d)) acc) []

/-- one more step of the closure, `fuel` times -/
def closure (step : List (Nat × Nat)) : Nat → List (Nat × Nat) → List (Nat × Nat)
  | 0, acc => acc
  | n + 1, acc => closure step n (unionPairs acc (composePairs acc step))
where
  unionPairs (a b : List (Nat × Nat)) : List (Nat × Nat) := b.foldl sinsert a

def evalPath (ts : List Triple) : Path → List (Nat × Nat)
  | .pred p => (ts.filter (fun t => t.2.1 == p)).map (fun t => (t.1, t.2.2))
  | .inv a => (evalPath ts a).map (fun (x, y) => (y, x))
  | .seq a b => composePairs (evalPath ts a) (evalPath ts b)
  | .alt a b => evalPath ts a ++ evalPath ts b
  | .star a => closure (evalPath ts a) (nodesOf ts).length ((nodesOf ts).map (fun n => (n, n)))
  | .neg p => (ts.filter (fun t => t.2.1 != p)).map (fun t => (t.1, t.2.2))

/-! ### `ReadOnlyGraphAggregate` over views of this store (`graphs` = the member list, duplicates allowed) -/

/-- `__len__`: `sum(len(g) for g in self.graphs)` — a triple held by two members counts twice -/
def aggLen (qs : List Quad) : List GName → Nat
  | [] => 0
  | g :: gs => (triplesOf qs g).length + aggLen qs gs

/-- `triples(pat)`: member by member; a triple an EARLIER member holds is skipped
    (`if any((s1, p1, o1) in g for g in self.graphs[:i]): continue`) -/
def aggTriples (qs : List Quad) (pat : Pat) : List GName → List GName → List Triple
  | _, [] => []
  | seen, g :: gs =>
    (triplesOf qs g).filter (fun t => pat.matches t && !(seen.any (fun g' => (triplesOf qs g').contains t)))
      ++ aggTriples qs pat (seen ++ [g]) gs

/-- `pat in aggregate`: `triple in graph` for each member -/
def aggContains (qs : List Quad) (pat : Pat) : List GName → Bool
  | [] => false
  | g :: gs => !((triplesOf qs g).filter pat.matches).isEmpty || aggContains qs pat gs

/-- `quads(pat)`: every member's matching triples with the member graph -/
def aggQuads (qs : List Quad) (pat : Pat) : List GName → List Quad
  | [] => []
  | g :: gs => tagWith g ((triplesOf qs g).filter pat.matches) ++ aggQuads qs pat gs

/-! ### `Graph.transitive_objects(s, p)` / `transitive_subjects(p, o)`: depth-first walk with a `remember` dict -/

/-- `self.objects(x, p)` (`fwd`) resp. `self.subjects(p, x)` -/
def stepNodes (ts : List Triple) (p : Nat) (fwd : Bool) (x : Nat) : List Nat :=
  if fwd then (ts.filter (fun t => t.1 == x && t.2.1 == p)).map (·.2.2)
  else (ts.filter (fun t => t.2.2 == x && t.2.1 == p)).map (·.1)

/-- the recursion as a stack machine: pop a node; seen (`if subject in remember: return`) → skip; else remember it,
    yield it and push its neighbours.  `fuel` bounds the pops (`ts.length + 2` suffices: every triple is pushed at most once). -/
def transWalk (ts : List Triple) (p : Nat) (fwd : Bool) : Nat → List Nat → List Nat → List Nat
  | 0, _, seen => seen
  | _ + 1, [], seen => seen
  | n + 1, x :: stack, seen =>
    if seen.contains x then transWalk ts p fwd n stack seen
    else transWalk ts p fwd n (stepNodes ts p fwd x ++ stack) (seen ++ [x])

/-! ### the read operations -/

inductive ReadOp
  | serializeFlat                                          -- nt, nt11
  | serializeTurtle (nsOf : Nat → Option Nat)              -- turtle, n3
  | serializeLongTurtle (nsOf : Nat → Option Nat) (canon : Bool) (canonf : List Triple → List Triple)
  | serializeXml (nsOf : Nat → Option Nat)                 -- xml
  | serializePrettyXml (nsOf : Nat → Option Nat) (rdfType maxDepth : Nat)
  | serializeCtxs                                          -- nquads, trix
  | serializeHext                                          -- hext
  | transitive (start p : Nat) (fwd : Bool)                -- transitive_objects(start, p) / transitive_subjects(p, start)
  | serializePatch                                         -- patch, operation = add | remove
  | serializePatchTarget (target : List Quad)              -- patch, target = another dataset
  | serializeTrig (nsOf : Nat → Option Nat)
  | serializeJsonld
  | graphs                              -- Dataset.graphs() / contexts() / get_graph
  | iter                                -- iteration, all_nodes, connected, …
  | len
  | slice (pat : Pat)                   -- g[s:p:o], triples(pat), subjects/objects/…, value
  | contains3 (pat : Pat)
  | triplesCtx (pat : Pat) (g : GName)  -- triples(pat, context = same-store view)
  | triples4 (pat : Pat) (c : CtxArg)
  | contains4 (pat : Pat) (c : CtxArg)
  | quads4 (pat : Pat) (c : CtxArg)
  | query (q : QShape)                  -- SELECT / ASK / CONSTRUCT / DESCRIBE
  | path (p : Path)
  | cbd (node : Nat) (isBlank : Nat → Bool)
  | isomorphic (g1 g2 : GName) (digest : List Triple → Nat)      -- compare.isomorphic / to_isomorphic / Graph.isomorphic
  | canonical (g : GName) (canon : List Triple → List Triple)     -- to_canonical_graph
  | diff (g1 g2 : GName) (canon : List Triple → List Triple)      -- graph_diff
  | skolemize (sk : Nat → Nat)          -- Graph.skolemize(new_graph=None) / de_skolemize(): `retval = Graph()`
  | qname (nsOf : Nat → Option Nat) (term : Nat)                  -- Graph.qname / compute_qname / Resource.qname
  | aggLen (gs : List GName)                                       -- ReadOnlyGraphAggregate([views…]).__len__
  | aggTriples (gs : List GName) (pat : Pat)                       -- .triples(pat)
  | aggContains (gs : List GName) (pat : Pat)                      -- pat in aggregate
  | aggQuads (gs : List GName) (pat : Pat)                         -- .quads(pat)

def skolemizeTriples (sk : Nat → Nat) : List Triple → List Triple
  | [] => []
  | t :: ts => (sk t.1, t.2.1, sk t.2.2) :: skolemizeTriples sk ts

/-- `g.skolemize(new_graph=h)` with `h` a graph of THIS store: the skolemized copy is added to `h` — a write
    by construction (the caller names the target); not a `ReadOp` -/
def State.skolemizeInto (s : State) (h : GName) (sk : Nat → Nat) : State :=
  s.addAll (tagWith h (skolemizeTriples sk s.visible))

def State.run (s : State) : ReadOp → State × Out
  | .serializeFlat => s.serializeFlat
  | .serializeTurtle nsOf => s.serializeTurtle nsOf
  | .serializeLongTurtle nsOf canon canonf => s.serializeLongTurtle nsOf canon canonf
  | .serializeXml nsOf => s.serializeXml nsOf
  | .serializePrettyXml nsOf ty d => s.serializePrettyXml nsOf ty d
  | .serializeCtxs => s.serializeCtxs
  | .serializeHext => s.serializeHext
  | .transitive x p fwd => (s, .rows [transWalk s.visible p fwd (s.visible.length + 2) [x] []])
  | .serializePatch => s.serializePatch
  | .serializePatchTarget target => s.serializePatchTarget target
  | .serializeTrig nsOf => s.serializeTrig nsOf
  | .serializeJsonld => s.serializeJsonld
  | .graphs => (s.contextsCall.1, .names s.contextsCall.2)
  | .iter => (s, if s.isDataset then .quads s.quads else .triples s.visible)   -- `Dataset.__iter__` = `quads()`
  | .len =>
    -- `ConjunctiveGraph.__len__` = `store.__len__()`: every triple of the store once, whatever `default_union` says;
    -- a plain Graph / a view counts its own context
    (s, .nat (if s.contextAware then (unionTriples s.quads).length else (triplesOf s.quads s.dname).length))
  | .slice pat => (s, .triples (s.matching pat none))
  | .contains3 pat => (s, .bool !(s.matching pat none).isEmpty)
  | .triplesCtx pat g => s.readTriplesCtx pat g
  | .triples4 pat c => s.readTriples4 pat c
  | .contains4 pat c => s.readContains4 pat c
  | .quads4 pat c => s.readQuads4 pat c
  | .query q => s.query q
  | .path p => (s, .pairs (evalPath s.visible p))
  | .cbd n isBlank => (s, .triples (cbdLoop s.visible isBlank s.visible.length [n] []))   -- `subgraph = Graph()`
  | .isomorphic g1 g2 digest =>
    -- both arguments are copied (`IsomorphicGraph() += graph`) / hashed outside the store
    (s, .bool (digest (unionInto [] (triplesOf s.quads g1)) == digest (unionInto [] (triplesOf s.quads g2))))
  | .canonical g canon => (s, .triples (unionInto [] (canon (triplesOf s.quads g))))
  | .diff g1 g2 canon =>
    (s, .blocks [(.iri 0, (unionInto [] (canon (triplesOf s.quads g1))).filter
                    (fun t => (unionInto [] (canon (triplesOf s.quads g2))).contains t)),
                 (.iri 1, (unionInto [] (canon (triplesOf s.quads g1))).filter
                    (fun t => !(unionInto [] (canon (triplesOf s.quads g2))).contains t)),
                 (.iri 2, (unionInto [] (canon (triplesOf s.quads g2))).filter
                    (fun t => !(unionInto [] (canon (triplesOf s.quads g1))).contains t))])
  | .skolemize sk => (s, .triples (unionInto [] (skolemizeTriples sk s.visible)))
  | .qname nsOf term => (s.getQName nsOf true term, .nat term)
  | .aggLen gs => (s, .nat (aggLen s.quads gs))
  | .aggTriples gs pat => (s, .triples (aggTriples s.quads pat [] gs))
  | .aggContains gs pat => (s, .bool (aggContains s.quads pat gs))
  | .aggQuads gs pat => (s, .quads (aggQuads s.quads pat gs))

/-- exactly the reads that may add prefix bindings -/
def ReadOp.mayBind : ReadOp → Bool
  | .serializeTurtle _ => true
  | .serializeLongTurtle _ _ _ => true
  | .serializeXml _ => true
  | .serializePrettyXml _ _ _ => true
  | .serializeTrig _ => true
  | .qname _ _ => true
  | _ => false

/-- any sequence of reads -/
def State.runAll (s : State) : List ReadOp → State
  | [] => s
  | r :: rs => (s.run r).1.runAll rs

/-! ### reads through a `Graph` VIEW of one context of the dataset -/

/-- the `Graph` object `ds.get_context(g)` returns: a plain (not context-aware) graph on the SAME store whose own
    context is `g`; it shares the store's prefix tables (and the dataset's namespace manager) -/
def State.asView (s : State) (g : GName) : State :=
  { s with dname := g, isDataset := false, defaultUnion := false }

/-- a read applied to that view; the dataset keeps its own configuration -/
def State.runView (s : State) (g : GName) (r : ReadOp) : State × Out :=
  ({ ((s.asView g).run r).1 with dname := s.dname, isDataset := s.isDataset, defaultUnion := s.defaultUnion },
   ((s.asView g).run r).2)

end RV.C13
