import RV.C13.Model
namespace RV.C13
end RV.C13
