import RV.C13.Model
/-
  C13 helper lemmas: re-adding present quads is the identity; `contextsCall` only
  registers the default graph and is idempotent; every read leaves the state at `s`
  or at `s.contextsCall.1`.
-/
namespace RV.C13

/-! ### sets as lists -/

theorem sinsert_of_mem {α : Type} [DecidableEq α] {l : List α} {x : α} (h : x ∈ l) :
    sinsert l x = l := by
  unfold sinsert; simp [h]

theorem sinsert_of_not_mem {α : Type} [DecidableEq α] {l : List α} {x : α} (h : x ∉ l) :
    sinsert l x = l ++ [x] := by
  unfold sinsert; simp [h]

theorem mem_triplesOf {qs : List Quad} {g : GName} {t : Triple} :
    t ∈ triplesOf qs g ↔ (t, g) ∈ qs := by
  induction qs with
  | nil => simp [triplesOf]
  | cons q qs ih =>
    obtain ⟨t', g'⟩ := q
    unfold triplesOf
    split
    · next h =>
      subst h
      simp only [List.mem_cons, ih, Prod.mk.injEq, and_true]
    · next h =>
      simp only [ih, List.mem_cons, Prod.mk.injEq]
      constructor
      · exact Or.inr
      · rintro (⟨_, h2⟩ | h2)
        · exact absurd h2.symm h
        · exact h2

theorem mem_tagWith {g : GName} {ts : List Triple} {q : Quad} :
    q ∈ tagWith g ts ↔ q.2 = g ∧ q.1 ∈ ts := by
  induction ts with
  | nil => simp [tagWith]
  | cons t ts ih =>
    obtain ⟨qt, qg⟩ := q
    simp only [tagWith, List.mem_cons, ih, Prod.mk.injEq]
    constructor
    · rintro (⟨h1, h2⟩ | ⟨h1, h2⟩)
      · exact ⟨h2, Or.inl h1⟩
      · exact ⟨h1, Or.inr h2⟩
    · rintro ⟨h1, h2 | h2⟩
      · exact Or.inl ⟨h2, h1⟩
      · exact Or.inr ⟨h1, h2⟩

/-- the triples of a view, tagged with its name, are quads of the store -/
theorem tag_view_present {qs : List Quad} {g : GName} {q : Quad}
    (h : q ∈ tagWith g (triplesOf qs g)) : q ∈ qs := by
  obtain ⟨qt, qg⟩ := q
  rw [mem_tagWith] at h
  obtain ⟨h1, h2⟩ := h
  simp only at h1 h2
  subst h1
  exact mem_triplesOf.mp h2

/-! ### well-formed states -/

/-- Every state reachable through the store API: a graph holding a quad is registered
    (`Memory.add` does `__all_contexts.add(context)`), and a `Dataset`'s default graph is named
    `urn:x-rdflib:default`. -/
def WF (s : State) : Prop :=
  (∀ q ∈ s.quads, q.2 ∈ s.known) ∧ (s.isDataset = true → s.dname = .dflt)

instance (s : State) : Decidable (WF s) := by unfold WF; exact inferInstance

theorem add_present {s : State} {q : Quad} (h1 : q ∈ s.quads) (h2 : q.2 ∈ s.known) :
    s.add q = s := by
  unfold State.add
  rw [sinsert_of_mem h1, sinsert_of_mem h2]

theorem addAll_present : ∀ (qs : List Quad) (s : State),
    (∀ q ∈ qs, q ∈ s.quads ∧ q.2 ∈ s.known) → s.addAll qs = s
  | [], _, _ => rfl
  | q :: qs, s, h => by
    unfold State.addAll
    rw [add_present (h q (List.mem_cons_self)).1 (h q (List.mem_cons_self)).2]
    exact addAll_present qs s (fun q' hq' => h q' (List.mem_cons_of_mem _ hq'))

/-! ### `contextsCall` -/

/-- same dataset, possibly more registered names -/
theorem contextsCall_fst (s : State) :
    s.contextsCall.1 = { s with known := s.contextsCall.1.known } := by
  unfold State.contextsCall State.register
  split
  · split <;> rfl
  · rfl

theorem contextsCall_quads (s : State) : s.contextsCall.1.quads = s.quads := by
  rw [contextsCall_fst]
theorem contextsCall_union (s : State) : s.contextsCall.1.defaultUnion = s.defaultUnion := by
  rw [contextsCall_fst]
theorem contextsCall_isDataset (s : State) : s.contextsCall.1.isDataset = s.isDataset := by
  rw [contextsCall_fst]
theorem contextsCall_dname (s : State) : s.contextsCall.1.dname = s.dname := by
  rw [contextsCall_fst]

/-- the list it returns is what is registered afterwards -/
theorem contextsCall_snd (s : State) : s.contextsCall.2 = s.contextsCall.1.known := by
  unfold State.contextsCall State.register
  split
  · split
    · rfl
    · next h => simp only [sinsert_of_not_mem h]
  · rfl

theorem contextsCall_known_mem (s : State) (g : GName) :
    g ∈ s.contextsCall.1.known ↔ g ∈ s.known ∨ (s.isDataset = true ∧ g = .dflt) := by
  unfold State.contextsCall State.register
  split
  · next hd =>
    split
    · next h =>
      simp only [hd, true_and]
      constructor
      · exact Or.inl
      · rintro (h' | h')
        · exact h'
        · subst h'; exact h
    · next h => simp only [mem_sinsert, hd, true_and, or_comm]
  · next hd => simp [hd]

theorem contextsCall_idem (s : State) :
    s.contextsCall.1.contextsCall = (s.contextsCall.1, s.contextsCall.2) := by
  by_cases hd : s.isDataset = true
  · by_cases h : GName.dflt ∈ s.known
    · simp [State.contextsCall, hd, h]
    · simp [State.contextsCall, State.register, hd, h, sinsert_of_not_mem h]
  · simp [State.contextsCall, hd]

theorem contextsCall_idem_fst (s : State) : s.contextsCall.1.contextsCall.1 = s.contextsCall.1 := by
  rw [contextsCall_idem]
theorem contextsCall_idem_snd (s : State) : s.contextsCall.1.contextsCall.2 = s.contextsCall.2 := by
  rw [contextsCall_idem]

theorem contextsCall_wf {s : State} (h : WF s) : WF s.contextsCall.1 := by
  refine ⟨?_, ?_⟩
  · intro q hq
    rw [contextsCall_quads] at hq
    exact (contextsCall_known_mem s q.2).mpr (Or.inl (h.1 q hq))
  · rw [contextsCall_isDataset, contextsCall_dname]; exact h.2

/-! ### `_graph` on a same-store view is the identity (after the `contexts()` scan) -/

theorem graphView_eq {s : State} (h : WF s) (g : GName) : s.graphView g = s.contextsCall.1 := by
  unfold State.graphView
  apply addAll_present
  intro q hq
  have hq' := tag_view_present hq
  exact ⟨hq', (contextsCall_wf h).1 q hq'⟩

theorem resolveCtx_eq (s : State) (c : CtxArg) : s.resolveCtx c = s := by
  cases c <;> rfl

/-! ### the JSON-LD loop never touches `self` -/

theorem jsonldLoop_self (own : Bool) : ∀ (cs : List GName) (acc : JAcc),
    (jsonldLoop own acc cs).self = acc.self
  | [], _ => rfl
  | g :: gs, acc => by
    unfold jsonldLoop
    split
    · exact jsonldLoop_self own gs acc
    · split
      · exact jsonldLoop_self own gs _
      · exact jsonldLoop_self own gs _

theorem jsonldRun_self (s1 : State) (cs : List GName) : (jsonldRun s1 cs).self = s1 := by
  unfold jsonldRun
  rw [jsonldLoop_self]

/-! ### frames -/

/-- "exactly as they were": same quads, same configuration, same set of graphs
    (the always-existing default graph counted on both sides) -/
structure Frame (s s' : State) : Prop where
  quads : s'.quads = s.quads
  union : s'.defaultUnion = s.defaultUnion
  isDataset : s'.isDataset = s.isDataset
  dname : s'.dname = s.dname
  names : SetEq s'.graphNames s.graphNames

theorem Frame.refl (s : State) : Frame s s := ⟨rfl, rfl, rfl, rfl, SetEq.refl _⟩

theorem Frame.trans {a b c : State} (h1 : Frame a b) (h2 : Frame b c) : Frame a c :=
  ⟨h2.quads.trans h1.quads, h2.union.trans h1.union, h2.isDataset.trans h1.isDataset,
   h2.dname.trans h1.dname, SetEq.trans h2.names h1.names⟩

theorem frame_contextsCall {s : State} (h : WF s) : Frame s s.contextsCall.1 := by
  refine ⟨contextsCall_quads s, contextsCall_union s, contextsCall_isDataset s, contextsCall_dname s, ?_⟩
  intro g
  unfold State.graphNames
  rw [mem_sinsert, mem_sinsert, contextsCall_dname, contextsCall_known_mem]
  constructor
  · rintro (h1 | h1 | ⟨h1, h2⟩)
    · exact Or.inl h1
    · exact Or.inr h1
    · exact Or.inl (h2.trans (h.2 h1).symm)
  · rintro (h1 | h1)
    · exact Or.inl h1
    · exact Or.inr (Or.inl h1)

/-! ### namespace-only extensions of a state -/

theorem contextsCall_ns (s : State) : s.contextsCall.1.ns = s.ns := by
  rw [contextsCall_fst]

theorem contextsCall_base (s : State) : s.contextsCall.1.dgBase = s.dgBase := by
  rw [contextsCall_fst]

def State.setNs (s : State) (k : List Nat) : State := { s with ns := k }

/-- `b` is `a` with (possibly) more prefix bindings and nothing else changed -/
structure NsExt (a b : State) : Prop where
  quads : b.quads = a.quads
  known : b.known = a.known
  union : b.defaultUnion = a.defaultUnion
  isDataset : b.isDataset = a.isDataset
  dname : b.dname = a.dname
  base : b.dgBase = a.dgBase
  mono : ∀ n ∈ a.ns, n ∈ b.ns

theorem NsExt.refl (a : State) : NsExt a a := ⟨rfl, rfl, rfl, rfl, rfl, rfl, fun _ h => h⟩

theorem NsExt.of_eq {a b : State} (h : b = a) : NsExt a b := h ▸ NsExt.refl a

theorem NsExt.trans {a b c : State} (h1 : NsExt a b) (h2 : NsExt b c) : NsExt a c :=
  ⟨h2.quads.trans h1.quads, h2.known.trans h1.known, h2.union.trans h1.union,
   h2.isDataset.trans h1.isDataset, h2.dname.trans h1.dname, h2.base.trans h1.base, fun n hn => h2.mono n (h1.mono n hn)⟩

theorem NsExt.eq_setNs {a b : State} (h : NsExt a b) : b = a.setNs b.ns := by
  obtain ⟨h1, h2, h3, h4, h5, h6, _⟩ := h
  cases a; cases b
  simp only [State.setNs] at *
  subst h1 h2 h3 h4 h5 h6
  rfl

theorem NsExt.setNs_of_sub {a : State} {k : List Nat} (h : ∀ n ∈ a.ns, n ∈ k) : NsExt a (a.setNs k) :=
  ⟨rfl, rfl, rfl, rfl, rfl, rfl, h⟩

theorem NsExt.wf {a b : State} (h : NsExt a b) (hw : WF a) : WF b := by
  refine ⟨?_, ?_⟩
  · intro q hq
    rw [h.quads] at hq
    rw [h.known]
    exact hw.1 q hq
  · rw [h.isDataset, h.dname]; exact hw.2

theorem NsExt.frame {a b : State} (h : NsExt a b) : Frame a b := by
  refine ⟨h.quads, h.union, h.isDataset, h.dname, ?_⟩
  intro g
  unfold State.graphNames
  rw [h.known, h.dname]

theorem contextsCall_setNs (s : State) (k : List Nat) :
    (s.setNs k).contextsCall = (s.contextsCall.1.setNs k, s.contextsCall.2) := by
  by_cases hd : s.isDataset = true
  · by_cases h : GName.dflt ∈ s.known
    · simp [State.contextsCall, State.setNs, hd, h]
    · simp [State.contextsCall, State.register, State.setNs, hd, h]
  · simp [State.contextsCall, State.setNs, hd]

theorem NsExt.contextsCall {a b : State} (h : NsExt a b) : NsExt a.contextsCall.1 b.contextsCall.1 := by
  rw [h.eq_setNs, contextsCall_setNs]
  exact NsExt.setNs_of_sub (by rw [contextsCall_ns]; exact h.mono)

theorem NsExt.contextsCall_snd {a b : State} (h : NsExt a b) : b.contextsCall.2 = a.contextsCall.2 := by
  rw [h.eq_setNs, contextsCall_setNs]

theorem bindNs_nsExt (s : State) (n : Nat) : NsExt s (s.bindNs n) :=
  ⟨rfl, rfl, rfl, rfl, rfl, rfl, fun m hm => by simp only [State.bindNs, mem_sinsert]; exact Or.inr hm⟩

theorem getQName_nsExt (s : State) (nsOf : Nat → Option Nat) (gen : Bool) (t : Nat) :
    NsExt s (s.getQName nsOf gen t) := by
  unfold State.getQName
  split
  · exact NsExt.refl s
  · split
    · exact bindNs_nsExt s _
    · exact NsExt.refl s

theorem preprocessTriples_nsExt (nsOf : Nat → Option Nat) : ∀ (ts : List Triple) (s : State),
    NsExt s (preprocessTriples nsOf s ts)
  | [], s => NsExt.refl s
  | t :: ts, s => by
    unfold preprocessTriples
    exact (((getQName_nsExt s nsOf false t.1).trans (getQName_nsExt _ nsOf true t.2.1)).trans
      (getQName_nsExt _ nsOf false t.2.2)).trans (preprocessTriples_nsExt nsOf ts _)

theorem bindPredicates_nsExt (nsOf : Nat → Option Nat) : ∀ (ts : List Triple) (s : State),
    NsExt s (bindPredicates nsOf s ts)
  | [], s => NsExt.refl s
  | t :: ts, s => by
    unfold bindPredicates
    exact (getQName_nsExt s nsOf true t.2.1).trans (bindPredicates_nsExt nsOf ts _)

theorem bindTypes_nsExt (nsOf : Nat → Option Nat) (ty : Nat) : ∀ (ts : List Triple) (s : State),
    NsExt s (bindTypes nsOf ty s ts)
  | [], s => NsExt.refl s
  | t :: ts, s => by
    unfold bindTypes
    split
    · exact (getQName_nsExt s nsOf true t.2.2).trans (bindTypes_nsExt nsOf ty ts _)
    · exact bindTypes_nsExt nsOf ty ts s

theorem trigPreprocess_nsExt (nsOf : Nat → Option Nat) : ∀ (gs : List GName) (st : State) (ser : TrigSer),
    NsExt st (trigPreprocess nsOf st ser gs).1
  | [], st, _ => NsExt.refl st
  | g :: gs, st, ser => by
    unfold trigPreprocess
    split
    · exact trigPreprocess_nsExt nsOf gs st ser
    · split
      · exact (preprocessTriples_nsExt nsOf _ st).trans (trigPreprocess_nsExt nsOf gs _ _)
      · exact (preprocessTriples_nsExt nsOf _ st).trans (trigPreprocess_nsExt nsOf gs _ _)

/-- what the TriG serializer collects depends on the quads only -/
theorem trigPreprocess_ser_congr (nsOf : Nat → Option Nat) : ∀ (gs : List GName) (a b : State) (ser : TrigSer),
    a.quads = b.quads → (trigPreprocess nsOf a ser gs).2 = (trigPreprocess nsOf b ser gs).2
  | [], _, _, _, _ => rfl
  | g :: gs, a, b, ser, h => by
    unfold trigPreprocess
    rw [h]
    have hq : (preprocessTriples nsOf a (triplesOf b.quads g)).quads
        = (preprocessTriples nsOf b (triplesOf b.quads g)).quads := by
      rw [(preprocessTriples_nsExt nsOf _ a).quads, (preprocessTriples_nsExt nsOf _ b).quads, h]
    split
    · exact trigPreprocess_ser_congr nsOf gs a b ser h
    · split
      · exact trigPreprocess_ser_congr nsOf gs _ _ _ hq
      · exact trigPreprocess_ser_congr nsOf gs _ _ _ hq

/-! ### the state after any read -/

/-- reads that cannot bind a prefix leave the state at `s` or at `s.contextsCall.1`, literally -/
theorem run_state_nobind {s : State} (h : WF s) (r : ReadOp) (hb : r.mayBind = false) :
    (s.run r).1 = s ∨ (s.run r).1 = s.contextsCall.1 := by
  cases r with
  | serializeFlat => exact Or.inl rfl
  | serializeTurtle nsOf => simp [ReadOp.mayBind] at hb
  | serializeLongTurtle nsOf c f => simp [ReadOp.mayBind] at hb
  | serializeXml nsOf => simp [ReadOp.mayBind] at hb
  | serializePrettyXml nsOf ty d => simp [ReadOp.mayBind] at hb
  | serializeTrig nsOf => simp [ReadOp.mayBind] at hb
  | qname nsOf t => simp [ReadOp.mayBind] at hb
  | serializeCtxs => exact Or.inr rfl
  | serializeHext => exact Or.inr rfl
  | transitive x p f => exact Or.inl rfl
  | serializePatch => exact Or.inr rfl
  | serializePatchTarget t => exact Or.inl rfl
  | serializeJsonld => exact Or.inr (jsonldRun_self _ _)
  | graphs => exact Or.inr rfl
  | iter => exact Or.inl rfl
  | len => exact Or.inl rfl
  | slice pat => exact Or.inl rfl
  | contains3 pat => exact Or.inl rfl
  | triplesCtx pat g => exact Or.inl rfl
  | triples4 pat c => exact Or.inl (by simp only [State.run, State.readTriples4, resolveCtx_eq])
  | contains4 pat c => exact Or.inl (by simp only [State.run, State.readContains4, resolveCtx_eq])
  | quads4 pat c => exact Or.inl (resolveCtx_eq s c)
  | query q =>
    simp only [State.run, State.query]
    split
    · split
      · exact Or.inr rfl
      · exact Or.inl rfl
    · split <;> exact Or.inl rfl
  | path p => exact Or.inl rfl
  | cbd n b => exact Or.inl rfl
  | isomorphic g1 g2 d => exact Or.inl rfl
  | canonical g c => exact Or.inl rfl
  | diff g1 g2 c => exact Or.inl rfl
  | skolemize sk => exact Or.inl rfl
  | aggLen gs => exact Or.inl rfl
  | aggTriples gs pat => exact Or.inl rfl
  | aggContains gs pat => exact Or.inl rfl
  | aggQuads gs pat => exact Or.inl rfl

/-- every read leaves the state at `s` or at `s.contextsCall.1`, up to added prefix bindings -/
theorem run_state {s : State} (h : WF s) (r : ReadOp) :
    NsExt s (s.run r).1 ∨ NsExt s.contextsCall.1 (s.run r).1 := by
  by_cases hb : r.mayBind = false
  · rcases run_state_nobind h r hb with h1 | h1
    · exact Or.inl (NsExt.of_eq h1)
    · exact Or.inr (NsExt.of_eq h1)
  · cases r with
    | serializeTurtle nsOf =>
      exact Or.inl ((preprocessTriples_nsExt nsOf _ s).trans (preprocessTriples_nsExt nsOf _ _))
    | serializeLongTurtle nsOf c f =>
      simp only [State.run, State.serializeLongTurtle]
      split
      · exact Or.inl (NsExt.refl s)
      · exact Or.inl ((preprocessTriples_nsExt nsOf _ s).trans (preprocessTriples_nsExt nsOf _ _))
    | serializeXml nsOf =>
      exact Or.inl ((bindPredicates_nsExt nsOf _ s).trans (bindPredicates_nsExt nsOf _ _))
    | serializePrettyXml nsOf ty d =>
      exact Or.inl ((bindPredicates_nsExt nsOf _ s).trans (bindTypes_nsExt nsOf ty _ _))
    | serializeTrig nsOf => exact Or.inr (trigPreprocess_nsExt nsOf _ _ _)
    | qname nsOf t => exact Or.inl (getQName_nsExt s nsOf true t)
    | _ => exact absurd rfl hb

theorem run_wf {s : State} (h : WF s) (r : ReadOp) : WF (s.run r).1 := by
  rcases run_state h r with h1 | h1
  · exact h1.wf h
  · exact h1.wf (contextsCall_wf h)

theorem run_frame {s : State} (h : WF s) (r : ReadOp) : Frame s (s.run r).1 := by
  rcases run_state h r with h1 | h1
  · exact h1.frame
  · exact (frame_contextsCall h).trans h1.frame

theorem runAll_state : ∀ (rs : List ReadOp) {s : State}, WF s →
    NsExt s (s.runAll rs) ∨ NsExt s.contextsCall.1 (s.runAll rs)
  | [], s, _ => Or.inl (NsExt.refl s)
  | r :: rs, s, h => by
    unfold State.runAll
    have hw := run_wf h r
    rcases run_state h r with h1 | h1
    · rcases runAll_state rs hw with h2 | h2
      · exact Or.inl (h1.trans h2)
      · exact Or.inr (h1.contextsCall.trans h2)
    · rcases runAll_state rs hw with h2 | h2
      · exact Or.inr (h1.trans h2)
      · have h3 := h1.contextsCall
        rw [contextsCall_idem_fst] at h3
        exact Or.inr (h3.trans h2)

/-! ### outputs do not depend on whether the default graph has been registered yet, nor on prefix bindings -/

theorem visible_cc (s : State) : s.contextsCall.1.visible = s.visible := by
  unfold State.visible
  rw [contextsCall_union, contextsCall_quads, contextsCall_dname]

theorem effective_cc (s : State) (c : Option GName) : s.contextsCall.1.effective c = s.effective c := by
  unfold State.effective
  rw [contextsCall_union, contextsCall_dname]

theorem matching_cc (s : State) (pat : Pat) (c : Option GName) :
    s.contextsCall.1.matching pat c = s.matching pat c := by
  unfold State.matching
  rw [effective_cc, contextsCall_quads]

/-- the query context only reads the quads of the queried dataset -/
theorem qInit_congr {a b : State} (h : a.quads = b.quads) (lg : Bool) (docs : GName → Option (List Triple)) :
    ∀ (cs : List Clause) (c : QCtx), qInit a lg docs c cs = qInit b lg docs c cs
  | [], _ => rfl
  | .dflt g :: cs, c => by
    unfold qInit
    rw [h]
    split
    · split
      · rfl
      · exact qInit_congr h lg docs cs _
    · exact qInit_congr h lg docs cs _
  | .named g :: cs, c => by
    unfold qInit
    rw [h]
    split
    · split
      · rfl
      · exact qInit_congr h lg docs cs _
    · exact qInit_congr h lg docs cs _

/-- the prefix bindings DESCRIBE copies into its fresh result graph do not influence the triples -/
theorem describeAll_triples (active : List Triple) (isBlank : Nat → Bool) :
    ∀ (rs : List Nat) (rg rg' : ResultGraph), rg.triples = rg'.triples →
      (describeAll active isBlank rg rs).triples = (describeAll active isBlank rg' rs).triples
  | [], _, _, h => h
  | r :: rs, rg, rg', h => by
    unfold describeAll
    exact describeAll_triples active isBlank rs _ _ (by simp only [h])

theorem finish_ns_irrel (k : QKind) (active : List Triple) (n1 n2 : List Nat) (rows : List (List Nat)) :
    k.finish active n1 rows = k.finish active n2 rows := by
  cases k with
  | select => rfl
  | ask => rfl
  | construct tpl => rfl
  | describe isBlank =>
    simp only [QKind.finish]
    rw [describeAll_triples active isBlank _ ⟨[], n1⟩ ⟨[], n2⟩ rfl]

theorem answer_ns_irrel (q : QShape) (active : List Triple) (named : List (GName × List Triple))
    (n1 n2 : List Nat) : q.answer active named n1 = q.answer active named n2 :=
  finish_ns_irrel _ _ _ _ _

/-- what the JSON-LD loop collects depends on the quads and the default name only -/
structure JSim (a b : JAcc) : Prop where
  quads : a.self.quads = b.self.quads
  dname : a.self.dname = b.self.dname
  scratch : a.scratch = b.scratch
  named : a.named = b.named

theorem jsonldLoop_sim (own : Bool) : ∀ (cs : List GName) (a b : JAcc), JSim a b →
    JSim (jsonldLoop own a cs) (jsonldLoop own b cs)
  | [], _, _, h => h
  | g :: gs, a, b, h => by
    unfold jsonldLoop
    rw [h.named, h.dname, h.quads, h.scratch]
    split
    · exact jsonldLoop_sim own gs a b h
    · split
      · exact jsonldLoop_sim own gs _ _
          (by constructor <;> first | rfl | exact h.quads | exact h.dname | exact h.scratch | exact h.named)
      · exact jsonldLoop_sim own gs _ _
          (by constructor <;> first | rfl | exact h.quads | exact h.dname | exact h.scratch | exact h.named)

theorem jsonldOut_setNs (s1 : State) (k : List Nat) (cs : List GName) :
    jsonldOut (s1.setNs k) (jsonldRun (s1.setNs k) cs) = jsonldOut s1 (jsonldRun s1 cs) := by
  have hs : JSim (jsonldRun (s1.setNs k) cs) (jsonldRun s1 cs) := by
    unfold jsonldRun
    exact jsonldLoop_sim _ cs _ _ ⟨rfl, rfl, rfl, rfl⟩
  unfold jsonldOut
  rw [hs.scratch, hs.named, hs.quads]
  rfl

theorem contextAware_cc (s : State) : s.contextsCall.1.contextAware = s.contextAware := by
  unfold State.contextAware
  rw [contextsCall_isDataset, contextsCall_union]

theorem queryDefault_cc (s : State) (b : Bool) : s.contextsCall.1.queryDefault b = s.queryDefault b := by
  unfold State.queryDefault
  rw [visible_cc, contextsCall_quads, contextsCall_dname]

theorem anyEmpty_congr {a b : State} (h : a.quads = b.quads) : ∀ gs, anyEmpty a gs = anyEmpty b gs
  | [] => rfl
  | g :: gs => by unfold anyEmpty; rw [h, anyEmpty_congr h gs]

theorem constBlocks_congr {a b : State} (h : a.quads = b.quads) (known : List GName) :
    ∀ gs, constBlocks a known gs = constBlocks b known gs
  | [] => rfl
  | g :: gs => by unfold constBlocks; rw [h, constBlocks_congr h known gs]

theorem namedBlocks_congr {a b : State} (h : a.quads = b.quads) (hd : a.dname = b.dname) (cs : List GName) :
    namedBlocks a cs = namedBlocks b cs := by
  unfold namedBlocks; rw [h, hd]

/-- the answer of a read is the same whether or not the default graph has been registered -/
theorem run_out_cc {s : State} (h : WF s) (r : ReadOp) :
    (s.contextsCall.1.run r).2 = (s.run r).2 := by
  have h' := contextsCall_wf h
  cases r with
  | serializeFlat => simp only [State.run, State.serializeFlat, visible_cc, contextsCall_isDataset, contextsCall_quads]
  | serializeTurtle nsOf => simp only [State.run, State.serializeTurtle, visible_cc]
  | serializeLongTurtle nsOf c f =>
    simp only [State.run, State.serializeLongTurtle, visible_cc, contextsCall_isDataset, contextsCall_quads]
    split <;> rfl
  | serializeXml nsOf => simp only [State.run, State.serializeXml, visible_cc]
  | serializePrettyXml nsOf ty d => simp only [State.run, State.serializePrettyXml, visible_cc]
  | serializeCtxs => simp only [State.run, State.serializeCtxs, contextsCall_idem_fst, contextsCall_idem_snd]
  | serializeHext => simp only [State.run, State.serializeHext, contextsCall_idem_fst, contextsCall_idem_snd]
  | transitive x p f => simp only [State.run, visible_cc]
  | serializePatch => simp only [State.run, State.serializePatch, contextsCall_idem_fst, contextsCall_idem_snd]
  | serializePatchTarget t => simp only [State.run, State.serializePatchTarget, contextsCall_quads]
  | serializeTrig nsOf => simp only [State.run, State.serializeTrig, contextsCall_idem_fst, contextsCall_idem_snd]
  | serializeJsonld => simp only [State.run, State.serializeJsonld, contextsCall_idem_fst, contextsCall_idem_snd]
  | graphs => simp only [State.run, contextsCall_idem_snd]
  | iter => simp only [State.run, visible_cc, contextsCall_isDataset, contextsCall_quads]
  | len => simp only [State.run, contextAware_cc, contextsCall_quads, contextsCall_dname]
  | slice pat => simp only [State.run, matching_cc]
  | contains3 pat => simp only [State.run, matching_cc]
  | triplesCtx pat g => simp only [State.run, State.readTriplesCtx, matching_cc]
  | triples4 pat c => simp only [State.run, State.readTriples4, matching_cc]
  | contains4 pat c => simp only [State.run, State.readContains4, matching_cc]
  | quads4 pat c => simp only [State.run, State.readQuads4, contextsCall_quads]
  | query q =>
    have ha : anyEmpty s.contextsCall.1 q.graphConsts = anyEmpty s q.graphConsts :=
      anyEmpty_congr (contextsCall_quads s) _
    simp only [State.run, State.query, contextsCall_idem_fst, contextsCall_idem_snd, queryDefault_cc,
      contextsCall_ns, contextsCall_quads, qInit_congr (contextsCall_quads s), ha]
    split
    · split <;> rfl
    · split <;> rfl
  | path p => simp only [State.run, visible_cc]
  | cbd n b => simp only [State.run, visible_cc]
  | isomorphic g1 g2 d => simp only [State.run, contextsCall_quads]
  | canonical g c => simp only [State.run, contextsCall_quads]
  | diff g1 g2 c => simp only [State.run, contextsCall_quads]
  | skolemize sk => simp only [State.run, visible_cc]
  | qname nsOf t => rfl
  | aggLen gs => simp only [State.run, contextsCall_quads]
  | aggTriples gs pat => simp only [State.run, contextsCall_quads]
  | aggContains gs pat => simp only [State.run, contextsCall_quads]
  | aggQuads gs pat => simp only [State.run, contextsCall_quads]

theorem wf_setNs {s : State} (h : WF s) (k : List Nat) : WF (s.setNs k) := h

/-- the answer of a read does not depend on the prefix bindings -/
theorem run_out_setNs {s : State} (h : WF s) (k : List Nat) (r : ReadOp) :
    ((s.setNs k).run r).2 = (s.run r).2 := by
  have h' : WF (s.setNs k) := wf_setNs h k
  have hv : (s.setNs k).visible = s.visible := rfl
  have hq : (s.setNs k).quads = s.quads := rfl
  have hm : ∀ pat c, (s.setNs k).matching pat c = s.matching pat c := fun _ _ => rfl
  have hc1 : (s.setNs k).contextsCall.1 = s.contextsCall.1.setNs k := by rw [contextsCall_setNs]
  have hc2 : (s.setNs k).contextsCall.2 = s.contextsCall.2 := by rw [contextsCall_setNs]
  have hv' : (s.contextsCall.1.setNs k).visible = s.contextsCall.1.visible := rfl
  have hq' : (s.contextsCall.1.setNs k).quads = s.contextsCall.1.quads := rfl
  cases r with
  | serializeFlat => rfl
  | serializeTurtle nsOf => rfl
  | serializeLongTurtle nsOf c f =>
    have hd : (s.setNs k).isDataset = s.isDataset := rfl
    simp only [State.run, State.serializeLongTurtle, hd, hv, hq]
    split <;> rfl
  | serializeXml nsOf => rfl
  | serializePrettyXml nsOf ty d => rfl
  | serializeCtxs => simp only [State.run, State.serializeCtxs, hc1, hc2, hq']
  | serializeHext =>
    have hd' : (s.contextsCall.1.setNs k).dname = s.contextsCall.1.dname := rfl
    simp only [State.run, State.serializeHext, hc1, hc2, hq', hd']
  | transitive x p f => rfl
  | serializePatch => simp only [State.run, State.serializePatch, hc1, hc2, hq']
  | serializePatchTarget t => rfl
  | serializeTrig nsOf =>
    simp only [State.run, State.serializeTrig, hc1, hc2]
    rw [trigPreprocess_ser_congr nsOf _ (s.contextsCall.1.setNs k) s.contextsCall.1 _ rfl]
    rfl
  | serializeJsonld => simp only [State.run, State.serializeJsonld, hc1, hc2, jsonldOut_setNs]
  | graphs => simp only [State.run, hc2]
  | iter => rfl
  | len => rfl
  | slice pat => rfl
  | contains3 pat => rfl
  | triplesCtx pat g => rfl
  | triples4 pat c => rfl
  | contains4 pat c => rfl
  | quads4 pat c => rfl
  | query q =>
    have hqd : ∀ b, (s.setNs k).queryDefault b = s.queryDefault b := fun _ => rfl
    have hqd' : ∀ b, (s.contextsCall.1.setNs k).queryDefault b = s.contextsCall.1.queryDefault b := fun _ => rfl
    have ha : anyEmpty (s.setNs k) q.graphConsts = anyEmpty s q.graphConsts := anyEmpty_congr (a := s.setNs k) (b := s) rfl _
    have hcb : ∀ kn gs, constBlocks (s.contextsCall.1.setNs k) kn gs = constBlocks s.contextsCall.1 kn gs :=
      fun kn gs => constBlocks_congr (a := s.contextsCall.1.setNs k) (b := s.contextsCall.1) rfl kn gs
    have hnb : ∀ cs, namedBlocks (s.contextsCall.1.setNs k) cs = namedBlocks s.contextsCall.1 cs :=
      fun cs => namedBlocks_congr (a := s.contextsCall.1.setNs k) (b := s.contextsCall.1) rfl rfl cs
    simp only [State.run, State.query, hc1, hc2, hqd, hqd', hq, ha, hcb, hnb, qInit_congr hq]
    split
    · split
      · exact answer_ns_irrel q _ _ _ _
      · exact answer_ns_irrel q _ _ _ _
    · split <;> rfl
  | path p => rfl
  | cbd n b => rfl
  | isomorphic g1 g2 d => rfl
  | canonical g c => rfl
  | diff g1 g2 c => rfl
  | skolemize sk => rfl
  | qname nsOf t => rfl
  | aggLen gs => rfl
  | aggTriples gs pat => rfl
  | aggContains gs pat => rfl
  | aggQuads gs pat => rfl

theorem run_out_nsExt {a b : State} (hw : WF a) (h : NsExt a b) (r : ReadOp) :
    (b.run r).2 = (a.run r).2 := by
  rw [h.eq_setNs]
  exact run_out_setNs hw _ r

theorem run_deterministic {s : State} (h : WF s) (r : ReadOp) :
    (s.run r).2 = ((s.run r).1.run r).2 := by
  rcases run_state h r with h1 | h1
  · exact (run_out_nsExt h h1 r).symm
  · rw [run_out_nsExt (contextsCall_wf h) h1 r]
    exact (run_out_cc h r).symm

theorem runAll_wf : ∀ (rs : List ReadOp) {s : State}, WF s → WF (s.runAll rs)
  | [], _, h => h
  | r :: rs, _, h => runAll_wf rs (run_wf h r)

/-! ### which prefix bindings a read may add -/

/-- `n` is a namespace the read `r` may bind on `s`: the namespace of a predicate (for pretty-xml also of a
    class) the serializer writes, or of the IRI handed to `qname` -/
def ReadOp.mayBindNs (s : State) (n : Nat) : ReadOp → Prop
  | .serializeTurtle nsOf => ∃ t ∈ s.visible, nsOf t.2.1 = some n
  | .serializeLongTurtle nsOf canon canonf =>
    (canon && s.isDataset && !s.quads.isEmpty) = false ∧
    ∃ t ∈ (if canon then unionInto [] (canonf s.visible) else s.visible), nsOf t.2.1 = some n
  | .serializeXml nsOf => ∃ t ∈ s.visible, nsOf t.2.1 = some n
  | .serializePrettyXml nsOf ty _ =>
    ∃ t ∈ s.visible, nsOf t.2.1 = some n ∨ (t.2.1 = ty ∧ nsOf t.2.2 = some n)
  | .serializeTrig nsOf => ∃ q ∈ s.quads, nsOf q.1.2.1 = some n
  | .qname nsOf t => nsOf t = some n
  | _ => False

theorem getQName_ns_mem {s : State} {nsOf : Nat → Option Nat} {gen : Bool} {t n : Nat}
    (h : n ∈ (s.getQName nsOf gen t).ns) : n ∈ s.ns ∨ (gen = true ∧ nsOf t = some n) := by
  unfold State.getQName at h
  split at h
  · exact Or.inl h
  · next m hm =>
    split at h
    · next hg =>
      simp only [State.bindNs, mem_sinsert] at h
      rcases h with h | h
      · exact Or.inr ⟨hg, by rw [hm, h]⟩
      · exact Or.inl h
    · exact Or.inl h

theorem preprocessTriples_ns_mem (nsOf : Nat → Option Nat) : ∀ (ts : List Triple) (s : State) (n : Nat),
    n ∈ (preprocessTriples nsOf s ts).ns → n ∈ s.ns ∨ ∃ t ∈ ts, nsOf t.2.1 = some n
  | [], _, _, h => Or.inl h
  | t :: ts, s, n, h => by
    unfold preprocessTriples at h
    rcases preprocessTriples_ns_mem nsOf ts _ n h with h1 | ⟨t', ht', hn⟩
    · rcases getQName_ns_mem h1 with h2 | ⟨hf, _⟩
      · rcases getQName_ns_mem h2 with h3 | ⟨_, hn⟩
        · rcases getQName_ns_mem h3 with h4 | ⟨hf, _⟩
          · exact Or.inl h4
          · exact absurd hf (by decide)
        · exact Or.inr ⟨t, List.mem_cons_self, hn⟩
      · exact absurd hf (by decide)
    · exact Or.inr ⟨t', List.mem_cons_of_mem _ ht', hn⟩

theorem bindPredicates_ns_mem (nsOf : Nat → Option Nat) : ∀ (ts : List Triple) (s : State) (n : Nat),
    n ∈ (bindPredicates nsOf s ts).ns → n ∈ s.ns ∨ ∃ t ∈ ts, nsOf t.2.1 = some n
  | [], _, _, h => Or.inl h
  | t :: ts, s, n, h => by
    unfold bindPredicates at h
    rcases bindPredicates_ns_mem nsOf ts _ n h with h1 | ⟨t', ht', hn⟩
    · rcases getQName_ns_mem h1 with h2 | ⟨_, hn⟩
      · exact Or.inl h2
      · exact Or.inr ⟨t, List.mem_cons_self, hn⟩
    · exact Or.inr ⟨t', List.mem_cons_of_mem _ ht', hn⟩

theorem bindTypes_ns_mem (nsOf : Nat → Option Nat) (ty : Nat) : ∀ (ts : List Triple) (s : State) (n : Nat),
    n ∈ (bindTypes nsOf ty s ts).ns → n ∈ s.ns ∨ ∃ t ∈ ts, t.2.1 = ty ∧ nsOf t.2.2 = some n
  | [], _, _, h => Or.inl h
  | t :: ts, s, n, h => by
    unfold bindTypes at h
    split at h
    · next hty =>
      rcases bindTypes_ns_mem nsOf ty ts _ n h with h1 | ⟨t', ht', hn⟩
      · rcases getQName_ns_mem h1 with h2 | ⟨_, hn⟩
        · exact Or.inl h2
        · exact Or.inr ⟨t, List.mem_cons_self, hty, hn⟩
      · exact Or.inr ⟨t', List.mem_cons_of_mem _ ht', hn⟩
    · rcases bindTypes_ns_mem nsOf ty ts _ n h with h1 | ⟨t', ht', hn⟩
      · exact Or.inl h1
      · exact Or.inr ⟨t', List.mem_cons_of_mem _ ht', hn⟩

theorem trigPreprocess_ns_mem (nsOf : Nat → Option Nat) : ∀ (gs : List GName) (st : State) (ser : TrigSer) (n : Nat),
    n ∈ (trigPreprocess nsOf st ser gs).1.ns → n ∈ st.ns ∨ ∃ q ∈ st.quads, nsOf q.1.2.1 = some n
  | [], _, _, _, h => Or.inl h
  | g :: gs, st, ser, n, h => by
    have step : ∀ ser', n ∈ (trigPreprocess nsOf (preprocessTriples nsOf st (triplesOf st.quads g)) ser' gs).1.ns →
        n ∈ st.ns ∨ ∃ q ∈ st.quads, nsOf q.1.2.1 = some n := by
      intro ser' h'
      rcases trigPreprocess_ns_mem nsOf gs _ ser' n h' with h1 | ⟨q, hq, hn⟩
      · rcases preprocessTriples_ns_mem nsOf _ st n h1 with h2 | ⟨t, ht, hn⟩
        · exact Or.inl h2
        · exact Or.inr ⟨(t, g), mem_triplesOf.mp ht, hn⟩
      · rw [(preprocessTriples_nsExt nsOf _ st).quads] at hq
        exact Or.inr ⟨q, hq, hn⟩
    unfold trigPreprocess at h
    split at h
    · exact trigPreprocess_ns_mem nsOf gs st ser n h
    · split at h
      · exact step _ h
      · exact step _ h

/-! ### every state built through the store API is well-formed -/

/-- the two store writes -/
inductive Write
  | add (q : Quad)
  | register (g : GName)

def State.write (s : State) : Write → State
  | .add q => s.add q
  | .register g => s.register g

def State.writes (s : State) : List Write → State
  | [] => s
  | w :: ws => (s.write w).writes ws

theorem wf_add {s : State} (h : WF s) (q : Quad) : WF (s.add q) := by
  refine ⟨?_, h.2⟩
  intro q' hq'
  simp only [State.add, mem_sinsert] at hq' ⊢
  rcases hq' with h1 | h1
  · exact Or.inl (by rw [h1])
  · exact Or.inr (h.1 q' h1)

theorem wf_register {s : State} (h : WF s) (g : GName) : WF (s.register g) := by
  refine ⟨?_, h.2⟩
  intro q' hq'
  simp only [State.register, mem_sinsert]
  exact Or.inr (h.1 q' hq')

theorem wf_writes : ∀ (ws : List Write) {s : State}, WF s → WF (s.writes ws)
  | [], _, h => h
  | w :: ws, s, h => by
    unfold State.writes
    cases w with
    | add q => exact wf_writes ws (wf_add h q)
    | register g => exact wf_writes ws (wf_register h g)

end RV.C13
