import RV.C13.Model
/-
  C13 helper lemmas: re-adding present quads is the identity; `contextsCall` only
  registers the default graph and is idempotent; every read leaves the state at `s`
  or at `s.contextsCall.1`.
-/
namespace RV.C13

/-! ### sets as lists -/

theorem sinsert_of_mem {α : Type} [DecidableEq α] {l : List α} {x : α} (h : x ∈ l) :
    sinsert l x = l := by
  unfold sinsert; simp [h]

theorem sinsert_of_not_mem {α : Type} [DecidableEq α] {l : List α} {x : α} (h : x ∉ l) :
    sinsert l x = l ++ [x] := by
  unfold sinsert; simp [h]

theorem mem_triplesOf {qs : List Quad} {g : GName} {t : Triple} :
    t ∈ triplesOf qs g ↔ (t, g) ∈ qs := by
  induction qs with
  | nil => simp [triplesOf]
  | cons q qs ih =>
    obtain ⟨t', g'⟩ := q
    unfold triplesOf
    split
    · next h =>
      subst h
      simp only [List.mem_cons, ih, Prod.mk.injEq, and_true]
    · next h =>
      simp only [ih, List.mem_cons, Prod.mk.injEq]
      constructor
      · exact Or.inr
      · rintro (⟨_, h2⟩ | h2)
        · exact absurd h2.symm h
        · exact h2

theorem mem_tagWith {g : GName} {ts : List Triple} {q : Quad} :
    q ∈ tagWith g ts ↔ q.2 = g ∧ q.1 ∈ ts := by
  induction ts with
  | nil => simp [tagWith]
  | cons t ts ih =>
    obtain ⟨qt, qg⟩ := q
    simp only [tagWith, List.mem_cons, ih, Prod.mk.injEq]
    constructor
    · rintro (⟨h1, h2⟩ | ⟨h1, h2⟩)
      · exact ⟨h2, Or.inl h1⟩
      · exact ⟨h1, Or.inr h2⟩
    · rintro ⟨h1, h2 | h2⟩
      · exact Or.inl ⟨h2, h1⟩
      · exact Or.inr ⟨h1, h2⟩

/-- the triples of a view, tagged with its name, are quads of the store -/
theorem tag_view_present {qs : List Quad} {g : GName} {q : Quad}
    (h : q ∈ tagWith g (triplesOf qs g)) : q ∈ qs := by
  obtain ⟨qt, qg⟩ := q
  rw [mem_tagWith] at h
  obtain ⟨h1, h2⟩ := h
  simp only at h1 h2
  subst h1
  exact mem_triplesOf.mp h2

/-! ### well-formed states -/

/-- Every state reachable through the store API: a graph holding a quad is registered
    (`Memory.add` does `__all_contexts.add(context)`), and a `Dataset`'s default graph is named
    `urn:x-rdflib:default`. -/
def WF (s : State) : Prop :=
  (∀ q ∈ s.quads, q.2 ∈ s.known) ∧ (s.isDataset = true → s.dname = .dflt)

instance (s : State) : Decidable (WF s) := by unfold WF; exact inferInstance

theorem add_present {s : State} {q : Quad} (h1 : q ∈ s.quads) (h2 : q.2 ∈ s.known) :
    s.add q = s := by
  unfold State.add
  rw [sinsert_of_mem h1, sinsert_of_mem h2]

theorem addAll_present : ∀ (qs : List Quad) (s : State),
    (∀ q ∈ qs, q ∈ s.quads ∧ q.2 ∈ s.known) → s.addAll qs = s
  | [], _, _ => rfl
  | q :: qs, s, h => by
    unfold State.addAll
    rw [add_present (h q (List.mem_cons_self)).1 (h q (List.mem_cons_self)).2]
    exact addAll_present qs s (fun q' hq' => h q' (List.mem_cons_of_mem _ hq'))

/-! ### `contextsCall` -/

/-- same dataset, possibly more registered names -/
theorem contextsCall_fst (s : State) :
    s.contextsCall.1 = { s with known := s.contextsCall.1.known } := by
  unfold State.contextsCall State.register
  split
  · split <;> rfl
  · rfl

theorem contextsCall_quads (s : State) : s.contextsCall.1.quads = s.quads := by
  rw [contextsCall_fst]
theorem contextsCall_union (s : State) : s.contextsCall.1.defaultUnion = s.defaultUnion := by
  rw [contextsCall_fst]
theorem contextsCall_isDataset (s : State) : s.contextsCall.1.isDataset = s.isDataset := by
  rw [contextsCall_fst]
theorem contextsCall_dname (s : State) : s.contextsCall.1.dname = s.dname := by
  rw [contextsCall_fst]

/-- the list it returns is what is registered afterwards -/
theorem contextsCall_snd (s : State) : s.contextsCall.2 = s.contextsCall.1.known := by
  unfold State.contextsCall State.register
  split
  · split
    · rfl
    · next h => simp only [sinsert_of_not_mem h]
  · rfl

theorem contextsCall_known_mem (s : State) (g : GName) :
    g ∈ s.contextsCall.1.known ↔ g ∈ s.known ∨ (s.isDataset = true ∧ g = .dflt) := by
  unfold State.contextsCall State.register
  split
  · next hd =>
    split
    · next h =>
      simp only [hd, true_and]
      constructor
      · exact Or.inl
      · rintro (h' | h')
        · exact h'
        · subst h'; exact h
    · next h => simp only [mem_sinsert, hd, true_and, or_comm]
  · next hd => simp [hd]

theorem contextsCall_idem (s : State) :
    s.contextsCall.1.contextsCall = (s.contextsCall.1, s.contextsCall.2) := by
  by_cases hd : s.isDataset = true
  · by_cases h : GName.dflt ∈ s.known
    · simp [State.contextsCall, hd, h]
    · simp [State.contextsCall, State.register, hd, h, sinsert_of_not_mem h]
  · simp [State.contextsCall, hd]

theorem contextsCall_idem_fst (s : State) : s.contextsCall.1.contextsCall.1 = s.contextsCall.1 := by
  rw [contextsCall_idem]
theorem contextsCall_idem_snd (s : State) : s.contextsCall.1.contextsCall.2 = s.contextsCall.2 := by
  rw [contextsCall_idem]

theorem contextsCall_wf {s : State} (h : WF s) : WF s.contextsCall.1 := by
  refine ⟨?_, ?_⟩
  · intro q hq
    rw [contextsCall_quads] at hq
    exact (contextsCall_known_mem s q.2).mpr (Or.inl (h.1 q hq))
  · rw [contextsCall_isDataset, contextsCall_dname]; exact h.2

/-! ### `_graph` on a same-store view is the identity (after the `contexts()` scan) -/

theorem graphView_eq {s : State} (h : WF s) (g : GName) : s.graphView g = s.contextsCall.1 := by
  unfold State.graphView
  apply addAll_present
  intro q hq
  have hq' := tag_view_present hq
  exact ⟨hq', (contextsCall_wf h).1 q hq'⟩

theorem resolveCtx_cases {s : State} (h : WF s) (c : CtxArg) :
    s.resolveCtx c = s ∨ s.resolveCtx c = s.contextsCall.1 := by
  cases c with
  | ident g => exact Or.inl rfl
  | view g => exact Or.inr (graphView_eq h g)

/-! ### the JSON-LD loop never touches `self` -/

theorem jsonldLoop_self (own : Bool) : ∀ (cs : List GName) (acc : JAcc),
    (jsonldLoop own acc cs).self = acc.self
  | [], _ => rfl
  | g :: gs, acc => by
    unfold jsonldLoop
    split
    · exact jsonldLoop_self own gs acc
    · split
      · exact jsonldLoop_self own gs _
      · exact jsonldLoop_self own gs _

theorem jsonldRun_self (s1 : State) (cs : List GName) : (jsonldRun s1 cs).self = s1 := by
  unfold jsonldRun
  rw [jsonldLoop_self]

/-! ### frames -/

/-- "exactly as they were": same quads, same configuration, same set of graphs
    (the always-existing default graph counted on both sides) -/
structure Frame (s s' : State) : Prop where
  quads : s'.quads = s.quads
  union : s'.defaultUnion = s.defaultUnion
  isDataset : s'.isDataset = s.isDataset
  dname : s'.dname = s.dname
  names : SetEq s'.graphNames s.graphNames

theorem Frame.refl (s : State) : Frame s s := ⟨rfl, rfl, rfl, rfl, SetEq.refl _⟩

theorem Frame.trans {a b c : State} (h1 : Frame a b) (h2 : Frame b c) : Frame a c :=
  ⟨h2.quads.trans h1.quads, h2.union.trans h1.union, h2.isDataset.trans h1.isDataset,
   h2.dname.trans h1.dname, SetEq.trans h2.names h1.names⟩

theorem frame_contextsCall {s : State} (h : WF s) : Frame s s.contextsCall.1 := by
  refine ⟨contextsCall_quads s, contextsCall_union s, contextsCall_isDataset s, contextsCall_dname s, ?_⟩
  intro g
  unfold State.graphNames
  rw [mem_sinsert, mem_sinsert, contextsCall_dname, contextsCall_known_mem]
  constructor
  · rintro (h1 | h1 | ⟨h1, h2⟩)
    · exact Or.inl h1
    · exact Or.inr h1
    · exact Or.inl (h2.trans (h.2 h1).symm)
  · rintro (h1 | h1)
    · exact Or.inl h1
    · exact Or.inr (Or.inl h1)

/-! ### the state after any read -/

theorem run_state {s : State} (h : WF s) (r : ReadOp) :
    (s.run r).1 = s ∨ (s.run r).1 = s.contextsCall.1 := by
  cases r with
  | serializeFlat => exact Or.inl rfl
  | serializeCtxs => exact Or.inr rfl
  | serializeTrig => exact Or.inr rfl
  | serializeJsonld => exact Or.inr (jsonldRun_self _ _)
  | graphs => exact Or.inr rfl
  | iter => exact Or.inl rfl
  | len => exact Or.inl rfl
  | slice pat => exact Or.inl rfl
  | contains3 pat => exact Or.inl rfl
  | triplesCtx pat g =>
    simp only [State.run, State.readTriplesCtx]
    split
    · exact Or.inl rfl
    · exact Or.inr (graphView_eq h g)
  | triples4 pat c =>
    simp only [State.run, State.readTriples4]
    rcases resolveCtx_cases h c with h1 | h1
    · rw [h1]; exact Or.inr (graphView_eq h _)
    · rw [h1, graphView_eq (contextsCall_wf h), contextsCall_idem_fst]; exact Or.inr rfl
  | contains4 pat c =>
    simp only [State.run, State.readContains4]
    rcases resolveCtx_cases h c with h1 | h1
    · rw [h1]
      split
      · exact Or.inl rfl
      · exact Or.inr (graphView_eq h _)
    · rw [h1]
      split
      · exact Or.inr rfl
      · rw [graphView_eq (contextsCall_wf h), contextsCall_idem_fst]; exact Or.inr rfl
  | quads4 pat c =>
    simp only [State.run, State.readQuads4]
    exact resolveCtx_cases h c
  | query q =>
    simp only [State.run, State.query]
    split
    · split
      · exact Or.inr rfl
      · exact Or.inl rfl
    · split
      · exact Or.inl rfl
      · split <;> exact Or.inl rfl
  | path p => exact Or.inl rfl
  | cbd n b => exact Or.inl rfl
  | isomorphic g1 g2 d => exact Or.inl rfl
  | canonical g c => exact Or.inl rfl
  | diff g1 g2 c => exact Or.inl rfl

theorem run_wf {s : State} (h : WF s) (r : ReadOp) : WF (s.run r).1 := by
  rcases run_state h r with h1 | h1 <;> rw [h1]
  · exact h
  · exact contextsCall_wf h

theorem run_frame {s : State} (h : WF s) (r : ReadOp) : Frame s (s.run r).1 := by
  rcases run_state h r with h1 | h1 <;> rw [h1]
  · exact Frame.refl s
  · exact frame_contextsCall h

theorem runAll_state : ∀ (rs : List ReadOp) {s : State}, WF s →
    s.runAll rs = s ∨ s.runAll rs = s.contextsCall.1
  | [], _, _ => Or.inl rfl
  | r :: rs, s, h => by
    unfold State.runAll
    rcases run_state h r with h1 | h1
    · rw [h1]; exact runAll_state rs h
    · rw [h1]
      rcases runAll_state rs (contextsCall_wf h) with h2 | h2
      · exact Or.inr h2
      · rw [h2, contextsCall_idem_fst]; exact Or.inr rfl

/-! ### outputs do not depend on whether the default graph has been registered yet -/

theorem visible_cc (s : State) : s.contextsCall.1.visible = s.visible := by
  unfold State.visible
  rw [contextsCall_union, contextsCall_quads, contextsCall_dname]

theorem effective_cc (s : State) (c : Option GName) : s.contextsCall.1.effective c = s.effective c := by
  unfold State.effective
  rw [contextsCall_union, contextsCall_dname]

theorem matching_cc (s : State) (pat : Pat) (c : Option GName) :
    s.contextsCall.1.matching pat c = s.matching pat c := by
  unfold State.matching
  rw [effective_cc, contextsCall_quads]

/-- the query context only reads the quads of the queried dataset -/
theorem qInit_congr {a b : State} (h : a.quads = b.quads) (lg : Bool) (docs : GName → Option (List Triple)) :
    ∀ (cs : List Clause) (c : QCtx), qInit a lg docs c cs = qInit b lg docs c cs
  | [], _ => rfl
  | .dflt g :: cs, c => by
    unfold qInit
    rw [h]
    split
    · split
      · rfl
      · exact qInit_congr h lg docs cs _
    · exact qInit_congr h lg docs cs _
  | .named g :: cs, c => by
    unfold qInit
    rw [h]
    split
    · split
      · rfl
      · exact qInit_congr h lg docs cs _
    · exact qInit_congr h lg docs cs _

theorem readTriples4_eq {s : State} (h : WF s) (pat : Pat) (c : CtxArg) :
    s.readTriples4 pat c
      = (s.contextsCall.1, .triples (s.contextsCall.1.matching pat (some c.name))) := by
  have key : (s.resolveCtx c).graphView c.name = s.contextsCall.1 := by
    rcases resolveCtx_cases h c with h1 | h1
    · rw [h1]; exact graphView_eq h _
    · rw [h1, graphView_eq (contextsCall_wf h), contextsCall_idem_fst]
  unfold State.readTriples4
  simp only [key]

theorem resolveCtx_quads {s : State} (h : WF s) (c : CtxArg) : (s.resolveCtx c).quads = s.quads := by
  rcases resolveCtx_cases h c with h1 | h1 <;> rw [h1]
  exact contextsCall_quads s

theorem resolveCtx_matching {s : State} (h : WF s) (c : CtxArg) (pat : Pat) (o : Option GName) :
    (s.resolveCtx c).matching pat o = s.matching pat o := by
  rcases resolveCtx_cases h c with h1 | h1 <;> rw [h1]
  exact matching_cc s pat o

theorem readContains4_out {s : State} (h : WF s) (pat : Pat) (c : CtxArg) :
    (s.readContains4 pat c).2
      = if (triplesOf s.quads c.name).isEmpty then .bool !(s.matching pat none).isEmpty
        else .bool !(s.matching pat (some c.name)).isEmpty := by
  have key : (s.resolveCtx c).graphView c.name = s.contextsCall.1 := by
    rcases resolveCtx_cases h c with h1 | h1
    · rw [h1]; exact graphView_eq h _
    · rw [h1, graphView_eq (contextsCall_wf h), contextsCall_idem_fst]
  unfold State.readContains4
  simp only [key, resolveCtx_quads h, resolveCtx_matching h, matching_cc]
  split <;> rfl

theorem readTriplesCtx_out {s : State} (h : WF s) (pat : Pat) (g : GName) :
    (s.readTriplesCtx pat g).2
      = if (triplesOf s.quads g).isEmpty then .triples (s.matching pat none)
        else .triples (s.matching pat (some g)) := by
  unfold State.readTriplesCtx
  simp only [graphView_eq h, matching_cc]
  split <;> rfl

theorem readQuads4_out {s : State} (h : WF s) (pat : Pat) (c : CtxArg) :
    (s.readQuads4 pat c).2
      = .quads (tagWith c.name ((triplesOf s.quads c.name).filter pat.matches)) := by
  unfold State.readQuads4
  simp only [resolveCtx_quads h]

/-- the answer of a read is the same whether or not the default graph has been registered -/
theorem run_out_cc {s : State} (h : WF s) (r : ReadOp) :
    (s.contextsCall.1.run r).2 = (s.run r).2 := by
  have h' := contextsCall_wf h
  cases r with
  | serializeFlat => simp only [State.run, State.serializeFlat, visible_cc]
  | serializeCtxs => simp only [State.run, State.serializeCtxs, contextsCall_idem_fst, contextsCall_idem_snd]
  | serializeTrig => simp only [State.run, State.serializeTrig, contextsCall_idem_fst, contextsCall_idem_snd]
  | serializeJsonld => simp only [State.run, State.serializeJsonld, contextsCall_idem_fst, contextsCall_idem_snd]
  | graphs => simp only [State.run, contextsCall_idem_snd]
  | iter => simp only [State.run, visible_cc]
  | len => simp only [State.run, visible_cc]
  | slice pat => simp only [State.run, matching_cc]
  | contains3 pat => simp only [State.run, matching_cc]
  | triplesCtx pat g =>
    simp only [State.run, readTriplesCtx_out h, readTriplesCtx_out h', contextsCall_quads, matching_cc]
  | triples4 pat c =>
    simp only [State.run, readTriples4_eq h, readTriples4_eq h', contextsCall_idem_fst]
  | contains4 pat c =>
    simp only [State.run, readContains4_out h, readContains4_out h', contextsCall_quads, matching_cc]
  | quads4 pat c =>
    simp only [State.run, readQuads4_out h, readQuads4_out h', contextsCall_quads]
  | query q =>
    simp only [State.run, State.query, contextsCall_idem_fst, contextsCall_idem_snd, visible_cc,
      qInit_congr (contextsCall_quads s)]
    split
    · split <;> rfl
    · split
      · rfl
      · split <;> rfl
  | path p => simp only [State.run, visible_cc]
  | cbd n b => simp only [State.run, visible_cc]
  | isomorphic g1 g2 d => simp only [State.run, contextsCall_quads]
  | canonical g c => simp only [State.run, contextsCall_quads]
  | diff g1 g2 c => simp only [State.run, contextsCall_quads]

theorem run_deterministic {s : State} (h : WF s) (r : ReadOp) :
    (s.run r).2 = ((s.run r).1.run r).2 := by
  rcases run_state h r with h1 | h1 <;> rw [h1]
  exact (run_out_cc h r).symm

theorem runAll_wf : ∀ (rs : List ReadOp) {s : State}, WF s → WF (s.runAll rs)
  | [], _, h => h
  | r :: rs, _, h => runAll_wf rs (run_wf h r)

/-! ### every state built through the store API is well-formed -/

/-- the two store writes -/
inductive Write
  | add (q : Quad)
  | register (g : GName)

def State.write (s : State) : Write → State
  | .add q => s.add q
  | .register g => s.register g

def State.writes (s : State) : List Write → State
  | [] => s
  | w :: ws => (s.write w).writes ws

theorem wf_add {s : State} (h : WF s) (q : Quad) : WF (s.add q) := by
  refine ⟨?_, h.2⟩
  intro q' hq'
  simp only [State.add, mem_sinsert] at hq' ⊢
  rcases hq' with h1 | h1
  · exact Or.inl (by rw [h1])
  · exact Or.inr (h.1 q' h1)

theorem wf_register {s : State} (h : WF s) (g : GName) : WF (s.register g) := by
  refine ⟨?_, h.2⟩
  intro q' hq'
  simp only [State.register, mem_sinsert]
  exact Or.inr (h.1 q' hq')

theorem wf_writes : ∀ (ws : List Write) {s : State}, WF s → WF (s.writes ws)
  | [], _, h => h
  | w :: ws, s, h => by
    unfold State.writes
    cases w with
    | add q => exact wf_writes ws (wf_add h q)
    | register g => exact wf_writes ws (wf_register h g)

end RV.C13
