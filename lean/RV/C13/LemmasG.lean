import RV.C13.Lemmas
/-
  C13 round g — lemmas for
   * the EXACT characterisation of prefix bindings (every namespace a binding read may bind IS bound afterwards),
   * reads through a `Graph` view of one context (`State.runView`).
-/
namespace RV.C13

/-! ### completeness of the binding passes -/

theorem getQName_ns_gen {s : State} {nsOf : Nat → Option Nat} {t n : Nat} (h : nsOf t = some n) :
    n ∈ (s.getQName nsOf true t).ns := by
  unfold State.getQName
  rw [h]
  simp [State.bindNs]

theorem preprocessTriples_ns_complete (nsOf : Nat → Option Nat) : ∀ (ts : List Triple) (s : State) (n : Nat),
    (∃ t ∈ ts, nsOf t.2.1 = some n) → n ∈ (preprocessTriples nsOf s ts).ns
  | [], _, _, ⟨_, ht, _⟩ => by cases ht
  | t :: ts, s, n, ⟨t', ht', hn⟩ => by
    unfold preprocessTriples
    rcases List.mem_cons.mp ht' with h1 | h1
    · subst h1
      exact (preprocessTriples_nsExt nsOf ts _).mono n
        ((getQName_nsExt _ nsOf false _).mono n (getQName_ns_gen hn))
    · exact preprocessTriples_ns_complete nsOf ts _ n ⟨t', h1, hn⟩

theorem bindPredicates_ns_complete (nsOf : Nat → Option Nat) : ∀ (ts : List Triple) (s : State) (n : Nat),
    (∃ t ∈ ts, nsOf t.2.1 = some n) → n ∈ (bindPredicates nsOf s ts).ns
  | [], _, _, ⟨_, ht, _⟩ => by cases ht
  | t :: ts, s, n, ⟨t', ht', hn⟩ => by
    unfold bindPredicates
    rcases List.mem_cons.mp ht' with h1 | h1
    · subst h1
      exact (bindPredicates_nsExt nsOf ts _).mono n (getQName_ns_gen hn)
    · exact bindPredicates_ns_complete nsOf ts _ n ⟨t', h1, hn⟩

theorem bindTypes_ns_complete (nsOf : Nat → Option Nat) (ty : Nat) : ∀ (ts : List Triple) (s : State) (n : Nat),
    (∃ t ∈ ts, t.2.1 = ty ∧ nsOf t.2.2 = some n) → n ∈ (bindTypes nsOf ty s ts).ns
  | [], _, _, ⟨_, ht, _⟩ => by cases ht
  | t :: ts, s, n, ⟨t', ht', hty, hn⟩ => by
    unfold bindTypes
    rcases List.mem_cons.mp ht' with h1 | h1
    · subst h1
      rw [if_pos hty]
      exact (bindTypes_nsExt nsOf ty ts _).mono n (getQName_ns_gen hn)
    · split
      · exact bindTypes_ns_complete nsOf ty ts _ n ⟨t', h1, hty, hn⟩
      · exact bindTypes_ns_complete nsOf ty ts _ n ⟨t', h1, hty, hn⟩

/-- TriG pre-processes every non-empty context of its list: the predicate namespaces of all their quads get bound -/
theorem trigPreprocess_ns_complete (nsOf : Nat → Option Nat) :
    ∀ (gs : List GName) (st : State) (ser : TrigSer) (n : Nat),
      (∃ q ∈ st.quads, q.2 ∈ gs ∧ nsOf q.1.2.1 = some n) → n ∈ (trigPreprocess nsOf st ser gs).1.ns
  | [], _, _, _, ⟨_, _, hg, _⟩ => by cases hg
  | g :: gs, st, ser, n, ⟨q, hq, hg, hn⟩ => by
    have step : ∀ ser', ¬ (triplesOf st.quads g).isEmpty = true →
        n ∈ (trigPreprocess nsOf (preprocessTriples nsOf st (triplesOf st.quads g)) ser' gs).1.ns := by
      intro ser' _
      rcases List.mem_cons.mp hg with h1 | h1
      · apply (trigPreprocess_nsExt nsOf gs _ ser').mono n
        apply preprocessTriples_ns_complete
        refine ⟨q.1, ?_, hn⟩
        rw [mem_triplesOf, ← h1]
        exact hq
      · apply trigPreprocess_ns_complete nsOf gs _ ser' n
        refine ⟨q, ?_, h1, hn⟩
        rw [(preprocessTriples_nsExt nsOf _ st).quads]
        exact hq
    unfold trigPreprocess
    split
    · next hemp =>
      rcases List.mem_cons.mp hg with h1 | h1
      · have hm : q.1 ∈ triplesOf st.quads g := by
          rw [mem_triplesOf, ← h1]; exact hq
        cases hl : triplesOf st.quads g with
        | nil => rw [hl] at hm; cases hm
        | cons a as => rw [hl] at hemp; cases hemp
      · exact trigPreprocess_ns_complete nsOf gs st ser n ⟨q, hq, h1, hn⟩
    · next hne =>
      split
      · exact step _ hne
      · exact step _ hne

theorem mem_trigContexts {s1 : State} {cs : List GName} {g : GName} (h : g ∈ cs) : g ∈ trigContexts s1 cs := by
  unfold trigContexts
  split
  · exact h
  · exact List.mem_append_left _ h

/-! ### a `Graph` view of one context -/

theorem asView_wf {s : State} (h : WF s) (g : GName) : WF (s.asView g) :=
  ⟨h.1, fun h' => by simp [State.asView] at h'⟩

theorem asView_contextsCall (s : State) (g : GName) : (s.asView g).contextsCall.1 = s.asView g := by
  simp [State.contextsCall, State.asView]

/-- a read through a view ends in the view state with (possibly) more prefix bindings — nothing is registered -/
theorem runView_state {s : State} (h : WF s) (g : GName) (r : ReadOp) :
    NsExt (s.asView g) ((s.asView g).run r).1 := by
  rcases run_state (asView_wf h g) r with h1 | h1
  · exact h1
  · rw [asView_contextsCall] at h1; exact h1

theorem runView_nsExt {s : State} (h : WF s) (g : GName) (r : ReadOp) : NsExt s (s.runView g r).1 := by
  have h1 := runView_state h g r
  exact ⟨h1.quads, h1.known, rfl, rfl, rfl, h1.base, h1.mono⟩

theorem runView_asView {s : State} (h : WF s) (g : GName) (r : ReadOp) :
    (s.runView g r).1.asView g = ((s.asView g).run r).1 := by
  have h1 := runView_state h g r
  have hu : ((s.asView g).run r).1.defaultUnion = false := h1.union
  have hd : ((s.asView g).run r).1.isDataset = false := h1.isDataset
  have hn : ((s.asView g).run r).1.dname = g := h1.dname
  unfold State.runView
  generalize ((s.asView g).run r).1 = X at hu hd hn
  cases X
  simp only [State.asView] at *
  subst hu hd hn
  rfl

theorem runView_deterministic {s : State} (h : WF s) (g : GName) (r : ReadOp) :
    (s.runView g r).2 = ((s.runView g r).1.runView g r).2 := by
  show ((s.asView g).run r).2 = (((s.runView g r).1.asView g).run r).2
  rw [runView_asView h g r]
  exact run_deterministic (asView_wf h g) r

/-! ### `ReadOnlyGraphAggregate`: what its reads mean -/

theorem seenAny_iff (qs : List Quad) (t : Triple) (seen : List GName) :
    seen.any (fun g' => (triplesOf qs g').contains t) = true ↔ ∃ g' ∈ seen, (t, g') ∈ qs := by
  simp [mem_triplesOf]

/-- `triples(pat)` yields the matching triples some member holds and no member before it held -/
theorem mem_aggTriples (qs : List Quad) (pat : Pat) (t : Triple) :
    ∀ (gs seen : List GName), t ∈ aggTriples qs pat seen gs ↔
      pat.matches t = true ∧ (∃ g ∈ gs, (t, g) ∈ qs) ∧ ¬ ∃ g' ∈ seen, (t, g') ∈ qs
  | [], seen => by simp [aggTriples]
  | g :: gs, seen => by
    have hp : (pat.matches t && !(seen.any (fun g' => (triplesOf qs g').contains t))) = true ↔
        pat.matches t = true ∧ ¬ ∃ g' ∈ seen, (t, g') ∈ qs := by
      rw [← seenAny_iff]; simp
    unfold aggTriples
    simp only [List.mem_append, List.mem_filter, mem_triplesOf, mem_aggTriples qs pat t gs (seen ++ [g]), hp]
    constructor
    · rintro (⟨h1, h2, h3⟩ | ⟨h1, ⟨g2, hg2, h2⟩, h3⟩)
      · exact ⟨h2, ⟨g, List.mem_cons_self, h1⟩, h3⟩
      · refine ⟨h1, ⟨g2, List.mem_cons_of_mem _ hg2, h2⟩, ?_⟩
        rintro ⟨g', hg', h4⟩
        exact h3 ⟨g', Or.inl hg', h4⟩
    · rintro ⟨h1, ⟨g2, hg2, h2⟩, h3⟩
      by_cases hg : (t, g) ∈ qs
      · exact Or.inl ⟨hg, h1, h3⟩
      · right
        rcases List.mem_cons.mp hg2 with e | e
        · subst e; exact absurd h2 hg
        · refine ⟨h1, ⟨g2, e, h2⟩, ?_⟩
          rintro ⟨g', hg', h4⟩
          rcases hg' with e' | e'
          · exact h3 ⟨g', e', h4⟩
          · simp only [List.mem_singleton] at e'
            subst e'
            exact hg h4

theorem aggContains_iff (qs : List Quad) (pat : Pat) : ∀ (gs : List GName),
    aggContains qs pat gs = true ↔ ∃ t, pat.matches t = true ∧ ∃ g ∈ gs, (t, g) ∈ qs
  | [] => by simp [aggContains]
  | g :: gs => by
    unfold aggContains
    rw [Bool.or_eq_true, aggContains_iff qs pat gs]
    have h1 : (!((triplesOf qs g).filter pat.matches).isEmpty) = true ↔
        ∃ t, pat.matches t = true ∧ (t, g) ∈ qs := by
      cases hl : (triplesOf qs g).filter pat.matches with
      | nil =>
        simp only [List.isEmpty_nil, Bool.not_true, Bool.false_eq_true, false_iff]
        rintro ⟨t, ht, hq⟩
        have : t ∈ (triplesOf qs g).filter pat.matches := List.mem_filter.mpr ⟨mem_triplesOf.mpr hq, ht⟩
        rw [hl] at this
        cases this
      | cons a as =>
        simp only [List.isEmpty_cons, Bool.not_false, true_iff]
        have : a ∈ (triplesOf qs g).filter pat.matches := by rw [hl]; exact List.mem_cons_self
        obtain ⟨ha1, ha2⟩ := List.mem_filter.mp this
        exact ⟨a, ha2, mem_triplesOf.mp ha1⟩
    rw [h1]
    constructor
    · rintro (⟨t, ht, hq⟩ | ⟨t, ht, g2, hg2, hq⟩)
      · exact ⟨t, ht, g, List.mem_cons_self, hq⟩
      · exact ⟨t, ht, g2, List.mem_cons_of_mem _ hg2, hq⟩
    · rintro ⟨t, ht, g2, hg2, hq⟩
      rcases List.mem_cons.mp hg2 with e | e
      · subst e; exact Or.inl ⟨t, ht, hq⟩
      · exact Or.inr ⟨t, ht, g2, e, hq⟩

theorem mem_aggQuads (qs : List Quad) (pat : Pat) (q : Quad) : ∀ (gs : List GName),
    q ∈ aggQuads qs pat gs ↔ pat.matches q.1 = true ∧ q.2 ∈ gs ∧ q ∈ qs
  | [] => by simp [aggQuads]
  | g :: gs => by
    obtain ⟨t, g0⟩ := q
    unfold aggQuads
    simp only [List.mem_append, mem_tagWith, List.mem_filter, mem_triplesOf, mem_aggQuads qs pat (t, g0) gs,
      List.mem_cons]
    constructor
    · rintro (⟨h1, h2, h3⟩ | ⟨h1, h2, h3⟩)
      · subst h1; exact ⟨h3, Or.inl rfl, h2⟩
      · exact ⟨h1, Or.inr h2, h3⟩
    · rintro ⟨h1, h2 | h2, h3⟩
      · subst h2; exact Or.inl ⟨rfl, h3, h1⟩
      · exact Or.inr ⟨h1, h2, h3⟩

/-- which namespaces a read may bind depends on the quads and the configuration only -/
theorem mayBindNs_congr {a b : State} (hq : b.quads = a.quads) (hu : b.defaultUnion = a.defaultUnion)
    (hd : b.dname = a.dname) (hi : b.isDataset = a.isDataset) (r : ReadOp) (n : Nat) :
    r.mayBindNs b n ↔ r.mayBindNs a n := by
  have hv : b.visible = a.visible := by unfold State.visible; rw [hq, hu, hd]
  cases r <;> simp only [ReadOp.mayBindNs, hv, hq, hi]

/-! ### `transitive_objects` / `transitive_subjects` -/

theorem transWalk_mono (ts : List Triple) (p : Nat) (fwd : Bool) :
    ∀ (n : Nat) (stack seen : List Nat) (y : Nat), y ∈ seen → y ∈ transWalk ts p fwd n stack seen
  | 0, _, _, _, h => h
  | _ + 1, [], _, _, h => h
  | n + 1, x :: stack, seen, y, h => by
    unfold transWalk
    split
    · exact transWalk_mono ts p fwd n stack seen y h
    · exact transWalk_mono ts p fwd n _ _ y (List.mem_append_left _ h)

theorem transWalk_start (ts : List Triple) (p : Nat) (fwd : Bool) (n x : Nat) (stack seen : List Nat) :
    x ∈ transWalk ts p fwd (n + 1) (x :: stack) seen := by
  unfold transWalk
  split
  · next h => exact transWalk_mono ts p fwd n stack seen x (by simpa using h)
  · exact transWalk_mono ts p fwd n _ _ x (List.mem_append_right _ (List.mem_singleton.mpr rfl))

theorem mem_stepNodes {ts : List Triple} {p : Nat} {fwd : Bool} {x y : Nat} (h : y ∈ stepNodes ts p fwd x) :
    ∃ t ∈ ts, t.2.1 = p ∧ y = (if fwd then t.2.2 else t.1) := by
  unfold stepNodes at h
  cases fwd with
  | true =>
    simp only [if_true, List.mem_map, List.mem_filter, Bool.and_eq_true, beq_iff_eq] at h
    obtain ⟨t, ⟨ht, _, hp⟩, rfl⟩ := h
    exact ⟨t, ht, hp, rfl⟩
  | false =>
    simp only [Bool.false_eq_true, if_false, List.mem_map, List.mem_filter, Bool.and_eq_true, beq_iff_eq] at h
    obtain ⟨t, ⟨ht, _, hp⟩, rfl⟩ := h
    exact ⟨t, ht, hp, rfl⟩

/-- everything the walk yields is the start (on the stack), was remembered before, or is a `p`-neighbour of some triple -/
theorem transWalk_sound (ts : List Triple) (p : Nat) (fwd : Bool) :
    ∀ (n : Nat) (stack seen : List Nat) (y : Nat), y ∈ transWalk ts p fwd n stack seen →
      y ∈ seen ∨ y ∈ stack ∨ ∃ t ∈ ts, t.2.1 = p ∧ y = (if fwd then t.2.2 else t.1)
  | 0, _, _, _, h => Or.inl h
  | _ + 1, [], _, _, h => Or.inl h
  | n + 1, x :: stack, seen, y, h => by
    unfold transWalk at h
    split at h
    · rcases transWalk_sound ts p fwd n stack seen y h with h1 | h1 | h1
      · exact Or.inl h1
      · exact Or.inr (Or.inl (List.mem_cons_of_mem _ h1))
      · exact Or.inr (Or.inr h1)
    · rcases transWalk_sound ts p fwd n _ _ y h with h1 | h1 | h1
      · rcases List.mem_append.mp h1 with h2 | h2
        · exact Or.inl h2
        · exact Or.inr (Or.inl (by rw [List.mem_singleton.mp h2]; exact List.mem_cons_self))
      · rcases List.mem_append.mp h1 with h2 | h2
        · exact Or.inr (Or.inr (mem_stepNodes h2))
        · exact Or.inr (Or.inl (List.mem_cons_of_mem _ h2))
      · exact Or.inr (Or.inr h1)

/-- every node is yielded once (`remember`) -/
theorem transWalk_nodup (ts : List Triple) (p : Nat) (fwd : Bool) :
    ∀ (n : Nat) (stack seen : List Nat), seen.Nodup → (transWalk ts p fwd n stack seen).Nodup
  | 0, _, _, h => h
  | _ + 1, [], _, h => h
  | n + 1, x :: stack, seen, h => by
    unfold transWalk
    split
    · exact transWalk_nodup ts p fwd n stack seen h
    · next hx =>
      have hx' : x ∉ seen := by simpa using hx
      have : (seen ++ [x]).Nodup := by
        rw [← sinsert_of_not_mem hx']
        exact nodup_sinsert h
      exact transWalk_nodup ts p fwd n _ _ this

end RV.C13
