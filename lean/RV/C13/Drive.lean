import RV.C13.Model
import RV.Base.Proto
/-
  C13 driver.  Terms are naturals owned by the harness; graph tokens: `d` = the default graph of the
  configuration, `iN` = IRI-named graph N, `bN` = blank-node-named graph N.
    reset <cfg>              -> ok    cfg ∈ ds | dsu | cg | cgd | g | view
    quad s p o <g>           -> ok    (Memory.add: indexes the quad and registers the graph)
    reg <g>                  -> ok    (Memory.add_graph)
    read pure                -> ok    iteration / pattern / len / flat serializers / paths / cbd
    read copy                -> ok    compare functions, set operators (work on copies)
    read ctxs | trig | jsonld | jsonldbuggy | graphs
    read query <gvar 0|1> <f:g|n:g,…|-> <load 0|1>     dataset clause in order; i50/i51 = loadable documents
    read contains4 <g> <how 0|1> | quads4 <g> <how> | triples4 <g> <how> | triplesctx <g>
    foreign <g> s p o        -> ok    `_graph(foreign graph)`: the documented WRITE (not a ReadOp)
    obs                      -> `s,p,o,g … | names…`   (unsorted; the harness sorts both sides)
-/
open RV RV.C13 RV.Proto

def showG (s : State) (g : GName) : String :=
  if g = s.dname then "d" else
  match g with
  | .dflt => "D"
  | .iri n => "i" ++ toString n
  | .bnode n => "b" ++ toString n

def gname? (s : State) (w : String) : Option GName :=
  if w = "d" then some s.dname
  else if w.startsWith "i" then (w.drop 1).toNat?.map GName.iri
  else if w.startsWith "b" then (w.drop 1).toNat?.map GName.bnode
  else none

def clause? (s : State) (w : String) : Option Clause :=
  if w.startsWith "f:" then (gname? s (w.drop 2).toString).map Clause.dflt
  else if w.startsWith "n:" then (gname? s (w.drop 2).toString).map Clause.named
  else none

def clauses? (s : State) (w : String) : Option (List Clause) :=
  if w = "-" then some [] else (w.splitOn ",").mapM (clause? s)

/-- the documents harness/c13.py writes: i50 = a.ttl, i51 = b.nt load; i52 (ill-formed), i53 (missing) and
    every other IRI do not -/
def harnessDocs : GName → Option (List Triple)
  | .iri 50 => some [(2, 10, 3), (1, 11, 24)]
  | .iri 51 => some [(3, 10, 23), (2, 11, 28)]
  | _ => none

def showState (s : State) : String :=
  " ".intercalate (s.quads.map (fun q => showNats [q.1.1, q.1.2.1, q.1.2.2] ++ "," ++ showG s q.2))
    ++ " | " ++ " ".intercalate (s.graphNames.map (showG s))

def init? (cfg : String) : Option State :=
  if cfg = "ds" ∨ cfg = "view" then some ⟨[], [], false, true, .dflt⟩
  else if cfg = "dsu" then some ⟨[], [], true, true, .dflt⟩
  else if cfg = "cg" then some ⟨[], [], true, false, .bnode 999⟩
  else if cfg = "cgd" then some ⟨[], [], true, false, .dflt⟩
  else if cfg = "g" then some ⟨[], [], false, false, .iri 999⟩
  else none

def ctxArg (g : GName) (how : String) : Option CtxArg :=
  if how = "0" then some (.ident g) else if how = "1" then some (.view g) else none

def anyPat : Pat := (none, none, none)

def readOp? (s : State) : List String → Option ReadOp
  | ["pure"] => some .iter
  | ["copy"] => some (.canonical s.dname id)
  | ["ctxs"] => some .serializeCtxs
  | ["trig"] => some .serializeTrig
  | ["jsonld"] => some .serializeJsonld
  | ["graphs"] => some .graphs
  | ["query", gv, cl, lg] => do
    let cl ← clauses? s cl
    pure (.query ⟨cl, gv = "1", lg = "1", harnessDocs, fun _ => []⟩)
  | ["contains4", g, how] => do let g ← gname? s g; let c ← ctxArg g how; pure (.contains4 anyPat c)
  | ["quads4", g, how] => do let g ← gname? s g; let c ← ctxArg g how; pure (.quads4 anyPat c)
  | ["triples4", g, how] => do let g ← gname? s g; let c ← ctxArg g how; pure (.triples4 anyPat c)
  | ["triplesctx", g] => do let g ← gname? s g; pure (.triplesCtx anyPat g)
  | _ => none

def step (s : State) : List String → State × String
  | ["reset", cfg] =>
    match init? cfg with
    | some s0 => (s0, "ok")
    | none => (s, "bad-op")
  | ["quad", a, b, c, g] =>
    match a.toNat?, b.toNat?, c.toNat?, gname? s g with
    | some a, some b, some c, some g => (s.add ((a, b, c), g), "ok")
    | _, _, _, _ => (s, "bad-op")
  | ["reg", g] =>
    match gname? s g with
    | some g => (s.register g, "ok")
    | none => (s, "bad-op")
  | ["foreign", g, a, b, c] =>
    match a.toNat?, b.toNat?, c.toNat?, gname? s g with
    | some a, some b, some c, some g => (s.graphForeign g [(a, b, c)], "ok")
    | _, _, _, _ => (s, "bad-op")
  | ["obs"] => (s, showState s)
  | "read" :: "jsonldbuggy" :: [] => ((s.serializeJsonldBuggy).1, "ok")
  | "read" :: rest =>
    match readOp? s rest with
    | some r => ((s.run r).1, "ok")
    | none => (s, "bad-op")
  | _ => (s, "bad-op")

def main : IO Unit := RV.Proto.run step (⟨[], [], false, true, .dflt⟩ : State)
