import RV.C13.Model
import RV.Base.Proto
/-
  C13 driver.  Terms are naturals owned by the harness; graph tokens: `d` = the default graph of the
  configuration, `iN` = IRI-named graph N, `bN` = blank-node-named graph N.
    reset <cfg>              -> ok    cfg ∈ ds | dsu | cg | cgd | g | view
    quad s p o <g>           -> ok    (Memory.add: indexes the quad and registers the graph)
    reg <g>                  -> ok    (Memory.add_graph)
    read pure                -> ok    iteration / pattern / len / paths
    read flat | turtle | longturtle <canon 0|1> | xml | prettyxml <max_depth> | patch | patchtarget
    read skolemize | qname <term> | cbd <node>
    read copy                -> ok    compare functions, set operators (work on copies)
    read ctxs | trig | jsonld | jsonldbuggy | graphs
    read query <gvar 0|1> <f:g|n:g,…|-> <load 0|1> <kind s|a|c|d> <GRAPH consts g,…|-> <dgUnion 0|1> <body spo|s|gspo|x>
                                      dataset clause in order; i50/i51 = loadable documents
    read contains4 <g> <how 0|1> <s p o> | quads4 … | triples4 … | triplesctx <g> <s p o>     (`*` = wildcard)
    read len | iter | triples <s p o> | contains3 <s p o>
    read hext | trans <node> <p> <fwd 0|1> | iso <g1> <g2> | canon <g> | diff <g1> <g2>   (compare ops: ground graphs)
    read agglen <g,g,…> | aggtriples <g,…> <s p o> | aggcontains … | aggquads …     ReadOnlyGraphAggregate over views
    foreign <g> s p o        -> ok    `_graph(foreign graph)`: the documented WRITE (not a ReadOp)
    obs                      -> `s,p,o,g … | names… | bound namespace ids…`   (unsorted; the harness sorts both sides)
  round g:
    nsof <term> <ns>         -> ok    the namespace id of an IRI term (table owned by the harness)
    bind <ns>                -> ok    NamespaceManager.bind before the reads
    dgbase <ns>              -> ok    Dataset(default_graph_base=<the IRI of namespace ns>); `obs` prints it as a 4th part
    view <g>                 -> ok    the reads go through `ds.get_context(g)` (State.runView)
    readv <g> <read…>        ->       ONE read through the view of <g> (e.g. `ds.default_graph.serialize(…)`)
    read turtle <base ns|-> | longturtle <canon> <base> | trig <base>
                                      base = the namespace the `base=` option makes relative (no getQName there)
    every `read …` answers the rendered skeleton output (`Out`), the harness compares the ones it can observe
-/
open RV RV.C13 RV.Proto

def showG (s : State) (g : GName) : String :=
  if g = s.dname then "d" else
  match g with
  | .dflt => "D"
  | .iri n => "i" ++ toString n
  | .bnode n => "b" ++ toString n

def gname? (s : State) (w : String) : Option GName :=
  if w = "d" then some s.dname
  else if w.startsWith "i" then (w.drop 1).toNat?.map GName.iri
  else if w.startsWith "b" then (w.drop 1).toNat?.map GName.bnode
  else none

def gnames? (s : State) (w : String) : Option (List GName) :=
  if w = "-" then some [] else (w.splitOn ",").mapM (gname? s)

def qkind? (w : String) : Option QKind :=
  if w = "s" then some .select else if w = "a" then some .ask
  else if w = "c" then some (.construct (fun r => match r with | [a, b, c] => [(a, b, c)] | _ => []))   -- CONSTRUCT { ?s ?p ?o }
  else if w = "d" then some (.describe (fun x => 4 ≤ x && x ≤ 9))
  else none

/-- graph names inside result rows -/
def gcode : GName → Nat
  | .dflt => 0
  | .iri n => 100 + n
  | .bnode n => 200 + n

/-- the evaluation proper, for the query shapes the harness can observe exactly:
    spo  = `{ ?s ?p ?o }` projected to ?s ?p ?o;  s = the same projected to ?s (DESCRIBE ?s);
    gspo = `GRAPH ?g|<g> { ?s ?p ?o }` projected to ?g ?s ?p ?o;  x = anything else (answer not compared) -/
def body? (w : String) : Option (View → List (List Nat)) :=
  if w = "spo" then some (fun v => v.dflt.map (fun t => [t.1, t.2.1, t.2.2]))
  else if w = "s" then some (fun v => v.dflt.map (fun t => [t.1]))
  else if w = "gspo" then
    some (fun v => v.named.flatMap (fun b => b.2.map (fun t => [gcode b.1, t.1, t.2.1, t.2.2])))
  else if w = "x" then some (fun v => [v.dflt.map (·.1)])
  else none

/-- digest for GROUND graphs (no blank nodes: isomorphic = equal as sets): the sorted triples as one number -/
def digestEnc (ts : List Triple) : Nat :=
  (sortBy lexLt (ts.map (fun t => [t.1, t.2.1, t.2.2]))).foldl
    (fun a t => t.foldl (fun a x => a * 1000 + x + 1) a) 1

def pat? (a b c : String) : Option Pat := do
  let a ← optNat? a
  let b ← optNat? b
  let c ← optNat? c
  pure (a, b, c)

/-- driver state: the model state, the harness's term → namespace table, the view the reads go through -/
structure D where
  st : State
  nsTab : List (Nat × Nat)
  view : Option GName

def lookupNs : List (Nat × Nat) → Nat → Option Nat
  | [], _ => none
  | (t, n) :: rest, x => if t = x then some n else lookupNs rest x

/-- `nsOf` handed to the serializer models: the table, minus the namespace the `base=` option makes relative
    (`relativize(node) is not node`: the Turtle family writes `<rel>` and never calls `getQName`) -/
def drvNs (d : D) (base : Option Nat) (t : Nat) : Option Nat :=
  match lookupNs d.nsTab t with
  | none => none
  | some n => if base = some n then none else some n

def base? (w : String) : Option (Option Nat) :=
  if w = "-" then some none else w.toNat?.map some

def clause? (s : State) (w : String) : Option Clause :=
  if w.startsWith "f:" then (gname? s (w.drop 2).toString).map Clause.dflt
  else if w.startsWith "n:" then (gname? s (w.drop 2).toString).map Clause.named
  else none

def clauses? (s : State) (w : String) : Option (List Clause) :=
  if w = "-" then some [] else (w.splitOn ",").mapM (clause? s)

/-- the documents harness/c13.py writes: i50 = a.ttl, i51 = b.nt load; i52 (ill-formed), i53 (missing) and
    every other IRI do not -/
def harnessDocs : GName → Option (List Triple)
  | .iri 50 => some [(2, 10, 3), (1, 11, 24)]
  | .iri 51 => some [(3, 10, 23), (2, 11, 28)]
  | _ => none

def showState (s : State) : String :=
  " ".intercalate (s.quads.map (fun q => showNats [q.1.1, q.1.2.1, q.1.2.2] ++ "," ++ showG s q.2))
    ++ " | " ++ " ".intercalate (s.graphNames.map (showG s))
    ++ " | " ++ " ".intercalate (s.ns.map toString)
    ++ " | " ++ (match s.dgBase with | none => "-" | some b => toString b)

def showT (t : Triple) : String := showNats [t.1, t.2.1, t.2.2]

def showOut (s : State) : Out → String
  | .triples ts => "T " ++ " ".intercalate (ts.map showT)
  | .quads qs => "Q " ++ " ".intercalate (qs.map (fun q => showT q.1 ++ "," ++ showG s q.2))
  | .blocks bs => "B " ++ " ".intercalate (bs.map (fun b => showG s b.1 ++ ":" ++ ";".intercalate (b.2.map showT)))
  | .names gs => "N " ++ " ".intercalate (gs.map (showG s))
  | .bool b => if b then "b 1" else "b 0"
  | .nat n => "n " ++ toString n
  | .rows rs => "R " ++ " ".intercalate (rs.map showNats)
  | .pairs ps => "P " ++ " ".intercalate (ps.map (fun p => showNats [p.1, p.2]))
  | .err => "E"

def init? (cfg : String) : Option State :=
  if cfg = "ds" ∨ cfg = "view" then some ⟨[], [], false, true, .dflt, [], none⟩
  else if cfg = "dsu" then some ⟨[], [], true, true, .dflt, [], none⟩
  else if cfg = "cg" then some ⟨[], [], true, false, .bnode 999, [], none⟩
  else if cfg = "cgd" then some ⟨[], [], true, false, .dflt, [], none⟩
  else if cfg = "g" then some ⟨[], [], false, false, .iri 999, [], none⟩
  else none

def ctxArg (g : GName) (how : String) : Option CtxArg :=
  if how = "0" then some (.ident g) else if how = "1" then some (.view g) else none

def anyPat : Pat := (none, none, none)

def readOp? (d : D) (s : State) : List String → Option ReadOp
  | ["pure"] => some .iter
  | ["copy"] => some (.canonical s.dname id)
  | ["ctxs"] => some .serializeCtxs
  | ["trig", b] => (base? b).map (fun b => .serializeTrig (drvNs d b))
  | ["flat"] => some .serializeFlat
  | ["turtle", b] => (base? b).map (fun b => .serializeTurtle (drvNs d b))
  | ["longturtle", c, b] => (base? b).map (fun b =>
      .serializeLongTurtle (drvNs d b) (c = "1") (fun ts => ts.map (fun t => (t.1 + 1000, t.2.1, t.2.2))))
  | ["xml"] => some (.serializeXml (drvNs d none))
  | ["prettyxml", k] => k.toNat?.map (fun k => .serializePrettyXml (drvNs d none) 12 k)
  | ["patch"] => some .serializePatch
  | ["patchtarget"] => some (.serializePatchTarget (((2, 10, 3), .iri 1) :: ((3, 15, 20), .dflt) :: s.quads.drop 1))
  | ["skolemize"] => some (.skolemize (· + 1000))
  | ["qname", t] => t.toNat?.map (fun t => .qname (drvNs d none) t)
  | ["cbd", n] => n.toNat?.map (fun n => .cbd n (fun x => 4 ≤ x && x ≤ 9))
  | ["jsonld"] => some .serializeJsonld
  | ["graphs"] => some .graphs
  | ["query", gv, cl, lg, kind, consts, dgu, body] => do
    let cl ← clauses? s cl
    let consts ← gnames? s consts
    let k ← qkind? kind
    let b ← body? body
    pure (.query ⟨cl, gv = "1", consts, lg = "1", harnessDocs, b, k, dgu = "1"⟩)
  | ["agglen", gs] => (gnames? s gs).map .aggLen
  | ["aggtriples", gs, a, b, c] => do let gs ← gnames? s gs; let p ← pat? a b c; pure (.aggTriples gs p)
  | ["aggcontains", gs, a, b, c] => do let gs ← gnames? s gs; let p ← pat? a b c; pure (.aggContains gs p)
  | ["aggquads", gs, a, b, c] => do let gs ← gnames? s gs; let p ← pat? a b c; pure (.aggQuads gs p)
  | ["hext"] => some .serializeHext
  | ["trans", x, p, f] => do let x ← x.toNat?; let p ← p.toNat?; pure (.transitive x p (f = "1"))
  | ["iso", a, b] => do let a ← gname? s a; let b ← gname? s b; pure (.isomorphic a b digestEnc)
  | ["canon", a] => (gname? s a).map (fun a => .canonical a id)
  | ["diff", a, b] => do let a ← gname? s a; let b ← gname? s b; pure (.diff a b id)
  | ["len"] => some .len
  | ["iter"] => some .iter
  | ["triples", a, b, c] => (pat? a b c).map .slice
  | ["contains3", a, b, c] => (pat? a b c).map .contains3
  | ["contains4", g, how, a, b, c] => do
    let g ← gname? s g; let c' ← ctxArg g how; let p ← pat? a b c; pure (.contains4 p c')
  | ["quads4", g, how, a, b, c] => do
    let g ← gname? s g; let c' ← ctxArg g how; let p ← pat? a b c; pure (.quads4 p c')
  | ["triples4", g, how, a, b, c] => do
    let g ← gname? s g; let c' ← ctxArg g how; let p ← pat? a b c; pure (.triples4 p c')
  | ["triplesctx", g, a, b, c] => do let g ← gname? s g; let p ← pat? a b c; pure (.triplesCtx p g)
  | _ => none

def stepSt (d : D) (s : State) : List String → Option (State × String)
  | ["reset", cfg] => (init? cfg).map (fun s0 => (s0, "ok"))
  | ["quad", a, b, c, g] =>
    match a.toNat?, b.toNat?, c.toNat?, gname? s g with
    | some a, some b, some c, some g => some (s.add ((a, b, c), g), "ok")
    | _, _, _, _ => none
  | ["reg", g] => (gname? s g).map (fun g => (s.register g, "ok"))
  | ["bind", n] => n.toNat?.map (fun n => (s.bindNs n, "ok"))
  | ["dgbase", n] => n.toNat?.map (fun n => ({ s with dgBase := some n }, "ok"))   -- Dataset(default_graph_base=…)
  | ["foreign", g, a, b, c] =>
    match a.toNat?, b.toNat?, c.toNat?, gname? s g with
    | some a, some b, some c, some g => some (s.graphForeign g [(a, b, c)], "ok")
    | _, _, _, _ => none
  | ["obs"] => some (s, showState s)
  | "read" :: "jsonldbuggy" :: [] => some ((s.serializeJsonldBuggy).1, "ok")
  | "readv" :: g :: rest =>          -- one read through `ds.get_context(g)` / the dataset's own default graph object
    match gname? s g with
    | none => none
    | some g => (readOp? d (s.asView g) rest).map (fun r => ((s.runView g r).1, showOut s (s.runView g r).2))
  | "read" :: rest =>
    match d.view with
    | none => (readOp? d s rest).map (fun r => ((s.run r).1, showOut s (s.run r).2))
    | some g => (readOp? d (s.asView g) rest).map (fun r => ((s.runView g r).1, showOut s (s.runView g r).2))
  | _ => none

def step (d : D) : List String → D × String
  | ["nsof", t, n] =>
    match t.toNat?, n.toNat? with
    | some t, some n => ({ d with nsTab := (t, n) :: d.nsTab }, "ok")
    | _, _ => (d, "bad-op")
  | ["view", g] =>
    match gname? d.st g with
    | some g => ({ d with view := some g }, "ok")
    | none => (d, "bad-op")
  | ["reset", cfg] =>
    match init? cfg with
    | some s0 => (⟨s0, [], none⟩, "ok")
    | none => (d, "bad-op")
  | ws =>
    match stepSt d d.st ws with
    | some (s', o) => ({ d with st := s' }, o)
    | none => (d, "bad-op")

def main : IO Unit := RV.Proto.run step (⟨⟨[], [], false, true, .dflt, [], none⟩, [], none⟩ : D)
