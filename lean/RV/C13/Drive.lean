import RV.C13.Model
import RV.Base.Proto
/-
  C13 driver.  Terms are naturals owned by the harness; graph tokens: `d` = the default graph of the
  configuration, `iN` = IRI-named graph N, `bN` = blank-node-named graph N.
    reset <cfg>              -> ok    cfg ∈ ds | dsu | cg | cgd | g | view
    quad s p o <g>           -> ok    (Memory.add: indexes the quad and registers the graph)
    reg <g>                  -> ok    (Memory.add_graph)
    read pure                -> ok    iteration / pattern / len / paths
    read flat | turtle | longturtle <canon 0|1> | xml | prettyxml <max_depth> | patch | patchtarget
    read skolemize | qname <term> | cbd <node>
    read copy                -> ok    compare functions, set operators (work on copies)
    read ctxs | trig | jsonld | jsonldbuggy | graphs
    read query <gvar 0|1> <f:g|n:g,…|-> <load 0|1> <kind s|a|c|d> <GRAPH consts g,…|->
                                      dataset clause in order; i50/i51 = loadable documents
    read contains4 <g> <how 0|1> | quads4 <g> <how> | triples4 <g> <how> | triplesctx <g>
    foreign <g> s p o        -> ok    `_graph(foreign graph)`: the documented WRITE (not a ReadOp)
    obs                      -> `s,p,o,g … | names…`   (unsorted; the harness sorts both sides)
-/
open RV RV.C13 RV.Proto

def showG (s : State) (g : GName) : String :=
  if g = s.dname then "d" else
  match g with
  | .dflt => "D"
  | .iri n => "i" ++ toString n
  | .bnode n => "b" ++ toString n

def gname? (s : State) (w : String) : Option GName :=
  if w = "d" then some s.dname
  else if w.startsWith "i" then (w.drop 1).toNat?.map GName.iri
  else if w.startsWith "b" then (w.drop 1).toNat?.map GName.bnode
  else none

def gnames? (s : State) (w : String) : Option (List GName) :=
  if w = "-" then some [] else (w.splitOn ",").mapM (gname? s)

def qkind? (w : String) : Option QKind :=
  if w = "s" then some .select else if w = "a" then some .ask
  else if w = "c" then some (.construct (fun r => r.map (fun x => (x, 10, x))))
  else if w = "d" then some (.describe (fun x => 4 ≤ x && x ≤ 9))
  else none

/-- namespaces as the driver sees them: every predicate / class id is its own namespace -/
def drvNs (t : Nat) : Option Nat := if 10 ≤ t && t ≤ 29 then some t else none

def clause? (s : State) (w : String) : Option Clause :=
  if w.startsWith "f:" then (gname? s (w.drop 2).toString).map Clause.dflt
  else if w.startsWith "n:" then (gname? s (w.drop 2).toString).map Clause.named
  else none

def clauses? (s : State) (w : String) : Option (List Clause) :=
  if w = "-" then some [] else (w.splitOn ",").mapM (clause? s)

/-- the documents harness/c13.py writes: i50 = a.ttl, i51 = b.nt load; i52 (ill-formed), i53 (missing) and
    every other IRI do not -/
def harnessDocs : GName → Option (List Triple)
  | .iri 50 => some [(2, 10, 3), (1, 11, 24)]
  | .iri 51 => some [(3, 10, 23), (2, 11, 28)]
  | _ => none

def showState (s : State) : String :=
  " ".intercalate (s.quads.map (fun q => showNats [q.1.1, q.1.2.1, q.1.2.2] ++ "," ++ showG s q.2))
    ++ " | " ++ " ".intercalate (s.graphNames.map (showG s))

def init? (cfg : String) : Option State :=
  if cfg = "ds" ∨ cfg = "view" then some ⟨[], [], false, true, .dflt, []⟩
  else if cfg = "dsu" then some ⟨[], [], true, true, .dflt, []⟩
  else if cfg = "cg" then some ⟨[], [], true, false, .bnode 999, []⟩
  else if cfg = "cgd" then some ⟨[], [], true, false, .dflt, []⟩
  else if cfg = "g" then some ⟨[], [], false, false, .iri 999, []⟩
  else none

def ctxArg (g : GName) (how : String) : Option CtxArg :=
  if how = "0" then some (.ident g) else if how = "1" then some (.view g) else none

def anyPat : Pat := (none, none, none)

def readOp? (s : State) : List String → Option ReadOp
  | ["pure"] => some .iter
  | ["copy"] => some (.canonical s.dname id)
  | ["ctxs"] => some .serializeCtxs
  | ["trig"] => some (.serializeTrig drvNs)
  | ["flat"] => some .serializeFlat
  | ["turtle"] => some (.serializeTurtle drvNs)
  | ["longturtle", c] => some (.serializeLongTurtle drvNs (c = "1") (fun ts => ts.map (fun t => (t.1 + 1000, t.2.1, t.2.2))))
  | ["xml"] => some (.serializeXml drvNs)
  | ["prettyxml", d] => d.toNat?.map (fun d => .serializePrettyXml drvNs 12 d)
  | ["patch"] => some .serializePatch
  | ["patchtarget"] => some (.serializePatchTarget (((2, 10, 3), .iri 1) :: ((3, 15, 20), .dflt) :: s.quads.drop 1))
  | ["skolemize"] => some (.skolemize (· + 1000))
  | ["qname", t] => t.toNat?.map (fun t => .qname drvNs t)
  | ["cbd", n] => n.toNat?.map (fun n => .cbd n (fun x => 4 ≤ x && x ≤ 9))
  | ["jsonld"] => some .serializeJsonld
  | ["graphs"] => some .graphs
  | ["query", gv, cl, lg, kind, consts] => do
    let cl ← clauses? s cl
    let consts ← gnames? s consts
    let k ← qkind? kind
    pure (.query ⟨cl, gv = "1", consts, lg = "1", harnessDocs, fun v => [v.dflt.map (·.1)], k⟩)
  | ["contains4", g, how] => do let g ← gname? s g; let c ← ctxArg g how; pure (.contains4 anyPat c)
  | ["quads4", g, how] => do let g ← gname? s g; let c ← ctxArg g how; pure (.quads4 anyPat c)
  | ["triples4", g, how] => do let g ← gname? s g; let c ← ctxArg g how; pure (.triples4 anyPat c)
  | ["triplesctx", g] => do let g ← gname? s g; pure (.triplesCtx anyPat g)
  | _ => none

def step (s : State) : List String → State × String
  | ["reset", cfg] =>
    match init? cfg with
    | some s0 => (s0, "ok")
    | none => (s, "bad-op")
  | ["quad", a, b, c, g] =>
    match a.toNat?, b.toNat?, c.toNat?, gname? s g with
    | some a, some b, some c, some g => (s.add ((a, b, c), g), "ok")
    | _, _, _, _ => (s, "bad-op")
  | ["reg", g] =>
    match gname? s g with
    | some g => (s.register g, "ok")
    | none => (s, "bad-op")
  | ["foreign", g, a, b, c] =>
    match a.toNat?, b.toNat?, c.toNat?, gname? s g with
    | some a, some b, some c, some g => (s.graphForeign g [(a, b, c)], "ok")
    | _, _, _, _ => (s, "bad-op")
  | ["obs"] => (s, showState s)
  | "read" :: "jsonldbuggy" :: [] => ((s.serializeJsonldBuggy).1, "ok")
  | "read" :: rest =>
    match readOp? s rest with
    | some r => ((s.run r).1, "ok")
    | none => (s, "bad-op")
  | _ => (s, "bad-op")

def main : IO Unit := RV.Proto.run step (⟨[], [], false, true, .dflt, []⟩ : State)
