import RV.C13.Props
open RV.C13
#print axioms placeholder
