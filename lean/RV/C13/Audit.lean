import RV.C13.Props
open RV.C13
#print axioms read_frame
#print axioms read_deterministic
#print axioms frame_compose
#print axioms read_after_reads_same
#print axioms namespaces_may_grow
#print axioms same_store_view_is_noop
#print axioms wf_reachable
#print axioms jsonld_buggy_breaks_frame
#print axioms foreign_graph_copy_is_write
#print axioms skolemize_into_same_store_is_write
#print axioms namespaces_exact
#print axioms view_read_frame
#print axioms aggregate_reads
#print axioms bindings_idempotent
#print axioms read_frame_attributes
#print axioms transitive_walk
