import RV.C12.Lemmas
import RV.C12.PLemmas
import RV.C12.N3Lemmas
/-
  C12 — "Parsing only adds, and blank nodes of separate documents never merge."

  Specification (simplest possible): the RDF merge.  `IsMerge d into doc res` — `res` is the old
  content together with `rename σ doc` for some assignment `σ` of the document's labels to nodes
  that is injective and whose values are not nodes of the old content (nor the graph parsed into).
  The model (`Model.lean`) is the one-pass label-map algorithm of the parsers.
-/
namespace RV.C12

/-- `res` is the RDF merge of the old content `d` and the document -/
def IsMerge (d : DS) (into : T) (doc : Doc) (res : List Quad) : Prop :=
  ∃ σ : Lbl → Nat, InjOn σ doc ∧
    (∀ l, Doc.has doc l → ¬ HasNode d.quads (σ l) ∧ into ≠ .bn (σ l)) ∧
    SetEq res (d.quads ++ rename σ into doc)

/-! ### Statements -/

/-- Whatever the parser's label policy: every old quad is still there (a quad carries its graph, so
    this is per graph), and whatever else is there is the image of a statement of the document
    under one assignment of its labels. -/
def Statement_parse_only_adds : Prop :=
  ∀ (d : DS) (pol : Policy) (into : T) (doc : Doc),
    (∀ q, q ∈ d.quads → q ∈ (parseInto d pol into doc).quads) ∧
    (∃ σ : Lbl → Nat, ∀ q, q ∈ (parseInto d pol into doc).quads → q ∈ d.quads ∨ q ∈ rename σ into doc)

/-- Full strength: for every parser (label policy), parsing into a target with content gives the RDF merge. -/
def Statement_parse_is_merge : Prop :=
  ∀ (pol : Policy) (d : DS) (into : T) (doc : Doc), WF d → IntoOK d into →
    IsMerge d into doc (parseInto d pol into doc).quads

/-- The part that holds: parsers with a per-call label map (`remap`: N-Triples, N-Quads, Turtle, N3,
    TriG, RDF/XML, and — after the C12 repairs — TriX and JSON-LD). -/
def Statement_parse_is_merge_remap : Prop :=
  ∀ (pol : Policy) (d : DS) (into : T) (doc : Doc), pol = .remap → WF d → IntoOK d into →
    IsMerge d into doc (parseInto d pol into doc).quads

/-- The freshness assumption is an invariant of parsing (any policy), so it holds along every history. -/
def Statement_wf_preserved : Prop :=
  ∀ (d : DS) (pol : Policy) (into : T) (doc : Doc), WF d → IntoOK d into → WF (parseInto d pol into doc)

/-- Two documents parsed one after the other: both are merged in, and no label of the first shares
    a node with a label of the second (whatever the label strings). -/
def Statement_two_docs_disjoint : Prop :=
  ∀ (d : DS) (into₁ into₂ : T) (doc₁ doc₂ : Doc), WF d → IntoOK d into₁ → IntoOK d into₂ →
    ∃ σ₁ σ₂ : Lbl → Nat,
      SetEq (parseInto (parseInto d .remap into₁ doc₁) .remap into₂ doc₂).quads
            (d.quads ++ rename σ₁ into₁ doc₁ ++ rename σ₂ into₂ doc₂) ∧
      InjOn σ₁ doc₁ ∧ InjOn σ₂ doc₂ ∧
      (∀ l₁ l₂, Doc.has doc₁ l₁ → Doc.has doc₂ l₂ → σ₁ l₁ ≠ σ₂ l₂) ∧
      (∀ l, Doc.has doc₁ l → ¬ HasNode d.quads (σ₁ l)) ∧ (∀ l, Doc.has doc₂ l → ¬ HasNode d.quads (σ₂ l))

/-- The same document twice: every label gets two different nodes. -/
def Statement_same_doc_twice_disjoint : Prop :=
  ∀ (d : DS) (into : T) (doc : Doc), WF d → IntoOK d into →
    ∃ σ₁ σ₂ : Lbl → Nat,
      SetEq (parseInto (parseInto d .remap into doc) .remap into doc).quads
            (d.quads ++ rename σ₁ into doc ++ rename σ₂ into doc) ∧
      (∀ l l', Doc.has doc l → Doc.has doc l' → σ₁ l ≠ σ₂ l')

/-- Inside one parse call a label is one node, wherever it occurs (subject, object, graph name, any
    graph block): the statements handed to the sink are the document's statements under ONE assignment. -/
def Statement_label_within_doc_one_node : Prop :=
  ∀ (f : Nat) (pol : Policy) (into : T) (doc : Doc),
    ∃ σ : Lbl → Nat, (parseDoc f pol into doc).2 = rename σ into doc

/-- A label that is spelled like the id of a node already in the target is still remapped. -/
def Statement_looks_like_generated_id_safe : Prop :=
  ∀ (d : DS) (into : T) (doc : Doc) (n : Nat), WF d → IntoOK d into → HasNode d.quads n → Doc.has doc (.named n) →
    ∃ σ : Lbl → Nat, SetEq (parseInto d .remap into doc).quads (d.quads ++ rename σ into doc) ∧ InjOn σ doc ∧
      σ (.named n) ≠ n ∧ ¬ HasNode d.quads (σ (.named n))

/-- The same document into two fresh targets: the results are isomorphic (π renames blank nodes,
    injectively on the nodes of the first result). -/
def Statement_fresh_graphs_iso : Prop :=
  ∀ (f₁ f₂ : Nat) (into : T) (doc : Doc), (∀ b, into ≠ .bn b) →
    ∃ π : Nat → Nat,
      (∀ b b', HasNode (parseInto ⟨[], f₁⟩ .remap into doc).quads b →
        HasNode (parseInto ⟨[], f₁⟩ .remap into doc).quads b' → π b = π b' → b = b') ∧
      SetEq ((parseInto ⟨[], f₁⟩ .remap into doc).quads.map (qmapT π)) (parseInto ⟨[], f₂⟩ .remap into doc).quads

/-- Any history of parse calls: nothing is ever removed, the freshness invariant holds at the end,
    and each single call is a merge with what was there at that moment. -/
def Statement_history : Prop :=
  ∀ (d : DS) (docs : List (T × Doc)), WF d → (∀ x ∈ docs, IntoOK d x.1) →
    (∀ q, q ∈ d.quads → q ∈ (parseAll d docs).quads) ∧ WF (parseAll d docs) ∧
    (∀ pre x post, docs = pre ++ x :: post →
      IsMerge (parseAll d pre) x.1 x.2 (parseAll d (pre ++ [x])).quads)

/-! ### Proofs -/

theorem parse_only_adds : Statement_parse_only_adds := by
  intro d pol into doc
  obtain ⟨_, hq, _, _, _⟩ := parse_facts d pol into doc
  exact ⟨fun q h => (hq q).mpr (Or.inl h), sigmaOf d pol into doc, fun q h => (hq q).mp h⟩

theorem parse_is_merge : Statement_parse_is_merge_remap := by
  intro pol d into doc hp hw hi
  subst hp
  obtain ⟨_, hq, _, _, _⟩ := parse_facts d .remap into doc
  obtain ⟨hr, hinj⟩ := remap_facts d into doc
  refine ⟨sigmaOf d .remap into doc, hinj, ?_, ?_⟩
  · intro l hl
    constructor
    · intro hn
      exact absurd (hw _ hn) (Nat.not_lt.mpr (hr l hl).1)
    · intro e
      exact absurd (hi _ e) (Nat.not_lt.mpr (hr l hl).1)
  · intro x
    rw [hq x, List.mem_append]

theorem wf_preserved : Statement_wf_preserved :=
  fun d pol into doc hw hi => wf_parseInto d pol into doc hw hi

theorem two_docs_disjoint : Statement_two_docs_disjoint := by
  intro d into₁ into₂ doc₁ doc₂ hw h1 _
  obtain ⟨hf1, hq1, _, _, _⟩ := parse_facts d .remap into₁ doc₁
  obtain ⟨_, hq2, _, _, _⟩ := parse_facts (parseInto d .remap into₁ doc₁) .remap into₂ doc₂
  obtain ⟨hr1, hinj1⟩ := remap_facts d into₁ doc₁
  obtain ⟨hr2, hinj2⟩ := remap_facts (parseInto d .remap into₁ doc₁) into₂ doc₂
  refine ⟨sigmaOf d .remap into₁ doc₁, sigmaOf (parseInto d .remap into₁ doc₁) .remap into₂ doc₂, ?_, hinj1, hinj2, ?_, ?_, ?_⟩
  · intro x
    rw [hq2 x, hq1 x, List.mem_append, List.mem_append]
  · intro l₁ l₂ hl₁ hl₂ e
    have a := (hr1 l₁ hl₁).2
    have b := (hr2 l₂ hl₂).1
    rw [e] at a
    exact absurd a (Nat.not_lt.mpr b)
  · intro l hl hn
    exact absurd (hw _ hn) (Nat.not_lt.mpr (hr1 l hl).1)
  · intro l hl hn
    exact absurd (hw _ hn) (Nat.not_lt.mpr (Nat.le_trans hf1 (hr2 l hl).1))

theorem same_doc_twice_disjoint : Statement_same_doc_twice_disjoint := by
  intro d into doc hw hi
  obtain ⟨σ₁, σ₂, h, _, _, hd, _, _⟩ := two_docs_disjoint d into into doc doc hw hi hi
  exact ⟨σ₁, σ₂, h, hd⟩

theorem label_within_doc_one_node : Statement_label_within_doc_one_node := by
  intro f pol into doc
  obtain ⟨_, _, _, r, _⟩ := emit_spec pol into doc ⟨f, []⟩ (mapInv_init f)
  exact ⟨_, r⟩

theorem looks_like_generated_id_safe : Statement_looks_like_generated_id_safe := by
  intro d into doc n hw hi hn hl
  obtain ⟨σ, hinj, hdis, heq⟩ := parse_is_merge .remap d into doc rfl hw hi
  refine ⟨σ, heq, hinj, ?_, (hdis _ hl).1⟩
  intro e
  apply (hdis _ hl).1
  rw [e]
  exact hn

theorem fresh_graphs_iso : Statement_fresh_graphs_iso := by
  intro f₁ f₂ into doc hinto
  obtain ⟨_, hq1, _, _, _⟩ := parse_facts ⟨[], f₁⟩ .remap into doc
  obtain ⟨_, hq2, _, _, _⟩ := parse_facts ⟨[], f₂⟩ .remap into doc
  obtain ⟨_, hinj1⟩ := remap_facts ⟨[], f₁⟩ into doc
  obtain ⟨_, hinj2⟩ := remap_facts ⟨[], f₂⟩ into doc
  have hπ : ∀ l, Doc.has doc l →
      transport (sigmaOf ⟨[], f₁⟩ .remap into doc) (sigmaOf ⟨[], f₂⟩ .remap into doc) (Doc.labels doc)
        (sigmaOf ⟨[], f₁⟩ .remap into doc l) = sigmaOf ⟨[], f₂⟩ .remap into doc l := by
    intro l hl
    apply transport_spec
    · intro a b ha hb e
      exact hinj1 a b (Doc.mem_labels.mp ha) (Doc.mem_labels.mp hb) e
    · exact Doc.mem_labels.mpr hl
  have hfix : tmapT (transport (sigmaOf ⟨[], f₁⟩ .remap into doc) (sigmaOf ⟨[], f₂⟩ .remap into doc) (Doc.labels doc)) into = into := by
    cases into with
    | iri n => rfl
    | lit n => rfl
    | bn b => exact absurd rfl (hinto b)
    | skol n => rfl
  refine ⟨transport (sigmaOf ⟨[], f₁⟩ .remap into doc) (sigmaOf ⟨[], f₂⟩ .remap into doc) (Doc.labels doc), ?_, ?_⟩
  · intro b b' ⟨q, hq, hn⟩ ⟨q', hq', hn'⟩ e
    rcases (hq1 q).mp hq with h | h
    · cases h
    rcases (hq1 q').mp hq' with h' | h'
    · cases h'
    obtain ⟨dq, hdq, rfl⟩ := List.mem_map.mp h
    obtain ⟨dq', hdq', rfl⟩ := List.mem_map.mp h'
    rcases hasNode_qren hn with ⟨l, hl, rfl⟩ | hb
    · rcases hasNode_qren hn' with ⟨l', hl', rfl⟩ | hb'
      · rw [hπ l ⟨dq, hdq, hl⟩, hπ l' ⟨dq', hdq', hl'⟩] at e
        rw [hinj2 l l' ⟨dq, hdq, hl⟩ ⟨dq', hdq', hl'⟩ e]
      · exact absurd hb' (hinto _)
    · exact absurd hb (hinto _)
  · intro x
    rw [hq2 x, List.mem_map]
    constructor
    · rintro ⟨y, hy, rfl⟩
      rcases (hq1 y).mp hy with h | h
      · cases h
      obtain ⟨dq, hdq, rfl⟩ := List.mem_map.mp h
      right
      rw [qmapT_qren (fun l hl => hπ l ⟨dq, hdq, hl⟩) hfix]
      exact List.mem_map.mpr ⟨dq, hdq, rfl⟩
    · rintro (h | h)
      · cases h
      obtain ⟨dq, hdq, rfl⟩ := List.mem_map.mp h
      refine ⟨qren (sigmaOf ⟨[], f₁⟩ .remap into doc) into dq, (hq1 _).mpr (Or.inr (List.mem_map.mpr ⟨dq, hdq, rfl⟩)), ?_⟩
      exact qmapT_qren (fun l hl => hπ l ⟨dq, hdq, hl⟩) hfix

theorem history : Statement_history := by
  intro d docs hw hi
  obtain ⟨h1, _, h3⟩ := parseAll_facts docs d hw hi
  refine ⟨h3, h1, ?_⟩
  intro pre x post e
  subst e
  have hipre : ∀ y ∈ pre, IntoOK d y.1 := fun y hy => hi y (List.mem_append_left _ hy)
  obtain ⟨hwp, hfp, _⟩ := parseAll_facts pre d hw hipre
  have hix : IntoOK (parseAll d pre) x.1 :=
    fun b hb => Nat.lt_of_lt_of_le (hi x (List.mem_append_right _ List.mem_cons_self) b hb) hfp
  rw [parseAll_append]
  exact parse_is_merge .remap (parseAll d pre) x.1 x.2 rfl hwp hix

/-! ### The negative result: `BNode(label)` parsers (hextuples today; TriX and JSON-LD before the repairs) -/

/-- two one-statement documents that both say `_:b0 <p> <o>` -/
def docB0 : Doc := [(.lab (.named 0), .iri 1, .iri 2, none)]

/-- with `verbatim`, parsing it twice leaves ONE statement about ONE node -/
theorem verbatim_shares_node :
    (parseInto (parseInto ⟨[], 1⟩ .verbatim (.iri 0) docB0) .verbatim (.iri 0) docB0).quads
      = [(.bn 0, .iri 1, .iri 2, .iri 0)] := by decide

/-- … whereas with `remap` there are two nodes -/
theorem remap_two_nodes :
    (parseInto (parseInto ⟨[], 1⟩ .remap (.iri 0) docB0) .remap (.iri 0) docB0).quads
      = [(.bn 1, .iri 1, .iri 2, .iri 0), (.bn 2, .iri 1, .iri 2, .iri 0)] := by decide

/-- so the full-strength statement is false: the verbatim policy does not compute the merge -/
theorem verbatim_not_merge : ¬ Statement_parse_is_merge := by
  intro h
  have hw : WF (parseInto ⟨[], 1⟩ .verbatim (.iri 0) docB0) :=
    wf_parseInto _ _ _ _ (fun b ⟨q, hq, _⟩ => by cases hq) (fun b hb => by cases hb)
  obtain ⟨σ, _, hdis, heq⟩ := h .verbatim (parseInto ⟨[], 1⟩ .verbatim (.iri 0) docB0) (.iri 0) docB0 hw
    (fun b hb => by cases hb)
  have hl : Doc.has docB0 (.named 0) := ⟨_, List.mem_singleton.mpr rfl, Or.inl rfl⟩
  have hmem := (heq (qren σ (.iri 0) (.lab (.named 0), .iri 1, .iri 2, none))).mpr
    (List.mem_append_right _ (List.mem_singleton.mpr rfl))
  rw [verbatim_shares_node] at hmem
  have hσ : σ (.named 0) = 0 := by
    have := List.mem_singleton.mp hmem
    simp only [qren, tren, gren, Prod.mk.injEq, T.bn.injEq] at this
    exact this.1
  apply (hdis _ hl).1
  rw [hσ]
  exact ⟨(.bn 0, .iri 1, .iri 2, .iri 0), by decide, Or.inl rfl⟩

/-- naming convention of BUILDING §3 for a statement the code falsifies: `_partial` / `_witness` -/
theorem parse_is_merge_partial : Statement_parse_is_merge_remap := parse_is_merge
theorem parse_is_merge_witness : ¬ Statement_parse_is_merge := verbatim_not_merge


/-! ### Round g — the parsers one by one (`Parsers.lean`), and the options that change label handling -/

/-- label `l` occurs in one of the documents -/
def HasAny (docs : List (T × Doc)) (l : Lbl) : Prop := ∃ x ∈ docs, Doc.has x.2 l

/-- Parser `p` called with options `c` (its own node function, as coded; an empty label dict at the start):
    the labels of the document go to nodes by ONE injective renaming whose values are not nodes of the old
    content — the target is the RDF merge of the old content and the statements the parser keeps
    (all of them, except JSON-LD's blank-node-predicate statements when `generalized_rdf` is off). -/
def Statement_labels_one_injective_renaming (p : Parser) (c : CallOpts) : Prop :=
  ∀ (d : DS) (into : T) (doc : Doc), WF d → IntoOK d into →
    IsMerge d into (keptDoc (genOf p c) doc) (parseWith p c d [] into doc).1.quads

/-- every parser, every option, any label dict handed in: every old quad stays (per graph: a quad carries its
    graph, `into` = default graph, IRI-named or blank-node-named graph), and whatever is new is the image of a
    kept statement of the document under one assignment of its labels -/
def Statement_parse_only_adds_every_parser : Prop :=
  ∀ (p : Parser) (c : CallOpts) (d : DS) (m0 : LMap) (f0 : Nat) (into : T) (doc : Doc), MapInv f0 ⟨d.fresh, m0⟩ →
    (∀ q, q ∈ d.quads → q ∈ (parseWith p c d m0 into doc).1.quads) ∧
    (∃ σ : Lbl → Nat, ∀ q, q ∈ (parseWith p c d m0 into doc).1.quads →
      q ∈ d.quads ∨ q ∈ renameO (loptsOf p c) σ into doc)

/-- … and the freshness invariant survives every such call -/
def Statement_wf_preserved_every_parser : Prop :=
  ∀ (p : Parser) (c : CallOpts) (d : DS) (m0 : LMap) (f0 : Nat) (into : T) (doc : Doc), MapInv f0 ⟨d.fresh, m0⟩ →
    WF d → IntoOK d into → WF (parseWith p c d m0 into doc).1

/-- `bnode_context=ctx` (N-Triples, N-Quads; also one N-Quads parser object used for several calls): the merge is
    replaced by exactly the sharing the caller asked for.  For a dict `ctx` whose entries are distinct existing ids,
    and any sequence of calls handing it on: there is ONE assignment σ for all the documents, it agrees with the
    entries the caller put in, it is injective over the labels of all the documents together (same label ⇔ same
    node, also across documents), labels the dict did not have go to nodes that are not in the old content, the
    target is the old content plus every document renamed by σ, and afterwards the dict holds σ. -/
def Statement_caller_shared_context_shares_exactly : Prop :=
  ∀ (d : DS) (ctx : LMap) (f0 : Nat) (docs : List (T × Doc)), WF d → MapInv f0 ⟨d.fresh, ctx⟩ →
    (∀ x ∈ docs, IntoOK d x.1) →
    ∃ σ : Lbl → Nat,
      (∀ l b, alookup ctx l = some b → σ l = b) ∧
      (∀ l l', HasAny docs l → HasAny docs l' → σ l = σ l' → l = l') ∧
      (∀ l, HasAny docs l → alookup ctx l = none → ¬ HasNode d.quads (σ l) ∧ ∀ x ∈ docs, x.1 ≠ .bn (σ l)) ∧
      SetEq (parseShared ⟨.remap, false, true⟩ d ctx docs).1.quads
            (d.quads ++ docs.flatMap (fun x => rename σ x.1 x.2)) ∧
      (∀ l, HasAny docs l → alookup (parseShared ⟨.remap, false, true⟩ d ctx docs).2 l = some (σ l))

/-- `preserve_bnode_ids=True` (RDF/XML, TriX): the parser is the `BNode(label)` parser -/
def Statement_preserve_bnode_ids_is_verbatim : Prop :=
  ∀ (p : Parser) (c : CallOpts) (d : DS) (into : T) (doc : Doc), (p = .xml ∨ p = .trix) → c.preserve = true →
    (parseWith p c d [] into doc).1 = parseInto d .verbatim into doc

/-- `skolemize=True` (N-Triples, N-Quads, JSON-LD, hextuples): no blank node is made — a blank node of a new quad
    can only be the graph parsed into — and a label's IRI depends on the label alone (σ is the identity on labels) -/
def Statement_skolemize_no_blank_nodes : Prop :=
  ∀ (p : Parser) (c : CallOpts) (d : DS) (into : T) (doc : Doc),
    (p = .nt ∨ p = .nquads ∨ p = .jsonld ∨ p = .hext) → c.skolemize = true →
    ∃ σ : Lbl → Nat, (∀ n, σ (.named n) = n) ∧
      (∀ q, q ∈ (parseWith p c d [] into doc).1.quads ↔ q ∈ d.quads ∨ q ∈ renameO (loptsOf p c) σ into doc) ∧
      (∀ q b, q ∈ renameO (loptsOf p c) σ into doc → Quad.hasNode q b → into = .bn b)

theorem remapping_one_injective_renaming (p : Parser) (c : CallOpts)
    (hp : (loptsOf p c).pol = .remap) (hs : (loptsOf p c).sk = false) :
    Statement_labels_one_injective_renaming p c := by
  intro d into doc hw hi
  rw [parseWith_eq, genOf_eq]
  obtain ⟨_, hq, _, hd, hm, _⟩ := parseO_facts (loptsOf p c) d [] into doc (mapInv_init d.fresh)
  have key : ∀ l, Doc.has (keptDoc (loptsOf p c).gen doc) l →
      alookup (parseO (loptsOf p c) d [] into doc).2 l
        = some (sigma (loptsOf p c).pol (parseO (loptsOf p c) d [] into doc).2 l) := by
    rintro l ⟨q, hqk, hl⟩
    have := hd q hqk l hl
    rw [hp] at this ⊢
    cases l <;> simp only [Def] at this <;> obtain ⟨b, hb⟩ := this <;> simp only [sigma, hb, Option.getD_some]
  refine ⟨sigma (loptsOf p c).pol (parseO (loptsOf p c) d [] into doc).2, ?_, ?_, ?_⟩
  · intro l l' hl hl' e
    have h1 := key l hl
    have h2 := key l' hl'
    rw [← e] at h2
    exact hm.inj l l' _ h1 h2
  · intro l hl
    have hr := (hm.range l _ (key l hl)).1
    exact ⟨fun hn => absurd (hw _ hn) (Nat.not_lt.mpr hr), fun e => absurd (hi _ e) (Nat.not_lt.mpr hr)⟩
  · intro x
    rw [hq x, List.mem_append, renameO_nosk hs]

theorem nt_labels_one_injective_renaming : Statement_labels_one_injective_renaming .nt CallOpts.default :=
  remapping_one_injective_renaming _ _ rfl rfl
theorem nquads_labels_one_injective_renaming : Statement_labels_one_injective_renaming .nquads CallOpts.default :=
  remapping_one_injective_renaming _ _ rfl rfl
theorem turtle_labels_one_injective_renaming : ∀ c, Statement_labels_one_injective_renaming .turtle c :=
  fun c => remapping_one_injective_renaming _ c rfl rfl
theorem n3_labels_one_injective_renaming : ∀ c, Statement_labels_one_injective_renaming .n3 c :=
  fun c => remapping_one_injective_renaming _ c rfl rfl
theorem trig_labels_one_injective_renaming : ∀ c, Statement_labels_one_injective_renaming .trig c :=
  fun c => remapping_one_injective_renaming _ c rfl rfl
theorem xml_labels_one_injective_renaming : Statement_labels_one_injective_renaming .xml CallOpts.default :=
  remapping_one_injective_renaming _ _ rfl rfl
theorem trix_labels_one_injective_renaming : Statement_labels_one_injective_renaming .trix CallOpts.default :=
  remapping_one_injective_renaming _ _ rfl rfl
/-- JSON-LD, `generalized_rdf` on or off (off: the merge is with the document minus its blank-node-predicate statements) -/
theorem jsonld_labels_one_injective_renaming :
    ∀ gen, Statement_labels_one_injective_renaming .jsonld ⟨false, false, gen⟩ :=
  fun gen => remapping_one_injective_renaming _ ⟨false, false, gen⟩ rfl rfl

/-- hextuples is the `BNode(label)` parser of `Model.lean` … -/
theorem hext_is_verbatim (d : DS) (into : T) (doc : Doc) :
    (parseWith .hext CallOpts.default d [] into doc).1 = parseInto d .verbatim into doc := by
  rw [parseWith_eq]
  simp only [parseO, loptsOf, CallOpts.default, emitO_plain, parseInto, parseDoc]

/-- … so the statement fails for it (known finding C12-K1) -/
theorem hext_labels_one_injective_renaming_witness :
    ¬ Statement_labels_one_injective_renaming .hext CallOpts.default := by
  intro h
  apply verbatim_not_merge
  intro pol d into doc hw hi
  cases pol with
  | remap => exact parse_is_merge .remap d into doc rfl hw hi
  | verbatim =>
    have := h d into doc hw hi
    rw [hext_is_verbatim] at this
    simpa [genOf, keptDoc_true] using this

theorem parse_only_adds_every_parser : Statement_parse_only_adds_every_parser := by
  intro p c d m0 f0 into doc hm
  rw [parseWith_eq]
  obtain ⟨_, hq, _, _, _, _⟩ := parseO_facts (loptsOf p c) d m0 into doc hm
  exact ⟨fun q h => (hq q).mpr (Or.inl h), _, fun q h => (hq q).mp h⟩

theorem wf_preserved_every_parser : Statement_wf_preserved_every_parser := by
  intro p c d m0 f0 into doc hm hw hi
  rw [parseWith_eq]
  exact wf_parseO _ d m0 into doc hm hw hi

theorem caller_shared_context_shares_exactly : Statement_caller_shared_context_shares_exactly := by
  intro d ctx f0 docs hw hm hi
  have hn : NewAbove ctx d.fresh ⟨d.fresh, ctx⟩ := ⟨Nat.le_refl _, fun l b h => Or.inl h⟩
  obtain ⟨_, _, a3, a4, a5, a6, a7⟩ := parseShared_facts ⟨.remap, false, true⟩ ctx d.fresh docs d ctx hw hm hn hi
  have key : ∀ l, HasAny docs l →
      alookup (parseShared ⟨.remap, false, true⟩ d ctx docs).2 l
        = some (sigma .remap (parseShared ⟨.remap, false, true⟩ d ctx docs).2 l) := by
    rintro l ⟨x, hx, q, hqd, hl⟩
    have := a6 x hx q (by rw [keptDoc_true]; exact hqd) l hl
    cases l <;> simp only [Def] at this <;> obtain ⟨b, hb⟩ := this <;> simp only [sigma, hb, Option.getD_some]
  refine ⟨sigma .remap (parseShared ⟨.remap, false, true⟩ d ctx docs).2, ?_, ?_, ?_, ?_, key⟩
  · intro l b hb
    have := a5 l b hb
    cases l <;> simp only [sigma, this, Option.getD_some]
  · intro l l' hl hl' e
    have h1 := key l hl
    have h2 := key l' hl'
    rw [← e] at h2
    exact a3.inj l l' _ h1 h2
  · intro l hl hnone
    have hr : d.fresh ≤ sigma .remap (parseShared ⟨.remap, false, true⟩ d ctx docs).2 l := by
      rcases a4.2 l _ (key l hl) with h | h
      · rw [hnone] at h; cases h
      · exact h
    exact ⟨fun hnode => absurd (hw _ hnode) (Nat.not_lt.mpr hr),
           fun x hx e => absurd (hi x hx _ e) (Nat.not_lt.mpr hr)⟩
  · intro y
    rw [a7 y, List.mem_append, List.mem_flatMap]
    constructor
    · rintro (h | ⟨x, hx, h⟩)
      · exact Or.inl h
      · rw [renameO_nosk rfl, keptDoc_true] at h; exact Or.inr ⟨x, hx, h⟩
    · rintro (h | ⟨x, hx, h⟩)
      · exact Or.inl h
      · refine Or.inr ⟨x, hx, ?_⟩
        rw [renameO_nosk rfl, keptDoc_true]; exact h

theorem preserve_bnode_ids_is_verbatim : Statement_preserve_bnode_ids_is_verbatim := by
  intro p c d into doc hp hc
  rw [parseWith_eq]
  obtain ⟨sk, pre, gen⟩ := c
  simp only at hc
  subst hc
  rcases hp with rfl | rfl <;>
    simp only [parseO, loptsOf, if_true, emitO_plain, parseInto, parseDoc]

theorem skolemize_no_blank_nodes : Statement_skolemize_no_blank_nodes := by
  intro p c d into doc hp hc
  have hpol : (loptsOf p c).pol = .verbatim ∧ (loptsOf p c).sk = true := by
    obtain ⟨sk, pre, gen⟩ := c
    simp only at hc
    subst hc
    rcases hp with rfl | rfl | rfl | rfl <;> exact ⟨rfl, rfl⟩
  rw [parseWith_eq]
  obtain ⟨_, hq, _, _, _, _⟩ := parseO_facts (loptsOf p c) d [] into doc (mapInv_init d.fresh)
  refine ⟨sigma (loptsOf p c).pol (parseO (loptsOf p c) d [] into doc).2, ?_, hq, ?_⟩
  · intro n; rw [hpol.1]; rfl
  · intro q b hqr hn
    obtain ⟨dq, _, rfl⟩ := List.mem_map.mp hqr
    exact hasNode_qrenO_sk hpol.2 hn

/-- two calls that hand on one dict give `_:b0` ONE node (contrast `remap_two_nodes`) — and it is a new one -/
theorem shared_context_one_node :
    (parseShared ⟨.remap, false, true⟩ ⟨[], 1⟩ [] [(.iri 0, docB0), (.iri 0, docB0)]).1.quads
      = [(.bn 1, .iri 1, .iri 2, .iri 0)] := by decide

/-- JSON-LD without `generalized_rdf`: the statement with the blank-node predicate is gone, the others are merged in -/
theorem jsonld_drops_bnode_predicate :
    (parseWith .jsonld ⟨false, false, false⟩ ⟨[], 1⟩ [] (.iri 0)
        [(.lab (.named 0), .lab (.named 1), .iri 2, none), (.lab (.named 0), .iri 1, .lab (.named 1), none)]).1.quads
      = [(.bn 1, .iri 1, .bn 2, .iri 0)] := by decide

/-- `skolemize=True`: `_:b0 <p> <o>` becomes a statement about the IRI genid/b0 -/
theorem skolemize_example :
    (parseWith .nt ⟨true, false, false⟩ ⟨[], 1⟩ [] (.iri 0) docB0).1.quads = [(.skol 0, .iri 1, .iri 2, .iri 0)] := by
  decide



/-- where the new quads go: into the graph parsed into, or into a graph the document itself names (an IRI, or one of
    its labels under the same assignment) — no third graph of the dataset is touched -/
def Statement_new_quads_in_target_or_named_graph : Prop :=
  ∀ (p : Parser) (c : CallOpts) (d : DS) (m0 : LMap) (f0 : Nat) (into : T) (doc : Doc), MapInv f0 ⟨d.fresh, m0⟩ →
    ∃ σ : Lbl → Nat, ∀ q, q ∈ (parseWith p c d m0 into doc).1.quads → q ∈ d.quads ∨ q.2.2.2 = into ∨
      ∃ dq ∈ doc, ∃ g, dq.2.2.2 = some g ∧ q.2.2.2 = trenO (loptsOf p c) σ g

theorem new_quads_in_target_or_named_graph : Statement_new_quads_in_target_or_named_graph := by
  intro p c d m0 f0 into doc hm
  rw [parseWith_eq]
  obtain ⟨_, hq, _, _, _, _⟩ := parseO_facts (loptsOf p c) d m0 into doc hm
  refine ⟨sigma (loptsOf p c).pol (parseO (loptsOf p c) d m0 into doc).2, fun q h => ?_⟩
  rcases (hq q).mp h with h | h
  · exact Or.inl h
  · simp only [renameO] at h
    obtain ⟨dq, hdq, rfl⟩ := List.mem_map.mp h
    have hdoc : dq ∈ doc := (List.mem_filter.mp hdq).1
    obtain ⟨a, b, c', g⟩ := dq
    cases g with
    | none => exact Or.inr (Or.inl rfl)
    | some t => exact Or.inr (Or.inr ⟨_, hdoc, t, rfl, rfl⟩)


/-! ### Round h — RDF Patch (`patch.py`) -/

/-- A patch consisting of `A` rows is the `BNode(label)` parser (`Policy.verbatim`) reading those statements into the
    dataset's default graph: labels are *store-scoped by design* (`_:x` and `<_:x>` are the node `x` of the store),
    whatever `bnode_context=` / `skolemize=` / graph parsed into the caller gives. -/
def Statement_patch_adds_verbatim : Prop :=
  ∀ (d : DS) (dflt : T) (doc : Doc),
    parsePatch d dflt (doc.map (fun q => (POp.add, q))) = parseInto d .verbatim dflt doc

/-- … so such a patch only adds (and everything new is the image of a row under the identity on labels) -/
def Statement_patch_without_D_only_adds : Prop :=
  ∀ (d : DS) (dflt : T) (doc : Doc),
    (∀ q, q ∈ d.quads → q ∈ (parsePatch d dflt (doc.map (fun q => (POp.add, q)))).quads) ∧
    (∃ σ : Lbl → Nat, (∀ n, σ (.named n) = n) ∧
      ∀ q, q ∈ (parsePatch d dflt (doc.map (fun q => (POp.add, q)))).quads → q ∈ d.quads ∨ q ∈ rename σ dflt doc)

theorem patch_adds_verbatim : Statement_patch_adds_verbatim := by
  intro d dflt doc
  simp only [parsePatch, patchRun_adds, parseInto, parseDoc]

theorem patch_without_D_only_adds : Statement_patch_without_D_only_adds := by
  intro d dflt doc
  rw [patch_adds_verbatim]
  obtain ⟨_, hq, _, _, _⟩ := parse_facts d .verbatim dflt doc
  exact ⟨fun q h => (hq q).mpr (Or.inl h), sigmaOf d .verbatim dflt doc, fun n => rfl, fun q h => (hq q).mp h⟩

/-- a `D` row removes a statement of the store (parsing a patch does not "only add": by design) and its label is the
    store's node: `D _:b3 <1> <2> .` deletes the statement about node 3 -/
theorem patch_delete_removes :
    (parsePatch ⟨[(.bn 3, .iri 1, .iri 2, .iri 0), (.bn 4, .iri 1, .iri 2, .iri 0)], 10⟩ (.iri 0)
      [(.del, (.lab (.named 3), .iri 1, .iri 2, none)), (.add, (.lab (.named 4), .iri 5, .lab (.named 7), some (.iri 9)))]).quads
      = [(.bn 4, .iri 1, .iri 2, .iri 0), (.bn 4, .iri 5, .bn 7, .iri 9)] := by decide

/-! ### Round g — Notation3 / Turtle / TriG: `_:x` scoping with formulae (`Parsers.n3Run`) -/

/-- The N3-family parser as coded — a *stack* of `_anonymousNodes` dicts, pushed and emptied at `{`, popped at `}`,
    plus the nodes the recursive descent holds (`[]`, `( )`, paths, formula nodes) — computes exactly what the
    generic one-dict parser computes on the scope-resolved document, in which every `_:x` written inside a
    formula is qualified with that formula occurrence (`resolve`). -/
def Statement_n3_formula_scopes : Prop :=
  ∀ (d : DS) (into : T) (evs : List Ev), EvOK evs →
    parseN3 d into evs = parseInto d .remap into (resolve RS.init evs)

/-- … hence: ONE injective renaming of the *scoped* labels to nodes that are not in the old content.  `_:x` in a
    formula, `_:x` outside it and `_:x` in another formula are three nodes; `_:x` before and after a formula is one
    node; inside one formula it is one node. -/
def Statement_n3_scoped_labels_one_injective_renaming : Prop :=
  ∀ (d : DS) (into : T) (evs : List Ev), EvOK evs → WF d → IntoOK d into →
    IsMerge d into (resolve RS.init evs) (parseN3 d into evs).quads

/-- without formulae the stack machine is the N3-family parser of `parseWith` (Turtle, TriG — any number of graph
    blocks — and N3 documents without `{ }`) -/
def Statement_n3_without_formulae : Prop :=
  ∀ (p : Parser) (c : CallOpts) (d : DS) (into : T) (doc : Doc), (p = .turtle ∨ p = .n3 ∨ p = .trig) →
    (∀ q ∈ doc, QOK q) → parseN3 d into (doc.map Ev.stmt) = (parseWith p c d [] into doc).1

theorem n3_formula_scopes : Statement_n3_formula_scopes :=
  fun d into evs h => parseN3_eq d into evs h

theorem n3_scoped_labels_one_injective_renaming : Statement_n3_scoped_labels_one_injective_renaming := by
  intro d into evs h hw hi
  rw [parseN3_eq d into evs h]
  exact parse_is_merge .remap d into _ rfl hw hi

theorem n3_without_formulae : Statement_n3_without_formulae := by
  intro p c d into doc hp hq
  have hok : EvOK (doc.map Ev.stmt) := by
    intro q hm
    obtain ⟨q', hq', e⟩ := List.mem_map.mp hm
    injection e with e
    subst e
    exact hq q' hq'
  rw [parseN3_eq d into _ hok, resolve_init_stmts, parseWith_eq]
  rcases hp with rfl | rfl | rfl <;>
    simp only [parseO, loptsOf, emitO_plain, parseInto, parseDoc]

/-- `}` gives back exactly the dict that was there at `{` -/
theorem n3_close_restores (s : N3S) : n3Close (n3Open s) = s := rfl

/-- `_:x <1> <2> .  { _:x <1> <2> } <3> <2> .  _:x <4> <2> .` — the inner `_:x` is its own node (2), the outer one
    is the same node (1) before and after the formula, the formula's node is 3 -/
theorem n3_scopes_example :
    (parseN3 ⟨[], 1⟩ (.iri 0)
      [.stmt (.lab (.named 0), .iri 1, .iri 2, none), .opn,
       .stmt (.lab (.named 0), .iri 1, .iri 2, some (.lab (.anon 0))), .cls,
       .stmt (.lab (.anon 0), .iri 3, .iri 2, none), .stmt (.lab (.named 0), .iri 4, .iri 2, none)]).quads
      = [(.bn 1, .iri 1, .iri 2, .iri 0), (.bn 2, .iri 1, .iri 2, .bn 3), (.bn 3, .iri 3, .iri 2, .iri 0),
         (.bn 1, .iri 4, .iri 2, .iri 0)] := by decide

/-! ### Non-vacuity -/

/-- the hypotheses are met by a target with content, a blank-node-named graph to parse into, and a
    document that reuses the id `3` as a label, as a graph name, and has an anonymous node -/
example :
    let d : DS := ⟨[(.bn 3, .iri 1, .bn 4, .iri 0), (.iri 5, .iri 1, .lit 0, .bn 3)], 10⟩
    let doc : Doc := [(.lab (.named 3), .iri 1, .lab (.anon 0), some (.lab (.named 3))), (.lab (.named 3), .iri 2, .lit 0, none)]
    WF d ∧ IntoOK d (.bn 3) ∧ HasNode d.quads 3 ∧ Doc.has doc (.named 3) ∧
    (parseInto d .remap (.bn 3) doc).quads =
      [(.bn 3, .iri 1, .bn 4, .iri 0), (.iri 5, .iri 1, .lit 0, .bn 3),
       (.bn 10, .iri 1, .bn 11, .bn 10), (.bn 10, .iri 2, .lit 0, .bn 3)] := by
  refine ⟨?_, ?_, ?_, ?_, by decide⟩
  · intro b ⟨q, hq, hn⟩
    simp only [List.mem_cons, List.not_mem_nil, or_false] at hq
    rcases hq with rfl | rfl <;> simp only [Quad.hasNode] at hn <;> rcases hn with hn | hn | hn | hn <;> cases hn <;> decide
  · intro b hb; cases hb; decide
  · exact ⟨_, List.mem_cons_self, Or.inl rfl⟩
  · exact ⟨_, List.mem_cons_self, Or.inl rfl⟩

/-- round g: the hypotheses of `caller_shared_context_shares_exactly` are met by a target with content and a dict the
    caller filled with an existing node (`_:b0` ↦ node 3): the two documents then talk about node 3 and share `_:b1` -/
example :
    let d : DS := ⟨[(.bn 3, .iri 1, .bn 4, .iri 0)], 10⟩
    let ctx : LMap := [(.named 0, 3)]
    let doc : Doc := [(.lab (.named 0), .iri 2, .lab (.named 1), none)]
    WF d ∧ MapInv 0 ⟨d.fresh, ctx⟩ ∧ IntoOK d (.iri 0) ∧
    (parseShared ⟨.remap, false, true⟩ d ctx [(.iri 0, doc), (.iri 5, doc)]).1.quads =
      [(.bn 3, .iri 1, .bn 4, .iri 0), (.bn 3, .iri 2, .bn 10, .iri 0), (.bn 3, .iri 2, .bn 10, .iri 5)] ∧
    (parseShared ⟨.remap, false, true⟩ d ctx [(.iri 0, doc), (.iri 5, doc)]).2 = [(.named 1, 10), (.named 0, 3)] := by
  refine ⟨?_, ⟨Nat.zero_le _, ?_, ?_⟩, (fun b hb => by cases hb), by decide, by decide⟩
  · intro b ⟨q, hq, hn⟩
    simp only [List.mem_cons, List.not_mem_nil, or_false] at hq
    subst hq
    simp only [Quad.hasNode] at hn
    rcases hn with hn | hn | hn | hn <;> cases hn <;> decide
  · intro l b h
    simp only [alookup] at h
    split at h
    · cases h; exact ⟨Nat.zero_le _, by decide⟩
    · cases h
  · intro l l' b h h'
    simp only [alookup] at h h'
    split at h <;> split at h'
    · next e1 e2 => rw [← e1, ← e2]
    · cases h'
    · cases h
    · cases h

/-- round g: `EvOK` holds for a document with a label inside and outside a formula -/
example : EvOK [.stmt (.lab (.named 0), .iri 1, .iri 2, none), .opn,
                .stmt (.lab (.named 0), .iri 1, .iri 2, some (.lab (.anon 0))), .cls] := by
  intro q hq
  simp only [List.mem_cons, List.not_mem_nil, or_false, reduceCtorEq, false_or, Ev.stmt.injEq] at hq
  rcases hq with rfl | rfl
  · refine ⟨?_, ?_, ?_, ?_⟩
    · intro l hl a b e; cases hl; cases e
    · intro l hl; cases hl
    · intro l hl; cases hl
    · intro g hg; cases hg
  · refine ⟨?_, ?_, ?_, ?_⟩
    · intro l hl a b e; cases hl; cases e
    · intro l hl; cases hl
    · intro l hl; cases hl
    · intro g hg l hl a b e; cases hg; cases hl; cases e

end RV.C12
