import RV.C12.Lemmas
/-
  C12 — "Parsing only adds, and blank nodes of separate documents never merge."

  Specification (simplest possible): the RDF merge.  `IsMerge d into doc res` — `res` is the old
  content together with `rename σ doc` for some assignment `σ` of the document's labels to nodes
  that is injective and whose values are not nodes of the old content (nor the graph parsed into).
  The model (`Model.lean`) is the one-pass label-map algorithm of the parsers.
-/
namespace RV.C12

/-- `res` is the RDF merge of the old content `d` and the document -/
def IsMerge (d : DS) (into : T) (doc : Doc) (res : List Quad) : Prop :=
  ∃ σ : Lbl → Nat, InjOn σ doc ∧
    (∀ l, Doc.has doc l → ¬ HasNode d.quads (σ l) ∧ into ≠ .bn (σ l)) ∧
    SetEq res (d.quads ++ rename σ into doc)

/-! ### Statements -/

/-- Whatever the parser's label policy: every old quad is still there (a quad carries its graph, so
    this is per graph), and whatever else is there is the image of a statement of the document
    under one assignment of its labels. -/
def Statement_parse_only_adds : Prop :=
  ∀ (d : DS) (pol : Policy) (into : T) (doc : Doc),
    (∀ q, q ∈ d.quads → q ∈ (parseInto d pol into doc).quads) ∧
    (∃ σ : Lbl → Nat, ∀ q, q ∈ (parseInto d pol into doc).quads → q ∈ d.quads ∨ q ∈ rename σ into doc)

/-- Full strength: for every parser (label policy), parsing into a target with content gives the RDF merge. -/
def Statement_parse_is_merge : Prop :=
  ∀ (pol : Policy) (d : DS) (into : T) (doc : Doc), WF d → IntoOK d into →
    IsMerge d into doc (parseInto d pol into doc).quads

/-- The part that holds: parsers with a per-call label map (`remap`: N-Triples, N-Quads, Turtle, N3,
    TriG, RDF/XML, and — after the C12 repairs — TriX and JSON-LD). -/
def Statement_parse_is_merge_remap : Prop :=
  ∀ (pol : Policy) (d : DS) (into : T) (doc : Doc), pol = .remap → WF d → IntoOK d into →
    IsMerge d into doc (parseInto d pol into doc).quads

/-- The freshness assumption is an invariant of parsing (any policy), so it holds along every history. -/
def Statement_wf_preserved : Prop :=
  ∀ (d : DS) (pol : Policy) (into : T) (doc : Doc), WF d → IntoOK d into → WF (parseInto d pol into doc)

/-- Two documents parsed one after the other: both are merged in, and no label of the first shares
    a node with a label of the second (whatever the label strings). -/
def Statement_two_docs_disjoint : Prop :=
  ∀ (d : DS) (into₁ into₂ : T) (doc₁ doc₂ : Doc), WF d → IntoOK d into₁ → IntoOK d into₂ →
    ∃ σ₁ σ₂ : Lbl → Nat,
      SetEq (parseInto (parseInto d .remap into₁ doc₁) .remap into₂ doc₂).quads
            (d.quads ++ rename σ₁ into₁ doc₁ ++ rename σ₂ into₂ doc₂) ∧
      InjOn σ₁ doc₁ ∧ InjOn σ₂ doc₂ ∧
      (∀ l₁ l₂, Doc.has doc₁ l₁ → Doc.has doc₂ l₂ → σ₁ l₁ ≠ σ₂ l₂) ∧
      (∀ l, Doc.has doc₁ l → ¬ HasNode d.quads (σ₁ l)) ∧ (∀ l, Doc.has doc₂ l → ¬ HasNode d.quads (σ₂ l))

/-- The same document twice: every label gets two different nodes. -/
def Statement_same_doc_twice_disjoint : Prop :=
  ∀ (d : DS) (into : T) (doc : Doc), WF d → IntoOK d into →
    ∃ σ₁ σ₂ : Lbl → Nat,
      SetEq (parseInto (parseInto d .remap into doc) .remap into doc).quads
            (d.quads ++ rename σ₁ into doc ++ rename σ₂ into doc) ∧
      (∀ l l', Doc.has doc l → Doc.has doc l' → σ₁ l ≠ σ₂ l')

/-- Inside one parse call a label is one node, wherever it occurs (subject, object, graph name, any
    graph block): the statements handed to the sink are the document's statements under ONE assignment. -/
def Statement_label_within_doc_one_node : Prop :=
  ∀ (f : Nat) (pol : Policy) (into : T) (doc : Doc),
    ∃ σ : Lbl → Nat, (parseDoc f pol into doc).2 = rename σ into doc

/-- A label that is spelled like the id of a node already in the target is still remapped. -/
def Statement_looks_like_generated_id_safe : Prop :=
  ∀ (d : DS) (into : T) (doc : Doc) (n : Nat), WF d → IntoOK d into → HasNode d.quads n → Doc.has doc (.named n) →
    ∃ σ : Lbl → Nat, SetEq (parseInto d .remap into doc).quads (d.quads ++ rename σ into doc) ∧ InjOn σ doc ∧
      σ (.named n) ≠ n ∧ ¬ HasNode d.quads (σ (.named n))

/-- The same document into two fresh targets: the results are isomorphic (π renames blank nodes,
    injectively on the nodes of the first result). -/
def Statement_fresh_graphs_iso : Prop :=
  ∀ (f₁ f₂ : Nat) (into : T) (doc : Doc), (∀ b, into ≠ .bn b) →
    ∃ π : Nat → Nat,
      (∀ b b', HasNode (parseInto ⟨[], f₁⟩ .remap into doc).quads b →
        HasNode (parseInto ⟨[], f₁⟩ .remap into doc).quads b' → π b = π b' → b = b') ∧
      SetEq ((parseInto ⟨[], f₁⟩ .remap into doc).quads.map (qmapT π)) (parseInto ⟨[], f₂⟩ .remap into doc).quads

/-- Any history of parse calls: nothing is ever removed, the freshness invariant holds at the end,
    and each single call is a merge with what was there at that moment. -/
def Statement_history : Prop :=
  ∀ (d : DS) (docs : List (T × Doc)), WF d → (∀ x ∈ docs, IntoOK d x.1) →
    (∀ q, q ∈ d.quads → q ∈ (parseAll d docs).quads) ∧ WF (parseAll d docs) ∧
    (∀ pre x post, docs = pre ++ x :: post →
      IsMerge (parseAll d pre) x.1 x.2 (parseAll d (pre ++ [x])).quads)

/-! ### Proofs -/

theorem parse_only_adds : Statement_parse_only_adds := by
  intro d pol into doc
  obtain ⟨_, hq, _, _, _⟩ := parse_facts d pol into doc
  exact ⟨fun q h => (hq q).mpr (Or.inl h), sigmaOf d pol into doc, fun q h => (hq q).mp h⟩

theorem parse_is_merge : Statement_parse_is_merge_remap := by
  intro pol d into doc hp hw hi
  subst hp
  obtain ⟨_, hq, _, _, _⟩ := parse_facts d .remap into doc
  obtain ⟨hr, hinj⟩ := remap_facts d into doc
  refine ⟨sigmaOf d .remap into doc, hinj, ?_, ?_⟩
  · intro l hl
    constructor
    · intro hn
      exact absurd (hw _ hn) (Nat.not_lt.mpr (hr l hl).1)
    · intro e
      exact absurd (hi _ e) (Nat.not_lt.mpr (hr l hl).1)
  · intro x
    rw [hq x, List.mem_append]

theorem wf_preserved : Statement_wf_preserved :=
  fun d pol into doc hw hi => wf_parseInto d pol into doc hw hi

theorem two_docs_disjoint : Statement_two_docs_disjoint := by
  intro d into₁ into₂ doc₁ doc₂ hw h1 _
  obtain ⟨hf1, hq1, _, _, _⟩ := parse_facts d .remap into₁ doc₁
  obtain ⟨_, hq2, _, _, _⟩ := parse_facts (parseInto d .remap into₁ doc₁) .remap into₂ doc₂
  obtain ⟨hr1, hinj1⟩ := remap_facts d into₁ doc₁
  obtain ⟨hr2, hinj2⟩ := remap_facts (parseInto d .remap into₁ doc₁) into₂ doc₂
  refine ⟨sigmaOf d .remap into₁ doc₁, sigmaOf (parseInto d .remap into₁ doc₁) .remap into₂ doc₂, ?_, hinj1, hinj2, ?_, ?_, ?_⟩
  · intro x
    rw [hq2 x, hq1 x, List.mem_append, List.mem_append]
  · intro l₁ l₂ hl₁ hl₂ e
    have a := (hr1 l₁ hl₁).2
    have b := (hr2 l₂ hl₂).1
    rw [e] at a
    exact absurd a (Nat.not_lt.mpr b)
  · intro l hl hn
    exact absurd (hw _ hn) (Nat.not_lt.mpr (hr1 l hl).1)
  · intro l hl hn
    exact absurd (hw _ hn) (Nat.not_lt.mpr (Nat.le_trans hf1 (hr2 l hl).1))

theorem same_doc_twice_disjoint : Statement_same_doc_twice_disjoint := by
  intro d into doc hw hi
  obtain ⟨σ₁, σ₂, h, _, _, hd, _, _⟩ := two_docs_disjoint d into into doc doc hw hi hi
  exact ⟨σ₁, σ₂, h, hd⟩

theorem label_within_doc_one_node : Statement_label_within_doc_one_node := by
  intro f pol into doc
  obtain ⟨_, _, _, r, _⟩ := emit_spec pol into doc ⟨f, []⟩ (mapInv_init f)
  exact ⟨_, r⟩

theorem looks_like_generated_id_safe : Statement_looks_like_generated_id_safe := by
  intro d into doc n hw hi hn hl
  obtain ⟨σ, hinj, hdis, heq⟩ := parse_is_merge .remap d into doc rfl hw hi
  refine ⟨σ, heq, hinj, ?_, (hdis _ hl).1⟩
  intro e
  apply (hdis _ hl).1
  rw [e]
  exact hn

theorem fresh_graphs_iso : Statement_fresh_graphs_iso := by
  intro f₁ f₂ into doc hinto
  obtain ⟨_, hq1, _, _, _⟩ := parse_facts ⟨[], f₁⟩ .remap into doc
  obtain ⟨_, hq2, _, _, _⟩ := parse_facts ⟨[], f₂⟩ .remap into doc
  obtain ⟨_, hinj1⟩ := remap_facts ⟨[], f₁⟩ into doc
  obtain ⟨_, hinj2⟩ := remap_facts ⟨[], f₂⟩ into doc
  have hπ : ∀ l, Doc.has doc l →
      transport (sigmaOf ⟨[], f₁⟩ .remap into doc) (sigmaOf ⟨[], f₂⟩ .remap into doc) (Doc.labels doc)
        (sigmaOf ⟨[], f₁⟩ .remap into doc l) = sigmaOf ⟨[], f₂⟩ .remap into doc l := by
    intro l hl
    apply transport_spec
    · intro a b ha hb e
      exact hinj1 a b (Doc.mem_labels.mp ha) (Doc.mem_labels.mp hb) e
    · exact Doc.mem_labels.mpr hl
  have hfix : tmapT (transport (sigmaOf ⟨[], f₁⟩ .remap into doc) (sigmaOf ⟨[], f₂⟩ .remap into doc) (Doc.labels doc)) into = into := by
    cases into with
    | iri n => rfl
    | lit n => rfl
    | bn b => exact absurd rfl (hinto b)
  refine ⟨transport (sigmaOf ⟨[], f₁⟩ .remap into doc) (sigmaOf ⟨[], f₂⟩ .remap into doc) (Doc.labels doc), ?_, ?_⟩
  · intro b b' ⟨q, hq, hn⟩ ⟨q', hq', hn'⟩ e
    rcases (hq1 q).mp hq with h | h
    · cases h
    rcases (hq1 q').mp hq' with h' | h'
    · cases h'
    obtain ⟨dq, hdq, rfl⟩ := List.mem_map.mp h
    obtain ⟨dq', hdq', rfl⟩ := List.mem_map.mp h'
    rcases hasNode_qren hn with ⟨l, hl, rfl⟩ | hb
    · rcases hasNode_qren hn' with ⟨l', hl', rfl⟩ | hb'
      · rw [hπ l ⟨dq, hdq, hl⟩, hπ l' ⟨dq', hdq', hl'⟩] at e
        rw [hinj2 l l' ⟨dq, hdq, hl⟩ ⟨dq', hdq', hl'⟩ e]
      · exact absurd hb' (hinto _)
    · exact absurd hb (hinto _)
  · intro x
    rw [hq2 x, List.mem_map]
    constructor
    · rintro ⟨y, hy, rfl⟩
      rcases (hq1 y).mp hy with h | h
      · cases h
      obtain ⟨dq, hdq, rfl⟩ := List.mem_map.mp h
      right
      rw [qmapT_qren (fun l hl => hπ l ⟨dq, hdq, hl⟩) hfix]
      exact List.mem_map.mpr ⟨dq, hdq, rfl⟩
    · rintro (h | h)
      · cases h
      obtain ⟨dq, hdq, rfl⟩ := List.mem_map.mp h
      refine ⟨qren (sigmaOf ⟨[], f₁⟩ .remap into doc) into dq, (hq1 _).mpr (Or.inr (List.mem_map.mpr ⟨dq, hdq, rfl⟩)), ?_⟩
      exact qmapT_qren (fun l hl => hπ l ⟨dq, hdq, hl⟩) hfix

theorem history : Statement_history := by
  intro d docs hw hi
  obtain ⟨h1, _, h3⟩ := parseAll_facts docs d hw hi
  refine ⟨h3, h1, ?_⟩
  intro pre x post e
  subst e
  have hipre : ∀ y ∈ pre, IntoOK d y.1 := fun y hy => hi y (List.mem_append_left _ hy)
  obtain ⟨hwp, hfp, _⟩ := parseAll_facts pre d hw hipre
  have hix : IntoOK (parseAll d pre) x.1 :=
    fun b hb => Nat.lt_of_lt_of_le (hi x (List.mem_append_right _ List.mem_cons_self) b hb) hfp
  rw [parseAll_append]
  exact parse_is_merge .remap (parseAll d pre) x.1 x.2 rfl hwp hix

/-! ### The negative result: `BNode(label)` parsers (hextuples today; TriX and JSON-LD before the repairs) -/

/-- two one-statement documents that both say `_:b0 <p> <o>` -/
def docB0 : Doc := [(.lab (.named 0), .iri 1, .iri 2, none)]

/-- with `verbatim`, parsing it twice leaves ONE statement about ONE node -/
theorem verbatim_shares_node :
    (parseInto (parseInto ⟨[], 1⟩ .verbatim (.iri 0) docB0) .verbatim (.iri 0) docB0).quads
      = [(.bn 0, .iri 1, .iri 2, .iri 0)] := by decide

/-- … whereas with `remap` there are two nodes -/
theorem remap_two_nodes :
    (parseInto (parseInto ⟨[], 1⟩ .remap (.iri 0) docB0) .remap (.iri 0) docB0).quads
      = [(.bn 1, .iri 1, .iri 2, .iri 0), (.bn 2, .iri 1, .iri 2, .iri 0)] := by decide

/-- so the full-strength statement is false: the verbatim policy does not compute the merge -/
theorem verbatim_not_merge : ¬ Statement_parse_is_merge := by
  intro h
  have hw : WF (parseInto ⟨[], 1⟩ .verbatim (.iri 0) docB0) :=
    wf_parseInto _ _ _ _ (fun b ⟨q, hq, _⟩ => by cases hq) (fun b hb => by cases hb)
  obtain ⟨σ, _, hdis, heq⟩ := h .verbatim (parseInto ⟨[], 1⟩ .verbatim (.iri 0) docB0) (.iri 0) docB0 hw
    (fun b hb => by cases hb)
  have hl : Doc.has docB0 (.named 0) := ⟨_, List.mem_singleton.mpr rfl, Or.inl rfl⟩
  have hmem := (heq (qren σ (.iri 0) (.lab (.named 0), .iri 1, .iri 2, none))).mpr
    (List.mem_append_right _ (List.mem_singleton.mpr rfl))
  rw [verbatim_shares_node] at hmem
  have hσ : σ (.named 0) = 0 := by
    have := List.mem_singleton.mp hmem
    simp only [qren, tren, gren, Prod.mk.injEq, T.bn.injEq] at this
    exact this.1
  apply (hdis _ hl).1
  rw [hσ]
  exact ⟨(.bn 0, .iri 1, .iri 2, .iri 0), by decide, Or.inl rfl⟩

/-- naming convention of BUILDING §3 for a statement the code falsifies: `_partial` / `_witness` -/
theorem parse_is_merge_partial : Statement_parse_is_merge_remap := parse_is_merge
theorem parse_is_merge_witness : ¬ Statement_parse_is_merge := verbatim_not_merge

/-! ### Non-vacuity -/

/-- the hypotheses are met by a target with content, a blank-node-named graph to parse into, and a
    document that reuses the id `3` as a label, as a graph name, and has an anonymous node -/
example :
    let d : DS := ⟨[(.bn 3, .iri 1, .bn 4, .iri 0), (.iri 5, .iri 1, .lit 0, .bn 3)], 10⟩
    let doc : Doc := [(.lab (.named 3), .iri 1, .lab (.anon 0), some (.lab (.named 3))), (.lab (.named 3), .iri 2, .lit 0, none)]
    WF d ∧ IntoOK d (.bn 3) ∧ HasNode d.quads 3 ∧ Doc.has doc (.named 3) ∧
    (parseInto d .remap (.bn 3) doc).quads =
      [(.bn 3, .iri 1, .bn 4, .iri 0), (.iri 5, .iri 1, .lit 0, .bn 3),
       (.bn 10, .iri 1, .bn 11, .bn 10), (.bn 10, .iri 2, .lit 0, .bn 3)] := by
  refine ⟨?_, ?_, ?_, ?_, by decide⟩
  · intro b ⟨q, hq, hn⟩
    simp only [List.mem_cons, List.not_mem_nil, or_false] at hq
    rcases hq with rfl | rfl <;> simp only [Quad.hasNode] at hn <;> rcases hn with hn | hn | hn | hn <;> cases hn <;> decide
  · intro b hb; cases hb; decide
  · exact ⟨_, List.mem_cons_self, Or.inl rfl⟩
  · exact ⟨_, List.mem_cons_self, Or.inl rfl⟩

end RV.C12
