import RV.C12.Lemmas
namespace RV.C12
theorem placeholder : True := trivial
end RV.C12
