import RV.C12.PLemmas
/-
  C12, round g — the Notation3 label scoping (`Parsers.n3Run`: a stack of `_anonymousNodes` dicts, nodes held
  by the recursion) is the generic one-pass parser over the *scope-resolved* document: every `_:x` inside a
  formula is qualified with the number of that formula occurrence.
-/
namespace RV.C12

/-- scope bookkeeping of the specification: next unused scope number, current scope, enclosing scopes
    (scope 0 = the document itself) -/
structure RS where
  next : Nat
  cur : Nat
  stack : List Nat

/-- `_:n` written in scope `c` -/
def qual (c : Nat) : Lbl → Lbl
  | .named n => if c = 0 then .named n else .inner c n
  | l => l

def qualT (c : Nat) : DT → DT
  | .lab l => .lab (qual c l)
  | t => t

def qualG (c : Nat) : Option DT → Option DT
  | none => none
  | some g => some (qualT c g)

def qualQ (c : Nat) (q : DQuad) : DQuad := (qualT c q.1, qualT c q.2.1, qualT c q.2.2.1, qualG c q.2.2.2)

def rsOpen (r : RS) : RS := ⟨r.next + 1, r.next, r.cur :: r.stack⟩

def rsClose (r : RS) : RS :=
  match r.stack with
  | c :: cs => ⟨r.next, c, cs⟩
  | [] => r

/-- the document with every label qualified by the formula occurrence it is written in -/
def resolve : RS → List Ev → Doc
  | _, [] => []
  | r, .stmt q :: es => qualQ r.cur q :: resolve r es
  | r, .opn :: es => resolve (rsOpen r) es
  | r, .cls :: es => resolve (rsClose r) es

def RS.init : RS := ⟨1, 0, []⟩

/-- documents are written with plain labels (`inner` is specification vocabulary) -/
def LblOK (l : Lbl) : Prop := ∀ a b, l ≠ .inner a b
def DTOK (t : DT) : Prop := ∀ l, t = .lab l → LblOK l
def QOK (q : DQuad) : Prop := DTOK q.1 ∧ DTOK q.2.1 ∧ DTOK q.2.2.1 ∧ ∀ g, q.2.2.2 = some g → DTOK g
def EvOK (evs : List Ev) : Prop := ∀ q, Ev.stmt q ∈ evs → QOK q

theorem qual_named_ne_anon (c n k : Nat) : qual c (.named n) ≠ .anon k := by
  simp only [qual]; split <;> simp

theorem qual_named_inj {c c' n n' : Nat} (h : qual c (.named n) = qual c' (.named n')) : c = c' ∧ n = n' := by
  simp only [qual] at h
  split at h <;> split at h <;> simp at h
  · next h1 h2 => exact ⟨by rw [h1, h2], h⟩
  · exact h

theorem qual_named_inner {c n a b : Nat} (h : qual c (.named n) = .inner a b) : c = a := by
  simp only [qual] at h
  split at h <;> simp at h
  exact h.1

def StackRel (pm : LMap) : List LMap → List Nat → Prop
  | [], [] => True
  | m :: ms, c :: cs => (∀ n, alookup pm (qual c (.named n)) = alookup m (.named n)) ∧ StackRel pm ms cs
  | _, _ => False

theorem StackRel_cons {pm : LMap} {k : Lbl} {v : Nat} : ∀ {ms : List LMap} {cs : List Nat},
    (∀ c ∈ cs, ∀ n, k ≠ qual c (.named n)) → StackRel pm ms cs → StackRel ((k, v) :: pm) ms cs := by
  intro ms
  induction ms with
  | nil => intro cs _ h; cases cs <;> exact h
  | cons m ms ih =>
    intro cs hk h
    cases cs with
    | nil => exact h
    | cons c cs =>
      refine ⟨?_, ih (fun c' hc' => hk c' (List.mem_cons_of_mem _ hc')) h.2⟩
      intro n
      rw [alookup_cons, if_neg (hk c List.mem_cons_self n)]
      exact h.1 n

structure Sim (s : N3S) (r : RS) (p : PS) : Prop where
  fresh : p.fresh = s.fresh
  cur : ∀ n, alookup p.map (qual r.cur (.named n)) = alookup s.cur (.named n)
  stack : StackRel p.map s.stack r.stack
  held : ∀ k, alookup p.map (.anon k) = alookup s.held (.anon k)
  pos : 0 < r.next
  curlt : r.cur < r.next
  stacklt : ∀ c ∈ r.stack, c < r.next
  nodup : (r.cur :: r.stack).Nodup
  unused : ∀ c n, r.next ≤ c → alookup p.map (.inner c n) = none

theorem sim_init (f : Nat) : Sim ⟨f, [], [], []⟩ RS.init ⟨f, []⟩ :=
  ⟨rfl, fun _ => rfl, trivial, fun _ => rfl, Nat.one_pos, Nat.one_pos, (fun _ h => by cases h),
   by simp [RS.init], fun _ _ _ => rfl⟩

/-- one label: `anonymousNode` / `blankNode` on the stack of dicts = `alloc` on the one dict over qualified labels -/
theorem node_sim {s : N3S} {r : RS} {p : PS} (h : Sim s r p) (l : Lbl) (hl : LblOK l) :
    Sim (n3Node s l).1 r (alloc p (qual r.cur l)).1 ∧ (n3Node s l).2 = .bn (alloc p (qual r.cur l)).2 := by
  cases l with
  | inner a b => exact absurd rfl (hl a b)
  | named n =>
    have hc := h.cur n
    simp only [n3Node, alloc]
    cases hs : alookup s.cur (.named n) with
    | some b =>
      rw [hs] at hc
      simp only [hc]
      exact ⟨h, trivial⟩
    | none =>
      rw [hs] at hc
      simp only [hc]
      refine ⟨⟨by simp only [h.fresh], ?_, ?_, ?_, h.pos, h.curlt, h.stacklt, h.nodup, ?_⟩, by rw [h.fresh]⟩
      · intro n'
        rw [alookup_cons, alookup_cons, h.fresh]
        by_cases e : n = n'
        · subst e; simp
        · have : qual r.cur (.named n) ≠ qual r.cur (.named n') := fun e' => e (qual_named_inj e').2
          rw [if_neg this, if_neg (by simpa using e)]
          exact h.cur n'
      · apply StackRel_cons _ h.stack
        intro c hc' n' e
        have := (qual_named_inj e).1
        have hn := h.nodup
        rw [List.nodup_cons] at hn
        exact hn.1 (this ▸ hc')
      · intro k
        rw [alookup_cons, if_neg (qual_named_ne_anon _ _ _)]
        exact h.held k
      · intro c n' hc'
        rw [alookup_cons]
        split
        · next e =>
          have := qual_named_inner e
          exact absurd h.curlt (Nat.not_lt.mpr (this ▸ hc'))
        · exact h.unused c n' hc'
  | anon k =>
    have hc := h.held k
    simp only [n3Node, alloc, qual]
    cases hs : alookup s.held (.anon k) with
    | some b =>
      rw [hs] at hc
      simp only [hc]
      exact ⟨h, trivial⟩
    | none =>
      rw [hs] at hc
      simp only [hc]
      refine ⟨⟨by simp only [h.fresh], ?_, ?_, ?_, h.pos, h.curlt, h.stacklt, h.nodup, ?_⟩, by rw [h.fresh]⟩
      · intro n'
        rw [alookup_cons, if_neg (fun e => qual_named_ne_anon _ _ _ e.symm)]
        exact h.cur n'
      · apply StackRel_cons _ h.stack
        intro c _ n' e
        exact qual_named_ne_anon _ _ _ e.symm
      · intro k'
        rw [alookup_cons, alookup_cons, h.fresh]
        by_cases e : k = k'
        · subst e; simp
        · rw [if_neg (by simpa using e), if_neg (by simpa using e)]
          exact h.held k'
      · intro c n' hc'
        rw [alookup_cons, if_neg (by simp)]
        exact h.unused c n' hc'

theorem term_sim {s : N3S} {r : RS} {p : PS} (h : Sim s r p) (t : DT) (ht : DTOK t) :
    Sim (termF n3Node s t).1 r (term .remap p (qualT r.cur t)).1 ∧
    (termF n3Node s t).2 = (term .remap p (qualT r.cur t)).2 := by
  cases t with
  | iri n => exact ⟨h, rfl⟩
  | lit n => exact ⟨h, rfl⟩
  | lab l =>
    obtain ⟨h1, h2⟩ := node_sim h l (ht l rfl)
    simp only [termF, qualT, term, nodeid_remap]
    exact ⟨h1, h2⟩

theorem gname_sim {s : N3S} {r : RS} {p : PS} (h : Sim s r p) (into : T) (g : Option DT) (hg : ∀ t, g = some t → DTOK t) :
    Sim (gnameF n3Node into s g).1 r (gname .remap into p (qualG r.cur g)).1 ∧
    (gnameF n3Node into s g).2 = (gname .remap into p (qualG r.cur g)).2 := by
  cases g with
  | none => exact ⟨h, rfl⟩
  | some t => exact term_sim h t (hg t rfl)

theorem quad_sim {s : N3S} {r : RS} {p : PS} (h : Sim s r p) (into : T) (q : DQuad) (hq : QOK q) :
    Sim (quadF n3Node true into s q).1 r (quad .remap into p (qualQ r.cur q)).1 ∧
    (quadF n3Node true into s q).2 = some (quad .remap into p (qualQ r.cur q)).2 := by
  obtain ⟨a, b, c, g⟩ := q
  obtain ⟨ha, hb, hc, hg⟩ := hq
  rw [quadF_keep (by simp)]
  obtain ⟨s1, e1⟩ := term_sim h a ha
  obtain ⟨s2, e2⟩ := term_sim s1 b hb
  obtain ⟨s3, e3⟩ := term_sim s2 c hc
  obtain ⟨s4, e4⟩ := gname_sim s3 into g hg
  simp only [quad, qualQ]
  exact ⟨s4, by rw [e1, e2, e3, e4]⟩

theorem sim_open {s : N3S} {r : RS} {p : PS} (h : Sim s r p) : Sim (n3Open s) (rsOpen r) p := by
  refine ⟨h.fresh, ?_, ⟨h.cur, h.stack⟩, h.held, Nat.succ_pos _, Nat.lt_succ_self _, ?_, ?_, ?_⟩
  · intro n
    have hne : r.next ≠ 0 := Nat.pos_iff_ne_zero.mp h.pos
    show alookup p.map (if r.next = 0 then Lbl.named n else Lbl.inner r.next n) = alookup [] (Lbl.named n)
    rw [if_neg hne]
    exact h.unused _ _ (Nat.le_refl _)
  · intro c hc
    rcases List.mem_cons.mp hc with hc | hc
    · subst hc; exact Nat.lt_succ_of_lt h.curlt
    · exact Nat.lt_succ_of_lt (h.stacklt c hc)
  · simp only [rsOpen]
    rw [List.nodup_cons]
    refine ⟨?_, h.nodup⟩
    intro hm
    rcases List.mem_cons.mp hm with e | e
    · exact absurd h.curlt (by rw [← e]; exact Nat.lt_irrefl _)
    · exact absurd (h.stacklt _ e) (Nat.lt_irrefl _)
  · intro c n hc
    exact h.unused c n (Nat.le_of_succ_le hc)

theorem sim_close {s : N3S} {r : RS} {p : PS} (h : Sim s r p) : Sim (n3Close s) (rsClose r) p := by
  obtain ⟨sf, sc, ss, sh⟩ := s
  obtain ⟨rn, rc, rs⟩ := r
  cases ss with
  | nil =>
    cases rs with
    | nil => exact h
    | cons c cs => exact absurd h.stack (by simp [StackRel])
  | cons m ms =>
    cases rs with
    | nil => exact absurd h.stack (by simp [StackRel])
    | cons c cs =>
      have hst := h.stack
      have hn := h.nodup
      rw [List.nodup_cons] at hn
      exact ⟨h.fresh, hst.1, hst.2, h.held, h.pos, h.stacklt c List.mem_cons_self,
        fun c' hc' => h.stacklt c' (List.mem_cons_of_mem _ hc'), hn.2, h.unused⟩

theorem n3Run_sim (into : T) : ∀ (evs : List Ev) (s : N3S) (r : RS) (p : PS), Sim s r p → EvOK evs →
    (n3Run into s evs).2 = (emit .remap into p (resolve r evs)).2 ∧
    (n3Run into s evs).1.fresh = (emit .remap into p (resolve r evs)).1.fresh := by
  intro evs
  induction evs with
  | nil => intro s r p h _; exact ⟨rfl, h.fresh.symm⟩
  | cons e es ih =>
    intro s r p h hok
    have hok' : EvOK es := fun q hq => hok q (List.mem_cons_of_mem _ hq)
    cases e with
    | stmt q =>
      obtain ⟨h1, e1⟩ := quad_sim h into q (hok q List.mem_cons_self)
      obtain ⟨i1, i2⟩ := ih _ r _ h1 hok'
      simp only [n3Run, resolve, emit]
      rw [e1, i1, i2]
      exact ⟨rfl, rfl⟩
    | opn => exact ih _ _ p (sim_open h) hok'
    | cls => exact ih _ _ p (sim_close h) hok'

/-- with no formula in it the scope-resolved document is the document -/
theorem qualQ_zero (q : DQuad) : qualQ 0 q = q := by
  obtain ⟨a, b, c, g⟩ := q
  have ht : ∀ t, qualT 0 t = t := by
    intro t; cases t with
    | lab l => cases l <;> rfl
    | iri n => rfl
    | lit n => rfl
  cases g with
  | none => simp [qualQ, qualG, ht]
  | some t => simp [qualQ, qualG, ht]

theorem resolve_stmts (r : RS) (doc : Doc) : resolve r (doc.map Ev.stmt) = doc.map (qualQ r.cur) := by
  induction doc with
  | nil => rfl
  | cons q qs ih => simp only [List.map_cons, resolve, ih]

theorem resolve_init_stmts (doc : Doc) : resolve RS.init (doc.map Ev.stmt) = doc := by
  rw [resolve_stmts]
  have : ∀ q ∈ doc, qualQ RS.init.cur q = id q := fun q _ => qualQ_zero q
  rw [List.map_congr_left this, List.map_id]

theorem parseN3_eq (d : DS) (into : T) (evs : List Ev) (h : EvOK evs) :
    parseN3 d into evs = parseInto d .remap into (resolve RS.init evs) := by
  obtain ⟨h1, h2⟩ := n3Run_sim into evs _ _ _ (sim_init d.fresh) h
  simp only [parseN3, parseInto, parseDoc, h1, h2]

end RV.C12
