import RV.C12.Model
import RV.C12.Parsers
import RV.Base.Proto
/-
  C12 driver.  Terms are owned by the harness:
      iN  IRI N        lN  literal N        bN  blank node with id N (target side; init content, `into`)
      nN  named label N   aN  anonymous node N   (document side)
      rI.N  named label whose number is the node id that finished document #I gave to its label nN
            ("read a generated id off the graph and use it as a label")
      -   the document's default graph
  Protocol:
    reset                 -> ok     empty target, uuid supply at 1000, no finished documents
    init s p o g          -> ok     a quad already in the target (blank nodes `bN`, N < 1000)
    doc <r|v> <into>      -> ok     start a document; r = remap, v = verbatim; into = target graph name   (round 1 form)
    doc <parser> <into> [sk] [pre] [gen] [ctx=K] [inst=K]
                          -> ok     start a document read by that parser's own node function (`Parsers.parseWith`);
                                    parser = nt|nquads|turtle|n3|trig|xml|trix|json-ld|hext; sk = skolemize=True,
                                    pre = preserve_bnode_ids=True, gen = generalized_rdf=True, ctx=K = bnode_context=<the
                                    caller's dict number K> (empty at reset), inst=K = N-Quads parser object number K
    ctxset K nL bN        -> ok     the caller's dict K gets the entry  label L -> node N  (before it is handed to a call)
    ctx K                 -> the keys of the caller's dict K: sorted label numbers < 1000, then `+n` for n other keys
    q s p o g             -> ok     next statement of the document (g may be `-`)
    d s p o g             -> ok     RDF Patch only: a `D` (delete) row, applied after the document's `A` rows (the `q` lines)
    open / close          -> ok     `{` / `}` of an N3 formula: the statements in between are the formula's (their g is its node)
    end                   -> ok     parse the document into the target (Graph.parse)
    obs                   -> the target's quads:  s,p,o,g s,p,o,g …   (order irrelevant; harness canonicalises)
    nodes                 -> number of distinct blank nodes in the target
-/
open RV RV.C12 RV.Proto

structure St where
  ds : DS
  pol : Policy
  into : T
  cur : List Ev                          -- statements (and `{` `}`) of the open document, reversed
  maps : List (Policy × List (Lbl × Nat)) -- finished documents, in order
  par : Option Parser                    -- none: round 1 form (policy only)
  opts : CallOpts
  ctxK : Option Nat                      -- bnode_context= : which of the caller's dicts
  instK : Option Nat                     -- which N-Quads parser object
  ctxs : List (Nat × LMap)               -- the caller's dicts
  insts : List (Nat × LMap)              -- `_bnode_ids` of the N-Quads parser objects
  dels : List DQuad                      -- `D` rows of the open RDF Patch, reversed

def stmtsOf : List Ev → List DQuad
  | [] => []
  | .stmt q :: es => q :: stmtsOf es
  | _ :: es => stmtsOf es

def St.empty : St := ⟨⟨[], 1000⟩, .remap, .iri 0, [], [], none, CallOpts.default, none, none, [], [], []⟩

def parser? (w : String) : Option Parser :=
  if w = "nt" then some .nt else if w = "nquads" then some .nquads else if w = "turtle" then some .turtle
  else if w = "n3" then some .n3 else if w = "trig" then some .trig else if w = "xml" then some .xml
  else if w = "trix" then some .trix else if w = "json-ld" then some .jsonld else if w = "hext" then some .hext
  else if w = "patch" then some .patch else none

def klookup : List (Nat × LMap) → Nat → Option LMap
  | [], _ => none
  | (k, v) :: m, n => if k = n then some v else klookup m n

def kset : List (Nat × LMap) → Nat → LMap → List (Nat × LMap)
  | [], n, v => [(n, v)]
  | (k, w) :: m, n, v => if k = n then (k, v) :: m else (k, w) :: kset m n v

def numAfterEq (pfx : String) (w : String) : Option Nat :=
  if w.startsWith pfx then (w.drop pfx.length).toNat? else none

/-- the option words of a `doc` line -/
def applyOpt (s : St) (w : String) : Option St :=
  if w = "sk" then some { s with opts := { s.opts with skolemize := true } }
  else if w = "pre" then some { s with opts := { s.opts with preserve := true } }
  else if w = "gen" then some { s with opts := { s.opts with generalized := true } }
  else match numAfterEq "ctx=" w, numAfterEq "inst=" w with
    | some k, _ => some { s with ctxK := some k }
    | _, some k => some { s with instK := some k }
    | _, _ => none

def applyOpts : St → List String → Option St
  | s, [] => some s
  | s, w :: ws => match applyOpt s w with
    | some s' => applyOpts s' ws
    | none => none

def insertNat : Nat → List Nat → List Nat
  | n, [] => [n]
  | n, x :: xs => if n ≤ x then n :: x :: xs else x :: insertNat n xs

def showCtx (m : LMap) : String :=
  let small := m.foldl (fun acc e => match e.1 with
    | .named n => if n < 1000 then insertNat n acc else acc
    | _ => acc) []
  let other := m.length - small.length
  let a := ",".intercalate (small.map toString)
  (if a = "" then "-" else a) ++ (if other = 0 then "" else s!" +{other}")

def numAfter (pfx : Char) (w : String) : Option Nat :=
  match w.toList with
  | c :: rest => if c = pfx && !rest.isEmpty then (String.ofList rest).toNat? else none
  | [] => none

def tterm? (w : String) : Option T :=
  match numAfter 'i' w, numAfter 'l' w, numAfter 'b' w with
  | some n, _, _ => some (.iri n)
  | _, some n, _ => some (.lit n)
  | _, _, some n => some (.bn n)
  | _, _, _ => none

def refLabel? (s : St) (w : String) : Option DT :=
  match w.toList with
  | 'r' :: rest =>
    match (String.ofList rest).splitOn "." with
    | [a, b] =>
      match a.toNat?, b.toNat? with
      | some i, some n =>
        match s.maps[i]? with
        | some (.verbatim, _) => some (.lab (.named n))
        | some (.remap, m) => (alookup m (.named n)).map (fun id => .lab (.named id))
        | none => none
      | _, _ => none
    | _ => none
  | _ => none

def dterm? (s : St) (w : String) : Option DT :=
  match numAfter 'i' w, numAfter 'l' w, numAfter 'n' w, numAfter 'a' w with
  | some n, _, _, _ => some (.iri n)
  | _, some n, _, _ => some (.lit n)
  | _, _, some n, _ => some (.lab (.named n))
  | _, _, _, some n => some (.lab (.anon n))
  | _, _, _, _ => refLabel? s w

def showT : T → String
  | .iri n => s!"i{n}"
  | .lit n => s!"l{n}"
  | .bn n => s!"b{n}"
  | .skol n => s!"k{n}"

def showQuad (q : Quad) : String :=
  ",".intercalate [showT q.1, showT q.2.1, showT q.2.2.1, showT q.2.2.2]

def bnOf : T → List Nat
  | .bn n => [n]
  | _ => []

def nodeList (qs : List Quad) : List Nat :=
  qs.foldl (fun acc q => (bnOf q.1 ++ bnOf q.2.1 ++ bnOf q.2.2.1 ++ bnOf q.2.2.2).foldl sinsert acc) []

def step (s : St) : List String → St × String
  | ["reset"] => (St.empty, "ok")
  | ["init", a, b, c, d] =>
    match tterm? a, tterm? b, tterm? c, tterm? d with
    | some a, some b, some c, some d => ({ s with ds := { s.ds with quads := sinsert s.ds.quads (a, b, c, d) } }, "ok")
    | _, _, _, _ => (s, "bad-op")
  | "doc" :: p :: into :: ws =>
    let s0 := { s with cur := [], dels := [], par := none, opts := CallOpts.default, ctxK := none, instK := none }
    match (if p = "r" then some Policy.remap else if p = "v" then some Policy.verbatim else none), parser? p, tterm? into with
    | some p, _, some t => if ws.isEmpty then ({ s0 with pol := p, into := t }, "ok") else (s, "bad-op")
    | none, some pr, some t =>
      match applyOpts { s0 with par := some pr, into := t } ws with
      | some s1 => ({ s1 with pol := (loptsOf pr s1.opts).pol }, "ok")
      | none => (s, "bad-op")
    | _, _, _ => (s, "bad-op")
  | ["q", a, b, c, d] =>
    match dterm? s a, dterm? s b, dterm? s c with
    | some a, some b, some c =>
      if d = "-" then ({ s with cur := .stmt (a, b, c, none) :: s.cur }, "ok")
      else match dterm? s d with
        | some g => ({ s with cur := .stmt (a, b, c, some g) :: s.cur }, "ok")
        | none => (s, "bad-op")
    | _, _, _ => (s, "bad-op")
  | ["d", a, b, c, d] =>
    -- a `D` row of an RDF Patch (written after the `A` rows)
    match dterm? s a, dterm? s b, dterm? s c with
    | some a, some b, some c =>
      if d = "-" then ({ s with dels := (a, b, c, none) :: s.dels }, "ok")
      else match dterm? s d with
        | some g => ({ s with dels := (a, b, c, some g) :: s.dels }, "ok")
        | none => (s, "bad-op")
    | _, _, _ => (s, "bad-op")
  | ["open"] => ({ s with cur := .opn :: s.cur }, "ok")
  | ["close"] => ({ s with cur := .cls :: s.cur }, "ok")
  | ["end"] =>
    let evs := s.cur.reverse
    let doc := stmtsOf evs
    match s.par with
    | none =>
      let m := finalMap s.ds s.pol s.into doc
      ({ s with ds := parseInto s.ds s.pol s.into doc, cur := [], maps := s.maps ++ [(s.pol, m)] }, "ok")
    | some .turtle | some .n3 | some .trig =>
      -- the N3-family parser as coded: a stack of label dicts (`Parsers.n3Run`)
      let r := n3Run s.into ⟨s.ds.fresh, [], [], []⟩ evs
      ({ s with ds := parseN3 s.ds s.into evs, cur := [], maps := s.maps ++ [(.remap, r.1.cur)] }, "ok")
    | some .patch =>
      -- RDF Patch: `A` rows then `D` rows, always into the dataset's default graph (i0), labels verbatim
      let rows := doc.map (fun q => (POp.add, q)) ++ s.dels.reverse.map (fun q => (POp.del, q))
      ({ s with ds := parsePatch s.ds (.iri 0) rows, cur := [], dels := [], maps := s.maps ++ [(.verbatim, [])] }, "ok")
    | some pr =>
      -- the dicts this call sees: the caller's `bnode_context` (if given) and the parser object's `_bnode_ids`
      let arg := s.ctxK.map (fun k => (klookup s.ctxs k).getD [])
      let self := match s.instK with
        | some k => (klookup s.insts k).getD []
        | none => []
      let r := parseWith pr s.opts s.ds (ntStart arg self) s.into doc
      let fin := ntFinish arg self r.2
      let ctxs := match s.ctxK, fin.1 with
        | some k, some m => kset s.ctxs k m
        | _, _ => s.ctxs
      let insts := match s.instK with
        | some k => kset s.insts k fin.2
        | none => s.insts
      ({ s with ds := r.1, cur := [], maps := s.maps ++ [(s.pol, r.2)], ctxs := ctxs, insts := insts }, "ok")
  | ["ctxset", k, l, b] =>
    -- the caller put an entry into its dict before handing it over:  ctx[K][label] = node
    match k.toNat?, numAfter 'n' l, numAfter 'b' b with
    | some k, some l, some b =>
      let m := (klookup s.ctxs k).getD []
      (match alookup m (.named l) with
        | some _ => (s, "ok")
        | none => ({ s with ctxs := kset s.ctxs k ((.named l, b) :: m) }, "ok"))
    | _, _, _ => (s, "bad-op")
  | ["ctx", k] =>
    match k.toNat? with
    | some k => (s, showCtx ((klookup s.ctxs k).getD []))
    | none => (s, "bad-op")
  | ["obs"] => (s, " ".intercalate (s.ds.quads.map showQuad))
  | ["nodes"] => (s, toString (nodeList s.ds.quads).length)
  | _ => (s, "bad-op")

def main : IO Unit := RV.Proto.run step St.empty
