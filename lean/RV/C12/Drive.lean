import RV.C12.Model
import RV.Base.Proto
/-
  C12 driver.  Terms are owned by the harness:
      iN  IRI N        lN  literal N        bN  blank node with id N (target side; init content, `into`)
      nN  named label N   aN  anonymous node N   (document side)
      rI.N  named label whose number is the node id that finished document #I gave to its label nN
            ("read a generated id off the graph and use it as a label")
      -   the document's default graph
  Protocol:
    reset                 -> ok     empty target, uuid supply at 1000, no finished documents
    init s p o g          -> ok     a quad already in the target (blank nodes `bN`, N < 1000)
    doc <r|v> <into>      -> ok     start a document; r = remap, v = verbatim; into = target graph name
    q s p o g             -> ok     next statement of the document (g may be `-`)
    end                   -> ok     parse the document into the target (Graph.parse)
    obs                   -> the target's quads:  s,p,o,g s,p,o,g …   (order irrelevant; harness canonicalises)
    nodes                 -> number of distinct blank nodes in the target
-/
open RV RV.C12 RV.Proto

structure St where
  ds : DS
  pol : Policy
  into : T
  cur : List DQuad                       -- statements of the open document, reversed
  maps : List (Policy × List (Lbl × Nat)) -- finished documents, in order

def St.empty : St := ⟨⟨[], 1000⟩, .remap, .iri 0, [], []⟩

def numAfter (pfx : Char) (w : String) : Option Nat :=
  match w.toList with
  | c :: rest => if c = pfx && !rest.isEmpty then (String.ofList rest).toNat? else none
  | [] => none

def tterm? (w : String) : Option T :=
  match numAfter 'i' w, numAfter 'l' w, numAfter 'b' w with
  | some n, _, _ => some (.iri n)
  | _, some n, _ => some (.lit n)
  | _, _, some n => some (.bn n)
  | _, _, _ => none

def refLabel? (s : St) (w : String) : Option DT :=
  match w.toList with
  | 'r' :: rest =>
    match (String.ofList rest).splitOn "." with
    | [a, b] =>
      match a.toNat?, b.toNat? with
      | some i, some n =>
        match s.maps[i]? with
        | some (.verbatim, _) => some (.lab (.named n))
        | some (.remap, m) => (alookup m (.named n)).map (fun id => .lab (.named id))
        | none => none
      | _, _ => none
    | _ => none
  | _ => none

def dterm? (s : St) (w : String) : Option DT :=
  match numAfter 'i' w, numAfter 'l' w, numAfter 'n' w, numAfter 'a' w with
  | some n, _, _, _ => some (.iri n)
  | _, some n, _, _ => some (.lit n)
  | _, _, some n, _ => some (.lab (.named n))
  | _, _, _, some n => some (.lab (.anon n))
  | _, _, _, _ => refLabel? s w

def showT : T → String
  | .iri n => s!"i{n}"
  | .lit n => s!"l{n}"
  | .bn n => s!"b{n}"

def showQuad (q : Quad) : String :=
  ",".intercalate [showT q.1, showT q.2.1, showT q.2.2.1, showT q.2.2.2]

def bnOf : T → List Nat
  | .bn n => [n]
  | _ => []

def nodeList (qs : List Quad) : List Nat :=
  qs.foldl (fun acc q => (bnOf q.1 ++ bnOf q.2.1 ++ bnOf q.2.2.1 ++ bnOf q.2.2.2).foldl sinsert acc) []

def step (s : St) : List String → St × String
  | ["reset"] => (St.empty, "ok")
  | ["init", a, b, c, d] =>
    match tterm? a, tterm? b, tterm? c, tterm? d with
    | some a, some b, some c, some d => ({ s with ds := { s.ds with quads := sinsert s.ds.quads (a, b, c, d) } }, "ok")
    | _, _, _, _ => (s, "bad-op")
  | ["doc", p, into] =>
    match (if p = "r" then some Policy.remap else if p = "v" then some Policy.verbatim else none), tterm? into with
    | some p, some t => ({ s with pol := p, into := t, cur := [] }, "ok")
    | _, _ => (s, "bad-op")
  | ["q", a, b, c, d] =>
    match dterm? s a, dterm? s b, dterm? s c with
    | some a, some b, some c =>
      if d = "-" then ({ s with cur := (a, b, c, none) :: s.cur }, "ok")
      else match dterm? s d with
        | some g => ({ s with cur := (a, b, c, some g) :: s.cur }, "ok")
        | none => (s, "bad-op")
    | _, _, _ => (s, "bad-op")
  | ["end"] =>
    let doc := s.cur.reverse
    let m := finalMap s.ds s.pol s.into doc
    ({ s with ds := parseInto s.ds s.pol s.into doc, cur := [], maps := s.maps ++ [(s.pol, m)] }, "ok")
  | ["obs"] => (s, " ".intercalate (s.ds.quads.map showQuad))
  | ["nodes"] => (s, toString (nodeList s.ds.quads).length)
  | _ => (s, "bad-op")

def main : IO Unit := RV.Proto.run step St.empty
