import RV.C12.Model
namespace RV.C12
end RV.C12
