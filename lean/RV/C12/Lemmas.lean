import RV.C12.Spec
/-
  C12 — helper lemmas: the label map only grows, lookups are stable, values are fresh and
  pairwise distinct; the one-pass parser emits exactly `rename σ doc` for the assignment σ read
  off its final label map.
-/
namespace RV.C12

/-! ### the assignment read off a label map -/

/-- the node a label denotes under policy `pol` and label map `m` -/
def sigma (pol : Policy) (m : List (Lbl × Nat)) (l : Lbl) : Nat :=
  match pol, l with
  | .verbatim, .named n => n
  | _, _ => (alookup m l).getD 0

/-- the label has been seen (its node is determined by `m`) -/
def Def (pol : Policy) (m : List (Lbl × Nat)) (l : Lbl) : Prop :=
  match pol, l with
  | .verbatim, .named _ => True
  | _, _ => ∃ b, alookup m l = some b

def ExtMap (m m' : List (Lbl × Nat)) : Prop :=
  ∀ l b, alookup m l = some b → alookup m' l = some b

theorem ExtMap.refl (m : List (Lbl × Nat)) : ExtMap m m := fun _ _ h => h
theorem ExtMap.trans {a b c : List (Lbl × Nat)} (h : ExtMap a b) (h' : ExtMap b c) : ExtMap a c :=
  fun l x hx => h' l x (h l x hx)

structure Ext (st st' : PS) : Prop where
  fresh : st.fresh ≤ st'.fresh
  map : ExtMap st.map st'.map

theorem Ext.refl (st : PS) : Ext st st := ⟨Nat.le_refl _, ExtMap.refl _⟩
theorem Ext.trans {a b c : PS} (h : Ext a b) (h' : Ext b c) : Ext a c :=
  ⟨Nat.le_trans h.fresh h'.fresh, h.map.trans h'.map⟩

/-- every node in the label map was taken from the supply after `f0`, and no two labels share one -/
structure MapInv (f0 : Nat) (st : PS) : Prop where
  lo : f0 ≤ st.fresh
  range : ∀ l b, alookup st.map l = some b → f0 ≤ b ∧ b < st.fresh
  inj : ∀ l l' b, alookup st.map l = some b → alookup st.map l' = some b → l = l'

theorem alookup_cons (k : Lbl) (v : Nat) (m : List (Lbl × Nat)) (l : Lbl) :
    alookup ((k, v) :: m) l = if k = l then some v else alookup m l := rfl

theorem Def.mono {pol : Policy} {m m' : List (Lbl × Nat)} {l : Lbl} (h : Def pol m l) (e : ExtMap m m') :
    Def pol m' l := by
  cases pol <;> cases l <;> simp only [Def] at h ⊢ <;>
    first
    | trivial
    | (obtain ⟨b, hb⟩ := h; exact ⟨b, e _ _ hb⟩)

theorem sigma_stable {pol : Policy} {m m' : List (Lbl × Nat)} {l : Lbl} (h : Def pol m l) (e : ExtMap m m') :
    sigma pol m' l = sigma pol m l := by
  cases pol <;> cases l <;> simp only [Def, sigma] at h ⊢ <;>
    first
    | rfl
    | (obtain ⟨b, hb⟩ := h; rw [hb, e _ _ hb])

/-! ### `alloc`, `nodeid` -/

theorem alloc_spec {f0 : Nat} (st : PS) (l : Lbl) (h : MapInv f0 st) :
    Ext st (alloc st l).1 ∧ MapInv f0 (alloc st l).1 ∧
    alookup (alloc st l).1.map l = some (alloc st l).2 ∧ (alloc st l).2 < (alloc st l).1.fresh := by
  unfold alloc
  split
  · next b hb => exact ⟨Ext.refl _, h, hb, (h.range l b hb).2⟩
  · next hn =>
    refine ⟨⟨Nat.le_succ _, ?_⟩, ⟨Nat.le_succ_of_le h.lo, ?_, ?_⟩, ?_, Nat.lt_succ_self _⟩
    · intro l' b hb
      rw [alookup_cons]
      split
      · next e => subst e; rw [hn] at hb; cases hb
      · exact hb
    · intro l' b hb
      rw [alookup_cons] at hb
      split at hb
      · cases hb; exact ⟨h.lo, Nat.lt_succ_self _⟩
      · exact ⟨(h.range l' b hb).1, Nat.lt_succ_of_lt (h.range l' b hb).2⟩
    · intro l1 l2 b h1 h2
      rw [alookup_cons] at h1 h2
      split at h1 <;> split at h2
      · next e1 e2 => rw [← e1, ← e2]
      · next e1 _ => cases h1; exact absurd (h.range l2 _ h2).2 (Nat.lt_irrefl _)
      · next _ e2 => cases h2; exact absurd (h.range l1 _ h1).2 (Nat.lt_irrefl _)
      · exact h.inj l1 l2 b h1 h2
    · rw [alookup_cons]; simp

theorem nodeid_spec {f0 : Nat} (pol : Policy) (st : PS) (l : Lbl) (h : MapInv f0 st) :
    Ext st (nodeid pol st l).1 ∧ MapInv f0 (nodeid pol st l).1 ∧ Def pol (nodeid pol st l).1.map l ∧
    (nodeid pol st l).2 = sigma pol (nodeid pol st l).1.map l ∧ (nodeid pol st l).2 < (nodeid pol st l).1.fresh := by
  have ha := alloc_spec st l h
  have generic : nodeid pol st l = alloc st l →
      (∀ b, alookup (alloc st l).1.map l = some b → Def pol (alloc st l).1.map l ∧ b = sigma pol (alloc st l).1.map l) →
      Ext st (nodeid pol st l).1 ∧ MapInv f0 (nodeid pol st l).1 ∧ Def pol (nodeid pol st l).1.map l ∧
      (nodeid pol st l).2 = sigma pol (nodeid pol st l).1.map l ∧ (nodeid pol st l).2 < (nodeid pol st l).1.fresh := by
    intro e hd
    rw [e]
    obtain ⟨h1, h2, h3, h4⟩ := ha
    exact ⟨h1, h2, (hd _ h3).1, (hd _ h3).2, h4⟩
  cases pol with
  | remap =>
    apply generic
    · cases l <;> rfl
    · intro b hb
      cases l <;> exact ⟨⟨_, hb⟩, by simp only [sigma, hb, Option.getD_some]⟩
  | verbatim =>
    cases l with
    | anon n =>
      apply generic
      · rfl
      · intro b hb
        exact ⟨⟨_, hb⟩, by simp only [sigma, hb, Option.getD_some]⟩
    | inner s n =>
      apply generic
      · rfl
      · intro b hb
        exact ⟨⟨_, hb⟩, by simp only [sigma, hb, Option.getD_some]⟩
    | named n =>
      refine ⟨⟨Nat.le_max_left _ _, ExtMap.refl _⟩, ⟨Nat.le_trans h.lo (Nat.le_max_left _ _), ?_, h.inj⟩, trivial, rfl, ?_⟩
      · intro l b hb
        exact ⟨(h.range l b hb).1, Nat.lt_of_lt_of_le (h.range l b hb).2 (Nat.le_max_left _ _)⟩
      · exact Nat.lt_of_lt_of_le (Nat.lt_succ_self n) (Nat.le_max_right _ _)

/-! ### terms, graph names, statements -/

def TDef (pol : Policy) (m : List (Lbl × Nat)) (t : DT) : Prop := ∀ l, t = .lab l → Def pol m l
def TBound (f : Nat) (t : T) : Prop := ∀ b, t = .bn b → b < f

theorem TDef.mono {pol : Policy} {m m' : List (Lbl × Nat)} {t : DT} (h : TDef pol m t) (e : ExtMap m m') : TDef pol m' t :=
  fun l hl => (h l hl).mono e

theorem TBound.mono {f f' : Nat} {t : T} (h : TBound f t) (e : f ≤ f') : TBound f' t :=
  fun b hb => Nat.lt_of_lt_of_le (h b hb) e

theorem tren_stable {pol : Policy} {m m' : List (Lbl × Nat)} {t : DT} (h : TDef pol m t) (e : ExtMap m m') :
    tren (sigma pol m') t = tren (sigma pol m) t := by
  cases t with
  | iri n => rfl
  | lit n => rfl
  | lab l => simp only [tren]; rw [sigma_stable (h l rfl) e]

theorem tren_congr {σ σ' : Lbl → Nat} {t : DT} (h : ∀ l, t = .lab l → σ l = σ' l) : tren σ t = tren σ' t := by
  cases t with
  | iri n => rfl
  | lit n => rfl
  | lab l => simp only [tren]; rw [h l rfl]

theorem term_spec {f0 : Nat} (pol : Policy) (st : PS) (t : DT) (h : MapInv f0 st) :
    Ext st (term pol st t).1 ∧ MapInv f0 (term pol st t).1 ∧ TDef pol (term pol st t).1.map t ∧
    (term pol st t).2 = tren (sigma pol (term pol st t).1.map) t ∧ TBound (term pol st t).1.fresh (term pol st t).2 := by
  cases t with
  | iri n => exact ⟨Ext.refl _, h, (fun l hl => by cases hl), rfl, (fun b hb => by cases hb)⟩
  | lit n => exact ⟨Ext.refl _, h, (fun l hl => by cases hl), rfl, (fun b hb => by cases hb)⟩
  | lab l =>
    obtain ⟨h1, h2, h3, h4, h5⟩ := nodeid_spec pol st l h
    refine ⟨h1, h2, ?_, ?_, ?_⟩
    · intro l' hl'; cases hl'; exact h3
    · simp only [term, tren]; rw [← h4]
    · intro b hb; simp only [term] at hb; cases hb; exact h5

def GDef (pol : Policy) (m : List (Lbl × Nat)) (g : Option DT) : Prop := ∀ l, g = some (.lab l) → Def pol m l

theorem gren_stable {pol : Policy} {m m' : List (Lbl × Nat)} {into : T} {g : Option DT} (h : GDef pol m g) (e : ExtMap m m') :
    gren (sigma pol m') into g = gren (sigma pol m) into g := by
  cases g with
  | none => rfl
  | some t =>
    simp only [gren]
    exact tren_stable (fun l hl => h l (by rw [hl])) e

theorem gname_spec {f0 : Nat} (pol : Policy) (into : T) (st : PS) (g : Option DT) (h : MapInv f0 st) :
    Ext st (gname pol into st g).1 ∧ MapInv f0 (gname pol into st g).1 ∧ GDef pol (gname pol into st g).1.map g ∧
    (gname pol into st g).2 = gren (sigma pol (gname pol into st g).1.map) into g ∧
    (TBound st.fresh into → TBound (gname pol into st g).1.fresh (gname pol into st g).2) := by
  cases g with
  | none => exact ⟨Ext.refl _, h, (fun l hl => by cases hl), rfl, (fun hi => hi)⟩
  | some t =>
    obtain ⟨h1, h2, h3, h4, h5⟩ := term_spec pol st t h
    exact ⟨h1, h2, fun l hl => h3 l (by cases hl; rfl), h4, fun _ => h5⟩

def QDef (pol : Policy) (m : List (Lbl × Nat)) (q : DQuad) : Prop := ∀ l, DQuad.has q l → Def pol m l
def QBound (f : Nat) (q : Quad) : Prop := ∀ b, Quad.hasNode q b → b < f

theorem qren_congr {σ σ' : Lbl → Nat} {into : T} {q : DQuad} (h : ∀ l, DQuad.has q l → σ l = σ' l) :
    qren σ into q = qren σ' into q := by
  obtain ⟨s, p, o, g⟩ := q
  simp only [qren]
  rw [tren_congr (t := s) (fun l hl => h l (Or.inl hl)),
      tren_congr (t := p) (fun l hl => h l (Or.inr (Or.inl hl))),
      tren_congr (t := o) (fun l hl => h l (Or.inr (Or.inr (Or.inl hl))))]
  cases g with
  | none => rfl
  | some t =>
    simp only [gren]
    rw [tren_congr (t := t) (fun l hl => h l (Or.inr (Or.inr (Or.inr (by rw [hl])))))]

theorem qren_stable {pol : Policy} {m m' : List (Lbl × Nat)} {into : T} {q : DQuad} (h : QDef pol m q) (e : ExtMap m m') :
    qren (sigma pol m') into q = qren (sigma pol m) into q :=
  qren_congr (fun l hl => sigma_stable (h l hl) e)

theorem quad_spec {f0 : Nat} (pol : Policy) (into : T) (st : PS) (q : DQuad) (h : MapInv f0 st) :
    Ext st (quad pol into st q).1 ∧ MapInv f0 (quad pol into st q).1 ∧ QDef pol (quad pol into st q).1.map q ∧
    (quad pol into st q).2 = qren (sigma pol (quad pol into st q).1.map) into q ∧
    (TBound st.fresh into → QBound (quad pol into st q).1.fresh (quad pol into st q).2) := by
  obtain ⟨s, p, o, g⟩ := q
  obtain ⟨e1, i1, d1, r1, b1⟩ := term_spec pol st s h
  obtain ⟨e2, i2, d2, r2, b2⟩ := term_spec pol (term pol st s).1 p i1
  obtain ⟨e3, i3, d3, r3, b3⟩ := term_spec pol (term pol (term pol st s).1 p).1 o i2
  obtain ⟨e4, i4, d4, r4, b4⟩ := gname_spec pol into (term pol (term pol (term pol st s).1 p).1 o).1 g i3
  simp only [quad]
  refine ⟨e1.trans (e2.trans (e3.trans e4)), i4, ?_, ?_, ?_⟩
  · intro l hl
    rcases hl with hl | hl | hl | hl
    · exact (d1 l hl).mono (e2.map.trans (e3.map.trans e4.map))
    · exact (d2 l hl).mono (e3.map.trans e4.map)
    · exact (d3 l hl).mono e4.map
    · exact d4 l hl
  · simp only [qren]
    rw [r1, r2, r3, r4, tren_stable d1 (e2.map.trans (e3.map.trans e4.map)), tren_stable d2 (e3.map.trans e4.map),
        tren_stable d3 e4.map]
  · intro hi b hb
    rcases hb with hb | hb | hb | hb
    · exact Nat.lt_of_lt_of_le (b1 b hb) (Nat.le_trans e2.fresh (Nat.le_trans e3.fresh e4.fresh))
    · exact Nat.lt_of_lt_of_le (b2 b hb) (Nat.le_trans e3.fresh e4.fresh)
    · exact Nat.lt_of_lt_of_le (b3 b hb) e4.fresh
    · exact b4 (hi.mono (Nat.le_trans e1.fresh (Nat.le_trans e2.fresh e3.fresh))) b hb

/-! ### the whole document -/

theorem emit_spec {f0 : Nat} (pol : Policy) (into : T) (doc : Doc) :
    ∀ (st : PS), MapInv f0 st →
    Ext st (emit pol into st doc).1 ∧ MapInv f0 (emit pol into st doc).1 ∧
    (∀ q ∈ doc, QDef pol (emit pol into st doc).1.map q) ∧
    (emit pol into st doc).2 = rename (sigma pol (emit pol into st doc).1.map) into doc ∧
    (TBound st.fresh into → ∀ q ∈ (emit pol into st doc).2, QBound (emit pol into st doc).1.fresh q) := by
  induction doc with
  | nil => intro st h; exact ⟨Ext.refl _, h, (fun q hq => by cases hq), rfl, (fun _ q hq => by cases hq)⟩
  | cons q qs ih =>
    intro st h
    obtain ⟨e1, i1, d1, r1, b1⟩ := quad_spec pol into st q h
    obtain ⟨e2, i2, d2, r2, b2⟩ := ih (quad pol into st q).1 i1
    simp only [emit]
    refine ⟨e1.trans e2, i2, ?_, ?_, ?_⟩
    · intro x hx
      rcases List.mem_cons.mp hx with hx | hx
      · subst hx; exact fun l hl => (d1 l hl).mono e2.map
      · exact d2 x hx
    · simp only [rename, List.map_cons]
      rw [r1, qren_stable d1 e2.map, r2]
      rfl
    · intro hi x hx
      rcases List.mem_cons.mp hx with hx | hx
      · subst hx; exact fun b hb => Nat.lt_of_lt_of_le (b1 hi b hb) e2.fresh
      · exact b2 (hi.mono e1.fresh) x hx

theorem mapInv_init (f : Nat) : MapInv f ⟨f, []⟩ :=
  ⟨Nat.le_refl _, (fun _ _ h => by cases h), (fun _ _ _ h _ => by cases h)⟩

/-- the label assignment of a parse call -/
def sigmaOf (d : DS) (pol : Policy) (into : T) (doc : Doc) : Lbl → Nat :=
  sigma pol (finalMap d pol into doc)

theorem mem_addAll {new : List Quad} : ∀ {qs : List Quad} {x : Quad}, x ∈ addAll qs new ↔ x ∈ qs ∨ x ∈ new := by
  induction new with
  | nil => intro qs x; simp [addAll]
  | cons q rest ih =>
    intro qs x
    simp only [addAll]
    rw [ih, mem_sinsert, List.mem_cons]
    constructor
    · rintro ((h | h) | h)
      · exact Or.inr (Or.inl h)
      · exact Or.inl h
      · exact Or.inr (Or.inr h)
    · rintro (h | h | h)
      · exact Or.inl (Or.inr h)
      · exact Or.inl (Or.inl h)
      · exact Or.inr h

/-- everything about one parse call, in terms of `sigmaOf` -/
theorem parse_facts (d : DS) (pol : Policy) (into : T) (doc : Doc) :
    d.fresh ≤ (parseInto d pol into doc).fresh ∧
    (∀ x, x ∈ (parseInto d pol into doc).quads ↔ x ∈ d.quads ∨ x ∈ rename (sigmaOf d pol into doc) into doc) ∧
    (IntoOK d into → ∀ q ∈ rename (sigmaOf d pol into doc) into doc, QBound (parseInto d pol into doc).fresh q) ∧
    (∀ l, Doc.has doc l → Def pol (finalMap d pol into doc) l) ∧
    MapInv d.fresh (parseDoc d.fresh pol into doc).1 := by
  obtain ⟨e, i, dd, r, b⟩ := emit_spec pol into doc ⟨d.fresh, []⟩ (mapInv_init d.fresh)
  refine ⟨e.fresh, ?_, ?_, ?_, i⟩
  · intro x
    simp only [parseInto, parseDoc, sigmaOf, finalMap]
    rw [mem_addAll, r]
  · intro hi q hq
    simp only [sigmaOf, finalMap, parseDoc] at hq
    rw [← r] at hq
    exact b hi q hq
  · rintro l ⟨q, hq, hl⟩
    exact dd q hq l hl

theorem has_hasNode {σ : Lbl → Nat} {into : T} {q : DQuad} {l : Lbl} (h : DQuad.has q l) :
    Quad.hasNode (qren σ into q) (σ l) := by
  obtain ⟨s, p, o, g⟩ := q
  simp only [DQuad.has] at h
  simp only [Quad.hasNode, qren]
  rcases h with h | h | h | h
  · exact Or.inl (by rw [h]; rfl)
  · exact Or.inr (Or.inl (by rw [h]; rfl))
  · exact Or.inr (Or.inr (Or.inl (by rw [h]; rfl)))
  · exact Or.inr (Or.inr (Or.inr (by rw [h]; rfl)))

theorem doc_has_hasNode {σ : Lbl → Nat} {into : T} {doc : Doc} {l : Lbl} (h : Doc.has doc l) :
    HasNode (rename σ into doc) (σ l) := by
  obtain ⟨q, hq, hl⟩ := h
  exact ⟨qren σ into q, List.mem_map.mpr ⟨q, hq, rfl⟩, has_hasNode hl⟩

/-- under `remap` the assignment takes its values from the supply, injectively -/
theorem remap_facts (d : DS) (into : T) (doc : Doc) :
    (∀ l, Doc.has doc l → d.fresh ≤ sigmaOf d .remap into doc l ∧
      sigmaOf d .remap into doc l < (parseInto d .remap into doc).fresh) ∧ InjOn (sigmaOf d .remap into doc) doc := by
  obtain ⟨_, _, _, hd, hm⟩ := parse_facts d .remap into doc
  have key : ∀ l, Doc.has doc l → alookup (finalMap d .remap into doc) l = some (sigmaOf d .remap into doc l) := by
    intro l hl
    have := hd l hl
    cases l <;> simp only [Def] at this <;> obtain ⟨b, hb⟩ := this <;>
      simp only [sigmaOf, sigma, hb, Option.getD_some]
  constructor
  · intro l hl
    exact hm.range l _ (key l hl)
  · intro l l' hl hl' e
    have h1 := key l hl
    have h2 := key l' hl'
    rw [← e] at h2
    exact hm.inj l l' _ h1 h2

theorem wf_parseInto (d : DS) (pol : Policy) (into : T) (doc : Doc) (hw : WF d) (hi : IntoOK d into) :
    WF (parseInto d pol into doc) := by
  obtain ⟨hf, hq, hb, _, _⟩ := parse_facts d pol into doc
  intro b ⟨q, hqm, hn⟩
  rcases (hq q).mp hqm with h | h
  · exact Nat.lt_of_lt_of_le (hw b ⟨q, h, hn⟩) hf
  · exact hb hi q h b hn

/-! ### inverse assignment (for the isomorphism between two parses of one document) -/

def plookup : List (Nat × Nat) → Nat → Option Nat
  | [], _ => none
  | (k, v) :: m, b => if k = b then some v else plookup m b

/-- `π = σ₂ ∘ σ₁⁻¹` on the values `σ₁` takes on the given labels, identity elsewhere -/
def transport (σ₁ σ₂ : Lbl → Nat) (ls : List Lbl) (b : Nat) : Nat :=
  (plookup (ls.map (fun l => (σ₁ l, σ₂ l))) b).getD b

theorem transport_spec {σ₁ σ₂ : Lbl → Nat} (ls : List Lbl)
    (inj : ∀ l l', l ∈ ls → l' ∈ ls → σ₁ l = σ₁ l' → l = l') :
    ∀ l, l ∈ ls → transport σ₁ σ₂ ls (σ₁ l) = σ₂ l := by
  induction ls with
  | nil => intro l hl; cases hl
  | cons a rest ih =>
    intro l hl
    simp only [transport, List.map_cons, plookup]
    split
    · next e =>
      have : a = l := inj a l List.mem_cons_self hl e
      subst this; rfl
    · next ne =>
      rcases List.mem_cons.mp hl with h | h
      · exact absurd (by rw [h]) ne
      · exact ih (fun x y hx hy => inj x y (List.mem_cons_of_mem _ hx) (List.mem_cons_of_mem _ hy)) l h

/-- the labels of a document, as a list -/
def DT.labels : DT → List Lbl
  | .lab l => [l]
  | _ => []

def DQuad.labels (q : DQuad) : List Lbl :=
  DT.labels q.1 ++ DT.labels q.2.1 ++ DT.labels q.2.2.1 ++ (match q.2.2.2 with | none => [] | some g => DT.labels g)

def Doc.labels : Doc → List Lbl
  | [] => []
  | q :: qs => DQuad.labels q ++ Doc.labels qs

theorem DT.mem_labels {t : DT} {l : Lbl} : l ∈ DT.labels t ↔ t = .lab l := by
  cases t <;> simp [DT.labels, eq_comm]

theorem DQuad.mem_labels {q : DQuad} {l : Lbl} : l ∈ DQuad.labels q ↔ DQuad.has q l := by
  obtain ⟨s, p, o, g⟩ := q
  cases g with
  | none => simp [DQuad.labels, DQuad.has, DT.mem_labels]
  | some t => simp [DQuad.labels, DQuad.has, DT.mem_labels]

theorem Doc.mem_labels {doc : Doc} {l : Lbl} : l ∈ Doc.labels doc ↔ Doc.has doc l := by
  induction doc with
  | nil => simp [Doc.labels, Doc.has]
  | cons q qs ih =>
    simp only [Doc.labels, List.mem_append, ih, DQuad.mem_labels, Doc.has, List.mem_cons]
    constructor
    · rintro (h | ⟨x, hx, hl⟩)
      · exact ⟨q, Or.inl rfl, h⟩
      · exact ⟨x, Or.inr hx, hl⟩
    · rintro ⟨x, hx | hx, hl⟩
      · subst hx; exact Or.inl hl
      · exact Or.inr ⟨x, hx, hl⟩

theorem tmapT_tren {π : Nat → Nat} {σ₁ σ₂ : Lbl → Nat} {t : DT} (h : ∀ l, t = .lab l → π (σ₁ l) = σ₂ l) :
    tmapT π (tren σ₁ t) = tren σ₂ t := by
  cases t with
  | iri n => rfl
  | lit n => rfl
  | lab l => simp only [tren, tmapT]; rw [h l rfl]

theorem qmapT_qren {π : Nat → Nat} {σ₁ σ₂ : Lbl → Nat} {into : T} {q : DQuad}
    (hπ : ∀ l, DQuad.has q l → π (σ₁ l) = σ₂ l) (hinto : tmapT π into = into) :
    qmapT π (qren σ₁ into q) = qren σ₂ into q := by
  obtain ⟨s, p, o, g⟩ := q
  simp only [qmapT, qren]
  rw [tmapT_tren (t := s) (fun l hl => hπ l (Or.inl hl)),
      tmapT_tren (t := p) (fun l hl => hπ l (Or.inr (Or.inl hl))),
      tmapT_tren (t := o) (fun l hl => hπ l (Or.inr (Or.inr (Or.inl hl))))]
  cases g with
  | none => simp only [gren]; rw [hinto]
  | some t =>
    simp only [gren]
    rw [tmapT_tren (t := t) (fun l hl => hπ l (Or.inr (Or.inr (Or.inr (by rw [hl])))))]

end RV.C12

namespace RV.C12

theorem hasNode_tren {σ : Lbl → Nat} {t : DT} {b : Nat} (h : tren σ t = .bn b) : ∃ l, t = .lab l ∧ b = σ l := by
  cases t with
  | iri n => cases h
  | lit n => cases h
  | lab l => simp only [tren] at h; cases h; exact ⟨l, rfl, rfl⟩

/-- a blank node of a renamed statement is the image of one of its labels, or the graph parsed into -/
theorem hasNode_qren {σ : Lbl → Nat} {into : T} {q : DQuad} {b : Nat} (h : Quad.hasNode (qren σ into q) b) :
    (∃ l, DQuad.has q l ∧ b = σ l) ∨ into = .bn b := by
  obtain ⟨s, p, o, g⟩ := q
  simp only [Quad.hasNode, qren] at h
  rcases h with h | h | h | h
  · obtain ⟨l, hl, e⟩ := hasNode_tren h; exact Or.inl ⟨l, Or.inl hl, e⟩
  · obtain ⟨l, hl, e⟩ := hasNode_tren h; exact Or.inl ⟨l, Or.inr (Or.inl hl), e⟩
  · obtain ⟨l, hl, e⟩ := hasNode_tren h; exact Or.inl ⟨l, Or.inr (Or.inr (Or.inl hl)), e⟩
  · cases g with
    | none => exact Or.inr h
    | some t =>
      simp only [gren] at h
      obtain ⟨l, hl, e⟩ := hasNode_tren h
      exact Or.inl ⟨l, Or.inr (Or.inr (Or.inr (by rw [hl]))), e⟩

/-! ### histories: a sequence of parse calls (all with per-call label maps) -/

def parseAll (d : DS) : List (T × Doc) → DS
  | [] => d
  | x :: rest => parseAll (parseInto d .remap x.1 x.2) rest

theorem parseAll_append (d : DS) (a b : List (T × Doc)) : parseAll d (a ++ b) = parseAll (parseAll d a) b := by
  induction a generalizing d with
  | nil => rfl
  | cons x rest ih => simp only [List.cons_append, parseAll]; exact ih _

theorem parseAll_facts (docs : List (T × Doc)) : ∀ (d : DS), WF d → (∀ x ∈ docs, IntoOK d x.1) →
    WF (parseAll d docs) ∧ d.fresh ≤ (parseAll d docs).fresh ∧ (∀ q, q ∈ d.quads → q ∈ (parseAll d docs).quads) := by
  induction docs with
  | nil => intro d hw _; exact ⟨hw, Nat.le_refl _, fun _ h => h⟩
  | cons x rest ih =>
    intro d hw hi
    have hx := hi x List.mem_cons_self
    obtain ⟨hf, hq, _, _, _⟩ := parse_facts d .remap x.1 x.2
    have hw' := wf_parseInto d .remap x.1 x.2 hw hx
    have hi' : ∀ y ∈ rest, IntoOK (parseInto d .remap x.1 x.2) y.1 :=
      fun y hy b hb => Nat.lt_of_lt_of_le (hi y (List.mem_cons_of_mem _ hy) b hb) hf
    obtain ⟨h1, h2, h3⟩ := ih _ hw' hi'
    exact ⟨h1, Nat.le_trans hf h2, fun q hq' => h3 q ((hq q).mpr (Or.inl hq'))⟩

end RV.C12
