import RV.C12.Parsers
import RV.C12.Lemmas
/-
  C12, round g — lemmas about the per-parser node functions and the option-aware pass:
  each node function is the summary `nodeO (loptsOf p c)`; `emitO` emits `renameO` of the kept
  statements under the assignment read off the final dict; dict invariants along shared calls.
-/
namespace RV.C12

/-! ### node functions = their summaries -/

theorem getOrNew_eq (st : PS) (l : Lbl) : getOrNew st l = ((alloc st l).1, .bn (alloc st l).2) := by
  unfold getOrNew alloc
  cases alookup st.map l <;> rfl

theorem nodeid_remap (st : PS) (l : Lbl) : nodeid .remap st l = alloc st l := by
  cases l <;> rfl

theorem nodeid_verbatim_anon (st : PS) (n : Nat) : nodeid .verbatim st (.anon n) = alloc st (.anon n) := rfl

theorem nodeFn_eq (p : Parser) (c : CallOpts) (st : PS) (l : Lbl) :
    nodeFn p c st l = nodeO (loptsOf p c) st l := by
  obtain ⟨sk, pre, gen⟩ := c
  cases p <;> cases sk <;> cases pre <;> cases l <;>
    simp [nodeFn, loptsOf, nodeO, ntNodeid, n3AnonymousNode, xmlNode, trixGetBnode, jsonldNode, hextNode, patchNode,
      getOrNew_eq, keepLabel, wrapT, skolT, nodeid]

theorem emitF_congr {nf nf' : PS → Lbl → PS × T} (h : ∀ st l, nf st l = nf' st l) (gen : Bool) (into : T) (doc : Doc) (st : PS) :
    emitF nf gen into st doc = emitF nf' gen into st doc := by
  have : nf = nf' := funext fun st => funext fun l => h st l
  rw [this]

theorem genOf_eq (p : Parser) (c : CallOpts) : genOf p c = (loptsOf p c).gen := by
  cases p <;> rfl

theorem parseWith_eq (p : Parser) (c : CallOpts) (d : DS) (m0 : LMap) (into : T) (doc : Doc) :
    parseWith p c d m0 into doc = parseO (loptsOf p c) d m0 into doc := by
  simp only [parseWith, parseO, emitO, genOf_eq]
  rw [emitF_congr (nodeFn_eq p c)]

/-! ### the option-aware renaming (specification side) -/

def trenO (o : LOpts) (σ : Lbl → Nat) (t : DT) : T := wrapT o.sk (tren σ t)

def grenO (o : LOpts) (σ : Lbl → Nat) (into : T) : Option DT → T
  | none => into
  | some g => trenO o σ g

def qrenO (o : LOpts) (σ : Lbl → Nat) (into : T) (q : DQuad) : Quad :=
  (trenO o σ q.1, trenO o σ q.2.1, trenO o σ q.2.2.1, grenO o σ into q.2.2.2)

/-- the statement survives: its predicate is not a blank node, or generalized RDF is produced -/
def kept (gen : Bool) (q : DQuad) : Bool := gen || !q.2.1.isLab

def keptDoc (gen : Bool) (doc : Doc) : Doc := doc.filter (kept gen)

def renameO (o : LOpts) (σ : Lbl → Nat) (into : T) (doc : Doc) : List Quad :=
  (keptDoc o.gen doc).map (qrenO o σ into)

theorem wrapT_false (t : T) : wrapT false t = t := rfl

theorem qrenO_nosk {o : LOpts} (h : o.sk = false) (σ : Lbl → Nat) (into : T) (q : DQuad) :
    qrenO o σ into q = qren σ into q := by
  obtain ⟨s, p, ob, g⟩ := q
  cases g <;> simp [qrenO, qren, trenO, grenO, gren, h, wrapT]

theorem renameO_nosk {o : LOpts} (h : o.sk = false) (σ : Lbl → Nat) (into : T) (doc : Doc) :
    renameO o σ into doc = rename σ into (keptDoc o.gen doc) := by
  simp only [renameO, rename]
  exact List.map_congr_left (fun q _ => qrenO_nosk h σ into q)

theorem keptDoc_true (doc : Doc) : keptDoc true doc = doc := by
  simp [keptDoc, kept]

theorem TBound_wrapT {f : Nat} {t : T} (sk : Bool) (h : TBound f t) : TBound f (wrapT sk t) := by
  cases sk
  · exact h
  · intro b hb
    cases t <;> simp [wrapT, skolT] at hb

/-! ### spec of the option-aware pass -/

theorem termO_eq (o : LOpts) (st : PS) (t : DT) :
    termF (nodeO o) st t = ((term o.pol st t).1, wrapT o.sk (term o.pol st t).2) := by
  cases t <;> cases h : o.sk <;> simp [termF, term, nodeO, wrapT, skolT, h]

theorem termO_spec {f0 : Nat} (o : LOpts) (st : PS) (t : DT) (h : MapInv f0 st) :
    Ext st (termF (nodeO o) st t).1 ∧ MapInv f0 (termF (nodeO o) st t).1 ∧ TDef o.pol (termF (nodeO o) st t).1.map t ∧
    (termF (nodeO o) st t).2 = trenO o (sigma o.pol (termF (nodeO o) st t).1.map) t ∧
    TBound (termF (nodeO o) st t).1.fresh (termF (nodeO o) st t).2 := by
  obtain ⟨h1, h2, h3, h4, h5⟩ := term_spec o.pol st t h
  rw [termO_eq]
  refine ⟨h1, h2, h3, ?_, TBound_wrapT _ h5⟩
  simp only [trenO]
  rw [← h4]

theorem trenO_stable {o : LOpts} {m m' : LMap} {t : DT} (h : TDef o.pol m t) (e : ExtMap m m') :
    trenO o (sigma o.pol m') t = trenO o (sigma o.pol m) t := by
  simp only [trenO]; rw [tren_stable h e]

theorem gnameO_spec {f0 : Nat} (o : LOpts) (into : T) (st : PS) (g : Option DT) (h : MapInv f0 st) :
    Ext st (gnameF (nodeO o) into st g).1 ∧ MapInv f0 (gnameF (nodeO o) into st g).1 ∧
    GDef o.pol (gnameF (nodeO o) into st g).1.map g ∧
    (gnameF (nodeO o) into st g).2 = grenO o (sigma o.pol (gnameF (nodeO o) into st g).1.map) into g ∧
    (TBound st.fresh into → TBound (gnameF (nodeO o) into st g).1.fresh (gnameF (nodeO o) into st g).2) := by
  cases g with
  | none => exact ⟨Ext.refl _, h, (fun l hl => by cases hl), rfl, (fun hi => hi)⟩
  | some t =>
    obtain ⟨h1, h2, h3, h4, h5⟩ := termO_spec o st t h
    exact ⟨h1, h2, fun l hl => h3 l (by cases hl; rfl), h4, fun _ => h5⟩

theorem qrenO_stable {o : LOpts} {m m' : LMap} {into : T} {q : DQuad} (h : QDef o.pol m q) (e : ExtMap m m') :
    qrenO o (sigma o.pol m') into q = qrenO o (sigma o.pol m) into q := by
  obtain ⟨s, p, ob, g⟩ := q
  have hs : TDef o.pol m s := fun l hl => h l (Or.inl hl)
  have hp : TDef o.pol m p := fun l hl => h l (Or.inr (Or.inl hl))
  have ho : TDef o.pol m ob := fun l hl => h l (Or.inr (Or.inr (Or.inl hl)))
  simp only [qrenO]
  rw [trenO_stable hs e, trenO_stable hp e, trenO_stable ho e]
  cases g with
  | none => rfl
  | some t =>
    have hg : TDef o.pol m t := fun l hl => h l (Or.inr (Or.inr (Or.inr (by rw [hl]))))
    simp only [grenO]
    rw [trenO_stable hg e]

theorem quadF_drop {S : Type} {nf : S → Lbl → S × T} {gen : Bool} {into : T} {st : S} {q : DQuad}
    (h : (!gen && q.2.1.isLab) = true) : quadF nf gen into st q = ((termF nf st q.1).1, none) := by
  simp only [quadF, h, if_true]

theorem quadF_keep {S : Type} {nf : S → Lbl → S × T} {gen : Bool} {into : T} {st : S} {q : DQuad}
    (h : ¬ (!gen && q.2.1.isLab) = true) : quadF nf gen into st q =
      ((gnameF nf into (termF nf (termF nf (termF nf st q.1).1 q.2.1).1 q.2.2.1).1 q.2.2.2).1,
       some ((termF nf st q.1).2, (termF nf (termF nf st q.1).1 q.2.1).2,
             (termF nf (termF nf (termF nf st q.1).1 q.2.1).1 q.2.2.1).2,
             (gnameF nf into (termF nf (termF nf (termF nf st q.1).1 q.2.1).1 q.2.2.1).1 q.2.2.2).2)) := by
  simp only [quadF, h, Bool.false_eq_true, if_false]

/-- what `quadF` did: gave the statement up (only the subject was made), or emitted its renaming -/
theorem quadO_spec {f0 : Nat} (o : LOpts) (into : T) (st : PS) (q : DQuad) (h : MapInv f0 st) :
    Ext st (quadF (nodeO o) o.gen into st q).1 ∧ MapInv f0 (quadF (nodeO o) o.gen into st q).1 ∧
    (kept o.gen q = false → (quadF (nodeO o) o.gen into st q).2 = none) ∧
    (kept o.gen q = true →
      QDef o.pol (quadF (nodeO o) o.gen into st q).1.map q ∧
      (quadF (nodeO o) o.gen into st q).2 = some (qrenO o (sigma o.pol (quadF (nodeO o) o.gen into st q).1.map) into q) ∧
      (TBound st.fresh into → QBound (quadF (nodeO o) o.gen into st q).1.fresh
          (qrenO o (sigma o.pol (quadF (nodeO o) o.gen into st q).1.map) into q))) := by
  obtain ⟨s, p, ob, g⟩ := q
  obtain ⟨e1, i1, d1, r1, b1⟩ := termO_spec o st s h
  by_cases hk : (!o.gen && p.isLab) = true
  · have hk' : kept o.gen (s, p, ob, g) = false := by
      simp only [kept]
      cases hg : o.gen <;> cases hp : p.isLab <;> simp [hg, hp] at hk ⊢
    rw [quadF_drop hk]
    exact ⟨e1, i1, fun _ => rfl, fun hc => by rw [hk'] at hc; cases hc⟩
  · have hk' : kept o.gen (s, p, ob, g) = true := by
      simp only [kept]
      cases hg : o.gen <;> cases hp : p.isLab <;> simp [hg, hp] at hk ⊢
    obtain ⟨e2, i2, d2, r2, b2⟩ := termO_spec o (termF (nodeO o) st s).1 p i1
    obtain ⟨e3, i3, d3, r3, b3⟩ := termO_spec o (termF (nodeO o) (termF (nodeO o) st s).1 p).1 ob i2
    obtain ⟨e4, i4, d4, r4, b4⟩ := gnameO_spec o into (termF (nodeO o) (termF (nodeO o) (termF (nodeO o) st s).1 p).1 ob).1 g i3
    rw [quadF_keep hk]
    have hdef : QDef o.pol (gnameF (nodeO o) into (termF (nodeO o) (termF (nodeO o) (termF (nodeO o) st s).1 p).1 ob).1 g).1.map (s, p, ob, g) := by
      intro l hl
      rcases hl with hl | hl | hl | hl
      · exact (d1 l hl).mono (e2.map.trans (e3.map.trans e4.map))
      · exact (d2 l hl).mono (e3.map.trans e4.map)
      · exact (d3 l hl).mono e4.map
      · exact d4 l hl
    have hren : ((termF (nodeO o) st s).2, (termF (nodeO o) (termF (nodeO o) st s).1 p).2,
          (termF (nodeO o) (termF (nodeO o) (termF (nodeO o) st s).1 p).1 ob).2,
          (gnameF (nodeO o) into (termF (nodeO o) (termF (nodeO o) (termF (nodeO o) st s).1 p).1 ob).1 g).2)
        = qrenO o (sigma o.pol (gnameF (nodeO o) into (termF (nodeO o) (termF (nodeO o) (termF (nodeO o) st s).1 p).1 ob).1 g).1.map) into (s, p, ob, g) := by
      simp only [qrenO]
      rw [r1, r2, r3, r4, trenO_stable d1 (e2.map.trans (e3.map.trans e4.map)), trenO_stable d2 (e3.map.trans e4.map),
          trenO_stable d3 e4.map]
    refine ⟨e1.trans (e2.trans (e3.trans e4)), i4, (fun hc => by rw [hk'] at hc; cases hc), fun _ => ⟨hdef, ?_, ?_⟩⟩
    · rw [hren]
    · intro hi b hb
      rw [← hren] at hb
      rcases hb with hb | hb | hb | hb
      · exact Nat.lt_of_lt_of_le (b1 b hb) (Nat.le_trans e2.fresh (Nat.le_trans e3.fresh e4.fresh))
      · exact Nat.lt_of_lt_of_le (b2 b hb) (Nat.le_trans e3.fresh e4.fresh)
      · exact Nat.lt_of_lt_of_le (b3 b hb) e4.fresh
      · exact b4 (hi.mono (Nat.le_trans e1.fresh (Nat.le_trans e2.fresh e3.fresh))) b hb

theorem emitO_spec {f0 : Nat} (o : LOpts) (into : T) (doc : Doc) :
    ∀ (st : PS), MapInv f0 st →
    Ext st (emitO o into st doc).1 ∧ MapInv f0 (emitO o into st doc).1 ∧
    (∀ q ∈ keptDoc o.gen doc, QDef o.pol (emitO o into st doc).1.map q) ∧
    (emitO o into st doc).2 = renameO o (sigma o.pol (emitO o into st doc).1.map) into doc ∧
    (TBound st.fresh into → ∀ q ∈ (emitO o into st doc).2, QBound (emitO o into st doc).1.fresh q) := by
  induction doc with
  | nil => intro st h; exact ⟨Ext.refl _, h, (fun q hq => by cases hq), rfl, (fun _ q hq => by cases hq)⟩
  | cons q qs ih =>
    intro st h
    obtain ⟨e1, i1, hdrop, hkeep⟩ := quadO_spec o into st q h
    obtain ⟨e2, i2, d2, r2, b2⟩ := ih (quadF (nodeO o) o.gen into st q).1 i1
    simp only [emitO] at e2 i2 d2 r2 b2 ⊢
    simp only [emitF]
    cases hk : kept o.gen q with
    | false =>
      have hd := hdrop hk
      refine ⟨e1.trans e2, i2, ?_, ?_, ?_⟩
      · intro x hx
        simp only [keptDoc, List.filter_cons, hk] at hx
        exact d2 x hx
      · rw [hd]
        simp only [consOpt, renameO, keptDoc, List.filter_cons, hk]
        exact r2
      · intro hi x hx
        rw [hd] at hx
        exact b2 (hi.mono e1.fresh) x hx
    | true =>
      obtain ⟨d1, r1, b1⟩ := hkeep hk
      refine ⟨e1.trans e2, i2, ?_, ?_, ?_⟩
      · intro x hx
        simp only [keptDoc, List.filter_cons, hk, if_true] at hx
        rcases List.mem_cons.mp hx with hx | hx
        · subst hx; exact fun l hl => (d1 l hl).mono e2.map
        · exact d2 x hx
      · rw [r1]
        simp only [consOpt, renameO, keptDoc, List.filter_cons, hk, if_true, List.map_cons]
        rw [qrenO_stable d1 e2.map, r2]
        rfl
      · intro hi x hx
        rw [r1] at hx
        simp only [consOpt] at hx
        rcases List.mem_cons.mp hx with hx | hx
        · subst hx; exact fun b hb => Nat.lt_of_lt_of_le (b1 hi b hb) e2.fresh
        · exact b2 (hi.mono e1.fresh) x hx

/-- with no skolemization and nothing dropped the option-aware pass is the pass of `Model.lean` -/
theorem emitO_plain (pol : Policy) (into : T) (doc : Doc) : ∀ (st : PS),
    emitO ⟨pol, false, true⟩ into st doc = emit pol into st doc := by
  induction doc with
  | nil => intro st; rfl
  | cons q qs ih =>
    intro st
    obtain ⟨s, p, ob, g⟩ := q
    simp only [emitO] at ih
    simp only [emitO, emitF, emit, quadF, quad, Bool.not_true, Bool.false_and, Bool.false_eq_true, if_false, consOpt]
    have ht : ∀ st t, termF (nodeO ⟨pol, false, true⟩) st t = term pol st t := by
      intro st t; rw [termO_eq]; rfl
    have hg : ∀ st g, gnameF (nodeO ⟨pol, false, true⟩) into st g = gname pol into st g := by
      intro st g; cases g with
      | none => rfl
      | some t => exact ht st t
    simp only [ht, hg, ih]

/-! ### one call, several calls handing on one dict -/

theorem renameO_stable {o : LOpts} {m m' : LMap} {into : T} {doc : Doc}
    (h : ∀ q ∈ keptDoc o.gen doc, QDef o.pol m q) (e : ExtMap m m') :
    renameO o (sigma o.pol m') into doc = renameO o (sigma o.pol m) into doc := by
  simp only [renameO]
  exact List.map_congr_left (fun q hq => qrenO_stable (h q hq) e)

theorem parseO_facts {f0 : Nat} (o : LOpts) (d : DS) (m0 : LMap) (into : T) (doc : Doc)
    (hm : MapInv f0 ⟨d.fresh, m0⟩) :
    d.fresh ≤ (parseO o d m0 into doc).1.fresh ∧
    (∀ x, x ∈ (parseO o d m0 into doc).1.quads ↔
      x ∈ d.quads ∨ x ∈ renameO o (sigma o.pol (parseO o d m0 into doc).2) into doc) ∧
    (IntoOK d into → ∀ q ∈ renameO o (sigma o.pol (parseO o d m0 into doc).2) into doc,
      QBound (parseO o d m0 into doc).1.fresh q) ∧
    (∀ q ∈ keptDoc o.gen doc, QDef o.pol (parseO o d m0 into doc).2 q) ∧
    MapInv f0 ⟨(parseO o d m0 into doc).1.fresh, (parseO o d m0 into doc).2⟩ ∧
    ExtMap m0 (parseO o d m0 into doc).2 := by
  obtain ⟨e, i, dd, r, b⟩ := emitO_spec o into doc ⟨d.fresh, m0⟩ hm
  refine ⟨e.fresh, ?_, ?_, dd, i, e.map⟩
  · intro x
    simp only [parseO]
    rw [mem_addAll, r]
  · intro hi q hq
    simp only [parseO] at hq ⊢
    rw [← r] at hq
    exact b hi q hq

theorem wf_parseO {f0 : Nat} (o : LOpts) (d : DS) (m0 : LMap) (into : T) (doc : Doc)
    (hm : MapInv f0 ⟨d.fresh, m0⟩) (hw : WF d) (hi : IntoOK d into) : WF (parseO o d m0 into doc).1 := by
  obtain ⟨hf, hq, hb, _, _, _⟩ := parseO_facts o d m0 into doc hm
  intro b ⟨q, hqm, hn⟩
  rcases (hq q).mp hqm with h | h
  · exact Nat.lt_of_lt_of_le (hw b ⟨q, h, hn⟩) hf
  · exact hb hi q h b hn

/-- an invariant of the parser state kept by the node function is kept by the whole pass -/
theorem emitF_inv {nf : PS → Lbl → PS × T} (I : PS → Prop) (hnf : ∀ st l, I st → I (nf st l).1)
    (gen : Bool) (into : T) (doc : Doc) : ∀ st, I st → I (emitF nf gen into st doc).1 := by
  have ht : ∀ st t, I st → I (termF nf st t).1 := by
    intro st t h
    cases t with
    | iri n => exact h
    | lit n => exact h
    | lab l => exact hnf st l h
  have hg : ∀ st g, I st → I (gnameF nf into st g).1 := by
    intro st g h
    cases g with
    | none => exact h
    | some t => exact ht st t h
  induction doc with
  | nil => intro st h; exact h
  | cons q qs ih =>
    intro st h
    simp only [emitF]
    apply ih
    by_cases hk : (!gen && q.2.1.isLab) = true
    · rw [quadF_drop hk]; exact ht _ _ h
    · rw [quadF_keep hk]; exact hg _ _ (ht _ _ (ht _ _ (ht _ _ h)))

/-- entries that were not in the dict `m0` at the start hold ids taken from the supply at or after `F` -/
def NewAbove (m0 : LMap) (F : Nat) (st : PS) : Prop :=
  F ≤ st.fresh ∧ ∀ l b, alookup st.map l = some b → alookup m0 l = some b ∨ F ≤ b

theorem newAbove_nodeO (o : LOpts) (m0 : LMap) (F : Nat) (st : PS) (l : Lbl) (h : NewAbove m0 F st) :
    NewAbove m0 F (nodeO o st l).1 := by
  have halloc : NewAbove m0 F (alloc st l).1 := by
    unfold alloc
    cases hl : alookup st.map l with
    | some b => exact h
    | none =>
      refine ⟨Nat.le_succ_of_le h.1, ?_⟩
      intro l' b hb
      rw [alookup_cons] at hb
      split at hb
      · cases hb; exact Or.inr h.1
      · exact h.2 l' b hb
  obtain ⟨pol, sk, gen⟩ := o
  cases pol with
  | remap => simp only [nodeO, nodeid_remap]; exact halloc
  | verbatim =>
    cases l with
    | anon n => exact halloc
    | inner s n => exact halloc
    | named n => exact ⟨Nat.le_trans h.1 (Nat.le_max_left _ _), h.2⟩

theorem parseShared_facts {f0 : Nat} (o : LOpts) (m0 : LMap) (F : Nat) : ∀ (docs : List (T × Doc)) (d : DS) (m : LMap),
    WF d → MapInv f0 ⟨d.fresh, m⟩ → NewAbove m0 F ⟨d.fresh, m⟩ → (∀ x ∈ docs, IntoOK d x.1) →
    WF (parseShared o d m docs).1 ∧ d.fresh ≤ (parseShared o d m docs).1.fresh ∧
    MapInv f0 ⟨(parseShared o d m docs).1.fresh, (parseShared o d m docs).2⟩ ∧
    NewAbove m0 F ⟨(parseShared o d m docs).1.fresh, (parseShared o d m docs).2⟩ ∧
    ExtMap m (parseShared o d m docs).2 ∧
    (∀ x ∈ docs, ∀ q ∈ keptDoc o.gen x.2, QDef o.pol (parseShared o d m docs).2 q) ∧
    (∀ y, y ∈ (parseShared o d m docs).1.quads ↔
      y ∈ d.quads ∨ ∃ x ∈ docs, y ∈ renameO o (sigma o.pol (parseShared o d m docs).2) x.1 x.2) := by
  intro docs
  induction docs with
  | nil =>
    intro d m hw hm hn _
    refine ⟨hw, Nat.le_refl _, hm, hn, ExtMap.refl _, (fun x hx => by cases hx), ?_⟩
    intro y
    simp [parseShared]
  | cons x rest ih =>
    intro d m hw hm hn hi
    have hx := hi x List.mem_cons_self
    obtain ⟨hf, hq, _, hd, hm1, he1⟩ := parseO_facts o d m x.1 x.2 hm
    have hw1 := wf_parseO o d m x.1 x.2 hm hw hx
    have hn1 : NewAbove m0 F ⟨(parseO o d m x.1 x.2).1.fresh, (parseO o d m x.1 x.2).2⟩ :=
      emitF_inv (NewAbove m0 F) (fun st l h => newAbove_nodeO o m0 F st l h) o.gen x.1 x.2 _ hn
    have hi1 : ∀ y ∈ rest, IntoOK (parseO o d m x.1 x.2).1 y.1 :=
      fun y hy b hb => Nat.lt_of_lt_of_le (hi y (List.mem_cons_of_mem _ hy) b hb) hf
    obtain ⟨a1, a2, a3, a4, a5, a6, a7⟩ := ih _ _ hw1 hm1 hn1 hi1
    simp only [parseShared]
    refine ⟨a1, Nat.le_trans hf a2, a3, a4, he1.trans a5, ?_, ?_⟩
    · intro z hz q hqk
      rcases List.mem_cons.mp hz with hz | hz
      · subst hz; exact fun l hl => (hd q hqk l hl).mono a5
      · exact a6 z hz q hqk
    · intro y
      rw [a7 y, hq y, ← renameO_stable hd a5]
      constructor
      · rintro ((h | h) | ⟨z, hz, h⟩)
        · exact Or.inl h
        · exact Or.inr ⟨x, List.mem_cons_self, h⟩
        · exact Or.inr ⟨z, List.mem_cons_of_mem _ hz, h⟩
      · rintro (h | ⟨z, hz, h⟩)
        · exact Or.inl (Or.inl h)
        · rcases List.mem_cons.mp hz with hz | hz
          · subst hz; exact Or.inl (Or.inr h)
          · exact Or.inr ⟨z, hz, h⟩

/-- a blank node of a statement renamed with skolemization is the graph parsed into -/
theorem hasNode_qrenO_sk {o : LOpts} (hsk : o.sk = true) {σ : Lbl → Nat} {into : T} {q : DQuad} {b : Nat}
    (h : Quad.hasNode (qrenO o σ into q) b) : into = .bn b := by
  obtain ⟨s, p, ob, g⟩ := q
  have key : ∀ t : DT, trenO o σ t ≠ .bn b := by
    intro t e
    cases t <;> simp [trenO, tren, wrapT, skolT, hsk] at e
  simp only [Quad.hasNode, qrenO] at h
  rcases h with h | h | h | h
  · exact absurd h (key s)
  · exact absurd h (key p)
  · exact absurd h (key ob)
  · cases g with
    | none => exact h
    | some t => exact absurd h (key t)

/-! ### RDF Patch -/

theorem patchNode_eq (st : PS) (l : Lbl) : patchNode st l = nodeO ⟨.verbatim, false, true⟩ st l :=
  nodeFn_eq .patch CallOpts.default st l

/-- a patch of `A` rows only is the `BNode(label)` parser of `Model.lean` reading those statements -/
theorem patchRun_adds (dflt : T) (doc : Doc) : ∀ (st : PS) (qs : List Quad),
    patchRun dflt st qs (doc.map (fun q => (POp.add, q))) =
      ((emit .verbatim dflt st doc).1, addAll qs (emit .verbatim dflt st doc).2) := by
  induction doc with
  | nil => intro st qs; rfl
  | cons q rest ih =>
    intro st qs
    have hq : quadF patchNode true dflt st q = ((quad .verbatim dflt st q).1, some (quad .verbatim dflt st q).2) := by
      have h1 := emitO_plain .verbatim dflt [q] st
      have hc := emitF_congr (fun st l => patchNode_eq st l) true dflt [q] st
      simp only [emitO] at h1
      rw [← hc] at h1
      simp only [emitF, emit] at h1
      rw [quadF_keep (by simp)] at h1 ⊢
      simp only [consOpt, Prod.mk.injEq, List.cons.injEq, and_true] at h1
      rw [h1.1, h1.2]
    simp only [List.map_cons, patchRun, hq, emit, addAll]
    exact ih _ _

end RV.C12
