import RV.C12.Model
/-
  C12, round g — the parsers' own label handling, one function per parser *as coded*, with the
  options that change it (`bnode_context=`, `skolemize=`, `preserve_bnode_ids=`,
  `generalized_rdf=`), on top of the generic one-pass machinery of `Model.lean`.

  * `ntNodeid`        ntriples.py  `W3CNTriplesParser.nodeid`  (also N-Quads: subject, object, graph name)
  * `n3AnonymousNode` notation3.py `SinkParser.anonymousNode` / `blankNode` → `RDFSink.newBlankNode`
  * `xmlNode`         rdfxml.py    `RDFXMLHandler.node_element_start` / `property_element_start` (`rdf:nodeID`, `BNode()`)
  * `trixGetBnode`    trix.py      `TriXHandler.get_bnode`, anonymous `<graph>`
  * `jsonldNode`      jsonld.py    `Parser._to_rdf_id` / `_bnode` / `_add_to_graph` (`BNode()`), predicate rule of `_key_to_graph`
  * `hextNode`        hext.py      `HextuplesParser._parse_hextuple`
  * `ntStart` / `ntFinish`  which dict `nodeid` works on: the caller's `bnode_context` or the instance's `_bnode_ids`
  * `parseWith`       one parse call of parser `p` with options `c`

  `emitF` is `Model.emit` with the node function as a parameter, a statement being *dropped* when its
  predicate is a blank-node label and the parser does not produce generalized RDF
  (`jsonld.Parser._key_to_graph`: `if bid: if not self.generalized_rdf: return`).
-/
namespace RV.C12

abbrev LMap := List (Lbl × Nat)

/-- `BNode.skolemize()` -/
def skolT : T → T
  | .bn b => .skol b
  | t => t

def wrapT (sk : Bool) (t : T) : T := if sk then skolT t else t

def DT.isLab : DT → Bool
  | .lab _ => true
  | _ => false

/-! ### the generic pass, parametrised by the parser's node function -/

def termF {S : Type} (nf : S → Lbl → S × T) (st : S) : DT → S × T
  | .iri n => (st, .iri n)
  | .lit n => (st, .lit n)
  | .lab l => nf st l

def gnameF {S : Type} (nf : S → Lbl → S × T) (into : T) (st : S) : Option DT → S × T
  | none => (st, into)
  | some g => termF nf st g

/-- one statement; `gen = false`: a blank-node predicate makes the parser give the statement up
    after it has made the subject -/
def quadF {S : Type} (nf : S → Lbl → S × T) (gen : Bool) (into : T) (st : S) (q : DQuad) : S × Option Quad :=
  let s := termF nf st q.1
  if !gen && q.2.1.isLab then (s.1, none)
  else
    let p := termF nf s.1 q.2.1
    let o := termF nf p.1 q.2.2.1
    let g := gnameF nf into o.1 q.2.2.2
    (g.1, some (s.2, p.2, o.2, g.2))

def consOpt (x : Option Quad) (xs : List Quad) : List Quad :=
  match x with
  | some q => q :: xs
  | none => xs

def emitF {S : Type} (nf : S → Lbl → S × T) (gen : Bool) (into : T) : S → Doc → S × List Quad
  | st, [] => (st, [])
  | st, q :: qs =>
    let r := quadF nf gen into st q
    let rest := emitF nf gen into r.1 qs
    (rest.1, consOpt r.2 rest.2)

/-! ### what a parser does with a label, summarised (the specification side of the node functions) -/

structure LOpts where
  pol : Policy     -- per-call label map with fresh nodes / `BNode(label)`
  sk : Bool        -- every blank node the parser makes is skolemized
  gen : Bool       -- statements with a blank-node predicate are kept
  deriving DecidableEq, Repr

def nodeO (o : LOpts) (st : PS) (l : Lbl) : PS × T :=
  ((nodeid o.pol st l).1, wrapT o.sk (.bn (nodeid o.pol st l).2))

def emitO (o : LOpts) (into : T) (st : PS) (doc : Doc) : PS × List Quad :=
  emitF (nodeO o) o.gen into st doc

/-! ### the node functions, parser by parser -/

/-- `map.get(label)`; `None` → `BNode()`, stored -/
def getOrNew (st : PS) (l : Lbl) : PS × T :=
  match alookup st.map l with
  | some b => (st, .bn b)
  | none => ({ fresh := st.fresh + 1, map := (l, st.fresh) :: st.map }, .bn st.fresh)

/-- `BNode(label)`: the id is the label (the uuid supply steps over it, as in `Model.nodeid`) -/
def keepLabel (st : PS) (n : Nat) : PS × T :=
  ({ st with fresh := max st.fresh (n + 1) }, .bn n)

/-- ntriples.py `W3CNTriplesParser.nodeid`:
    `if self.skolemize: return bNode(bnode_id).skolemize()`
    `else: new_id = bnode_context.get(bnode_id); if new_id is not None: return bNode(new_id)`
    `      else: bnode = bNode(); bnode_context[bnode_id] = bnode; return bnode`
    (`st.map` is the dict chosen by `ntStart`; N-Triples / N-Quads have no anonymous-node syntax) -/
def ntNodeid (skolemize : Bool) (st : PS) (l : Lbl) : PS × T :=
  if skolemize then
    match l with
    | .named n => ((keepLabel st n).1, skolT (keepLabel st n).2)
    | _ => ((getOrNew st l).1, skolT (getOrNew st l).2)
  else getOrNew st l

/-- notation3.py `SinkParser.anonymousNode(ln)` for `_:ln`
    (`term = self._anonymousNodes.get(ln); if term is not None: return term; term = newBlankNode(); …[ln] = term`);
    `[]`, `( )` cells, path nodes: `blankNode()` → `RDFSink.newBlankNode`: `counter += 1; BNode("n<uuid>b<counter>")`
    — the next id of this sink's own range, held on the parser's recursion stack (here: under its `anon` key). -/
def n3AnonymousNode (st : PS) (l : Lbl) : PS × T := getOrNew st l

/-- rdfxml.py, `rdf:nodeID` on a node element or a property element:
    `if self.preserve_bnode_ids is False: (bnode dict get / BNode() / store) else: BNode(nodeID)`;
    node element without `rdf:about`/`rdf:nodeID`, `parseType="Resource"`, property attributes, collection cells: `BNode()` -/
def xmlNode (preserve : Bool) (st : PS) (l : Lbl) : PS × T :=
  match l with
  | .named n => if preserve = false then getOrNew st l else keepLabel st n
  | _ => getOrNew st l

/-- trix.py `TriXHandler.get_bnode`: `if self.preserve_bnode_ids: BNode(label) else: (dict get / BNode() / store)`;
    a `<graph>` without a name: `Graph(store=self.store)` — identifier `BNode()` -/
def trixGetBnode (preserve : Bool) (st : PS) (l : Lbl) : PS × T :=
  match l with
  | .named n => if preserve then keepLabel st n else getOrNew st l
  | _ => getOrNew st l

/-- jsonld.py `Parser._to_rdf_id` → `_bnode(bid)` (`if self.skolemize: return BNode(bid)`, else `_bnodes` get / `BNode()` / store),
    then `.skolemize()` when asked; a node object without `@id`, list cells: `BNode()` (`.skolemize()` when asked) -/
def jsonldNode (skolemize : Bool) (st : PS) (l : Lbl) : PS × T :=
  match l with
  | .named n =>
    if skolemize then ((keepLabel st n).1, skolT (keepLabel st n).2)
    else getOrNew st l
  | _ => ((getOrNew st l).1, wrapT skolemize (getOrNew st l).2)

/-- hext.py `_parse_hextuple`: `BNode(label)` (subject, `localId` value, graph column), `.skolemize()` when asked;
    no anonymous-node syntax -/
def hextNode (skolemize : Bool) (st : PS) (l : Lbl) : PS × T :=
  match l with
  | .named n => ((keepLabel st n).1, wrapT skolemize (keepLabel st n).2)
  | _ => ((getOrNew st l).1, wrapT skolemize (getOrNew st l).2)

/-- patch.py `RDFPatchParser.nodeid` / `labeled_bnode`: `BNode(label)` for `_:x` and for `<_:x>` — neither
    `bnode_context` nor `skolemize` is looked at (an RDF Patch talks about the nodes of the store it is applied to) -/
def patchNode (st : PS) (l : Lbl) : PS × T :=
  match l with
  | .named n => keepLabel st n
  | _ => getOrNew st l

inductive Parser
  | nt | nquads | turtle | n3 | trig | xml | trix | jsonld | hext | patch
  deriving DecidableEq, Repr

/-- the keyword arguments of `parse()` that change label handling (each parser reads only its own) -/
structure CallOpts where
  skolemize : Bool         -- nt, nquads, json-ld, hext
  preserve : Bool          -- rdf/xml, trix: preserve_bnode_ids
  generalized : Bool       -- json-ld: generalized_rdf
  deriving DecidableEq, Repr

def CallOpts.default : CallOpts := ⟨false, false, false⟩

def nodeFn : Parser → CallOpts → PS → Lbl → PS × T
  | .nt, c => ntNodeid c.skolemize
  | .nquads, c => ntNodeid c.skolemize
  | .turtle, _ => n3AnonymousNode
  | .n3, _ => n3AnonymousNode
  | .trig, _ => n3AnonymousNode
  | .xml, c => xmlNode c.preserve
  | .trix, c => trixGetBnode c.preserve
  | .jsonld, c => jsonldNode c.skolemize
  | .hext, c => hextNode c.skolemize
  | .patch, _ => patchNode

/-- only the JSON-LD parser can meet a blank-node predicate (every other syntax rejects it) and
    gives the statement up unless `generalized_rdf` -/
def genOf : Parser → CallOpts → Bool
  | .jsonld, c => c.generalized
  | _, _ => true

/-- the summary the theorems are stated with -/
def loptsOf : Parser → CallOpts → LOpts
  | .nt, c => ⟨if c.skolemize then .verbatim else .remap, c.skolemize, true⟩
  | .nquads, c => ⟨if c.skolemize then .verbatim else .remap, c.skolemize, true⟩
  | .turtle, _ => ⟨.remap, false, true⟩
  | .n3, _ => ⟨.remap, false, true⟩
  | .trig, _ => ⟨.remap, false, true⟩
  | .xml, c => ⟨if c.preserve then .verbatim else .remap, false, true⟩
  | .trix, c => ⟨if c.preserve then .verbatim else .remap, false, true⟩
  | .jsonld, c => ⟨if c.skolemize then .verbatim else .remap, c.skolemize, c.generalized⟩
  | .hext, c => ⟨.verbatim, c.skolemize, true⟩
  | .patch, _ => ⟨.verbatim, false, true⟩

/-! ### which dict `nodeid` works on (N-Triples, N-Quads) -/

/-- `if bnode_context is None: bnode_context = self._bnode_ids` (the argument is the same for every line of a call,
    so the choice is made once here) -/
def ntStart (arg : Option LMap) (self : LMap) : LMap :=
  match arg with
  | some c => c
  | none => self

/-- where the updated dict lives after the call: (the caller's dict, the instance's `_bnode_ids`) -/
def ntFinish (arg : Option LMap) (self : LMap) (m : LMap) : Option LMap × LMap :=
  match arg with
  | some _ => (some m, self)
  | none => (none, m)

/-! ### one parse call -/

/-- parser `p`, options `c`, label dict `m0` at the start (`[]` except for `bnode_context=` / a re-used
    N-Quads parser object); returns the target and the dict at the end -/
def parseWith (p : Parser) (c : CallOpts) (d : DS) (m0 : LMap) (into : T) (doc : Doc) : DS × LMap :=
  let r := emitF (nodeFn p c) (genOf p c) into ⟨d.fresh, m0⟩ doc
  ({ quads := addAll d.quads r.2, fresh := r.1.fresh }, r.1.map)

/-- the same in terms of the summary -/
def parseO (o : LOpts) (d : DS) (m0 : LMap) (into : T) (doc : Doc) : DS × LMap :=
  let r := emitO o into ⟨d.fresh, m0⟩ doc
  ({ quads := addAll d.quads r.2, fresh := r.1.fresh }, r.1.map)

/-- several calls handing on one dict (`bnode_context=ctx` passed to each of them) -/
def parseShared (o : LOpts) : DS → LMap → List (T × Doc) → DS × LMap
  | d, m, [] => (d, m)
  | d, m, x :: rest => parseShared o (parseO o d m x.1 x.2).1 (parseO o d m x.1 x.2).2 rest

/-! ### Notation3 / Turtle / TriG: `_:x` scoping, formulae, nodes held by the recursive descent

  `SinkParser.node()` at `{`:  `parentAnonymousNodes = self._anonymousNodes; self._anonymousNodes = {}` …
  statements of the formula … at `}`: `self._anonymousNodes = parentAnonymousNodes` — a formula has its own label
  scope, and the enclosing scope is back afterwards, without anything the formula added.  A TriG graph block does
  not touch `_anonymousNodes` (one scope for the whole document).  `[]`, `( )` cells, path nodes (`blankNode()` →
  `RDFSink.newBlankNode`: `counter += 1; BNode("n<uuid>b<counter>")`, in a formula `Formula.newBlankNode`) and the
  formula's own node (`newFormula()` → `Formula.id()`) are made once and kept in local variables of the recursive
  descent: `held`, which no `{`/`}` resets.  The recursion itself is given as the event sequence it performs. -/

inductive Ev
  | stmt (q : DQuad)      -- `makeStatement` in the current context
  | opn                   -- `{`
  | cls                   -- `}`
  deriving DecidableEq, Repr

structure N3S where
  fresh : Nat
  cur : LMap              -- `self._anonymousNodes`
  stack : List LMap       -- `parentAnonymousNodes` of the enclosing `{`s
  held : LMap             -- locals of the recursion: `[]`, `( )`, path and formula nodes
  deriving Repr

/-- `anonymousNode(ln)` for `_:ln` (current scope's dict); `blankNode()` / `newFormula()` for the others -/
def n3Node (s : N3S) (l : Lbl) : N3S × T :=
  match l with
  | .named _ =>
    match alookup s.cur l with
    | some b => (s, .bn b)
    | none => ({ s with fresh := s.fresh + 1, cur := (l, s.fresh) :: s.cur }, .bn s.fresh)
  | _ =>
    match alookup s.held l with
    | some b => (s, .bn b)
    | none => ({ s with fresh := s.fresh + 1, held := (l, s.fresh) :: s.held }, .bn s.fresh)

def n3Open (s : N3S) : N3S := { s with stack := s.cur :: s.stack, cur := [] }

def n3Close (s : N3S) : N3S :=
  match s.stack with
  | m :: ms => { s with cur := m, stack := ms }
  | [] => s

def n3Run (into : T) : N3S → List Ev → N3S × List Quad
  | s, [] => (s, [])
  | s, .stmt q :: es =>
    let r := quadF n3Node true into s q
    let rest := n3Run into r.1 es
    (rest.1, consOpt r.2 rest.2)
  | s, .opn :: es => n3Run into (n3Open s) es
  | s, .cls :: es => n3Run into (n3Close s) es

/-- `TurtleParser.parse` / `N3Parser.parse` / `TrigParser.parse`: a new `SinkParser` (empty dicts) over the document -/
def parseN3 (d : DS) (into : T) (evs : List Ev) : DS :=
  let r := n3Run into ⟨d.fresh, [], [], []⟩ evs
  { quads := addAll d.quads r.2, fresh := r.1.fresh }

/-! ### RDF Patch (`patch.py`): rows `A` (add) and `D` (delete), labels verbatim, always the dataset's default graph -/

inductive POp
  | add
  | del
  deriving DecidableEq, Repr

abbrev PatchDoc := List (POp × DQuad)

/-- `RDFPatchParser.add_or_remove_triple_or_quad`, row by row: `A` → `get_context(context).add(…)`, `D` → `.remove(…)`;
    a row without graph column goes to `self.sink.default_context` where `self.sink = Dataset(store=sink.store)`:
    the dataset's default graph `dflt`, whatever graph the caller parses into -/
def patchRun (dflt : T) : PS → List Quad → PatchDoc → PS × List Quad
  | st, qs, [] => (st, qs)
  | st, qs, (op, q) :: rest =>
    match (quadF patchNode true dflt st q).2, op with
    | some x, .add => patchRun dflt (quadF patchNode true dflt st q).1 (sinsert qs x) rest
    | some x, .del => patchRun dflt (quadF patchNode true dflt st q).1 (sremove qs x) rest
    | none, _ => patchRun dflt (quadF patchNode true dflt st q).1 qs rest

def parsePatch (d : DS) (dflt : T) (doc : PatchDoc) : DS :=
  { quads := (patchRun dflt ⟨d.fresh, []⟩ d.quads doc).2, fresh := (patchRun dflt ⟨d.fresh, []⟩ d.quads doc).1.fresh }

end RV.C12
