import RV.C12.Model
/-
  C12 — specification vocabulary: renaming a document by a label assignment, the labels of a
  document, the blank nodes of a quad set, the freshness assumption.  Core-only.
-/
namespace RV.C12

/-- rename a document term by a label assignment `σ` -/
def tren (σ : Lbl → Nat) : DT → T
  | .iri n => .iri n
  | .lit n => .lit n
  | .lab l => .bn (σ l)

/-- the graph name of a renamed statement -/
def gren (σ : Lbl → Nat) (into : T) : Option DT → T
  | none => into
  | some g => tren σ g

/-- rename a statement; the document's default graph is the graph parsed into -/
def qren (σ : Lbl → Nat) (into : T) (q : DQuad) : Quad :=
  (tren σ q.1, tren σ q.2.1, tren σ q.2.2.1, gren σ into q.2.2.2)

/-- `rename σ (quads doc)` -/
def rename (σ : Lbl → Nat) (into : T) (doc : Doc) : List Quad := doc.map (qren σ into)

/-- label `l` occurs in the statement (any position, graph name included) -/
def DQuad.has (q : DQuad) (l : Lbl) : Prop :=
  q.1 = .lab l ∨ q.2.1 = .lab l ∨ q.2.2.1 = .lab l ∨ q.2.2.2 = some (.lab l)

/-- label `l` occurs in the document -/
def Doc.has (doc : Doc) (l : Lbl) : Prop := ∃ q ∈ doc, DQuad.has q l

/-- blank node `b` occurs in the quad (any position, graph name included) -/
def Quad.hasNode (q : Quad) (b : Nat) : Prop :=
  q.1 = .bn b ∨ q.2.1 = .bn b ∨ q.2.2.1 = .bn b ∨ q.2.2.2 = .bn b

/-- blank node `b` occurs in the quad set -/
def HasNode (qs : List Quad) (b : Nat) : Prop := ∃ q ∈ qs, Quad.hasNode q b

/-- the recorded assumption on `BNode()`: ids still to be handed out (`≥ fresh`) differ from
    every id present in the target -/
def WF (d : DS) : Prop := ∀ b, HasNode d.quads b → b < d.fresh

/-- the graph parsed into already exists as far as the supply is concerned (it is a term the
    caller holds; if it is a blank node it is not one of the ids still to be handed out) -/
def IntoOK (d : DS) (into : T) : Prop := ∀ b, into = .bn b → b < d.fresh

/-- `σ` is injective on the labels of the document -/
def InjOn (σ : Lbl → Nat) (doc : Doc) : Prop :=
  ∀ l l', Doc.has doc l → Doc.has doc l' → σ l = σ l' → l = l'

/-- rename blank nodes of the target by `π` -/
def tmapT (π : Nat → Nat) : T → T
  | .iri n => .iri n
  | .lit n => .lit n
  | .bn b => .bn (π b)
  | .skol n => .skol n

def qmapT (π : Nat → Nat) (q : Quad) : Quad := (tmapT π q.1, tmapT π q.2.1, tmapT π q.2.2.1, tmapT π q.2.2.2)

end RV.C12
