import RV.Base.SetList
/-
  C12 — model of blank-node label scoping in rdflib's parsers and of `Graph.parse`
  (`rdflib/plugins/parsers/{ntriples,nquads,notation3,trig,rdfxml,trix,jsonld,hext}.py`,
  `rdflib/graph.py: Graph.parse / ConjunctiveGraph.parse / Dataset.parse`).

  A *document* is a list of quads over `iri n | lit n | lab ℓ`; `ℓ` is a document-local
  blank-node label: `named n` (`_:x`, `rdf:nodeID="x"`, `<id>x</id>`, `{"@id": "_:x"}` …) or
  `anon n` (a `[]`, an RDF/XML node element without `rdf:about`/`rdf:nodeID`, a JSON-LD node
  object without `@id`, a TriX `<graph>` without a name).  The optional fourth component is
  the graph name written in the document (`none` = the document's default graph), and may
  itself be a label.

  Every parser walks the document once and, for every label it meets, asks its label map
  (`W3CNTriplesParser._bnode_ids` / `SinkParser._anonymousNodes` / `RDFXMLHandler.bnode` /
  `TriXHandler.bnode` / `jsonld.Parser._bnodes`):

      node = map.get(label);  if node is None: node = BNode(); map[label] = node

  (`Policy.remap`).  The map lives exactly as long as one parse call.  Anonymous nodes get
  `BNode()` at their single syntactic occurrence — the same code path with a label nobody
  else can write.  `Policy.verbatim` is `BNode(label)` — the node id *is* the label: what the
  hextuples parser does (known finding C12-K1) and what the TriX and JSON-LD parsers did before
  the C12 repairs.

  `BNode()` = uuid4: modelled by a supply `fresh : Nat` with the recorded assumption that a
  fresh id differs from every id handed out before and from every id present in the target
  (`WF`, see Lemmas).  The sink only ever receives `add` (`sinsert`).
-/
namespace RV.C12

inductive Lbl
  | named (n : Nat)
  | anon (n : Nat)
  | inner (s : Nat) (n : Nat)   -- round g, specification side only: `_:n` inside N3 formula number `s` (N3 scopes labels per formula)
  deriving DecidableEq, Repr

/-- terms of a document -/
inductive DT
  | iri (n : Nat)
  | lit (n : Nat)
  | lab (l : Lbl)
  deriving DecidableEq, Repr

/-- terms of the target graph / dataset -/
inductive T
  | iri (n : Nat)
  | lit (n : Nat)
  | bn (id : Nat)
  | skol (id : Nat)      -- `BNode(id).skolemize()`: the IRI `…/.well-known/genid/<id>` (round g; only made when skolemize=True)
  deriving DecidableEq, Repr

inductive Policy
  | remap
  | verbatim
  deriving DecidableEq, Repr

abbrev DQuad := DT × DT × DT × Option DT
abbrev Quad := T × T × T × T
abbrev Doc := List DQuad

/-- `dict.get` -/
def alookup : List (Lbl × Nat) → Lbl → Option Nat
  | [], _ => none
  | (k, v) :: m, l => if k = l then some v else alookup m l

/-- state of one parse call: the uuid supply and the parser's label map -/
structure PS where
  fresh : Nat
  map : List (Lbl × Nat)
  deriving Repr

/-- `node = map.get(label); if node is None: node = BNode(); map[label] = node` -/
def alloc (st : PS) (l : Lbl) : PS × Nat :=
  match alookup st.map l with
  | some b => (st, b)
  | none => ({ fresh := st.fresh + 1, map := (l, st.fresh) :: st.map }, st.fresh)

/-- `nodeid` / `anonymousNode` / `get_bnode` / `_bnode`: the node for a label.
    `verbatim`: `BNode(label)`; the supply steps over that id (a uuid never equals an id in use). -/
def nodeid (pol : Policy) (st : PS) (l : Lbl) : PS × Nat :=
  match pol, l with
  | .verbatim, .named n => ({ st with fresh := max st.fresh (n + 1) }, n)
  | _, _ => alloc st l

def term (pol : Policy) (st : PS) : DT → PS × T
  | .iri n => (st, .iri n)
  | .lit n => (st, .lit n)
  | .lab l => ((nodeid pol st l).1, .bn (nodeid pol st l).2)

/-- the graph a statement goes to: `into` (where the caller parses to) for the document's
    default graph, else the (mapped) name written in the document -/
def gname (pol : Policy) (into : T) (st : PS) : Option DT → PS × T
  | none => (st, into)
  | some g => term pol st g

/-- one statement: subject, predicate, object, graph name — in that order (`NQuadsParser.parseline`) -/
def quad (pol : Policy) (into : T) (st : PS) (q : DQuad) : PS × Quad :=
  let s := term pol st q.1
  let p := term pol s.1 q.2.1
  let o := term pol p.1 q.2.2.1
  let g := gname pol into o.1 q.2.2.2
  (g.1, (s.2, p.2, o.2, g.2))

/-- the quads a parse call hands to the sink, in order -/
def emit (pol : Policy) (into : T) : PS → Doc → PS × List Quad
  | st, [] => (st, [])
  | st, q :: qs =>
    let r := quad pol into st q
    let rest := emit pol into r.1 qs
    (rest.1, r.2 :: rest.2)

/-- `parseDoc`: a new parser instance (empty label map) over the document -/
def parseDoc (fresh : Nat) (pol : Policy) (into : T) (doc : Doc) : PS × List Quad :=
  emit pol into ⟨fresh, []⟩ doc

/-- the target: a set of quads, and the uuid supply -/
structure DS where
  quads : List Quad
  fresh : Nat
  deriving Repr

/-- `Graph.add` for every emitted statement -/
def addAll (qs : List Quad) : List Quad → List Quad
  | [] => qs
  | q :: rest => addAll (sinsert qs q) rest

/-- `Graph.parse` / `Dataset.parse`: only `add` reaches the store -/
def parseInto (d : DS) (pol : Policy) (into : T) (doc : Doc) : DS :=
  let r := parseDoc d.fresh pol into doc
  { quads := addAll d.quads r.2, fresh := r.1.fresh }

/-- the label map the parse call ended with (diagnostic / driver use) -/
def finalMap (d : DS) (pol : Policy) (into : T) (doc : Doc) : List (Lbl × Nat) :=
  (parseDoc d.fresh pol into doc).1.map

end RV.C12
