import RV.C12.Props
open RV.C12
#print axioms placeholder
