import RV.C12.Props
open RV.C12
#print axioms parse_only_adds
#print axioms parse_is_merge
#print axioms wf_preserved
#print axioms two_docs_disjoint
#print axioms same_doc_twice_disjoint
#print axioms label_within_doc_one_node
#print axioms looks_like_generated_id_safe
#print axioms fresh_graphs_iso
#print axioms history
#print axioms verbatim_shares_node
#print axioms remap_two_nodes
#print axioms verbatim_not_merge
#print axioms parse_is_merge_partial
#print axioms parse_is_merge_witness
