import RV.C17.Lemmas
/-
  C17 helper lemmas, part 2: the manager functions change the store only through `Store.bind`
  (`Reach`), keep the cache invariant (`CacheOK`), and return sound qnames.
-/
namespace RV.C17

/-- `b` is obtained from `a` by finitely many successful `Memory.bind` calls -/
inductive Reach : Store → Store → Prop
  | refl (s : Store) : Reach s s
  | step {a b c : Store} (h : Reach a b) (p n : Str) (ov : Bool) (e : b.bind p n ov = some c) : Reach a c

theorem Reach.trans {a b c : Store} (h1 : Reach a b) (h2 : Reach b c) : Reach a c := by
  induction h2 with
  | refl => exact h1
  | step _ p n ov e ih => exact ih.step p n ov e

theorem Reach.inv {a b : Store} (h : Reach a b) (ha : a.Inv) : b.Inv := by
  induction h with
  | refl => exact ha
  | step _ p n ov e ih =>
    obtain ⟨s', hs, hi⟩ := Store.bind_inv ih p n ov
    rw [e] at hs; injection hs with hs; subst hs; exact hi

/-- every cache entry spells its IRI: namespace ++ name = uri -/
def CacheOK (c : List (Str × QN)) : Prop := ∀ u p n l, alookup c u = some (p, n, l) → n ++ l = u

theorem cacheOK_nil : CacheOK [] := by intro u p n l h; simp [alookup] at h

theorem cacheOK_aset {c : List (Str × QN)} (h : CacheOK c) {u p n l : Str} (e : n ++ l = u) :
    CacheOK (aset c u (p, n, l)) := by
  intro u' p' n' l' h'
  rw [alookup_aset] at h'
  split at h'
  · next hu => injection h' with h'; injection h' with _ h'; injection h' with h1 h2; subst hu h1 h2; exact e
  · exact h _ _ _ _ h'

theorem cacheOK_aerase {c : List (Str × QN)} (h : CacheOK c) (u : Str) : CacheOK (aerase c u) := by
  intro u' p' n' l' h'
  rw [alookup_aerase] at h'
  split at h'
  · exact absurd h' (by simp)
  · exact h _ _ _ _ h'

theorem cacheOK_validEntry {c : List (Str × QN)} (h : CacheOK c) (st : Store) (u : Str) :
    CacheOK (validEntry st c u) := by
  unfold validEntry
  split
  · split
    · exact h
    · exact cacheOK_aerase h u
  · exact h

/-- an entry that survives validation names the prefix bound now -/
theorem validEntry_hit {c : List (Str × QN)} (st : Store) (u p n l : Str)
    (e : alookup (validEntry st c u) u = some (p, n, l)) : st.prefix n = some p := by
  unfold validEntry at e
  split at e
  · next p' n' l' he =>
    split at e
    · next hv =>
      rw [he] at e; injection e with e; injection e with e1 e; injection e with e2 e3
      subst e1 e2
      simpa using hv
    · rw [alookup_aerase] at e; simp at e
  · next he => rw [he] at e; exact absurd e (by simp)

/-! ### Store.bind effects -/

theorem Store.bind_override_prefix {s s' : Store} {p n : Str} (e : s.bind p n true = some s') :
    s'.prefix n = some p := by
  unfold Store.bind at e
  simp only [if_true] at e
  split at e
  · exact absurd e (by simp)
  · split at e
    · exact absurd e (by simp)
    · injection e with e; subst e; simp [Store.prefix]

/-! ### bindAndInsert, Mgr.bind -/

theorem bindAndInsert_reach (st : Store) (m : Mgr) (p n : Str) (ov : Bool) :
    Reach st (bindAndInsert st m p n ov).1 := by
  unfold bindAndInsert
  split
  · next st' h => exact (Reach.refl st).step p n ov h
  · exact Reach.refl st

theorem bindAndInsert_cache (st : Store) (m : Mgr) (p n : Str) (ov : Bool) :
    (bindAndInsert st m p n ov).2.1.cache = m.cache ∧ (bindAndInsert st m p n ov).2.1.scache = m.scache := by
  unfold bindAndInsert
  split <;> simp [Mgr.insertTrie]

theorem Mgr.bind_reach (st : Store) (m : Mgr) (pre : Option Str) (n : Str) (ov rp : Bool) :
    Reach st (Mgr.bind st m pre n ov rp).1 := by
  unfold Mgr.bind
  simp only
  repeat' split
  all_goals first | exact bindAndInsert_reach _ _ _ _ _ | exact Reach.refl _

theorem Mgr.bind_cache (st : Store) (m : Mgr) (pre : Option Str) (n : Str) (ov rp : Bool) :
    (Mgr.bind st m pre n ov rp).2.1.cache = m.cache ∧ (Mgr.bind st m pre n ov rp).2.1.scache = m.scache := by
  unfold Mgr.bind
  simp only
  repeat' split
  all_goals first | exact bindAndInsert_cache _ _ _ _ _ | exact ⟨rfl, rfl⟩

/-- binding a prefix whose namespace lookup is falsy to a namespace without prefix, with
    override: unless it raises, the namespace has that prefix afterwards -/
theorem Mgr.bind_fresh {st : Store} {m : Mgr} {p n : Str} (hn : st.prefix n = none)
    (hp : truthy (st.namespace p) = false) :
    (∃ e, (Mgr.bind st m (some p) n true false).2.2 = .err e) ∨
      (Mgr.bind st m (some p) n true false).1.prefix n = some p := by
  unfold Mgr.bind
  simp only [Option.getD_some, hp, Bool.false_and, Bool.false_eq_true, if_false, hn]
  split
  · exact Or.inl ⟨_, rfl⟩
  · unfold bindAndInsert
    split
    · next st' h => exact Or.inr (Store.bind_override_prefix h)
    · exact Or.inl ⟨_, rfl⟩

theorem pickNs_falsy (st : Store) : ∀ (fuel num : Nat) (p : Str), pickNs st fuel num = some p →
    truthy (st.namespace p) = false := by
  intro fuel
  induction fuel with
  | zero => intro num p h; simp [pickNs] at h
  | succ f ih =>
    intro num p h
    simp only [pickNs] at h
    split at h
    · exact ih _ _ h
    · next hf => injection h with h; subst h; simpa using hf

end RV.C17
