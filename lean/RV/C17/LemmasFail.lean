import RV.C17.LemmasStep
import RV.C17.LemmasNoLoop
/-
  C17 helper lemmas, part 11: with `generate=True`, `compute_qname` fails only with ValueError, and
  only on IRIs with a forbidden character or that `split_uri` cannot split (and that are not
  themselves a namespace with a non-empty prefix).
-/
namespace RV.C17
open RV.C17.Tables

theorem decF_ge : ∀ (f n x : Nat), x ∈ decF f n → 48 ≤ x := by
  intro f
  induction f with
  | zero => intro n x h; simp [decF] at h; omega
  | succ f ih =>
    intro n x h
    simp only [decF] at h
    split at h
    · simp at h; omega
    · rcases List.mem_append.1 h with e | e
      · exact ih _ _ e
      · simp at e; omega

theorem nsnum_nospace (k : Nat) : (strNs ++ dec k).contains 32 = false := by
  rw [Bool.eq_false_iff]
  intro h
  rcases List.mem_append.1 (List.contains_iff_mem.1 h) with e | e
  · revert e; decide
  · have := decF_ge _ _ _ e; omega

theorem pickNs_form (st : Store) : ∀ (fuel num : Nat) (p : Str), pickNs st fuel num = some p →
    ∃ j, p = strNs ++ dec j := by
  intro fuel
  induction fuel with
  | zero => intro num p h; simp [pickNs] at h
  | succ f ih =>
    intro num p h
    simp only [pickNs] at h
    split at h
    · exact ih _ _ h
    · injection h with h; exact ⟨num, h.symm⟩

theorem Mgr.bind_fresh_unit {st : Store} (hi : st.Inv) {m : Mgr} {p n : Str} (hn : st.prefix n = none)
    (hp : truthy (st.namespace p) = false) (hs : p.contains 32 = false) :
    (Mgr.bind st m (some p) n true false).2.2 = .unit := by
  unfold Mgr.bind
  simp only [Option.getD_some, hs, hp, Bool.false_and, Bool.false_eq_true, if_false, hn]
  unfold bindAndInsert
  obtain ⟨s', hs', _⟩ := Store.bind_inv hi p n true
  rw [hs']

theorem lookupOrGenerate_total {st : Store} (hi : st.Inv) (m : Mgr) (n name : Str) :
    ∃ q, (lookupOrGenerate st m n name true).2.2 = .ok q := by
  unfold lookupOrGenerate
  split
  · exact ⟨_, rfl⟩
  · next hq =>
    simp only [Bool.not_true, Bool.false_eq_true, if_false]
    obtain ⟨p, hp⟩ := pickNs_terminates st
    rw [hp]
    simp only
    obtain ⟨j, hj⟩ := pickNs_form st _ _ _ hp
    have hu := Mgr.bind_fresh_unit hi (m := m) hq (pickNs_falsy st _ _ _ hp) (hj ▸ nsnum_nospace j)
    rw [hu]
    exact ⟨_, rfl⟩

/-- `compute_qname(uri)` (generate=True) on a store whose maps are inverse: the only failure is
    ValueError, for an IRI with a forbidden character or one that cannot be split -/
theorem computeQname_error {st : Store} (hi : st.Inv) (m : Mgr) (u : Str) (e : Err)
    (h : (Mgr.computeQname st m u true).2.2 = .error e) :
    e = .ValueError ∧ (validUri u = false ∨ splitOrWhole st u = none) := by
  unfold Mgr.computeQname at h
  simp only at h
  split at h
  · exact absurd h (by simp)
  · split at h
    · next hv => injection h with h; exact ⟨h.symm, Or.inl (by simpa using hv)⟩
    · split at h
      · next hsp => injection h with h; exact ⟨h.symm, Or.inr hsp⟩
      · next n0 name0 _ =>
        exfalso
        split at h
        · exact absurd h (by simp)
        · next e' he' =>
          obtain ⟨q, hq⟩ := lookupOrGenerate_total hi
            (Mgr.ensureStrie { cache := validEntry st m.cache u, scache := m.scache, trie := m.trie, strie := m.strie } n0)
            (refineLongest (Mgr.ensureStrie { cache := validEntry st m.cache u, scache := m.scache, trie := m.trie, strie := m.strie } n0).trie n0 name0 u).1
            (refineLongest (Mgr.ensureStrie { cache := validEntry st m.cache u, scache := m.scache, trie := m.trie, strie := m.strie } n0).trie n0 name0 u).2
          rw [hq] at he'; exact absurd he' (by simp)

theorem splitOrWhole_none {st : Store} {u : Str} (h : splitOrWhole st u = none) :
    splitUri splitStartCats u = none ∧ (st.prefix u = none ∨ st.prefix u = some []) := by
  unfold splitOrWhole at h
  split at h
  · exact absurd h (by simp)
  · next hs =>
    refine ⟨hs, ?_⟩
    split at h
    · next p hp =>
      split at h
      · next he => right; rw [hp]; cases p with
        | nil => rfl
        | cons a r => simp at he
      · exact absurd h (by simp)
    · next hp => exact Or.inl hp

theorem outStr_err {f : QN → Str} {r : Except Err QN} {e : Err} (h : outStr f r = .err e) : r = .error e := by
  cases r with
  | ok q => simp [outStr] at h
  | error e' => simp only [outStr] at h; injection h with h; rw [h]

theorem step_qname_error {s : St} (hi : HInv s) (i : Bool) (u : Str) (e : Err)
    (h : (s.step (.qname i u)).2 = .err e) :
    e = .ValueError ∧ (validUri u = false ∨
      (splitUri splitStartCats u = none ∧ (s.store.prefix u = none ∨ s.store.prefix u = some []))) := by
  simp only [St.step] at h
  obtain ⟨h1, h2⟩ := computeQname_error hi.store (s.mgr i) u e (outStr_err h)
  refine ⟨h1, ?_⟩
  rcases h2 with h2 | h2
  · exact Or.inl h2
  · exact Or.inr (splitOrWhole_none h2)

/-- the second half of `compute_qname_strict` (generate=True) fails only when the strict split does -/
theorem strictTail_error {st : Store} (hi : st.Inv) (m : Mgr) (u : Str) (e : Err)
    (h : (Mgr.strictTail st m u true).2.2 = .error e) :
    e = .ValueError ∧ splitUri nameStartCats u = none := by
  unfold Mgr.strictTail at h
  simp only at h
  split at h
  · exact absurd h (by simp)
  · split at h
    · next hsp => injection h with h; exact ⟨h.symm, hsp⟩
    · next n0 name0 _ =>
      exfalso
      split at h
      · exact absurd h (by simp)
      · next e' he' =>
        obtain ⟨q, hq⟩ := lookupOrGenerate_total hi
          (Mgr.ensureStrie { cache := m.cache, scache := validEntry st m.scache u, trie := m.trie, strie := m.strie } n0)
          n0 name0
        rw [hq] at he'; exact absurd he' (by simp)

/-- `compute_qname_strict(uri)` (generate=True): ValueError only, and only for a forbidden character, an
    IRI `split_uri` cannot split, or one the strict split (at a name-start character) cannot split -/
theorem computeQnameStrict_error {st : Store} (hi : st.Inv) {m : Mgr} (hc : CacheOK m.cache)
    (hs : CacheOK m.scache) (u : Str) (e : Err)
    (h : (Mgr.computeQnameStrict st m u true).2.2 = .error e) :
    e = .ValueError ∧ (validUri u = false ∨ splitOrWhole st u = none ∨ splitUri nameStartCats u = none) := by
  have h0 := computeQname_all (st := st) u true hc hs
  unfold Mgr.computeQnameStrict at h
  simp only at h
  split at h
  · next e' he' =>
    injection h with h; subst h
    obtain ⟨a, b⟩ := computeQname_error hi m u _ he'
    exact ⟨a, b.elim Or.inl (fun x => Or.inr (Or.inl x))⟩
  · next p n name hq =>
    split at h
    · exact absurd h (by simp)
    · obtain ⟨a, b⟩ := strictTail_error (h0.reach.inv hi) _ u e h
      exact ⟨a, Or.inr (Or.inr b)⟩

theorem step_qstrict_error {s : St} (hi : HInv s) (i : Bool) (u : Str) (e : Err)
    (h : (s.step (.qstrict i u)).2 = .err e) :
    e = .ValueError ∧ (validUri u = false ∨
      (splitUri splitStartCats u = none ∧ (s.store.prefix u = none ∨ s.store.prefix u = some [])) ∨
      splitUri nameStartCats u = none) := by
  simp only [St.step] at h
  obtain ⟨h1, h2⟩ := computeQnameStrict_error hi.store (hi.mgr i).1 (hi.mgr i).2 u e (outStr_err h)
  refine ⟨h1, ?_⟩
  rcases h2 with h2 | h2 | h2
  · exact Or.inl h2
  · exact Or.inr (Or.inl (splitOrWhole_none h2))
  · exact Or.inr (Or.inr h2)

end RV.C17
