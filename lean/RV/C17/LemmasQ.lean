import RV.C17.LemmasMgr
/-
  C17 helper lemmas, part 3: `split_uri`, trie lookup soundness, `compute_qname(_strict)`,
  `normalizeUri`.
-/
namespace RV.C17
open RV.C17.Tables

/-! ### split_uri -/

theorem isPrefixOf_append_drop {a v : Str} (h : a.isPrefixOf v = true) : a ++ v.drop a.length = v := by
  rw [List.isPrefixOf_iff_prefix] at h
  exact List.prefix_iff_eq_append.1 h

theorem splitUri_append {starts : List Nat} {uri n l : Str} (h : splitUri starts uri = some (n, l)) :
    n ++ l = uri := by
  unfold splitUri at h
  split at h
  · next hx =>
    injection h with h; injection h with h1 h2; subst h1 h2
    exact isPrefixOf_append_drop hx
  · split at h
    · exact absurd h (by simp)
    · split at h
      · exact absurd h (by simp)
      · split at h
        · exact absurd h (by simp)
        · injection h with h; injection h with h1 h2; subst h1 h2
          exact List.take_append_drop _ _

/-! ### get_longest_namespace returns a prefix of the IRI -/

mutual
theorem getLongestT_prefix (v : Str) : ∀ (t : Trie) (r : Str), getLongestT v t = some r → r.isPrefixOf v = true
  | .node k cs, r, h => by
    simp only [getLongestT] at h
    split at h
    · next hk =>
      split at h
      · injection h with h; subst h; exact hk
      · next r' hr => injection h with h; subst h; exact getLongest_prefix v cs _ hr
    · exact absurd h (by simp)
theorem getLongest_prefix (v : Str) : ∀ (f : Forest) (r : Str), getLongest v f = some r → r.isPrefixOf v = true
  | [], r, h => by simp [getLongest] at h
  | t :: rest, r, h => by
    simp only [getLongest] at h
    split at h
    · next r' hr => injection h with h; subst h; exact getLongestT_prefix v t _ hr
    · exact getLongest_prefix v rest r h
end

/-! ### lookupOrGenerate -/

theorem lookupOrGenerate_reach (st : Store) (m : Mgr) (n name : Str) (g : Bool) :
    Reach st (lookupOrGenerate st m n name g).1 := by
  unfold lookupOrGenerate
  split
  · exact Reach.refl _
  · split
    · exact Reach.refl _
    · split
      · exact Reach.refl _
      · next p hp =>
        simp only
        split <;> exact Mgr.bind_reach st m (some p) n true false

theorem lookupOrGenerate_cache (st : Store) (m : Mgr) (n name : Str) (g : Bool) :
    (lookupOrGenerate st m n name g).2.1.cache = m.cache ∧ (lookupOrGenerate st m n name g).2.1.scache = m.scache := by
  unfold lookupOrGenerate
  split
  · exact ⟨rfl, rfl⟩
  · split
    · exact ⟨rfl, rfl⟩
    · split
      · exact ⟨rfl, rfl⟩
      · next p hp =>
        simp only
        split <;> exact Mgr.bind_cache st m (some p) n true false

/-- a successful result names a prefix that the namespace has in the resulting store -/
theorem lookupOrGenerate_ok {st : Store} {m : Mgr} {n name : Str} {g : Bool} {p n' l : Str}
    (h : (lookupOrGenerate st m n name g).2.2 = .ok (p, n', l)) :
    n' = n ∧ l = name ∧ (lookupOrGenerate st m n name g).1.prefix n = some p := by
  cases hq : st.prefix n with
  | some q =>
    have e : lookupOrGenerate st m n name g = (st, m, .ok (q, n, name)) := by
      unfold lookupOrGenerate; simp only [hq]
    rw [e] at h ⊢
    simp only at h
    injection h with h; injection h with h1 h; injection h with h2 h3
    subst h1 h2 h3
    exact ⟨rfl, rfl, hq⟩
  | none =>
    cases g with
    | false =>
      have e : lookupOrGenerate st m n name false = (st, m, .error .KeyError) := by
        unfold lookupOrGenerate; simp only [hq]; rfl
      rw [e] at h; exact absurd h (by simp)
    | true =>
      cases hq2 : pickNs st (st.ns.length + 1) 1 with
      | none =>
        have e : lookupOrGenerate st m n name true = (st, m, .error .Loop) := by
          unfold lookupOrGenerate; simp only [hq, hq2]; rfl
        rw [e] at h; exact absurd h (by simp)
      | some q =>
        have hf := pickNs_falsy st _ _ _ hq2
        have e : lookupOrGenerate st m n name true =
            (match (Mgr.bind st m (some q) n true false).2.2 with
             | .err e => ((Mgr.bind st m (some q) n true false).1, (Mgr.bind st m (some q) n true false).2.1, .error e)
             | _ => ((Mgr.bind st m (some q) n true false).1, (Mgr.bind st m (some q) n true false).2.1, .ok (q, n, name))) := by
          unfold lookupOrGenerate; simp only [hq, hq2]; rfl
        rw [e] at h ⊢
        rcases Mgr.bind_fresh (m := m) hq hf with ⟨e', he⟩ | hb
        · rw [he] at h; exact absurd h (by simp)
        · split at h
          · exact absurd h (by simp)
          · next hne =>
            simp only at h
            injection h with h; injection h with h1 h; injection h with h2 h3
            subst h1 h2 h3
            exact ⟨rfl, rfl, hb⟩

/-! ### compute_qname -/

theorem splitOrWhole_append {st : Store} {uri n l : Str} (h : splitOrWhole st uri = some (n, l)) :
    n ++ l = uri := by
  unfold splitOrWhole at h
  split at h
  · next r hr => injection h with h; subst h; exact splitUri_append hr
  · split at h
    · split at h
      · exact absurd h (by simp)
      · injection h with h; injection h with h1 h2; subst h1 h2; simp
    · exact absurd h (by simp)

theorem refineLongest_append {trie : Forest} {n0 name0 uri : Str} (h : n0 ++ name0 = uri) :
    (refineLongest trie n0 name0 uri).1 ++ (refineLongest trie n0 name0 uri).2 = uri := by
  unfold refineLongest
  split
  · next pl hpl =>
    simp only
    cases hf : findSub n0 trie with
    | none => rw [hf] at hpl; simp at hpl
    | some sub =>
      rw [hf] at hpl; simp only [Option.bind_some] at hpl
      exact isPrefixOf_append_drop (getLongest_prefix uri sub pl hpl)
  · exact h

theorem ensureStrie_cache (m : Mgr) (n : Str) :
    (m.ensureStrie n).cache = m.cache ∧ (m.ensureStrie n).scache = m.scache := by
  unfold Mgr.ensureStrie; split <;> exact ⟨rfl, rfl⟩

/-- what every qname computation guarantees -/
structure QRes (st : Store) (u : Str) (r : Store × Mgr × Except Err QN) : Prop where
  reach : Reach st r.1
  cache : CacheOK r.2.1.cache
  scache : CacheOK r.2.1.scache
  ok : ∀ p n l, r.2.2 = .ok (p, n, l) → r.1.prefix n = some p ∧ n ++ l = u

theorem computeQname_all {st : Store} {m : Mgr} (u : Str) (g : Bool)
    (hc : CacheOK m.cache) (hs : CacheOK m.scache) : QRes st u (Mgr.computeQname st m u g) := by
  unfold Mgr.computeQname
  simp only
  have hv := cacheOK_validEntry hc st u
  split
  · next r hr =>
    refine ⟨Reach.refl _, hv, hs, ?_⟩
    intro p n l e
    simp only at e
    injection e with e; subst e
    exact ⟨validEntry_hit st u p n l hr, hv _ _ _ _ hr⟩
  · split
    · exact ⟨Reach.refl _, hv, hs, by intro p n l e; exact absurd e (by simp)⟩
    · split
      · exact ⟨Reach.refl _, hv, hs, by intro p n l e; exact absurd e (by simp)⟩
      · next n0 name0 hsp =>
        have h0 := splitOrWhole_append hsp
        generalize hm1 : Mgr.ensureStrie { cache := validEntry st m.cache u, scache := m.scache, trie := m.trie, strie := m.strie } n0 = m1
        have hm1c : m1.cache = validEntry st m.cache u ∧ m1.scache = m.scache := by
          rw [← hm1]; exact ensureStrie_cache _ _
        have hnn := refineLongest_append (trie := m1.trie) h0
        generalize refineLongest m1.trie n0 name0 u = nn at hnn
        have hr := lookupOrGenerate_reach st m1 nn.1 nn.2 g
        have hcc := lookupOrGenerate_cache st m1 nn.1 nn.2 g
        split
        · next q hq =>
          obtain ⟨p, n, l⟩ := q
          obtain ⟨e1, e2, e3⟩ := lookupOrGenerate_ok hq
          subst e1 e2
          refine ⟨hr, ?_, ?_, ?_⟩
          · simp only
            rw [hcc.1, hm1c.1]
            exact cacheOK_aset hv hnn
          · simp only; rw [hcc.2, hm1c.2]; exact hs
          · intro p' n' l' e
            simp only at e
            injection e with e; injection e with e1 e; injection e with e2 e3
            subst e1 e2 e3
            exact ⟨e3, hnn⟩
        · refine ⟨hr, ?_, ?_, by intro p n l e; exact absurd e (by simp)⟩
          · simp only; rw [hcc.1, hm1c.1]; exact hv
          · simp only; rw [hcc.2, hm1c.2]; exact hs

end RV.C17
