import RV.C17.LemmasQ
/-
  C17 helper lemmas, part 4: compute_qname_strict, normalizeUri, parser / serializer glue,
  and the history invariant preserved by every step.
-/
namespace RV.C17
open RV.C17.Tables

theorem QRes.mono {st st1 : Store} {u : Str} {r : Store × Mgr × Except Err QN}
    (h1 : Reach st st1) (h : QRes st1 u r) : QRes st u r :=
  ⟨h1.trans h.reach, h.cache, h.scache, h.ok⟩

theorem strictTail_all {st : Store} {m : Mgr} (u : Str) (g : Bool)
    (hc : CacheOK m.cache) (hs : CacheOK m.scache) : QRes st u (Mgr.strictTail st m u g) := by
  unfold Mgr.strictTail
  simp only
  have hv := cacheOK_validEntry hs st u
  split
  · next r hr =>
    refine ⟨Reach.refl _, hc, hv, ?_⟩
    intro p n l e
    simp only at e
    injection e with e; subst e
    exact ⟨validEntry_hit st u p n l hr, hv _ _ _ _ hr⟩
  · split
    · exact ⟨Reach.refl _, hc, hv, by intro p n l e; exact absurd e (by simp)⟩
    · next n0 name0 hsp =>
      have h0 := splitUri_append hsp
      generalize hm1 : Mgr.ensureStrie { cache := m.cache, scache := validEntry st m.scache u, trie := m.trie, strie := m.strie } n0 = m1
      have hm1c : m1.cache = m.cache ∧ m1.scache = validEntry st m.scache u := by
        rw [← hm1]; exact ensureStrie_cache _ _
      have hr := lookupOrGenerate_reach st m1 n0 name0 g
      have hcc := lookupOrGenerate_cache st m1 n0 name0 g
      split
      · next q hq =>
        obtain ⟨p, n, l⟩ := q
        obtain ⟨e1, e2, e3⟩ := lookupOrGenerate_ok hq
        subst e1 e2
        refine ⟨hr, ?_, ?_, ?_⟩
        · simp only; rw [hcc.1, hm1c.1]; exact hc
        · simp only
          rw [hcc.2, hm1c.2]
          exact cacheOK_aset hv h0
        · intro p' n' l' e
          simp only at e
          injection e with e; injection e with e1 e; injection e with e2 e4
          subst e1 e2 e4
          exact ⟨e3, h0⟩
      · refine ⟨hr, ?_, ?_, by intro p n l e; exact absurd e (by simp)⟩
        · simp only; rw [hcc.1, hm1c.1]; exact hc
        · simp only; rw [hcc.2, hm1c.2]; exact hv

theorem computeQnameStrict_all {st : Store} {m : Mgr} (u : Str) (g : Bool)
    (hc : CacheOK m.cache) (hs : CacheOK m.scache) : QRes st u (Mgr.computeQnameStrict st m u g) := by
  have h0 := computeQname_all (st := st) u g hc hs
  unfold Mgr.computeQnameStrict
  simp only
  split
  · exact ⟨h0.reach, h0.cache, h0.scache, by intro p n l e; exact absurd e (by simp)⟩
  · next p n name hq =>
    split
    · refine ⟨h0.reach, h0.cache, h0.scache, ?_⟩
      intro p' n' l' e
      simp only at e
      injection e with e; injection e with e1 e; injection e with e2 e3
      subst e1 e2 e3
      exact h0.ok _ _ _ hq
    · exact (strictTail_all u g h0.cache h0.scache).mono h0.reach

/-! ### results that are not qname triples -/

/-- what every other manager operation guarantees -/
structure MRes (st : Store) (r : Store × Mgr) : Prop where
  reach : Reach st r.1
  cache : CacheOK r.2.cache
  scache : CacheOK r.2.scache

theorem Mgr.bind_all {st : Store} {m : Mgr} (pre : Option Str) (n : Str) (ov rp : Bool)
    (hc : CacheOK m.cache) (hs : CacheOK m.scache) :
    MRes st ((Mgr.bind st m pre n ov rp).1, (Mgr.bind st m pre n ov rp).2.1) := by
  have h := Mgr.bind_cache st m pre n ov rp
  exact ⟨Mgr.bind_reach st m pre n ov rp, by simp only; rw [h.1]; exact hc, by simp only; rw [h.2]; exact hs⟩

theorem normalizeUri_all {st : Store} {m : Mgr} (u : Str)
    (hc : CacheOK m.cache) (hs : CacheOK m.scache) :
    MRes st ((Mgr.normalizeUri st m u).1, (Mgr.normalizeUri st m u).2.1) := by
  unfold Mgr.normalizeUri
  split
  · exact ⟨Reach.refl _, hc, hs⟩
  · simp only
    split
    · exact ⟨Reach.refl _, hc, hs⟩
    · next n0 l0 _ =>
      have he := ensureStrie_cache m n0
      split
      · exact ⟨Reach.refl _, by simp only; rw [he.1]; exact hc, by simp only; rw [he.2]; exact hs⟩
      · have h0 := computeQname_all (st := st) (m := m.ensureStrie n0) u true (by rw [he.1]; exact hc) (by rw [he.2]; exact hs)
        split <;> exact ⟨h0.reach, h0.cache, h0.scache⟩

/-- `n3()` answers `<iri>` or `p:l` with `p` bound now to a namespace that expands `l` to the IRI -/
theorem normalizeUri_str {st : Store} {m : Mgr} (u s : Str)
    (hc : CacheOK m.cache) (hs : CacheOK m.scache) (h : (Mgr.normalizeUri st m u).2.2 = .str s) :
    s = 60 :: u ++ [62] ∨ ∃ p n l, s = joinQ p l ∧ (Mgr.normalizeUri st m u).1.prefix n = some p ∧ n ++ l = u := by
  generalize hr : Mgr.normalizeUri st m u = r at h ⊢
  unfold Mgr.normalizeUri at hr
  split at hr
  · subst hr; exact absurd h (by simp)
  · simp only at hr
    split at hr
    · subst hr; injection h with h; exact Or.inl h.symm
    · next n0 l0 hsp =>
      have he := ensureStrie_cache m n0
      split at hr
      · subst hr; injection h with h; exact Or.inl h.symm
      · have h0 := computeQname_all (st := st) (m := m.ensureStrie n0) u true (by rw [he.1]; exact hc) (by rw [he.2]; exact hs)
        split at hr
        · next p n l hq =>
          subst hr
          injection h with h
          exact Or.inr ⟨p, n, l, h.symm, h0.ok _ _ _ hq⟩
        · subst hr; exact absurd h (by simp)

theorem bindAll_all (ov : Bool) : ∀ (d : List (Option Str × Str)) (st : Store) (m : Mgr),
    CacheOK m.cache → CacheOK m.scache → MRes st ((bindAll ov d st m).1, (bindAll ov d st m).2.1)
  | [], st, m, hc, hs => ⟨Reach.refl _, hc, hs⟩
  | (p, n) :: r, st, m, hc, hs => by
    have hb := Mgr.bind_all (st := st) p n ov false hc hs
    simp only [bindAll]
    split
    · exact hb
    · have ih := bindAll_all ov r (Mgr.bind st m p n ov false).1 (Mgr.bind st m p n ov false).2.1 hb.cache hb.scache
      exact ⟨hb.reach.trans ih.reach, ih.cache, ih.scache⟩

theorem mgr_empty_ok : CacheOK Mgr.empty.cache ∧ CacheOK Mgr.empty.scache := ⟨cacheOK_nil, cacheOK_nil⟩

theorem Mgr.init_all (st : Store) (b : BindSet) : MRes st ((Mgr.init st b).1, (Mgr.init st b).2.1) := by
  cases b with
  | none => exact ⟨Reach.refl _, cacheOK_nil, cacheOK_nil⟩
  | core => exact bindAll_all false _ st Mgr.empty cacheOK_nil cacheOK_nil
  | rdflib => exact bindAll_all false _ st Mgr.empty cacheOK_nil cacheOK_nil
  | cc => exact ⟨Reach.refl _, cacheOK_nil, cacheOK_nil⟩
  | unknown => exact ⟨Reach.refl _, cacheOK_nil, cacheOK_nil⟩

theorem getQNames_all : ∀ (d : List (Str × Bool)) (st : Store) (m : Mgr),
    CacheOK m.cache → CacheOK m.scache → MRes st (getQNames d st m)
  | [], st, m, hc, hs => ⟨Reach.refl _, hc, hs⟩
  | (u, g) :: r, st, m, hc, hs => by
    have h0 := computeQname_all (st := st) u g hc hs
    simp only [getQNames]
    have ih := getQNames_all r (Mgr.computeQname st m u g).1 (Mgr.computeQname st m u g).2.1 h0.cache h0.scache
    exact ⟨h0.reach.trans ih.reach, ih.cache, ih.scache⟩

/-! ### one serialised document: bindings, caches, and the document's own prefix table -/

theorem docGetQName_proj (st : Store) (m : Mgr) (d : Doc) (u : Str) (g fb : Bool) :
    (docGetQName st m d u g fb).1 = (Mgr.computeQname st m u g).1 ∧
      (docGetQName st m d u g fb).2.1 = (Mgr.computeQname st m u g).2.1 := by
  unfold docGetQName
  simp only
  repeat' split
  all_goals exact ⟨rfl, rfl⟩

/-- a successful `addNamespace` only adds to the table: declared prefixes keep their namespace,
    and the returned document prefix is declared for the requested namespace -/
theorem Doc.addNamespace_ok {d d' : Doc} {p n q : Str} (h : d.addNamespace p n = .ok (d', q)) :
    alookup d'.table q = some n ∧ ∀ x v, alookup d.table x = some v → alookup d'.table x = some v := by
  unfold Doc.addNamespace at h
  simp only at h
  split at h
  · exact absurd h (by simp)
  · next rwt q' _ =>
    split at h
    · next n' hn' =>
      split at h
      · exact absurd h (by simp)
      · next hne =>
        injection h with h; injection h with h1 h2; subst h1 h2
        have e : n' = n := by simpa using hne
        subst e
        refine ⟨by simp, ?_⟩
        intro x v hx
        simp only [alookup_aset]
        split
        · next hxq => subst hxq; rw [hn'] at hx; exact hx
        · exact hx
    · next hnone =>
      injection h with h; injection h with h1 h2; subst h1 h2
      refine ⟨by simp, ?_⟩
      intro x v hx
      simp only [alookup_aset]
      split
      · next hxq => subst hxq; rw [hnone] at hx; exact absurd hx (by simp)
      · exact hx

/-- every name `dp:l` written so far expands, through the document's table, to its IRI -/
def NamesOK (d : Doc) (acc : List (Str × Str × Str)) : Prop :=
  ∀ u dp l, (u, dp, l) ∈ acc → ∃ n, alookup d.table dp = some n ∧ n ++ l = u

theorem docGetQName_names {st : Store} {m : Mgr} {d d' : Doc} {u : Str} {g fb : Bool}
    (hc : CacheOK m.cache) (hs : CacheOK m.scache) {acc : List (Str × Str × Str)} (ha : NamesOK d acc)
    {res : Option (Str × Str)} (h : (docGetQName st m d u g fb).2.2 = .ok (d', res)) :
    NamesOK d' acc ∧ ∀ dp l, res = some (dp, l) → ∃ n, alookup d'.table dp = some n ∧ n ++ l = u := by
  have h0 := computeQname_all (st := st) u g hc hs
  unfold docGetQName at h
  simp only at h
  split at h
  · injection h with h; injection h with h1 h2; subst h1 h2
    exact ⟨ha, by intro dp l e; exact absurd e (by simp)⟩
  · next p n l hparts =>
    have hnl : n ++ l = u := by
      split at hparts
      · next q hq => injection hparts with e; subst e; exact (h0.ok _ _ _ hq).2
      · split at hparts
        · injection hparts with e; injection e with e1 e; injection e with e2 e3; subst e2 e3; simp
        · exact absurd hparts (by simp)
    split at h
    · next d2 q hadd =>
      injection h with h; injection h with h1 h2; subst h1
      obtain ⟨a1, a2⟩ := Doc.addNamespace_ok hadd
      refine ⟨?_, ?_⟩
      · intro u' dp' l' hm
        obtain ⟨n', hn', e'⟩ := ha u' dp' l' hm
        exact ⟨n', a2 _ _ hn', e'⟩
      · intro dp l' e
        rw [← h2] at e
        split at e
        · exact absurd e (by simp)
        · injection e with e; injection e with e1 e2; subst e1 e2
          exact ⟨n, a1, hnl⟩
    · exact absurd h (by simp)

theorem serDoc_all (fb : Bool) : ∀ (qs : List (Str × Bool)) (st : Store) (m : Mgr) (d : Doc) (acc : List (Str × Str × Str)),
    CacheOK m.cache → CacheOK m.scache → NamesOK d acc →
    MRes st ((serDoc fb qs st m d acc).1, (serDoc fb qs st m d acc).2.1) ∧
      ∀ d' res, (serDoc fb qs st m d acc).2.2 = .ok (d', res) → NamesOK d' res
  | [], st, m, d, acc, hc, hs, ha => by
    refine ⟨⟨Reach.refl _, hc, hs⟩, ?_⟩
    intro d' res h
    simp only [serDoc] at h
    injection h with h; injection h with h1 h2; subst h1 h2; exact ha
  | (u, g) :: r, st, m, d, acc, hc, hs, ha => by
    have h0 := computeQname_all (st := st) u g hc hs
    have hp := docGetQName_proj st m d u g fb
    have hm : MRes st ((docGetQName st m d u g fb).1, (docGetQName st m d u g fb).2.1) := by
      rw [hp.1, hp.2]; exact ⟨h0.reach, h0.cache, h0.scache⟩
    simp only [serDoc]
    split
    · exact ⟨hm, by intro d' res h; exact absurd h (by simp)⟩
    · next d2 hq =>
      obtain ⟨n1, _⟩ := docGetQName_names hc hs ha hq
      have ih := serDoc_all fb r (docGetQName st m d u g fb).1 (docGetQName st m d u g fb).2.1 d2 acc hm.cache hm.scache n1
      exact ⟨⟨hm.reach.trans ih.1.reach, ih.1.cache, ih.1.scache⟩, ih.2⟩
    · next d2 dp l hq =>
      obtain ⟨n1, n2⟩ := docGetQName_names hc hs ha hq
      have hacc : NamesOK d2 (acc ++ [(u, dp, l)]) := by
        intro u' dp' l' hm'
        simp only [List.mem_append, List.mem_singleton] at hm'
        rcases hm' with e | e
        · exact n1 u' dp' l' e
        · injection e with e1 e; injection e with e2 e3; subst e1 e2 e3
          exact n2 _ _ rfl
      have ih := serDoc_all fb r (docGetQName st m d u g fb).1 (docGetQName st m d u g fb).2.1 d2 _ hm.cache hm.scache hacc
      exact ⟨⟨hm.reach.trans ih.1.reach, ih.1.cache, ih.1.scache⟩, ih.2⟩

theorem QRes.toM' {st : Store} {u : Str} {r : Store × Mgr × Except Err QN} (h : QRes st u r) :
    MRes st (r.1, r.2.1) := ⟨h.reach, h.cache, h.scache⟩

theorem strictSeq_all : ∀ (us : List Str) (st : Store) (m : Mgr) (acc : List (Str × QN)),
    CacheOK m.cache → CacheOK m.scache →
    MRes st ((strictSeq us st m acc).1, (strictSeq us st m acc).2.1)
  | [], st, m, acc, hc, hs => ⟨Reach.refl _, hc, hs⟩
  | u :: r, st, m, acc, hc, hs => by
    have h0 := (computeQnameStrict_all (st := st) u true hc hs).toM'
    simp only [strictSeq]
    split
    · exact h0
    · next a _ =>
      have ih := strictSeq_all r (Mgr.computeQnameStrict st m u true).1 (Mgr.computeQnameStrict st m u true).2.1
        (acc ++ [(u, a)]) h0.cache h0.scache
      exact ⟨h0.reach.trans ih.reach, ih.cache, ih.scache⟩

theorem serXml_all (preds stmts : List Str) (st : Store) (m : Mgr)
    (hc : CacheOK m.cache) (hs : CacheOK m.scache) :
    MRes st ((serXml preds stmts st m).1, (serXml preds stmts st m).2.1) := by
  have h1 := strictSeq_all preds st m [] hc hs
  have h2 := strictSeq_all stmts (strictSeq preds st m []).1 (strictSeq preds st m []).2.1 [] h1.cache h1.scache
  unfold serXml
  simp only
  split
  · exact h1
  · split
    · exact h1
    · split
      · exact ⟨h1.reach.trans h2.reach, h2.cache, h2.scache⟩
      · exact ⟨h1.reach.trans h2.reach, h2.cache, h2.scache⟩

/-! ### the history invariant -/

structure HInv (s : St) : Prop where
  store : s.store.Inv
  c0 : CacheOK s.m0.cache
  s0 : CacheOK s.m0.scache
  c1 : CacheOK s.m1.cache
  s1 : CacheOK s.m1.scache

theorem HInv.init : HInv St.init :=
  ⟨Store.inv_empty, cacheOK_nil, cacheOK_nil, cacheOK_nil, cacheOK_nil⟩

theorem HInv.mgr {s : St} (h : HInv s) (i : Bool) : CacheOK (s.mgr i).cache ∧ CacheOK (s.mgr i).scache := by
  cases i
  · exact ⟨h.c0, h.s0⟩
  · exact ⟨h.c1, h.s1⟩

theorem HInv.put {s : St} (h : HInv s) (i : Bool) {r : Store × Mgr} (hr : MRes s.store r) : HInv (s.put i r) := by
  cases i
  · exact ⟨hr.reach.inv h.store, hr.cache, hr.scache, h.c1, h.s1⟩
  · exact ⟨hr.reach.inv h.store, h.c0, h.s0, hr.cache, hr.scache⟩

theorem QRes.toM {st : Store} {u : Str} {r : Store × Mgr × Except Err QN} (h : QRes st u r) :
    MRes st (r.1, r.2.1) := ⟨h.reach, h.cache, h.scache⟩

/-- TriG: the contexts of one document, each through its own manager, one prefix table -/
theorem serTrig_all (fb : Bool) : ∀ (cs : List (Bool × List (Str × Bool))) (s : St) (d : Doc)
    (acc : List (Str × Str × Str)), HInv s → NamesOK d acc →
    HInv (serTrig fb cs s d acc).1 ∧ ∀ d' res, (serTrig fb cs s d acc).2 = .ok (d', res) → NamesOK d' res
  | [], s, d, acc, h, ha => by
    refine ⟨h, ?_⟩
    intro d' res e
    simp only [serTrig] at e
    injection e with e; injection e with e1 e2; subst e1 e2; exact ha
  | (i, qs) :: r, s, d, acc, h, ha => by
    have hd := serDoc_all fb qs s.store (s.mgr i) d acc (h.mgr i).1 (h.mgr i).2 ha
    have hp := h.put i hd.1
    simp only [serTrig]
    split
    · exact ⟨hp, by intro d' res e'; exact absurd e' (by simp)⟩
    · next d2 acc2 hq => exact serTrig_all fb r _ d2 acc2 hp (hd.2 d2 acc2 hq)

theorem HInv.step {s : St} (h : HInv s) (op : Op) : HInv (s.step op).1 := by
  cases op with
  | minit i b =>
    simp only [St.step]
    split
    · exact h
    · exact h.put i (Mgr.init_all _ b)
  | serxml i preds stmts => exact h.put i (serXml_all preds stmts _ _ (h.mgr i).1 (h.mgr i).2)
  | sertrig fb cs =>
    have hd := (serTrig_all fb cs s Doc.empty [] h (by intro u dp l hm; exact absurd hm (by simp))).1
    exact ⟨hd.store, cacheOK_nil, hd.s0, cacheOK_nil, hd.s1⟩
  | bind i p n ov rp => exact h.put i (Mgr.bind_all p n ov rp (h.mgr i).1 (h.mgr i).2)
  | sbind p n ov =>
    simp only [St.step]
    obtain ⟨s', hs, hi⟩ := Store.bind_inv h.store p n ov
    rw [hs]
    exact ⟨hi, h.c0, h.s0, h.c1, h.s1⟩
  | cq i u g => exact h.put i (computeQname_all u g (h.mgr i).1 (h.mgr i).2).toM
  | cqs i u g => exact h.put i (computeQnameStrict_all u g (h.mgr i).1 (h.mgr i).2).toM
  | qname i u => exact h.put i (computeQname_all u true (h.mgr i).1 (h.mgr i).2).toM
  | qstrict i u => exact h.put i (computeQnameStrict_all u true (h.mgr i).1 (h.mgr i).2).toM
  | curie i u g => exact h.put i (computeQname_all u g (h.mgr i).1 (h.mgr i).2).toM
  | n3 i u => exact h.put i (normalizeUri_all u (h.mgr i).1 (h.mgr i).2)
  | expand c => exact h
  | reset i =>
    exact h.put i ⟨Reach.refl _, cacheOK_nil, (h.mgr i).2⟩
  | parse i d => exact h.put i (bindAll_all true _ _ _ (h.mgr i).1 (h.mgr i).2)
  | parsexml i d => exact h.put i (bindAll_all false _ _ _ (h.mgr i).1 (h.mgr i).2)
  | ser i a b c => exact h.put i (getQNames_all _ _ _ (h.mgr i).1 (h.mgr i).2)
  | serdoc i fb qs =>
    have hd := (serDoc_all fb qs s.store (s.mgr i) Doc.empty [] (h.mgr i).1 (h.mgr i).2
      (by intro u dp l hm; exact absurd hm (by simp))).1
    exact h.put i ⟨hd.reach, cacheOK_nil, hd.scache⟩

theorem HInv.run (ops : List Op) : ∀ {s : St}, HInv s → HInv (s.run ops) := by
  induction ops with
  | nil => intro s h; exact h
  | cons o r ih => intro s h; exact ih (h.step o)

end RV.C17
