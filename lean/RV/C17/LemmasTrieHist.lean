import RV.C17.LemmasTrie
/-
  C17 helper lemmas, part 8: the sub-dict `__strie[ns]` and the trie invariant along histories.
-/
namespace RV.C17

/-! ### `__strie[n0]`: the values below node `n0` are exactly the known strict extensions of `n0` -/

mutual
theorem findSubT_mem (n0 : Str) : ∀ (t : Trie) (sub : Forest), findSubT n0 t = some sub → n0 ∈ valsT t
  | .node k cs, sub, h => by
    simp only [findSubT] at h
    by_cases hk : k = n0
    · subst hk; simp [valsT]
    · rw [if_neg hk] at h
      simp only [valsT, List.mem_cons]
      exact Or.inr (findSub_mem n0 cs sub h)
theorem findSub_mem (n0 : Str) : ∀ (f : Forest) (sub : Forest), findSub n0 f = some sub → n0 ∈ vals f
  | [], sub, h => by simp [findSub] at h
  | t :: rest, sub, h => by
    simp only [findSub] at h
    simp only [vals, List.mem_append]
    cases ht : findSubT n0 t with
    | some r => exact Or.inl (findSubT_mem n0 t r ht)
    | none => rw [ht] at h; exact Or.inr (findSub_mem n0 rest sub h)
end

mutual
theorem findSubT_spec (n0 : Str) : ∀ (t : Trie) (sub : Forest), okT t → findSubT n0 t = some sub →
    FInv sub ∧ (∀ w, w ∈ vals sub → w ∈ valsT t ∧ n0 <+: w ∧ n0 ≠ w) ∧
      (∀ w, w ∈ valsT t → n0 <+: w → n0 ≠ w → w ∈ vals sub)
  | .node k cs, sub, h, hf => by
    simp only [findSubT] at hf
    by_cases hk : k = n0
    · subst hk
      rw [if_pos rfl] at hf; injection hf with hf; subst hf
      refine ⟨⟨h.2.1, h.2.2⟩, ?_, ?_⟩
      · intro w hw; exact ⟨by simp [valsT, hw], h.1 w hw⟩
      · intro w hw h1 h2
        simp only [valsT, List.mem_cons] at hw
        rcases hw with e | e
        · exact absurd e.symm h2
        · exact e
    · rw [if_neg hk] at hf
      obtain ⟨i1, i2, i3⟩ := findSub_spec n0 cs sub h.2.1 h.2.2 hf
      refine ⟨i1, ?_, ?_⟩
      · intro w hw; exact ⟨by simp [valsT, (i2 w hw).1], (i2 w hw).2⟩
      · intro w hw h1 h2
        simp only [valsT, List.mem_cons] at hw
        rcases hw with e | e
        · subst e
          have hn := h.1 n0 (findSub_mem n0 cs sub hf)
          exact absurd (prefix_antisymm hn.1 h1) hn.2
        · exact i3 w e h1 h2
theorem findSub_spec (n0 : Str) : ∀ (f : Forest) (sub : Forest), Sib f → okF f → findSub n0 f = some sub →
    FInv sub ∧ (∀ w, w ∈ vals sub → w ∈ vals f ∧ n0 <+: w ∧ n0 ≠ w) ∧
      (∀ w, w ∈ vals f → n0 <+: w → n0 ≠ w → w ∈ vals sub)
  | [], sub, _, _, hf => by simp [findSub] at hf
  | t :: rest, sub, hs, ho, hf => by
    simp only [findSub] at hf
    cases ht : findSubT n0 t with
    | some r =>
      rw [ht] at hf; injection hf with hf; subst hf
      obtain ⟨i1, i2, i3⟩ := findSubT_spec n0 t r ho.1 ht
      refine ⟨i1, ?_, ?_⟩
      · intro w hw; exact ⟨by simp [vals, (i2 w hw).1], (i2 w hw).2⟩
      · intro w hw h1 h2
        simp only [vals, List.mem_append] at hw
        rcases hw with e | e
        · exact i3 w e h1 h2
        · exfalso
          obtain ⟨t', ht', hw'⟩ := (vals_mem rest w).1 e
          have a1 : t.key <+: w := (key_le_of_mem ho.1 (findSubT_mem n0 t r ht)).trans h1
          have a2 : t'.key <+: w := key_le_of_mem ((okF_iff rest).1 ho.2 t' ht') hw'
          have hsib := List.rel_of_pairwise_cons hs ht'
          rcases prefix_comparable a1 a2 with c | c
          · exact hsib.1 c
          · exact hsib.2 c
    | none =>
      rw [ht] at hf
      obtain ⟨i1, i2, i3⟩ := findSub_spec n0 rest sub (List.Pairwise.of_cons hs) ho.2 hf
      refine ⟨i1, ?_, ?_⟩
      · intro w hw; exact ⟨by simp [vals, (i2 w hw).1], (i2 w hw).2⟩
      · intro w hw h1 h2
        simp only [vals, List.mem_append] at hw
        rcases hw with e | e
        · exfalso
          obtain ⟨t', ht', hn'⟩ := (vals_mem rest n0).1 (findSub_mem n0 rest sub hf)
          have a1 : t.key <+: w := key_le_of_mem ho.1 e
          have a2 : t'.key <+: w := (key_le_of_mem ((okF_iff rest).1 ho.2 t' ht') hn').trans h1
          have hsib := List.rel_of_pairwise_cons hs ht'
          rcases prefix_comparable a1 a2 with c | c
          · exact hsib.1 c
          · exact hsib.2 c
        · exact i3 w e h1 h2
end

/-- what `compute_qname` does with the trie: among the known namespaces that strictly extend the
    split namespace `n0`, the longest one that prefixes the IRI (`none` if there is none) -/
theorem refine_spec {f : Forest} (h : FInv f) (n0 uri : Str) :
    LongestSpec ((vals f).filter (fun w => decide (n0 <+: w ∧ n0 ≠ w))) uri
      ((findSub n0 f).bind (getLongest uri)) ∨ findSub n0 f = none := by
  cases hf : findSub n0 f with
  | none => exact Or.inr rfl
  | some sub =>
    left
    obtain ⟨i1, i2, i3⟩ := findSub_spec n0 f sub h.1 h.2 hf
    simp only [Option.bind_some]
    apply (getLongest_spec uri sub i1.1 i1.2).congr
    intro w
    simp only [List.mem_filter, decide_eq_true_eq]
    constructor
    · intro hw; exact i2 w hw
    · rintro ⟨hw, h1, h2⟩; exact i3 w hw h1 h2

/-! ### every manager function keeps the trie well formed -/

theorem insertTrie_finv {m : Mgr} (h : FInv m.trie) (n : Str) : FInv (m.insertTrie n).trie :=
  (insertForest_spec h n).1

theorem ensureStrie_finv {m : Mgr} (h : FInv m.trie) (n : Str) : FInv (m.ensureStrie n).trie := by
  unfold Mgr.ensureStrie
  split
  · exact h
  · exact (insertForest_spec h n).1

theorem bindAndInsert_finv {m : Mgr} (h : FInv m.trie) (st : Store) (p n : Str) (ov : Bool) :
    FInv (bindAndInsert st m p n ov).2.1.trie := by
  unfold bindAndInsert
  split
  · exact insertTrie_finv h n
  · exact h

theorem Mgr.bind_finv {m : Mgr} (h : FInv m.trie) (st : Store) (pre : Option Str) (n : Str) (ov rp : Bool) :
    FInv (Mgr.bind st m pre n ov rp).2.1.trie := by
  unfold Mgr.bind
  simp only
  repeat' split
  all_goals first | exact bindAndInsert_finv h _ _ _ _ | exact insertTrie_finv h _ | exact h

theorem lookupOrGenerate_finv {m : Mgr} (h : FInv m.trie) (st : Store) (n name : Str) (g : Bool) :
    FInv (lookupOrGenerate st m n name g).2.1.trie := by
  unfold lookupOrGenerate
  split
  · exact h
  · split
    · exact h
    · split
      · exact h
      · simp only
        split <;> exact Mgr.bind_finv h _ _ _ _ _

theorem computeQname_finv {m : Mgr} (h : FInv m.trie) (st : Store) (u : Str) (g : Bool) :
    FInv (Mgr.computeQname st m u g).2.1.trie := by
  unfold Mgr.computeQname
  simp only
  split
  · exact h
  · split
    · exact h
    · split
      · exact h
      · next n0 name0 _ =>
        have h1 : FInv (Mgr.ensureStrie { cache := validEntry st m.cache u, scache := m.scache, trie := m.trie, strie := m.strie } n0).trie :=
          ensureStrie_finv (m := { cache := validEntry st m.cache u, scache := m.scache, trie := m.trie, strie := m.strie }) h n0
        split <;> exact lookupOrGenerate_finv h1 _ _ _ _

theorem strictTail_finv {m : Mgr} (h : FInv m.trie) (st : Store) (u : Str) (g : Bool) :
    FInv (Mgr.strictTail st m u g).2.1.trie := by
  unfold Mgr.strictTail
  simp only
  split
  · exact h
  · split
    · exact h
    · next n0 name0 _ =>
      have h1 : FInv (Mgr.ensureStrie { cache := m.cache, scache := validEntry st m.scache u, trie := m.trie, strie := m.strie } n0).trie :=
        ensureStrie_finv (m := { cache := m.cache, scache := validEntry st m.scache u, trie := m.trie, strie := m.strie }) h n0
      split <;> exact lookupOrGenerate_finv h1 _ _ _ _

theorem computeQnameStrict_finv {m : Mgr} (h : FInv m.trie) (st : Store) (u : Str) (g : Bool) :
    FInv (Mgr.computeQnameStrict st m u g).2.1.trie := by
  have h0 := computeQname_finv h st u g
  unfold Mgr.computeQnameStrict
  simp only
  split
  · exact h0
  · split
    · exact h0
    · exact strictTail_finv h0 _ _ _

theorem normalizeUri_finv {m : Mgr} (h : FInv m.trie) (st : Store) (u : Str) :
    FInv (Mgr.normalizeUri st m u).2.1.trie := by
  unfold Mgr.normalizeUri
  split
  · exact h
  · simp only
    split
    · exact h
    · next n0 l0 _ =>
      have h1 := ensureStrie_finv h n0
      split
      · exact h1
      · split <;> exact computeQname_finv h1 _ _ _

theorem bindAll_finv (ov : Bool) : ∀ (d : List (Option Str × Str)) (st : Store) (m : Mgr),
    FInv m.trie → FInv (bindAll ov d st m).2.1.trie
  | [], _, _, h => h
  | (p, n) :: r, st, m, h => by
    have hb := Mgr.bind_finv h st p n ov false
    simp only [bindAll]
    split
    · exact hb
    · exact bindAll_finv ov r (Mgr.bind st m p n ov false).1 (Mgr.bind st m p n ov false).2.1 hb

theorem Mgr.init_finv (st : Store) (b : BindSet) : FInv (Mgr.init st b).2.1.trie := by
  cases b with
  | none => exact finv_nil
  | core => exact bindAll_finv false _ st Mgr.empty finv_nil
  | rdflib => exact bindAll_finv false _ st Mgr.empty finv_nil
  | cc => exact finv_nil
  | unknown => exact finv_nil

theorem getQNames_finv : ∀ (d : List (Str × Bool)) (st : Store) (m : Mgr),
    FInv m.trie → FInv (getQNames d st m).2.trie
  | [], _, _, h => h
  | (u, g) :: r, st, m, h => by
    simp only [getQNames]
    exact getQNames_finv r (Mgr.computeQname st m u g).1 (Mgr.computeQname st m u g).2.1 (computeQname_finv h st u g)

theorem strictSeq_finv : ∀ (us : List Str) (st : Store) (m : Mgr) (acc : List (Str × QN)),
    FInv m.trie → FInv (strictSeq us st m acc).2.1.trie
  | [], _, _, _, h => h
  | u :: r, st, m, acc, h => by
    have h0 := computeQnameStrict_finv h st u true
    simp only [strictSeq]
    split
    · exact h0
    · next a _ =>
      exact strictSeq_finv r (Mgr.computeQnameStrict st m u true).1 (Mgr.computeQnameStrict st m u true).2.1 (acc ++ [(u, a)]) h0

theorem serXml_finv (preds stmts : List Str) (st : Store) (m : Mgr) (h : FInv m.trie) :
    FInv (serXml preds stmts st m).2.1.trie := by
  have h1 := strictSeq_finv preds st m [] h
  have h2 := strictSeq_finv stmts (strictSeq preds st m []).1 (strictSeq preds st m []).2.1 [] h1
  unfold serXml
  simp only
  split
  · exact h1
  · split
    · exact h1
    · split
      · exact h2
      · exact h2

theorem reset_finv (st : Store) (m : Mgr) : FInv (Mgr.reset st m).trie := by
  unfold Mgr.reset
  simp only
  have := (build_spec (st.namespaces.map Prod.snd) [] finv_nil).1
  rw [List.foldl_map] at this
  exact this

structure TInv (s : St) : Prop where
  t0 : FInv s.m0.trie
  t1 : FInv s.m1.trie

theorem TInv.mgr {s : St} (h : TInv s) (i : Bool) : FInv (s.mgr i).trie := by
  cases i
  · exact h.t0
  · exact h.t1

theorem TInv.put {s : St} (h : TInv s) (i : Bool) {r : Store × Mgr} (hr : FInv r.2.trie) : TInv (s.put i r) := by
  cases i
  · exact ⟨hr, h.t1⟩
  · exact ⟨h.t0, hr⟩

theorem TInv.step {s : St} (h : TInv s) (op : Op) : TInv (s.step op).1 := by
  cases op with
  | minit i b =>
    simp only [St.step]
    split
    · exact h
    · exact h.put i (Mgr.init_finv _ b)
  | sertrig fb cs => exact ⟨reset_finv _ _, reset_finv _ _⟩
  | serxml i preds stmts => exact h.put i (serXml_finv preds stmts _ _ (h.mgr i))
  | bind i p n ov rp => exact h.put i (Mgr.bind_finv (h.mgr i) _ p n ov rp)
  | sbind p n ov =>
    simp only [St.step]
    split
    · exact ⟨h.t0, h.t1⟩
    · exact h
  | cq i u g => exact h.put i (computeQname_finv (h.mgr i) _ u g)
  | cqs i u g => exact h.put i (computeQnameStrict_finv (h.mgr i) _ u g)
  | qname i u => exact h.put i (computeQname_finv (h.mgr i) _ u true)
  | qstrict i u => exact h.put i (computeQnameStrict_finv (h.mgr i) _ u true)
  | curie i u g => exact h.put i (computeQname_finv (h.mgr i) _ u g)
  | n3 i u => exact h.put i (normalizeUri_finv (h.mgr i) _ u)
  | expand c => exact h
  | reset i => exact h.put i (reset_finv _ _)
  | parse i d => exact h.put i (bindAll_finv true _ _ _ (h.mgr i))
  | parsexml i d => exact h.put i (bindAll_finv false _ _ _ (h.mgr i))
  | ser i a b c => exact h.put i (getQNames_finv _ _ _ (h.mgr i))
  | serdoc i fb qs => exact h.put i (reset_finv _ _)

theorem TInv.run (ops : List Op) : ∀ {s : St}, TInv s → TInv (s.run ops) := by
  induction ops with
  | nil => intro s h; exact h
  | cons o r ih => intro s h; exact ih (h.step o)

theorem TInv.init : TInv St.init := ⟨finv_nil, finv_nil⟩

end RV.C17
