import RV.C17.Model
/-
  C17 helper lemmas, part 1: dictionaries and the store's two maps.
-/
namespace RV.C17

/-! ### dictionaries -/

section dict
variable {β : Type}

@[simp] theorem alookup_aset (l : List (Str × β)) (k x : Str) (v : β) :
    alookup (aset l k v) x = if x = k then some v else alookup l x := by
  induction l with
  | nil =>
    by_cases h : x = k
    · subst h; simp [aset, alookup]
    · have h' : ¬ k = x := fun e => h e.symm
      simp [aset, alookup, h, h']
  | cons a r ih =>
    obtain ⟨a, w⟩ := a
    by_cases hk : a = k
    · subst hk
      by_cases h : x = a
      · subst h; simp [aset, alookup]
      · have h' : ¬ a = x := fun e => h e.symm
        simp [aset, alookup, h, h']
    · by_cases h : a = x
      · subst h
        have h' : ¬ a = k := hk
        simp [aset, alookup, hk]
      · simp [aset, alookup, hk, h, ih]

@[simp] theorem alookup_aerase (l : List (Str × β)) (k x : Str) :
    alookup (aerase l k) x = if x = k then none else alookup l x := by
  induction l with
  | nil => simp [aerase, alookup]
  | cons a r ih =>
    obtain ⟨a, w⟩ := a
    by_cases hk : a = k
    · subst hk
      by_cases h : x = a
      · subst h; simp [aerase, ih]
      · have h' : ¬ a = x := fun e => h e.symm
        simp [aerase, alookup, ih, h, h']
    · by_cases h : a = x
      · subst h; simp [aerase, alookup, hk]
      · simp [aerase, alookup, hk, h, ih]

theorem hasKey_iff (l : List (Str × β)) (k : Str) : hasKey l k = true ↔ (alookup l k).isSome := by
  induction l with
  | nil => simp [hasKey, alookup]
  | cons a r ih =>
    obtain ⟨a, w⟩ := a
    simp only [hasKey, alookup, Bool.or_eq_true, decide_eq_true_eq]
    split
    · next h => simp [h]
    · next h => simp [h, ih]

theorem mem_keys_iff (l : List (Str × β)) (k : Str) : k ∈ l.map Prod.fst ↔ (alookup l k).isSome := by
  induction l with
  | nil => simp [alookup]
  | cons a r ih =>
    obtain ⟨a, w⟩ := a
    simp only [List.map_cons, List.mem_cons, alookup]
    split
    · next h => simp [h]
    · next h =>
      rw [ih]
      constructor
      · rintro (h1 | h1)
        · exact absurd h1.symm h
        · exact h1
      · exact Or.inr

theorem keys_aset (l : List (Str × β)) (k x : Str) (v : β) :
    x ∈ (aset l k v).map Prod.fst ↔ x = k ∨ x ∈ l.map Prod.fst := by
  rw [mem_keys_iff, mem_keys_iff, alookup_aset]
  split <;> simp_all

theorem nodup_keys_aset {l : List (Str × β)} (h : (l.map Prod.fst).Nodup) (k : Str) (v : β) :
    ((aset l k v).map Prod.fst).Nodup := by
  induction l with
  | nil => simp [aset]
  | cons a r ih =>
    obtain ⟨a, w⟩ := a
    simp only [List.map_cons, List.nodup_cons] at h
    simp only [aset]
    split
    · next hk => simp only [List.map_cons, List.nodup_cons]; exact h
    · next hk =>
      simp only [List.map_cons, List.nodup_cons]
      refine ⟨?_, ih h.2⟩
      intro hm
      rcases (keys_aset r k a v).1 hm with h1 | h1
      · exact hk h1
      · exact h.1 h1

theorem keys_aerase (l : List (Str × β)) (k x : Str) :
    x ∈ (aerase l k).map Prod.fst ↔ x ≠ k ∧ x ∈ l.map Prod.fst := by
  rw [mem_keys_iff, mem_keys_iff, alookup_aerase]
  split <;> simp_all

theorem nodup_keys_aerase {l : List (Str × β)} (h : (l.map Prod.fst).Nodup) (k : Str) :
    ((aerase l k).map Prod.fst).Nodup := by
  induction l with
  | nil => simp [aerase]
  | cons a r ih =>
    obtain ⟨a, w⟩ := a
    simp only [List.map_cons, List.nodup_cons] at h
    simp only [aerase]
    split
    · exact ih h.2
    · simp only [List.map_cons, List.nodup_cons]
      refine ⟨?_, ih h.2⟩
      intro hm
      exact h.1 ((keys_aerase r k a).1 hm).2

/-- with unique keys, being listed and being looked up are the same thing -/
theorem mem_iff_alookup {l : List (Str × β)} (h : (l.map Prod.fst).Nodup) (k : Str) (v : β) :
    (k, v) ∈ l ↔ alookup l k = some v := by
  induction l with
  | nil => simp [alookup]
  | cons a r ih =>
    obtain ⟨a, w⟩ := a
    simp only [List.map_cons, List.nodup_cons] at h
    simp only [List.mem_cons, alookup, Prod.mk.injEq]
    split
    · next hk =>
      subst hk
      constructor
      · rintro (⟨_, h2⟩ | h2)
        · rw [h2]
        · exact absurd (List.mem_map_of_mem (f := Prod.fst) h2) h.1
      · intro h2; injection h2 with h2; exact Or.inl ⟨rfl, h2.symm⟩
    · next hk =>
      rw [← ih h.2]
      constructor
      · rintro (⟨h1, _⟩ | h2)
        · exact absurd h1.symm hk
        · exact h2
      · exact Or.inr

/-- a dict whose values determine their keys lists each value once -/
theorem nodup_vals {l : List (Str × Str)} (h : (l.map Prod.fst).Nodup)
    (inj : ∀ p q n, alookup l p = some n → alookup l q = some n → p = q) :
    (l.map Prod.snd).Nodup := by
  induction l with
  | nil => simp
  | cons a r ih =>
    obtain ⟨a, w⟩ := a
    simp only [List.map_cons, List.nodup_cons] at h ⊢
    have hr : ∀ p n, (p, n) ∈ r → alookup ((a, w) :: r) p = some n := by
      intro p n hm
      have hpa : a ≠ p := fun e => h.1 (e ▸ List.mem_map_of_mem (f := Prod.fst) hm)
      simp only [alookup, hpa, if_false]
      exact (mem_iff_alookup h.2 p n).1 hm
    constructor
    · intro hw
      obtain ⟨⟨p, n⟩, hpn, hn⟩ := List.mem_map.1 hw
      simp only at hn; subst hn
      have h1 := hr p n hpn
      have h2 : alookup ((a, n) :: r) a = some n := by simp [alookup]
      have := inj p a n h1 h2
      subst this
      exact h.1 (List.mem_map.2 ⟨(p, n), hpn, rfl⟩)
    · apply ih h.2
      intro p q n hp hq
      exact inj p q n (hr p n ((mem_iff_alookup h.2 p n).2 hp)) (hr q n ((mem_iff_alookup h.2 q n).2 hq))

end dict

/-! ### the store: the two maps stay inverse -/

structure Store.Inv (s : Store) : Prop where
  nodupNs : (s.ns.map Prod.fst).Nodup
  nodupPfx : (s.pfx.map Prod.fst).Nodup
  inverse : ∀ p n, alookup s.ns p = some n ↔ alookup s.pfx n = some p

theorem Store.inv_empty : Store.empty.Inv := ⟨by simp [Store.empty], by simp [Store.empty], by simp [Store.empty, alookup]⟩

theorem adel_eq {β : Type} (l : List (Str × β)) (k : Str) (h : (alookup l k).isSome) : adel l k = some (aerase l k) := by
  unfold adel; rw [if_pos ((hasKey_iff l k).2 h)]

/-- on a store whose maps are inverse `Memory.bind` never hits a KeyError, and keeps them inverse -/
theorem Store.bind_inv {s : Store} (h : s.Inv) (p n : Str) (ov : Bool) :
    ∃ s', s.bind p n ov = some s' ∧ s'.Inv := by
  obtain ⟨h1, h2, h3⟩ := h
  unfold Store.bind
  cases ov with
  | true =>
    simp only [if_true]
    cases hbn : alookup s.ns p with
    | none =>
      cases hq : alookup s.pfx n with
      | none =>
        refine ⟨_, rfl, nodup_keys_aset h1 _ _, nodup_keys_aset h2 _ _, ?_⟩
        intro p' n'
        simp only [alookup_aset]
        have := h3 p' n'
        have hA := h3 p n'
        have hB := h3 p' n
        grind
      | some q =>
        have hqn : alookup s.ns q = some n := (h3 q n).2 hq
        simp only [adel_eq s.ns q (by simp [hqn])]
        refine ⟨_, rfl, nodup_keys_aset (nodup_keys_aerase h1 _) _ _, nodup_keys_aset h2 _ _, ?_⟩
        intro p' n'
        simp only [alookup_aset, alookup_aerase]
        have := h3 p' n'
        have hA := h3 p n'
        have hB := h3 p' n
        have hC := h3 q n'
        grind
    | some m =>
      have hmp : alookup s.pfx m = some p := (h3 p m).1 hbn
      cases hq : alookup s.pfx n with
      | none =>
        simp only [hmp, adel_eq s.ns p (by simp [hbn]), adel_eq s.pfx m (by simp [hmp])]
        refine ⟨_, rfl, nodup_keys_aset (nodup_keys_aerase h1 _) _ _, nodup_keys_aset (nodup_keys_aerase h2 _) _ _, ?_⟩
        intro p' n'
        simp only [alookup_aset, alookup_aerase]
        have := h3 p' n'
        have hA := h3 p n'
        have hB := h3 p' n
        have hC := h3 p' m
        grind
      | some q =>
        have hqn : alookup s.ns q = some n := (h3 q n).2 hq
        simp only [adel_eq s.ns q (by simp [hqn]), adel_eq s.pfx m (by simp [hmp])]
        refine ⟨_, rfl, nodup_keys_aset (nodup_keys_aerase h1 _) _ _, nodup_keys_aset (nodup_keys_aerase h2 _) _ _, ?_⟩
        intro p' n'
        simp only [alookup_aset, alookup_aerase]
        have := h3 p' n'
        have hA := h3 p n'
        have hB := h3 p' n
        have hC := h3 p' m
        have hD := h3 q n'
        grind
  | false =>
    simp only [Bool.false_eq_true, if_false]
    split
    · next hbp hbn =>
      refine ⟨_, rfl, nodup_keys_aset h1 _ _, nodup_keys_aset h2 _ _, ?_⟩
      have hq : alookup s.pfx n = none := by
        cases hq : alookup s.pfx n with
        | none => rfl
        | some q => simp [hq] at hbp
      intro p' n'
      simp only [alookup_aset]
      have := h3 p' n'
      have hA := h3 p n'
      have hB := h3 p' n
      grind
    · exact ⟨_, rfl, h1, h2, h3⟩

end RV.C17
