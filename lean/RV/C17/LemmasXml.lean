import RV.C17.LemmasFail
import RV.C17.LemmasSound
import RV.C17.LemmasTrieHist
/-
  C17 helper lemmas, part 12: the RDF/XML document.  `compute_qname_strict(u, generate=True)` only ever ADDS
  bindings (`Keep`: on a store where no prefix is bound to the empty namespace, a generated prefix is a new
  key and its namespace a new key), it memoises its answer (`Memo`), and a repeated call on a memoised IRI
  whose bindings are still there is a no-op with the same answer.  Hence the second pass of the serializer
  (`qname_strict` per statement) repeats the answers of the first (`__bindings`), whose prefixes are the
  keys of the `xmlns` table.
-/
namespace RV.C17
open RV.C17.Tables

/-- nothing that was bound gets unbound or rebound -/
def Keep (st st' : Store) : Prop := ∀ n p, st.prefix n = some p → st'.prefix n = some p

/-- no prefix is bound to the empty namespace `URIRef("")` -/
def NoEmpty (st : Store) : Prop := ∀ p, st.namespace p ≠ some []

theorem Keep.refl (st : Store) : Keep st st := fun _ _ h => h
theorem Keep.trans {a b c : Store} (h1 : Keep a b) (h2 : Keep b c) : Keep a c :=
  fun n p h => h2 n p (h1 n p h)

/-- `Memory.bind(p, n, override=True)` with `p` and `n` both unbound is a pure insertion -/
theorem Store.bind_pure {s : Store} {p n : Str} (hn : s.prefix n = none) (hp : s.namespace p = none) :
    s.bind p n true = some ⟨aset s.pfx n p, aset s.ns p n⟩ := by
  unfold Store.prefix at hn
  unfold Store.namespace at hp
  unfold Store.bind
  simp only [hn, hp, if_true]

theorem falsy_none {st : Store} (hne : NoEmpty st) {p : Str} (h : truthy (st.namespace p) = false) :
    st.namespace p = none := by
  cases hq : st.namespace p with
  | none => rfl
  | some n =>
    cases n with
    | nil => exact absurd hq (hne p)
    | cons a r => rw [hq] at h; simp [truthy] at h

/-- the store after `bind(p, n)` of a fresh prefix to an unbound namespace: unchanged (an exception) or a
    pure insertion -/
theorem Mgr.bind_fresh_store {st : Store} (m : Mgr) {p n : Str} (hn : st.prefix n = none)
    (hp : st.namespace p = none) :
    (Mgr.bind st m (some p) n true false).1 = st ∨
      (Mgr.bind st m (some p) n true false).1 = ⟨aset st.pfx n p, aset st.ns p n⟩ := by
  unfold Mgr.bind
  simp only [Option.getD_some, hp, truthy, Bool.false_and, Bool.false_eq_true, if_false, hn]
  split
  · exact Or.inl rfl
  · unfold bindAndInsert
    rw [Store.bind_pure hn hp]
    exact Or.inr rfl

theorem keep_insert {st : Store} {p n : Str} (hn : st.prefix n = none) :
    Keep st ⟨aset st.pfx n p, aset st.ns p n⟩ := by
  intro n0 p0 h
  unfold Store.prefix at h hn ⊢
  simp only [alookup_aset]
  split
  · next e => subst e; rw [hn] at h; exact absurd h (by simp)
  · exact h

theorem noEmpty_insert {st : Store} (hne : NoEmpty st) {p n : Str} (h : n ≠ []) :
    NoEmpty ⟨aset st.pfx n p, aset st.ns p n⟩ := by
  intro p' e
  unfold Store.namespace at e
  simp only [alookup_aset] at e
  split at e
  · injection e with e; exact h e
  · exact hne p' e

/-- the tail of `compute_qname(_strict)`: bindings are only added, and no empty namespace gets bound as long
    as the namespace asked about is not empty when it has to be generated -/
theorem lookupOrGenerate_x {st : Store} (hne : NoEmpty st) (m : Mgr) (n name : Str) (g : Bool)
    (hgen : st.prefix n = none → n ≠ []) :
    Keep st (lookupOrGenerate st m n name g).1 ∧ NoEmpty (lookupOrGenerate st m n name g).1 := by
  unfold lookupOrGenerate
  split
  · exact ⟨Keep.refl _, hne⟩
  · next hq =>
    split
    · exact ⟨Keep.refl _, hne⟩
    · split
      · exact ⟨Keep.refl _, hne⟩
      · next p hp =>
        have hf := falsy_none hne (pickNs_falsy st _ _ _ hp)
        have hst : (Mgr.bind st m (some p) n true false).1 = st ∨
            (Mgr.bind st m (some p) n true false).1 = ⟨aset st.pfx n p, aset st.ns p n⟩ :=
          Mgr.bind_fresh_store m hq hf
        simp only
        have key : Keep st (Mgr.bind st m (some p) n true false).1 ∧ NoEmpty (Mgr.bind st m (some p) n true false).1 := by
          rcases hst with e | e
          · rw [e]; exact ⟨Keep.refl _, hne⟩
          · rw [e]; exact ⟨keep_insert hq, noEmpty_insert hne (hgen hq)⟩
        split <;> exact key

/-! ### the caches: what a call changes, what it memoises -/

theorem validEntry_frame (st : Store) (c : List (Str × QN)) (u u' : Str) (h : u' ≠ u) :
    alookup (validEntry st c u) u' = alookup c u' := by
  unfold validEntry
  split
  · split
    · rfl
    · rw [alookup_aerase, if_neg h]
  · rfl

theorem validEntry_valid {st : Store} {c : List (Str × QN)} {u p n l : Str}
    (h : alookup c u = some (p, n, l)) (hv : st.prefix n = some p) : validEntry st c u = c := by
  unfold validEntry
  simp only [h, hv, beq_self_eq_true, if_true]

theorem xmlns_ne : xmlns ≠ [] := by decide

theorem refineLongest_ne {st : Store} {trie : Forest} (hf : FInv trie) {u n0 name0 : Str}
    (hsp : splitOrWhole st u = some (n0, name0)) :
    st.prefix (refineLongest trie n0 name0 u).1 = none → (refineLongest trie n0 name0 u).1 ≠ [] := by
  unfold refineLongest
  split
  · next pl hpl =>
    intro _ e
    simp only at e
    rcases refine_spec hf n0 u with h | h
    · rw [hpl] at h
      have hm := h.1
      simp only [List.mem_filter, decide_eq_true_eq] at hm
      subst e
      have : n0 = [] := List.prefix_nil.1 hm.2.1
      exact hm.2.2 this
    · rw [h] at hpl; simp at hpl
  · intro hp
    simp only at hp ⊢
    unfold splitOrWhole at hsp
    split at hsp
    · next r hr =>
      injection hsp with hsp; subst hsp
      rcases splitUri_shape hr with h | h
      · rw [h.2]; exact xmlns_ne
      · exact h.1
    · split at hsp
      · next p hq =>
        split at hsp
        · exact absurd hsp (by simp)
        · injection hsp with hsp; injection hsp with h1 h2; subst h1
          rw [hq] at hp; exact absurd hp (by simp)
      · exact absurd hsp (by simp)

/-- `compute_qname`: bindings only grow; the strict cache is untouched; the cache changes at `u` only and
    memoises a successful answer -/
theorem computeQname_x {st : Store} (hne : NoEmpty st) {m : Mgr} (hf : FInv m.trie) (u : Str) (g : Bool) :
    Keep st (Mgr.computeQname st m u g).1 ∧ NoEmpty (Mgr.computeQname st m u g).1 ∧
      (Mgr.computeQname st m u g).2.1.scache = m.scache ∧
      (∀ u', u' ≠ u → alookup (Mgr.computeQname st m u g).2.1.cache u' = alookup m.cache u') ∧
      (∀ q, (Mgr.computeQname st m u g).2.2 = .ok q → alookup (Mgr.computeQname st m u g).2.1.cache u = some q) := by
  unfold Mgr.computeQname
  simp only
  have hve := validEntry_frame st m.cache u
  split
  · next r hr =>
    refine ⟨Keep.refl _, hne, rfl, hve, ?_⟩
    intro q e; simp only at e; injection e with e; subst e; exact hr
  · split
    · exact ⟨Keep.refl _, hne, rfl, hve, by intro q e; exact absurd e (by simp)⟩
    · split
      · exact ⟨Keep.refl _, hne, rfl, hve, by intro q e; exact absurd e (by simp)⟩
      · next n0 name0 hsp =>
        generalize hm1 : Mgr.ensureStrie { cache := validEntry st m.cache u, scache := m.scache, trie := m.trie, strie := m.strie } n0 = m1
        have hm1c : m1.cache = validEntry st m.cache u ∧ m1.scache = m.scache := by
          rw [← hm1]; exact ensureStrie_cache _ _
        have hm1f : FInv m1.trie := by
          rw [← hm1]
          exact ensureStrie_finv (m := { cache := validEntry st m.cache u, scache := m.scache, trie := m.trie, strie := m.strie }) hf n0
        have hgen := refineLongest_ne (st := st) hm1f hsp
        generalize refineLongest m1.trie n0 name0 u = nn at hgen
        have hx := lookupOrGenerate_x hne m1 nn.1 nn.2 g hgen
        have hcc := lookupOrGenerate_cache st m1 nn.1 nn.2 g
        split
        · next q hq =>
          refine ⟨hx.1, hx.2, ?_, ?_, ?_⟩
          · simp only; rw [hcc.2, hm1c.2]
          · intro u' hu; simp only; rw [alookup_aset, if_neg hu, hcc.1, hm1c.1]; exact hve u' hu
          · intro q' e; simp only at e; injection e with e; subst e
            simp only; rw [alookup_aset, if_pos rfl]
        · refine ⟨hx.1, hx.2, ?_, ?_, by intro q e; exact absurd e (by simp)⟩
          · simp only; rw [hcc.2, hm1c.2]
          · intro u' hu; simp only; rw [hcc.1, hm1c.1]; exact hve u' hu

/-- the second half of `compute_qname_strict`, likewise (it writes the strict cache only) -/
theorem strictTail_x {st : Store} (hne : NoEmpty st) (m : Mgr) (u : Str) (g : Bool) :
    Keep st (Mgr.strictTail st m u g).1 ∧ NoEmpty (Mgr.strictTail st m u g).1 ∧
      (Mgr.strictTail st m u g).2.1.cache = m.cache ∧
      (∀ u', u' ≠ u → alookup (Mgr.strictTail st m u g).2.1.scache u' = alookup m.scache u') ∧
      (∀ q, (Mgr.strictTail st m u g).2.2 = .ok q → alookup (Mgr.strictTail st m u g).2.1.scache u = some q) := by
  unfold Mgr.strictTail
  simp only
  have hve := validEntry_frame st m.scache u
  split
  · next r hr =>
    refine ⟨Keep.refl _, hne, rfl, hve, ?_⟩
    intro q e; simp only at e; injection e with e; subst e; exact hr
  · split
    · exact ⟨Keep.refl _, hne, rfl, hve, by intro q e; exact absurd e (by simp)⟩
    · next n0 name0 hsp =>
      generalize hm1 : Mgr.ensureStrie { cache := m.cache, scache := validEntry st m.scache u, trie := m.trie, strie := m.strie } n0 = m1
      have hm1c : m1.cache = m.cache ∧ m1.scache = validEntry st m.scache u := by
        rw [← hm1]; exact ensureStrie_cache _ _
      have hgen : st.prefix n0 = none → n0 ≠ [] := by
        intro _
        rcases splitUri_shape hsp with h | h
        · rw [h.2]; exact xmlns_ne
        · exact h.1
      have hx := lookupOrGenerate_x hne m1 n0 name0 g hgen
      have hcc := lookupOrGenerate_cache st m1 n0 name0 g
      split
      · next q hq =>
        refine ⟨hx.1, hx.2, ?_, ?_, ?_⟩
        · simp only; rw [hcc.1, hm1c.1]
        · intro u' hu; simp only; rw [alookup_aset, if_neg hu, hcc.2, hm1c.2]; exact hve u' hu
        · intro q' e; simp only at e; injection e with e; subst e
          simp only; rw [alookup_aset, if_pos rfl]
      · refine ⟨hx.1, hx.2, ?_, ?_, by intro q e; exact absurd e (by simp)⟩
        · simp only; rw [hcc.1, hm1c.1]
        · intro u' hu; simp only; rw [hcc.2, hm1c.2]; exact hve u' hu

/-! ### memoised answers -/

/-- `u` is memoised with answer `q` and every binding the answer rests on is there: either the cache has
    `q` and its local name is an NCName, or the cache has an answer `q0` whose local name is not an NCName
    and the strict cache has `q` -/
def Memo (st : Store) (m : Mgr) (u : Str) (q : QN) : Prop :=
  (alookup m.cache u = some q ∧ isNcname q.2.2 = true ∧ st.prefix q.2.1 = some q.1) ∨
  (∃ q0 : QN, alookup m.cache u = some q0 ∧ isNcname q0.2.2 = false ∧ st.prefix q0.2.1 = some q0.1 ∧
    alookup m.scache u = some q ∧ st.prefix q.2.1 = some q.1)

theorem Memo.valid {st : Store} {m : Mgr} {u : Str} {q : QN} (h : Memo st m u q) : st.prefix q.2.1 = some q.1 := by
  rcases h with h | ⟨_, h⟩
  · exact h.2.2
  · exact h.2.2.2.2

theorem Memo.spelled {st : Store} {m : Mgr} {u : Str} {q : QN} (h : Memo st m u q)
    (hc : CacheOK m.cache) (hs : CacheOK m.scache) : q.2.1 ++ q.2.2 = u := by
  obtain ⟨p, n, l⟩ := q
  rcases h with h | ⟨_, h⟩
  · exact hc _ _ _ _ h.1
  · exact hs _ _ _ _ h.2.2.2.1

theorem Memo.mono {st st' : Store} {m m' : Mgr} {u : Str} {q : QN} (h : Memo st m u q) (hk : Keep st st')
    (hc : alookup m'.cache u = alookup m.cache u) (hs : alookup m'.scache u = alookup m.scache u) :
    Memo st' m' u q := by
  rcases h with ⟨a, b, c⟩ | ⟨q0, a, b, c, d, e⟩
  · exact Or.inl ⟨hc ▸ a, b, hk _ _ c⟩
  · exact Or.inr ⟨q0, hc ▸ a, b, hk _ _ c, hs ▸ d, hk _ _ e⟩

theorem computeQname_hit {st : Store} {m : Mgr} {u : Str} {q : QN} (g : Bool)
    (h : alookup m.cache u = some q) (hv : st.prefix q.2.1 = some q.1) :
    Mgr.computeQname st m u g = (st, m, .ok q) := by
  obtain ⟨p, n, l⟩ := q
  obtain ⟨c, sc, t, sr⟩ := m
  simp only at h hv
  unfold Mgr.computeQname
  simp only [validEntry_valid h hv, h]

theorem strictTail_hit {st : Store} {m : Mgr} {u : Str} {q : QN} (g : Bool)
    (h : alookup m.scache u = some q) (hv : st.prefix q.2.1 = some q.1) :
    Mgr.strictTail st m u g = (st, m, .ok q) := by
  obtain ⟨p, n, l⟩ := q
  obtain ⟨c, sc, t, sr⟩ := m
  simp only at h hv
  unfold Mgr.strictTail
  simp only [validEntry_valid h hv, h]

/-- a repeated `compute_qname_strict` on a memoised IRI changes nothing and answers the same -/
theorem computeQnameStrict_noop {st : Store} {m : Mgr} {u : Str} {q : QN} (g : Bool) (h : Memo st m u q) :
    Mgr.computeQnameStrict st m u g = (st, m, .ok q) := by
  rcases h with ⟨a, b, c⟩ | ⟨q0, a, b, c, d, e⟩
  · obtain ⟨p, n, l⟩ := q
    unfold Mgr.computeQnameStrict
    rw [computeQname_hit g a c]
    simp only at b
    simp only [b, if_true]
  · obtain ⟨p0, n0, l0⟩ := q0
    unfold Mgr.computeQnameStrict
    rw [computeQname_hit g a c]
    simp only at b
    simp only [b, Bool.false_eq_true, if_false]
    exact strictTail_hit g d e

/-- `compute_qname_strict(u, generate=True)`: bindings only grow, no empty namespace gets bound, both caches
    change at `u` only, and a successful answer is memoised -/
theorem computeQnameStrict_x {st : Store} (hne : NoEmpty st) {m : Mgr} (hf : FInv m.trie)
    (hc : CacheOK m.cache) (hs : CacheOK m.scache) (u : Str) :
    Keep st (Mgr.computeQnameStrict st m u true).1 ∧ NoEmpty (Mgr.computeQnameStrict st m u true).1 ∧
      (∀ u', u' ≠ u →
        alookup (Mgr.computeQnameStrict st m u true).2.1.cache u' = alookup m.cache u' ∧
        alookup (Mgr.computeQnameStrict st m u true).2.1.scache u' = alookup m.scache u') ∧
      (∀ q, (Mgr.computeQnameStrict st m u true).2.2 = .ok q →
        Memo (Mgr.computeQnameStrict st m u true).1 (Mgr.computeQnameStrict st m u true).2.1 u q) := by
  have h0 := computeQname_x hne hf u true
  have hq0 := computeQname_all (st := st) u true hc hs
  unfold Mgr.computeQnameStrict
  simp only
  split
  · exact ⟨h0.1, h0.2.1, fun u' hu => ⟨h0.2.2.2.1 u' hu, by rw [h0.2.2.1]⟩,
      by intro q e'; exact absurd e' (by simp)⟩
  · next p n name hq =>
    split
    · next hnc =>
      refine ⟨h0.1, h0.2.1, fun u' hu => ⟨h0.2.2.2.1 u' hu, by rw [h0.2.2.1]⟩, ?_⟩
      intro q e; simp only at e; injection e with e; subst e
      exact Or.inl ⟨h0.2.2.2.2 _ hq, hnc, (hq0.ok p n name hq).1⟩
    · next hnc =>
      have h1 := strictTail_x h0.2.1 (Mgr.computeQname st m u true).2.1 u true
      have hq1 := strictTail_all (st := (Mgr.computeQname st m u true).1) u true hq0.cache hq0.scache
      refine ⟨h0.1.trans h1.1, h1.2.1, ?_, ?_⟩
      · intro u' hu
        exact ⟨by rw [h1.2.2.1]; exact h0.2.2.2.1 u' hu, by rw [h1.2.2.2.1 u' hu, h0.2.2.1]⟩
      · intro q e
        obtain ⟨qp, qn, ql⟩ := q
        exact Or.inr ⟨(p, n, name), by rw [h1.2.2.1]; exact h0.2.2.2.2 _ hq, by simpa using hnc,
          h1.1 _ _ (hq0.ok p n name hq).1, h1.2.2.2.2 _ e, (hq1.ok qp qn ql e).1⟩

/-! ### the two passes -/

structure XInv (st : Store) (m : Mgr) (acc : List (Str × QN)) : Prop where
  inv : st.Inv
  ne : NoEmpty st
  fi : FInv m.trie
  c : CacheOK m.cache
  s : CacheOK m.scache
  memo : ∀ u q, (u, q) ∈ acc → Memo st m u q

/-- first pass (`__bindings`): every answer stays memoised and valid to the end of the pass -/
theorem strictSeq_x : ∀ (us : List Str) (st : Store) (m : Mgr) (acc : List (Str × QN)), XInv st m acc →
    ∀ res, (strictSeq us st m acc).2.2 = .ok res →
      XInv (strictSeq us st m acc).1 (strictSeq us st m acc).2.1 res ∧
        (∀ u, u ∈ us → ∃ q, (u, q) ∈ res) ∧ (∀ x, x ∈ acc → x ∈ res)
  | [], st, m, acc, h, res, e => by
    simp only [strictSeq] at e ⊢
    injection e with e; subst e
    exact ⟨h, by intro u hu; exact absurd hu (by simp), fun x hx => hx⟩
  | u :: r, st, m, acc, h, res, e => by
    have hx := computeQnameStrict_x h.ne h.fi h.c h.s u
    have hall := computeQnameStrict_all (st := st) u true h.c h.s
    have hfin := computeQnameStrict_finv h.fi st u true
    simp only [strictSeq] at e ⊢
    split at e
    · exact absurd e (by simp)
    · next a ha =>
      have hnew : XInv (Mgr.computeQnameStrict st m u true).1 (Mgr.computeQnameStrict st m u true).2.1
          (acc ++ [(u, a)]) := by
        refine ⟨hall.reach.inv h.inv, hx.2.1, hfin, hall.cache, hall.scache, ?_⟩
        intro u' q' hm
        rcases List.mem_append.1 hm with hm | hm
        · have hm0 := h.memo u' q' hm
          by_cases hu : u' = u
          · subst hu
            rw [computeQnameStrict_noop true hm0]
            exact hm0
          · exact hm0.mono hx.1 (hx.2.2.1 u' hu).1 (hx.2.2.1 u' hu).2
        · simp only [List.mem_singleton] at hm
          injection hm with h1 h2; subst h1 h2
          exact hx.2.2.2 _ ha
      obtain ⟨i1, i2, i3⟩ := strictSeq_x r _ _ _ hnew res e
      refine ⟨i1, ?_, fun x hx' => i3 x (List.mem_append.2 (Or.inl hx'))⟩
      intro u' hu'
      rcases List.mem_cons.1 hu' with e' | e'
      · subst e'; exact ⟨a, i3 _ (List.mem_append.2 (Or.inr (by simp)))⟩
      · exact i2 u' e'

/-- second pass (`qname_strict` per statement) over memoised IRIs: the answers of the first pass again -/
theorem strictSeq_replay {st : Store} {m : Mgr} (ans : List (Str × QN)) :
    ∀ (us : List Str) (acc : List (Str × QN)), (∀ u, u ∈ us → ∃ q, (u, q) ∈ ans ∧ Memo st m u q) →
      ∀ res, (strictSeq us st m acc).2.2 = .ok res → ∀ x, x ∈ res → x ∈ acc ∨ x ∈ ans
  | [], acc, _, res, e, x, hx => by
    simp only [strictSeq] at e
    injection e with e; subst e; exact Or.inl hx
  | u :: r, acc, h, res, e, x, hx => by
    obtain ⟨q, hq, hm⟩ := h u (by simp)
    simp only [strictSeq, computeQnameStrict_noop true hm] at e
    rcases strictSeq_replay ans r (acc ++ [(u, q)]) (fun u' hu' => h u' (List.mem_cons.2 (Or.inr hu'))) res e x hx with h1 | h1
    · rcases List.mem_append.1 h1 with h2 | h2
      · exact Or.inl h2
      · simp only [List.mem_singleton] at h2; subst h2; exact Or.inr hq
    · exact Or.inr h1

/-- the `xmlns` dict built from valid answers: every entry is a current binding, every answer's prefix is a key -/
theorem xmlTable_spec {st : Store} : ∀ (ans : List (Str × QN)) (t0 : List (Str × Str)),
    (∀ p n, alookup t0 p = some n → st.prefix n = some p) →
    (∀ x, x ∈ ans → st.prefix x.2.2.1 = some x.2.1) →
    (∀ p n, alookup (ans.foldl (fun t a => aset t a.2.1 a.2.2.1) t0) p = some n → st.prefix n = some p) ∧
      (∀ x, x ∈ ans → (alookup (ans.foldl (fun t a => aset t a.2.1 a.2.2.1) t0) x.2.1).isSome) ∧
      (∀ p, (alookup t0 p).isSome → (alookup (ans.foldl (fun t a => aset t a.2.1 a.2.2.1) t0) p).isSome)
  | [], t0, h0, _ => ⟨h0, by intro x hx; exact absurd hx (by simp), fun _ h => h⟩
  | a :: r, t0, h0, hv => by
    have h1 : ∀ p n, alookup (aset t0 a.2.1 a.2.2.1) p = some n → st.prefix n = some p := by
      intro p n e
      rw [alookup_aset] at e
      split at e
      · next hp => injection e with e; subst hp e; exact hv a (by simp)
      · exact h0 p n e
    obtain ⟨i1, i2, i3⟩ := xmlTable_spec r (aset t0 a.2.1 a.2.2.1) h1 (fun x hx => hv x (List.mem_cons.2 (Or.inr hx)))
    simp only [List.foldl_cons]
    refine ⟨i1, ?_, ?_⟩
    · intro x hx
      rcases List.mem_cons.1 hx with e | e
      · subst e; exact i3 _ (by rw [alookup_aset, if_pos rfl]; rfl)
      · exact i2 x e
    · intro p hp
      apply i3
      rw [alookup_aset]
      split
      · rfl
      · exact hp

/-- the RDF/XML document: every element name expands through the `xmlns` table -/
theorem serXml_names {st : Store} {m : Mgr} (hi : st.Inv) (hne : NoEmpty st) (hf : FInv m.trie)
    (hc : CacheOK m.cache) (hs : CacheOK m.scache) (preds stmts : List Str)
    (hsub : ∀ u, u ∈ stmts → u ∈ preds) (t : List (Str × Str)) (names : List (Str × QN))
    (h : (serXml preds stmts st m).2.2 = .ok (t, names)) :
    ∀ u p n l, (u, p, n, l) ∈ names → alookup t p = some n ∧ n ++ l = u := by
  unfold serXml at h
  simp only at h
  split at h
  · exact absurd h (by simp)
  · next ans hans =>
    obtain ⟨x1, x2, _⟩ := strictSeq_x preds st m [] ⟨hi, hne, hf, hc, hs, by intro u q hm; exact absurd hm (by simp)⟩ ans hans
    have hvalid : ∀ x, x ∈ ans → (strictSeq preds st m []).1.prefix x.2.2.1 = some x.2.1 :=
      fun x hx => (x1.memo x.1 x.2 hx).valid
    obtain ⟨t1, t2, _⟩ := xmlTable_spec (st := (strictSeq preds st m []).1) ans [] (by intro p n e; simp [alookup] at e) hvalid
    have htab : ∀ x, x ∈ ans → alookup (xmlTable ans) x.2.1 = some x.2.2.1 := by
      intro x hx
      have hk := t2 x hx
      cases hq : alookup (xmlTable ans) x.2.1 with
      | none => unfold xmlTable at hq; rw [hq] at hk; exact absurd hk (by simp)
      | some n' =>
        have e1 := t1 x.2.1 n' (by unfold xmlTable at hq; exact hq)
        have e2 := hvalid x hx
        have a1 := (x1.inv.inverse x.2.1 n').2 e1
        have a2 := (x1.inv.inverse x.2.1 x.2.2.1).2 e2
        rw [a1] at a2; injection a2 with a2; rw [a2]
    split at h
    · exact absurd h (by simp)
    · next t' ht' =>
      split at h
      · exact absurd h (by simp)
      · next names' hnames =>
        injection h with h; injection h with h1 h2; subst h1 h2
        intro u p n l hm
        have hrep := strictSeq_replay (st := (strictSeq preds st m []).1) (m := (strictSeq preds st m []).2.1) ans stmts []
          (fun u' hu' => by
            obtain ⟨q, hq⟩ := x2 u' (hsub u' hu')
            exact ⟨q, hq, x1.memo u' q hq⟩) names' hnames (u, p, n, l) hm
        rcases hrep with hrep | hrep
        · exact absurd hrep (by simp)
        · have hsp := (x1.memo u (p, n, l) hrep).spelled x1.c x1.s
          refine ⟨?_, hsp⟩
          have hx := htab (u, p, n, l) hrep
          simp only at hx
          split at ht'
          · split at ht'
            · injection ht' with ht'; subst ht'; exact hx
            · exact absurd ht' (by simp)
          · next hr =>
            injection ht' with ht'; subst ht'
            rw [alookup_aset]
            split
            · next hp => subst hp; rw [hr] at hx; exact absurd hx (by simp)
            · exact hx

/-- the decidable form of `NoEmpty`: no entry of `__namespace` has the empty IRI as value -/
def emptyNsUnbound (st : Store) : Bool := st.ns.all (fun pn => !pn.2.isEmpty)

theorem alookup_mem {β : Type} : ∀ (l : List (Str × β)) (k : Str) (v : β), alookup l k = some v → (k, v) ∈ l
  | [], _, _, h => by simp [alookup] at h
  | (a, w) :: r, k, v, h => by
    simp only [alookup] at h
    split at h
    · next e => injection h with h; subst e h; simp
    · exact List.mem_cons.2 (Or.inr (alookup_mem r k v h))

theorem noEmpty_of_check {st : Store} (h : emptyNsUnbound st = true) : NoEmpty st := by
  intro p e
  have hm := alookup_mem st.ns p [] e
  have := List.all_eq_true.1 h _ hm
  simp at this

end RV.C17
