import RV.C17.Model
/-
  C17 helper lemmas, part 10: exactly when `split_uri` succeeds, and with what.
-/
namespace RV.C17
open RV.C17.Tables

/-- `category(c) in split_start or c == "_"` -/
def startChar (starts : List Nat) (c : Nat) : Bool := inCats starts c || c == 95

/-- the split-start categories are name categories (true of both lists the code uses, by the tables) -/
def StartsOK (starts : List Nat) : Prop := ∀ c, startChar starts c = true → isNameChar c = true

theorem startsOK_of_subset {starts : List Nat} (h : ∀ x, x ∈ starts → x ∈ nameCats) : StartsOK starts := by
  intro c hc
  unfold startChar at hc
  unfold isNameChar
  simp only [Bool.or_eq_true] at hc ⊢
  rcases hc with h1 | h1
  · left
    unfold inCats at h1 ⊢
    exact List.contains_iff_mem.2 (h _ (List.contains_iff_mem.1 h1))
  · right
    have : c = 95 := by simpa using h1
    subst this
    decide

theorem startsOK_split : StartsOK splitStartCats := startsOK_of_subset (by decide)
theorem startsOK_strict : StartsOK nameStartCats := startsOK_of_subset (by decide)

theorem isStartAt_eq (starts : List Nat) (uri : Str) (j : Nat) :
    isStartAt starts uri j = (match uri[j]? with | some c => startChar starts c | none => false) := rfl

/-! ### the outer loop: the right-most character that is not a name character -/

theorem lastBreak_none {l : Str} (h : ∀ x, x ∈ l → isNameChar x = true) : lastBreak l = none := by
  induction l with
  | nil => rfl
  | cons c r ih =>
    simp only [lastBreak, ih (fun x hx => h x (List.mem_cons_of_mem _ hx)), h c List.mem_cons_self, if_true]

theorem lastBreak_cons_break {b : Nat} {t : Str} (hb : isNameChar b = false)
    (ht : ∀ x, x ∈ t → isNameChar x = true) : lastBreak (b :: t) = some 0 := by
  simp [lastBreak, lastBreak_none ht, hb]

theorem lastBreak_append (a : Str) {x : Str} {j : Nat} (h : lastBreak x = some j) :
    lastBreak (a ++ x) = some (a.length + j) := by
  induction a with
  | nil => simpa using h
  | cons c r ih => simp only [List.cons_append, lastBreak, ih, List.length_cons]; congr 1; omega

/-- every string is made of name characters only, or has a last non-name character -/
theorem break_cases (uri : Str) :
    (∀ x, x ∈ uri → isNameChar x = true) ∨
      ∃ a b t, uri = a ++ b :: t ∧ isNameChar b = false ∧ ∀ x, x ∈ t → isNameChar x = true := by
  induction uri with
  | nil => left; simp
  | cons c r ih =>
    rcases ih with h | ⟨a, b, t, e, hb, ht⟩
    · by_cases hc : isNameChar c = true
      · left; intro x hx
        rcases List.mem_cons.1 hx with e | e
        · subst e; exact hc
        · exact h x e
      · right; exact ⟨[], c, r, rfl, by simpa using hc, h⟩
    · right; exact ⟨c :: a, b, t, by simp [e], hb, ht⟩

/-- a run of name characters has a first start character, or none -/
theorem start_cases (starts : List Nat) (t : Str) :
    (∀ x, x ∈ t → startChar starts x = false) ∨
      ∃ pre c r, t = pre ++ c :: r ∧ (∀ x, x ∈ pre → startChar starts x = false) ∧ startChar starts c = true := by
  induction t with
  | nil => left; simp
  | cons c r ih =>
    by_cases hc : startChar starts c = true
    · right; exact ⟨[], c, r, rfl, by simp, hc⟩
    · rcases ih with h | ⟨pre, c', r', e, hp, hc'⟩
      · left; intro x hx
        rcases List.mem_cons.1 hx with e | e
        · subst e; simpa using hc
        · exact h x e
      · right
        refine ⟨c :: pre, c', r', by simp [e], ?_, hc'⟩
        intro x hx
        rcases List.mem_cons.1 hx with e | e
        · subst e; simpa using hc
        · exact hp x e

/-! ### the inner loop -/

theorem firstStart_skip (starts : List Nat) (uri : Str) : ∀ (l1 l2 : List Nat),
    (∀ i, i ∈ l1 → isStartAt starts uri i = false) →
    firstStart starts uri (l1 ++ l2) = firstStart starts uri l2 := by
  intro l1
  induction l1 with
  | nil => intro l2 _; rfl
  | cons j r ih =>
    intro l2 h
    simp only [List.cons_append, firstStart, h j List.mem_cons_self, Bool.false_eq_true, if_false]
    exact ih l2 (fun i hi => h i (List.mem_cons_of_mem _ hi))

theorem firstStart_hit (starts : List Nat) (uri : Str) (l1 : List Nat) (j : Nat) (l2 : List Nat)
    (h : ∀ i, i ∈ l1 → isStartAt starts uri i = false) (hj : isStartAt starts uri j = true) :
    firstStart starts uri (l1 ++ j :: l2) = some j := by
  rw [firstStart_skip starts uri l1 _ h]
  simp [firstStart, hj]

/-- positions of `a ++ b :: t` from `|a|` on: `b`, then `t` -/
theorem getElem?_decomp (a : Str) (b : Nat) (t : Str) (i : Nat) :
    (a ++ b :: t)[a.length + i]? = (b :: t)[i]? := by
  rw [List.getElem?_append_right (by omega)]
  congr 1; omega

theorem isStartAt_tail (starts : List Nat) (a : Str) (b : Nat) (t : Str) (i : Nat) :
    isStartAt starts (a ++ b :: t) (a.length + 1 + i) = (match t[i]? with | some c => startChar starts c | none => false) := by
  rw [isStartAt_eq, show a.length + 1 + i = a.length + (i + 1) by omega, getElem?_decomp]
  simp

theorem isStartAt_break {starts : List Nat} (hs : StartsOK starts) (a : Str) {b : Nat} (t : Str)
    (hb : isNameChar b = false) : isStartAt starts (a ++ b :: t) a.length = false := by
  have := getElem?_decomp a b t 0
  rw [isStartAt_eq, show a.length = a.length + 0 by omega, this]
  simp only [List.getElem?_cons_zero]
  cases h : startChar starts b with
  | false => rfl
  | true => rw [hs b h] at hb; exact absurd hb (by simp)

/-- the tail positions `|a| … |uri|-1` as the code walks them -/
theorem tail_range (a : Str) (b : Nat) (t : Str) :
    List.range' a.length ((a ++ b :: t).length - a.length) =
      a.length :: (List.range t.length).map (fun i => a.length + 1 + i) := by
  have : (a ++ b :: t).length - a.length = t.length + 1 := by simp
  rw [this, List.range'_succ]
  congr 1
  rw [List.range_eq_range', List.map_add_range']

/-- regular success: last non-name character `b`, then name characters `pre` none of which may
    start a name, then a start character `c`, then name characters to the end -/
theorem splitUri_regular {starts : List Nat} (hs : StartsOK starts) {a : Str} {b : Nat} {pre : Str} {c : Nat} {r : Str}
    (hx : xmlns.isPrefixOf (a ++ b :: (pre ++ c :: r)) = false)
    (hb : isNameChar b = false)
    (hpre : ∀ x, x ∈ pre → isNameChar x = true ∧ startChar starts x = false)
    (hc : startChar starts c = true) (hr : ∀ x, x ∈ r → isNameChar x = true) :
    splitUri starts (a ++ b :: (pre ++ c :: r)) = some (a ++ b :: pre, c :: r) := by
  have hname : ∀ x, x ∈ pre ++ c :: r → isNameChar x = true := by
    intro x hx
    rcases List.mem_append.1 hx with e | e
    · exact (hpre x e).1
    · rcases List.mem_cons.1 e with e | e
      · subst e; exact hs _ hc
      · exact hr x e
  unfold splitUri
  rw [hx]
  simp only [Bool.false_eq_true, if_false]
  rw [lastBreak_append a (lastBreak_cons_break hb hname)]
  simp only [Nat.add_zero]
  rw [tail_range]
  -- split the walked positions at the position of `c`
  have hsplit : ∃ l2, (List.range (pre ++ c :: r).length).map (fun i => a.length + 1 + i) =
      (List.range pre.length).map (fun i => a.length + 1 + i) ++ (a.length + 1 + pre.length) :: l2 := by
    have : (pre ++ c :: r).length = pre.length + (r.length + 1) := by simp
    rw [this, List.range_add, List.map_append, List.range_succ_eq_map]
    simp only [List.map_cons, List.map_map, Nat.add_zero]
    exact ⟨_, rfl⟩
  obtain ⟨l2, hsplit⟩ := hsplit
  rw [hsplit]
  have hfind := firstStart_hit starts (a ++ b :: (pre ++ c :: r))
    (a.length :: (List.range pre.length).map (fun i => a.length + 1 + i)) (a.length + 1 + pre.length)
    (l2 ++ List.range (a ++ b :: (pre ++ c :: r)).length)
    (by
      intro i hi
      rcases List.mem_cons.1 hi with e | e
      · subst e; exact isStartAt_break hs a _ hb
      · obtain ⟨k, hk, rfl⟩ := List.mem_map.1 e
        rw [List.mem_range] at hk
        rw [isStartAt_tail, List.getElem?_append_left hk, List.getElem?_eq_getElem hk]
        exact (hpre _ (List.getElem_mem hk)).2)
    (by
      rw [isStartAt_tail, List.getElem?_append_right (Nat.le_refl _)]
      simpa using hc)
  simp only [List.cons_append, List.append_assoc] at hfind ⊢
  rw [hfind]
  have hj : a.length + 1 + pre.length ≠ 0 := by omega
  simp only [hj, if_false]
  have hl : (a ++ b :: pre).length = a.length + 1 + pre.length := by simp; omega
  have e : a ++ b :: (pre ++ c :: r) = (a ++ b :: pre) ++ c :: r := by simp
  rw [e, List.take_left' hl, List.drop_left' hl]

/-- no break character at all: ValueError -/
theorem splitUri_all_name {starts : List Nat} {uri : Str} (hx : xmlns.isPrefixOf uri = false)
    (h : ∀ x, x ∈ uri → isNameChar x = true) : splitUri starts uri = none := by
  unfold splitUri
  rw [hx, lastBreak_none h]; rfl

/-- no start character after the last break: the code's `range(-1 - i, length)` wraps round and
    walks the IRI from its first character -/
theorem splitUri_wrap {starts : List Nat} (hs : StartsOK starts) {a : Str} {b : Nat} {t : Str}
    (hx : xmlns.isPrefixOf (a ++ b :: t) = false) (hb : isNameChar b = false)
    (ht : ∀ x, x ∈ t → isNameChar x = true ∧ startChar starts x = false) :
    splitUri starts (a ++ b :: t) =
      (match firstStart starts (a ++ b :: t) (List.range (a ++ b :: t).length) with
       | none => none
       | some j => if j = 0 then none else some ((a ++ b :: t).take j, (a ++ b :: t).drop j)) := by
  unfold splitUri
  rw [hx]
  simp only [Bool.false_eq_true, if_false]
  rw [lastBreak_append a (lastBreak_cons_break hb (fun x hx => (ht x hx).1))]
  simp only [Nat.add_zero]
  have H : ∀ i, i ∈ a.length :: (List.range t.length).map (fun i => a.length + 1 + i) →
      isStartAt starts (a ++ b :: t) i = false := by
    intro i hi
    rcases List.mem_cons.1 hi with e | e
    · subst e; exact isStartAt_break hs a _ hb
    · obtain ⟨k, hk, rfl⟩ := List.mem_map.1 e
      rw [List.mem_range] at hk
      rw [isStartAt_tail, List.getElem?_eq_getElem hk]
      exact (ht _ (List.getElem_mem hk)).2
  rw [tail_range, firstStart_skip _ _ _ _ H]
  rfl

theorem restNc_of_all {r : Str} (h : ∀ x, x ∈ r → isNameChar x = true) : restNc r = true := by
  induction r with
  | nil => rfl
  | cons c t ih =>
    simp only [restNc, h c List.mem_cons_self, ih (fun x hx => h x (List.mem_cons_of_mem _ hx)), Bool.and_self]

/-- the three shapes of an IRI (outside the XML namespace) and what `split_uri` answers on each -/
def SplitCases (starts : List Nat) (uri : Str) : Prop :=
  -- (1) only name characters: ValueError
  ((∀ x, x ∈ uri → isNameChar x = true) ∧ splitUri starts uri = none) ∨
  -- (2) last non-name character `b`, name characters `pre` that cannot start a name, a start
  --     character `c`, name characters `r` to the end: split right before `c`
  (∃ a b pre c r, uri = a ++ b :: (pre ++ c :: r) ∧ isNameChar b = false ∧
      (∀ x, x ∈ pre → isNameChar x = true ∧ startChar starts x = false) ∧ startChar starts c = true ∧
      (∀ x, x ∈ r → isNameChar x = true) ∧ restNc r = true ∧
      splitUri starts uri = some (a ++ b :: pre, c :: r)) ∨
  -- (3) no start character after the last non-name character: the inner loop wraps round and takes
  --     the first start character of the whole IRI, unless that is its first character
  (∃ a b t, uri = a ++ b :: t ∧ isNameChar b = false ∧
      (∀ x, x ∈ t → isNameChar x = true ∧ startChar starts x = false) ∧
      splitUri starts uri =
        (match firstStart starts uri (List.range uri.length) with
         | none => none
         | some j => if j = 0 then none else some (uri.take j, uri.drop j)))

theorem splitUri_complete {starts : List Nat} (hs : StartsOK starts) (uri : Str)
    (hx : xmlns.isPrefixOf uri = false) : SplitCases starts uri := by
  rcases break_cases uri with h | ⟨a, b, t, e, hb, ht⟩
  · exact Or.inl ⟨h, splitUri_all_name hx h⟩
  · subst e
    rcases start_cases starts t with h | ⟨pre, c, r, e, hp, hc⟩
    · exact Or.inr (Or.inr ⟨a, b, t, rfl, hb, fun x hx' => ⟨ht x hx', h x hx'⟩,
        splitUri_wrap hs hx hb (fun x hx' => ⟨ht x hx', h x hx'⟩)⟩)
    · subst e
      have hpre : ∀ x, x ∈ pre → isNameChar x = true ∧ startChar starts x = false :=
        fun x hx' => ⟨ht x (List.mem_append_left _ hx'), hp x hx'⟩
      have hr : ∀ x, x ∈ r → isNameChar x = true :=
        fun x hx' => ht x (List.mem_append_right _ (List.mem_cons_of_mem _ hx'))
      exact Or.inr (Or.inl ⟨a, b, pre, c, r, rfl, hb, hpre, hc, hr, restNc_of_all hr,
        splitUri_regular hs hx hb hpre hc hr⟩)

/-- with the strict start categories (`compute_qname_strict`) the local part of shape (2) is an NCName -/
theorem isNcname_of_strict {c : Nat} {r : Str} (hc : startChar nameStartCats c = true) (hr : restNc r = true) :
    isNcname (c :: r) = true := by
  unfold startChar at hc
  simp only [isNcname, hr, Bool.and_true]
  rw [Bool.or_comm]; exact hc

end RV.C17
