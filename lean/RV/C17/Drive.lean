import RV.C17.Model
import RV.Base.Proto
/-
  C17 driver.  Strings cross the protocol as `.`-separated code points (`-` = empty string,
  `N` = None); booleans as 0/1; manager index 0/1.

    new                                  -> ok      fresh store, no manager initialised
    vocab P… | N…                        -> ok      keys whose lookups are listed after every op
    minit m none|core|rdflib             -> <out>|<listing>
    bind m P N ov rp                     -> …
    sbind P N ov
    cq m U g | cqs m U g | qname m U | qstrict m U | curie m U g | n3 m U | expand S | reset m
    parse m P N P N …  | parsexml m P N P N … | ser m S P O
    split strict U                       -> split <ns>l | err ValueError   (split_uri, stateless)
    ncname S                             -> nc 0|1                          (is_ncname, stateless)
    catrange lo hi                       -> cats <name>*<count> …           (unicodedata.category over lo ≤ c < hi, run-length encoded)
    serdoc m fb U g U g …                   -> doc <d>n …> (document prefix table), then reset m
    sertrig fb m U g U g … / m U g …        -> doc <d>n …> (TriG: contexts separated by `/`, each with its manager), then reset both
    serxml m P … / P …                      -> doc <p>n …> (RDF/XML: the set of predicates / the predicate of every statement written)
    minit m cc | minit m <anything else>    -> err Other | err ValueError (no manager is created)

  Output of every operation:  `<out>|L <p>n sorted>|P <p>n lookups>|N <n>p lookups>`
  with strings printed raw, None as `~`.
-/
open RV RV.C17 RV.Proto

structure D where
  st : St
  vp : List Str
  vn : List Str

def str? (w : String) : Option Str :=
  if w = "-" then some []
  else (w.splitOn ".").mapM (fun d => d.toNat?)

def ostr? (w : String) : Option (Option Str) :=
  if w = "N" then some none else (str? w).map some

def bool? (w : String) : Option Bool :=
  if w = "0" then some false else if w = "1" then some true else none

def bset? (w : String) : Option BindSet :=
  if w = "none" then some .none else if w = "core" then some .core
  else if w = "rdflib" then some .rdflib else if w = "cc" then some .cc else some .unknown

def raw (s : Str) : String := String.mk (s.map Char.ofNat)
def rawO : Option Str → String
  | some s => raw s
  | none => "~"

def showErr : Err → String
  | .KeyError => "KeyError"
  | .ValueError => "ValueError"
  | .Other => "Other"
  | .Loop => "Loop"

def showOut : Out → String
  | .unit => "ok"
  | .qn p n l => "qn " ++ raw p ++ ">" ++ raw n ++ ">" ++ raw l
  | .str s => "s " ++ raw s
  | .err e => "err " ++ showErr e
  | .doc t => "doc " ++ " ".intercalate (sortStrs (t.map (fun pn => raw pn.1 ++ ">" ++ raw pn.2)))

def dedup (l : List Str) : List Str := l.foldl (fun acc x => if acc.contains x then acc else acc ++ [x]) []

def listing (d : D) : String :=
  let s := d.st.store
  let l := sortStrs (s.namespaces.map (fun pn => raw pn.1 ++ ">" ++ raw pn.2))
  let ps := dedup (d.vp ++ s.namespaces.map Prod.fst)
  let ns := dedup (d.vn ++ s.namespaces.map Prod.snd)
  let lp := sortStrs (ps.map (fun p => raw p ++ ">" ++ rawO (s.namespace p)))
  let ln := sortStrs (ns.map (fun n => raw n ++ ">" ++ rawO (s.prefix n)))
  "|L " ++ " ".intercalate l ++ "|P " ++ " ".intercalate lp ++ "|N " ++ " ".intercalate ln

def pairs? : List String → Option (List (Option Str × Str))
  | [] => some []
  | [_] => none
  | p :: n :: r => do
    let p ← ostr? p; let n ← str? n; let r ← pairs? r
    pure ((p, n) :: r)

def ugs? : List String → Option (List (Str × Bool))
  | [] => some []
  | [_] => none
  | u :: g :: r => do
    let u ← str? u; let g ← bool? g; let r ← ugs? r
    pure ((u, g) :: r)

/-- split a word list at the words `/` -/
def splitSlash : List String → List (List String)
  | [] => []
  | ws =>
    let go := ws.foldr (fun w (acc : List String × List (List String)) =>
      if w = "/" then ([], acc.1 :: acc.2) else (w :: acc.1, acc.2)) ([], [])
    go.1 :: go.2

def parseOp : List String → Option Op
  | ["minit", m, b] => do pure (.minit (← bool? m) (← bset? b))
  | ["bind", m, p, n, ov, rp] => do pure (.bind (← bool? m) (← ostr? p) (← str? n) (← bool? ov) (← bool? rp))
  | ["sbind", p, n, ov] => do pure (.sbind (← str? p) (← str? n) (← bool? ov))
  | ["cq", m, u, g] => do pure (.cq (← bool? m) (← str? u) (← bool? g))
  | ["cqs", m, u, g] => do pure (.cqs (← bool? m) (← str? u) (← bool? g))
  | ["qname", m, u] => do pure (.qname (← bool? m) (← str? u))
  | ["qstrict", m, u] => do pure (.qstrict (← bool? m) (← str? u))
  | ["curie", m, u, g] => do pure (.curie (← bool? m) (← str? u) (← bool? g))
  | ["n3", m, u] => do pure (.n3 (← bool? m) (← str? u))
  | ["expand", c] => do pure (.expand (← str? c))
  | ["reset", m] => do pure (.reset (← bool? m))
  | ["ser", m, a, b, c] => do pure (.ser (← bool? m) (← str? a) (← str? b) (← str? c))
  | "parse" :: m :: r => do
    let ps ← pairs? r
    let ps ← ps.mapM (fun pn => pn.1.map (fun p => (p, pn.2)))
    pure (.parse (← bool? m) ps)
  | "parsexml" :: m :: r => do pure (.parsexml (← bool? m) (← pairs? r))
  | "serdoc" :: m :: fb :: r => do pure (.serdoc (← bool? m) (← bool? fb) (← ugs? r))
  | "serxml" :: m :: r => do
    match splitSlash r with
    | [ps, ss] => pure (.serxml (← bool? m) (← ps.mapM str?) (← ss.mapM str?))
    | _ => none
  | "sertrig" :: fb :: r => do
    let cs ← (splitSlash r).mapM (fun c => match c with
      | m :: ugs => do pure ((← bool? m), (← ugs? ugs))
      | [] => none)
    pure (.sertrig (← bool? fb) cs)
  | _ => none

/-- run-length encoding of `category` over `lo, lo+1, …` (`n` code points) -/
def catRle : Nat → Nat → Option (Nat × Nat) → List (Nat × Nat) → List (Nat × Nat)
  | 0, _, cur, acc => (match cur with | some r => r :: acc | none => acc).reverse
  | n + 1, c, cur, acc =>
    let k := category c
    match cur with
    | some (k', m) => if k' = k then catRle n (c + 1) (some (k', m + 1)) acc else catRle n (c + 1) (some (k, 1)) ((k', m) :: acc)
    | none => catRle n (c + 1) (some (k, 1)) acc

def catName (k : Nat) : String := (Tables.catNames[k]?).getD "??"

def vocab? (ws : List String) : Option (List Str × List Str) :=
  match ws.span (· ≠ "|") with
  | (ps, _ :: ns) => do pure (← ps.mapM str?, ← ns.mapM str?)
  | _ => none

def step (d : D) (ws : List String) : D × String :=
  match ws with
  | ["new"] => ({ d with st := St.init }, "ok")
  | "vocab" :: r =>
    match vocab? r with
    | some (ps, ns) => ({ d with vp := ps, vn := ns }, "ok")
    | none => (d, "bad-op")
  | ["split", strict, u] =>
    -- stateless: `split_uri(u)` / `split_uri(u, NAME_START_CATEGORIES)`
    match bool? strict, str? u with
    | some b, some u =>
      (d, (match splitUri (if b then Tables.nameStartCats else Tables.splitStartCats) u with
           | some (n, l) => "split " ++ raw n ++ ">" ++ raw l
           | none => "err ValueError") ++ listing d)
    | _, _ => (d, "bad-op")
  | ["ncname", u] =>
    match str? u with
    | some u => (d, (if isNcname u then "nc 1" else "nc 0") ++ listing d)
    | none => (d, "bad-op")
  | ["catrange", lo, hi] =>
    match lo.toNat?, hi.toNat? with
    | some lo, some hi =>
      (d, "cats " ++ " ".intercalate ((catRle (hi - lo) lo none []).map (fun km => catName km.1 ++ "*" ++ toString km.2))
            ++ listing d)
    | _, _ => (d, "bad-op")
  | _ =>
    match parseOp ws with
    | none => (d, "bad-op")
    | some op =>
      let r := d.st.step op
      let d' := { d with st := r.1 }
      (d', showOut r.2 ++ listing d')

def main : IO Unit := RV.Proto.run step (⟨St.init, [], []⟩ : D)
