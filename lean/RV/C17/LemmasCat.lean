import RV.C17.Model
/-
  C17 — the Unicode category table.  `Tables.catRuns` is the flat, human-auditable table generated
  from `unicodedata.category` (first code point and category of every maximal run, all of Unicode);
  `Tables.catTree` is the same table as a balanced search tree, which is what `category` reads.
  Here: the descent in any well-formed tree equals the linear scan of its run list (generic), and
  the generated tree is well formed, has exactly `catRuns` as its run list and only known categories
  (by evaluation, re-checked against the current tables on every run).
-/
namespace RV.C17
open RV.C17.Tables

/-- linear scan of a run list: the category of the last run that starts at or before `c`
    (`cur` = category of the run we are in) -/
def runLookup : List (Nat × Nat) → Nat → Nat → Nat
  | [], cur, _ => cur
  | (s, k) :: r, cur, c => if c < s then cur else runLookup r k c

/-- the runs of a tree whose left-most leaf starts at `lo` -/
def Tables.CatTree.runs : CatTree → Nat → List (Nat × Nat)
  | .leaf k, lo => [(lo, k)]
  | .node p l r, lo => l.runs lo ++ r.runs p

/-- search-tree order: every pivot lies strictly inside the interval of its node -/
def Tables.CatTree.wf : CatTree → Nat → Nat → Bool
  | .leaf _, lo, hi => decide (lo < hi)
  | .node p l r, lo, hi => decide (lo < p) && decide (p < hi) && l.wf lo p && r.wf p hi

/-- every leaf is a category index below `n` -/
def Tables.CatTree.leavesBelow : CatTree → Nat → Bool
  | .leaf k, n => decide (k < n)
  | .node _ l r, n => l.leavesBelow n && r.leavesBelow n

/-- strictly increasing starts, neighbouring runs of different categories (maximal runs) -/
def runsCanonical : List (Nat × Nat) → Bool
  | [] => true
  | [_] => true
  | (s, k) :: (s', k') :: r => decide (s < s') && decide (k ≠ k') && runsCanonical ((s', k') :: r)

/-- the run list of a tree starts with a run at `lo` -/
theorem runs_head (t : CatTree) : ∀ (lo : Nat) (rest : List (Nat × Nat)),
    ∃ k r', t.runs lo ++ rest = (lo, k) :: r' := by
  induction t with
  | leaf k => intro lo rest; exact ⟨k, rest, rfl⟩
  | node p l r il _ =>
    intro lo rest
    obtain ⟨k, r', e⟩ := il lo (r.runs p ++ rest)
    exact ⟨k, r', by simp only [Tables.CatTree.runs, List.append_assoc]; exact e⟩

/-- a scan that has not reached the first start of the remaining runs answers the current category -/
theorem runLookup_lt_head (t : CatTree) (lo : Nat) (rest : List (Nat × Nat)) (cur c : Nat) (hc : c < lo) :
    runLookup (t.runs lo ++ rest) cur c = cur := by
  obtain ⟨k, r', e⟩ := runs_head t lo rest
  rw [e]; simp [runLookup, hc]

/-- scanning past a whole tree whose interval ends at or before `c` -/
theorem runLookup_skip (c : Nat) (t : CatTree) : ∀ (lo hi : Nat), t.wf lo hi = true → hi ≤ c →
    ∀ (rest : List (Nat × Nat)) (cur : Nat), (∃ s k r', rest = (s, k) :: r' ∧ s ≤ c) →
      runLookup (t.runs lo ++ rest) cur c = runLookup rest 0 c := by
  induction t with
  | leaf k =>
    intro lo hi hw hh rest cur ⟨s, k', r', hr, hs⟩
    simp only [Tables.CatTree.wf, decide_eq_true_eq] at hw
    have h1 : ¬ c < lo := by omega
    have h2 : ¬ c < s := by omega
    subst hr
    simp [Tables.CatTree.runs, runLookup, h1, h2]
  | node p l r il ir =>
    intro lo hi hw hh rest cur hr
    simp only [Tables.CatTree.wf, Bool.and_eq_true, decide_eq_true_eq] at hw
    simp only [Tables.CatTree.runs, List.append_assoc]
    obtain ⟨k, r', e⟩ := runs_head r p rest
    rw [il lo p hw.1.2 (by omega) _ cur ⟨p, k, r', e, by omega⟩]
    exact ir p hi hw.2 hh rest 0 hr

/-- descent = linear scan, for every code point of the tree's interval, whatever follows the
    tree's runs (as long as the scan of what follows stays put: it starts after `c`) -/
theorem get_eq_runLookup (c : Nat) (t : CatTree) : ∀ (lo hi : Nat), t.wf lo hi = true →
    ∀ (rest : List (Nat × Nat)), (∀ cur', runLookup rest cur' c = cur') →
      ∀ cur : Nat, lo ≤ c → c < hi → runLookup (t.runs lo ++ rest) cur c = t.get c := by
  induction t with
  | leaf k =>
    intro lo hi _ rest hrest cur h1 _
    have : ¬ c < lo := by omega
    simp [Tables.CatTree.runs, runLookup, this, Tables.CatTree.get, hrest]
  | node p l r ihl ihr =>
    intro lo hi h rest hrest cur h1 h2
    simp only [Tables.CatTree.wf, Bool.and_eq_true, decide_eq_true_eq] at h
    simp only [Tables.CatTree.runs, List.append_assoc, Tables.CatTree.get]
    by_cases hp : c < p
    · simp only [hp, if_true]
      exact ihl lo p h.1.2 _ (fun cur' => runLookup_lt_head r p rest cur' c hp) cur h1 hp
    · simp only [hp, if_false]
      have hpc : p ≤ c := by omega
      obtain ⟨k, r', e⟩ := runs_head r p rest
      rw [runLookup_skip c l lo p h.1.2 hpc _ cur ⟨p, k, r', e, hpc⟩]
      exact ihr p hi h.2 rest hrest 0 hpc h2

theorem get_below (t : CatTree) (n : Nat) (h : t.leavesBelow n = true) (c : Nat) : t.get c < n := by
  induction t with
  | leaf k => simpa [Tables.CatTree.leavesBelow, Tables.CatTree.get] using h
  | node p l r il ir =>
    simp only [Tables.CatTree.leavesBelow, Bool.and_eq_true] at h
    simp only [Tables.CatTree.get]
    split
    · exact il h.1
    · exact ir h.2

/-! ### the generated table (re-evaluated against the current `Tables.lean` on every run) -/

theorem catTree_wf : catTree.wf 0 catLimit = true := by decide +kernel
theorem catTree_runs : catTree.runs 0 = catRuns := by decide +kernel
theorem catTree_below : catTree.leavesBelow catUnknown = true := by decide +kernel
theorem catRuns_canonical : runsCanonical catRuns = true := by decide +kernel

/-- the specification of `category`: linear scan of the flat run table -/
def categorySpec (c : Nat) : Nat := if c < catLimit then runLookup catRuns catUnknown c else catUnknown

theorem category_eq_spec (c : Nat) : category c = categorySpec c := by
  unfold category categorySpec
  split
  · rename_i h
    have := get_eq_runLookup c catTree 0 catLimit catTree_wf [] (fun _ => rfl) catUnknown (Nat.zero_le _) h
    rw [List.append_nil, catTree_runs] at this
    exact this.symm
  · rfl

theorem category_known (c : Nat) (h : c < catLimit) : category c < catUnknown := by
  unfold category
  rw [if_pos h]
  exact get_below _ _ catTree_below c

end RV.C17
