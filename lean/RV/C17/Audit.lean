import RV.C17.Props
open RV.C17
#print axioms bind_bijective
#print axioms bind_never_raises
#print axioms qname_bound_and_expands
#print axioms expand_inverse
#print axioms split_spec
#print axioms longest_is_longest
#print axioms trie_inv_insert
#print axioms longest_in_histories
#print axioms generated_prefix_fresh
#print axioms document_names_expand
#print axioms trig_names_expand
#print axioms xml_names_expand_partial
#print axioms no_loop
#print axioms split_uri_complete
#print axioms qname_fails_only_unsplittable
#print axioms qname_strict_fails_only
#print axioms category_table
#print axioms old_nonoverride_bind_breaks_bijection
#print axioms colon_prefix_not_expandable
