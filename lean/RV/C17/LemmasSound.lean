import RV.C17.LemmasStep
/-
  C17 helper lemmas, part 5: glue between the history invariant and the property statements.
-/
namespace RV.C17
open RV.C17.Tables

/-- Spec: `namespaces()` is a partial bijection Prefix ⇌ Namespace, and both lookups read it. -/
structure Bij (s : Store) : Prop where
  prefix_once : (s.namespaces.map Prod.fst).Nodup
  namespace_once : (s.namespaces.map Prod.snd).Nodup
  lookup_namespace : ∀ p n, (p, n) ∈ s.namespaces ↔ s.namespace p = some n
  lookup_prefix : ∀ p n, (p, n) ∈ s.namespaces ↔ s.prefix n = some p

theorem Store.Inv.bij {s : Store} (h : s.Inv) : Bij s := by
  refine ⟨h.nodupNs, ?_, ?_, ?_⟩
  · apply nodup_vals h.nodupNs
    intro p q n hp hq
    have h1 := (h.inverse p n).1 hp
    have h2 := (h.inverse q n).1 hq
    rw [h1] at h2; injection h2
  · intro p n; exact mem_iff_alookup h.nodupNs p n
  · intro p n
    rw [show s.prefix n = alookup s.pfx n from rfl, ← h.inverse p n]
    exact mem_iff_alookup h.nodupNs p n

/-- `p:l` is a sound compact form of `u` in store `s`: `p` is bound to `n` (both lookups say so)
    and `n ++ l` is the IRI -/
def Sound (s : Store) (u p n l : Str) : Prop :=
  s.namespace p = some n ∧ s.prefix n = some p ∧ n ++ l = u

theorem St.put_store (s : St) (i : Bool) (r : Store × Mgr) : (s.put i r).store = r.1 := by
  cases i <;> rfl

theorem sound_of {s : Store} (hi : s.Inv) {u p n l : Str} (h : s.prefix n = some p ∧ n ++ l = u) :
    Sound s u p n l := ⟨(hi.inverse p n).2 h.1, h.1, h.2⟩

theorem outQN_qn {r : Except Err QN} {p n l : Str} (h : outQN r = .qn p n l) : r = .ok (p, n, l) := by
  cases r with
  | error e => simp [outQN] at h
  | ok q => obtain ⟨a, b, c⟩ := q; simp only [outQN] at h; injection h with h1 h2 h3; subst h1 h2 h3; rfl

theorem outStr_str {f : QN → Str} {r : Except Err QN} {c : Str} (h : outStr f r = .str c) :
    ∃ q, r = .ok q ∧ c = f q := by
  cases r with
  | error e => simp [outStr] at h
  | ok q => simp only [outStr] at h; injection h with h; exact ⟨q, rfl, h.symm⟩

theorem step_cq_sound {s : St} (h : HInv s) (i : Bool) (u : Str) (g : Bool) (p n l : Str)
    (e : (s.step (.cq i u g)).2 = .qn p n l) : Sound (s.step (.cq i u g)).1.store u p n l := by
  have hi := (h.step (.cq i u g)).store
  simp only [St.step, St.put_store] at e hi ⊢
  exact sound_of hi ((computeQname_all u g (h.mgr i).1 (h.mgr i).2).ok _ _ _ (outQN_qn e))

theorem step_cqs_sound {s : St} (h : HInv s) (i : Bool) (u : Str) (g : Bool) (p n l : Str)
    (e : (s.step (.cqs i u g)).2 = .qn p n l) : Sound (s.step (.cqs i u g)).1.store u p n l := by
  have hi := (h.step (.cqs i u g)).store
  simp only [St.step, St.put_store] at e hi ⊢
  exact sound_of hi ((computeQnameStrict_all u g (h.mgr i).1 (h.mgr i).2).ok _ _ _ (outQN_qn e))

theorem step_curie_sound {s : St} (h : HInv s) (i : Bool) (u : Str) (g : Bool) (c : Str)
    (e : (s.step (.curie i u g)).2 = .str c) :
    ∃ p n l, c = joinQ p l ∧ Sound (s.step (.curie i u g)).1.store u p n l := by
  have hi := (h.step (.curie i u g)).store
  simp only [St.step, St.put_store] at e hi ⊢
  obtain ⟨⟨p, n, l⟩, hq, hc⟩ := outStr_str e
  exact ⟨p, n, l, hc, sound_of hi ((computeQname_all u g (h.mgr i).1 (h.mgr i).2).ok _ _ _ hq)⟩

theorem step_qname_sound {s : St} (h : HInv s) (i : Bool) (u : Str) (c : Str)
    (e : (s.step (.qname i u)).2 = .str c) :
    ∃ p n l, c = showQname (p, n, l) ∧ Sound (s.step (.qname i u)).1.store u p n l := by
  have hi := (h.step (.qname i u)).store
  simp only [St.step, St.put_store] at e hi ⊢
  obtain ⟨⟨p, n, l⟩, hq, hc⟩ := outStr_str e
  exact ⟨p, n, l, hc, sound_of hi ((computeQname_all u true (h.mgr i).1 (h.mgr i).2).ok _ _ _ hq)⟩

theorem step_qstrict_sound {s : St} (h : HInv s) (i : Bool) (u : Str) (c : Str)
    (e : (s.step (.qstrict i u)).2 = .str c) :
    ∃ p n l, c = showQname (p, n, l) ∧ Sound (s.step (.qstrict i u)).1.store u p n l := by
  have hi := (h.step (.qstrict i u)).store
  simp only [St.step, St.put_store] at e hi ⊢
  obtain ⟨⟨p, n, l⟩, hq, hc⟩ := outStr_str e
  exact ⟨p, n, l, hc, sound_of hi ((computeQnameStrict_all u true (h.mgr i).1 (h.mgr i).2).ok _ _ _ hq)⟩

theorem step_n3_sound {s : St} (h : HInv s) (i : Bool) (u : Str) (c : Str)
    (e : (s.step (.n3 i u)).2 = .str c) :
    c = 60 :: u ++ [62] ∨ ∃ p n l, c = joinQ p l ∧ Sound (s.step (.n3 i u)).1.store u p n l := by
  have hi := (h.step (.n3 i u)).store
  simp only [St.step, St.put_store] at e hi ⊢
  rcases normalizeUri_str u c (h.mgr i).1 (h.mgr i).2 e with h1 | ⟨p, n, l, hc, hp⟩
  · exact Or.inl h1
  · exact Or.inr ⟨p, n, l, hc, sound_of hi hp⟩

/-! ### expand_curie -/

theorem splitColon_join {p l : Str} (h : ¬ 58 ∈ p) : splitColon (joinQ p l) = some (p, l) := by
  induction p with
  | nil => simp [joinQ, splitColon]
  | cons c r ih =>
    have hc : c ≠ 58 := fun e => h (e ▸ List.mem_cons_self)
    have hr : ¬ 58 ∈ r := fun e => h (List.mem_cons_of_mem _ e)
    have := ih hr
    simp only [joinQ, List.cons_append] at this ⊢
    simp only [splitColon, hc, if_false, this]

theorem expand_of_sound {s : Store} {u p n l : Str} (h : Sound s u p n l) (hp : ¬ 58 ∈ p) :
    expandCurie s (joinQ p l) = .str u := by
  unfold expandCurie
  rw [splitColon_join hp]
  simp only [h.1, h.2.2]

/-! ### split_uri -/

theorem firstStart_spec (starts : List Nat) (uri : Str) : ∀ (js : List Nat) (j : Nat),
    firstStart starts uri js = some j → isStartAt starts uri j = true := by
  intro js
  induction js with
  | nil => intro j h; simp [firstStart] at h
  | cons a r ih =>
    intro j h
    simp only [firstStart] at h
    split at h
    · next ha => injection h with h; subst h; exact ha
    · exact ih j h

theorem splitUri_shape {starts : List Nat} {uri n l : Str} (h : splitUri starts uri = some (n, l)) :
    (xmlns.isPrefixOf uri = true ∧ n = xmlns) ∨
      (n ≠ [] ∧ ∃ c r, l = c :: r ∧ (inCats starts c = true ∨ c = 95)) := by
  unfold splitUri at h
  split at h
  · next hx => injection h with h; injection h with h1 h2; exact Or.inl ⟨hx, h1.symm⟩
  · split at h
    · exact absurd h (by simp)
    · split at h
      · exact absurd h (by simp)
      · next j hj =>
        split at h
        · exact absurd h (by simp)
        · next hj0 =>
          injection h with h; injection h with h1 h2; subst h1 h2
          have hs := firstStart_spec _ _ _ _ hj
          unfold isStartAt at hs
          split at hs
          · next c hc =>
            have hlt : j < uri.length := by
              rcases Nat.lt_or_ge j uri.length with h | h
              · exact h
              · rw [List.getElem?_eq_none h] at hc; exact absurd hc (by simp)
            refine Or.inr ⟨?_, c, uri.drop (j + 1), ?_, ?_⟩
            · intro e
              have : (List.take j uri).length = 0 := by rw [e]; rfl
              rw [List.length_take] at this
              omega
            · rw [List.drop_eq_getElem_cons hlt]
              rw [List.getElem?_eq_getElem hlt] at hc
              injection hc with hc; rw [hc]
            · simpa using hs
          · exact absurd hs (by simp)

end RV.C17
