import RV.C17.Model
/-
  C17 helper lemmas, part 7: the trie of known namespaces.
  Invariant of the coded `insert_trie`: below a node every value strictly extends the node's key,
  and siblings are never prefixes of one another.  Under it `get_longest_namespace` returns the
  longest known namespace that prefixes the IRI.
-/
namespace RV.C17

mutual
def valsT : Trie → List Str
  | .node k cs => k :: vals cs
def vals : Forest → List Str
  | [] => []
  | t :: r => valsT t ++ vals r
end

/-- siblings: no key is a prefix of another -/
def Sib (f : Forest) : Prop := f.Pairwise (fun a b => ¬ a.key <+: b.key ∧ ¬ b.key <+: a.key)

mutual
def okT : Trie → Prop
  | .node k cs => (∀ w, w ∈ vals cs → k <+: w ∧ k ≠ w) ∧ Sib cs ∧ okF cs
def okF : Forest → Prop
  | [] => True
  | t :: r => okT t ∧ okF r
end

/-- the trie invariant -/
def FInv (f : Forest) : Prop := Sib f ∧ okF f

theorem okF_iff (f : Forest) : okF f ↔ ∀ t, t ∈ f → okT t := by
  induction f with
  | nil => simp [okF]
  | cons t r ih => simp [okF, ih]

theorem vals_mem (f : Forest) (w : Str) : w ∈ vals f ↔ ∃ t, t ∈ f ∧ w ∈ valsT t := by
  induction f with
  | nil => simp [vals]
  | cons t r ih => simp [vals, ih]

theorem vals_append (a b : Forest) : ∀ w, w ∈ vals (a ++ b) ↔ w ∈ vals a ∨ w ∈ vals b := by
  intro w
  simp only [vals_mem, List.mem_append]
  constructor
  · rintro ⟨t, h1 | h1, h2⟩
    · exact Or.inl ⟨t, h1, h2⟩
    · exact Or.inr ⟨t, h1, h2⟩
  · rintro (⟨t, h1, h2⟩ | ⟨t, h1, h2⟩)
    · exact ⟨t, Or.inl h1, h2⟩
    · exact ⟨t, Or.inr h1, h2⟩

theorem key_mem_valsT (t : Trie) : t.key ∈ valsT t := by
  cases t with
  | node k cs => simp [valsT, Trie.key]

/-- everything stored in a well-formed node extends its key -/
theorem key_le_of_mem {t : Trie} (h : okT t) {w : Str} (hw : w ∈ valsT t) : t.key <+: w := by
  cases t with
  | node k cs =>
    simp only [valsT, List.mem_cons] at hw
    rcases hw with e | e
    · subst e; exact List.prefix_refl _
    · exact (h.1 w e).1

theorem prefix_antisymm {a b : Str} (h1 : a <+: b) (h2 : b <+: a) : a = b :=
  List.IsPrefix.eq_of_length_le h1 h2.length_le

/-- two prefixes of one string are comparable -/
theorem prefix_comparable {a b v : Str} (h1 : a <+: v) (h2 : b <+: v) : a <+: b ∨ b <+: a := by
  rcases Nat.le_total a.length b.length with h | h
  · exact Or.inl (List.prefix_of_prefix_length_le h1 h2 h)
  · exact Or.inr (List.prefix_of_prefix_length_le h2 h1 h)

/-- specification of the lookup on a set of values -/
def LongestSpec (known : List Str) (v : Str) : Option Str → Prop
  | some r => r ∈ known ∧ r <+: v ∧ ∀ w, w ∈ known → w <+: v → w <+: r
  | none => ∀ w, w ∈ known → ¬ w <+: v

mutual
theorem getLongestT_spec (v : Str) : ∀ (t : Trie), okT t → LongestSpec (valsT t) v (getLongestT v t)
  | .node k cs, h => by
    have ih := getLongest_spec v cs h.2.1 h.2.2
    simp only [getLongestT]
    by_cases hk : k.isPrefixOf v = true
    · have hk' : k <+: v := List.isPrefixOf_iff_prefix.1 hk
      rw [if_pos hk]
      cases hg : getLongest v cs with
      | none =>
        rw [hg] at ih
        refine ⟨by simp [valsT], hk', ?_⟩
        intro w hw hwv
        simp only [valsT, List.mem_cons] at hw
        rcases hw with e | e
        · subst e; exact List.prefix_refl _
        · exact absurd hwv (ih w e)
      | some r =>
        rw [hg] at ih
        refine ⟨by simp [valsT, ih.1], ih.2.1, ?_⟩
        intro w hw hwv
        simp only [valsT, List.mem_cons] at hw
        rcases hw with e | e
        · subst e; exact (h.1 r ih.1).1
        · exact ih.2.2 w e hwv
    · rw [if_neg hk]
      intro w hw hwv
      have : k <+: w := key_le_of_mem (t := .node k cs) h hw
      exact hk (List.isPrefixOf_iff_prefix.2 (this.trans hwv))
theorem getLongest_spec (v : Str) : ∀ (f : Forest), Sib f → okF f → LongestSpec (vals f) v (getLongest v f)
  | [], _, _ => by simp [getLongest, LongestSpec, vals]
  | t :: rest, hs, ho => by
    have iht := getLongestT_spec v t ho.1
    have ihr := getLongest_spec v rest (List.Pairwise.of_cons hs) ho.2
    simp only [getLongest]
    cases hg : getLongestT v t with
    | some r =>
      rw [hg] at iht
      refine ⟨by simp [vals, iht.1], iht.2.1, ?_⟩
      intro w hw hwv
      simp only [vals, List.mem_append] at hw
      rcases hw with e | e
      · exact iht.2.2 w e hwv
      · obtain ⟨t', ht', hw'⟩ := (vals_mem rest w).1 e
        have h1 : t.key <+: v := (key_le_of_mem ho.1 iht.1).trans iht.2.1
        have h2 : t'.key <+: v := (key_le_of_mem ((okF_iff rest).1 ho.2 t' ht') hw').trans hwv
        have hsib := List.rel_of_pairwise_cons hs ht'
        rcases prefix_comparable h1 h2 with c | c
        · exact absurd c hsib.1
        · exact absurd c hsib.2
    | none =>
      rw [hg] at iht
      simp only
      cases hr : getLongest v rest with
      | some r =>
        rw [hr] at ihr
        refine ⟨by simp [vals, ihr.1], ihr.2.1, ?_⟩
        intro w hw hwv
        simp only [vals, List.mem_append] at hw
        rcases hw with e | e
        · exact absurd hwv (iht w e)
        · exact ihr.2.2 w e hwv
      | none =>
        rw [hr] at ihr
        intro w hw hwv
        simp only [vals, List.mem_append] at hw
        rcases hw with e | e
        · exact iht w e hwv
        · exact ihr w e hwv
end

/-! ### insert_trie keeps the invariant -/

theorem hasKeyT_iff (f : Forest) (v : Str) : hasKeyT f v = true ↔ ∃ t, t ∈ f ∧ t.key = v := by
  induction f with
  | nil => simp [hasKeyT]
  | cons t r ih => simp [hasKeyT, ih]

theorem sib_iff_keys (f : Forest) :
    Sib f ↔ (f.map Trie.key).Pairwise (fun a b => ¬ a <+: b ∧ ¬ b <+: a) := by
  unfold Sib; rw [List.pairwise_map]

theorem sib_perm {a b : Forest} (p : a.Perm b) (h : Sib a) : Sib b := by
  unfold Sib at h ⊢
  exact (List.Perm.pairwise_iff (R := fun (x y : Trie) => ¬ x.key <+: y.key ∧ ¬ y.key <+: x.key)
    (fun h => ⟨h.2, h.1⟩) p).1 h

theorem strict_of_ne {k v : Str} (h : k <+: v) (hne : k ≠ v) : k.length < v.length := by
  rcases Nat.lt_or_ge k.length v.length with h1 | h1
  · exact h1
  · exact absurd (List.IsPrefix.eq_of_length_le h h1) hne

theorem insChild_key (v : Str) (t : Trie) : (insChild v t).key = t.key := by
  cases t with
  | node k cs => simp [insChild, Trie.key]

mutual
theorem insChild_spec (v : Str) : ∀ (t : Trie), okT t → t.key <+: v → t.key ≠ v →
    okT (insChild v t) ∧ ∀ w, w ∈ valsT (insChild v t) ↔ w = v ∨ w ∈ valsT t
  | .node k cs, h, hkv, hne => by
    simp only [insChild]
    by_cases hk : hasKeyT cs v = true
    · rw [if_pos hk]
      refine ⟨h, ?_⟩
      intro w
      obtain ⟨t', ht', hv⟩ := (hasKeyT_iff cs v).1 hk
      have : v ∈ vals cs := (vals_mem cs v).2 ⟨t', ht', hv ▸ key_mem_valsT t'⟩
      simp only [valsT, List.mem_cons]
      constructor
      · exact Or.inr
      · rintro (e | e)
        · subst e; exact Or.inr this
        · exact e
    · rw [if_neg hk]
      have hnk : ∀ t, t ∈ cs → t.key ≠ v := fun t ht e => hk ((hasKeyT_iff cs v).2 ⟨t, ht, e⟩)
      have ih := insLoop_spec v cs [] []
        (fun t ht => by simpa using (okF_iff cs).1 h.2.2 t (by simpa using ht))
        (by simpa using h.2.1) (by simp) (by simp) hnk
      refine ⟨⟨?_, ih.1, ih.2.1⟩, ?_⟩
      · intro w hw
        rcases (ih.2.2 w).1 hw with e | e | e | e
        · subst e; exact ⟨hkv, hne⟩
        · simp [vals] at e
        · simp [vals] at e
        · exact h.1 w e
      · intro w
        simp only [valsT, List.mem_cons, ih.2.2 w, vals, List.not_mem_nil, false_or]
        constructor
        · rintro (e | e | e)
          · exact Or.inr (Or.inl e)
          · exact Or.inl e
          · exact Or.inr (Or.inr e)
        · rintro (e | e | e)
          · exact Or.inr (Or.inl e)
          · exact Or.inl e
          · exact Or.inr (Or.inr e)
theorem insLoop_spec (v : Str) : ∀ (ks kept moved : Forest),
    (∀ t, t ∈ kept ∨ t ∈ moved ∨ t ∈ ks → okT t) → Sib (kept ++ moved ++ ks) →
    (∀ t, t ∈ kept → ¬ t.key <+: v ∧ ¬ v <+: t.key) → (∀ t, t ∈ moved → v <+: t.key ∧ v ≠ t.key) →
    (∀ t, t ∈ ks → t.key ≠ v) →
    Sib (insLoop v ks kept moved) ∧ okF (insLoop v ks kept moved) ∧
      ∀ w, w ∈ vals (insLoop v ks kept moved) ↔ w = v ∨ w ∈ vals kept ∨ w ∈ vals moved ∨ w ∈ vals ks
  | [], kept, moved, hok, hsib, hkept, hmoved, _ => by
    simp only [insLoop]
    simp only [List.append_nil] at hsib
    have hs := List.pairwise_append.1 hsib
    refine ⟨?_, ?_, ?_⟩
    · apply List.pairwise_append.2
      refine ⟨hs.1, by simp, ?_⟩
      intro a ha b hb
      simp only [List.mem_singleton] at hb; subst hb
      exact hkept a ha
    · rw [okF_iff]
      intro t ht
      simp only [List.mem_append, List.mem_singleton] at ht
      rcases ht with e | e
      · exact hok t (Or.inl e)
      · subst e
        refine ⟨?_, hs.2.1, (okF_iff moved).2 (fun t ht => hok t (Or.inr (Or.inl ht)))⟩
        intro w hw
        obtain ⟨t', ht', hw'⟩ := (vals_mem moved w).1 hw
        have h1 := hmoved t' ht'
        have h2 : t'.key <+: w := key_le_of_mem (hok t' (Or.inr (Or.inl ht'))) hw'
        refine ⟨h1.1.trans h2, ?_⟩
        intro e; subst e
        exact h1.2 (prefix_antisymm h1.1 h2)
    · intro w
      rw [vals_append]
      simp only [vals, valsT, List.append_nil, List.mem_cons, List.not_mem_nil, or_false]
      constructor
      · rintro (e | e | e)
        · exact Or.inr (Or.inl e)
        · exact Or.inl e
        · exact Or.inr (Or.inr e)
      · rintro (e | e | e)
        · exact Or.inr (Or.inl e)
        · exact Or.inl e
        · exact Or.inr (Or.inr e)
  | t :: rest, kept, moved, hok, hsib, hkept, hmoved, hks => by
    have hokt : okT t := hok t (Or.inr (Or.inr List.mem_cons_self))
    have htv : t.key ≠ v := hks t List.mem_cons_self
    simp only [insLoop]
    by_cases hA : (decide (t.key.length < v.length) && t.key.isPrefixOf v) = true
    · rw [if_pos hA]
      simp only [Bool.and_eq_true, decide_eq_true_eq] at hA
      have hpre : t.key <+: v := List.isPrefixOf_iff_prefix.1 hA.2
      have hmv : moved = [] := by
        cases moved with
        | nil => rfl
        | cons t' r' =>
          exfalso
          have h1 := hmoved t' List.mem_cons_self
          have hs := (List.pairwise_append.1 hsib).2.2 t' (by simp) t (by simp)
          exact hs.2 (hpre.trans h1.1)
      subst hmv
      simp only [List.isEmpty_nil, if_true, List.append_nil] at hsib ⊢
      obtain ⟨ht1, ht2⟩ := insChild_spec v t hokt hpre htv
      refine ⟨?_, ?_, ?_⟩
      · rw [sib_iff_keys] at hsib ⊢
        simpa [insChild_key] using hsib
      · rw [okF_iff]
        intro t' ht'
        simp only [List.mem_append, List.mem_cons] at ht'
        rcases ht' with e | e | e
        · exact hok t' (Or.inl e)
        · subst e; exact ht1
        · exact hok t' (Or.inr (Or.inr (List.mem_cons_of_mem _ e)))
      · intro w
        rw [vals_append]
        simp only [vals, List.mem_append, ht2 w, List.not_mem_nil, false_or]
        constructor
        · rintro (e | (e | e) | e)
          · exact Or.inr (Or.inl e)
          · exact Or.inl e
          · exact Or.inr (Or.inr (Or.inl e))
          · exact Or.inr (Or.inr (Or.inr e))
        · rintro (e | e | e | e)
          · exact Or.inr (Or.inl (Or.inl e))
          · exact Or.inl e
          · exact Or.inr (Or.inl (Or.inr e))
          · exact Or.inr (Or.inr e)
    · rw [if_neg hA]
      by_cases hB : v.isPrefixOf t.key = true
      · rw [if_pos hB]
        have hvt : v <+: t.key := List.isPrefixOf_iff_prefix.1 hB
        have ih := insLoop_spec v rest kept (moved ++ [t])
          (fun t' ht' => by
            simp only [List.mem_append, List.mem_singleton] at ht'
            rcases ht' with e | (e | e) | e
            · exact hok t' (Or.inl e)
            · exact hok t' (Or.inr (Or.inl e))
            · subst e; exact hokt
            · exact hok t' (Or.inr (Or.inr (List.mem_cons_of_mem _ e))))
          (by simpa using hsib) hkept
          (fun t' ht' => by
            simp only [List.mem_append, List.mem_singleton] at ht'
            rcases ht' with e | e
            · exact hmoved t' e
            · subst e; exact ⟨hvt, fun e => htv e.symm⟩)
          (fun t' ht' => hks t' (List.mem_cons_of_mem _ ht'))
        refine ⟨ih.1, ih.2.1, ?_⟩
        intro w
        rw [ih.2.2 w, vals_append]
        simp only [vals, List.mem_append, List.not_mem_nil, or_false]
        constructor
        · rintro (e | e | (e | e) | e)
          · exact Or.inl e
          · exact Or.inr (Or.inl e)
          · exact Or.inr (Or.inr (Or.inl e))
          · exact Or.inr (Or.inr (Or.inr (Or.inl e)))
          · exact Or.inr (Or.inr (Or.inr (Or.inr e)))
        · rintro (e | e | e | e | e)
          · exact Or.inl e
          · exact Or.inr (Or.inl e)
          · exact Or.inr (Or.inr (Or.inl (Or.inl e)))
          · exact Or.inr (Or.inr (Or.inl (Or.inr e)))
          · exact Or.inr (Or.inr (Or.inr e))
      · rw [if_neg hB]
        have hvt : ¬ v <+: t.key := fun h => hB (List.isPrefixOf_iff_prefix.2 h)
        have htv' : ¬ t.key <+: v := by
          intro h
          apply hA
          simp only [Bool.and_eq_true, decide_eq_true_eq]
          exact ⟨strict_of_ne h htv, List.isPrefixOf_iff_prefix.2 h⟩
        have hperm : (kept ++ moved ++ t :: rest).Perm (kept ++ [t] ++ moved ++ rest) := by
          simp only [List.append_assoc]
          apply List.Perm.append_left
          simp only [List.singleton_append]
          exact List.perm_middle
        have ih := insLoop_spec v rest (kept ++ [t]) moved
          (fun t' ht' => by
            simp only [List.mem_append, List.mem_singleton] at ht'
            rcases ht' with (e | e) | e | e
            · exact hok t' (Or.inl e)
            · subst e; exact hokt
            · exact hok t' (Or.inr (Or.inl e))
            · exact hok t' (Or.inr (Or.inr (List.mem_cons_of_mem _ e))))
          (sib_perm hperm hsib)
          (fun t' ht' => by
            simp only [List.mem_append, List.mem_singleton] at ht'
            rcases ht' with e | e
            · exact hkept t' e
            · subst e; exact ⟨htv', hvt⟩)
          hmoved
          (fun t' ht' => hks t' (List.mem_cons_of_mem _ ht'))
        refine ⟨ih.1, ih.2.1, ?_⟩
        intro w
        rw [ih.2.2 w, vals_append]
        simp only [vals, List.mem_append, List.not_mem_nil, or_false]
        constructor
        · rintro (e | (e | e) | e | e)
          · exact Or.inl e
          · exact Or.inr (Or.inl e)
          · exact Or.inr (Or.inr (Or.inr (Or.inl e)))
          · exact Or.inr (Or.inr (Or.inl e))
          · exact Or.inr (Or.inr (Or.inr (Or.inr e)))
        · rintro (e | e | e | e | e)
          · exact Or.inl e
          · exact Or.inr (Or.inl (Or.inl e))
          · exact Or.inr (Or.inr (Or.inl e))
          · exact Or.inr (Or.inl (Or.inr e))
          · exact Or.inr (Or.inr (Or.inr e))
end

theorem insertForest_spec {f : Forest} (h : FInv f) (v : Str) :
    FInv (insertForest f v) ∧ ∀ w, w ∈ vals (insertForest f v) ↔ w = v ∨ w ∈ vals f := by
  unfold insertForest
  by_cases hk : hasKeyT f v = true
  · rw [if_pos hk]
    refine ⟨h, ?_⟩
    intro w
    obtain ⟨t', ht', hv⟩ := (hasKeyT_iff f v).1 hk
    have : v ∈ vals f := (vals_mem f v).2 ⟨t', ht', hv ▸ key_mem_valsT t'⟩
    constructor
    · exact Or.inr
    · rintro (e | e)
      · subst e; exact this
      · exact e
  · rw [if_neg hk]
    have hnk : ∀ t, t ∈ f → t.key ≠ v := fun t ht e => hk ((hasKeyT_iff f v).2 ⟨t, ht, e⟩)
    have ih := insLoop_spec v f [] []
      (fun t ht => by simpa using (okF_iff f).1 h.2 t (by simpa using ht))
      (by simpa using h.1) (by simp) (by simp) hnk
    refine ⟨⟨ih.1, ih.2.1⟩, ?_⟩
    intro w
    simp only [ih.2.2 w, vals, List.not_mem_nil, false_or]

theorem finv_nil : FInv [] := ⟨List.Pairwise.nil, trivial⟩

/-- a trie built by any sequence of `insert_trie` calls is well formed and holds exactly the
    inserted values (plus what it held before) -/
theorem build_spec (known : List Str) : ∀ (f : Forest), FInv f →
    FInv (known.foldl insertForest f) ∧ ∀ w, w ∈ vals (known.foldl insertForest f) ↔ w ∈ known ∨ w ∈ vals f := by
  induction known with
  | nil => intro f h; exact ⟨h, by simp⟩
  | cons v r ih =>
    intro f h
    obtain ⟨h1, h2⟩ := insertForest_spec h v
    obtain ⟨h3, h4⟩ := ih _ h1
    refine ⟨h3, ?_⟩
    intro w
    simp only [List.foldl_cons, h4 w, h2 w, List.mem_cons]
    constructor
    · rintro (e | e | e)
      · exact Or.inl (Or.inr e)
      · exact Or.inl (Or.inl e)
      · exact Or.inr e
    · rintro ((e | e) | e)
      · exact Or.inr (Or.inl e)
      · exact Or.inl e
      · exact Or.inr (Or.inr e)

theorem LongestSpec.congr {a b : List Str} (h : ∀ w, w ∈ a ↔ w ∈ b) {v : Str} {r : Option Str}
    (hs : LongestSpec a v r) : LongestSpec b v r := by
  cases r with
  | none => intro w hw; exact hs w ((h w).2 hw)
  | some r => exact ⟨(h r).1 hs.1, hs.2.1, fun w hw => hs.2.2 w ((h w).2 hw)⟩

theorem getLongest_build (known : List Str) (v : Str) :
    LongestSpec known v (getLongest v (known.foldl insertForest [])) := by
  obtain ⟨h1, h2⟩ := build_spec known [] finv_nil
  exact (getLongest_spec v _ h1.1 h1.2).congr (fun w => by simp [h2 w, vals])

end RV.C17
