import RV.C17.LemmasMgr
/-
  C17 helper lemmas, part 6: numerals are injective, so the two `while 1:` loops that look for an
  unused numbered prefix stop within `len(bindings) + 1` rounds (the fuel the model gives them).
-/
namespace RV.C17

/-- decimal digits, by well-founded recursion (the fuel-free reading of `decF`) -/
def decW (n : Nat) : Str :=
  if h : n < 10 then [48 + n] else decW (n / 10) ++ [48 + n % 10]
decreasing_by omega

theorem decF_eq_decW : ∀ (f n : Nat), n ≤ f → decF f n = decW n := by
  intro f
  induction f with
  | zero =>
    intro n h
    have : n = 0 := by omega
    subst this
    rw [decW]; simp [decF]
  | succ f ih =>
    intro n h
    by_cases h10 : n < 10
    · rw [decW]; simp [decF, h10]
    · rw [decW]
      simp only [decF, h10, if_false, dite_false]
      rw [ih (n / 10) (by omega)]

theorem dec_eq_decW (n : Nat) : dec n = decW n := decF_eq_decW n n (Nat.le_refl n)

theorem decW_ne_nil (n : Nat) : decW n ≠ [] := by
  rw [decW]; split <;> simp

theorem decW_inj : ∀ (n m : Nat), decW n = decW m → n = m := by
  intro n
  induction n using Nat.strongRecOn with
  | _ n ih =>
    intro m h
    rw [decW.eq_1 n, decW.eq_1 m] at h
    split at h
    · next hn =>
      split at h
      · next hm => simpa using h
      · next hm =>
        have := congrArg List.length h
        simp only [List.length_cons, List.length_nil, List.length_append] at this
        have h0 : (decW (m / 10)).length ≠ 0 := fun e => decW_ne_nil _ (List.eq_nil_of_length_eq_zero e)
        omega
    · next hn =>
      split at h
      · next hm =>
        have := congrArg List.length h
        simp only [List.length_cons, List.length_nil, List.length_append] at this
        have h0 : (decW (n / 10)).length ≠ 0 := fun e => decW_ne_nil _ (List.eq_nil_of_length_eq_zero e)
        omega
      · next hm =>
        obtain ⟨h1, h2⟩ := List.append_inj' h rfl
        have e1 := ih (n / 10) (by omega) (m / 10) h1
        have e2 : n % 10 = m % 10 := by simpa using h2
        omega

theorem dec_inj {n m : Nat} (h : dec n = dec m) : n = m :=
  decW_inj n m (by rw [← dec_eq_decW, ← dec_eq_decW]; exact h)

theorem falsy_cases {x : Option Str} (h : truthy x = false) : x = none ∨ x = some [] := by
  cases x with
  | none => exact Or.inl rfl
  | some v => cases v with
    | nil => exact Or.inr rfl
    | cons a r => simp [truthy] at h

theorem truthy_isSome {x : Option Str} (h : truthy x = true) : x.isSome = true := by
  cases x with
  | none => simp [truthy] at h
  | some v => rfl

/-- `base ++ k` for `num ≤ k < num + fuel` are pairwise different strings; if all of them are bound
    there are more than `fuel - 1` bindings -/
theorem numbered_pigeonhole (st : Store) (base : Str) (fuel num : Nat)
    (h : ∀ k, num ≤ k → k < num + fuel → truthy (st.namespace (base ++ dec k)) = true) :
    fuel ≤ st.ns.length := by
  have hnd : ((List.range' num fuel).map (fun k => base ++ dec k)).Nodup := by
    apply List.Pairwise.map _ _ (List.nodup_range' (s := num) (n := fuel))
    intro a b hab e
    exact hab (dec_inj (List.append_cancel_left e))
  have hsub : (List.range' num fuel).map (fun k => base ++ dec k) ⊆ st.ns.map Prod.fst := by
    intro x hx
    obtain ⟨k, hk, rfl⟩ := List.mem_map.1 hx
    rw [List.mem_range'_1] at hk
    exact (mem_keys_iff st.ns _).2 (truthy_isSome (h k hk.1 hk.2))
  have := hnd.length_le_of_subset hsub
  simpa using this

theorem pickNs_none (st : Store) : ∀ (fuel num : Nat), pickNs st fuel num = none →
    ∀ k, num ≤ k → k < num + fuel → truthy (st.namespace (strNs ++ dec k)) = true := by
  intro fuel
  induction fuel with
  | zero => intro num _ k h1 h2; omega
  | succ f ih =>
    intro num h k h1 h2
    simp only [pickNs] at h
    split at h
    · next ht =>
      rcases Nat.eq_or_lt_of_le h1 with e | e
      · subst e; exact ht
      · exact ih (num + 1) h k e (by omega)
    · exact absurd h (by simp)

/-- the prefix-generating loop of `compute_qname` stops within `len(bindings) + 1` rounds -/
theorem pickNs_terminates (st : Store) : ∃ p, pickNs st (st.ns.length + 1) 1 = some p := by
  cases h : pickNs st (st.ns.length + 1) 1 with
  | some p => exact ⟨p, rfl⟩
  | none =>
    have := numbered_pigeonhole st strNs _ 1 (pickNs_none st _ 1 h)
    omega

def Pick.isLoop : Pick → Bool
  | .loop => true
  | _ => false

theorem pickNumbered_loop (st : Store) (base n : Str) : ∀ (fuel num : Nat),
    (pickNumbered st base n fuel num).isLoop = true →
    ∀ k, num ≤ k → k < num + fuel → truthy (st.namespace (base ++ dec k)) = true := by
  intro fuel
  induction fuel with
  | zero => intro num _ k h1 h2; omega
  | succ f ih =>
    intro num h k h1 h2
    simp only [pickNumbered] at h
    by_cases c1 : (truthy (st.namespace (base ++ dec num)) && st.namespace (base ++ dec num) == some n) = true
    · rw [if_pos c1] at h; simp [Pick.isLoop] at h
    · rw [if_neg c1] at h
      by_cases c2 : (!truthy (st.namespace (base ++ dec num))) = true
      · rw [if_pos c2] at h; simp [Pick.isLoop] at h
      · rw [if_neg c2] at h
        rcases Nat.eq_or_lt_of_le h1 with e | e
        · subst e; simpa using c2
        · exact ih (num + 1) h k e (by omega)

/-- the numbered-fallback loop of `bind` stops within `len(bindings) + 1` rounds -/
theorem pickNumbered_terminates (st : Store) (base n : Str) :
    (pickNumbered st base n (st.ns.length + 1) 1).isLoop = false := by
  cases h : (pickNumbered st base n (st.ns.length + 1) 1).isLoop with
  | false => rfl
  | true =>
    have := numbered_pigeonhole st base _ 1 (pickNumbered_loop st base n _ 1 h)
    omega

theorem pickNumbered_fresh (st : Store) (base n : Str) : ∀ (fuel num : Nat) (p : Str),
    pickNumbered st base n fuel num = .fresh p → truthy (st.namespace p) = false := by
  intro fuel
  induction fuel with
  | zero => intro num p h; simp [pickNumbered] at h
  | succ f ih =>
    intro num p h
    simp only [pickNumbered] at h
    by_cases c1 : (truthy (st.namespace (base ++ dec num)) && st.namespace (base ++ dec num) == some n) = true
    · rw [if_pos c1] at h; exact absurd h (by simp)
    · rw [if_neg c1] at h
      by_cases c2 : (!truthy (st.namespace (base ++ dec num))) = true
      · rw [if_pos c2] at h; injection h with h; subst h; simpa using c2
      · rw [if_neg c2] at h; exact ih _ _ h

end RV.C17
