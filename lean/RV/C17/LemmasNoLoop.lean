import RV.C17.LemmasFresh
/-
  C17 helper lemmas, part 9: no function of the model ever answers `Loop` — the fuel given to the
  three `while` loops (`len(bindings)+1` for `ns<k>` and `<prefix><k>`, `len(document table)+1`
  for the `p…` renaming of the serializer) always suffices.  Holds for EVERY state.
-/
namespace RV.C17

theorem bindAndInsert_noloop (st : Store) (m : Mgr) (p n : Str) (ov : Bool) :
    (bindAndInsert st m p n ov).2.2 ≠ .err .Loop := by
  unfold bindAndInsert; split <;> simp

theorem Mgr.bind_noloop (st : Store) (m : Mgr) (pre : Option Str) (n : Str) (ov rp : Bool) :
    (Mgr.bind st m pre n ov rp).2.2 ≠ .err .Loop := by
  unfold Mgr.bind
  simp only
  split
  · simp
  · split
    · split
      · exact bindAndInsert_noloop _ _ _ _ _
      · split
        · simp
        · exact bindAndInsert_noloop _ _ _ _ _
        · next hl =>
          have := pickNumbered_terminates st (if (pre.getD []).isEmpty = true then strDefault else pre.getD []) n
          rw [hl] at this; simp [Pick.isLoop] at this
    · split
      · exact bindAndInsert_noloop _ _ _ _ _
      · split
        · simp
        · split
          · exact bindAndInsert_noloop _ _ _ _ _
          · simp

theorem lookupOrGenerate_noloop (st : Store) (m : Mgr) (n name : Str) (g : Bool) :
    (lookupOrGenerate st m n name g).2.2 ≠ .error .Loop := by
  unfold lookupOrGenerate
  split
  · simp
  · split
    · simp
    · split
      · next hn =>
        obtain ⟨p, hp⟩ := pickNs_terminates st
        rw [hp] at hn; exact absurd hn (by simp)
      · next p hp =>
        simp only
        split
        · next e he =>
          intro h
          simp only at h
          injection h with h; subst h
          exact Mgr.bind_noloop st m (some p) n true false he
        · simp

theorem computeQname_noloop (st : Store) (m : Mgr) (u : Str) (g : Bool) :
    (Mgr.computeQname st m u g).2.2 ≠ .error .Loop := by
  unfold Mgr.computeQname
  simp only
  split
  · simp
  · split
    · simp
    · split
      · simp
      · split
        · simp
        · next e he =>
          intro h
          simp only at h
          injection h with h; subst h
          exact lookupOrGenerate_noloop _ _ _ _ _ he

theorem strictTail_noloop (st : Store) (m : Mgr) (u : Str) (g : Bool) :
    (Mgr.strictTail st m u g).2.2 ≠ .error .Loop := by
  unfold Mgr.strictTail
  simp only
  split
  · simp
  · split
    · simp
    · split
      · simp
      · next e he =>
        intro h
        simp only at h
        injection h with h; subst h
        exact lookupOrGenerate_noloop _ _ _ _ _ he

theorem computeQnameStrict_noloop (st : Store) (m : Mgr) (u : Str) (g : Bool) :
    (Mgr.computeQnameStrict st m u g).2.2 ≠ .error .Loop := by
  unfold Mgr.computeQnameStrict
  simp only
  split
  · next e he =>
    intro h
    simp only at h
    injection h with h; subst h
    exact computeQname_noloop _ _ _ _ he
  · split
    · simp
    · exact strictTail_noloop _ _ _ _

theorem normalizeUri_noloop (st : Store) (m : Mgr) (u : Str) :
    (Mgr.normalizeUri st m u).2.2 ≠ .err .Loop := by
  unfold Mgr.normalizeUri
  split
  · simp
  · simp only
    split
    · simp
    · split
      · simp
      · split
        · simp
        · next e he =>
          intro h
          simp only at h
          injection h with h; subst h
          exact computeQname_noloop _ _ _ _ he

theorem bindAll_noloop (ov : Bool) : ∀ (d : List (Option Str × Str)) (st : Store) (m : Mgr),
    (bindAll ov d st m).2.2 ≠ .err .Loop
  | [], _, _ => by simp [bindAll]
  | (p, n) :: r, st, m => by
    simp only [bindAll]
    split
    · next e he =>
      intro h
      simp only at h
      injection h with h; subst h
      exact Mgr.bind_noloop st m p n ov false he
    · exact bindAll_noloop ov r _ _

theorem Mgr.init_noloop (st : Store) (b : BindSet) : (Mgr.init st b).2.2 ≠ .err .Loop := by
  cases b with
  | none => simp [Mgr.init]
  | core => exact bindAll_noloop false _ _ _
  | rdflib => exact bindAll_noloop false _ _ _
  | cc => simp [Mgr.init]
  | unknown => simp [Mgr.init]

/-! ### the serializer's `while p in self.namespaces: p = "p" + p` -/

def pcand (p : Str) : Nat → Str
  | 0 => p
  | k + 1 => 112 :: pcand p k

theorem pcand_length (p : Str) (k : Nat) : (pcand p k).length = p.length + k := by
  induction k with
  | zero => rfl
  | succ k ih => simp [pcand, ih]; omega

theorem pcand_cons (p : Str) : ∀ k, pcand (112 :: p) k = pcand p (k + 1)
  | 0 => rfl
  | k + 1 => by simp only [pcand]; rw [pcand_cons p k]; rfl

theorem freshP_none (table : List (Str × Str)) : ∀ (fuel : Nat) (p : Str), freshP table fuel p = none →
    ∀ k, k < fuel → hasKey table (pcand p k) = true := by
  intro fuel
  induction fuel with
  | zero => intro p _ k hk; omega
  | succ f ih =>
    intro p h k hk
    simp only [freshP] at h
    split at h
    · next hp =>
      cases k with
      | zero => exact hp
      | succ k =>
        have := ih (112 :: p) h k (by omega)
        rw [← pcand_cons p k]; exact this
    · exact absurd h (by simp)

/-- the renaming loop stops within `len(table)+1` rounds -/
theorem freshP_terminates (table : List (Str × Str)) (p : Str) :
    ∃ q, freshP table (table.length + 1) p = some q := by
  cases h : freshP table (table.length + 1) p with
  | some q => exact ⟨q, rfl⟩
  | none =>
    exfalso
    have hk := freshP_none table _ p h
    have hnd : ((List.range (table.length + 1)).map (pcand p)).Nodup := by
      apply List.Pairwise.map _ _ (List.nodup_range (n := table.length + 1))
      intro a b hab e
      have := congrArg List.length e
      simp only [pcand_length] at this
      omega
    have hsub : (List.range (table.length + 1)).map (pcand p) ⊆ table.map Prod.fst := by
      intro x hx
      obtain ⟨k, hk', rfl⟩ := List.mem_map.1 hx
      rw [List.mem_range] at hk'
      exact (mem_keys_iff table _).2 ((hasKey_iff table _).1 (hk k hk'))
    have := hnd.length_le_of_subset hsub
    simp only [List.length_map, List.length_range] at this
    omega

theorem Doc.addNamespace_noloop (d : Doc) (p n : Str) : d.addNamespace p n ≠ .error .Loop := by
  unfold Doc.addNamespace
  simp only
  split
  · next hrw =>
    split at hrw
    · split at hrw
      · exact absurd hrw (by simp)
      · split at hrw
        · exact absurd hrw (by simp)
        · next hf =>
          obtain ⟨q, hq⟩ := freshP_terminates d.table (112 :: p)
          rw [hq] at hf; exact absurd hf (by simp)
    · exact absurd hrw (by simp)
  · split
    · split <;> simp
    · simp

theorem docGetQName_noloop (st : Store) (m : Mgr) (d : Doc) (u : Str) (g fb : Bool) :
    (docGetQName st m d u g fb).2.2 ≠ .error .Loop := by
  unfold docGetQName
  simp only
  split
  · simp
  · split
    · simp
    · next e he =>
      intro h
      simp only at h
      injection h with h; subst h
      exact Doc.addNamespace_noloop _ _ _ he

theorem serDoc_noloop (fb : Bool) : ∀ (qs : List (Str × Bool)) (st : Store) (m : Mgr) (d : Doc)
    (acc : List (Str × Str × Str)), (serDoc fb qs st m d acc).2.2 ≠ .error .Loop
  | [], _, _, _, _ => by simp [serDoc]
  | (u, g) :: r, st, m, d, acc => by
    simp only [serDoc]
    split
    · next e he =>
      intro h
      simp only at h
      injection h with h; subst h
      exact docGetQName_noloop _ _ _ _ _ _ he
    · exact serDoc_noloop fb r _ _ _ _
    · exact serDoc_noloop fb r _ _ _ _

theorem serTrig_noloop (fb : Bool) : ∀ (cs : List (Bool × List (Str × Bool))) (s : St) (d : Doc)
    (acc : List (Str × Str × Str)), (serTrig fb cs s d acc).2 ≠ .error .Loop
  | [], _, _, _ => by simp [serTrig]
  | (i, qs) :: r, s, d, acc => by
    simp only [serTrig]
    split
    · next e he =>
      intro h
      simp only at h
      injection h with h; subst h
      exact serDoc_noloop fb qs _ _ _ _ he
    · exact serTrig_noloop fb r _ _ _

theorem strictSeq_noloop : ∀ (us : List Str) (st : Store) (m : Mgr) (acc : List (Str × QN)),
    (strictSeq us st m acc).2.2 ≠ .error .Loop
  | [], _, _, _ => by simp [strictSeq]
  | u :: r, st, m, acc => by
    simp only [strictSeq]
    split
    · next e he =>
      intro h
      simp only at h
      injection h with h; subst h
      exact computeQnameStrict_noloop _ _ u true he
    · exact strictSeq_noloop r _ _ _

theorem serXml_noloop (preds stmts : List Str) (st : Store) (m : Mgr) :
    (serXml preds stmts st m).2.2 ≠ .error .Loop := by
  unfold serXml
  simp only
  split
  · next e he =>
    intro h; simp only at h; injection h with h; subst h
    exact strictSeq_noloop preds st m [] he
  · split
    · simp
    · split
      · next e he =>
        intro h; simp only at h; injection h with h; subst h
        exact strictSeq_noloop stmts _ _ [] he
      · simp

theorem outQN_noloop {r : Except Err QN} (h : r ≠ .error .Loop) : outQN r ≠ .err .Loop := by
  cases r with
  | ok q => obtain ⟨a, b, c⟩ := q; simp [outQN]
  | error e => intro h'; simp only [outQN] at h'; injection h' with h'; subst h'; exact h rfl

theorem outStr_noloop {f : QN → Str} {r : Except Err QN} (h : r ≠ .error .Loop) : outStr f r ≠ .err .Loop := by
  cases r with
  | ok q => simp [outStr]
  | error e => intro h'; simp only [outStr] at h'; injection h' with h'; subst h'; exact h rfl

/-- no operation, in any state, answers `Loop` -/
theorem St.step_noloop (s : St) (op : Op) : (s.step op).2 ≠ .err .Loop := by
  cases op with
  | minit i b =>
    simp only [St.step]
    split
    · next e he =>
      intro h; injection h with h; subst h
      cases b <;> simp [BindSet.bad] at he
    · exact Mgr.init_noloop _ b
  | serxml i preds stmts =>
    simp only [St.step]
    split
    · simp
    · next e he =>
      intro h
      injection h with h; subst h
      exact serXml_noloop preds stmts _ _ he
  | sertrig fb cs =>
    simp only [St.step]
    split
    · simp
    · next e he =>
      intro h
      injection h with h; subst h
      exact serTrig_noloop fb cs _ _ _ he
  | bind i p n ov rp => exact Mgr.bind_noloop _ _ p n ov rp
  | sbind p n ov => simp only [St.step]; split <;> simp
  | cq i u g => exact outQN_noloop (computeQname_noloop _ _ u g)
  | cqs i u g => exact outQN_noloop (computeQnameStrict_noloop _ _ u g)
  | qname i u => exact outStr_noloop (computeQname_noloop _ _ u true)
  | qstrict i u => exact outStr_noloop (computeQnameStrict_noloop _ _ u true)
  | curie i u g => exact outStr_noloop (computeQname_noloop _ _ u g)
  | n3 i u => exact normalizeUri_noloop _ _ u
  | expand c =>
    simp only [St.step, expandCurie]
    split
    · simp
    · split <;> simp
  | reset i => simp [St.step]
  | parse i d => exact bindAll_noloop true _ _ _
  | parsexml i d => exact bindAll_noloop false _ _ _
  | ser i a b c => simp [St.step]
  | serdoc i fb qs =>
    simp only [St.step]
    split
    · simp
    · next e he =>
      intro h
      injection h with h; subst h
      exact serDoc_noloop fb qs _ _ _ _ he

end RV.C17
