import RV.C17.LemmasSound
import RV.C17.LemmasFresh
import RV.C17.LemmasTrieHist
import RV.C17.LemmasFail
import RV.C17.LemmasSplit
import RV.C17.LemmasCat
import RV.C17.LemmasXml
/-
  C17 — property theorems (statements first, as `def … : Prop`, then the proofs).

  "Prefix bindings stay a consistent two-way map and compact IRIs expand back."

  A *history* is any list of `Op`: binds through either manager (override × replace, None / empty /
  numbered prefixes), direct `store.bind`, qname / curie / compute_qname(_strict) / n3 / expand_curie
  calls, `reset`, Turtle and RDF/XML parses that bind prefixes, Turtle serialisations that generate
  them, creation of managers with the none / core / rdflib default bindings — in any order and number.
  `Bij` (the specification: a partial bijection Prefix ⇌ Namespace) and `Sound` are defined in
  `LemmasSound.lean`.
-/
namespace RV.C17
open RV.C17.Tables

/-! ### Statements -/

/-- After ANY history, `namespaces()` lists each prefix once and each namespace once and agrees
    with `store.namespace(p)` / `store.prefix(n)` lookups in both directions. -/
def Statement_bind_bijective : Prop :=
  ∀ ops : List Op, Bij (St.init.run ops).store

/-- After any history `Memory.bind` / `SimpleMemory.bind` cannot hit the KeyError of its `del`s,
    whatever its arguments. -/
def Statement_bind_never_raises : Prop :=
  ∀ (ops : List Op) (p n : Str) (ov : Bool), ((St.init.run ops).store.bind p n ov).isSome

/-- For every history and every IRI asked about afterwards (through either manager, with or
    without `generate`): whatever `compute_qname`, `compute_qname_strict`, `curie`, `qname`,
    `qname_strict` or `n3` answer uses a prefix that is bound — in the store as it is right after
    the call — to a namespace that, concatenated with the local name, is the IRI. -/
def Statement_qname_bound_and_expands : Prop :=
  ∀ (ops : List Op) (i : Bool) (u : Str) (g : Bool),
    (∀ p n l, ((St.init.run ops).step (.cq i u g)).2 = .qn p n l →
        Sound ((St.init.run ops).step (.cq i u g)).1.store u p n l) ∧
    (∀ p n l, ((St.init.run ops).step (.cqs i u g)).2 = .qn p n l →
        Sound ((St.init.run ops).step (.cqs i u g)).1.store u p n l) ∧
    (∀ c, ((St.init.run ops).step (.curie i u g)).2 = .str c →
        ∃ p n l, c = joinQ p l ∧ Sound ((St.init.run ops).step (.curie i u g)).1.store u p n l) ∧
    (∀ c, ((St.init.run ops).step (.qname i u)).2 = .str c →
        ∃ p n l, c = showQname (p, n, l) ∧ Sound ((St.init.run ops).step (.qname i u)).1.store u p n l) ∧
    (∀ c, ((St.init.run ops).step (.qstrict i u)).2 = .str c →
        ∃ p n l, c = showQname (p, n, l) ∧ Sound ((St.init.run ops).step (.qstrict i u)).1.store u p n l) ∧
    (∀ c, ((St.init.run ops).step (.n3 i u)).2 = .str c →
        c = 60 :: u ++ [62] ∨
          ∃ p n l, c = joinQ p l ∧ Sound ((St.init.run ops).step (.n3 i u)).1.store u p n l)

/-- `expand_curie(curie(u)) = u` after every history, for answers whose prefix has no colon
    (a prefix containing `:` is not a prefix in any RDF syntax; see `colon_prefix_not_expandable`). -/
def Statement_expand_inverse : Prop :=
  ∀ (ops : List Op) (i : Bool) (u : Str) (g : Bool) (c : Str),
    ((St.init.run ops).step (.curie i u g)).2 = .str c →
      ∃ p l, c = joinQ p l ∧
        (¬ 58 ∈ p → expandCurie ((St.init.run ops).step (.curie i u g)).1.store c = .str u)

/-- `split_uri(u) = (ns, l)`: `ns ++ l = u`; and either `u` is in the XML namespace (`ns` = XMLNS),
    or `ns` is not empty and `l` starts with a character of a split-start category or `_`. -/
def Statement_split_spec : Prop :=
  ∀ (starts : List Nat) (uri n l : Str), splitUri starts uri = some (n, l) →
    n ++ l = uri ∧
      ((xmlns.isPrefixOf uri = true ∧ n = xmlns) ∨
        (n ≠ [] ∧ ∃ c r, l = c :: r ∧ (inCats starts c = true ∨ c = 95)))

/-- `get_longest_namespace` on a trie built by `insert_trie` calls (in any order, repeats allowed)
    returns the longest inserted namespace that is a prefix of the IRI, and `None` iff there is none.
    (`LongestSpec known v r`: `r ∈ known`, `r` prefixes `v`, every `w ∈ known` prefixing `v` prefixes `r`.) -/
def Statement_longest_is_longest : Prop :=
  ∀ (known : List Str) (v : Str), LongestSpec known v (getLongest v (known.foldl insertForest []))

/-- After every history the trie of either manager is well formed, and the lookup that
    `compute_qname` makes — `get_longest_namespace(self.__strie[n0], uri)` — returns, among the
    namespaces in the trie that strictly extend the split namespace `n0`, the longest one that
    prefixes the IRI (`none` when there is none; `findSub = none` means `n0` is not in the trie). -/
def Statement_longest_in_histories : Prop :=
  ∀ (ops : List Op) (i : Bool) (n0 uri : Str),
    FInv ((St.init.run ops).mgr i).trie ∧
      (LongestSpec ((vals ((St.init.run ops).mgr i).trie).filter (fun w => decide (n0 <+: w ∧ n0 ≠ w))) uri
          ((findSub n0 ((St.init.run ops).mgr i).trie).bind (getLongest uri)) ∨
        findSub n0 ((St.init.run ops).mgr i).trie = none)

/-- `insert_trie` keeps the trie well formed (below a node every value strictly extends its key;
    siblings are never prefixes of one another) and adds exactly the inserted value. -/
def Statement_trie_inv_insert : Prop :=
  ∀ (f : Forest) (v : Str), FInv f →
    FInv (insertForest f v) ∧ ∀ w, w ∈ vals (insertForest f v) ↔ w = v ∨ w ∈ vals f

/-- After any history: the loop of `compute_qname` that looks for an unused `ns<k>` stops within
    `len(bindings)+1` rounds, and the prefix it picks is unbound or bound to the empty namespace
    (the code tests truthiness: `if not self.store.namespace(prefix)`).  Likewise the
    `<prefix><k>` loop of `bind`.  (That the namespace then really has the generated prefix is part
    of `qname_bound_and_expands`.) -/
def Statement_generated_prefix_fresh : Prop :=
  ∀ (ops : List Op),
    (∃ p, pickNs (St.init.run ops).store ((St.init.run ops).store.ns.length + 1) 1 = some p) ∧
    (∀ fuel num p, pickNs (St.init.run ops).store fuel num = some p →
        (St.init.run ops).store.namespace p = none ∨ (St.init.run ops).store.namespace p = some []) ∧
    (∀ base n, (pickNumbered (St.init.run ops).store base n ((St.init.run ops).store.ns.length + 1) 1).isLoop = false) ∧
    (∀ base n fuel num p, pickNumbered (St.init.run ops).store base n fuel num = .fresh p →
        (St.init.run ops).store.namespace p = none ∨ (St.init.run ops).store.namespace p = some [])

/-- The prefix table of one Turtle / N3 / longturtle document (`addNamespace`, which renames
    `_…` prefixes and prefixes already taken in the document to `p…`): after any history, for any
    sequence of nodes the serializer meets, every prefixed name `d:l` it produces for an IRI `u`
    expands through the document's own final `@prefix` table back to `u` — the table gives `d`
    exactly one namespace `n` (it is a dict) and `n ++ l = u`. -/
def Statement_document_names_expand : Prop :=
  ∀ (ops : List Op) (i fb : Bool) (qs : List (Str × Bool)) (d : Doc) (names : List (Str × Str × Str)),
    (serDoc fb qs (St.init.run ops).store ((St.init.run ops).mgr i) Doc.empty []).2.2 = .ok (d, names) →
      ∀ u dp l, (u, dp, l) ∈ names → ∃ n, alookup d.table dp = some n ∧ n ++ l = u

/-- The same for a TriG document of a dataset: ONE prefix table, but the contexts (graphs) are walked one
    after the other, each through its own graph object and therefore its own manager (`i`: the named graphs
    of a `Dataset` share the dataset's manager, the default graph has its own) on the common store; a prefix
    bound or generated while one context is written is seen by the next.  After any history, for any list
    of contexts (manager, graph name and nodes): every prefixed name `d:l` produced for an IRI `u` expands
    through the document's final `@prefix` table back to `u`. -/
def Statement_trig_names_expand : Prop :=
  ∀ (ops : List Op) (fb : Bool) (cs : List (Bool × List (Str × Bool))) (d : Doc) (names : List (Str × Str × Str)),
    (serTrig fb cs (St.init.run ops) Doc.empty []).2 = .ok (d, names) →
      ∀ u dp l, (u, dp, l) ∈ names → ∃ n, alookup d.table dp = some n ∧ n ++ l = u

/-- The RDF/XML document (`XMLSerializer`): after any history, for the set of predicates `preds` of a graph
    and the predicates `stmts` of the statements written (each of them one of `preds`): every element name —
    `showQname (p, n, l)`, i.e. `p:l`, or the bare `l` under the default `xmlns=` — expands through the
    document's own `xmlns` table `t` (built by `__bindings` BEFORE the statements are written, from separate
    `compute_qname_strict` calls) back to the predicate: `t[p] = n` and `n ++ l = u`. -/
def Statement_xml_names_expand : Prop :=
  ∀ (ops : List Op) (i : Bool) (preds stmts : List Str) (t : List (Str × Str)) (names : List (Str × QN)),
    (∀ u, u ∈ stmts → u ∈ preds) →
    (serXml preds stmts (St.init.run ops).store ((St.init.run ops).mgr i)).2.2 = .ok (t, names) →
      ∀ u p n l, (u, p, n, l) ∈ names → alookup t p = some n ∧ n ++ l = u

/-- No operation, in any state — hence after every history — answers `Loop`: the fuel the model
    gives to the three `while` loops always suffices.  Fuel as a function of the sizes: the `ns<k>` loop
    of `compute_qname` and the `<prefix><k>` loop of `bind` stop within `len(bindings) + 1` rounds, the
    `p…` renaming loop of the Turtle serializer within `len(document prefix table) + 1` rounds. -/
def Statement_no_loop : Prop :=
  (∀ (s : St) (op : Op), (s.step op).2 ≠ .err .Loop) ∧
  (∀ (ops : List Op) (op : Op), ((St.init.run ops).step op).2 ≠ .err .Loop) ∧
  (∀ st : Store, ∃ p, pickNs st (st.ns.length + 1) 1 = some p) ∧
  (∀ (st : Store) (base n : Str), (pickNumbered st base n (st.ns.length + 1) 1).isLoop = false) ∧
  (∀ (table : List (Str × Str)) (p : Str), ∃ q, freshP table (table.length + 1) p = some q)

/-- Exactly when `split_uri` succeeds, and with what (`SplitCases`, LemmasSplit.lean), for both
    start-category lists the code uses and every IRI outside the XML namespace: (1) only name
    characters → ValueError; (2) last non-name character, then name characters that cannot start a
    name, then a start character `c`, then name characters `r` to the end → `(…, c :: r)`, the
    longest all-name suffix that begins with a start character (for the strict list an NCName);
    (3) no start character after the last non-name character → the wrap-around of the inner loop:
    split before the first start character of the whole IRI, ValueError if that is position 0 or
    there is none.  The three cases are exhaustive. -/
def Statement_split_uri_complete : Prop :=
  StartsOK splitStartCats ∧ StartsOK nameStartCats ∧
  (∀ (starts : List Nat), StartsOK starts → ∀ uri : Str, xmlns.isPrefixOf uri = false → SplitCases starts uri) ∧
  (∀ (c : Nat) (r : Str), startChar nameStartCats c = true → restNc r = true → isNcname (c :: r) = true)

/-- After every history, `qname(u)` (likewise every `compute_qname(u, generate=True)`) fails only
    with ValueError and only if `u` has a forbidden character or `split_uri(u)` raises and `u` is not
    itself a namespace bound to a non-empty prefix. -/
def Statement_qname_fails_only_unsplittable : Prop :=
  ∀ (ops : List Op) (i : Bool) (u : Str) (e : Err),
    ((St.init.run ops).step (.qname i u)).2 = .err e →
      e = .ValueError ∧ (validUri u = false ∨
        (splitUri splitStartCats u = none ∧
          ((St.init.run ops).store.prefix u = none ∨ (St.init.run ops).store.prefix u = some [])))

/-- The same for `qname_strict(u)` (every `compute_qname_strict(u, generate=True)`, the call the RDF/XML
    serializers make for every predicate): after every history it fails only with ValueError, and only if `u`
    has a forbidden character, or `split_uri(u)` raises (and `u` is not itself a namespace bound to a non-empty
    prefix), or the strict split `split_uri(u, NAME_START_CATEGORIES)` raises. -/
def Statement_qname_strict_fails_only : Prop :=
  ∀ (ops : List Op) (i : Bool) (u : Str) (e : Err),
    ((St.init.run ops).step (.qstrict i u)).2 = .err e →
      e = .ValueError ∧ (validUri u = false ∨
        (splitUri splitStartCats u = none ∧
          ((St.init.run ops).store.prefix u = none ∨ (St.init.run ops).store.prefix u = some [])) ∨
        splitUri nameStartCats u = none)

/-- `unicodedata.category` for ALL of Unicode.  The model's `category` (a descent in the generated search
    tree `Tables.catTree`) equals, for every natural number, the linear reading `categorySpec` of the flat
    table `Tables.catRuns` generated from the running Python's `unicodedata` (first code point and category
    of every run); that table starts at code point 0 and consists of maximal runs in strictly increasing
    order; every code point below `catLimit` = 0x110000 has one of the `catNames` (never `catUnknown`).
    So `split_spec`, `split_uri_complete`, `is_ncname` … speak about every Python string, not a sample. -/
def Statement_category_table : Prop :=
  (∀ c, category c = categorySpec c) ∧ (∀ c, c < catLimit → category c < catUnknown) ∧
  runsCanonical catRuns = true ∧ (catRuns.head?.map Prod.fst) = some 0 ∧ catNames.length = catUnknown

/-! ### Proofs -/

theorem category_table : Statement_category_table :=
  ⟨category_eq_spec, category_known, catRuns_canonical, by decide +kernel, by decide⟩

theorem bind_bijective : Statement_bind_bijective :=
  fun ops => (HInv.run ops HInv.init).store.bij

theorem bind_never_raises : Statement_bind_never_raises := by
  intro ops p n ov
  obtain ⟨s', hs, _⟩ := Store.bind_inv (HInv.run ops HInv.init).store p n ov
  rw [hs]; rfl

theorem qname_bound_and_expands : Statement_qname_bound_and_expands := by
  intro ops i u g
  have h := HInv.run ops HInv.init
  exact ⟨step_cq_sound h i u g, step_cqs_sound h i u g, step_curie_sound h i u g,
    step_qname_sound h i u, step_qstrict_sound h i u, step_n3_sound h i u⟩

theorem expand_inverse : Statement_expand_inverse := by
  intro ops i u g c e
  obtain ⟨p, n, l, hc, hs⟩ := step_curie_sound (HInv.run ops HInv.init) i u g c e
  exact ⟨p, l, hc, fun hp => hc ▸ expand_of_sound hs hp⟩

theorem split_spec : Statement_split_spec :=
  fun _ _ _ _ h => ⟨splitUri_append h, splitUri_shape h⟩

theorem document_names_expand : Statement_document_names_expand := by
  intro ops i fb qs d names h
  have hi := HInv.run ops HInv.init
  exact (serDoc_all fb qs _ _ Doc.empty [] (hi.mgr i).1 (hi.mgr i).2
    (by intro u dp l hm; exact absurd hm (by simp))).2 d names h

theorem trig_names_expand : Statement_trig_names_expand := by
  intro ops fb cs d names h
  exact (serTrig_all fb cs _ Doc.empty [] (HInv.run ops HInv.init)
    (by intro u dp l hm; exact absurd hm (by simp))).2 d names h

/-- `xml_names_expand` for every history after which no prefix is bound to the empty namespace `URIRef("")`
    (decidable: `emptyNsUnbound`).  Then bindings only grow while the document is made (`Keep`: a generated
    `ns<k>` is a new key), every answer of the first pass stays memoised and valid, and the second pass repeats
    it.  (With `ns1` bound to `""` a generated `ns1` would unbind `""`; no strict answer can have the empty
    namespace, so the full statement is believed true as well — not proved, no counterexample.) -/
theorem xml_names_expand_partial :
    ∀ (ops : List Op) (i : Bool) (preds stmts : List Str) (t : List (Str × Str)) (names : List (Str × QN)),
      emptyNsUnbound (St.init.run ops).store = true →
      (∀ u, u ∈ stmts → u ∈ preds) →
      (serXml preds stmts (St.init.run ops).store ((St.init.run ops).mgr i)).2.2 = .ok (t, names) →
        ∀ u p n l, (u, p, n, l) ∈ names → alookup t p = some n ∧ n ++ l = u := by
  intro ops i preds stmts t names hne hsub h
  have hi := HInv.run ops HInv.init
  exact serXml_names hi.store (noEmpty_of_check hne) ((TInv.run ops TInv.init).mgr i) (hi.mgr i).1 (hi.mgr i).2
    preds stmts hsub t names h

theorem no_loop : Statement_no_loop :=
  ⟨St.step_noloop, fun _ op => St.step_noloop _ op, pickNs_terminates, pickNumbered_terminates,
    freshP_terminates⟩

theorem split_uri_complete : Statement_split_uri_complete :=
  ⟨startsOK_split, startsOK_strict, fun _ hs uri hx => splitUri_complete hs uri hx,
    fun _ _ hc hr => isNcname_of_strict hc hr⟩

theorem qname_fails_only_unsplittable : Statement_qname_fails_only_unsplittable :=
  fun ops i u e h => step_qname_error (HInv.run ops HInv.init) i u e h

theorem qname_strict_fails_only : Statement_qname_strict_fails_only :=
  fun ops i u e h => step_qstrict_error (HInv.run ops HInv.init) i u e h

theorem longest_is_longest : Statement_longest_is_longest := getLongest_build

theorem longest_in_histories : Statement_longest_in_histories := by
  intro ops i n0 uri
  have h := (TInv.run ops TInv.init).mgr i
  exact ⟨h, refine_spec h n0 uri⟩

theorem trie_inv_insert : Statement_trie_inv_insert := fun _ v h => insertForest_spec h v

theorem generated_prefix_fresh : Statement_generated_prefix_fresh := by
  intro ops
  exact ⟨pickNs_terminates _, fun f k p h => falsy_cases (pickNs_falsy _ f k p h),
    fun base n => pickNumbered_terminates _ base n,
    fun base n f k p h => falsy_cases (pickNumbered_fresh _ base n f k p h)⟩

/-! ### Non-vacuity and regression witnesses (concrete histories, by evaluation) -/

def sA : Str := [97]                                   -- "a"
def sB : Str := [98]                                   -- "b"
def nsE : Str := [104, 116, 116, 112, 58, 47, 47, 101, 47]          -- "http://e/"
def nsEa : Str := nsE ++ [97, 47]                      -- "http://e/a/"
def iriX : Str := nsEa ++ [120]                        -- "http://e/a/x"

/-- qname, re-bind the namespace to another prefix, qname again: the answer follows the binding
    (on this history the pinned code answered `a:x` although `a` was no longer bound) -/
def exHist : List Op :=
  [.bind false (some sA) nsEa true false, .bind false none nsE true false, .qname false iriX,
   .bind false (some sB) nsEa true false]

example : (St.init.run exHist).store.namespaces = [([], nsE), (sB, nsEa)] := by decide
example : ((St.init.run (exHist.take 2)).step (.qname false iriX)).2 = .str (sA ++ [58, 120]) := by decide
example : ((St.init.run exHist).step (.qname false iriX)).2 = .str (sB ++ [58, 120]) := by decide
example : ((St.init.run exHist).step (.cq true iriX false)).2 = .qn sB nsEa [120] := by decide
/-- a prefix is generated for an unbound namespace, and it is bound afterwards -/
example : ((St.init.run exHist).step (.cq false (nsE ++ [98, 35, 99]) true)).2 = .qn [110, 115, 49] (nsE ++ [98, 35]) [99] ∧
    ((St.init.run exHist).step (.cq false (nsE ++ [98, 35, 99]) true)).1.store.namespace [110, 115, 49] = some (nsE ++ [98, 35]) := by
  decide

/-- the trie after binding nested namespaces in an unfavourable order, and its lookups -/
def exKnown : List Str := [nsEa, nsE ++ [98], nsE, nsEa ++ [98, 47]]
example : getLongest iriX (exKnown.foldl insertForest []) = some nsEa := by decide
example : getLongest (nsEa ++ [98, 47, 120]) (exKnown.foldl insertForest []) = some (nsEa ++ [98, 47]) := by decide
example : getLongest [117, 114, 110, 58] (exKnown.foldl insertForest []) = none := by decide
example : pickNs (St.init.run exHist).store 3 1 = some [110, 115, 49] := by decide

/-- `_v` (renamed `p_v` in the document) together with a real `p_v` for another namespace, the `_v`
    term met first: the real `p_v` is written as `pp_v` and both names expand to their IRIs -/
def sUv : Str := [95, 118]
def sPv : Str := [112, 95, 118]
def exCollide : List Op := [.bind false (some sUv) nsE true false, .bind false (some sPv) nsEa true false]
example : ((St.init.run exCollide).step (.serdoc false true [(nsE ++ [115], false), (iriX, true)])).2 =
    .doc [(sPv, nsE), (112 :: sPv, nsEa)] := by decide
example : ((St.init.run exCollide).step (.serdoc false false [(iriX, true), (nsE ++ [115], false)])).2 =
    .doc [(sPv, nsEa), (112 :: sPv, nsE)] := by decide

/-- categories of a few code points of different planes (é Ll, 中 Lo, U+1D7D8 𝟘 Nd, U+E0001 Cf, U+10FFFF Cn) -/
example : (category 233, category 20013, category 120792, category 917505, category 1114111, category 1114112) =
    (catNames.idxOf "Ll", catNames.idxOf "Lo", catNames.idxOf "Nd", catNames.idxOf "Cf", catNames.idxOf "Cn", catUnknown) := by
  decide +kernel

/-- TriG: the named graph (manager 0) declares `a:`; the default graph (manager 1, whose trie does not know
    the longer namespace) meets the same prefix string `a` — re-bound in between is impossible inside one
    document, but a `_v` prefix and a real `p_v` still collide across contexts and are kept apart -/
example : ((St.init.run exCollide).step (.sertrig true
      [(false, [(nsE ++ [103], false), (nsE ++ [115], false)]), (true, [(iriX, true)])])).2 =
    .doc [(sPv, nsE), (112 :: sPv, nsEa)] := by decide
/-- RDF/XML: the `xmlns` table of a graph with the predicates `http://e/a/x` (prefix `b`) and `http://e/1a`
    (the strict split generates `ns1` for `http://e/1`), and the generated prefix is bound afterwards -/
example : ((St.init.run exHist).step (.serxml false [iriX, nsE ++ [49, 97]] [iriX, nsE ++ [49, 97]])).2 =
      .doc [(sB, nsEa), ([110, 115, 49], nsE ++ [49]), (strRdf, rdfNs),
            (33 :: sB ++ [58, 120], iriX), ([33, 110, 115, 49, 58, 97], nsE ++ [49, 97])] ∧
    emptyNsUnbound (St.init.run exHist).store = true ∧
    ((St.init.run exHist).step (.serxml false [iriX, nsE ++ [49, 97]] [iriX, nsE ++ [49, 97]])).1.store.namespace [110, 115, 49] =
      some (nsE ++ [49]) := by decide

/-- `bind_namespaces="cc"` raises NotImplementedError, an unknown mode ValueError; nothing is bound -/
example : (St.init.step (.minit false .cc)).2 = .err .Other ∧ (St.init.step (.minit true .unknown)).2 = .err .ValueError ∧
    (St.init.step (.minit false .cc)).1.store.namespaces = [] := by decide

/-- `split_uri` on the three shapes: a hyphen before the name is left in the namespace; "abc" raises;
    slash-ab-slash-hyphen wraps round and splits after the first slash; an IRI ending in slash-hyphen
    raises (its first character is a start character) -/
example : splitUri splitStartCats (nsEa ++ [45, 100]) = some (nsEa ++ [45], [100]) := by decide
example : splitUri splitStartCats [97, 98, 99] = none := by decide
example : splitUri splitStartCats [47, 97, 98, 47, 45] = some ([47], [97, 98, 47, 45]) := by decide
example : splitUri splitStartCats (nsE ++ [45]) = none := by decide
example : ((St.init.run exHist).step (.qname false (nsE ++ [45]))).2 = .err .ValueError := by decide
/-- `http://e/1`: the default split gives the local name `1`, which is not an NCName, and the strict split
    finds no name-start character after the last slash: `qname` answers, `qname_strict` raises ValueError -/
example : ((St.init.run exHist).step (.qname false (nsE ++ [49]))).2 = .str [49] ∧
    ((St.init.run exHist).step (.qstrict false (nsE ++ [49]))).2 = .err .ValueError := by decide

/-- The non-override branch of `Memory.bind` as it was before the `fix:` commit: with `p → n1`,
    `q → n2`, `bind(p, n2, override=False)` left a listing that is not a bijection. -/
theorem old_nonoverride_bind_breaks_bijection :
    ¬ Bij ((Store.mk [(nsE, sA), (nsEa, sB)] [(sA, nsE), (sB, nsEa)]).bindOld sA nsEa) := by
  intro h
  have := h.namespace_once
  revert this
  decide

/-- a prefix containing a colon cannot be expanded back (`expand_curie` splits at the first colon):
    the reason for the hypothesis of `expand_inverse` -/
theorem colon_prefix_not_expandable :
    let s := (St.init.step (.bind false (some [97, 58, 98]) nsE true false)).1
    (s.step (.curie false (nsE ++ [120]) true)).2 = .str [97, 58, 98, 58, 120] ∧
      expandCurie (s.step (.curie false (nsE ++ [120]) true)).1.store [97, 58, 98, 58, 120] = .err .ValueError := by
  decide

end RV.C17
