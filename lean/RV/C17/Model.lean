import RV.C17.Tables
/-
  C17 — model of prefix handling in rdflib (after the three `fix:` commits of branch fix-C17):

  * `rdflib/plugins/stores/memory.py`  `Memory.bind` = `SimpleMemory.bind` (identical code),
    `prefix`, `namespace`, `namespaces`                      → `Store`
  * `rdflib/namespace/__init__.py`  `NamespaceManager.bind`, `_store_bind`, `compute_qname`,
    `compute_qname_strict`, `qname`, `curie`, `qname_strict`, `normalizeUri`, `expand_curie`,
    `reset`, `__init__` (default bindings), `split_uri`, `is_ncname`, `insert_trie`,
    `insert_strie`, `get_longest_namespace`                 → `Mgr`, `splitUri`, `insertForest`, …
  * the glue that binds from other components: Turtle parser (`TurtleParser.parse`: dict of the
    document's `@prefix`es, then `graph.bind` each), RDF/XML parser (`startPrefixMapping`:
    `bind(prefix, ns or "", override=False)`), Turtle serializer (`getQName`: `compute_qname`
    with `generate` only for predicates, every exception swallowed).

  Strings are lists of code points.  Python dicts are association lists kept in insertion order
  (`d[k] = v` keeps the position of an existing key).  Python exceptions are `Out.err`.
  Several managers may sit on one store (every `Graph(store=…)` has its own; a `Dataset`'s
  default graph has its own, too): the state carries two managers.
-/
namespace RV.C17
open RV.C17.Tables

abbrev Str := List Nat

/-! ### dicts -/

def alookup {β : Type} : List (Str × β) → Str → Option β
  | [], _ => none
  | (k, v) :: r, x => if k = x then some v else alookup r x

/-- `del d[k]` / `d.pop(k)` (keys are unique in a dict; all occurrences are dropped) -/
def aerase {β : Type} : List (Str × β) → Str → List (Str × β)
  | [], _ => []
  | (k, v) :: r, x => if k = x then aerase r x else (k, v) :: aerase r x

/-- `d[k] = v` -/
def aset {β : Type} : List (Str × β) → Str → β → List (Str × β)
  | [], x, v => [(x, v)]
  | (k, w) :: r, x, v => if k = x then (k, v) :: r else (k, w) :: aset r x v

def hasKey {β : Type} : List (Str × β) → Str → Bool
  | [], _ => false
  | (k, _) :: r, x => k = x || hasKey r x

/-! ### the store's two dictionaries (`Memory.bind`, `SimpleMemory.bind`) -/

structure Store where
  pfx : List (Str × Str)   -- `__prefix`    : namespace ↦ prefix
  ns : List (Str × Str)    -- `__namespace` : prefix ↦ namespace
  deriving Repr, DecidableEq

def Store.empty : Store := ⟨[], []⟩
def Store.namespace (s : Store) (p : Str) : Option Str := alookup s.ns p
def Store.prefix (s : Store) (n : Str) : Option Str := alookup s.pfx n
def Store.namespaces (s : Store) : List (Str × Str) := s.ns

/-- `del d[k]` raises KeyError when the key is absent -/
def adel {β : Type} (l : List (Str × β)) (k : Str) : Option (List (Str × β)) :=
  if hasKey l k then some (aerase l k) else none

/-- `Memory.bind(prefix, namespace, override)`; `none` = a `del` raised KeyError
    (shown impossible on reachable stores: `Store.bind_isSome`). -/
def Store.bind (s : Store) (p n : Str) (override : Bool) : Option Store :=
  let bn := alookup s.ns p
  let bp := match alookup s.pfx n with
    | some q => some q
    | none => (match bn with
      | some m => alookup s.pfx m
      | none => none)
  if override then
    match (match bp with
           | some q => adel s.ns q
           | none => some s.ns) with
    | none => none
    | some ns1 =>
      match (match bn with
             | some m => adel s.pfx m
             | none => some s.pfx) with
      | none => none
      | some pfx1 => some ⟨aset pfx1 n p, aset ns1 p n⟩
  else
    match bp, bn with
    | none, none => some ⟨aset s.pfx n p, aset s.ns p n⟩
    | _, _ => some s

/-- the non-override branch before `fix: Memory.bind … keeps the maps inverse`
    (kept to document the defect; not used by the model) -/
def Store.bindOld (s : Store) (p n : Str) : Store :=
  let bn := alookup s.ns p
  let bp := match alookup s.pfx n with
    | some q => some q
    | none => (match bn with
      | some m => alookup s.pfx m
      | none => none)
  let pfx1 := aset s.pfx (bn.getD n) (bp.getD p)
  ⟨pfx1, aset s.ns (bp.getD p) (bn.getD n)⟩

/-! ### characters, `is_ncname`, `split_uri` -/

/-- descent in the search tree `Tables.catTree` (the C table lookup of `unicodedata.category`) -/
def Tables.CatTree.get : CatTree → Nat → Nat
  | .leaf k, _ => k
  | .node p l r, c => if c < p then l.get c else r.get c

/-- `unicodedata.category(c)` as an index into `Tables.catNames`, for every code point of the running
    Python's Unicode database (the table is regenerated from it on every run) -/
def category (c : Nat) : Nat := if c < catLimit then catTree.get c else catUnknown
def inCats (cats : List Nat) (c : Nat) : Bool := cats.contains (category c)
/-- `category(c) in NAME_CATEGORIES or c in ALLOWED_NAME_CHARS` -/
def isNameChar (c : Nat) : Bool := inCats nameCats c || allowedNameChars.contains c

def restNc : Str → Bool
  | [] => true
  | c :: cs => isNameChar c && restNc cs

def isNcname : Str → Bool
  | [] => false
  | c :: cs => (c == 95 || inCats nameStartCats c) && restNc cs

/-- index of the right-most character that is neither of a name category nor allowed
    (the outer loop of `split_uri`, which walks from the end) -/
def lastBreak : Str → Option Nat
  | [] => none
  | c :: cs =>
    match lastBreak cs with
    | some k => some (k + 1)
    | none => if isNameChar c then none else some 0

def isStartAt (starts : List Nat) (uri : Str) (j : Nat) : Bool :=
  match uri[j]? with
  | some c => inCats starts c || c == 95
  | none => false

def firstStart (starts : List Nat) (uri : Str) : List Nat → Option Nat
  | [] => none
  | j :: js => if isStartAt starts uri j then some j else firstStart starts uri js

/-- `split_uri(uri, split_start)`; `none` = ValueError.  The inner loop of the code runs `j`
    over `range(-1 - i, length)`: the tail positions and then, wrapping round, `0 … length-1`. -/
def splitUri (starts : List Nat) (uri : Str) : Option (Str × Str) :=
  if xmlns.isPrefixOf uri then some (xmlns, uri.drop xmlns.length)
  else
    match lastBreak uri with
    | none => none
    | some k =>
      match firstStart starts uri (List.range' k (uri.length - k) ++ List.range uri.length) with
      | none => none
      | some j => if j = 0 then none else some (uri.take j, uri.drop j)

def validUri (uri : Str) : Bool := !(uri.any (fun c => invalidUriChars.contains c))

/-! ### decimal numerals (`"%s" % num`) -/

/-- decimal digits with fuel (`fuel ≥ n` always suffices: `dec_eq_decW`) -/
def decF : Nat → Nat → Str
  | 0, n => [48 + n % 10]
  | f + 1, n => if n < 10 then [48 + n] else decF f (n / 10) ++ [48 + n % 10]

def dec (n : Nat) : Str := decF n n

/-! ### the trie of known namespaces (`insert_trie`, `get_longest_namespace`) -/

inductive Trie where
  | node (key : Str) (cs : List Trie)
  deriving Repr

/-- a dict `{key: sub-dict}` in insertion order -/
abbrev Forest := List Trie

def Trie.key : Trie → Str
  | .node k _ => k
def Trie.cs : Trie → Forest
  | .node _ cs => cs

def hasKeyT : Forest → Str → Bool
  | [], _ => false
  | t :: r, x => t.key = x || hasKeyT r x

/- `insert_trie(trie, value)` on the dict `trie`.  The loop over `tuple(trie.keys())` is `insLoop`:
   `kept` = entries passed and left in place, `moved` = entries already re-hung below the new
   node `value` (which sits at the end of the dict as soon as `moved` is non-empty).
   `insChild v t` is the recursive call `insert_trie(trie[key], value)` on the sub-dict of `t`. -/
mutual
def insChild (v : Str) : Trie → Trie
  | .node k cs => .node k (if hasKeyT cs v then cs else insLoop v cs [] [])
termination_by structural t => t
def insLoop (v : Str) : Forest → Forest → Forest → Forest
  | [], kept, moved => kept ++ [.node v moved]
  | t :: rest, kept, moved =>
    if t.key.length < v.length && t.key.isPrefixOf v then
      kept ++ insChild v t :: rest ++ (if moved.isEmpty then [] else [.node v moved])
    else if v.isPrefixOf t.key then insLoop v rest kept (moved ++ [t])
    else insLoop v rest (kept ++ [t]) moved
termination_by structural f => f
end

def insertForest (f : Forest) (v : Str) : Forest :=
  if hasKeyT f v then f else insLoop v f [] []

/- `get_longest_namespace(trie, value)`: the first key that prefixes `value`, then as deep as possible -/
mutual
def getLongestT (v : Str) : Trie → Option Str
  | .node k cs =>
    if k.isPrefixOf v then
      (match getLongest v cs with
       | none => some k
       | some r => some r)
    else none
termination_by structural t => t
def getLongest (v : Str) : Forest → Option Str
  | [] => none
  | t :: rest =>
    match getLongestT v t with
    | some r => some r
    | none => getLongest v rest
termination_by structural f => f
end

/- the dict `__strie[v]` is (an alias of) the children dict of the node `v` of `__trie` -/
mutual
def findSubT (v : Str) : Trie → Option Forest
  | .node k cs => if k = v then some cs else findSub v cs
termination_by structural t => t
def findSub (v : Str) : Forest → Option Forest
  | [] => none
  | t :: rest =>
    match findSubT v t with
    | some r => some r
    | none => findSub v rest
termination_by structural f => f
end

/-! ### NamespaceManager -/

inductive Err | KeyError | ValueError | Other | Loop
  deriving Repr, DecidableEq

inductive Out
  | unit
  | qn (p ns l : Str)
  | str (s : Str)
  | err (e : Err)
  | doc (table : List (Str × Str))
  deriving Repr, DecidableEq

abbrev QN := Str × Str × Str   -- (prefix, namespace, name)

structure Mgr where
  cache : List (Str × QN)      -- `__cache`
  scache : List (Str × QN)     -- `__cache_strict`
  trie : Forest                -- `__trie`
  strie : List Str             -- keys of `__strie`
  deriving Repr

def Mgr.empty : Mgr := ⟨[], [], [], []⟩

/-- Python truthiness of `store.namespace(p)`: `None` and `URIRef("")` are falsy -/
def truthy : Option Str → Bool
  | none => false
  | some [] => false
  | some _ => true

def Mgr.insertTrie (m : Mgr) (n : Str) : Mgr := { m with trie := insertForest m.trie n }

/-- `if namespace not in self.__strie: insert_strie(self.__strie, self.__trie, namespace)` -/
def Mgr.ensureStrie (m : Mgr) (n : Str) : Mgr :=
  if m.strie.contains n then m else { m with strie := m.strie ++ [n], trie := insertForest m.trie n }

/-- `_store_bind` followed by `insert_trie` -/
def bindAndInsert (st : Store) (m : Mgr) (p n : Str) (ov : Bool) : Store × Mgr × Out :=
  match st.bind p n ov with
  | some st' => (st', m.insertTrie n, .unit)
  | none => (st, m, .err .KeyError)

inductive Pick | already | fresh (p : Str) | loop

/-- the `while 1:` of `bind`: first `base ++ num` that is unbound (or already bound to `n`) -/
def pickNumbered (st : Store) (base n : Str) : Nat → Nat → Pick
  | 0, _ => .loop
  | fuel + 1, num =>
    let np := base ++ dec num
    let t := st.namespace np
    if truthy t && t == some n then .already
    else if !truthy t then .fresh np
    else pickNumbered st base n fuel (num + 1)

def strDefault : Str := [100, 101, 102, 97, 117, 108, 116]   -- "default"
def strNs : Str := [110, 115]                               -- "ns"

/-- `NamespaceManager.bind(prefix, namespace, override, replace)` -/
def Mgr.bind (st : Store) (m : Mgr) (pre : Option Str) (n : Str) (ov rp : Bool) : Store × Mgr × Out :=
  let p := pre.getD []
  if p.contains 32 then (st, m, .err .KeyError)
  else
    let bound := st.namespace p
    if truthy bound && bound != some n then
      if rp then bindAndInsert st m p n ov
      else
        let base := if p.isEmpty then strDefault else p
        match pickNumbered st base n (st.ns.length + 1) 1 with
        | .already => (st, m, .unit)
        | .fresh np => bindAndInsert st m np n ov
        | .loop => (st, m, .err .Loop)
    else
      match st.prefix n with
      | none => bindAndInsert st m p n ov
      | some bp =>
        if bp = p then (st, m.insertTrie n, .unit)
        else if ov || bp.head? == some 95 then bindAndInsert st m p n ov
        else (st, m.insertTrie n, .unit)

/-- the `while 1:` of `compute_qname`: first `ns<num>` whose namespace is falsy -/
def pickNs (st : Store) : Nat → Nat → Option Str
  | 0, _ => none
  | fuel + 1, num =>
    let p := strNs ++ dec num
    if truthy (st.namespace p) then pickNs st fuel (num + 1) else some p

/-- tail of `compute_qname` / `compute_qname_strict`: look the namespace up, generate a prefix
    if needed; returns the cache entry to store. -/
def lookupOrGenerate (st : Store) (m : Mgr) (n name : Str) (generate : Bool) :
    Store × Mgr × Except Err QN :=
  match st.prefix n with
  | some p => (st, m, .ok (p, n, name))
  | none =>
    if !generate then (st, m, .error .KeyError)
    else
      match pickNs st (st.ns.length + 1) 1 with
      | none => (st, m, .error .Loop)
      | some p =>
        let r := Mgr.bind st m (some p) n true false
        match r.2.2 with
        | .err e => (r.1, r.2.1, .error e)
        | _ => (r.1, r.2.1, .ok (p, n, name))

/-- cache entries are trusted only while the binding they used is still current
    (`fix: NamespaceManager … validates cached qnames`) -/
def validEntry (st : Store) (c : List (Str × QN)) (uri : Str) : List (Str × QN) :=
  match alookup c uri with
  | some (p, n, _) => if st.prefix n == some p then c else aerase c uri
  | none => c

/-- `try: split_uri(uri) except ValueError:` the whole IRI if it is itself a namespace with a
    non-empty prefix -/
def splitOrWhole (st : Store) (uri : Str) : Option (Str × Str) :=
  match splitUri splitStartCats uri with
  | some r => some r
  | none =>
    match st.prefix uri with
    | some p => if p.isEmpty then none else some (uri, [])
    | none => none

/-- `if self.__strie[namespace]: pl_namespace = get_longest_namespace(self.__strie[namespace], uri) …` -/
def refineLongest (trie : Forest) (n0 name0 uri : Str) : Str × Str :=
  match (findSub n0 trie).bind (getLongest uri) with
  | some pl => (pl, uri.drop pl.length)
  | none => (n0, name0)

/-- `NamespaceManager.compute_qname(uri, generate)` -/
def Mgr.computeQname (st : Store) (m : Mgr) (uri : Str) (generate : Bool) :
    Store × Mgr × Except Err QN :=
  let m := { m with cache := validEntry st m.cache uri }
  match alookup m.cache uri with
  | some r => (st, m, .ok r)
  | none =>
    if !validUri uri then (st, m, .error .ValueError)
    else
      match splitOrWhole st uri with
      | none => (st, m, .error .ValueError)
      | some (n0, name0) =>
        let m := m.ensureStrie n0
        let nn := refineLongest m.trie n0 name0 uri
        let r := lookupOrGenerate st m nn.1 nn.2 generate
        match r.2.2 with
        | .ok q => (r.1, { r.2.1 with cache := aset r.2.1.cache uri q }, .ok q)
        | .error e => (r.1, r.2.1, .error e)

/-- second half of `compute_qname_strict`: the name is not an NCName, split at a strict name start -/
def Mgr.strictTail (st : Store) (m : Mgr) (uri : Str) (generate : Bool) :
    Store × Mgr × Except Err QN :=
  let m := { m with scache := validEntry st m.scache uri }
  match alookup m.scache uri with
  | some r => (st, m, .ok r)
  | none =>
    match splitUri nameStartCats uri with
    | none => (st, m, .error .ValueError)
    | some (n0, name0) =>
      let m := m.ensureStrie n0
      let r := lookupOrGenerate st m n0 name0 generate
      match r.2.2 with
      | .ok q => (r.1, { r.2.1 with scache := aset r.2.1.scache uri q }, .ok q)
      | .error e => (r.1, r.2.1, .error e)

/-- `NamespaceManager.compute_qname_strict(uri, generate)` -/
def Mgr.computeQnameStrict (st : Store) (m : Mgr) (uri : Str) (generate : Bool) :
    Store × Mgr × Except Err QN :=
  let r0 := Mgr.computeQname st m uri generate
  match r0.2.2 with
  | .error e => (r0.1, r0.2.1, .error e)
  | .ok (p, n, name) =>
    if isNcname name then (r0.1, r0.2.1, .ok (p, n, name))
    else Mgr.strictTail r0.1 r0.2.1 uri generate

def joinQ (p l : Str) : Str := p ++ 58 :: l
/-- `qname` / `qname_strict`: bare name for the empty prefix -/
def showQname : QN → Str
  | (p, _, l) => if p.isEmpty then l else joinQ p l

/-- `NamespaceManager.normalizeUri(term)` for a URIRef (reached through `URIRef.n3(nm)`, which
    raises a plain `Exception` first when the IRI has a forbidden character) -/
def Mgr.normalizeUri (st : Store) (m : Mgr) (uri : Str) : Store × Mgr × Out :=
  if !validUri uri then (st, m, .err .Other)
  else
    let angle : Str := 60 :: uri ++ [62]
    match splitUri splitStartCats uri with
    | none => (st, m, .str angle)
    | some (n0, _) =>
      let m := m.ensureStrie n0
      match st.prefix n0 with
      | none => (st, m, .str angle)
      | some _ =>
        let r := Mgr.computeQname st m uri true
        match r.2.2 with
        | .ok (p, _, l) => (r.1, r.2.1, .str (joinQ p l))
        | .error e => (r.1, r.2.1, .err e)

def splitColon : Str → Option (Str × Str)
  | [] => none
  | c :: cs =>
    if c = 58 then some ([], cs)
    else
      match splitColon cs with
      | some (a, b) => some (c :: a, b)
      | none => none

/-- `NamespaceManager.expand_curie(curie)` -/
def expandCurie (st : Store) (curie : Str) : Out :=
  match splitColon curie with
  | none => .err .ValueError
  | some (p, l) =>
    match st.namespace p with
    | some n => .str (n ++ l)
    | none => .err .ValueError

/-- `NamespaceManager.reset()` (`__cache_strict` is not cleared by the code) -/
def Mgr.reset (st : Store) (m : Mgr) : Mgr :=
  { m with cache := [], strie := [],
           trie := st.namespaces.foldl (fun t pn => insertForest t pn.2) [] }

/-- `for prefix, ns in table.items(): self.bind(prefix, ns)` -/
def bindAll (ov : Bool) : List (Option Str × Str) → Store → Mgr → Store × Mgr × Out
  | [], st, m => (st, m, .unit)
  | (p, n) :: r, st, m =>
    let b := Mgr.bind st m p n ov false
    match b.2.2 with
    | .err e => (b.1, b.2.1, .err e)
    | _ => bindAll ov r b.1 b.2.1

/-- the `bind_namespaces` argument: the three implemented modes, `"cc"` (NotImplementedError) and any
    other string (ValueError) -/
inductive BindSet | none | core | rdflib | cc | unknown
  deriving Repr, DecidableEq

/-- the modes for which `NamespaceManager.__init__` raises (so that no manager comes into being) -/
def BindSet.bad : BindSet → Option Err
  | .cc => some .Other
  | .unknown => some .ValueError
  | _ => Option.none

def someKeys (l : List (Str × Str)) : List (Option Str × Str) := l.map (fun pn => (some pn.1, pn.2))

/-- `NamespaceManager.__init__(graph, bind_namespaces)`: `self.bind(prefix, ns, override=False)` over
    the default tables (since `fix: a NamespaceManager created on a store that already has bindings
    does not rebind their namespaces to the default prefixes`; before it the binds were overriding) -/
def Mgr.init (st : Store) : BindSet → Store × Mgr × Out
  | .none => (st, Mgr.empty, .unit)
  | .core => bindAll false (someKeys nsCore) st Mgr.empty
  | .rdflib => bindAll false (someKeys nsRdflib ++ someKeys nsCore) st Mgr.empty
  | .cc => (st, Mgr.empty, .err .Other)
  | .unknown => (st, Mgr.empty, .err .ValueError)

/-- the Turtle parser's `_bindings` dict (later `@prefix` for the same prefix wins, position of
    the first), then `graph.bind(prefix, namespace)` for each -/
def parseTurtle (st : Store) (m : Mgr) (decls : List (Str × Str)) : Store × Mgr × Out :=
  bindAll true (someKeys (decls.foldl (fun d pn => aset d pn.1 pn.2) [])) st m

/-- RDF/XML `startPrefixMapping`: `bind(prefix, namespace or "", override=False)` in attribute order -/
def parseXml (st : Store) (m : Mgr) (decls : List (Option Str × Str)) : Store × Mgr × Out :=
  bindAll false decls st m

/-- Turtle serializer `getQName` calls for one triple `s p o` of IRIs: `preprocessTriple`, then
    the labels while writing; prefixes are generated for the predicate only; errors swallowed. -/
def getQNames : List (Str × Bool) → Store → Mgr → Store × Mgr
  | [], st, m => (st, m)
  | (u, g) :: r, st, m =>
    let q := Mgr.computeQname st m u g
    getQNames r q.1 q.2.1

def serializeTriple (st : Store) (m : Mgr) (s p o : Str) : Store × Mgr :=
  getQNames [(s, false), (p, true), (o, false), (s, false), (p, true), (o, false)] st m

/-! ### the prefix table of one Turtle / N3 / longturtle document (`TurtleSerializer.addNamespace`) -/

structure Doc where
  table : List (Str × Str)     -- `self.namespaces`  : document prefix ↦ namespace (the `@prefix` lines)
  rewrite : List (Str × Str)   -- `self._ns_rewrite` : graph prefix ↦ document prefix
  deriving Repr

def Doc.empty : Doc := ⟨[], []⟩

/-- `p = "p" + prefix; while p in self.namespaces: p = "p" + p` -/
def freshP (table : List (Str × Str)) : Nat → Str → Option Str
  | 0, _ => none
  | fuel + 1, p => if hasKey table p then freshP table fuel (112 :: p) else some p

/-- `TurtleSerializer.addNamespace(prefix, namespace)`: prefixes starting with `_`, and prefixes
    already used in the document for another namespace, are renamed to `p…`; the base class then
    refuses (raises) to give a declared prefix a second namespace. Returns the document prefix. -/
def Doc.addNamespace (d : Doc) (p n : Str) : Except Err (Doc × Str) :=
  let needs := p.head? == some 95 || (alookup d.table p).getD n != n
  let rw : Option (List (Str × Str) × Str) :=
    if needs then
      match alookup d.rewrite p with
      | some q => some (d.rewrite, q)
      | none =>
        match freshP d.table (d.table.length + 1) (112 :: p) with
        | some q => some (aset d.rewrite p q, q)
        | none => none
    else some (d.rewrite, p)
  match rw with
  | none => .error .Loop
  | some (rwt, q) =>
    match alookup d.table q with
    | some n' => if n' != n then .error .Other else .ok (⟨aset d.table q n, rwt⟩, q)
    | none => .ok (⟨aset d.table q n, rwt⟩, q)

/-- `TurtleSerializer.getQName(uri, gen_prefix)` for a URIRef: `compute_qname`, on any exception the
    IRI's own prefix if it is a bound namespace; the prefix is registered in the document; no name
    if the local part ends with `.`.  `some (d, l)` = the name `d:l` was produced.
    The fallback reads `self.store.store.prefix(uri)`, i.e. the store of the *graph* being written:
    `fb` = that store is the manager's store (false for a graph that borrows the manager of a graph
    on another store: its own store holds no bindings). -/
def docGetQName (st : Store) (m : Mgr) (d : Doc) (uri : Str) (gen fb : Bool) :
    Store × Mgr × Except Err (Doc × Option (Str × Str)) :=
  let r := Mgr.computeQname st m uri gen
  let parts : Option QN :=
    match r.2.2 with
    | .ok q => some q
    | .error _ =>
      match (if fb then r.1.prefix uri else none) with
      | some pfx => some (pfx, uri, [])
      | none => none
  match parts with
  | none => (r.1, r.2.1, .ok (d, none))
  | some (p, n, l) =>
    -- the prefix is declared even if this name cannot use it (`local.endswith(".")`)
    match d.addNamespace p n with
    | .ok (d', q) => (r.1, r.2.1, .ok (d', if l.getLast? == some 46 then none else some (q, l)))
    | .error e => (r.1, r.2.1, .error e)

/-- `preprocess()` of a document: `getQName` for every IRI node in the order the triples are met
    (`generate` only for predicates).  Returns the names produced: (IRI, document prefix, local). -/
def serDoc (fb : Bool) : List (Str × Bool) → Store → Mgr → Doc → List (Str × Str × Str) →
    Store × Mgr × Except Err (Doc × List (Str × Str × Str))
  | [], st, m, d, acc => (st, m, .ok (d, acc))
  | (u, g) :: r, st, m, d, acc =>
    let q := docGetQName st m d u g fb
    match q.2.2 with
    | .error e => (q.1, q.2.1, .error e)
    | .ok (d', none) => serDoc fb r q.1 q.2.1 d' acc
    | .ok (d', some (dp, l)) => serDoc fb r q.1 q.2.1 d' (acc ++ [(u, dp, l)])

/-! ### the RDF/XML serializer (`XMLSerializer.__bindings`, `predicate`) -/

/-- `compute_qname_strict(u)` (generate) for a sequence of IRIs; the first exception ends it -/
def strictSeq : List Str → Store → Mgr → List (Str × QN) → Store × Mgr × Except Err (List (Str × QN))
  | [], st, m, acc => (st, m, .ok acc)
  | u :: r, st, m, acc =>
    let q := Mgr.computeQnameStrict st m u true
    match q.2.2 with
    | .error e => (q.1, q.2.1, .error e)
    | .ok a => strictSeq r q.1 q.2.1 (acc ++ [(u, a)])

def strRdf : Str := [114, 100, 102]   -- "rdf"
/-- the constant `RDFNS` of rdfxml.py -/
def rdfNs : Str := [104, 116, 116, 112, 58, 47, 47, 119, 119, 119, 46, 119, 51, 46, 111, 114, 103, 47, 49, 57, 57, 57, 47, 48, 50, 47, 50, 50, 45, 114, 100, 102, 45, 115, 121, 110, 116, 97, 120, 45, 110, 115, 35]

/-- `XMLSerializer.serialize`: `__bindings()` — `compute_qname_strict(p)` for every predicate of the graph
    (`preds`: the set of predicates in its iteration order), collected in a dict prefix ↦ namespace, `rdf`
    added (AssertionError if `rdf` is there with another namespace) — gives the `xmlns` declarations; then
    `qname_strict(p)` for the predicate of every statement written (`stmts`).  Result: the `xmlns` table
    and, per statement, the predicate with the (prefix, namespace, local) its element name is made of. -/
def xmlTable (ans : List (Str × QN)) : List (Str × Str) := ans.foldl (fun t a => aset t a.2.1 a.2.2.1) []

def serXml (preds stmts : List Str) (st : Store) (m : Mgr) :
    Store × Mgr × Except Err (List (Str × Str) × List (Str × QN)) :=
  let r1 := strictSeq preds st m []
  match r1.2.2 with
  | .error e => (r1.1, r1.2.1, .error e)
  | .ok ans =>
    let t := xmlTable ans
    let t' : Option (List (Str × Str)) :=
      match alookup t strRdf with
      | some n => if n = rdfNs then some t else none
      | none => some (aset t strRdf rdfNs)
    match t' with
    | none => (r1.1, r1.2.1, .error .Other)
    | some t' =>
      let r2 := strictSeq stmts r1.1 r1.2.1 []
      match r2.2.2 with
      | .error e => (r2.1, r2.2.1, .error e)
      | .ok names => (r2.1, r2.2.1, .ok (t', names))

/-! ### histories -/

inductive Op
  | minit (m : Bool) (b : BindSet)
  | bind (m : Bool) (p : Option Str) (n : Str) (ov rp : Bool)
  | sbind (p n : Str) (ov : Bool)
  | cq (m : Bool) (u : Str) (g : Bool)
  | cqs (m : Bool) (u : Str) (g : Bool)
  | qname (m : Bool) (u : Str)
  | qstrict (m : Bool) (u : Str)
  | curie (m : Bool) (u : Str) (g : Bool)
  | n3 (m : Bool) (u : Str)
  | expand (c : Str)
  | reset (m : Bool)
  | parse (m : Bool) (d : List (Str × Str))
  | parsexml (m : Bool) (d : List (Option Str × Str))
  | ser (m : Bool) (s p o : Str)
  | serdoc (m : Bool) (fb : Bool) (qs : List (Str × Bool))
  | sertrig (fb : Bool) (cs : List (Bool × List (Str × Bool)))
  | serxml (m : Bool) (preds stmts : List Str)
  deriving Repr

structure St where
  store : Store
  m0 : Mgr
  m1 : Mgr
  deriving Repr

def St.init : St := ⟨Store.empty, Mgr.empty, Mgr.empty⟩
def St.mgr (s : St) (i : Bool) : Mgr := if i then s.m1 else s.m0
def St.put (s : St) (i : Bool) (r : Store × Mgr) : St :=
  if i then { s with store := r.1, m1 := r.2 } else { s with store := r.1, m0 := r.2 }

def outQN : Except Err QN → Out
  | .ok (p, n, l) => .qn p n l
  | .error e => .err e
def outStr (f : QN → Str) : Except Err QN → Out
  | .ok r => .str (f r)
  | .error e => .err e

/-- `TrigSerializer.preprocess()`: one document, one prefix table, but every context (graph) of the
    dataset is walked through *its own* graph object — `self.store = context` — hence through that
    graph's manager: the named graphs of a `Dataset` share the dataset's manager, its default graph
    has its own.  Each context contributes `getQName(context.identifier, False)` and then the nodes
    of its triples (the harness puts the identifier first in the context's list). -/
def serTrig (fb : Bool) : List (Bool × List (Str × Bool)) → St → Doc → List (Str × Str × Str) →
    St × Except Err (Doc × List (Str × Str × Str))
  | [], s, d, acc => (s, .ok (d, acc))
  | (i, qs) :: r, s, d, acc =>
    let q := serDoc fb qs s.store (s.mgr i) d acc
    match q.2.2 with
    | .error e => (s.put i (q.1, q.2.1), .error e)
    | .ok (d', acc') => serTrig fb r (s.put i (q.1, q.2.1)) d' acc'

def St.step (s : St) : Op → St × Out
  | .minit i b =>
    match b.bad with
    | some e => (s, .err e)   -- the constructor raised: there is no new manager, the old one stays
    | none => let r := Mgr.init s.store b; (s.put i (r.1, r.2.1), r.2.2)
  | .bind i p n ov rp => let r := Mgr.bind s.store (s.mgr i) p n ov rp; (s.put i (r.1, r.2.1), r.2.2)
  | .sbind p n ov =>
    match s.store.bind p n ov with
    | some st' => ({ s with store := st' }, .unit)
    | none => (s, .err .KeyError)
  | .cq i u g => let r := Mgr.computeQname s.store (s.mgr i) u g; (s.put i (r.1, r.2.1), outQN r.2.2)
  | .cqs i u g => let r := Mgr.computeQnameStrict s.store (s.mgr i) u g; (s.put i (r.1, r.2.1), outQN r.2.2)
  | .qname i u => let r := Mgr.computeQname s.store (s.mgr i) u true; (s.put i (r.1, r.2.1), outStr showQname r.2.2)
  | .qstrict i u => let r := Mgr.computeQnameStrict s.store (s.mgr i) u true; (s.put i (r.1, r.2.1), outStr showQname r.2.2)
  | .curie i u g => let r := Mgr.computeQname s.store (s.mgr i) u g; (s.put i (r.1, r.2.1), outStr (fun q => joinQ q.1 q.2.2) r.2.2)
  | .n3 i u => let r := Mgr.normalizeUri s.store (s.mgr i) u; (s.put i (r.1, r.2.1), r.2.2)
  | .expand c => (s, expandCurie s.store c)
  | .reset i => (s.put i (s.store, Mgr.reset s.store (s.mgr i)), .unit)
  | .parse i d => let r := parseTurtle s.store (s.mgr i) d; (s.put i (r.1, r.2.1), r.2.2)
  | .parsexml i d => let r := parseXml s.store (s.mgr i) d; (s.put i (r.1, r.2.1), r.2.2)
  | .ser i a b c => (s.put i (serializeTriple s.store (s.mgr i) a b c), .unit)
  | .serdoc i fb qs =>
    -- the harness calls `reset()` right after the serialisation (see harness/c17.py)
    let r := serDoc fb qs s.store (s.mgr i) Doc.empty []
    (s.put i (r.1, Mgr.reset r.1 r.2.1),
      match r.2.2 with
      | .ok (d, _) => .doc d.table
      | .error e => .err e)

  | .serxml i preds stmts =>
    let r := serXml preds stmts s.store (s.mgr i)
    (s.put i (r.1, r.2.1),
      match r.2.2 with
      -- observed: the xmlns table and, marked `!`, every element name written with the predicate it stands for
      | .ok (t, names) => .doc (t ++ names.map (fun x => (33 :: showQname x.2, x.1)))
      | .error e => .err e)
  | .sertrig fb cs =>
    -- the harness calls `reset()` on both managers right after the serialisation
    let r := serTrig fb cs s Doc.empty []
    (⟨r.1.store, Mgr.reset r.1.store r.1.m0, Mgr.reset r.1.store r.1.m1⟩,
      match r.2 with
      | .ok (d, _) => .doc d.table
      | .error e => .err e)

def St.run (s : St) (ops : List Op) : St := ops.foldl (fun s o => (s.step o).1) s

end RV.C17
